import Comdex.Lemmas.LiqOrders
import Comdex.Lemmas.LiqAmmBridge
import Comdex.Lemmas.LiqMoves
import Comdex.Lemmas.LiqFarm
import Comdex.Lemmas.LiqSupply
import Comdex.Lemmas.LiqFee
import Comdex.Props.C05
/-!
# C04 — Liquidity custody: escrows, reserves and farmed pool coins are fully backed

Model: `Comdex.LiqLedger` (`Model/LiqLedger.lean`) — every bank movement and every record of x/liquidity's requests,
orders, farming and pools; matching / pool-maths results enter as observed inputs.  Histories: any finite list of
`Op`s (create pair / pool (basic, ranged), deposit, withdraw, limit / market / MM order, cancel, cancelAll, cancelMM,
farm, unfarm, depositAndFarm, unfarmAndWithdraw, per-app EndBlocker and BeginBlocker, block header) applied from a
genesis in which users hold arbitrary coins; a rejected message / failed hook leaves the state untouched (`stepT`).

Property clause → theorem
* "the global escrow account holds at least the coins of all pending deposit and withdrawal requests"
      → `escrow_ge_requests` (and the exact form `escrow_eq_requests`)
* "each pair's escrow account holds at least the remaining offer coins of all its live orders"
      → `pair_escrow_exact` (always: escrow = Σ live (remaining + fee reserve) + what matching took in − handed out),
        `pair_escrow_ge_orders_offset` (always, NO premise: escrow + `lostOf` ≥ Σ remaining, where `lostOf a p ops` sums what
          the match results of that pair handed out beyond what they took in),
        `modelled_match_quote_exact`, `modelled_match_base_offset`, `modelled_match_deficit` (what C05 PROVES of the
          modelled matcher, in ledger terms: the quote side of a modelled match balances exactly, the base side up to
          `lostBase` = the remainder dropped by the re-runs of the pro-rata distribution, D2; 0 when `matchLossless`),
        `pair_escrow_ge_orders_modelled` (escrow ≥ Σ remaining for histories whose match results are lossless runs of the
          modelled matcher — no coin-conservation premise), `pair_escrow_ge_orders` (same from `MatchConserving`),
        `pair_escrow_ge_orders_counterexample`, `d2_offset_witness` (the D2 book of C05: deficit exactly 1000 base)
* (ledger of a batch — what "fully backed" rests on) no ordinary coin is minted or burnt by any message or hook, in
  particular not by matching; the dust collector and the pool reserves move by exactly the named amounts
      → `coins_conserved` (every history, every coin denom: Σ over all real accounts constant), `bank_keys_unique`,
        `batch_conserves_coins`, `batch_dust_exact`, `batch_reserve_exact`
        `batch_fee_collector_exact` (the swap-fee collector of each pair: exactly the fee on the executed portions of the
        orders that ended in the batch; every operation: `C07.fee_collector_exact`)
        (orderers: `C07.finish_moves_exactly`, `C07.fill_pays_demand_coins`, `C07.ended_order_accounts`)
* "the liquidity module account holds exactly the pool coins recorded as farmed (queued plus active) for every pool"
      → `farm_custody_exact`
      (holds for EVERY pool of every history, enabled or disabled — farm / unfarm do not look at the flag, the code never
       deletes a pool), with the farming mechanics behind it: `unfarm_newest_first` (the unfarm loop = take from the newest
       queue entries, the active position only gives what the queue cannot cover), `maturation_exact` and
       `no_mature_entry_after_batch` (ProcessQueuedFarmers moves exactly the entries older than the queue duration)
* request lifecycle: a pending request stays backed over any number of batches (`escrow_eq_requests`), and if its pool is
  disabled when it is finally executed it is refunded in full → `deposit_refunded_if_pool_disabled`,
  `withdraw_refunded_if_pool_disabled`
* "every pool whose pool-coin supply has reached zero is marked disabled" → `zero_supply_disabled`
* "pool-coin supply changes only by pool creation and by deposits and withdrawals executed against that pool"
      → `poolcoin_supply_only_by_pool_ops` (which operations can change it at all),
        `poolcoin_supply_exact` (EVERY operation except begin-block pruning and pool creation: Δ supply of pool (a, pl) = pool
          coins minted by the deposit requests of THAT pool that newly succeeded − pool coins burnt by the withdrawal requests
          of THAT pool that newly succeeded — batches of later blocks, `MsgDepositAndFarm` / `MsgUnfarmAndWithdraw`, failing
          requests, basic and ranged pools), `poolcoin_supply_fixed_without_executed_request`,
        `poolcoin_supply_create_and_prune` (creation adds ONE pool with positive supply and leaves the others; pruning
          touches no pool)
* (round 5) histories may contain the store migration 1 → 2 (`Op.migrate`, see `C07.migration_preserves_orders`): it moves no
  coin and keeps every amount, `Inv` is preserved (`migrate_inv`), so every theorem here covers such histories
-/
namespace Comdex.C04
open Comdex.LiqLedger

/-- the state after a history -/
def after (cfg : Cfg) (funds : List (Nat × Nat × Nat)) (ops : List Op) : State := runT cfg (genesis funds) ops

theorem reachable_inv {cfg : Cfg} (hc : CfgOk cfg) (funds : List (Nat × Nat × Nat)) (ops : List Op) :
    Inv cfg (after cfg funds ops) :=
  runT_inv hc ops _ (genesis_inv cfg funds)

/-- **Global escrow, exact**: after every history the global escrow holds exactly the coins of the pending deposit
requests plus the pool coins of the pending withdrawal requests. -/
theorem escrow_eq_requests {cfg : Cfg} (hc : CfgOk cfg) (funds : List (Nat × Nat × Nat)) (ops : List Op) (d : Denom) :
    (after cfg funds ops).bal .gEscrow d = depSum d (after cfg funds ops).deps + wdrSum d (after cfg funds ops).wdrs :=
  (reachable_inv hc funds ops).escrow d

/-- **Global escrow ≥ pending requests.** -/
theorem escrow_ge_requests {cfg : Cfg} (hc : CfgOk cfg) (funds : List (Nat × Nat × Nat)) (ops : List Op) (d : Denom) :
    depSum d (after cfg funds ops).deps + wdrSum d (after cfg funds ops).wdrs ≤ (after cfg funds ops).bal .gEscrow d :=
  Nat.le_of_eq (escrow_eq_requests hc funds ops d).symm

/-- **Pair escrow, exact** (no hypothesis on the matcher): the escrow of a pair holds the remaining offer coins and
fee reserves of its live orders, plus everything matching took in, minus everything matching handed out. -/
theorem pair_escrow_exact {cfg : Cfg} (hc : CfgOk cfg) (funds : List (Nat × Nat × Nat)) (ops : List Op) (a p : Nat) (d : Denom) :
    (after cfg funds ops).bal (.pairEscrow a p) d + (after cfg funds ops).bal (.mOut a p) d =
      liveSum cfg a p d (after cfg funds ops).orders + (after cfg funds ops).bal (.mIn a p) d :=
  (reachable_inv hc funds ops).pairEsc a p d

/-- **Pair escrow + lost ≥ remaining offer coins of the live orders — every history, no premise on the match results.**
`lostOf a p ops` = Σ over the EndBlocker calls of app `a` of what the match results given for pair `p` handed out beyond
what they took in (quote side + base side); it is 0 for conserving results and the dropped remainder for a D2 result. -/
theorem pair_escrow_ge_orders_offset {cfg : Cfg} (hc : CfgOk cfg) (funds : List (Nat × Nat × Nat)) (ops : List Op)
    (a p : Nat) (d : Denom) :
    remSum a p d (after cfg funds ops).orders ≤ (after cfg funds ops).bal (.pairEscrow a p) d + lostOf a p ops := by
  have h0 : (genesis funds).bal (.mOut a p) d ≤ (genesis funds).bal (.mIn a p) d + 0 := by
    rw [genesis_bal _ _ _ (by simp), genesis_bal _ _ _ (by simp)]
  have hs := runT_slack (cfg := cfg) a p d ops (genesis funds) 0 h0
  have hs' : (after cfg funds ops).bal (.mOut a p) d ≤ (after cfg funds ops).bal (.mIn a p) d + lostOf a p ops := by
    unfold after; omega
  have h1 := escrow_ge_live_offset (reachable_inv hc funds ops) a p d (lostOf a p ops) hs'
  have h2 := remSum_le_liveSum cfg a p d (after cfg funds ops).orders
  omega

/-- **Pair escrow ≥ remaining offer coins of the live orders**, for every history in which each observed match result
hands out no more than it took in (per side). -/
theorem pair_escrow_ge_orders {cfg : Cfg} (hc : CfgOk cfg) (funds : List (Nat × Nat × Nat)) (ops : List Op)
    (hcons : ∀ op ∈ ops, OpConserving op) (a p : Nat) (d : Denom) :
    remSum a p d (after cfg funds ops).orders ≤ (after cfg funds ops).bal (.pairEscrow a p) d := by
  have := pair_escrow_ge_orders_offset hc funds ops a p d
  rw [lostOf_zero_of_conserving a p ops hcons] at this
  exact this

/-! ### match results of the MODELLED matcher (C05): what is proved instead of assumed -/

open Comdex.LiqBridge in
/-- **quote side of a modelled match: exact.** For every well-formed book, `OrderBook.Match` (C05's model) returns a
quote difference `q` with buyers' payments = sellers' receipts + `q`; with `q ≥ 0` (the code sends it as a coin to the dust
collector) the ledger input built from the run has `outQ = inQ`. -/
theorem modelled_match_quote_exact {b b' : Amm.Book} {lp mp q : Int} (h : ModelledRun b lp b' mp q) (hq : 0 ≤ q) (pair : Nat) :
    outQ (matchInOf pair b b' q) = inQ (matchInOf pair b b' q) :=
  (modelled_quote_exact h pair).2 hq

open Comdex.LiqBridge in
/-- **base side of a modelled match: buyers receive exactly what sellers pay plus the dropped remainder** `lostBase`
(D2); nothing is dropped when C05's decidable ghost `matchLossless` holds (in particular the buy side never loses). -/
theorem modelled_match_base_offset {b b' : Amm.Book} {lp mp q : Int} (h : ModelledRun b lp b' mp q) (pair : Nat) :
    ((outB (matchInOf pair b b' q) : Nat) : Int) = inB (matchInOf pair b b' q) + lostBase b b' ∧
    (Amm.matchLossless b lp = true → outB (matchInOf pair b b' q) = inB (matchInOf pair b b' q)) :=
  modelled_base_offset h pair

open Comdex.LiqBridge in
/-- the ledger deficit of a modelled match = exactly the dropped remainder, on the base side only -/
theorem modelled_match_deficit {b b' : Amm.Book} {lp mp q : Int} (h : ModelledRun b lp b' mp q) (hq : 0 ≤ q) (pair : Nat) :
    defQ (matchInOf pair b b' q) = 0 ∧ defB (matchInOf pair b b' q) = (lostBase b b').toNat :=
  modelled_deficit h hq pair

/-- a match input that is a lossless run of the modelled matcher with non-negative dust -/
def ModelledLossless (m : MatchIn) : Prop :=
  ∃ (b b' : Amm.Book) (lp mp q : Int), LiqBridge.ModelledRun b lp b' mp q ∧ 0 ≤ q ∧ Amm.matchLossless b lp = true ∧
    m = LiqBridge.matchInOf m.pair b b' q

theorem modelledLossless_conserving {m : MatchIn} (h : ModelledLossless m) : MatchConserving m := by
  obtain ⟨b, b', lp, mp, q, hr, hq, hl, he⟩ := h
  rw [he]; exact LiqBridge.modelled_conserving hr hq hl m.pair

/-- **Pair escrow ≥ remaining offer coins, for match results produced by the modelled matcher** (lossless runs): no
coin-conservation premise — conservation is what C05 proves of the matcher. -/
theorem pair_escrow_ge_orders_modelled {cfg : Cfg} (hc : CfgOk cfg) (funds : List (Nat × Nat × Nat)) (ops : List Op)
    (hm : ∀ a ms ds ws, Op.endBlock a ms ds ws ∈ ops → ∀ m ∈ ms, ModelledLossless m) (a p : Nat) (d : Denom) :
    remSum a p d (after cfg funds ops).orders ≤ (after cfg funds ops).bal (.pairEscrow a p) d := by
  apply pair_escrow_ge_orders hc funds ops
  intro op hop
  cases op <;> try trivial
  rename_i a' ms ds ws
  exact fun m hmm => modelledLossless_conserving (hm a' ms ds ws hop m hmm)

/-! ### the batch as a ledger step -/

/-- **No ordinary coin is ever minted or burnt**: for every history and every coin denom, the sum of the balances of all
real accounts (users, escrows, reserves, fee / dust collectors, module account) is what it was at genesis.  (Only pool
coins are minted / burnt, by pool creation and executed deposits / withdrawals.) -/
theorem coins_conserved (cfg : Cfg) (funds : List (Nat × Nat × Nat)) (ops : List Op) (n : Nat) :
    coinTotal n (after cfg funds ops).bank = coinTotal n (genesis funds).bank :=
  coinTotal_moves (mv_runT ops (genesis funds)) n

/-- the bank holds one entry per (account, denom) — so `coinTotal` really is the sum over accounts -/
theorem bank_keys_unique (cfg : Cfg) (funds : List (Nat × Nat × Nat)) (ops : List Op) :
    KeysNodup (after cfg funds ops).bank :=
  keysNodup_moves (mv_runT ops (genesis funds)) (keysNodup_genesis funds)

/-- **Applying a match result neither mints nor burns**, whatever the (observed) fills, flows and dust are. -/
theorem batch_conserves_coins {cfg : Cfg} {s s' : State} {p : Pair} {m : MatchIn} (h : applyMatch cfg s p m = some s') (n : Nat) :
    coinTotal n s'.bank = coinTotal n s.bank :=
  coinTotal_moves (mv_applyMatch h) n

/-- **Dust collector**: receives exactly the match result's quote difference, in the pair's quote denom. -/
theorem batch_dust_exact {cfg : Cfg} {s s' : State} {p : Pair} {m : MatchIn} (h : applyMatch cfg s p m = some s')
    (a : Nat) (d : Denom) :
    s'.bal (.dust a) d = s.bal (.dust a) d + (if a = p.app ∧ d = p.quote then m.dust else 0) :=
  applyMatch_dust h a d

/-- **Pool reserves**: each reserve account moves by exactly what the pool orders of that pool traded. -/
theorem batch_reserve_exact {cfg : Cfg} {s s' : State} {p : Pair} {m : MatchIn} (h : applyMatch cfg s p m = some s')
    (a pl : Nat) (d : Denom) :
    s'.bal (.reserve a pl) d + sumOver (fun f : PoolFlow => if a = p.app ∧ f.pool = pl ∧ sideIn p f.buy = d then f.paid else 0) m.pools =
    s.bal (.reserve a pl) d + sumOver (fun f : PoolFlow => if a = p.app ∧ f.pool = pl ∧ sideOut p f.buy = d then f.recv else 0) m.pools :=
  applyMatch_reserve h a pl d

/-- **Swap-fee collector in a batch**: executing the batch of an app (`ExecuteRequests`: expiry pre-pass, match results,
expiry / too-small sweep, deposit and withdrawal requests) moves the swap-fee collector of every pair by exactly the fee on the
executed portions of the orders of that pair that ended in the batch — the last account of the batch ledger
(`batch_conserves_coins`, `batch_dust_exact`, `batch_reserve_exact`, orderers: `C07.finish_moves_exactly`). -/
theorem batch_fee_collector_exact {cfg : Cfg} {s s' : State} {app : Nat} {ms : List MatchIn} {dins : List DepIn} {wins : List WdrIn}
    (h : endBlock cfg s app ms dins wins = some s') (a p : Nat) (d : Denom) :
    s'.bal (.swapFee a p) d + fwdSum cfg a p d s.orders = s.bal (.swapFee a p) d + fwdSum cfg a p d s'.orders :=
  fe_endBlock h

/-- **Farmed pool coins, exact.** -/
theorem farm_custody_exact {cfg : Cfg} (hc : CfgOk cfg) (funds : List (Nat × Nat × Nat)) (ops : List Op) (a p : Nat) :
    (after cfg funds ops).bal .module (.pool a p) = farmSum a p (after cfg funds ops).farmers :=
  (reachable_inv hc funds ops).farm a p

/-- **`MsgUnfarm` takes from the newest queue entries first** (reachable states): the farmer's queue becomes the old queue
with `amt` consumed from its newest end, the active position is reduced only by `amt − Σ queue`, the farmer receives `amt`
pool coins from the module account. -/
theorem unfarm_newest_first {cfg : Cfg} (hc : CfgOk cfg) (funds : List (Nat × Nat × Nat)) (ops : List Op)
    {app user pool amt : Nat} {ext : Bool} {f : Farmer} {s' : State}
    (hf : findBy (isFarmer app pool user) (after cfg funds ops).farmers = some f)
    (h : step cfg (after cfg funds ops) (.unfarm app user pool amt ext) = some s') :
    findBy (isFarmer app pool user) s'.farmers =
      some { f with queued := (takeNewest f.queued.reverse amt).reverse, active := f.active - (amt - qTotal f.queued) } ∧
    s'.bal (.user user) (.pool app pool) = (after cfg funds ops).bal (.user user) (.pool app pool) + amt ∧
    s'.bal .module (.pool app pool) + amt = (after cfg funds ops).bal .module (.pool app pool) :=
  unfarm_effect (reachable_inv hc funds ops) hf h

/-- **Maturation moves exactly the mature entries** (`ProcessQueuedFarmers`, per farmer): what stays queued is younger
than the queue duration, the active position grows by exactly the mature entries, the farmer's total is unchanged. -/
theorem maturation_exact (dur now : Int) (f : Farmer) :
    (∀ q ∈ (activate dur now f).queued, now < q.2 + dur ∧ q ∈ f.queued) ∧
    (activate dur now f).active = f.active + qTotal (f.queued.filter fun q => !decide (now < q.2 + dur)) ∧
    qTotal (activate dur now f).queued + (activate dur now f).active = qTotal f.queued + f.active :=
  activate_spec dur now f

/-- after an app's batch no queue entry of that app is mature -/
theorem no_mature_entry_after_batch (cfg : Cfg) (s : State) (a : Nat) :
    ∀ f ∈ (processQueued cfg s a).farmers, f.app = a → ∀ q ∈ f.queued, s.now < q.2 + cfg.queueDur :=
  processQueued_none_mature cfg s a

/-- **A deposit request executed against a disabled pool is refunded in full** (any state, any batch later). -/
theorem deposit_refunded_if_pool_disabled {s s' : State} {a pl i ax ay pc : Nat} {r : DepReq} {q : Pool}
    (hr : findBy (isDep a pl i) s.deps = some r) (hp : r.status = .pending)
    (hq : s.pool? a pl = some q) (hd : q.disabled = true) (hne : r.qd ≠ r.bd)
    (h : execDeposit s a pl i ax ay pc = some s') :
    s'.bal (.user r.owner) r.qd = s.bal (.user r.owner) r.qd + r.dx ∧
    s'.bal (.user r.owner) r.bd = s.bal (.user r.owner) r.bd + r.dy ∧
    (findBy (isDep a pl i) s'.deps).map (·.status) = some .failed ∧ s'.pools = s.pools :=
  execDeposit_disabled_refunds hr hp hq hd hne h

/-- **A withdrawal request executed against a disabled pool gets its pool coins back.** -/
theorem withdraw_refunded_if_pool_disabled {s s' : State} {a pl i x y : Nat} {r : WdrReq} {q : Pool}
    (hr : findBy (isWdr a pl i) s.wdrs = some r) (hp : r.status = .pending)
    (hq : s.pool? a pl = some q) (hd : q.disabled = true)
    (h : execWithdraw s a pl i x y = some s') :
    s'.bal (.user r.owner) (.pool a pl) = s.bal (.user r.owner) (.pool a pl) + r.pc ∧
    (findBy (isWdr a pl i) s'.wdrs).map (·.status) = some .failed ∧ s'.pools = s.pools :=
  execWithdraw_disabled_refunds hr hp hq hd h

/-- **Zero supply ⇒ disabled.** -/
theorem zero_supply_disabled {cfg : Cfg} (hc : CfgOk cfg) (funds : List (Nat × Nat × Nat)) (ops : List Op) :
    ∀ q ∈ (after cfg funds ops).pools, q.ps = 0 → q.disabled = true :=
  (reachable_inv hc funds ops).zero

/-- **Supply changes only by pool operations**: whenever a message or block hook changes the recorded pool-coin supply
of pool `(a, pl)`, it is the creation of a pool of that app, the batch execution of that app, or a
deposit-and-farm / unfarm-and-withdraw on exactly that pool. -/
theorem poolcoin_supply_only_by_pool_ops (cfg : Cfg) (s : State) (op : Op) (a pl : Nat)
    (h : supply (stepT cfg s op) a pl ≠ supply s a pl) : touchesSupply a pl op := by
  unfold stepT at h
  cases hs : step cfg s op with
  | none => simp [hs] at h
  | some s' =>
    simp only [hs, Option.getD_some] at h
    exact Classical.byContradiction fun hn => h (supply_frame a pl hs hn)

/-- **Supply changes by exactly the executed requests of THAT pool** — every operation that neither prunes request records
(`BeginBlocker`) nor creates a pool: the recorded supply of pool `(a, pl)` after the step, plus what the succeeded withdrawal
requests of that pool now on record burnt, plus what the succeeded deposit requests of that pool on record BEFORE had minted
= the same with before / after exchanged; i.e. `Δ supply = Δ minted − Δ burnt`, where minted / burnt are read off the request
records of pool `(a, pl)` only (`mintedSum`, `burnedSum`).  Covers pending requests executed by the batch of any later block,
requests executed inside `MsgDepositAndFarm` / `MsgUnfarmAndWithdraw`, failing requests (refunded; they mint / burn nothing and
are deleted at the next begin-block), basic and ranged pools, and the store migration. -/
theorem poolcoin_supply_exact (cfg : Cfg) (s : State) (op : Op) (a pl : Nat) (hop : prunesOrCreates op = false) :
    supply (stepT cfg s op) a pl + mintedSum a pl s.deps + burnedSum a pl (stepT cfg s op).wdrs =
      supply s a pl + mintedSum a pl (stepT cfg s op).deps + burnedSum a pl s.wdrs := by
  unfold stepT
  cases hs : step cfg s op with
  | none => simp
  | some s' => simp only [Option.getD_some]; exact step_supplyEq a pl hop hs

/-- if no request of pool `(a, pl)` newly succeeds in a step, its supply does not move -/
theorem poolcoin_supply_fixed_without_executed_request (cfg : Cfg) (s : State) (op : Op) (a pl : Nat)
    (hop : prunesOrCreates op = false)
    (hm : mintedSum a pl (stepT cfg s op).deps = mintedSum a pl s.deps) (hb : burnedSum a pl (stepT cfg s op).wdrs = burnedSum a pl s.wdrs) :
    supply (stepT cfg s op) a pl = supply s a pl := by
  have := poolcoin_supply_exact cfg s op a pl hop
  omega

/-- **Pool creation adds one pool record with a positive supply and touches no other pool** (basic and ranged); the
begin-block pruning deletes request / order records only. -/
theorem poolcoin_supply_create_and_prune {cfg : Cfg} (hc : CfgOk cfg) (s : State) :
    (∀ app creator pair ranged dx dy ammPs ext s', step cfg s (.createPool app creator pair ranged dx dy ammPs ext) = some s' →
      ∃ q, s'.pools = s.pools ++ [q] ∧ q.app = app ∧ q.ranged = ranged ∧ 0 < q.ps ∧ s'.deps = s.deps ∧ s'.wdrs = s.wdrs ∧
        ∀ a pl, (s.pool? a pl).isSome → supply s' a pl = supply s a pl) ∧
    (∀ app, (stepT cfg s (.beginBlock app)).pools = s.pools) := by
  refine ⟨?_, fun app => rfl⟩
  intro app creator pair ranged dx dy ammPs ext s' h
  obtain ⟨ac, q, hac, hp, h1, h2, h3, hrq⟩ := createPool_pools h
  refine ⟨q, hp, h1, h2, ?_, hrq.1, hrq.2, ?_⟩
  · rw [h3]
    have := hc ac (app?_mem hac)
    omega
  · intro a pl hsome
    cases hq : s.pool? a pl with
    | none => rw [hq] at hsome; cases hsome
    | some q0 => exact supply_append_existing s [q] a pl q0 hq s' hp

/-! ### The escrow can fall short when a match result does not conserve coins (defect D2 of the matcher) -/

def cfg1 : Cfg :=
  { apps := [{ app := 1, feeRate := 3000000000000000, batchSize := 1, maxLifespan := 86400, pairFee := 5, poolFee := 5,
               minInitDeposit := 10, minInitSupply := 1000, maxPools := 20 }],
    swapLookup := false, queueDur := 86400 }

def funds1 : List (Nat × Nat × Nat) := [(0, 0, 100), (1, 1, 1000000), (2, 1, 1000000), (3, 2, 1000000)]

/-- two sells of 15000 base, one buy of 16000; the (non-conserving) result gives the buyer 16000 base although the
sellers paid 15000 -/
def opsD2 : List Op :=
  [ .block 1 100,
    .createPair 1 0 (.coin 1) (.coin 2) true,
    .order 1 1 1 .limit false (.coin 1) (.coin 2) 20000 1000000000000000000 15000 3600,
    .order 1 2 1 .limit false (.coin 1) (.coin 2) 20000 1000000000000000000 15000 3600,
    .order 1 3 1 .limit true (.coin 2) (.coin 1) 20000 1000000000000000000 16000 3600,
    .endBlock 1 [{ pair := 1, fills := [{ id := 1, buy := false, paid := 15000, recv := 15000, matched := 15000 },
                                        { id := 3, buy := true, paid := 16000, recv := 16000, matched := 16000 }],
                   pools := [], dust := 1000 }] [] [] ]

theorem pair_escrow_ge_orders_counterexample :
    (after cfg1 funds1 opsD2).bal (.pairEscrow 1 1) (.coin 1) < remSum 1 1 (.coin 1) (after cfg1 funds1 opsD2).orders := by
  decide +kernel

/-- the D2 book of C05 (two sells 15000 @ 0.0001, one buy 16000 @ 0.0002, last price 0.00009) run through the modelled
matcher: the ledger input built from the run has no quote deficit and a base deficit of exactly the 1000 dropped coins -/
theorem d2_offset_witness :
    ∃ b' mp q, Amm.matchBook (Amm.newBook C05.d2Orders) 90000000000000 = .ok b' mp q ∧
      defQ (LiqBridge.matchInOf 1 (Amm.newBook C05.d2Orders) b' q) = 0 ∧
      defB (LiqBridge.matchInOf 1 (Amm.newBook C05.d2Orders) b' q) = 1000 ∧
      LiqBridge.lostBase (Amm.newBook C05.d2Orders) b' = 1000 :=
  ⟨_, _, _, C05.base_conserved_counterexample.1, by decide, by decide, by decide⟩

/-! ### Non-vacuity -/

theorem cfg1_ok : CfgOk cfg1 := by
  intro ac h
  simp [cfg1] at h
  subst h
  decide

/-- a conserving history with a deposit, a pool, an order, a fill, farming -/
def opsOK : List Op :=
  [ .block 1 100,
    .createPair 1 0 (.coin 1) (.coin 2) true,
    .createPool 1 3 1 false 500000 0 0 true,          -- rejected: base amount below the minimum
    .order 1 1 1 .limit false (.coin 1) (.coin 2) 20000 1000000000000000000 15000 3600,
    .order 1 3 1 .limit true (.coin 2) (.coin 1) 20000 1000000000000000000 10000 3600,
    .endBlock 1 [{ pair := 1, fills := [{ id := 1, buy := false, paid := 10000, recv := 10000, matched := 10000 },
                                        { id := 2, buy := true, paid := 10000, recv := 10000, matched := 10000 }],
                   pools := [], dust := 0 }] [] [],
    .beginBlock 1 ]

theorem opsOK_conserving : ∀ op ∈ opsOK, OpConserving op := by
  intro op hop
  simp only [opsOK, List.mem_cons, List.not_mem_nil, or_false] at hop
  rcases hop with rfl | rfl | rfl | rfl | rfl | rfl | rfl
  all_goals first | trivial | (intro m hm; simp at hm; subst hm; decide)
example : ((after cfg1 funds1 opsOK).orders.map fun o => (o.id, o.remaining, o.status)) = [(1, 5000, .partially)] := by decide +kernel
example : (after cfg1 funds1 opsOK).bal (.pairEscrow 1 1) (.coin 1) = 5045 := by decide +kernel
example : remSum 1 1 (.coin 1) (after cfg1 funds1 opsOK).orders = 5000 := by decide +kernel
example : touchesSupply 1 1 (.createPool 1 0 1 false 5 5 5 true) := rfl
/-- queue of three ages (oldest first) 50@t1, 30@t2, 20@t3: unfarming 35 takes 20 from the newest and 15 from the middle -/
example : keepNonzero (deduct [(50, 1), (30, 2), (20, 3)] 35).1 = [(50, 1), (15, 2)] ∧ (deduct [(50, 1), (30, 2), (20, 3)] 35).2 = 0 ∧
    (deduct [(50, 1), (30, 2), (20, 3)] 130).2 = 30 := by decide
/-- maturation at time 100 with duration 60: entries created at 10 and 40 are mature, the one at 70 is not -/
example : activate 60 100 { app := 1, pool := 1, owner := 0, queued := [(5, 10), (7, 40), (9, 70)], active := 2 } =
    { app := 1, pool := 1, owner := 0, queued := [(9, 70)], active := 14 } := by decide
/-- a pool, a deposit request pending over the block boundary and executed by the next batch, a second one that fails (mints
nothing), a withdrawal: supply 1 000 000 → 1 500 000 → 1 300 000, and exactly the succeeded requests account for it -/
def fundsS : List (Nat × Nat × Nat) := [(1, 0, 100), (1, 1, 5000000), (1, 2, 5000000), (2, 1, 1000000), (2, 2, 1000000)]
def opsS : List Op :=
  [ .block 1 100,
    .createPair 1 1 (.coin 1) (.coin 2) true,
    .createPool 1 1 1 false 1000000 1000000 1000000 true,
    .deposit 1 2 1 500000 500000 true,
    .deposit 1 2 1 1 1 true,
    .endBlock 1 [] [{ pool := 1, id := 1, ax := 500000, ay := 500000, pc := 500000 }] [],
    .block 2 105, .beginBlock 1,
    .withdraw 1 1 1 200000 true,
    .endBlock 1 [] [] [{ pool := 1, id := 1, x := 199000, y := 199000 }] ]
example : supply (after cfg1 fundsS (opsS.take 3)) 1 1 = 1000000 ∧ supply (after cfg1 fundsS (opsS.take 6)) 1 1 = 1500000 ∧
    mintedSum 1 1 (after cfg1 fundsS (opsS.take 6)).deps = 500000 ∧
    ((after cfg1 fundsS (opsS.take 6)).deps.map fun r => (r.id, r.status, r.minted)) = [(1, .succeeded, 500000), (2, .failed, 0)] ∧
    supply (after cfg1 fundsS opsS) 1 1 = 1300000 ∧ burnedSum 1 1 (after cfg1 fundsS opsS).wdrs = 200000 := by
  decide +kernel
example : prunesOrCreates (.endBlock 1 [] [] []) = false := rfl
/-- the batch of `opsOK` completes the buyer (10 000 quote paid, fee 30) — the collector gets 30 of coin 2 and nothing of coin 1 -/
example : (after cfg1 funds1 (opsOK.take 6)).bal (.swapFee 1 1) (.coin 2) = 30 ∧
    fwdSum cfg1 1 1 (.coin 2) (after cfg1 funds1 (opsOK.take 6)).orders = 30 ∧
    (after cfg1 funds1 (opsOK.take 6)).bal (.swapFee 1 1) (.coin 1) = 0 := by decide +kernel
example : coinTotal 1 (after cfg1 funds1 opsOK).bank = 2000000 ∧ coinTotal 1 (genesis funds1).bank = 2000000 := by decide +kernel

end Comdex.C04
