import Comdex.Model.Guards
/-! # C12 — only the rightful party can act: owners on positions, authorities on controls

Clause → theorem

| property clause | theorem |
|---|---|
| first failing guard returns its error, the body is not run | `run_simple` |
| a rejected message changes no balance and no record (message cache) | `deliver_unchanged_of_error`, `rejecting_guard_blocks` |
| owner guard on the way ∧ signer ≠ owner ⇒ error ∧ state unchanged | `owner_guard_blocks` |
| every handler that names a position checks the owner on every route to success | `position_handlers_owner_guarded` (whole regenerated table, `decide`) + reviewed allow-list `ownerless`, `ownerless_tight` |
| … hence any non-owner delivery on any such route is rejected and changes nothing, whatever the writes and other checks are | `nonowner_rejected_on_every_route` |
| handlers whose owner check comes after a write (need the message cache) | `owner_after_write_pinned` |
| the named position is the one the message's descriptive ids (app, product, asset) describe: each stored field compared on its own | `position_consistency_guarded`, `no_weak_consistency_guard`, `consistency_rows_pinned` |
| every custom wasm message: the extracted guard is the expected one (20 handlers, both networks, right contract index) | `wasm_guards_expected`, `wasm_authorized_iff_designated` |
| kill switch admin-only | `admin_only_killswitch`, `admin_guard_blocks` |
| table sizes / spot entries | `table_sizes`, `handler_names_pinned`, `spot_*`, `every_handler_has_exit` |
| SCOPE: every entry point through which state can be changed from outside is inventoried and classified by who may call it (70 messages of all modules = the protobuf MsgServer interfaces, 26 proposal contents, 20 wasm variants, 9 IBC callbacks, 13 block hooks, 3 migrations, 23 upgrade handlers) | `entry_points_classified`, `entry_point_counts`, `msg_entry_points_complete`, `spot_entry_points`, `unwired_entry_points_pinned`, `ibc_callbacks_pinned` |
| every position-naming entry point is owner-guarded or on the reviewed list; no non-message entry point takes a position id | `position_naming_entry_points_guarded`, `nonmsg_position_readers_pinned` |
| every privileged entry point (admin / gov / contract) has its authority guard before its first write; which ones are privileged | `privileged_entry_points_guarded`, `privileged_entry_points_pinned`, `proposals_pinned`, `gov_only_blocks`, `gov_authority_runs_handler` |
| the keeper functions behind proposal handlers and wasm variants are reached from no message handler (two reviewed fee-paying exceptions) | `privileged_targets_reach_pinned` |

The tables come from `Gen/Guards.lean`, regenerated from /repo on every run: dropping an owner check, re-ordering it behind an
early successful return, changing a chain id or a contract index makes one of the `decide` obligations fail to compile.
Trusted: the extractor's flattening (see notes/C12.md), the message cache of baseapp (modelled by `applyIfNoError`). -/
namespace Comdex.C12
open Comdex.Guards Comdex.Gen.Guards
set_option maxRecDepth 1000000

/-! ## generic theorems about the execution model -/

/-- A guard that rejects in scenario `e` anywhere in the handler makes every run end in an error (possibly an earlier one). -/
theorem run_error_of_rejecting {σ : Type} (e : Env) (g : Step σ) (hr : g.rejectsIn e) :
    ∀ (steps : List (Step σ)), g ∈ steps → ∀ s, ∃ c, run steps e s = .error c := by
  intro steps
  induction steps with
  | nil => intro h; cases h
  | cons st rest ih =>
    intro hmem s
    cases st with
    | guard c ok =>
      by_cases hok : ok e s = true
      · rcases List.mem_cons.mp hmem with h | h
        · subst h
          have h2 : ok e s = false := hr s
          rw [h2] at hok
          cases hok
        · simp only [run, hok, if_true]
          exact ih h s
      · exact ⟨c, by simp only [run, hok]; rfl⟩
    | effect f =>
      rcases List.mem_cons.mp hmem with h | h
      · subst h
        exact False.elim hr
      · simp only [run]
        exact ih h (f s)

/-- rejected ⇒ the delivered state is the old state (message atomicity) -/
theorem deliver_unchanged_of_error {σ : Type} (steps : List (Step σ)) (e : Env) (s : σ)
    (h : ∃ c, run steps e s = .error c) : deliver steps e s = (s, false) := by
  obtain ⟨c, hc⟩ := h
  simp only [deliver, applyIfNoError, hc]

theorem rejecting_guard_blocks {σ : Type} (steps : List (Step σ)) (e : Env) (g : Step σ) (hg : g ∈ steps)
    (hr : g.rejectsIn e) (s : σ) : deliver steps e s = (s, false) :=
  deliver_unchanged_of_error steps e s (run_error_of_rejecting e g hr steps hg s)

theorem stdGuard_rejects {σ : Type} (c : GClass) (e : Env) (h : c.fails e = true) : (stdGuard c : Step σ).rejectsIn e := by
  intro s
  simp only [h]
  rfl

/-- **owner_guard_blocks**: the owner comparison is on the way and the signer is not the owner ⇒ error and no state change,
whatever else the handler does before or after it. -/
theorem owner_guard_blocks {σ : Type} (steps : List (Step σ)) (e : Env) (s : σ)
    (hg : stdGuard .ownerEq ∈ steps) (hno : e.signerIsOwner = false) : deliver steps e s = (s, false) :=
  rejecting_guard_blocks steps e _ hg (stdGuard_rejects _ e (by simp [GClass.fails, hno])) s

theorem admin_guard_blocks {σ : Type} (steps : List (Step σ)) (e : Env) (s : σ)
    (hg : stdGuard .adminOnly ∈ steps) (hno : e.signerIsAdmin = false) : deliver steps e s = (s, false) :=
  rejecting_guard_blocks steps e _ hg (stdGuard_rejects _ e (by simp [GClass.fails, hno])) s

/-- "guards followed by a body": the result is the error of the FIRST failing guard and the body is not run; with no
failing guard the body runs. -/
theorem run_simple {σ : Type} (guards : List GClass) (body : σ → σ) (e : Env) (s : σ) :
    run (simple guards body) e s =
      match guards.find? (fun c => c.fails e) with
      | some c => .error c
      | none => .ok (body s) := by
  induction guards with
  | nil => rfl
  | cons c cs ih =>
    have hs : simple (c :: cs) body = stdGuard c :: simple cs body := rfl
    rw [hs]
    by_cases hc : c.fails e = true
    · simp [run, stdGuard, List.find?, hc]
    · have hc' : c.fails e = false := by simpa using hc
      simp only [run, stdGuard, List.find?, hc', Bool.not_false, if_true]
      exact ih

/-- the owner succeeds through an owner guard when nothing else objects (non-vacuity of the model) -/
example : run (simple [.esmExecuted, .breakerEnabled, .ownerEq] (fun (n : Nat) => n + 1)) {} 5 = .ok 6 := rfl
example : run (simple [.esmExecuted, .breakerEnabled, .ownerEq] (fun (n : Nat) => n + 1)) { signerIsOwner := false } 5
    = .error .ownerEq := rfl
example : deliver ([.effect (fun n => n + 100), stdGuard .ownerEq, .effect (fun (n : Nat) => n + 1)])
    { signerIsOwner := false } 5 = (5, false) := rfl

/-! ## routes of the regenerated table -/

theorem hasGuard_mem {c : Nat} {clean : Bool} {route : List Item} (h : hasGuard c clean route = true) :
    ∃ it ∈ route, it.kind = 0 ∧ it.cls = c := by
  simp only [hasGuard, List.any_eq_true] at h
  obtain ⟨it, hm, hp⟩ := h
  refine ⟨it, hm, ?_⟩
  simp only [Bool.and_eq_true, beq_iff_eq] at hp
  exact ⟨hp.1.1, hp.1.2⟩

/-- a classified guard on a route rejects every delivery along that route in a scenario where the guard fails,
for every interpretation of the writes and of the unclassified checks -/
theorem route_rejects {σ : Type} (sem : Sem σ) (route : List Item) (c : Nat) (clean : Bool) (e : Env) (s : σ)
    (hg : hasGuard c clean route = true) (hc : c ≠ 0) (hf : (GClass.ofCode c).fails e = true) :
    deliver (stepsOf sem route) e s = (s, false) := by
  obtain ⟨it, hm, hk, hcl⟩ := hasGuard_mem hg
  have hstep : stepOf sem it = some (stdGuard (GClass.ofCode c)) := by
    simp only [stepOf, hk, hcl]
    simp [hc]
  have hin : stdGuard (GClass.ofCode c) ∈ stepsOf sem route := by
    simp only [stepsOf, List.mem_filterMap]
    exact ⟨it, hm, hstep⟩
  exact rejecting_guard_blocks _ e _ hin (stdGuard_rejects _ e hf) s

/-! ## table obligations (closed over the WHOLE regenerated table) -/

/-- Reviewed allow-list: handlers that read a position record not keyed by the signer and legitimately have no owner check.

* `vault.MsgDepositStableMint`, `vault.MsgWithdrawStableMint` — the stable-mint (PSM) vault is a shared pool record without an
  owner field (`StableMintVault{Id,AmountIn,AmountOut,AppId,…}`); the signer swaps his own coins 1:1 against it, coins are
  taken from / paid to the signer only (msg_server.go:1201,1216,1350,1366).
* `vault.MsgVaultInterestCalc`, `locker.MsgLockerRewardCalc` — anyone may trigger the accrual that the next owner
  interaction would apply anyway; nothing is moved, reduced or closed (msg_server.go:1435, locker msg_server.go:374).
* `lend.CalculateInterestAndRewards` — the position ids come from the signer's own mapping
  (`GetUserTotalMappingData(addr)`), and each callee re-checks `lendPos.Owner != addr` (keeper.go:1767,1854); the extractor sees
  those checks only as conditional (inside loops, one error is `continue`d).
* `liquidity.MMOrder`, `liquidity.CancelMMOrder` — order ids are read from the MM-order index keyed by the signer
  (`GetMMOrderIndex(ctx, orderer, …)`, swap.go:556); no id comes from the message.
* `auctionsV2.MsgPlaceMarketBid` — a bid on a running auction of an already liquidated position; any bidder may bid, the
  borrow/lend records are read to settle the auction.
* `auction.MsgPlaceDutchLendBid` — the gen-1 counterpart for lend auctions: any bidder; the liquidated borrow / lend records are
  read to settle (the auction itself is found by the key (app, mapping, auction id) of the message).
* `liquidation.MsgLiquidateVault`, `liquidation.MsgLiquidateBorrow`, `liquidationsV2.MsgLiquidateInternalKeeper` —
  liquidation of an unhealthy position by any keeper is the mechanism itself; the guard is the health test, not ownership. -/
def ownerless : List String := [
  "vault.MsgDepositStableMint", "vault.MsgWithdrawStableMint", "vault.MsgVaultInterestCalc",
  "locker.MsgLockerRewardCalc", "lend.CalculateInterestAndRewards", "liquidity.MMOrder", "liquidity.CancelMMOrder",
  "auctionsV2.MsgPlaceMarketBid", "liquidation.MsgLiquidateVault", "liquidation.MsgLiquidateBorrow",
  "liquidationsV2.MsgLiquidateInternalKeeper", "auction.MsgPlaceDutchLendBid"]

/-- **Every** MsgServer method of the table: on every route to a successful return that can follow a position read not keyed
by the signer, the owner comparison is executed — or the handler is on the reviewed allow-list. -/
theorem position_handlers_owner_guarded : ∀ h ∈ handlers, ownerAuthorised h = true ∨ qname h ∈ ownerless := by decide +kernel

/-- no stale allow-list entry: each one is a handler of the table that really lacks the owner domination -/
theorem ownerless_tight : ∀ q ∈ ownerless, ∃ h ∈ handlers, qname h = q ∧ ownerAuthorised h = false := by decide +kernel

/-- handlers that name a position through the message (un-keyed read) and ARE owner-checked: pinned -/
theorem owner_checked_pinned :
    (handlers.filter fun h => namesUnkeyed h && ownerAuthorised h).map qname =
      ["vault.MsgDeposit", "vault.MsgWithdraw", "vault.MsgDraw", "vault.MsgRepay", "vault.MsgClose", "vault.MsgDepositAndDraw",
       "locker.MsgDepositAsset", "locker.MsgWithdrawAsset", "locker.MsgCloseLocker",
       "lend.Lend", "lend.Withdraw", "lend.Deposit", "lend.CloseLend", "lend.Borrow", "lend.Repay", "lend.DepositBorrow",
       "lend.Draw", "lend.CloseBorrow", "lend.BorrowAlternate", "lend.RepayWithdraw", "liquidity.CancelOrder"] := by decide +kernel

/-- handlers whose position reads are all keyed by the signer (orders of the signer, farm position of the signer, limit bid
of the signer): a non-owner cannot name them at all -/
theorem signer_keyed_pinned :
    (handlers.filter fun h => namesPosition h && !namesUnkeyed h).map qname =
      ["liquidity.CancelAllOrders", "liquidity.Farm", "liquidity.Unfarm", "liquidity.DepositAndFarm",
       "liquidity.UnfarmAndWithdraw", "auctionsV2.MsgDepositLimitBid", "auctionsV2.MsgCancelLimitBid",
       "auctionsV2.MsgWithdrawLimitBid"] := by decide +kernel

/-- the owner comparison comes after a state write on some route (accrual first): rejection relies on the message cache -/
theorem owner_after_write_pinned :
    (handlers.filter ownerAfterWrite).map qname =
      ["vault.MsgDepositAndDraw", "lend.Lend", "lend.Withdraw", "lend.Deposit", "lend.CloseLend", "lend.Borrow",
       "lend.BorrowAlternate", "lend.CalculateInterestAndRewards", "lend.RepayWithdraw"] := by decide +kernel

/-- **Composition**: for every handler of the table outside the allow-list, every successful exit that can follow an un-keyed
position read, every interpretation `sem` of the writes and unclassified checks on the route to that exit, every scenario in
which the signer is not the owner and every state: the delivery is rejected and the state is unchanged. -/
theorem nonowner_rejected_on_every_route {σ : Type} :
    ∀ h ∈ handlers, qname h ∉ ownerless → ∀ p ∈ exits h.items, namesAt p.1 p.2 = true →
      ∀ (sem : Sem σ) (e : Env) (s : σ), e.signerIsOwner = false →
        deliver (stepsOf sem (routeOf p.1 p.2)) e s = (s, false) := by
  intro h hh hno p hp hn sem e s hs
  have hauth : ownerAuthorised h = true := by
    rcases position_handlers_owner_guarded h hh with h1 | h1
    · exact h1
    · exact absurd h1 hno
  simp only [ownerAuthorised, List.all_eq_true] at hauth
  have h2 := hauth p hp
  simp only [hn, Bool.not_true, Bool.false_or] at h2
  exact route_rejects sem _ 1 false e s h2 (by decide) (by simp [GClass.ofCode, GClass.fails, hs])

/-! ## consistency of the named position with the message's descriptive ids -/

/-- A message that carries a position id AND descriptive ids (app, extended pair / product, asset) must act only on the position
those ids describe: the handler compares the stored position's fields with them, each comparison standing alone (two
mismatch tests joined by `&&` reject only when BOTH mismatch, so e.g. a vault of the same app but another product would get
through). Expected (from the code anchors; each pair dominates every exit that follows the position read): -/
def expectedConsistency : List (String × List String) := [
  ("vault.MsgDeposit", ["AppId", "ExtendedPairVaultID"]), ("vault.MsgWithdraw", ["AppId", "ExtendedPairVaultID"]),
  ("vault.MsgDraw", ["AppId", "ExtendedPairVaultID"]), ("vault.MsgRepay", ["AppId", "ExtendedPairVaultID"]),
  ("vault.MsgClose", ["AppId", "ExtendedPairVaultID"]), ("vault.MsgDepositAndDraw", ["AppId", "ExtendedPairVaultID"]),
  ("vault.MsgDepositStableMint", ["AppId", "ExtendedPairVaultID"]),
  ("vault.MsgWithdrawStableMint", ["AppId", "ExtendedPairVaultID"]),
  ("locker.MsgDepositAsset", ["AssetDepositId", "AppId"]), ("locker.MsgWithdrawAsset", ["AssetDepositId", "AppId"]),
  ("locker.MsgCloseLocker", ["AssetDepositId", "AppId"]), ("locker.MsgLockerRewardCalc", ["AppId"]),
  ("lend.Borrow", ["AssetID"]), ("auctionsV2.MsgWithdrawLimitBid", ["DebtToken.Denom"]),
  ("liquidation.MsgLiquidateVault", ["AppId"])]

theorem spec_consistency : Spec.consistencyExpected = expectedConsistency.map (·.1) := rfl

/-- every expected (handler, position field): a stand-alone comparison of that field dominates every exit after the read -/
theorem position_consistency_guarded :
    ∀ p ∈ expectedConsistency, ∃ h ∈ handlers, qname h = p.1 ∧ ∀ t ∈ p.2, consistencyGuarded h t = true := by decide +kernel

/-- no consistency comparison is weakened by an `&&` with another test, in any handler -/
theorem no_weak_consistency_guard : ∀ h ∈ handlers, hasWeakConsistency h = false := by decide +kernel

/-- all consistency comparisons the table contains, per handler, with whether they dominate every exit (the lend denom checks
come after early successful returns of inlined accrual helpers / the exact-debt close shortcut and are pinned as such) -/
theorem consistency_rows_pinned :
    ((handlers.filter fun h => !(consistencyTags h).isEmpty).map fun h =>
        (qname h, (consistencyTags h).map fun t => (t, consistencyGuarded h t))) =
      [("vault.MsgDeposit", [("AppId", true), ("ExtendedPairVaultID", true)]),
       ("vault.MsgWithdraw", [("AppId", true), ("ExtendedPairVaultID", true)]),
       ("vault.MsgDraw", [("AppId", true), ("ExtendedPairVaultID", true)]),
       ("vault.MsgRepay", [("AppId", true), ("ExtendedPairVaultID", true)]),
       ("vault.MsgClose", [("AppId", true), ("ExtendedPairVaultID", true)]),
       ("vault.MsgDepositAndDraw", [("AppId", true), ("ExtendedPairVaultID", true)]),
       ("vault.MsgDepositStableMint", [("AppId", true), ("ExtendedPairVaultID", true)]),
       ("vault.MsgWithdrawStableMint", [("AppId", true), ("ExtendedPairVaultID", true)]),
       ("locker.MsgDepositAsset", [("AssetDepositId", true), ("AppId", true)]),
       ("locker.MsgWithdrawAsset", [("AssetDepositId", true), ("AppId", true)]),
       ("locker.MsgCloseLocker", [("AssetDepositId", true), ("AppId", true)]),
       ("locker.MsgLockerRewardCalc", [("AppId", true)]),
       ("lend.Borrow", [("AssetID", true), ("AmountOut.Denom", false)]),
       ("lend.Repay", [("AmountOut.Denom", false)]), ("lend.Draw", [("AmountOut.Denom", false)]),
       ("lend.BorrowAlternate", [("AssetID", false), ("AmountOut.Denom", false)]),
       ("auctionsV2.MsgWithdrawLimitBid", [("DebtToken.Denom", true)]),
       ("liquidation.MsgLiquidateVault", [("AppId", true)])] := by decide +kernel

/-! ## custom wasm messages -/

/-- the extracted guard of each of the 20 custom handlers IS the expected guard: variant order, both networks with their chain
id, the address list and the contract index, the guard is the first statement, other chain ids fall through -/
theorem wasm_guards_expected :
    wasmHandlers.map (fun h => (h.variant, h.arms, h.guardFirst, h.otherChainsOpen)) =
      Spec.wasmExpected.map (fun p => (p.1, Spec.wasmArmsFor p.2, true, true)) := by decide +kernel

theorem wasm_addr_lists : wasmAddrLists = Spec.wasmAddrs := by decide +kernel

theorem wasm_authorized_of_arms (h : WasmHandler) (idx : Nat) (harms : h.arms = Spec.wasmArmsFor idx)
    (chain lst : String) (hn : (chain, lst) ∈ Spec.wasmNetworks) (sender : String) :
    wasmAuthorized h chain sender = (sender == ((Spec.wasmAddrs.lookup lst).getD []).getD idx "") := by
  simp only [Spec.wasmNetworks, List.mem_cons, Prod.mk.injEq, List.mem_nil_iff, or_false] at hn
  rcases hn with ⟨h1, h2⟩ | ⟨h1, h2⟩ <;> subst h1 <;> subst h2 <;>
    simp [wasmAuthorized, harms, Spec.wasmArmsFor, Spec.wasmNetworks, List.find?]

/-- the designated address computed from the specification, for each of the 20 × 2 (variant, network) cases -/
theorem wasm_designated_table : ∀ p ∈ Spec.wasmExpected, ∀ q ∈ Spec.wasmNetworks,
    Spec.wasmDesignated p.1 q.1 = some (((Spec.wasmAddrs.lookup q.2).getD []).getD p.2 "") := by decide +kernel

/-- on the main and the test network a custom message passes its guard iff the sender is the designated contract -/
theorem wasm_authorized_iff_designated :
    ∀ h ∈ wasmHandlers, ∀ p ∈ Spec.wasmNetworks, ∀ sender : String,
      wasmAuthorized h p.1 sender = (some sender == Spec.wasmDesignated h.variant p.1) := by
  intro h hh p hp sender
  have hex := wasm_guards_expected
  -- locate h in the table
  have : ∃ idx, (h.variant, idx) ∈ Spec.wasmExpected ∧ h.arms = Spec.wasmArmsFor idx := by
    have hm : (h.variant, h.arms, h.guardFirst, h.otherChainsOpen) ∈
        wasmHandlers.map (fun h => (h.variant, h.arms, h.guardFirst, h.otherChainsOpen)) :=
      List.mem_map.mpr ⟨h, hh, rfl⟩
    rw [hex] at hm
    obtain ⟨q, hq, he⟩ := List.mem_map.mp hm
    simp only [Prod.mk.injEq] at he
    exact ⟨q.2, by rw [← he.1]; exact hq, he.2.1.symm⟩
  obtain ⟨idx, hidx, harms⟩ := this
  obtain ⟨chain, lst⟩ := p
  rw [wasm_authorized_of_arms h idx harms chain lst hp sender]
  -- the designated address, computed from the spec, for each of the 20 × 2 cases
  rw [wasm_designated_table (h.variant, idx) hidx (chain, lst) hp]
  simp

/-- kill switch: the admin test dominates every exit and nothing is written before it -/
theorem admin_only_killswitch :
    ∀ q ∈ Spec.adminOnly, ∃ h ∈ handlers, qname h = q ∧ guarded 6 true h = true := by decide +kernel

theorem admin_only_pinned : (handlers.filter (guarded 6 false)).map qname = ["esm.MsgKillSwitch"] := by decide +kernel

/-- the expected lists restated from the property text (the driver's monitors use `Spec.*`) -/
theorem spec_admin : Spec.adminOnly = ["esm.MsgKillSwitch"] := rfl
theorem spec_wasm_count : Spec.wasmExpected.length = 20 ∧ (Spec.wasmExpected.filter (·.2 == 0)).length = 15 ∧
    (Spec.wasmExpected.filter (·.2 == 1)).map (·.1) =
      ["MsgEmissionRewards", "MsgFoundationEmission", "MsgRebaseMint", "MsgGetSurplusFund", "MsgEmissionPoolRewards"] := by decide +kernel

/-! ## pinned sizes and spot entries (an extractor that silently returns nothing fails here) -/

theorem table_sizes : handlers.length = 70 ∧ wasmHandlers.length = 20 ∧ sweeps.length = 10 ∧ wasmAddrLists.length = 2 := by decide +kernel

theorem every_handler_has_exit : ∀ h ∈ handlers, hasExit h = true := by decide +kernel

theorem handler_names_pinned : handlers.map qname = [
    "vault.MsgCreate", "vault.MsgDeposit", "vault.MsgWithdraw", "vault.MsgDraw", "vault.MsgRepay", "vault.MsgClose",
    "vault.MsgDepositAndDraw", "vault.MsgCreateStableMint", "vault.MsgDepositStableMint", "vault.MsgWithdrawStableMint",
    "vault.MsgVaultInterestCalc",
    "locker.MsgCreateLocker", "locker.MsgDepositAsset", "locker.MsgWithdrawAsset", "locker.MsgCloseLocker",
    "locker.MsgLockerRewardCalc",
    "lend.Lend", "lend.Withdraw", "lend.Deposit", "lend.CloseLend", "lend.Borrow", "lend.Repay", "lend.DepositBorrow",
    "lend.Draw", "lend.CloseBorrow", "lend.BorrowAlternate", "lend.FundModuleAccounts", "lend.CalculateInterestAndRewards",
    "lend.FundReserveAccounts", "lend.RepayWithdraw",
    "liquidity.CreatePair", "liquidity.CreatePool", "liquidity.CreateRangedPool", "liquidity.Deposit", "liquidity.Withdraw",
    "liquidity.LimitOrder", "liquidity.MarketOrder", "liquidity.MMOrder", "liquidity.CancelOrder", "liquidity.CancelAllOrders",
    "liquidity.CancelMMOrder", "liquidity.Farm", "liquidity.Unfarm", "liquidity.DepositAndFarm", "liquidity.UnfarmAndWithdraw",
    "auctionsV2.MsgPlaceMarketBid", "auctionsV2.MsgDepositLimitBid", "auctionsV2.MsgCancelLimitBid",
    "auctionsV2.MsgWithdrawLimitBid",
    "esm.DepositESM", "esm.ExecuteESM", "esm.MsgKillSwitch", "esm.MsgCollateralRedemption",
    "liquidation.MsgLiquidateVault", "liquidation.MsgLiquidateBorrow",
    "liquidationsV2.MsgLiquidateInternalKeeper", "liquidationsV2.MsgAppReserveFunds",
    "liquidationsV2.MsgLiquidateExternalKeeper",
    "auction.MsgPlaceSurplusBid", "auction.MsgPlaceDebtBid", "auction.MsgPlaceDutchBid", "auction.MsgPlaceDutchLendBid",
    "asset.AddAsset", "collector.Deposit", "rewards.CreateGauge", "rewards.ExternalRewardsLockers", "rewards.ExternalRewardsVault",
    "rewards.ExternalRewardsLend", "rewards.ExternalRewardsStableMint", "tokenmint.MsgMintNewTokens"] := by
  decide +kernel

/-- the message signer field found in each module's `GetSigners` -/
theorem spot_signers :
    (["vault.MsgRepay", "locker.MsgCloseLocker", "lend.Withdraw", "lend.Repay", "liquidity.CancelOrder", "liquidity.Unfarm",
      "auctionsV2.MsgWithdrawLimitBid", "esm.MsgKillSwitch"].map fun q => (find? q).map (·.signer)) =
    [some "From", some "Depositor", some "Lender", some "Borrower", some "Orderer", some "Farmer", some "Bidder", some "From"] := by
  decide +kernel

/-- vault.MsgRepay: the classified unconditional trunk guards in order, each before the first write -/
theorem spot_vault_repay :
    ((find? "vault.MsgRepay").map fun h =>
      (h.items.filter fun it => it.kind == 0 && it.cls != 0 && it.cls < 7 && !it.cond).map fun it => (it.cls, it.wb)) =
    some [(2, false), (3, false), (1, false)] := by decide +kernel

/-- lend.Withdraw: trunk = breaker, (accrual write), owner; early close branch = breaker, (write), owner -/
theorem spot_lend_withdraw :
    ((find? "lend.Withdraw").map fun h =>
      (h.items.filter fun it => it.kind == 0 && it.cls != 0 && it.cls < 7 && !it.cond).map fun it => (it.cls, it.path.length, it.wb)) =
    some [(3, 1, false), (1, 1, true), (3, 0, false), (1, 0, true)] := by decide +kernel

theorem spot_cancel_order :
    ((find? "liquidity.CancelOrder").map fun h =>
      (h.items.filter fun it => (it.kind == 0 && it.cls != 0 && it.cls < 7) || it.kind == 2).map fun it => (it.kind, it.cls, it.keyed, it.wb)) =
    some [(2, 0, false, false), (0, 1, false, false)] := by decide +kernel

/-! ## the inventory of entry points (scope of the property: EVERY way state can be changed from outside)

`entryPoints` (regenerated, extract/guards/entry.go): every method of every protobuf `MsgServer` interface of x/*, every content
type of every governance proposal handler (x/*/handler.go, x/*/keeper/gov.go), every custom wasm variant, the IBC callbacks of
x/bandoracle, every Begin/EndBlocker, every registered store migration, every upgrade handler of app/upgrades — each with who may
call it as found in the code. -/

/-- every entry point is classified: its caller class is one of the known ones (the extractor writes `unknown` when it cannot
tell: a message without handler or signer field, a proposal case that ends in no keeper function, a wasm variant without a
leading guard), and `none` is used exactly for code that is not wired into the app -/
theorem entry_points_classified :
    ∀ e ∈ entryPoints, e.caller ∈ callerClasses ∧ ((e.caller == "none") = !e.registered) := by decide +kernel

theorem entry_point_counts :
    (["msg", "proposal", "wasm", "ibc", "blocker", "migration", "upgrade"].map fun k => (entryPoints.filter (·.kind == k)).length) =
      [70, 26, 20, 9, 13, 3, 23] ∧ entryPoints.length = 164 := by decide +kernel

/-- the message entry points ARE the methods of the protobuf MsgServer interfaces (what the msg-service router can route), in
order, and each has a flattened handler in the table; the table has no handler beyond them -/
theorem msg_entry_points_complete :
    (entryPoints.filter (·.kind == "msg")).map (fun e => (e.module, e.name)) = pbMsgMethods ∧
    (∀ m ∈ pbMsgMethods, (find? (m.1 ++ "." ++ m.2)).isSome = true) ∧
    (∀ h ∈ handlers, (h.module, h.name) ∈ pbMsgMethods) ∧ pbMsgMethods.length = 70 := by decide +kernel

/-- **every position-naming entry point** (a position record that is not keyed by the caller is read) is a message whose
handler checks the owner on every route to success, or is on the reviewed `ownerless` list -/
theorem position_naming_entry_points_guarded :
    ∀ e ∈ entryPoints, e.namesPosition = true → entryOwnerGuarded ownerless e = true := by decide +kernel

/-- no proposal handler, wasm variant, IBC callback, migration or upgrade handler takes a position id from its caller; the ones
that READ position records at all (to sweep / iterate them) are pinned -/
theorem nonmsg_position_readers_pinned :
    ((entryPoints.filter fun e => e.kind != "msg" && (e.namesPosition || e.readsPos)).map fun e => (e.kind, epName e, e.namesPosition)) =
      [("wasm", "wasm.MsgUpdatePairsVault", false), ("wasm", "wasm.MsgUpdateCollectorLookupTable", false),
       ("wasm", "wasm.MsgEmissionRewards", false),
       ("blocker", "auction.BeginBlocker", false), ("blocker", "auctionsV2.BeginBlocker", false),
       ("blocker", "liquidation.BeginBlocker", false), ("blocker", "liquidationsV2.BeginBlocker", false),
       ("blocker", "liquidity.EndBlocker", false), ("blocker", "rewards.BeginBlocker", false)] := by decide +kernel

/-- **every privileged entry point has its authority guard before its first write** (see `entryGuarded`): the admin test of the
kill switch; for each of the 26 proposal contents the gov router is the only way to the keeper function; for each of the 20 wasm
variants the chain-id / sender comparison is the first statement -/
theorem privileged_entry_points_guarded : ∀ e ∈ entryPoints, epPrivileged e = true → entryGuarded e = true := by decide +kernel

/-- which entry points are privileged — pinned, so that a privileged operation that silently becomes callable by anyone (its
class turns into `signer`) or a new one fails here -/
theorem privileged_entry_points_pinned :
    ((entryPoints.filter epPrivileged).map fun e => (e.caller, epName e)) =
      [("admin", "esm.MsgKillSwitch"),
       ("gov", "asset.AddAssetsProposal"), ("gov", "asset.AddMultipleAssetsProposal"), ("gov", "asset.UpdateAssetProposal"),
       ("gov", "asset.AddPairsProposal"), ("gov", "asset.AddMultiplePairsProposal"), ("gov", "asset.UpdatePairProposal"),
       ("gov", "asset.UpdateGovTimeInAppProposal"), ("gov", "asset.AddAppProposal"), ("gov", "asset.AddAssetInAppProposal"),
       ("gov", "asset.AddMultipleAssetsPairsProposal"), ("gov", "auctionsV2.DutchAutoBidParamsProposal"),
       ("gov", "bandoracle.FetchPriceProposal"),
       ("gov", "lend.LendPairsProposal"), ("gov", "lend.MultipleLendPairsProposal"), ("gov", "lend.AddPoolsProposal"),
       ("gov", "lend.AddAssetToPairProposal"), ("gov", "lend.AddMultipleAssetToPairProposal"), ("gov", "lend.AddAssetRatesParams"),
       ("gov", "lend.AddAuctionParamsProposal"), ("gov", "lend.AddPoolPairsProposal"),
       ("gov", "lend.AddAssetRatesPoolPairsProposal"), ("gov", "lend.AddPoolDepreciateProposal"), ("gov", "lend.AddEModePairsProposal"),
       ("gov", "liquidationsV2.WhitelistLiquidationProposal"),
       ("gov", "liquidity.UpdateGenericParamsProposal"), ("gov", "liquidity.CreateNewLiquidityPairProposal")] ++
      Spec.wasmExpected.map (fun p => ("contract", "wasm." ++ p.1)) := by decide +kernel

/-- the proposal handlers: constructor, content type, the keeper function it ends in and what that one calls; all routed -/
theorem proposals_pinned :
    proposals.length = 26 ∧ (∀ p ∈ proposals, p.routed = true ∧ p.writes = true ∧ p.otherCallers = []) ∧
    (proposals.map (·.ctor)).eraseDups =
      ["NewUpdateAssetProposalHandler", "NewAuctionsV2Handler", "NewFetchPriceHandler", "NewLendHandler",
       "NewLiquidationsV2Handler", "NewLiquidityProposalHandler"] ∧
    ((proposals.filter fun p => p.module == "liquidity" || p.module == "bandoracle").map fun p => (p.content, p.keeperFn, p.targets)) =
      [("FetchPriceProposal", "bandoracle.HandleProposalFetchPrice", ["bandoracle.AddFetchPriceRecords"]),
       ("UpdateGenericParamsProposal", "liquidity.HandelUpdateGenericParamsProposal", ["liquidity.UpdateGenericParams"]),
       ("CreateNewLiquidityPairProposal", "liquidity.HandelCreateNewLiquidityPairProposal", ["liquidity.CreatePair"])] := by
  decide +kernel

/-- code that exists but is not wired into the app (pinned: wiring one of them in changes the scope): the gen-1 auction and
liquidation BeginBlockers (their `AppModule.BeginBlock` bodies are commented out) and the upgrade handlers of past versions -/
theorem unwired_entry_points_pinned :
    ((entryPoints.filter fun e => e.caller == "none" && e.kind != "upgrade").map fun e => (e.kind, epName e)) =
      [("blocker", "auction.BeginBlocker"), ("blocker", "liquidation.BeginBlocker")] ∧
    ((entryPoints.filter fun e => e.kind == "upgrade" && e.registered).map epName) = ["mainnet/v13.CreateUpgradeHandlerV13"] ∧
    ((entryPoints.filter fun e => e.kind == "migration").map fun e => (epName e, e.via)) =
      [("lend.Migrate2to3", "from v2"), ("liquidity.Migrate1to2", "from v1"), ("rewards.Migrate2to3", "from v2")] ∧
    ((entryPoints.filter fun e => e.kind == "blocker" && e.registered).map epName) =
      ["asset.BeginBlocker", "auctionsV2.BeginBlocker", "bandoracle.BeginBlocker", "esm.BeginBlocker", "lend.BeginBlocker",
       "liquidationsV2.BeginBlocker", "liquidity.BeginBlocker", "liquidity.EndBlocker", "market.BeginBlocker",
       "rewards.BeginBlocker", "rewards.EndBlocker"] := by decide +kernel

/-- IBC callbacks of x/bandoracle: the channel handshake tests port and version before anything is claimed; a received packet is
looked at only when its destination channel is the configured source channel (before the write of the result). The
acknowledgement callback writes `LastFetchPriceID` without a test of its own: IBC core calls it only for a packet this chain
sent (packet commitment) — trusted, recorded. -/
theorem ibc_callbacks_pinned :
    (ibcCallbacks.map fun c => (c.name, c.guard, c.writes, c.guardFirst)) =
      [("OnChanOpenInit", "port+version", false, true), ("OnChanOpenTry", "port+version", false, true),
       ("OnChanOpenAck", "version", false, true), ("OnChanOpenConfirm", "none", false, false),
       ("OnChanCloseInit", "none", false, false), ("OnChanCloseConfirm", "none", false, false),
       ("OnRecvPacket", "channel", true, true), ("OnAcknowledgementPacket", "none", true, false),
       ("OnTimeoutPacket", "none", false, false)] := by decide +kernel

/-- the keeper functions behind proposal handlers and wasm variants ("privileged targets") are reached from NO MsgServer method
through the call graph — except the two reviewed ones:
* `asset.AddAssetRecords` ← `asset.AddAsset`: MsgAddAsset is the fee-paying public asset registration (x/asset/keeper/asset.go:235,
  the fee `Params.AssetRegisrationFee` is taken from the signer first); it can only ADD an asset record with a fresh name/denom.
* `liquidity.CreatePair` ← `liquidity.CreatePair`: the public pair creation pays `PairCreationFee`; the proposal path calls the same
  function with `isViaProp = true` (no fee). -/
theorem privileged_targets_reach_pinned :
    privTargets.length = 71 ∧ (∀ t ∈ privTargets, t.writes = true) ∧
    ((privTargets.filter fun t => !t.msgReach.isEmpty).map fun t => (t.target, t.msgReach)) =
      [("asset.AddAssetRecords", ["asset.AddAsset"]), ("liquidity.CreatePair", ["liquidity.CreatePair"])] := by decide +kernel

/-- the model of the gov route: content executed with an authority that is not the gov module account changes nothing -/
theorem gov_only_blocks {σ : Type} (handler : σ → Except GClass σ) (s : σ) :
    execLegacyContent false handler s = (s, false) := rfl

theorem gov_authority_runs_handler {σ : Type} (handler : σ → Except GClass σ) (s : σ) :
    execLegacyContent true handler s = applyIfNoError handler s := rfl

example : execLegacyContent false (fun (n : Nat) => .ok (n + 1)) 5 = (5, false) := rfl
example : execLegacyContent true (fun (n : Nat) => .ok (n + 1)) 5 = (6, true) := rfl
example : (entryPoints.filter epPrivileged).length = 47 := by decide +kernel
example : (entryPoints.filter fun e => e.namesPosition).length = 33 := by decide +kernel

/-- spot entries of the inventory -/
theorem spot_entry_points :
    ((entryPoints.filter fun e => epName e ∈ ["esm.MsgKillSwitch", "tokenmint.MsgMintNewTokens", "collector.Deposit", "asset.AddAsset",
        "wasm.MsgRebaseMint", "asset.AddAppProposal", "bandoracle.OnRecvPacket", "esm.ExecuteESM"]).map
      fun e => (e.kind, epName e, e.caller, e.via, e.target)) =
    [("msg", "asset.AddAsset", "signer", "Creator", ""), ("msg", "collector.Deposit", "signer", "Addr", ""),
     ("msg", "esm.ExecuteESM", "signer", "Depositor", ""), ("msg", "esm.MsgKillSwitch", "admin", "From", ""),
     ("msg", "tokenmint.MsgMintNewTokens", "signer", "From", ""),
     ("proposal", "asset.AddAppProposal", "gov", "NewUpdateAssetProposalHandler", "asset.HandleAddAppRecords"),
     ("wasm", "wasm.MsgRebaseMint", "contract", "comdex-1:comdex1[1],comdex-test3:testnet3[1]", "tokenmint.WasmMsgRebaseMint"),
     ("ibc", "bandoracle.OnRecvPacket", "ibc", "channel", "")] := by decide +kernel

end Comdex.C12
