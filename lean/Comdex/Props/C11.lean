import Comdex.Lemmas.English
import Comdex.Lemmas.LimitBid
import Comdex.Lemmas.LimitFill
import Comdex.Props.C10
/-!
# C11 — Bidders' funds are safe: standing bid held, losers refunded, own deposit only

Property clause → theorem
* "the auction custody holds exactly the standing best bid"                         → `C11.custody_holds_standing_bid`
* "each new accepted bid improves on the previous one by at least the configured bid factor"
                                                                                    → `C11.bid_improves_by_factor`
  (increasing bids `new ≥ old + ⌈factor·old⌉`; mirrored for debt auctions, where the bid is a decreasing lot:
   `new ≤ old − ⌈factor·old⌉`; `⌈·⌉` is the code's `MulInt.Ceil.TruncateInt`, and `C11.bid_factor_is_at_least_the_factor`
   shows that increment is ≥ `factor·old` as an exact rational and < 1 unit above it; `C11.bid_never_worsens`:
   the accepted bid is never worse than the standing one as long as the standing debt lot is not negative, which
   `C11.debt_lots_stay_nonneg` guarantees once `ValidateBasic` refuses negative debt bids;
   `C11.debt_bid_improves_counterexample`: on the tree as found a debt bid can be *higher* than the standing one)
* "the outbid bidder is refunded in full in the same transaction"                   → `C11.outbid_refunded_in_full`
                                                                                      (+ `C11.bid_moves_only_the_two_bidders`)
* "at the end exactly one bidder receives the lot"                                  → `C11.exactly_one_winner`
                                                                                      (+ `C11.no_close_without_a_bid`, `C11.closed_auctions_have_a_winner`,
                                                                                       `C11.emergency_close_refunds_bidder` for the shutdown path)
* "while no one else has lost anything"                                             → `C11.losers_whole` (+ `C11.user_ledger`)
* "a limit-bid depositor can withdraw or cancel at most their own outstanding deposit, in the deposited asset"
                                                                                    → `C11.limit_withdraw_le_own_deposit`
* "… minus the stated fee"                                                          → `C11.limit_payout_exact`, `C11.limit_cancel_exact`
* "the recorded total of limit bids equals the sum of individual deposits"          → `C11.bidvalue_eq_sum_deposits`
* "… and is fully held in custody"                                                  → `C11.bidvalue_in_custody`
                                                                                      (+ `C11.market_total_covered`)
* the unrepaired `WithdrawLimitAuctionBid` (no guard, defect D5) violates the clause → `C11.limit_withdraw_le_own_deposit_counterexample`
* the same three limit-bid clauses ACROSS AUTO-FILLS by a Dutch auction (joint model `Model/LimitFill.lean`: book + auction +
  module account; every history of deposit / withdraw / cancel / market bid / begin-block, any number of bidders per premium):
    "recorded total = sum of deposits"           → `C11.fill_bidvalue_eq_sum_deposits_partial` (`= Σ + exact`; the clause itself is
                                                    false after an exact fill: `C11.fill_bidvalue_exact_counterexample`, D40)
    "fully held in custody"                      → `C11.fill_bidvalue_in_custody` (exact ledger with every remainder named),
                                                    `C11.fill_deposits_covered`; `C11.fill_overcharge_counterexample` (D24)
    "at most their own outstanding deposit"      → `C11.fill_withdraw_le_own_deposit`, `C11.fill_touches_only_the_bucket`

Quantification: every finite list of ops — `start` (activator), `bid` / `dbid` (user messages with arbitrary sender,
auction id, denomination, amount), `tick` (any block time), `settle` (the block hook looking at any auction; it closes
or restarts only when the auction's window has passed, or at once under emergency shutdown), `esm` (the shutdown
status flips), and for the second generation also `deposit` / `cancel` /
`withdraw` with arbitrary denomination and amount — from any state with no live auctions.  The only hypothesis on
the history is that user messages are not signed by the custody module account (`UsersOnly`).  The real block hook
is the op list `blockOps` (`C11.real_block_hook_is_covered`).
-/
namespace Comdex.C11
open Comdex.English

-- `Dec.fits` compares with 2^315; let `decide` evaluate it in the concrete witnesses below
set_option exponentiation.threshold 512

/-! ## English-style auctions -/

/-- **Custody holds exactly the standing bids.**  After any history, in every denomination, the auction module
account holds what it held at the start plus, for every live auction, its standing bid (and for a
first-generation surplus auction its lot) — nothing more, nothing less. -/
theorem custody_holds_standing_bid (s0 : State) (ops : List Op) (h0 : s0.live = []) (hc : s0.cust ≠ s0.coll)
    (hu : UsersOnly s0.cust ops) (d : Denom) :
    bal (run s0 ops).bank s0.cust d = bal s0.bank s0.cust d + sumBy (held d) (run s0 ops).live := by
  have g : Good s0 := ⟨hc, by rw [h0]; intro a ha; simp at ha⟩
  obtain ⟨_, hcu, _, hg, _⟩ := run_inv s0 ops g hu
  have := hg d
  unfold custGap at this
  rw [hcu, h0] at this
  simp only [sumBy] at this
  omega

/-- non-vacuity: a first-generation surplus auction with a lot of 10 and a standing bid of 7 — the hypotheses hold
and custody holds 7 of the bid denomination and 10 of the lot denomination -/
def custodyDemo0 : State :=
  { bank := [((2, 0), 50), ((1, 1), 10)], cust := 0, coll := 1, live := [], closed := [], now := 0 }
def custodyDemoOps : List Op :=
  [.start { app := 1, mapping := 1, id := 1, kind := .surplusV1, payDenom := 0, lotDenom := 1, pay := 0, lot := 10, lot0 := 10,
            bidder := none, nbids := 0, factor := 0, endT := 10, bidEndT := 10, dur := 10, bidDur := 5 },
   .bid 2 1 1 1 0 7]

example : custodyDemo0.live = [] ∧ custodyDemo0.cust ≠ custodyDemo0.coll ∧ UsersOnly custodyDemo0.cust custodyDemoOps ∧
    bal (run custodyDemo0 custodyDemoOps).bank 0 0 = 7 ∧ sumBy (held 0) (run custodyDemo0 custodyDemoOps).live = 7 ∧
    bal (run custodyDemo0 custodyDemoOps).bank 0 1 = 10 ∧ sumBy (held 1) (run custodyDemo0 custodyDemoOps).live = 10 := by
  refine ⟨rfl, by decide, ?_, by decide, by decide, by decide, by decide⟩
  intro op h
  simp only [custodyDemoOps, List.mem_cons, List.mem_nil_iff, or_false] at h
  rcases h with h | h <;> subst h <;> simp [Op.sender?, custodyDemo0]

/-- **Each accepted bid improves on the standing one by the bid factor**, with the code's exact rounding
`⌈factor·standing⌉ = (factor.MulInt standing).Ceil.TruncateInt`; mirrored for debt auctions, where the bid is the
(decreasing) amount of tokens the bidder is willing to receive.  The new record carries exactly that bid. -/
theorem bid_improves_by_factor {s s' : State} {op : Op} (h : step s op = some s') (who : Acct) (id : Nat) (amt : Int)
    (hop : (∃ app mp dn, op = .bid who app mp id dn amt) ∨ (∃ app mp dn ed ea, op = .dbid who app mp id dn amt ed ea)) :
    ∃ a a', findAuc s.live id = some a ∧ findAuc s'.live id = some a' ∧ a'.bidder = some who ∧
      (a.kind.increasing = true → a'.pay = amt ∧ a'.lot = a.lot ∧
          ∀ p, a.bidder = some p → amt ≥ a.pay + ceilChange a.factor a.pay) ∧
      (a.kind.increasing = false → a'.lot = amt ∧ a'.pay = a.pay ∧
          ∀ p, a.bidder = some p → amt ≤ a.lot - ceilChange a.factor a.lot) := by
  have key : ∃ a a' payIn, findAuc s.live id = some a ∧ accept s a who a' payIn = some s' ∧ Upd a a' who payIn amt := by
    rcases hop with ⟨app, mp, dn, rfl⟩ | ⟨app, mp, dn, ed, ea, rfl⟩
    · obtain ⟨a, a', p, hf, ha, u, _⟩ := bid_accepted h; exact ⟨a, a', p, hf, ha, u⟩
    · obtain ⟨a, a', p, hf, ha, u, _⟩ := dbid_accepted h; exact ⟨a, a', p, hf, ha, u⟩
  obtain ⟨a, a', payIn, hf, ha, u⟩ := key
  obtain ⟨_, _, _, _, hl, _, _⟩ := accept_spec ha
  have hm := findAuc_mem hf
  have hf' : findAuc s.live a'.id = some a := by rw [u.id, hm.2]; exact hf
  refine ⟨a, a', hf, ?_, u.bidder, ?_, ?_⟩
  · rw [hl, ← hm.2, ← u.id]; exact findAuc_setAuc_self hf'
  · intro hi
    obtain ⟨h1, h2, h3⟩ := u.inc hi
    exact ⟨by rw [u.pay, h1], h2, fun p hp => h3 p hp⟩
  · intro hi
    obtain ⟨h1, h2, h3⟩ := u.dec hi
    exact ⟨h2, by rw [u.pay, h1], fun p hp => h3 p hp⟩

/-- the increment `⌈factor·x⌉` demanded by the code is at least `factor·x` and less than one unit above it
(raw `Dec`: both sides multiplied by 10^18) -/
theorem bid_factor_is_at_least_the_factor (f : Dec) (x : Int) :
    ceilChange f x * Dec.P ≥ f * x ∧ (0 ≤ f * x → ceilChange f x * Dec.P < f * x + Dec.P) :=
  ⟨ceilChange_mul_ge f x, ceilChange_mul_lt f x⟩

example : ceilChange 10000000000000000 1000 = 10 ∧ ceilChange 10000000000000000 1001 = 11 ∧
    ceilChange 333333333333333333 1000000000 = 333333334 ∧ ceilChange 0 5 = 0 := by decide

/-- **An accepted bid never worsens the standing one** (bid factor ≥ 0): an increasing bid is at least the standing
bid; a decreasing (debt) bid is at most the standing lot *provided that lot is not negative*. -/
theorem bid_never_worsens {s s' : State} {op : Op} (h : step s op = some s') (who : Acct) (id : Nat) (amt : Int)
    (hop : (∃ app mp dn, op = .bid who app mp id dn amt) ∨ (∃ app mp dn ed ea, op = .dbid who app mp id dn amt ed ea)) :
    ∃ a, findAuc s.live id = some a ∧ ∀ p, a.bidder = some p → 0 ≤ a.factor →
      (a.kind.increasing = true → 0 ≤ a.pay → a.pay ≤ amt) ∧ (a.kind.increasing = false → 0 ≤ a.lot → amt ≤ a.lot) := by
  obtain ⟨a, a', hf, _, _, hi, hd⟩ := bid_improves_by_factor h who id amt hop
  refine ⟨a, hf, ?_⟩
  intro p hp hfac
  constructor
  · intro hk h0
    have := (hi hk).2.2 p hp
    have := ceilChange_nonneg a.factor a.pay hfac h0
    omega
  · intro hk h0
    have := (hd hk).2.2 p hp
    have := ceilChange_nonneg a.factor a.lot hfac h0
    omega

/-- with a `ValidateBasic` that refuses negative debt bids (`debtFloor = some fl`, `fl ≥ 0`) the standing lot of every
debt auction stays non-negative over every history, so `bid_never_worsens` applies to every accepted debt bid -/
theorem debt_lots_stay_nonneg (s0 : State) (ops : List Op) (h0 : s0.live = []) (fl : Int)
    (hfl : s0.debtFloor = some fl) (hf0 : 0 ≤ fl) (hst : ∀ op ∈ ops, ∀ a, op = .start a → 0 ≤ a.lot) :
    ∀ a ∈ (run s0 ops).live, a.kind.increasing = false → 0 ≤ a.lot :=
  run_lotsOk s0 ops (by intro a ha; rw [h0] at ha; simp at ha) fl hfl hf0 hst

/-- a first-generation debt auction: 2 000 000 tokens on offer for a payment of 200 000, bid factor 1 % -/
def debtDemo (factor : Dec) : State :=
  { bank := [((2, 1), 1000000), ((3, 1), 1000000), ((4, 1), 1000000)], cust := 0, coll := 1, closed := [], now := 0,
    live := [{ app := 1, mapping := 2, id := 1, kind := .debtV1, payDenom := 1, lotDenom := 2, pay := 200000, lot := 2000000,
               lot0 := 2000000, bidder := none, nbids := 0, factor := factor, endT := 300, bidEndT := 300, dur := 300, bidDur := 300 }] }

/-- **Counterexample (negative debt bids, tree as found: `MsgPlaceDebtBid.ValidateBasic` checks no coin)**: after an
opening bid, a bid of −1000 is accepted; then −990, which is *higher* than the standing −1000, is accepted as an
"improvement".  With an (absurd) bid factor of 250 % the bound flips sign: after −3 000 000 a bid of 4 500 000 is
accepted and the close mints 4 500 000 tokens to the bidder although the auction offered at most 2 000 000.  With
`debtFloor = some 1` (a `ValidateBasic` that demands a positive bid) all of these are refused. -/
theorem debt_bid_improves_counterexample :
    (((run (debtDemo 10000000000000000) [.dbid 2 1 2 1 2 2000000 1 200000, .dbid 3 1 2 1 2 (-1000) 1 200000,
          .dbid 4 1 2 1 2 (-990) 1 200000]).live.map fun a => (a.lot, a.bidder)) = [(-990, some 4)]) ∧
    (((run (debtDemo 2500000000000000000) [.dbid 2 1 2 1 2 2000000 1 200000, .dbid 3 1 2 1 2 (-3000000) 1 200000,
          .dbid 4 1 2 1 2 4500000 1 200000, .tick 301, .settle 1]).closed.map fun a => (a.lot, a.bidder)) = [(4500000, some 4)]) ∧
    (bal (run (debtDemo 2500000000000000000) [.dbid 2 1 2 1 2 2000000 1 200000, .dbid 3 1 2 1 2 (-3000000) 1 200000,
          .dbid 4 1 2 1 2 4500000 1 200000, .tick 301, .settle 1]).bank 4 2 = 4500000) ∧
    (((run { debtDemo 10000000000000000 with debtFloor := some 1 } [.dbid 2 1 2 1 2 2000000 1 200000,
          .dbid 3 1 2 1 2 (-1000) 1 200000, .dbid 4 1 2 1 2 0 1 200000]).live.map fun a => (a.lot, a.bidder)) = [(2000000, some 2)]) := by
  decide

/-- what an accepted bid moves: the new bidder pays exactly its own stake, the previous bidder gets back exactly
the stake it had paid, and no other account (besides the custody) changes in any denomination -/
theorem bid_moves_only_the_two_bidders {s s' : State} {op : Op} (h : step s op = some s') (who : Acct) (id : Nat) (amt : Int)
    (hop : (∃ app mp dn, op = .bid who app mp id dn amt) ∨ (∃ app mp dn ed ea, op = .dbid who app mp id dn amt ed ea)) :
    ∃ a, findAuc s.live id = some a ∧ ∀ y e, y ≠ s.cust →
      bal s'.bank y e = bal s.bank y e
        - (if who = y ∧ a.payDenom = e then (if a.kind.increasing then amt else a.pay) else 0)
        + (if a.bidder = some y ∧ a.payDenom = e then a.pay else 0) := by
  have key : ∃ a a' payIn, findAuc s.live id = some a ∧ accept s a who a' payIn = some s' ∧ Upd a a' who payIn amt := by
    rcases hop with ⟨app, mp, dn, rfl⟩ | ⟨app, mp, dn, ed, ea, rfl⟩
    · obtain ⟨a, a', p, hf, ha, u, _⟩ := bid_accepted h; exact ⟨a, a', p, hf, ha, u⟩
    · obtain ⟨a, a', p, hf, ha, u, _⟩ := dbid_accepted h; exact ⟨a, a', p, hf, ha, u⟩
  obtain ⟨a, a', payIn, hf, ha, u⟩ := key
  obtain ⟨_, _, _, _, _, _, hb⟩ := accept_spec ha
  refine ⟨a, hf, ?_⟩
  intro y e hy
  rw [hb y e]
  have hy' : ¬ s.cust = y := fun c => hy c.symm
  have hpay : payIn = (if a.kind.increasing then amt else a.pay) := by
    cases hi : a.kind.increasing with
    | true => simp [(u.inc hi).1]
    | false => simp [(u.dec hi).1]
  rw [← hpay]
  cases hbd : a.bidder with
  | none => simp [hy']
  | some p => simp [hy'] <;> omega

/-- **The outbid bidder is refunded in full in the same transaction**: its balance in the bid denomination grows
by exactly the stake it had paid, and its other balances do not move. -/
theorem outbid_refunded_in_full {s s' : State} {op : Op} (h : step s op = some s') (who : Acct) (id : Nat) (amt : Int)
    (hop : (∃ app mp dn, op = .bid who app mp id dn amt) ∨ (∃ app mp dn ed ea, op = .dbid who app mp id dn amt ed ea))
    (a : Auction) (hf : findAuc s.live id = some a) (p : Acct) (hp : a.bidder = some p) (hne : p ≠ who) (hpc : p ≠ s.cust) :
    bal s'.bank p a.payDenom = bal s.bank p a.payDenom + a.pay ∧
    ∀ e, e ≠ a.payDenom → bal s'.bank p e = bal s.bank p e := by
  obtain ⟨a2, hf2, hb⟩ := bid_moves_only_the_two_bidders h who id amt hop
  rw [hf] at hf2
  have := Option.some.inj hf2
  subst this
  have hne' : ¬ who = p := fun c => hne c.symm
  constructor
  · rw [hb p a.payDenom hpc]; simp [hp, hne']
  · intro e he
    rw [hb p e hpc]
    have : ¬ a.payDenom = e := fun c => he c.symm
    simp [this]

/-- **At the end exactly one bidder receives the lot.**  When the block hook closes an auction (normal operation:
the app is not in emergency shutdown, or the auction is second-generation), the standing bidder `w` receives
exactly the lot, and no other user account changes in any denomination. -/
theorem exactly_one_winner {s s' : State} {id : Nat} (h : step s (.settle id) = some s')
    (a : Auction) (hf : findAuc s.live id = some a) (w : Acct) (hw : a.bidder = some w) (hn : emergency s a = false) :
    s'.closed = a :: s.closed ∧ s'.live = delAuc s.live id ∧
    ∀ x d, x ≠ s.cust → x ≠ s.coll →
      bal s'.bank x d = bal s.bank x d + (if w = x ∧ a.lotDenom = d then payout a else 0) := by
  obtain ⟨a2, hf2, hr⟩ := settle_spec h
  rw [hf] at hf2
  have := Option.some.inj hf2
  subst this
  rcases hr with ⟨he, _⟩ | ⟨_, _, ⟨hb, _⟩ | ⟨w2, b, hb, hcb, hs⟩⟩
  · rw [hn] at he; simp at he
  · rw [hw] at hb; simp at hb
  · rw [hw] at hb
    have := Option.some.inj hb
    subst this
    subst hs
    exact ⟨rfl, rfl, fun x d h1 h2 => closeBank_user hcb x d h1 h2⟩

/-- an auction without a bid is never closed in normal operation: the hook restarts it and moves no funds -/
theorem no_close_without_a_bid {s s' : State} {id : Nat} (h : step s (.settle id) = some s')
    (a : Auction) (hf : findAuc s.live id = some a) (hb : a.bidder = none) (hn : emergency s a = false) :
    s'.bank = s.bank ∧ s'.closed = s.closed := by
  obtain ⟨a2, hf2, hr⟩ := settle_spec h
  rw [hf] at hf2
  have := Option.some.inj hf2
  subst this
  rcases hr with ⟨he, _⟩ | ⟨_, _, ⟨_, hs⟩ | ⟨w2, b, hb2, _, _⟩⟩
  · rw [hn] at he; simp at he
  · subst hs; exact ⟨rfl, rfl⟩
  · rw [hb] at hb2; simp at hb2

/-- the hook acts only when the window has passed (or, first generation, under emergency shutdown) -/
theorem settle_only_when_due {s s' : State} {id : Nat} (h : step s (.settle id) = some s') :
    ∃ a, findAuc s.live id = some a ∧ (due s.now a = true ∨ emergency s a = true) := by
  obtain ⟨a, hf, hr⟩ := settle_spec h
  rcases hr with ⟨he, _⟩ | ⟨_, hd, _⟩
  · exact ⟨a, hf, Or.inr he⟩
  · exact ⟨a, hf, Or.inl hd⟩

/-- **Emergency shutdown loses nobody anything**: when the first-generation hook closes an auction because the
app is in emergency shutdown, the standing bidder gets back exactly its stake, nobody receives the lot, no other
user account moves, and the auction is not recorded as won. -/
theorem emergency_close_refunds_bidder {s s' : State} {id : Nat} (h : step s (.settle id) = some s')
    (a : Auction) (hf : findAuc s.live id = some a) (he : emergency s a = true) :
    s'.closed = s.closed ∧ s'.live = delAuc s.live id ∧
    ∀ x d, x ≠ s.cust → x ≠ s.coll →
      bal s'.bank x d = bal s.bank x d + (if a.bidder = some x ∧ a.payDenom = d then a.pay else 0) := by
  obtain ⟨a2, hf2, hr⟩ := settle_spec h
  rw [hf] at hf2
  have := Option.some.inj hf2
  subst this
  rcases hr with ⟨_, b, heb, hs⟩ | ⟨hn, _⟩
  · subst hs
    exact ⟨rfl, rfl, fun x d h1 h2 => esmBank_user heb x d h1 h2⟩
  · rw [he] at hn; simp at hn

/-- every auction that was ever closed had exactly one winner on record -/
theorem closed_auctions_have_a_winner (s0 : State) (ops : List Op) (h0 : s0.closed = []) :
    ∀ c ∈ (run s0 ops).closed, ∃ w, c.bidder = some w := by
  intro c hc
  have := closed_have_winner s0 ops (by rw [h0]; intro c hc; simp at hc) c hc
  cases hb : c.bidder with
  | none => simp [hb] at this
  | some w => exact ⟨w, rfl⟩

/-- **The users' ledger.**  After any history, every user's balance equals its initial balance, minus what it
currently has locked as standing bids, plus the lots it won (against the stake paid for them). -/
theorem user_ledger (s0 : State) (ops : List Op) (h0 : s0.live = []) (h1 : s0.closed = []) (hc : s0.cust ≠ s0.coll)
    (hu : UsersOnly s0.cust ops) (x : Acct) (hx1 : x ≠ s0.cust) (hx2 : x ≠ s0.coll) (d : Denom) :
    bal (run s0 ops).bank x d =
      bal s0.bank x d - sumBy (stakeOf x d) (run s0 ops).live + sumBy (gainOf x d) (run s0 ops).closed := by
  have g : Good s0 := ⟨hc, by rw [h0]; intro a ha; simp at ha⟩
  obtain ⟨_, _, _, _, hun⟩ := run_inv s0 ops g hu
  have := hun x d hx1 hx2
  unfold userNet at this
  rw [h0, h1] at this
  simp only [sumBy] at this
  omega

/-- **Nobody else has lost anything.**  A user who holds no standing bid and has won no auction has, after any
history (any number of bids placed and outbid, any timing), exactly its initial balance in every denomination. -/
theorem losers_whole (s0 : State) (ops : List Op) (h0 : s0.live = []) (h1 : s0.closed = []) (hc : s0.cust ≠ s0.coll)
    (hu : UsersOnly s0.cust ops) (x : Acct) (hx1 : x ≠ s0.cust) (hx2 : x ≠ s0.coll)
    (hl : ∀ a ∈ (run s0 ops).live, a.bidder ≠ some x) (hw : ∀ c ∈ (run s0 ops).closed, c.bidder ≠ some x) (d : Denom) :
    bal (run s0 ops).bank x d = bal s0.bank x d := by
  rw [user_ledger s0 ops h0 h1 hc hu x hx1 hx2 d]
  rw [sumBy_zero _ _ (fun a ha => by unfold stakeOf; simp [hl a ha]),
      sumBy_zero _ _ (fun c hcm => by unfold gainOf; simp [hw c hcm])]
  omega

/-- the real block hook (`tick`, then `settle` of every live auction) is one of the histories quantified over -/
theorem real_block_hook_is_covered (s : State) (now : Int) (cust : Acct) : UsersOnly cust (blockOps s now) :=
  blockOps_no_sender s now cust

/-- non-vacuity: three bidders, one is outbid, one wins, the third only watches -/
def demo0 : State :=
  { bank := [((2, 0), 100), ((3, 0), 100), ((4, 0), 100), ((1, 1), 50)], cust := 0, coll := 1, live := [], closed := [], now := 0 }
def demoOps : List Op :=
  [.start { app := 1, mapping := 1, id := 1, kind := .surplusV1, payDenom := 0, lotDenom := 1, pay := 0, lot := 50, lot0 := 50,
            bidder := none, nbids := 0, factor := 100000000000000000, endT := 10, bidEndT := 10, dur := 10, bidDur := 5 },
   .bid 2 1 1 1 0 20, .bid 3 1 1 1 0 21, .bid 3 1 1 1 0 22, .tick 11, .settle 1]

example : (run demo0 demoOps).live = [] ∧ (run demo0 demoOps).closed.length = 1 ∧
    bal (run demo0 demoOps).bank 2 0 = 100 ∧ bal (run demo0 demoOps).bank 3 0 = 78 ∧ bal (run demo0 demoOps).bank 3 1 = 50 ∧
    bal (run demo0 demoOps).bank 4 0 = 100 ∧ bal (run demo0 demoOps).bank 0 0 = 0 ∧ bal (run demo0 demoOps).bank 0 1 = 0 := by decide

/-! ## limit-bid deposits -/

open Comdex.LimitBid in
/-- **A depositor withdraws at most its own outstanding deposit, in the deposited asset.**  An accepted
`withdraw` finds the caller's own record, the coin is in the record's denomination, the amount is covered by the
record, and no other depositor's record changes. -/
theorem limit_withdraw_le_own_deposit {s s' : LimitBid.State} {who : Acct} {coll debt : Nat} {prem : Int} {denom : Denom} {amt : Int}
    (h : LimitBid.step s (.withdraw who coll debt prem denom amt) = some s') :
    ∃ rec, getK s.deps ⟨debt, coll, prem, who⟩ = some rec ∧ 0 < amt ∧ amt ≤ rec ∧
      denomOf s.assets debt = some denom ∧
      ∀ k', k' ≠ (⟨debt, coll, prem, who⟩ : Key) → getK s'.deps k' = getK s.deps k' := by
  obtain ⟨rec, hk, hd, ha, hle, hcase⟩ := withdraw_spec h
  refine ⟨rec, hk, ha, hle, hd, ?_⟩
  intro k' hne
  rcases hcase with ⟨_, hc⟩ | ⟨_, b, _, hs⟩
  · rcases cancelCore_spec hc with ⟨_, b, _, hs⟩ | ⟨_, hs⟩ <;> subst hs <;>
      exact getK_delK_ne _ _ _ (fun c => hne c.symm)
  · subst hs
    simp only
    rw [getK_putK]
    have hne' : ¬ (⟨debt, coll, prem, who⟩ : Key) = k' := fun c => hne c.symm
    rw [if_neg hne']

open Comdex.LimitBid in
/-- the same for `cancel`: only the caller's own record is removed -/
theorem limit_cancel_own_deposit {s s' : LimitBid.State} {who : Acct} {coll debt : Nat} {prem : Int}
    (h : LimitBid.step s (.cancel who coll debt prem) = some s') :
    ∃ rec, getK s.deps ⟨debt, coll, prem, who⟩ = some rec ∧
      ∀ k', k' ≠ (⟨debt, coll, prem, who⟩ : Key) → getK s'.deps k' = getK s.deps k' := by
  obtain ⟨rec, dd, hk, _, hc⟩ := cancel_spec h
  refine ⟨rec, hk, ?_⟩
  intro k' hne
  rcases cancelCore_spec hc with ⟨_, b, _, hs⟩ | ⟨_, hs⟩ <;> subst hs <;>
    exact getK_delK_ne _ _ _ (fun c => hne c.symm)

open Comdex.LimitBid in
/-- **The payout is the amount minus the stated fee, as the code computes it**: a partial withdraw pays
`amt − ⌊withdrawalFee·amt⌋`, a full one `amt − ⌊closingFee·amt⌋` (the cancel path), to the caller, in the deposited
denomination; no other user account moves. -/
theorem limit_payout_exact {s s' : LimitBid.State} {who : Acct} {coll debt : Nat} {prem : Int} {denom : Denom} {amt : Int}
    (h : LimitBid.step s (.withdraw who coll debt prem denom amt) = some s') :
    ∃ rec, getK s.deps ⟨debt, coll, prem, who⟩ = some rec ∧
      ∀ y e, y ≠ s.eng.cust →
        bal s'.eng.bank y e = bal s.eng.bank y e +
          (if who = y ∧ denom = e then amt - (if amt = rec then fee s.closingFee amt else fee s.withdrawalFee amt) else 0) := by
  obtain ⟨rec, hk, hd, ha, hle, hcase⟩ := withdraw_spec h
  refine ⟨rec, hk, ?_⟩
  intro y e hy
  have hy' : ¬ s.eng.cust = y := fun c => hy c.symm
  rcases hcase with ⟨he, hc⟩ | ⟨hlt, b, hsend, hs⟩
  · subst he
    rcases cancelCore_spec hc with ⟨_, b, hsend, hs⟩ | ⟨hle0, _⟩
    · subst hs
      simp only [setBank]
      rw [send_bal hsend]
      simp [hy']
    · omega
  · subst hs
    simp only [setBank]
    rw [send_bal hsend]
    have : ¬ amt = rec := by omega
    simp [hy', this]

open Comdex.LimitBid in
/-- `cancel` pays the whole outstanding deposit minus the closing fee -/
theorem limit_cancel_exact {s s' : LimitBid.State} {who : Acct} {coll debt : Nat} {prem : Int}
    (h : LimitBid.step s (.cancel who coll debt prem) = some s') (hp : Pos s) :
    ∃ rec dd, getK s.deps ⟨debt, coll, prem, who⟩ = some rec ∧ denomOf s.assets debt = some dd ∧
      ∀ y e, y ≠ s.eng.cust →
        bal s'.eng.bank y e = bal s.eng.bank y e + (if who = y ∧ dd = e then rec - fee s.closingFee rec else 0) := by
  obtain ⟨rec, dd, hk, hd, hc⟩ := cancel_spec h
  refine ⟨rec, dd, hk, hd, ?_⟩
  intro y e hy
  have hy' : ¬ s.eng.cust = y := fun c => hy c.symm
  have hr := pos_of_getK hp hk
  rcases cancelCore_spec hc with ⟨_, b, hsend, hs⟩ | ⟨hle0, _⟩
  · subst hs
    simp only [setBank]
    rw [send_bal hsend]
    simp [hy']
  · omega

open Comdex.LimitBid in
/-- the fee is never negative, so the payout never exceeds the amount asked for -/
theorem limit_payout_le_amount (rate : Dec) (amt : Int) (hr : 0 ≤ rate) (ha : 0 ≤ amt) : amt - fee rate amt ≤ amt := by
  have := fee_nonneg rate amt hr ha
  omega

open Comdex.LimitBid in
/-- **The recorded total of a market equals the sum of its individual deposits** — after any history of deposits,
partial withdrawals, cancels and auction activity, for every (debt asset, collateral asset) market. -/
theorem bidvalue_eq_sum_deposits (s0 : LimitBid.State) (ops : List LimitBid.Op)
    (hd : s0.deps = []) (hb : s0.bv = []) (hl : s0.eng.live = []) (hc : s0.eng.cust ≠ s0.eng.coll)
    (hu : UsersOnlyL s0.eng.cust ops) (debt coll : Nat) :
    getD0 (LimitBid.run s0 ops).bv (debt, coll) = marketSum (LimitBid.run s0 ops).deps debt coll ∧
    (∀ kv ∈ (LimitBid.run s0 ops).deps, kv.2 > 0) := by
  have g : Good s0.eng := ⟨hc, by rw [hl]; intro a ha; simp at ha⟩
  have hp : Pos s0 := by unfold Pos; rw [hd]; intro kv hkv; simp at hkv
  have hbv : BvInv s0 := by
    intro d c; rw [hb, hd]; simp [getD0, getK, marketSum, sumK]
  obtain ⟨i1, i2, _, _, _⟩ := LimitBid.run_inv s0 ops g hu hp hbv
  exact ⟨i2 debt coll, i1⟩

open Comdex.LimitBid in
/-- **The deposits are fully held in custody.**  In every denomination the module account holds exactly: what it
held at the start + the standing English bids + the sum of all outstanding limit-bid deposits in that
denomination + the fees it retained. -/
theorem bidvalue_in_custody (s0 : LimitBid.State) (ops : List LimitBid.Op)
    (hd : s0.deps = []) (hb : s0.bv = []) (hf : s0.fees = []) (hl : s0.eng.live = []) (hc : s0.eng.cust ≠ s0.eng.coll)
    (hu : UsersOnlyL s0.eng.cust ops) (d : Denom) :
    bal (LimitBid.run s0 ops).eng.bank s0.eng.cust d =
      bal s0.eng.bank s0.eng.cust d + sumBy (held d) (LimitBid.run s0 ops).eng.live
        + denomSum (LimitBid.run s0 ops) d + getD0 (LimitBid.run s0 ops).fees d := by
  have g : Good s0.eng := ⟨hc, by rw [hl]; intro a ha; simp at ha⟩
  have hp : Pos s0 := by unfold Pos; rw [hd]; intro kv hkv; simp at hkv
  have hbv : BvInv s0 := by
    intro d c; rw [hb, hd]; simp [getD0, getK, marketSum, sumK]
  obtain ⟨_, _, i3, i4, _⟩ := LimitBid.run_inv s0 ops g hu hp hbv
  have := i3 d
  unfold gapL custGap denomSum at this
  rw [i4.cust, hd, hf, hl] at this
  simp only [sumBy, sumK, getD0, getK] at this
  unfold denomSum
  rw [i4.assets] at this ⊢
  simp only [getD0] at this ⊢
  omega

open Comdex.LimitBid in
/-- corollary: with non-negative fee rates, the recorded total of any market is covered by the custody balance
of its debt denomination net of the initial balance and of the standing English bids -/
theorem market_total_covered (s0 : LimitBid.State) (ops : List LimitBid.Op)
    (hd : s0.deps = []) (hb : s0.bv = []) (hf : s0.fees = []) (hl : s0.eng.live = []) (hc : s0.eng.cust ≠ s0.eng.coll)
    (hu : UsersOnlyL s0.eng.cust ops) (hcf : 0 ≤ s0.closingFee) (hwf : 0 ≤ s0.withdrawalFee)
    (debt coll : Nat) (d : Denom) (hdd : denomOf s0.assets debt = some d) :
    getD0 (LimitBid.run s0 ops).bv (debt, coll) ≤
      bal (LimitBid.run s0 ops).eng.bank s0.eng.cust d - bal s0.eng.bank s0.eng.cust d
        - sumBy (held d) (LimitBid.run s0 ops).eng.live := by
  obtain ⟨hsum, hpos⟩ := bidvalue_eq_sum_deposits s0 ops hd hb hl hc hu debt coll
  have hcust := bidvalue_in_custody s0 ops hd hb hf hl hc hu d
  have hfe : FeesNonneg s0 := by intro e; rw [hf]; simp [getD0, getK]
  obtain ⟨hfn, _, _⟩ := run_fees s0 ops hfe hcf hwf
  have g : Good s0.eng := ⟨hc, by rw [hl]; intro a ha; simp at ha⟩
  have hp : Pos s0 := by unfold Pos; rw [hd]; intro kv hkv; simp at hkv
  have hbv : BvInv s0 := by
    intro d c; rw [hb, hd]; simp [getD0, getK, marketSum, sumK]
  obtain ⟨_, _, _, i4, _⟩ := LimitBid.run_inv s0 ops g hu hp hbv
  have hle : marketSum (LimitBid.run s0 ops).deps debt coll ≤ denomSum (LimitBid.run s0 ops) d := by
    unfold marketSum denomSum
    apply sumK_le_of_imp _ _ _ _ hpos
    intro k hk
    simp only [inMarket, decide_eq_true_eq] at hk
    simp only [inDenom, decide_eq_true_eq]
    rw [i4.assets, hk.1]; exact hdd
  have := hfn d
  omega

/-! ### defect D5: the unrepaired handler -/

open Comdex.LimitBid in
/-- A (account 2) has deposited 100 and B (account 3) 900 at the same key; custody holds 1000. -/
def d5State : LimitBid.State :=
  { eng := { bank := [((0, 2), 1000)], cust := 0, coll := 1, live := [], closed := [], now := 0 },
    deps := [(⟨3, 2, 5, 2⟩, 100), (⟨3, 2, 5, 3⟩, 900)], bv := [((3, 2), 1000)], fees := [],
    assets := [(1, 0), (2, 1), (3, 2), (4, 3)], closingFee := 0, withdrawalFee := 0 }

open Comdex.LimitBid in
/-- **Counterexample (D5)**: `WithdrawLimitAuctionBid` as it stands in the unrepaired tree (`guarded = false`) lets A
withdraw 600 against a deposit of 100: A is paid 600, its record becomes −500 and the recorded total 400 is below
B's deposit of 900; it also pays out in a denomination (1) that was never deposited in this market.  The repaired
guard rejects both. -/
theorem limit_withdraw_le_own_deposit_counterexample :
    ((withdrawStep false d5State 2 2 3 5 2 600).map fun s =>
        (getK s.deps ⟨3, 2, 5, 2⟩, getD0 s.bv (3, 2), bal s.eng.bank 2 2, bal s.eng.bank 0 2)) = some (some (-500), 400, 600, 400) ∧
    ((withdrawStep false { d5State with eng := { d5State.eng with bank := [((0, 2), 1000), ((0, 1), 77)] } } 2 2 3 5 1 50).map fun s =>
        (getK s.deps ⟨3, 2, 5, 2⟩, bal s.eng.bank 2 1, bal s.eng.bank 0 1)) = some (some 50, 50, 27) ∧
    (withdrawStep true d5State 2 2 3 5 2 600).isNone = true ∧
    (withdrawStep true d5State 2 2 3 5 1 50).isNone = true := by decide

open Comdex.LimitBid in
/-- non-vacuity of the limit-bid theorems: deposit, partial withdraw with a 1 % fee, full withdraw of the rest -/
example :
    let s0 : LimitBid.State :=
      { eng := { bank := [((2, 2), 1000)], cust := 0, coll := 1, live := [], closed := [], now := 0 },
        deps := [], bv := [], fees := [], assets := [(2, 1), (3, 2)], closingFee := 10000000000000000, withdrawalFee := 10000000000000000 }
    let s := LimitBid.run s0 [.deposit 2 2 3 5 2 1000, .withdraw 2 2 3 5 2 400, .withdraw 2 2 3 5 1 100, .withdraw 2 2 3 5 2 601]
    getK s.deps ⟨3, 2, 5, 2⟩ = some 600 ∧ getD0 s.bv (3, 2) = 600 ∧ bal s.eng.bank 2 2 = 396 ∧ bal s.eng.bank 0 2 = 604 ∧
      getD0 s.fees 2 = 4 := by decide

/-! ## limit bids auto-filled by a Dutch auction: the joint model (`Model/LimitFill.lean`)

The book of one market, one second-generation Dutch auction of that pair and the module account they share.  Histories: any finite
list of `deposit` / `cancel` / `withdraw` (any bidder, premium, amount), market bids, reserve top-ups and begin-blocks (price update,
restart, the shutdown branch, then `LimitOrderBid` with ANY number of bidders in the bucket, partial fills and fills that close the
auction), from the state right after the activator.  Nothing is assumed about the limit bids: D7 (several bidders at one
premium, stale auction value) and D24 (fill clipped by exhausted collateral) are part of the model. -/

section Fill
open Comdex.DutchV2 Comdex.LimitFill
open Comdex.LimitBid (getK getD0 fee)

theorem fill_init (je : JEnv) (a : Auc) (b : DutchV2.Bank) (r : Option Int) (hs : C10.Start je.e a) :
    JInv (b.get .auction .debt) je (initJ je a b r) := by
  refine ⟨C10.init_invW je.e a b r hs, ?_⟩
  refine ⟨by intro kv hkv; simp [initJ] at hkv, ?_, ?_, by simp [initJ]⟩
  · simp [initJ, total, LimitBid.sumK]
  · simp [initJ, initSt, total, LimitBid.sumK]

/-- **The recorded total of the market equals the sum of the individual deposits — up to the deposits consumed by exact fills.**
After any history `BidValue = Σ records + exact`, every record is positive, and `exact ≥ 0` is the sum of the deposits that were
equal to the auction's remaining debt when they were filled: for those `LimitOrderBid` deletes the record and returns before
it reduces `BidValue` (`auctions.go:561-566`).  `_partial`: the clause itself ("equals") is false of the code after the first exact
fill — `fill_bidvalue_exact_counterexample`. -/
theorem fill_bidvalue_eq_sum_deposits_partial (je : JEnv) (hw : WfJEnv je) (a : Auc) (b : DutchV2.Bank) (r : Option Int)
    (hs : C10.Start je.e a) (ops : List LimitFill.Op) (hops : ∀ op ∈ ops, WfOpJ op) :
    let s := LimitFill.run je (initJ je a b r) ops
    s.bv = total s.deps + s.exact ∧ 0 ≤ s.exact ∧ (∀ kv ∈ s.deps, kv.2 > 0) := by
  obtain ⟨_, hb⟩ := LimitFill.run_inv hw ops _ (fill_init je a b r hs) hops
  exact ⟨hb.bv, hb.exact_nonneg, hb.pos⟩

/-- **The deposits in custody — the exact ledger of the shared module account, for every history.**  With `other0` what the
account held of the debt denomination at the start:

  `custody + short + esmOut = other0 + Σ records + fees retained + over + booked + P`,
  `P = paid` while the auction is open, `P = paid + need − target ≥ 0` once it is closed.

Every term on the right except `over` is ≥ 0.  So the records are fully covered (`fill_deposits_covered`) unless money left the
account that should not have: `short` (a reserve draw the close needed and did not get — C10's D23) and `esmOut` (`TriggerEsm` under
shutdown — D39).  `over` is what fills debited from deposits beyond what the auction charged (D24: it stays in the account,
claimed by no record); `P` after the close is what several bidders at one premium paid beyond the target (D7: stays as well). -/
theorem fill_bidvalue_in_custody (je : JEnv) (hw : WfJEnv je) (a : Auc) (b : DutchV2.Bank) (r : Option Int)
    (hs : C10.Start je.e a) (ops : List LimitFill.Op) (hops : ∀ op ∈ ops, WfOpJ op) :
    let s := LimitFill.run je (initJ je a b r) ops
    (∀ a', s.d.auc = some a' →
      s.d.bank.get .auction .debt + s.d.short + s.d.esmOut =
        b.get .auction .debt + total s.deps + s.fees + s.over + s.d.booked + s.d.paid) ∧
    (s.d.auc = none →
      s.d.bank.get .auction .debt + s.d.short + s.d.esmOut =
        b.get .auction .debt + total s.deps + s.fees + s.over + s.d.booked + (s.d.paid + s.d.need - je.e.target) ∧
      0 ≤ s.d.paid + s.d.need - je.e.target) ∧
    0 ≤ s.d.paid ∧ 0 ≤ s.d.booked ∧ 0 ≤ s.d.short ∧ 0 ≤ s.d.esmOut ∧ 0 ≤ total s.deps := by
  obtain ⟨hwi, hb⟩ := LimitFill.run_inv hw ops _ (fill_init je a b r hs) hops
  simp only
  refine ⟨?_, ?_, hwi.paid_nonneg, hwi.booked_nonneg, hwi.short_nonneg, hwi.esm_nonneg, total_nonneg hb.pos⟩
  · intro a' ha'
    obtain ⟨_, _, o3⟩ := hwi.open_ a' ha'
    rw [o3, hb.cust]
  · intro hn
    obtain ⟨c1, c2⟩ := hwi.closed hn
    exact ⟨by have := hb.cust; omega, by omega⟩

/-- **Fully held in custody**, in the form the clause is meant: if no reserve draw was skipped, `TriggerEsm` paid nothing out and
no fill charged more than it debited, the module account holds at least what it held at the start plus every outstanding
deposit plus the fees it retained — whatever the auction did in between (partial fills, closing fills, several bidders at one
premium). -/
theorem fill_deposits_covered (je : JEnv) (hw : WfJEnv je) (a : Auc) (b : DutchV2.Bank) (r : Option Int)
    (hs : C10.Start je.e a) (ops : List LimitFill.Op) (hops : ∀ op ∈ ops, WfOpJ op)
    (h1 : (LimitFill.run je (initJ je a b r) ops).d.short = 0) (h2 : (LimitFill.run je (initJ je a b r) ops).d.esmOut = 0)
    (h3 : 0 ≤ (LimitFill.run je (initJ je a b r) ops).over) :
    let s := LimitFill.run je (initJ je a b r) ops
    b.get .auction .debt + total s.deps + s.fees ≤ s.d.bank.get .auction .debt := by
  obtain ⟨o, c, p1, p2, _, _, _⟩ := fill_bidvalue_in_custody je hw a b r hs ops hops
  simp only at o c p1 p2 ⊢
  cases hauc : (LimitFill.run je (initJ je a b r) ops).d.auc with
  | some a' => have := o a' hauc; omega
  | none => obtain ⟨c1, c2⟩ := c hauc; omega

/-- **A begin-block touches only the records of the auction's current premium bucket**: every record at another premium is
exactly what it was (no other depositor is debited, whatever happens in the loop). -/
theorem fill_touches_only_the_bucket (je : JEnv) (s : JSt) (esm : Bool) (now twaC twaD : Int) (actC actD : Bool) (a : Auc) (k : Int)
    (ha : (if esm then tickIterEsm je.e s.d now twaC actC twaD actD else tickIter je.e s.d now twaC actC twaD actD).auc = some a)
    (hk : bucket a = .ok (some k)) (key : RKey) (hne : key.1 ≠ k) :
    getK (LimitFill.step je s (.tick esm now twaC actC twaD actD)).deps key = getK s.deps key :=
  tick_frame a ha k hk key hne

/-- **A depositor withdraws at most their own outstanding deposit** — in the joint model too, i.e. also for a record that an
auto-fill has already reduced: an accepted `withdraw` finds the caller's own record, `0 < amt ≤ record`, and the caller is paid
`amt − fee` out of the module account; the guard reads the record as the fills left it. -/
theorem fill_withdraw_le_own_deposit (je : JEnv) (s s' : JSt) (who : Nat) (prem amt : Int)
    (h : stepE je s (.withdraw who prem amt) = .ok s') :
    ∃ rec, getK s.deps (prem, who) = some rec ∧ 0 < amt ∧ amt ≤ rec := by
  simp only [stepE] at h
  unfold withdrawStep at h
  split at h
  · cases h
  · split at h
    · cases h
    · split at h
      · cases h
      · rename_i rec hk
        split at h
        · cases h
        · exact ⟨rec, hk, by omega, by omega⟩

/-! ### witnesses (replayed on the real begin-blocker by `TestC11Fill`, first sequences of the run) -/

def fEnv : JEnv := { e := C10.wEnv, order := [4, 1, 3, 2] }
def fBank : DutchV2.Bank := [((.auction, .coll), 1000000), ((.bidder 1, .debt), 10000000), ((.bidder 2, .debt), 10000000),
  ((.bidder 3, .debt), 10000000), ((.bidder 4, .debt), 10000000), ((.reserve, .debt), 100000000)]
def fInit : JSt := initJ fEnv (C10.wAuc 1680000000000000000000000 1400000000000000000000000) fBank (some 100000000)

/-- **`BidValue` is not reduced by an exact fill** (`auctions.go:561-566`): b1 deposits exactly the target 1 120 000 at premium 9,
b2 500 000 at premium 20; the block at +2950 s fills the auction from b1's deposit and closes it: b1's record is gone, the
recorded total still says 1 620 000 although only b2's 500 000 are outstanding. -/
theorem fill_bidvalue_exact_counterexample :
    let s := LimitFill.run fEnv fInit [.deposit 1 9 1120000, .deposit 2 20 500000, .tick false 2950 1400000 true 1000000 true]
    s.d.auc = none ∧ s.deps = [((20, 2), 500000)] ∧ s.bv = 1620000 ∧ s.exact = 1120000 ∧ total s.deps = 500000 := by decide

/-- D7 in the joint model: b1 and b2 wait with 400 000 each at premium 9 and are both filled against the value read before the
loop (the record then asks for 720 000 more although 800 000 of 1 120 000 are paid).  Every limit-bid clause holds: both records
are gone, `BidValue` = Σ records = b3's 250 000, and the module account holds b3's deposit plus everything the two paid. -/
example :
    let s := LimitFill.run fEnv fInit [.deposit 1 9 400000, .deposit 2 9 400000, .deposit 3 10 250000,
      .tick false 2950 1400000 true 1000000 true]
    (s.d.auc.map fun a => a.debt) = some 720000 ∧ s.deps = [((10, 3), 250000)] ∧ s.bv = 250000 ∧ s.d.paid = 800000 ∧
      s.d.bank.get .auction .debt = 250000 + 800000 ∧ s.over = 0 ∧ s.exact = 0 := by decide

/-- **D24 in the joint model** (`auctions.go:561-572`): collateral worth 990 000 at the posted price, remaining target 1 120 000, b1
has 2 000 000 waiting at premium 1: the fill closes the auction, the auction charges 990 000 (the reserve adds 130 000), but the
record is debited by the whole 1 120 000: 130 000 stay in the module account, claimed by no record (`over`). -/
theorem fill_overcharge_counterexample :
    let s := LimitFill.run fEnv (initJ fEnv (C10.wAuc 1200000000000000000000000 1000000000000000000000000) fBank (some 100000000))
      [.deposit 1 1 2000000, .tick false 2100 1000000 true 1000000 true]
    s.d.auc = none ∧ s.deps = [((1, 1), 880000)] ∧ s.bv = 880000 ∧ s.d.paid = 990000 ∧ s.over = 130000 ∧
      s.d.bank.get .auction .debt = 880000 + 130000 := by decide

/-- non-vacuity of the `fill_…` theorems: the witness environment is well-formed, the record the activator wrote is a `Start`, the
operations are well-formed, and in the run "b1 deposits 3 000 000 at premium 9, b2 600 000 at premium 20, block at +2950 s" the fill
(a) leaves b2's record alone (premium 20 ≠ bucket 9), (b) leaves b1 a record of 1 880 000 from which b1 then withdraws 880 000 — accepted,
880 001 more than the rest — refused, and (c) the hypotheses of `fill_deposits_covered` hold (no shortfall, no shutdown, `over = 0`) -/
example :
    WfJEnv fEnv ∧ C10.Start fEnv.e (C10.wAuc 1680000000000000000000000 1400000000000000000000000) ∧
    (∀ op ∈ [LimitFill.Op.deposit 1 9 3000000, .deposit 2 20 600000, .tick false 2950 1400000 true 1000000 true, .withdraw 1 9 880000], WfOpJ op) ∧
    (let s := LimitFill.run fEnv fInit [.deposit 1 9 3000000, .deposit 2 20 600000, .tick false 2950 1400000 true 1000000 true]
     s.deps = [((9, 1), 1880000), ((20, 2), 600000)] ∧ s.bv = 2480000 ∧ s.d.auc = none ∧ s.d.short = 0 ∧ s.d.esmOut = 0 ∧ s.over = 0 ∧
     s.d.bank.get .auction .debt = 2480000 ∧
     (LimitFill.stepE fEnv s (.withdraw 1 9 880000)).toBool = true ∧ (LimitFill.stepE fEnv s (.withdraw 1 9 1880001)).toBool = false) := by
  refine ⟨⟨⟨by decide, by decide, by decide, by decide, by decide, by decide⟩, by decide⟩,
    ⟨rfl, rfl, rfl, by decide, by decide, by decide, by decide, by decide, rfl⟩, ?_, by decide⟩
  intro op hop
  simp only [List.mem_cons, List.mem_nil_iff, or_false] at hop
  rcases hop with h | h | h | h <;> subst h <;> simp [WfOpJ]

end Fill

end Comdex.C11