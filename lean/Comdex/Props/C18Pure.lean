import Comdex.Gen.Pure
import Comdex.Lemmas.GoSem
import Comdex.Model.LendRates
/-!
# C18 — the lend rate formulas of the model ARE the arithmetic of the current Go source

Regenerated on every run by `extract/pure` from `x/lend/keeper/maths.go`.  The three functions are "read records,
then arithmetic": the keeper reads (`GetPool`, `GetAsset`, `ModuleBalance`, `GetAssetStatsByPoolIDAndAssetID`,
`GetAssetRatesParams`, and the calls of the other two rate functions) are declared state reads in the translator's spec —
their results become PARAMETERS of the Lean function, struct results are flattened to the fields used (notes/PURE.md);
`error` results are `Bool` ("is not nil").

| Go function                              | translation            | model                     | theorem |
|------------------------------------------|------------------------|---------------------------|---------|
| `GetUtilisationRatioByPoolIDAndAssetID`  | `lendUtilisationRatio` | `LendRates.utilisation`   | `pure_lendUtilisationRatio_eq_model` |
| `GetBorrowAPRByAssetID`                  | `lendBorrowAPR`        | `LendRates.borrowRate`    | `pure_lendBorrowAPR_eq_model` |
| `GetLendAPRByAssetIDAndPoolID`           | `lendLendAPR`          | `LendRates.lendRate`      | `pure_lendLendAPR_eq_model` |
| (not-found / error hand-on paths)        |                        |                           | `pure_lend_error_paths` |

Relation `GoSem.Agrees g m` (the model has no 315-bit overflow checks): whenever the translated function RETURNS it
returns the model's value and no error; it panics by a division by zero exactly where the model says `none`
(`uOpt = 0`, `1 − uOpt = 0`); an overflow-class panic of the code (`Int64()` out of range — which the model of
`utilisation` also reports as `none` — or a 315-bit `Dec` overflow) is not constrained.  For ALL parameter values.

Trusted: the translator's reading of Go (incl. the `reads` declarations) and `Base/GoSem.lean`; kernel-checked: the relation.
-/
set_option exponentiation.threshold 512
namespace Comdex.C18
open Comdex Comdex.GoSem Comdex.LendRates

/-- `Int64()` with the model's guard: outside int64 the code panics with an overflow-class panic, the model says `none` -/
theorem agrees_intInt64_guard (a : Int) : Agrees (intInt64 a) (if isInt64 a = true then some a else none) := by
  unfold intInt64
  have : GoSem.fitsI64 a = isInt64 a := rfl
  rw [this]
  split
  · rfl
  · trivial

local macro "agrees_steps'" : tactic => `(tactic| repeat (first
  | exact Agrees.pure _
  | exact agrees_intInt64_guard _
  | exact Agrees.decAdd _ _ | exact Agrees.decSub _ _ | exact Agrees.decMul _ _ | exact Agrees.decQuo _ _
  | exact Agrees.intAdd _ _
  | apply Agrees.bind
  | apply Agrees.ite
  | intro _))

theorem pure_lendUtilisationRatio_eq_model (bal tb tsb : Int) :
    Agrees (Gen.Pure.lendUtilisationRatio bal tb tsb true)
      ((utilisation bal (tb + tsb)).map fun r => (r, false)) := by
  unfold Gen.Pure.lendUtilisationRatio utilisation
  simp only [not_true_eq_false, if_false]
  apply Agrees.of_eq
  · agrees_steps'
  · simp only [Option.bind_some]
    cases hA : isInt64 bal <;> cases hB : isInt64 (tb + tsb) <;>
      simp only [Bool.false_eq_true, if_false, if_true, Option.bind_none, Option.bind_some, Bool.not_true, Bool.not_false,
        Bool.or_self, Bool.or_true, Bool.true_or, Bool.or_false, Option.map_none]
    have e : (decNew bal).add (decNew (tb + tsb)) = Dec.ofInt bal + Dec.ofInt (tb + tsb) := rfl
    rw [e]
    split <;> rfl

theorem pure_lendBorrowAPR_eq_model (p : Params) (stable : Bool) (u : Dec) :
    Agrees (Gen.Pure.lendBorrowAPR stable p.uOpt p.base p.slope1 p.slope2 p.stableBase p.stableSlope1 p.stableSlope2 true u false)
      ((borrowRate p stable u).map fun r => (r, false)) := by
  unfold Gen.Pure.lendBorrowAPR borrowRate kinked belowKink aboveKink
  simp only [not_true_eq_false, if_false, Bool.false_eq_true]
  cases stable
  · simp only [Bool.false_eq_true, not_false_eq_true, if_true, if_false]
    by_cases hlt : u < p.uOpt
    · simp only [hlt, if_true]
      apply Agrees.of_eq
      · agrees_steps
      · split <;> rfl
    · simp only [hlt, if_false]
      apply Agrees.of_eq
      · agrees_steps
      · simp only [Option.bind_some]
        by_cases h : Dec.one - p.uOpt = 0
        · have h' : decOne.add (-p.uOpt) = 0 := h
          simp only [h, h', if_true]; rfl
        · have h' : ¬ decOne.add (-p.uOpt) = 0 := h
          simp only [h, h', if_false]; rfl
  · simp only [if_true, not_true_eq_false, if_false]
    by_cases hlt : u < p.uOpt
    · simp only [hlt, if_true]
      apply Agrees.of_eq
      · agrees_steps
      · split <;> rfl
    · simp only [hlt, if_false]
      apply Agrees.of_eq
      · agrees_steps
      · simp only [Option.bind_some]
        by_cases h : Dec.one - p.uOpt = 0
        · have h' : decOne.add (-p.uOpt) = 0 := h
          simp only [h, h', if_true]; rfl
        · have h' : ¬ decOne.add (-p.uOpt) = 0 := h
          simp only [h, h', if_false]; rfl

theorem pure_lendLendAPR_eq_model (p : Params) (u b : Dec) (hb : borrowRate p false u = some b) :
    Agrees (Gen.Pure.lendLendAPR p.reserveFactor true b false u false)
      ((lendRate p u).map fun r => (r, false)) := by
  unfold Gen.Pure.lendLendAPR lendRate
  rw [hb]
  simp only [not_true_eq_false, if_false, Bool.false_eq_true]
  apply Agrees.of_eq
  · agrees_steps
  · rfl

/-- error paths: a missing record or a failed read is handed on, nothing is computed -/
theorem pure_lend_error_paths (p : Params) (stable : Bool) (u b : Dec) (bal tb tsb : Int) :
    Gen.Pure.lendUtilisationRatio bal tb tsb false = .ok (0, true) ∧
    Gen.Pure.lendBorrowAPR stable p.uOpt p.base p.slope1 p.slope2 p.stableBase p.stableSlope1 p.stableSlope2 false u false = .ok (0, true) ∧
    Gen.Pure.lendBorrowAPR stable p.uOpt p.base p.slope1 p.slope2 p.stableBase p.stableSlope1 p.stableSlope2 true u true = .ok (0, true) ∧
    Gen.Pure.lendLendAPR p.reserveFactor false b false u false = .ok (0, true) ∧
    Gen.Pure.lendLendAPR p.reserveFactor true b true u false = .ok (0, true) ∧
    Gen.Pure.lendLendAPR p.reserveFactor true b false u true = .ok (0, true) := by
  refine ⟨rfl, rfl, rfl, rfl, rfl, rfl⟩

/-! non-vacuity: uOpt 0.8, base 0.02, slope1 0.05, slope2 1.0; utilisation 0.4 (below the kink) and 0.9 (above) -/
def pEx : Params where
  uOpt := 800000000000000000
  base := 20000000000000000
  slope1 := 50000000000000000
  slope2 := 1000000000000000000
  stableBase := 40000000000000000
  stableSlope1 := 60000000000000000
  stableSlope2 := 1200000000000000000
  reserveFactor := 100000000000000000
example : Gen.Pure.lendUtilisationRatio 600 300 100 true = .ok (400000000000000000, false) := by rfl
example : utilisation 600 400 = some 400000000000000000 := by rfl
example : Gen.Pure.lendBorrowAPR false pEx.uOpt pEx.base pEx.slope1 pEx.slope2 pEx.stableBase pEx.stableSlope1 pEx.stableSlope2
    true 400000000000000000 false = .ok (45000000000000000, false) := by rfl
example : borrowRate pEx false 400000000000000000 = some 45000000000000000 := by rfl
example : Gen.Pure.lendBorrowAPR true pEx.uOpt pEx.base pEx.slope1 pEx.slope2 pEx.stableBase pEx.stableSlope1 pEx.stableSlope2
    true 900000000000000000 false = .ok (700000000000000000, false) := by rfl
example : Gen.Pure.lendLendAPR pEx.reserveFactor true 45000000000000000 false 400000000000000000 false
    = .ok (16200000000000000, false) := by rfl
-- uOpt = 1: the branch above the kink divides by zero
example : Gen.Pure.lendBorrowAPR false 1000000000000000000 0 0 0 0 0 0 true 1000000000000000000 false = .error .panic := by rfl

end Comdex.C18
