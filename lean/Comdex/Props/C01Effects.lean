import Comdex.Model.Vault
import Comdex.Model.Effects
import Comdex.Gen.Effects_vault
import Comdex.Gen.Effects_liquidationsV2
import Comdex.Gen.Effects_esm
/-!
# C01 (and C02, C03) — the EFFECT SKELETON of the vault handlers is the model's

`Gen/Effects_vault.lean` is regenerated from x/vault/keeper/msg_server.go (and what it calls) on every run: for each of the
eleven messages the ordered bank calls and record writes with their path conditions (extract/effects).  `Model/Vault.lean` has
the bank calls of each handler as DATA (`createOps`, `depositOps`, `withdrawOps`, `drawOps`, `repayOps`, `closeOps`,
`stableMintOps`, `stableWithdrawOps`; every handler is *defined through* its list).  Here the two are proved equal after
projection to (kind, from-party role, to-party role, denomination role, "only if its amount is positive"), for ALL inputs of
the model, on the path selected by the model's own branch condition.  Amount expressions are not compared — the
correspondence runs of C01/C02/C03 do that; what this adds is STATIC COMPLETENESS: a transfer that moved under another guard,
lost its guard, changed party or denomination, disappeared, or a new transfer, changes the regenerated table and one of the
theorems below no longer compiles — whatever states the generated population reaches.

## reviewed role table (Go text after normalisation ↦ model role)

| text | role |
|---|---|
| `"vaultV1"` (`types.ModuleName` in x/vault) | `vm` |
| `"collectorV1"` (`collectortypes.ModuleName`) | `cm` |
| `addr(msg.From)` (`sdk.AccAddressFromBech32(msg.From)`) | the signer `from_` |
| `asset.GetAsset(asset.GetPair(asset.GetPairsVault(msg.ExtendedPairVaultId).PairId).AssetIn).Denom` | `p.denomIn` (collateral) |
| `… .AssetOut).Denom` | `p.denomOut` (debt) |

## reviewed condition tables (`…Val`): Go condition ↦ the model's branch condition

| handler | Go condition | model |
|---|---|---|
| MsgCreate | `DrawDownFee.IsZero() && msg.AmountOut.GT(0)` | `p.drawDownFee = 0 ∧ amtOut > 0` (`mintAndSplit`) |
| MsgDraw / stable mint | `DrawDownFee.IsZero() && msg.Amount.GT(0)` | `p.drawDownFee = 0 ∧ amt > 0` (stable mint: the model tests the MINTED amount, which is positive whenever the mint before it succeeded — same truth value on every accepted run) |
| MsgDepositAndDraw | `DrawDownFee.IsZero() && calculateUserToken(…).GT(0)` | the same for the derived draw amount |
| MsgRepay | `msg.Amount.LTE(userVault.InterestAccumulated)` | `amt ≤ v.interest` (`repayOps`) |
| MsgRepay, stable mint | `msg.Amount.GT(0)` | true: the handler (msg_server.go:656) / ValidateBasic rejected `≤ 0` before; the model has `.send`, not `.sendPos`, there |
| MsgWithdrawStableMint | early `return nil, nil` when `GetAmountOfOtherToken` errs | not taken (the model's `otherToken` is total; the error case is excluded by the price inputs) |
| MsgWithdrawStableMint | `updatedAmount.GT(0)` | `amt − feeOf amt fee > 0` (`stableWithdrawOps`) |

`relaxAt`: in MsgWithdrawStableMint the collateral is returned by an UNGUARDED `SendCoinsFromModuleToAccount`
(msg_server.go:1366, 1408) where the model has `.sendPos` (x/bank drops zero coins, the amount is non-negative): the only
two places where the positivity class of model and code differ, listed explicitly in `stableWithdraw_effects`.

## clause → theorem

| clause | theorem |
|---|---|
| bank skeleton of MsgCreate = model | `create_effects` |
| … MsgDeposit / MsgWithdraw / MsgDraw | `deposit_effects`, `withdraw_effects`, `draw_effects` |
| … MsgRepay (both branches) | `repay_effects` |
| … MsgClose | `close_effects` |
| … MsgDepositAndDraw = deposit then draw | `depositAndDraw_effects` |
| … MsgCreateStableMint / MsgDepositStableMint / MsgWithdrawStableMint | `stableCreate_effects`, `stableDeposit_effects`, `stableWithdraw_effects` |
| MsgVaultInterestCalc makes no bank call | `interestCalc_effects` |
| liquidationsV2 `LiquidateIndividualVault` moves the collateral vault → auction custody, if positive = `seizeOps` | `seize_effects` (`custody_go_all`) |
| x/esm redemption of a vault / stable-mint vault: one unguarded transfer vault → esm per vault, both branches = `esmVaultOps` / `esmStableOps` up to the positivity class | `esm_effects` |
| the liquidation sweeps run each liquidation inside `ApplyFuncIfNoError` (seed s61) | `sweep_cached` |
| `MsgCollateralRedemption` / collector debt redemption: golden skeleton (the model has them as direct ledger edits) | `esm_pins` |
| the model's handlers run exactly these lists, then only touch records | `close_runs_ops`, `repay_runs_ops`, `create_runs_ops`, `deposit_runs_ops`, `withdraw_runs_ops`, `draw_runs_ops` |
| every bank call of the eleven handlers is classified, no opaque call | `vault_all_classified` |
| the handler body writes its own records only after its last bank call (every path) | `vault_writes_after_bank` |
| which own records each handler writes, in order (golden list — weaker tie, the model's record update is not data) | `vault_own_writes` |
| table is not empty / has the expected shape | `vault_table_shape` |
-/
namespace Comdex.C01
open Comdex Comdex.Vault Comdex.Effects Comdex.Gen.Effects

/-! ## roles -/

inductive Role where
  | vm | cm | signer | am | em
  deriving DecidableEq, Repr

inductive DRole where
  | coll | debt
  deriving DecidableEq, Repr

abbrev VSkel := Skel Role DRole

def tIn : String := "asset.GetAsset(asset.GetPair(asset.GetPairsVault(msg.ExtendedPairVaultId).PairId).AssetIn).Denom"
def tOut : String := "asset.GetAsset(asset.GetPair(asset.GetPairsVault(msg.ExtendedPairVaultId).PairId).AssetOut).Denom"

/-- the reviewed role table of x/vault -/
def vaultRoles : Roles Role DRole where
  acct := fun t =>
    if t == "\"vaultV1\"" then some .vm
    else if t == "\"collectorV1\"" then some .cm
    else if t == "addr(msg.From)" then some .signer
    else none
  denom := fun t => if t == tIn then some .coll else if t == tOut then some .debt else none

/-! ## the model's side -/

def roleOf (from_ a : Nat) : Option Role :=
  if a = vm then some .vm else if a = cm then some .cm else if a = am then some .am else if a = em then some .em
  else if a = from_ then some .signer else none

def dRoleOf (p : Product) (d : Nat) : Option DRole :=
  if d = p.denomIn then some .coll else if d = p.denomOut then some .debt else none

def mk (k : BKind) (s d : Option Role) (dn : DRole) (pos : Bool) : VSkel := ⟨k, s, d, dn, pos⟩

def opSkel (p : Product) (from_ : Nat) : BankOp → Option VSkel
  | .send a b d _ => match roleOf from_ a, roleOf from_ b, dRoleOf p d with
    | some x, some y, some z => some (mk .send (some x) (some y) z false) | _, _, _ => none
  | .sendPos a b d _ => match roleOf from_ a, roleOf from_ b, dRoleOf p d with
    | some x, some y, some z => some (mk .send (some x) (some y) z true) | _, _, _ => none
  | .mint d _ => (dRoleOf p d).map fun z => mk .mint none (some .vm) z false
  | .burn d _ => (dRoleOf p d).map fun z => mk .burn (some .vm) none z false
  | .burnPos d _ => (dRoleOf p d).map fun z => mk .burn (some .vm) none z true

/-- `skeleton : List BankOp → List Skel` (partial: `none` if an account or denomination has no role) -/
def modelSkel (p : Product) (from_ : Nat) : List BankOp → Option (List VSkel)
  | [] => some []
  | op :: rest => match opSkel p from_ op, modelSkel p from_ rest with
    | some a, some l => some (a :: l)
    | _, _ => none

/-- the signer is a user account, the two assets of the pair differ (x/asset AddPairsRecords rejects equal assets) -/
structure Wf (p : Product) (from_ : Nat) : Prop where
  nvm : from_ ≠ vm
  ncm : from_ ≠ cm
  nam : from_ ≠ am
  nem : from_ ≠ em
  nd  : p.denomIn ≠ p.denomOut

theorem role_vm (f : Nat) : roleOf f vm = some .vm := by simp [roleOf]
theorem role_cm (f : Nat) : roleOf f cm = some .cm := by simp [roleOf, cm, vm]
theorem role_am (f : Nat) : roleOf f am = some .am := by simp [roleOf, cm, vm, am]
theorem role_em (f : Nat) : roleOf f em = some .em := by simp [roleOf, cm, vm, am, em]
theorem role_from {p : Product} {f : Nat} (h : Wf p f) : roleOf f f = some .signer := by
  simp [roleOf, h.nvm, h.ncm, h.nam, h.nem]
theorem drole_in (p : Product) : dRoleOf p p.denomIn = some .coll := by simp [dRoleOf]
theorem drole_out {p : Product} {f : Nat} (h : Wf p f) : dRoleOf p p.denomOut = some .debt := by
  have : p.denomOut ≠ p.denomIn := fun e => h.nd e.symm
  simp [dRoleOf, this]

/-- positions at which the code sends unguarded where the model has `.sendPos` (see header) -/
def relaxAt : List Nat → List VSkel → List VSkel
  | _, [] => []
  | idx, x :: rest => (if idx.contains 0 then { x with pos := false } else x) :: relaxAt (idx.filterMap fun i => if i = 0 then none else some (i - 1)) rest

/-! ## condition texts -/

def cCreate : String := "asset.GetPairsVault(msg.ExtendedPairVaultId).DrawDownFee.IsZero() && msg.AmountOut.GT(0)"
def cDraw : String := "asset.GetPairsVault(msg.ExtendedPairVaultId).DrawDownFee.IsZero() && msg.Amount.GT(0)"
def cDepDraw : String := "asset.GetPairsVault(msg.ExtendedPairVaultId).DrawDownFee.IsZero() && vault.calculateUserToken(vault.GetVault(msg.UserVaultId), msg.Amount).GT(0)"
def cRepay : String := "msg.Amount.LTE(vault.GetVault(msg.UserVaultId).InterestAccumulated)"
def cAmtPos : String := "msg.Amount.GT(0)"
/-- `_, tokenOutAmount, err := k.GetAmountOfOtherToken(ctx, assetOutData.Id, 1, msg.Amount, assetInData.Id, 1); if err != nil { return nil, nil }`
(msg_server.go:1336-1339; long texts are printed head…hash of the whole text…tail by the extractor) -/
def cSwErr : String := "vault.GetAmountOfOtherToken(asset.GetAsset(asset.GetPair(asset.GetPairsVault(msg.ExtendedPairVau…47de1cbb…VaultId).PairId).AssetIn).Id, sdk.OneDec())#3 != nil"
def cSwUpd : String := "msg.Amount.Sub(sdk.NewDecFromInt(msg.Amount).Mul(asset.GetPairsVault(msg.ExtendedPairVaultId).DrawDownFee).TruncateInt()).GT(0)"

/-! ## the regenerated skeletons, path by path (closed terms: kernel evaluation of the generated table) -/

def sSig : Option Role := some .signer
def sVm : Option Role := some .vm
def sCm : Option Role := some .cm

/-- mint, then the whole amount to the user (zero draw-down fee) -/
def skMintFree : List VSkel := [mk .mint none sVm .debt false, mk .send sVm sSig .debt false]
/-- mint, fee to the collector if positive, rest to the user if positive -/
def skMintFee : List VSkel := [mk .mint none sVm .debt false, mk .send sVm sCm .debt true, mk .send sVm sSig .debt true]

/-- what the regenerated table says, path by path -/
def goCreate (b : Bool) : Prop := goSkel vaultRoles (valOf [(cCreate, b)]) h_vault_MsgCreate
    = some (mk .send sSig sVm .coll true :: (if b then skMintFree else skMintFee))
def goDeposit : Prop := goSkel vaultRoles (valOf []) h_vault_MsgDeposit = some [mk .send sSig sVm .coll true]
def goWithdraw : Prop := goSkel vaultRoles (valOf []) h_vault_MsgWithdraw = some [mk .send sVm sSig .coll true]
def goDraw (b : Bool) : Prop := goSkel vaultRoles (valOf [(cDraw, b)]) h_vault_MsgDraw
    = some (if b then skMintFree else skMintFee)
def goRepay (b : Bool) : Prop := goSkel vaultRoles (valOf [(cRepay, b), (cAmtPos, true)]) h_vault_MsgRepay
    = some (if b then [mk .send sSig sVm .debt false, mk .send sVm sCm .debt false]
            else [mk .send sSig sVm .debt false, mk .burn sVm none .debt true, mk .send sVm sCm .debt true])
def goClose : Prop := goSkel vaultRoles (valOf []) h_vault_MsgClose
    = some [mk .send sSig sVm .debt true, mk .send sVm sCm .debt true, mk .send sVm sCm .debt true,
            mk .burn sVm none .debt true, mk .send sVm sSig .coll true]
def goDepositAndDraw (b : Bool) : Prop := goSkel vaultRoles (valOf [(cDepDraw, b)]) h_vault_MsgDepositAndDraw
    = some (mk .send sSig sVm .coll true :: (if b then skMintFree else skMintFee))
def goStableCreate (b : Bool) : Prop :=
  goSkel vaultRoles (valOf [(cDraw, b), (cAmtPos, true)]) h_vault_MsgCreateStableMint
    = some (mk .send sSig sVm .coll false :: (if b then skMintFree else skMintFee))
def goStableDeposit (b : Bool) : Prop :=
  goSkel vaultRoles (valOf [(cDraw, b), (cAmtPos, true)]) h_vault_MsgDepositStableMint
    = some (mk .send sSig sVm .coll false :: (if b then skMintFree else skMintFee))
def goStableWithdraw (free upd : Bool) : Prop :=
    goSkel vaultRoles (valOf [(cSwErr, false), (cAmtPos, true), (cDraw, free), (cSwUpd, upd)]) h_vault_MsgWithdrawStableMint
    = some (if free then [mk .send sSig sVm .debt false, mk .burn sVm none .debt false, mk .send sVm sSig .coll false]
            else [mk .send sSig sVm .debt false, mk .send sVm sCm .debt true] ++
                 (if upd then [mk .burn sVm none .debt false, mk .send sVm sSig .coll false] else []))
def goInterestCalc : Prop := goSkel vaultRoles (valOf []) h_vault_MsgVaultInterestCalc = some ([] : List VSkel)

instance (b : Bool) : Decidable (goCreate b) := by unfold goCreate; exact inferInstance
instance : Decidable goDeposit := by unfold goDeposit; exact inferInstance
instance : Decidable goWithdraw := by unfold goWithdraw; exact inferInstance
instance (b : Bool) : Decidable (goDraw b) := by unfold goDraw; exact inferInstance
instance (b : Bool) : Decidable (goRepay b) := by unfold goRepay; exact inferInstance
instance : Decidable goClose := by unfold goClose; exact inferInstance
instance (b : Bool) : Decidable (goDepositAndDraw b) := by unfold goDepositAndDraw; exact inferInstance
instance (b : Bool) : Decidable (goStableCreate b) := by unfold goStableCreate; exact inferInstance
instance (b : Bool) : Decidable (goStableDeposit b) := by unfold goStableDeposit; exact inferInstance
instance (a b : Bool) : Decidable (goStableWithdraw a b) := by unfold goStableWithdraw; exact inferInstance
instance : Decidable goInterestCalc := by unfold goInterestCalc; exact inferInstance

/-- ONE kernel evaluation of the regenerated vault table (string comparison in the kernel is slow; a single `decide` shares
the work): every path of every handler. -/
theorem vault_go_all :
    (goCreate true ∧ goCreate false) ∧ goDeposit ∧ goWithdraw ∧ (goDraw true ∧ goDraw false) ∧
    (goRepay true ∧ goRepay false) ∧ goClose ∧ (goDepositAndDraw true ∧ goDepositAndDraw false) ∧
    (goStableCreate true ∧ goStableCreate false) ∧ (goStableDeposit true ∧ goStableDeposit false) ∧
    (goStableWithdraw true true ∧ goStableWithdraw true false ∧ goStableWithdraw false true ∧ goStableWithdraw false false) ∧
    goInterestCalc := by decide +kernel

theorem create_go (b : Bool) : goCreate b := by cases b; exact vault_go_all.1.2; exact vault_go_all.1.1
theorem deposit_go : goDeposit := vault_go_all.2.1
theorem withdraw_go : goWithdraw := vault_go_all.2.2.1
theorem draw_go (b : Bool) : goDraw b := by cases b; exact vault_go_all.2.2.2.1.2; exact vault_go_all.2.2.2.1.1
theorem repay_go (b : Bool) : goRepay b := by cases b; exact vault_go_all.2.2.2.2.1.2; exact vault_go_all.2.2.2.2.1.1
theorem close_go : goClose := vault_go_all.2.2.2.2.2.1
theorem depositAndDraw_go (b : Bool) : goDepositAndDraw b := by
  cases b; exact vault_go_all.2.2.2.2.2.2.1.2; exact vault_go_all.2.2.2.2.2.2.1.1
theorem stableCreate_go (b : Bool) : goStableCreate b := by
  cases b; exact vault_go_all.2.2.2.2.2.2.2.1.2; exact vault_go_all.2.2.2.2.2.2.2.1.1
theorem stableDeposit_go (b : Bool) : goStableDeposit b := by
  cases b; exact vault_go_all.2.2.2.2.2.2.2.2.1.2; exact vault_go_all.2.2.2.2.2.2.2.2.1.1
theorem stableWithdraw_go (free upd : Bool) : goStableWithdraw free upd := by
  have h := vault_go_all.2.2.2.2.2.2.2.2.2.1
  cases free <;> cases upd
  · exact h.2.2.2
  · exact h.2.2.1
  · exact h.2.1
  · exact h.1
theorem interestCalc_go : goInterestCalc := vault_go_all.2.2.2.2.2.2.2.2.2.2

/-! ## the model's skeletons -/

theorem mintAndSplit_skel {p : Product} {f : Nat} (h : Wf p f) (amt : Int) :
    modelSkel p f (mintAndSplit p f amt)
      = some (if decide (p.drawDownFee = 0 ∧ amt > 0) then skMintFree else skMintFee) := by
  by_cases c : p.drawDownFee = 0 ∧ amt > 0
  · simp [mintAndSplit, c, modelSkel, opSkel, role_vm, role_from h, drole_out h, skMintFree, mk, sVm, sSig]
  · simp [mintAndSplit, c, modelSkel, opSkel, role_vm, role_cm, role_from h, drole_out h, skMintFee, mk, sVm, sSig, sCm]

theorem modelSkel_cons (p : Product) (f : Nat) (op : BankOp) (rest : List BankOp) (a : VSkel) (l : List VSkel)
    (h1 : opSkel p f op = some a) (h2 : modelSkel p f rest = some l) : modelSkel p f (op :: rest) = some (a :: l) := by
  simp [modelSkel, h1, h2]

/-! ## the ties -/

/-- MsgCreate: regenerated bank skeleton = skeleton of `createOps`, for every product, signer and amounts -/
theorem create_effects (p : Product) (from_ : Nat) (amtIn amtOut : Int) (h : Wf p from_) :
    goSkel vaultRoles (valOf [(cCreate, decide (p.drawDownFee = 0 ∧ amtOut > 0))]) h_vault_MsgCreate
      = modelSkel p from_ (createOps p from_ amtIn amtOut) := by
  rw [show _ = _ from create_go _]
  exact (modelSkel_cons p from_ _ _ _ _ (by simp [opSkel, role_vm, role_from h, drole_in, mk, sSig, sVm])
    (mintAndSplit_skel h amtOut)).symm

theorem deposit_effects (p : Product) (from_ : Nat) (amt : Int) (h : Wf p from_) :
    goSkel vaultRoles (valOf []) h_vault_MsgDeposit = modelSkel p from_ (depositOps p from_ amt) := by
  rw [show _ = _ from deposit_go]; simp [modelSkel, opSkel, role_vm, role_from h, drole_in, mk, sSig, sVm]

theorem withdraw_effects (p : Product) (from_ : Nat) (amt : Int) (h : Wf p from_) :
    goSkel vaultRoles (valOf []) h_vault_MsgWithdraw = modelSkel p from_ (withdrawOps p from_ amt) := by
  rw [show _ = _ from withdraw_go]; simp [modelSkel, opSkel, role_vm, role_from h, drole_in, mk, sSig, sVm]

theorem draw_effects (p : Product) (from_ : Nat) (amt : Int) (h : Wf p from_) :
    goSkel vaultRoles (valOf [(cDraw, decide (p.drawDownFee = 0 ∧ amt > 0))]) h_vault_MsgDraw
      = modelSkel p from_ (drawOps p from_ amt) := by
  rw [show _ = _ from draw_go _]; exact (mintAndSplit_skel h amt).symm

/-- MsgRepay: which branch runs is decided by the model's own condition `amt ≤ v.interest` -/
theorem repay_effects (p : Product) (from_ : Nat) (v : VaultRec) (amt : Int) (h : Wf p from_) :
    goSkel vaultRoles (valOf [(cRepay, decide (amt ≤ v.interest)), (cAmtPos, true)]) h_vault_MsgRepay
      = modelSkel p from_ (repayOps p from_ v amt) := by
  rw [show _ = _ from repay_go _]
  by_cases c : amt ≤ v.interest
  · simp [repayOps, c, modelSkel, opSkel, role_vm, role_cm, role_from h, drole_out h, mk, sSig, sVm, sCm]
  · simp [repayOps, c, modelSkel, opSkel, role_vm, role_cm, role_from h, drole_out h, mk, sSig, sVm, sCm]

/-- MsgClose: five transfers, each under the positivity test of ITS OWN amount (seed s71 merged two of them under one) -/
theorem close_effects (p : Product) (from_ : Nat) (v : VaultRec) (h : Wf p from_) :
    goSkel vaultRoles (valOf []) h_vault_MsgClose = modelSkel p from_ (closeOps p from_ v) := by
  rw [show _ = _ from close_go]
  simp [modelSkel, opSkel, role_vm, role_cm, role_from h, drole_in, drole_out h, mk, sSig, sVm, sCm]

/-- MsgDepositAndDraw = the deposit's calls followed by the draw's (the model composes `deposit` and `draw`) -/
theorem depositAndDraw_effects (p : Product) (from_ : Nat) (amt newAmt : Int) (h : Wf p from_) :
    goSkel vaultRoles (valOf [(cDepDraw, decide (p.drawDownFee = 0 ∧ newAmt > 0))]) h_vault_MsgDepositAndDraw
      = modelSkel p from_ (depositOps p from_ amt ++ drawOps p from_ newAmt) := by
  rw [show _ = _ from depositAndDraw_go _]
  exact (modelSkel_cons p from_ _ _ _ _ (by simp [opSkel, role_vm, role_from h, drole_in, mk, sSig, sVm])
    (mintAndSplit_skel h newAmt)).symm

theorem stableCreate_effects (p : Product) (from_ : Nat) (amt out : Int) (h : Wf p from_) :
    goSkel vaultRoles (valOf [(cDraw, decide (p.drawDownFee = 0 ∧ out > 0)), (cAmtPos, true)]) h_vault_MsgCreateStableMint
      = modelSkel p from_ (stableMintOps p from_ amt out) := by
  rw [show _ = _ from stableCreate_go _]
  exact (modelSkel_cons p from_ _ _ _ _ (by simp [opSkel, role_vm, role_from h, drole_in, mk, sSig, sVm])
    (mintAndSplit_skel h out)).symm

theorem stableDeposit_effects (p : Product) (from_ : Nat) (amt out : Int) (h : Wf p from_) :
    goSkel vaultRoles (valOf [(cDraw, decide (p.drawDownFee = 0 ∧ out > 0)), (cAmtPos, true)]) h_vault_MsgDepositStableMint
      = modelSkel p from_ (stableMintOps p from_ amt out) := by
  rw [show _ = _ from stableDeposit_go _]
  exact (modelSkel_cons p from_ _ _ _ _ (by simp [opSkel, role_vm, role_from h, drole_in, mk, sSig, sVm])
    (mintAndSplit_skel h out)).symm

/-- MsgWithdrawStableMint: equal up to the two unguarded collateral returns (`relaxAt`, see header) -/
theorem stableWithdraw_effects (p : Product) (from_ : Nat) (amt : Int) (h : Wf p from_) :
    goSkel vaultRoles (valOf [(cSwErr, false), (cAmtPos, true), (cDraw, decide (p.drawDownFee = 0)),
                              (cSwUpd, decide (amt - feeOf amt p.drawDownFee > 0))]) h_vault_MsgWithdrawStableMint
      = (modelSkel p from_ (stableWithdrawOps p from_ amt)).map
          (relaxAt (if p.drawDownFee = 0 then [2] else [3])) := by
  rw [show _ = _ from stableWithdraw_go _ _]
  by_cases c : p.drawDownFee = 0
  · simp [stableWithdrawOps, c, modelSkel, opSkel, role_vm, role_from h, drole_in, drole_out h, mk, sSig, sVm, relaxAt]
  · by_cases u : amt - feeOf amt p.drawDownFee > 0
    · have u' : feeOf amt p.drawDownFee < amt := by omega
      simp [stableWithdrawOps, c, u', modelSkel, opSkel, role_vm, role_cm, role_from h, drole_in, drole_out h, mk, sSig, sVm,
        sCm, relaxAt]
    · have u' : ¬ feeOf amt p.drawDownFee < amt := by omega
      simp [stableWithdrawOps, c, u', modelSkel, opSkel, role_vm, role_cm, role_from h, drole_out h, mk, sSig, sVm,
        sCm, relaxAt]

/-- MsgVaultInterestCalc moves no coins (the model's `interestCalc` has no bank call) -/
theorem interestCalc_effects : goSkel vaultRoles (valOf []) h_vault_MsgVaultInterestCalc = some ([] : List VSkel) :=
  interestCalc_go

/-! ## seizure and emergency redemption (other modules moving vault custody) -/

/-- role table of the hand-overs out of vault custody: liquidationsV2 `LiquidateIndividualVault`, x/esm
`SetUpCollateralRedemptionForVault` / `…ForStableVault` (exact match on the ABSTRACT texts) -/
def custodyRoles : Roles Role DRole where
  abstract := true
  acct := fun t =>
    if t == "\"vaultV1\"" then some .vm
    else if t == "\"auctionsV2\"" then some .am
    else if t == "\"esmV1\"" then some .em
    else none
  denom := fun t =>
    if t == "asset.GetAsset(asset.GetPair(…).AssetIn).Denom" then some .coll
    else none

/-- the vault is under-collateralised (liquidate.go:123: `CalculateCollateralizationRatio(…).LT(liquidation ratio)`) -/
def isLiquidatable (t : String) : Bool := t.startsWith "vault.CalculateCollateralizationRatio("

/-- condition table of the three hand-overs: the seizure happens when the ratio test holds; the esm steps run once per vault of
the app (`….AppId == appID`, inside `range vault.GetVaults()`), in either branch of "first redemption of this app?" -/
def custodyVal (first : Bool) : Val := fun t =>
  if isLiquidatable t then some true
  else if t == "range vault.GetVaults()" || t == "range vault.GetStableMintVaults()" then some true
  else if t == "each(vault.GetVaults()).AppId == appID" || t == "each(vault.GetStableMintVaults()).AppId == appID" then some true
  else if t == "!esm.GetDataAfterCoolOff(appID)#2" then some first
  else none

def goCustody (first : Bool) : Prop :=
  goSkel custodyRoles (custodyVal first) h_liquidationsV2_LiquidateIndividualVault = some [mk .send sVm (some .am) .coll true] ∧
  goSkel custodyRoles (custodyVal first) h_esm_SetUpCollateralRedemptionForVault = some [mk .send sVm (some .em) .coll false] ∧
  goSkel custodyRoles (custodyVal first) h_esm_SetUpCollateralRedemptionForStableVault = some [mk .send sVm (some .em) .coll false]

instance (b : Bool) : Decidable (goCustody b) := by unfold goCustody; exact inferInstance

theorem custody_go_all : goCustody true ∧ goCustody false := by decide +kernel

theorem custody_go (b : Bool) : goCustody b := by cases b; exact custody_go_all.2; exact custody_go_all.1

/-- liquidationsV2 hand-over: one transfer vault → auction custody of the collateral, only if positive = `seizeOps` -/
theorem seize_effects (p : Product) (from_ : Nat) (v : VaultRec) (first : Bool) (h : Wf p from_) :
    goSkel custodyRoles (custodyVal first) h_liquidationsV2_LiquidateIndividualVault = modelSkel p from_ (seizeOps p v) := by
  rw [(custody_go first).1]; simp [modelSkel, opSkel, role_vm, role_am, drole_in, mk, sVm]

/-- emergency redemption of a vault / a stable-mint vault: one transfer vault → esm account per vault of the app, in both
branches; the code sends UNGUARDED where the model has `.sendPos` (x/bank drops zero coins): `relaxAt [0]` -/
theorem esm_effects (p : Product) (from_ : Nat) (v : VaultRec) (amountIn : Int) (first : Bool) (h : Wf p from_) :
    goSkel custodyRoles (custodyVal first) h_esm_SetUpCollateralRedemptionForVault
      = (modelSkel p from_ (esmVaultOps p v)).map (relaxAt [0]) ∧
    goSkel custodyRoles (custodyVal first) h_esm_SetUpCollateralRedemptionForStableVault
      = (modelSkel p from_ (esmStableOps p amountIn)).map (relaxAt [0]) := by
  rw [(custody_go first).2.1, (custody_go first).2.2]
  constructor <;> simp [modelSkel, opSkel, role_vm, role_em, drole_in, mk, sVm, relaxAt]

/-- **The liquidation sweeps run every single liquidation inside `ApplyFuncIfNoError`** (liquidate.go:59, 251): everything
`LiquidateIndividualVault` / `LiquidateIndividualBorrow` do (the items written in other functions than the sweep itself) sits in
the cache-context closure, so a failure after the collateral has been moved leaves no half-applied step; only the sweep's own
offset record is written outside.  Seed s61 replaced the wrapper by a plain call + `continue`. -/
theorem sweep_cached :
    (∀ h ∈ [h_liquidationsV2_LiquidateVaults, h_liquidationsV2_LiquidateBorrows],
      (∀ it ∈ h.items, it.fn != h.name → it.cache = true ∧ it.inLoop = true) ∧
      (h.items.filter fun it => it.fn == h.name).map (fun it => (it.kind, it.op, it.cache))
        = [("write", "liquidationsV2.SetLiquidationOffsetHolder", false)]) ∧
    ((bankItems h_liquidationsV2_LiquidateVaults).map fun it => (it.op, it.srcA, it.dstA, it.cache))
      = [("SendCoinsFromModuleToModule", "\"vaultV1\"", "\"auctionsV2\"", true)] ∧
    (bankItems h_liquidationsV2_LiquidateBorrows).length = 6 := by
  decide +kernel

/-- golden skeleton (weaker tie) of the two emergency-redemption steps the model has as direct ledger edits (`esmBurn`,
`esmCollector`): `MsgCollateralRedemption` takes the holder's debt coins into the esm account, burns them there, and pays
collateral out of the esm account per registered collateral asset; the collector's net fees are burnt on the collector account -/
theorem esm_pins :
    apins h_esm_CalculateCollateral =
      [⟨"SendCoinsFromAccountToModule", "addr(from)", "\"esmV1\"", "amount.Denom", false, [], false, false⟩,
       ⟨"BurnCoins", "\"esmV1\"", "", "amount.Denom", false, [], false, false⟩,
       ⟨"SendCoinsFromModuleToAccount", "\"esmV1\"", "addr(from)", "asset.GetAsset(each(…).AssetID).Denom", false,
         [(true, 2380642168), (true, 1977368398)], true, false⟩] ∧
    apins h_esm_SetUpDebtRedemptionForCollector =
      [⟨"BurnCoins", "\"collectorV1\"", "", "asset.GetAsset(esm.GetAssetToAmount(…).AssetID).Denom", false,
         [(true, 3589708173), (true, 3850705579), (true, 1304039001)], true, false⟩] := by
  decide +kernel

/-! ## the model's handlers run exactly their lists (semantic anchor of the `…Ops` names) -/

theorem close_runs_ops (s s' : State) (p : Product) (e : Env) (from_ app prod vaultId : Nat)
    (h : close s p e from_ app prod vaultId = some s') :
    ∃ v s1, ownedVault s p e from_ app prod vaultId = some v ∧ runBank s (closeOps p from_ v) = some s1 ∧
      s'.bal = s1.bal ∧ s'.supply = s1.supply := by
  unfold close at h
  split at h; · cases h
  split at h; · cases h
  next v hv =>
  simp only [Option.map_eq_some_iff] at h
  obtain ⟨s1, hb, rfl⟩ := h
  exact ⟨v, s1, hv, hb, rfl, rfl⟩

theorem repay_runs_ops (s s' : State) (p : Product) (e : Env) (from_ app prod vaultId : Nat) (amt : Int)
    (h : repay s p e from_ app prod vaultId amt = some s') :
    ∃ v s1, ownedVault s p e from_ app prod vaultId = some v ∧ runBank s (repayOps p from_ v amt) = some s1 ∧
      s'.bal = s1.bal ∧ s'.supply = s1.supply := by
  unfold repay at h
  split at h; · cases h
  split at h; · cases h
  next v hv =>
  split at h; · cases h
  split at h
  next c =>
    simp only [Option.map_eq_some_iff] at h
    obtain ⟨s1, hb, rfl⟩ := h
    exact ⟨v, s1, hv, by simpa [repayOps, c] using hb, rfl, rfl⟩
  next c =>
    split at h; · cases h
    simp only [Option.map_eq_some_iff] at h
    obtain ⟨s1, hb, rfl⟩ := h
    exact ⟨v, s1, hv, by simpa [repayOps, c] using hb, rfl, rfl⟩

theorem create_runs_ops (s s' : State) (p : Product) (e : Env) (from_ app prod : Nat) (amtIn amtOut : Int)
    (h : create s p e from_ app prod amtIn amtOut = some s') :
    ∃ s1, runBank s (createOps p from_ amtIn amtOut) = some s1 ∧ s'.bal = s1.bal ∧ s'.supply = s1.supply := by
  unfold create at h
  repeat (split at h; · cases h)
  simp only [Option.map_eq_some_iff] at h
  obtain ⟨s1, hb, rfl⟩ := h
  exact ⟨s1, hb, rfl, rfl⟩

theorem deposit_runs_ops (s s' : State) (p : Product) (e : Env) (from_ app prod vaultId : Nat) (amt : Int)
    (h : deposit s p e from_ app prod vaultId amt = some s') :
    ∃ s1, runBank s (depositOps p from_ amt) = some s1 ∧ s'.bal = s1.bal ∧ s'.supply = s1.supply := by
  unfold deposit at h
  split at h; · cases h
  split at h; · cases h
  split at h; · cases h
  simp only [Option.map_eq_some_iff] at h
  obtain ⟨s1, hb, rfl⟩ := h
  exact ⟨s1, hb, rfl, rfl⟩

theorem withdraw_runs_ops (s s' : State) (p : Product) (e : Env) (from_ app prod vaultId : Nat) (amt : Int)
    (h : withdraw s p e from_ app prod vaultId amt = some s') :
    ∃ s1, runBank s (withdrawOps p from_ amt) = some s1 ∧ s'.bal = s1.bal ∧ s'.supply = s1.supply := by
  unfold withdraw at h
  split at h; · cases h
  split at h; · cases h
  split at h; · cases h
  split at h; · cases h
  simp only [Option.map_eq_some_iff] at h
  obtain ⟨s1, hb, rfl⟩ := h
  exact ⟨s1, hb, rfl, rfl⟩

theorem draw_runs_ops (s s' : State) (p : Product) (e : Env) (from_ app prod vaultId : Nat) (amt : Int)
    (h : draw s p e from_ app prod vaultId amt = some s') :
    ∃ s1, runBank s (drawOps p from_ amt) = some s1 ∧ s'.bal = s1.bal ∧ s'.supply = s1.supply := by
  unfold draw at h
  split at h; · cases h
  split at h; · cases h
  split at h; · cases h
  split at h; · cases h
  simp only [Option.map_eq_some_iff] at h
  obtain ⟨s1, hb, rfl⟩ := h
  exact ⟨s1, hb, rfl, rfl⟩

/-! ## table-wide obligations -/

def ownWritesExpected : List (String × List String) :=
    [("MsgCreate", ["vault.SetVault", "vault.SetIDForVault", "vault.SetLengthOfVault",
        "vault.UpdateAppExtendedPairVaultMappingDataOnMsgCreate", "vault.SetUserAppExtendedPairMappingData"]),
     ("MsgDeposit", ["vault.SetVault", "vault.UpdateCollateralLockedAmountLockerMapping"]),
     ("MsgWithdraw", ["vault.SetVault", "vault.UpdateCollateralLockedAmountLockerMapping"]),
     ("MsgDraw", ["vault.SetVault", "vault.UpdateTokenMintedAmountLockerMapping"]),
     ("MsgRepay", ["vault.SetVault", "vault.SetVault", "vault.UpdateTokenMintedAmountLockerMapping"]),
     ("MsgClose", ["vault.UpdateCollateralLockedAmountLockerMapping", "vault.UpdateTokenMintedAmountLockerMapping",
        "vault.DeleteAddressFromAppExtendedPairVaultMapping", "vault.DeleteUserVaultExtendedPairMapping",
        "vault.DeleteVault", "vault.SetLengthOfVault"]),
     ("MsgDepositAndDraw", []),
     ("MsgCreateStableMint", ["vault.SetStableMintVault", "vault.SetIDForStableVault",
        "vault.UpdateAppExtendedPairVaultMappingDataOnMsgCreateStableMintVault", "vault.SetStableMintVaultRewards"]),
     ("MsgDepositStableMint", ["vault.SetStableMintVault", "vault.UpdateCollateralLockedAmountLockerMapping",
        "vault.UpdateTokenMintedAmountLockerMapping", "vault.SetStableMintVaultRewards"]),
     ("MsgWithdrawStableMint", ["vault.SetStableMintVault", "vault.UpdateCollateralLockedAmountLockerMapping",
        "vault.UpdateTokenMintedAmountLockerMapping", "vault.DeleteUserStableRewardEntries"]),
     ("MsgVaultInterestCalc", [])]

theorem vault_table_all :
    (∀ h ∈ handlers_vault, allBankClassified vaultRoles h = true ∧ unknownBankOps h = [] ∧ opaqueCalls h = []) ∧
    (∀ h ∈ handlers_vault, ownWritesAfterBank h = true) ∧
    handlers_vault.map (fun h => (h.name, ownWrites h)) = ownWritesExpected ∧
    handlers_vault.map (fun h => (h.name, (bankItems h).length)) =
      [("MsgCreate", 5), ("MsgDeposit", 1), ("MsgWithdraw", 1), ("MsgDraw", 4), ("MsgRepay", 5), ("MsgClose", 5),
       ("MsgDepositAndDraw", 5), ("MsgCreateStableMint", 5), ("MsgDepositStableMint", 5), ("MsgWithdrawStableMint", 6),
       ("MsgVaultInterestCalc", 0)] ∧
    (handlers_vault.filter fun h => (allWrites h).contains "collector.UpdateCollector").map (·.name) =
      ["MsgCreate", "MsgDraw", "MsgRepay", "MsgClose", "MsgDepositAndDraw", "MsgCreateStableMint", "MsgDepositStableMint",
       "MsgWithdrawStableMint"] := by decide +kernel

/-- every bank call of the eleven handlers has a known kind, parties and denomination; no opaque call anywhere -/
theorem vault_all_classified :
    ∀ h ∈ handlers_vault, allBankClassified vaultRoles h = true ∧ unknownBankOps h = [] ∧ opaqueCalls h = [] :=
  vault_table_all.1

/-- on every path the handler body writes its own records (`SetVault`, `DeleteVault`, the product totals, …) only after its last
bank call — the shape `(runBank s ops).map (record update)` of every model handler (`…_runs_ops`).  The accrual writes of
`CalculateVaultInterest` (before the bank calls, a different keeper) are the model's `ownedVault` step. -/
theorem vault_writes_after_bank : ∀ h ∈ handlers_vault, ownWritesAfterBank h = true := vault_table_all.2.1

/-- golden list (weaker tie): the own records each handler body writes, in source order -/
theorem vault_own_writes : handlers_vault.map (fun h => (h.name, ownWrites h)) = ownWritesExpected := vault_table_all.2.2.1

/-- shape of the regenerated table: eleven handlers, the number of bank calls of each, and that the collector's record is
written by the vault handlers that pay it (an extractor that returns nothing, or drops a file, fails here) -/
theorem vault_table_shape :
    handlers_vault.map (fun h => (h.name, (bankItems h).length)) =
      [("MsgCreate", 5), ("MsgDeposit", 1), ("MsgWithdraw", 1), ("MsgDraw", 4), ("MsgRepay", 5), ("MsgClose", 5),
       ("MsgDepositAndDraw", 5), ("MsgCreateStableMint", 5), ("MsgDepositStableMint", 5), ("MsgWithdrawStableMint", 6),
       ("MsgVaultInterestCalc", 0)] ∧
    (handlers_vault.filter fun h => (allWrites h).contains "collector.UpdateCollector").map (·.name) =
      ["MsgCreate", "MsgDraw", "MsgRepay", "MsgClose", "MsgDepositAndDraw", "MsgCreateStableMint", "MsgDepositStableMint",
       "MsgWithdrawStableMint"] := vault_table_all.2.2.2

/-! ## non-vacuity -/

def pEx : Product :=
  { id := 1, app := 1, denomIn := 101, denomOut := 102, decIn := 1000000, decOut := 1000000, minCr := Dec.ofInt 2,
    debtFloor := 10, debtCeiling := 1000000, drawDownFee := Dec.P / 100, closingFee := 0, isStable := false, active := true,
    outOracle := false, outPrice := 1000000 }
def vEx : VaultRec := { id := 1, owner := 10, product := 1, amountIn := 500, amountOut := 100, interest := 7, closingFee := 3 }

example : Wf pEx 10 := ⟨by decide, by decide, by decide, by decide, by decide⟩
example : modelSkel pEx 10 (closeOps pEx 10 vEx) = goSkel vaultRoles (valOf []) h_vault_MsgClose :=
  (close_effects pEx 10 vEx ⟨by decide, by decide, by decide, by decide, by decide⟩).symm
example : (modelSkel pEx 10 (closeOps pEx 10 vEx)).map (·.length) = some 5 := by decide +kernel
example : modelSkel pEx 10 (repayOps pEx 10 vEx 5) ≠ modelSkel pEx 10 (repayOps pEx 10 vEx 50) := by decide +kernel
example : modelSkel pEx 10 (createOps pEx 10 500 100) = some (mk .send sSig sVm .coll true :: skMintFee) := by decide +kernel
example : modelSkel { pEx with drawDownFee := 0 } 10 (drawOps { pEx with drawDownFee := 0 } 10 100) = some skMintFree := by
  decide +kernel
example : modelSkel pEx 10 (stableWithdrawOps pEx 10 100) ≠
    (modelSkel pEx 10 (stableWithdrawOps pEx 10 100)).map (relaxAt [3]) := by decide +kernel
/-- a skeleton in which the closing-fee transfer sits under the INTEREST guard (seed s71) is not the model's: the projection of
such a table has no value under the empty valuation -/
example : onPath (valOf []) ⟨"bank", "SendCoinsFromModuleToModule", "\"vaultV1\"", "\"collectorV1\"", tOut, "x", "", "", "", [],
    [⟨"if", true, "vault.GetVault(msg.UserVaultId).InterestAccumulated.GT(0)", 0⟩], false, false, "MsgClose", 0⟩ = none := by
  decide +kernel
example (s : State) : close s pEx {} 10 1 1 1 = none ∨ ∃ s', close s pEx {} 10 1 1 1 = some s' := by
  cases h : close s pEx {} 10 1 1 1 <;> simp

end Comdex.C01
