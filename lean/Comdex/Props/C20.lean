import Comdex.Lemmas.Genesis
import Comdex.Model.GenesisTable
/-!
# C20 — Genesis export and re-import preserves every live position and counter

Property clause → theorem
* "every open position, custody record, parameter, price and id counter … answers the same queries as before"
    → `C20.roundtrip_id` (for every store all of whose prefixes are carried / rebuilt and whose recomputed counters satisfy
      the recomputation rule, `init (export s)` answers every look-up like `s`), instantiated for the regenerated table of
      every DeFi module by `C20.tables_wf` / `C20.roundtrip_modules`;
    → which stores and counters ARE carried is a fact about the Go source, regenerated on every run into
      `Comdex.Gen.Genesis` and discharged over the whole table by `decide`:
      `C20.store_coverage_full`   every prefix some keeper function writes is read by ExportGenesis or rebuilt by InitGenesis
      `C20.import_faithful_full`  every prefix ExportGenesis reads is decoded and written back from the same genesis field
      `C20.derived_sourced_full`  every index store InitGenesis rebuilds is rebuilt from records ExportGenesis reads
      `C20.import_total_full`     no InitGenesis loop can silently stop the import
      `C20.import_accepts_full`   no InitGenesis setter can refuse a record
      `C20.validate_keys_match_store_keys`  every duplicate check of a GenesisState.Validate keys the records exactly like the store
                                  (pinned: `validate_keys_pinned`, 6 checks, all in x/liquidity) — no exception on the current tree
      `C20.export_helpers_copy_ids_faithfully`  every id field of a record an export / import helper constructs field by field is fed
                                  from the same-named id of the same object (`PoolId` from `pool.Id`, never `.PairId` / `.AppId`);
                                  `C20.export_helpers_copy_fields_by_name` the same for every selected field; pinned by `copies_pinned`
                                  (68 copies: lend migration 26, liquidity 22, collector 17, auction 3; 19 of them id fields) — no exception on the current tree
      `C20.counters_exact_full`   every id counter / length key is restored from a stored genesis value
      `C20.fields_used_full`      every genesis field ExportGenesis fills is looked at by InitGenesis
      `C20.migrate_fresh_id`      registered store migrations (x/lend 2→3, x/rewards 2→3 decode-and-rewrite live records): a loop that
                                  decodes every record into a fresh struct and re-encodes it keeps every well-formed record;
                                  `C20.migrate_shared_counterexample` the loop AS WRITTEN in x/lend (one struct declared before the loop, the
                                  generated Unmarshal does not reset it) does not — finding M1, replayed by TestC20Migrations
                                  (`migration_keeps:*`, `migration_continuation:*`); `C20.migrate_shared_id_partial` what it does keep
      These are FALSE of the unchanged tree; each is stated at full strength over the table minus the explicit lists
      `knownGaps` (reproduced on the real code by the harness, see notes/C20.md), `suspectedGaps` (visible in the source,
      the writing transition could not be driven in the harness), `historyAllowList`; any NEW gap breaks the proof, and
      `C20.knownGaps_are_gaps` / `suspectedGaps_are_gaps` / `allowList_are_gaps` keep the lists from rotting.
* "any subsequent sequence of transactions and blocks produces the same results, balances and newly assigned ids"
    → follows for stores within the hypotheses of `roundtrip_id` because the two stores are observationally equal; outside
      them `C20.counter_counterexample` / `C20.store_counterexample` are concrete witnesses, replayed on the real code by
      `harness/c20_genesis_test.go` (monitors `counter_roundtrip:*`, `store_roundtrip:*`, `continuation_equal:*`).
-/
namespace Comdex.C20
open Comdex.Genesis
open Comdex.Gen.Genesis (Module modules Copy)

/-! ## the round-trip law -/

theorem find_counter_none (cs : List Counter) (p : String) (h : (cs.map (·.pfx)).contains p = false) :
    cs.find? (fun c => c.pfx == p) = none := by
  rw [List.find?_eq_none]
  intro c hc hb
  have hp : c.pfx = p := by simpa using hb
  have : (cs.map (·.pfx)).contains p = true := by
    rw [List.contains_iff_mem]; rw [← hp]; exact List.mem_map_of_mem hc
  rw [h] at this; exact absurd this (by simp)

theorem contains_false_ne {l : List String} {p : String} (h : l.contains p = false) : ∀ q ∈ l, q ≠ p := by
  intro q hq hqp
  have : l.contains p = true := by rw [List.contains_iff_mem]; exact hqp ▸ hq
  rw [h] at this; exact absurd this (by simp)

/-- first hit among three look-ups (the shape of a look-up in `g ++ counters ++ index`) -/
def firstSome (a b c : Option Val) : Option Val :=
  match a with
  | some v => some v
  | none => match b with
    | some v => some v
    | none => c

theorem get_init (t : Table) (idx : Store → Store) (g : Store) (p k : String) :
    get (init t idx g) p k = firstSome (get g p k) (get (counterEntries g t.counters) p k) (get (idx g) p k) := by
  unfold init firstSome
  rw [get_append, get_append]
  cases get g p k <;> cases get (counterEntries g t.counters) p k <;> rfl

/-- **Round trip.** For every table that is well formed, every rebuilding function `idx` for the index stores, and every
store `s` such that (1) every prefix occurring in `s` is carried, recomputed or rebuilt, (2) every recomputed counter
holds the value its rule yields (and a counter InitGenesis does not write is zero), (3) the index stores of `s` are what
`idx` rebuilds from the carried records: the re-imported store answers every look-up like `s`. -/
theorem roundtrip_id (t : Table) (idx : Store → Store) (s : Store)
    (hwf : t.wf = true)
    (hcov : ∀ e ∈ s, t.covered e.pfx = true)
    (hcnt : ∀ c ∈ t.counters, counterOk t s c = true)
    (hidxp : ∀ e ∈ idx («export» t s), t.derived.contains e.pfx = true)
    (hidx : ∀ p, t.derived.contains p = true → ∀ k, get s p k = get (idx («export» t s)) p k) :
    Equiv (roundTrip t idx s) s := by
  intro p k
  unfold Table.wf at hwf
  simp only [Bool.and_eq_true, List.all_eq_true, decide_eq_true_eq] at hwf
  obtain ⟨⟨hc, hd⟩, hnd⟩ := hwf
  unfold roundTrip
  rw [get_init]
  have hexp : get («export» t s) p k = if t.restored.contains p = true then get s p k else none :=
    get_filter (fun q => t.restored.contains q) s p k
  have hce := get_counterEntries («export» t s) t.counters p k hnd
  -- an index entry never has a prefix outside `derived`
  have hidx_none : t.derived.contains p = false → get (idx («export» t s)) p k = none := by
    intro hdp
    apply get_none_of_pfx
    intro e he hep
    have h1 := hidxp e he
    rw [hep, hdp] at h1; exact absurd h1 (by simp)
  by_cases hr : t.restored.contains p = true
  · -- a carried prefix
    have hcn : (t.counters.map (·.pfx)).contains p = false := by
      cases h : (t.counters.map (·.pfx)).contains p with
      | false => rfl
      | true =>
        rw [List.contains_iff_mem, List.mem_map] at h
        obtain ⟨c, hcm, hcp⟩ := h
        have := (hc c hcm); simp only [Bool.not_eq_eq_eq_not, Bool.not_true] at this
        rw [hcp] at this; rw [this.1] at hr; exact absurd hr (by simp)
    have hdn : t.derived.contains p = false := by
      cases h : t.derived.contains p with
      | false => rfl
      | true =>
        have h2 := hd p (by rw [List.contains_iff_mem] at h; exact h)
        simp only [Bool.not_eq_eq_eq_not, Bool.not_true] at h2
        rw [h2] at hr; exact absurd hr (by simp)
    rw [find_counter_none _ _ hcn] at hce
    have hce' : get (counterEntries («export» t s) t.counters) p k = none := by rw [hce]; split <;> rfl
    rw [hexp, hce', hidx_none hdn]
    simp only [hr, if_true]
    cases get s p k <;> rfl
  · have hr' : t.restored.contains p = false := by simpa using hr
    have hg : get («export» t s) p k = none := by rw [hexp, hr']; rfl
    rw [hg]
    by_cases hcp : (t.counters.map (·.pfx)).contains p = true
    · -- a recomputed counter
      have hnotd : t.derived.contains p = false := by
        rw [List.contains_iff_mem, List.mem_map] at hcp
        obtain ⟨c, hcm, hcq⟩ := hcp
        have := (hc c hcm); simp only [Bool.not_eq_eq_eq_not, Bool.not_true] at this
        rw [hcq] at this; exact this.2
      rw [hidx_none hnotd]
      cases hf : t.counters.find? (fun c => c.pfx == p) with
      | none =>
        exfalso
        rw [List.find?_eq_none] at hf
        rw [List.contains_iff_mem, List.mem_map] at hcp
        obtain ⟨c, hcm, hcq⟩ := hcp
        exact hf c hcm (by simp [hcq])
      | some c =>
        have hcm : c ∈ t.counters := List.mem_of_find?_eq_some hf
        have hcq : c.pfx = p := by have := List.find?_some hf; simpa using this
        have hok := hcnt c hcm
        unfold counterOk at hok
        simp only [Bool.and_eq_true, List.all_eq_true, Bool.or_eq_true, bne_iff_ne, ne_eq, beq_iff_eq] at hok
        obtain ⟨hkeys, hval⟩ := hok
        rw [hcq] at hval
        rw [hf] at hce
        by_cases hk : k = ""
        · subst hk
          simp only [if_true] at hce
          rw [hce, hval]
          cases ruleVal («export» t s) c.rule <;> rfl
        · simp only [hk, if_false] at hce
          rw [hce]
          cases hgs : get s p k with
          | none => rfl
          | some v =>
            exfalso
            obtain ⟨e, he, hep, hek⟩ := get_some_pfx s p k v hgs
            cases hkeys e he with
            | inl h => exact h (by rw [hep, hcq])
            | inr h => exact hk (by rw [← hek]; exact h)
    · have hcp' : (t.counters.map (·.pfx)).contains p = false := by simpa using hcp
      rw [find_counter_none _ _ hcp'] at hce
      have hce' : get (counterEntries («export» t s) t.counters) p k = none := by rw [hce]; split <;> rfl
      rw [hce']
      by_cases hdp : t.derived.contains p = true
      · -- a rebuilt index store
        rw [hidx p hdp k]; rfl
      · -- a prefix that is not carried at all: `s` has no such entry
        have hdp' : t.derived.contains p = false := by simpa using hdp
        have hs : get s p k = none := by
          apply get_none_of_pfx
          intro e he hep
          have := hcov e he
          unfold Table.covered at this
          rw [hep, hr', hdp', hcp'] at this; exact absurd this (by simp)
        rw [hs, hidx_none hdp']; rfl

/-! ## instantiation for the regenerated table -/

/-- the table extracted for every DeFi module is well formed (carried / recomputed / rebuilt prefixes are disjoint) -/
theorem tables_wf : ∀ m ∈ modules, (tableOf m).wf = true := by decide

/-- the round-trip law holds for the extracted table of every DeFi module -/
theorem roundtrip_modules (m : Module) (hm : m ∈ modules) (idx : Store → Store) (s : Store)
    (hcov : ∀ e ∈ s, (tableOf m).covered e.pfx = true)
    (hcnt : ∀ c ∈ (tableOf m).counters, counterOk (tableOf m) s c = true)
    (hidxp : ∀ e ∈ idx («export» (tableOf m) s), (tableOf m).derived.contains e.pfx = true)
    (hidx : ∀ p, (tableOf m).derived.contains p = true → ∀ k, get s p k = get (idx («export» (tableOf m) s)) p k) :
    Equiv (roundTrip (tableOf m) idx s) s :=
  roundtrip_id _ idx s (tables_wf m hm) hcov hcnt hidxp hidx

/-! ## the table is the one expected (an extractor that silently returns nothing fails here) -/

theorem table_size : modules.length = 15 ∧ (modules.map (·.name)) =
    ["vault", "locker", "lend", "collector", "liquidation", "liquidationsV2", "auction", "auctionsV2", "rewards",
     "liquidity", "market", "asset", "esm", "tokenmint", "bandoracle"] := by decide

theorem table_prefix_counts : (modules.map fun m => m.defined.length) = [8, 6, 24, 6, 6, 8, 13, 14, 18, 18, 1, 13, 8, 1, 9] := by decide

theorem table_spot_vault : ∃ m ∈ modules, m.name = "vault" ∧ m.store = "vaultV1" ∧ ("VaultKeyPrefix", [16]) ∈ m.defined ∧
    "VaultKeyPrefix" ∈ m.exported ∧ "VaultKeyPrefix" ∈ m.initWritten ∧ "VaultKeyPrefix" ∈ m.deleted ∧
    ("Vaults", ["VaultKeyPrefix"], ["VaultKeyPrefix"]) ∈ m.flows := by decide

theorem table_spot_liquidity : ∃ m ∈ modules, m.name = "liquidity" ∧ restoredOf m =
    ["LastPairIDKey", "LastPoolIDKey", "PairKeyPrefix", "PoolKeyPrefix", "DepositRequestKeyPrefix", "WithdrawRequestKeyPrefix",
     "OrderKeyPrefix", "MMOrderIndexKeyPrefix", "ActiveFarmerKeyPrefix", "QueuedFarmerKeyPrefix", "GenericParamsKey"] ∧
    derivedOf m = ["PairIndexKeyPrefix", "PairsByDenomsIndexKeyPrefix", "PoolByReserveAddressIndexKeyPrefix",
     "PoolsByPairIndexKeyPrefix", "DepositRequestIndexKeyPrefix", "WithdrawRequestIndexKeyPrefix", "OrderIndexKeyPrefix"] ∧
    computedCounters m = [] := by decide

theorem table_spot_market : ∃ m ∈ modules, m.name = "market" ∧ m.written = ["TwaKeyPrefix"] ∧ restoredOf m = ["TwaKeyPrefix"] := by decide

/-! ## gaps of the unchanged tree

`item` of a counter is `<prefix>.<restoration rule>`. `kind`: `store` = written by a keeper, neither exported nor rebuilt; `import` = exported but not decoded / not written back from
the same field; `unsourced` = written by InitGenesis from a genesis field ExportGenesis never fills; `abort` = written in or after an InitGenesis loop that silently returns on a rejected record; `reject` = imported through a
setter that can refuse a record (which is then skipped); `counter` = id
counter not restored from a stored value; `field` = genesis field filled by export, ignored by import. -/

structure Gap where
  id : String
  kind : String
  module : String
  item : String
  deriving DecidableEq, Repr

/-- Reproduced on the real code by `harness/c20_genesis_test.go` (witness and patch per finding id: notes/C20.md). -/
def knownGaps : List Gap := [
  -- (G01 net-fee export, G03 auctionsV2 counters, G07 lend-auction import: repaired in the source — 0ab45c0, 2741fd2, a0dfa35; the silent `return` of G02 and the
  -- never-stored counter of G05: notes/patches/G02.diff, G05.diff)
  -- G02 (residue after the repair of the silent `return`): the genesis setter SetCollectorLookupTable refuses a lookup record
  --     whose secondary asset is not a genesis token of the app — the run-time path accepts it — and the record is skipped
  ⟨"G02", "reject", "collector", "AddCollectorLookupKey"⟩,
  -- G04 auctionsV2 bids, limit bids, their indexes, id counter, histories and statistics are not exported
  ⟨"G04", "store", "auctionsV2", "UserBidKeyPrefix"⟩,
  ⟨"G04", "store", "auctionsV2", "UserLimitBidMappingKeyPrefix"⟩,
  ⟨"G04", "store", "auctionsV2", "UserLimitBidMappingKeyForAddressPrefix"⟩,
  ⟨"G04", "store", "auctionsV2", "LimitAuctionBidIDKey"⟩,
  ⟨"G04", "counter", "auctionsV2", "LimitAuctionBidIDKey.notRestored"⟩,
  ⟨"G04", "store", "auctionsV2", "AuctionHistoricalKeyPrefix"⟩,
  ⟨"G04", "store", "auctionsV2", "BidHistoricalKeyPrefix"⟩,
  ⟨"G04", "store", "auctionsV2", "UserBidHistoricalKeyPrefix"⟩,
  ⟨"G04", "store", "auctionsV2", "MarketBidProtocolKeyPrefix"⟩,
  ⟨"G04", "store", "auctionsV2", "ExternalAuctionLimitBidFeeKeyPrefix"⟩,
  -- G05 liquidationsV2 (residue after the repair that stores the counter): the locked-vault id counter is the maximum LIVE id;
  --     sweep offset and reserve-fund transaction records not exported
  ⟨"G05", "counter", "liquidationsV2", "LockedVaultIDKey.maxId"⟩,
  ⟨"G05", "store", "liquidationsV2", "LiquidationOffsetHolderKeyPrefix"⟩,
  ⟨"G05", "store", "liquidationsV2", "AppReserveFundsTxDataKeyPrefix"⟩,
  -- G06 id counters recomputed from the LIVE records (max / last / count): ids of closed positions are handed out again
  ⟨"G06", "counter", "vault", "VaultIDPrefix.maxId"⟩,
  ⟨"G06", "counter", "lend", "LendCounterIDPrefix.lastId"⟩,
  ⟨"G06", "counter", "lend", "BorrowCounterIDPrefix.lastId"⟩,
  ⟨"G06", "counter", "lend", "PoolIDPrefix.lastId"⟩,   -- reproduced in the depth round (a depreciated pool is deleted by the begin blocker); was S02
  ⟨"G06", "counter", "liquidation", "LockedVaultIDKey.count"⟩,
  ⟨"G06", "counter", "auction", "AuctionIDKey.lastId"⟩,
  ⟨"G06", "counter", "auction", "LendAuctionIDKey.lastId"⟩,
  -- G07 auction (first generation): bids and histories not exported (the swapped lend-auction import was repaired, a0dfa35)
  ⟨"G07", "store", "auction", "UserKeyPrefix"⟩,
  ⟨"G07", "store", "auction", "LendUserKeyPrefix"⟩,
  ⟨"G07", "store", "auction", "HistoryAuctionKeyPrefix"⟩,
  ⟨"G07", "store", "auction", "HistoryUserKeyPrefix"⟩,
  ⟨"G07", "store", "auction", "LendHistoryAuctionKeyPrefix"⟩,
  ⟨"G07", "store", "auction", "LendHistoryUserKeyPrefix"⟩,
  -- G08 stable-mint reward records
  ⟨"G08", "store", "vault", "StableVaultRewardsKeyPrefix"⟩,
  -- G09 locker id counter
  ⟨"G09", "store", "locker", "LockerIDPrefix"⟩,
  ⟨"G09", "counter", "locker", "LockerIDPrefix.notRestored"⟩,
  -- G10 lend: funded module balances per asset and pool
  ⟨"G10", "store", "lend", "AssetAndPoolWiseModBalKeyPrefix"⟩,
  -- G11 liquidation (first generation): locked-vault history and its id counter
  ⟨"G11", "store", "liquidation", "LockedVaultDataKeyHistory"⟩,
  ⟨"G11", "store", "liquidation", "LockedVaultKeyHistory"⟩,
  ⟨"G11", "counter", "liquidation", "LockedVaultKeyHistory.notRestored"⟩,
  -- G12 rewards: stable-vault external rewards, epoch records, external-reward id counters
  ⟨"G12", "store", "rewards", "ExternalRewardsStableVaultKeyPrefix"⟩,
  ⟨"G12", "store", "rewards", "EpochForLockerKeyPrefix"⟩,
  ⟨"G12", "store", "rewards", "EpochTimeIDKey"⟩,
  ⟨"G12", "counter", "rewards", "EpochTimeIDKey.notRestored"⟩,
  ⟨"G12", "store", "rewards", "ExtRewardsLockerIDKey"⟩,
  ⟨"G12", "counter", "rewards", "ExtRewardsLockerIDKey.notRestored"⟩,
  ⟨"G12", "store", "rewards", "ExtRewardsVaultIDKey"⟩,
  ⟨"G12", "counter", "rewards", "ExtRewardsVaultIDKey.notRestored"⟩,
  ⟨"G12", "store", "rewards", "ExtRewardsStableVaultIDKey"⟩,
  ⟨"G12", "counter", "rewards", "ExtRewardsStableVaultIDKey.notRestored"⟩,
  -- G13 asset: governance token of an app
  ⟨"G13", "store", "asset", "GenesisForAppPrefix"⟩,
  -- G14 esm: price snapshot and redemption amounts after an emergency shutdown
  ⟨"G14", "store", "esm", "SnapshotKeyPrefix"⟩,
  ⟨"G14", "store", "esm", "AssetToAmountKeyPrefix"⟩,
  -- G15 bandoracle: the oracle feed configuration and cycle state
  ⟨"G15", "store", "bandoracle", "MsgDataKey"⟩,
  ⟨"G15", "store", "bandoracle", "DiscardFlagKey"⟩,
  ⟨"G15", "store", "bandoracle", "LastBlockHeightKey"⟩,
  ⟨"G15", "store", "bandoracle", "LastFetchPriceIDKey"⟩,
  ⟨"G15", "store", "bandoracle", "FetchPriceResultStoreKeyPrefix"⟩,
  ⟨"G15", "store", "bandoracle", "OracleValidationResultKey"⟩,
  ⟨"G15", "store", "bandoracle", "TempFetchPriceIDKey"⟩]

/-- Visible in the source, NOT reproduced: the transition that writes the store (or makes the counter run ahead of the live
records, or makes the setter fail) could not be driven in the harness. Kept apart from `knownGaps` on purpose. -/
def suspectedGaps : List Gap := [
  -- one-off main-net refund (hard-coded `comdex1…` recipients, not decodable under the test bech32 prefix)
  ⟨"S01", "store", "collector", "RefundCounterStatusPrefix"⟩,
  ⟨"S01", "counter", "collector", "RefundCounterStatusPrefix.notRestored"⟩,
  -- recomputed from live records whose deletion (end of a reward period / gauge) was not driven
  ⟨"S02", "counter", "rewards", "ExtRewardsLendIDKey.maxId"⟩,
  ⟨"S02", "counter", "rewards", "GaugeIDKey.maxId"⟩,
  -- setters that can refuse a record, where no refusable record could be produced (a negative fee is never stored, the denoms
  -- mapping is written again by its own loop, a kill switch only exists for an existing app)
  ⟨"S03", "reject", "collector", "NetFeeCollectedDataPrefix"⟩,
  ⟨"S03", "reject", "collector", "CollectorForDenomKeyPrefix"⟩,
  ⟨"S03", "reject", "esm", "KillSwitchDataKey"⟩]

/-- Stores no query and no reachable transition reads.
* liquidation/LiquidationOffsetHolderKeyPrefix — cursor of the first-generation sweeps `LiquidateVaults` / `LiquidateBorrows`,
  its only reader (`readers_offset_holder`); those sweeps are no longer called: `x/liquidation/module.go` BeginBlock is empty
  and no message handler or query calls them. -/
def historyAllowList : List (String × String) := [("liquidation", "LiquidationOffsetHolderKeyPrefix")]

theorem readers_offset_holder : ∃ m ∈ modules, m.name = "liquidation" ∧
    ("LiquidationOffsetHolderKeyPrefix", ["GetLiquidationOffsetHolder"]) ∈ m.readers := by decide

def listed (kind : String) (g : String × String) : Bool :=
  (knownGaps ++ suspectedGaps).any fun k => k.kind == kind && k.module == g.1 && k.item == g.2

/-- a recomputed counter is exact as long as the records it is recomputed from are never deleted (ids are handed out by
incrementing the counter and keys are big-endian ids): maximum / last id over a prefix no keeper function deletes from -/
def benignCounter (m : Module) (c : Counter) : Bool :=
  match c.rule with
  | .maxId p | .lastId p => !m.deleted.contains p
  | _ => false

def lossyCounters (ms : List Module) : List (String × String) :=
  ms.flatMap fun m => ((computedCounters m).filter fun c => !benignCounter m c).map fun c => (m.name, counterTag m c.pfx)

/-- ∀ m, written m ⊆ exported m ∪ derived m ∪ historyAllowList — over the table minus the named gaps -/
theorem store_coverage_full : ∀ g ∈ storeGaps modules, listed "store" g = true ∨ g ∈ historyAllowList := by decide

theorem import_faithful_full : ∀ g ∈ importGaps modules, listed "import" g = true := by decide

/-- every index store InitGenesis rebuilds is rebuilt from records that ExportGenesis really reads -/
theorem derived_sourced_full : ∀ g ∈ unsourcedGaps modules, listed "unsourced" g = true := by decide

theorem import_total_full : ∀ g ∈ fragileGaps modules, listed "abort" g = true := by decide

/-- no InitGenesis setter can refuse a record that the run-time paths accept — minus named gaps -/
theorem import_accepts_full : ∀ g ∈ rejectGaps modules, listed "reject" g = true := by decide

/-- every duplicate check of a `GenesisState.Validate` uses exactly the components of the key under which InitGenesis stores the
record: no reachable state (records unique under their store keys) can be refused as a duplicate by the module that exported it -/
theorem validate_keys_match_store_keys : validateKeyGaps modules = [] := by decide

/-- the duplicate checks found (all in x/liquidity/types/genesis.go; the other modules' Validate functions check no uniqueness) -/
theorem validate_keys_pinned : (modules.map fun m => m.validateKeys.length) = [0, 0, 0, 0, 0, 0, 0, 0, 0, 6, 0, 0, 0, 0, 0] ∧
    (∃ m ∈ modules, m.name = "liquidity" ∧
      ("ActiveFarmers", ["AppId"], ["Farmer", "AppId", "PoolId"], ["AppId", "PoolId", "Farmer"]) ∈ m.validateKeys ∧
      ("DepositRequests", ["AppId"], ["PoolId", "Id"], ["AppId", "PoolId", "Id"]) ∈ m.validateKeys ∧
      ("Orders", ["AppId"], ["PairId", "Id"], ["AppId", "PairId", "Id"]) ∈ m.validateKeys) := by decide

/-- **Export / import helpers copy ids faithfully.** Every id field of a record that a function on the ExportGenesis or InitGenesis
path (or in the file of a registered store migrator) constructs field by field (keyed composite literal or `rec.F = …` of a module record type) is fed from the same-named id, or
from the `Id` of the object the field names (`PoolId` from `pool.Id`, never from `pool.PairId` / `pool.AppId`); an id taken from a
call is taken from a getter of that very id (`LastPairId` from `GetLastPairID`). No exception on the current tree. -/
theorem export_helpers_copy_ids_faithfully : idCopyGaps modules = [] := by decide

/-- … and, for fields of ANY kind: a field selected from another record is selected from the field of the same name (or is the
`Id` of the named object) — a record rebuilt on the way through genesis is rebuilt field for field. No exception on the current tree. -/
theorem export_helpers_copy_fields_by_name : nameCopyGaps modules = [] := by decide

/-- the field copies found (liquidity: the per-app genesis state and the farmer records rebuilt by
`GetActiveAndQueuedFarmersForGenesis`; collector and auction: the records the genesis setters rebuild; lend: the records the 2→3
migration rebuilds) -/
theorem copies_pinned : (modules.map fun m => m.copies.length) = [0, 0, 26, 17, 0, 0, 3, 0, 0, 22, 0, 0, 0, 0, 0] ∧
    (modules.map fun m => (m.copies.filter copyIdLike).length) = [0, 0, 4, 6, 0, 0, 2, 0, 0, 7, 0, 0, 0, 0, 0] ∧
    (∃ m ∈ modules, m.name = "liquidity" ∧
      (⟨"export", "GetActiveAndQueuedFarmersForGenesis", "QueuedFarmer", "PoolId", ["pool", "id"], "sel", ["pool"], ["pool"], ["id"], "pool.Id"⟩ : Copy) ∈ m.copies ∧
      (⟨"export", "GetActiveAndQueuedFarmersForGenesis", "ActiveFarmer", "PoolId", ["pool", "id"], "sel", ["pool"], ["pool"], ["id"], "pool.Id"⟩ : Copy) ∈ m.copies ∧
      (⟨"export", "ExportGenesis", "AppGenesisState", "LastPairId", ["last", "pair", "id"], "call", [], [], ["get", "last", "pair", "id"], "k.GetLastPairID(…)"⟩ : Copy) ∈ m.copies) := by decide

/-- the obligation is not vacuous: the seeded change s90 (`PoolId: pool.PairId` in the queued-farmer record) is a gap, the
unchanged line is not, and neither is an id taken from a same-named field, a same-named local or its getter -/
example : copyIdOk ⟨"export", "GetActiveAndQueuedFarmersForGenesis", "QueuedFarmer", "PoolId", ["pool", "id"], "sel", ["pool"], ["pool"], ["pair", "id"], "pool.PairId"⟩ = false ∧
    copyIdOk ⟨"export", "GetActiveAndQueuedFarmersForGenesis", "QueuedFarmer", "PoolId", ["pool", "id"], "sel", ["pool"], ["pool"], ["app", "id"], "pool.AppId"⟩ = false ∧
    copyIdOk ⟨"export", "GetActiveAndQueuedFarmersForGenesis", "QueuedFarmer", "PoolId", ["pool", "id"], "sel", ["pair"], ["pair"], ["id"], "pair.Id"⟩ = false ∧
    copyIdOk ⟨"export", "GetActiveAndQueuedFarmersForGenesis", "QueuedFarmer", "PoolId", ["pool", "id"], "sel", ["pool"], ["pool"], ["id"], "pool.Id"⟩ = true ∧
    copyIdOk ⟨"export", "f", "R", "AppId", ["app", "id"], "ident", [], [], ["app", "id"], "appID"⟩ = true ∧
    copyIdOk ⟨"export", "f", "R", "AppId", ["app", "id"], "ident", [], [], ["pool", "id"], "poolID"⟩ = false ∧
    copyIdOk ⟨"export", "f", "R", "LastPairId", ["last", "pair", "id"], "call", [], [], ["get", "last", "pool", "id"], "k.GetLastPoolID(…)"⟩ = false ∧
    (∃ m ∈ modules, (m.copies.filter copyIdLike).length > 0) := by decide

/-- ∀ counter c, restoreRule c = exact — over the table minus the named gaps -/
theorem counters_exact_full : ∀ g ∈ lossyCounters modules, listed "counter" g = true := by decide

theorem fields_used_full : ∀ g ∈ fieldGaps modules, listed "field" g = true := by decide

def isGap (g : Gap) : Bool :=
  let x := (g.module, g.item)
  if g.kind == "store" then (storeGaps modules).contains x
  else if g.kind == "import" then (importGaps modules).contains x
  else if g.kind == "abort" then (fragileGaps modules).contains x
  else if g.kind == "reject" then (rejectGaps modules).contains x
  else if g.kind == "unsourced" then (unsourcedGaps modules).contains x
  else if g.kind == "counter" then (lossyCounters modules).contains x
  else if g.kind == "field" then (fieldGaps modules).contains x
  else false

/-- every listed finding really is a gap of the regenerated table (a repaired finding must be removed from the list) -/
theorem knownGaps_are_gaps : ∀ g ∈ knownGaps, isGap g = true := by decide

theorem suspectedGaps_are_gaps : ∀ g ∈ suspectedGaps, isGap g = true := by decide

theorem allowList_are_gaps : ∀ g ∈ historyAllowList, g ∈ storeGaps modules := by decide

/-- counters accepted as exact although recomputed, with the fact that justifies it -/
theorem benign_counters : (modules.flatMap fun m => ((computedCounters m).filter (benignCounter m)).map fun c => (m.name, counterTag m c.pfx)) =
    [("vault", "StableVaultIDPrefix.maxId"), ("lend", "LendPairIDKey.lastId"), ("asset", "AppIDKey.maxId"), ("asset", "AssetIDKey.maxId"),
     ("asset", "PairIDKey.maxId"), ("asset", "PairsVaultIDKey.maxId")] := by decide

/-! ## witnesses -/

def vaultTable : Table := { restored := ["VaultKeyPrefix"], counters := [⟨"VaultIDPrefix", .maxId "VaultKeyPrefix"⟩], derived := [] }

/-- vaults 1–3 are live, vault 4 was created and closed: the counter says 4 -/
def vaultStore : Store :=
  [⟨"VaultKeyPrefix", "01", 1, .raw "a"⟩, ⟨"VaultKeyPrefix", "02", 2, .raw "b"⟩, ⟨"VaultKeyPrefix", "03", 3, .raw "c"⟩,
   ⟨"VaultIDPrefix", "", 0, .num 4⟩]

/-- the full statement without hypothesis (2) is false: the re-imported counter is 3, the next vault gets the id of the
closed vault 4 (replayed on the real code: `counter_roundtrip:vault.VaultIDPrefix`, `continuation_equal:new_vault_id`) -/
theorem counter_counterexample :
    get (roundTrip vaultTable (fun _ => []) vaultStore) "VaultIDPrefix" "" = some (.num 3) ∧
    get vaultStore "VaultIDPrefix" "" = some (.num 4) ∧
    (∀ e ∈ vaultStore, vaultTable.covered e.pfx = true) ∧
    counterOk vaultTable vaultStore ⟨"VaultIDPrefix", .maxId "VaultKeyPrefix"⟩ = false := by decide

/-- … and without hypothesis (1): an entry of a prefix that is not carried is gone (`store_roundtrip:*`) -/
theorem store_counterexample :
    get (roundTrip vaultTable (fun _ => []) (⟨"StableVaultRewardsKeyPrefix", "00", 0, .raw "r"⟩ :: vaultStore)) "StableVaultRewardsKeyPrefix" "00" = none ∧
    vaultTable.covered "StableVaultRewardsKeyPrefix" = false := by decide

/-- the hypotheses of `roundtrip_id` are satisfiable on a non-trivial store (counter = maximum live id) -/
example : Equiv (roundTrip vaultTable (fun _ => [])
    [⟨"VaultKeyPrefix", "01", 1, .raw "a"⟩, ⟨"VaultKeyPrefix", "03", 3, .raw "c"⟩, ⟨"VaultIDPrefix", "", 0, .num 3⟩])
    [⟨"VaultKeyPrefix", "01", 1, .raw "a"⟩, ⟨"VaultKeyPrefix", "03", 3, .raw "c"⟩, ⟨"VaultIDPrefix", "", 0, .num 3⟩] :=
  roundtrip_id _ _ _ (by decide) (by decide) (by decide) (by intro e he; simp at he) (by intro p hp; simp [vaultTable] at hp)

/-! ## registered store migrations (x/lend 2→3, x/rewards 2→3) -/

/-- **A migration loop with a destination variable per record keeps every record.** For every list of well-formed wire records
(`n` fields, a present field never carries the default value): decoding each into a fresh struct and re-encoding it is the
identity — a store in the current format is a fixed point. -/
theorem migrate_fresh_id (n : Nat) (ws : List Wire) (h : ∀ w ∈ ws, Wire.canonical n w) : migrateFresh n ws = ws := by
  unfold migrateFresh
  induction ws with
  | nil => rfl
  | cons w ws ih =>
    have hw := h w List.mem_cons_self
    rw [List.map_cons, encode_decodeInto_fresh w n hw.1 hw.2, ih (fun v hv => h v (List.mem_cons_of_mem _ hv))]

example : migrateFresh 3 [[some 15, some 1, none], [some 16, none, some 3]] = [[some 15, some 1, none], [some 16, none, some 3]] :=
  migrate_fresh_id 3 _ (by
    intro w hw
    simp only [List.mem_cons, List.mem_nil_iff, or_false] at hw
    rcases hw with rfl | rfl <;> exact ⟨rfl, by decide⟩)

/-- The loop as written (`x/lend/keeper/migrate.go:160,205`: ONE variable declared before the loop, `Unmarshal` does not reset it)
is NOT the identity: a field omitted on the wire (default value) inherits the value of the previous record. Witness = lend pairs
(id, inter-pool flag): pair 14 is an inter-pool pair, pair 15 is not — after the migration pair 15 is. Replayed on the real code:
`migration_keeps:lend.LendPairKeyPrefix`, `migration_keeps:lend.AssetRatesParamsKeyPrefix` (first case of TestC20Migrations). -/
theorem migrate_shared_counterexample :
    migrateShared [0, 0] [[some 14, some 1], [some 15, none]] = [[some 14, some 1], [some 15, some 1]] ∧
    migrateFresh 2 [[some 14, some 1], [some 15, none]] = [[some 14, some 1], [some 15, none]] ∧
    Wire.canonical 2 [some 14, some 1] ∧ Wire.canonical 2 [some 15, none] := by
  refine ⟨rfl, rfl, ⟨rfl, by decide⟩, ⟨rfl, by decide⟩⟩

/-- … the strongest true statement about the loop as written: it keeps the records as long as every field of every record is
present on the wire (no field has its default value) -/
theorem migrate_shared_id_partial (n : Nat) (ws : List Wire) (acc : List Nat) (hacc : acc.length = n)
    (h : ∀ w ∈ ws, Wire.canonical n w ∧ ∀ x ∈ w, x ≠ none) : migrateShared acc ws = ws := by
  induction ws generalizing acc with
  | nil => rfl
  | cons w ws ih =>
    obtain ⟨⟨hlen, hcan⟩, hfull⟩ := h w List.mem_cons_self
    have hd : decodeInto acc w = decodeInto (List.replicate n 0) w := by
      rw [decodeInto_full w acc (by rw [hacc, hlen]) hfull, decodeInto_full w _ (by simp [hlen]) hfull]
    have hlen' : (decodeInto acc w).length = n := by
      rw [decodeInto_full w acc (by rw [hacc, hlen]) hfull]; simp [hlen]
    unfold migrateShared
    rw [ih (decodeInto acc w) hlen' (fun v hv => h v (List.mem_cons_of_mem _ hv)), hd, encode_decodeInto_fresh w n hlen hcan]

example : migrateShared [0, 0] [[some 14, some 1], [some 15, some 2]] = [[some 14, some 1], [some 15, some 2]] :=
  migrate_shared_id_partial 2 _ _ rfl (by
    intro w hw
    simp only [List.mem_cons, List.mem_nil_iff, or_false] at hw
    rcases hw with rfl | rfl <;> exact ⟨⟨rfl, by decide⟩, by decide⟩)

end Comdex.C20
