import Comdex.Gen.Pure
import Comdex.Lemmas.PurePool
/-!
# C06 — the pool share arithmetic of the model IS the arithmetic of the current Go source

`Comdex/Gen/Pure.lean` is regenerated on every run from `/repo` by `extract/pure` (a Go → Lean translator, see
notes/PURE.md): `Gen.Pure.ammWithdraw`, `Gen.Pure.ammDeposit`, `Gen.Pure.ammInitialPoolCoinSupply` are the translations
of `amm.Withdraw`, `amm.Deposit`, `amm.InitialPoolCoinSupply` (x/liquidity/amm/pool.go) into the `GoSem.M` monad
(`Base/GoSem.lean`: one definition per Go / cosmossdk.io/math primitive).  The theorems below state, for ALL
arguments, that the regenerated definitions compute exactly what the hand-written model `Model/Pool.lean` computes —
the model every C06 fairness theorem is about.  A change of the Go arithmetic changes the regenerated definition and
these proofs stop compiling (`./check C06` then reports a failing obligation and searches for an input).

Go function → theorem
* `amm.Withdraw`               → `pure_ammWithdraw_eq_model`  (`ofOption`: `none` of the model = the call panics)
* `amm.Deposit`                → `pure_ammDeposit_eq_model`
* `amm.InitialPoolCoinSupply`  → `pure_ammInitialPoolCoinSupply_eq_model` (the model's value under the library's
     256-bit check `NewIntFromBigInt`; hypothesis: the two decimal strings are shorter than 2^62 characters, so that
     the Go `int` length arithmetic cannot wrap — true of every string a Go process can hold)

Trusted: the translator's reading of Go and `Base/GoSem.lean`; kernel-checked: the equality with the model.
-/
set_option exponentiation.threshold 512
namespace Comdex.C06
open Comdex Comdex.GoSem Comdex.PurePool

/-- `amm.Withdraw` as translated from the current source = `Pool.withdraw`, for all arguments
(including the last-share shortcut, the `SafeMath` overflow arm and the re-thrown division-by-zero panic). -/
theorem pure_ammWithdraw_eq_model (rx ry ps pc : Int) (fee : Dec) :
    Gen.Pure.ammWithdraw rx ry ps pc fee = ofOption (Pool.withdraw rx ry ps pc fee) := by
  rw [withdraw_eq_handle]
  unfold Gen.Pure.ammWithdraw
  by_cases h : pc = ps
  · simp [h]; rfl
  · simp only [h, if_false, ofOption_handle, Pool.withdrawCore, lift_bind, lift_pure, lift_quoTruncate, lift_sub,
      lift_mulTruncate, lift_truncateInt, Prod.eta, bind_pure]
    rfl

example : Gen.Pure.ammWithdraw 1000 2000 10 5 3000000000000000 = .ok (498, 997) := by rfl
example : Pool.withdraw 1000 2000 10 5 3000000000000000 = some (498, 997) := by rfl
-- zero supply: `QuoTruncate` by zero is not an overflow, `SafeMath` re-throws it
example : Gen.Pure.ammWithdraw 1000 2000 0 5 0 = .error .panic := by rfl

/-- `amm.Deposit` as translated from the current source = `Pool.deposit`, for all arguments. -/
theorem pure_ammDeposit_eq_model (rx ry ps x y : Int) :
    Gen.Pure.ammDeposit rx ry ps x y = ofOption (Pool.deposit rx ry ps x y) := by
  rw [deposit_eq_handle]
  unfold Gen.Pure.ammDeposit
  simp only [ofOption_handle, Pool.depositCore, Pool.depositRatio, lift_bind, lift_pure, lift_ite, lift_quoTruncate,
      lift_mulTruncate, lift_mul, lift_quo, lift_truncateInt, Prod.eta, bind_pure]
  have e : ∀ i, Pool.toDec i = intToDec i := fun _ => rfl
  simp only [e]
  by_cases h1 : intToDec rx = 0
  · simp only [h1, if_true]; rfl
  · by_cases h2 : intToDec ry = 0
    · simp only [h1, h2, if_true, if_false]; rfl
    · simp only [h1, h2, if_false, bind_assoc, pure_bind]; rfl

example : Gen.Pure.ammDeposit 1000 2000 30 100 100 = .ok (34, 67, 1) := by rfl
-- the overflow arm inside the module bounds (Props/C06 `deposit_overflow_reachable_within_bounds`)
example : Gen.Pure.ammDeposit 1 1 (10 ^ 40) (10 ^ 40) (10 ^ 40) = .ok (0, 0, 0) := by rfl

/-- `amm.InitialPoolCoinSupply` as translated = the model's `10^c` under the 256-bit check of `NewIntFromBigInt`
(which the model of `CreateRangedPool` applies: `Pool.createRangedPool`). -/
theorem pure_ammInitialPoolCoinSupply_eq_model (x y : Int)
    (h : intTextLen x + intTextLen y < 4611686018427387904) :
    Gen.Pure.ammInitialPoolCoinSupply x y = chkInt (Pool.initialPoolCoinSupply x y) := by
  unfold Gen.Pure.ammInitialPoolCoinSupply Pool.initialPoolCoinSupply Pool.digits
  unfold intTextLen at *
  generalize (toString x.natAbs).length + (if x < 0 then 1 else 0) = lx at *
  generalize (toString y.natAbs).length + (if y < 0 then 1 else 0) = ly at *
  have e1 : i64Sub (lx : Int) 1 = lx - 1 := i64Sub_of_fits (by omega) (by omega)
  have e2 : i64Sub (ly : Int) 1 = ly - 1 := i64Sub_of_fits (by omega) (by omega)
  have e3 : i64Add ((lx : Int) - 1) 1 = lx := by rw [i64Add_of_fits (by omega) (by omega)]; omega
  have e4 : i64Add ((ly : Int) - 1) 1 = ly := by rw [i64Add_of_fits (by omega) (by omega)]; omega
  have e5 : i64Add (lx : Int) ly = lx + ly := i64Add_of_fits (by omega) (by omega)
  have e6 : i64Add ((lx : Int) + ly) 1 = lx + ly + 1 := i64Add_of_fits (by omega) (by omega)
  have e7 : i64Div ((lx : Int) + ly + 1) 2 = .ok (((lx + ly + 1) / 2 : Nat) : Int) := by
    unfold i64Div
    rw [if_neg (by decide), Int.tdiv_eq_ediv_of_nonneg (by omega), wrapI64_of_fits (by omega) (by omega)]
    rfl
  simp only [e1, e2, e3, e4, e5, e6, e7, bigNew, bigExp, intNewFromBigInt]
  generalize (lx + ly + 1) / 2 = c
  have e8 : (if (c : Int) ≤ 0 then (1 : Int) else 10 ^ (c : Int).toNat) = 10 ^ c := by
    split
    · have : c = 0 := by omega
      subst this; rfl
    · rw [Int.toNat_natCast]
  change chkInt (if (c : Int) ≤ 0 then (1 : Int) else 10 ^ (c : Int).toNat) = _
  rw [e8]

example : intTextLen 1000 + intTextLen 50 < 4611686018427387904 := by decide
example : Gen.Pure.ammInitialPoolCoinSupply 1000 50 = .ok 1000 := by rfl
-- both amounts ≥ 10^77 (78 digits each): `10^78` does not fit 256 bits, the real function panics ("… out of bound",
-- reproduced on the real code, notes/PURE.md)
example : chkInt ((10 : Int) ^ 78) = .error .overflow := by rfl

end Comdex.C06
