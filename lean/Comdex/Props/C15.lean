import Comdex.Model.Hooks
import Comdex.Gen.Hooks
/-!
# C15 — Block hooks never halt the chain and never leave half-applied steps

Property clause → theorem
* "if it panics or reports failure at any point, none of its writes or coin movements are visible afterwards"
    → `wrapped_unit_atomic` (+ `wrapped_unit_commits`), for the wrapper *as written in the source*:
      `source_wrapper_is_good` (regenerated shape facts) + `good_shape_is_applyIfNoError`;
      what each shape fact buys: `write_on_error_leaks_counterexample`, `no_recover_escapes_counterexample`,
      `live_ctx_leaks_counterexample`
* "… and the remaining units are still processed"
    → `remaining_units_run`, `failing_unit_skipped`, `fault_point_irrelevant`
* "begin-block and end-block processing … completes without panicking"
    → `blocker_total`, `blocker_all_started` for a blocker whose unwrapped parts are total
      (`plain_panic_halts_counterexample`: an unwrapped part that panics takes the blocker down), and over the
      regenerated table `unwrapped_calls_reviewed`: every call / panicking operator reached from a real
      Begin/EndBlocker OUTSIDE every ApplyFuncIfNoError closure is on the reviewed list below — `pureHelpers`,
      `storeAccess`, `expanded`, `opsTotal` (each with its justification; where the justification is a theorem it
      is stated: `slice_in_bounds`, `sweep_bounds_in_range`, `borrow_sweep_total`), `reviewedUnproved`
      (the IBC oracle request: read and exercised, not proved — one reason why the level is *partial*) or on one of the three
      defect lists:
  - **D-C15-1** (OPEN) `kickoffDC151`: the surplus / debt kick-off of `liquidationsV2.BeginBlocker` is unwrapped; it cannot
    panic but it moves the lot out of the collector BEFORE it knows an English auction can start and returns at the first
    failing entry: `kickoff_leaks_counterexample`, `kickoff_repeats` (n blocks ⇒ n lots), against
    `kickoff_complete_if_english_on`; the repair is `kickoff_wrapped_is_atomic`. Witness first in the harness run (`kick.*`).
  - **D3** `conditionalD3`: `totalVaults[start:end]` in both vault sweeps is total only if the stored vault counter
    does not exceed the capacity of the stored vault list — `sweep_total_if_counter_le_cap`; the counter is NOT
    kept equal to the list on chain (double increment, `x/auction/keeper/dutch.go:554-559` +
    `x/vault/keeper/vault.go:605-606`): `d3_counterexample`, `d3_panics_when_counter_exceeds_cap`,
    `d3_underflow_counterexample`; witness replayed first in the harness run (scenario `corpus.d3`).
  - **D6** (repaired in the repository by `c15713f` while this check was built; reproduced on the tree before it):
    the second-generation borrow sweep called `LiquidateIndividualBorrow` on the live context. What that does is
    `unwrapped_loop_leaks_counterexample` (model of the old `x/liquidationsV2/keeper/liquidate.go:248-254`), against
    `unwrapped_loop_ok_if_no_failure`. The table obligations now demand the wrapper: taking it away again fails
    `unwrapped_calls_reviewed`, `units_of_work_wrapped` and `table_pins`, and the harness reports the leak (`uloop` lines).
* every unit of work the property names sits in its own wrapper → `units_of_work_wrapped` (table): for every per-item
  unit the wrapper call is INSIDE the item loop (`loopOver` = the innermost loop statement enclosing the call,
  `innerLoops` = the loops written inside the closure) — `wrapper_sites_and_their_loops` pins all 17 sites with their loops.
  What that buys, for ALL patterns of failing items: `per_item_loop_processes_ok_items` (exactly the items that do not fail
  are processed), `blocker_splits_per_item` (the blocker over all items = the one-item blockers in sequence — the relation
  the harness uses to find out, from the real code alone, which items are visible after a fault); what is lost when the
  wrapper and the loop swap places (seed s99, `x/liquidity/abci.go:18-19`): `one_wrapper_all_or_nothing`,
  `one_wrapper_for_all_counterexample`.
* "… or reports failure at any point": the wrapper only sees what the closure returns → `wrapped_units_propagate_errors`
  (every error produced inside a closure is returned, up to the reviewed list `swallowReviewed`),
  `units_use_their_cache_context`, `per_item_units_can_report_failure` (table).
* "vault count vs stored vault list … used to slice the list in both sweeps": the slice theorems hold for a counter and a
  list read at the same moment → `sweep_bounds_read_with_list` (table `sliceFacts`).
* the table is not empty / not stale → `table_pins`.

Level: proof of the wrapper logic and of the table obligations; what a Go panic and a real store write do is
exhibited by the fault-injection correspondence (`harness/c15_*_test.go`, `Drv/Hooks.lean`) — partial.
-/
namespace Comdex.C15
open Comdex.Hooks

/-! ## 1. The wrapper -/

/-- **Atomic**: a unit that fails — returned error or panic, at whatever point — leaves the state unchanged. -/
theorem wrapped_unit_atomic {σ : Type} (f : σ → Except Fail σ) (s : σ) (e : Fail) (h : f s = .error e) :
    applyIfNoError f s = (s, false) := by
  simp [applyIfNoError, h]

theorem wrapped_unit_commits {σ : Type} (f : σ → Except Fail σ) (s s' : σ) (h : f s = .ok s') :
    applyIfNoError f s = (s', true) := by
  simp [applyIfNoError, h]

/-- The wrapper of shape `goodShape`, run on code that may stop half-way with its writes made, is exactly
`applyIfNoError`, and no panic escapes it. -/
theorem good_shape_is_applyIfNoError {σ : Type} (f : Raw σ) (s : σ) :
    applyShaped goodShape f s = ((applyIfNoError f.toExcept s).1, (applyIfNoError f.toExcept s).2, false) := by
  unfold applyShaped applyIfNoError Raw.toExcept goodShape
  rcases h : f s with ⟨s', r⟩
  cases r with
  | none => simp
  | some e => cases e <;> simp

/-- The shape the extractor read off `types/utils.go` on this run is the good one. -/
theorem source_wrapper_is_good : Comdex.Gen.Hooks.wrapper = goodShape := by decide

/-- Hence for the wrapper in the source: partial writes of a failing step are never visible. -/
theorem source_wrapper_atomic {σ : Type} (f : Raw σ) (s s' : σ) (e : Fail) (h : f s = (s', some e)) :
    applyShaped Comdex.Gen.Hooks.wrapper f s = (s, false, false) := by
  rw [source_wrapper_is_good, good_shape_is_applyIfNoError]
  simp [applyIfNoError, Raw.toExcept, h]

example : applyShaped Comdex.Gen.Hooks.wrapper (fun (n : Nat) => (n + 7, some Fail.panic)) 1 = (1, false, false) :=
  source_wrapper_atomic _ 1 8 .panic rfl

/-- each shape fact is needed: a wrapper that also writes when `err != nil` leaks the partial writes … -/
theorem write_on_error_leaks_counterexample :
    (applyShaped { goodShape with writeElsewhere := true } (fun (n : Nat) => (n + 7, some Fail.err)) 1).1 = 8 := by decide

/-- … one without the deferred recover lets the panic out … -/
theorem no_recover_escapes_counterexample :
    (applyShaped { goodShape with deferRecover := false } (fun (n : Nat) => (n + 7, some Fail.panic)) 1).2.2 = true := by decide

/-- … one that runs `f` on the live context leaks whatever was written before the failure. -/
theorem live_ctx_leaks_counterexample :
    (applyShaped { goodShape with runsOnCache := false } (fun (n : Nat) => (n + 7, some Fail.panic)) 1).1 = 8 := by decide

/-! ## 2. Blockers -/

/-- **The fold continues**: every unit of a wrapped loop is processed, whatever the others do. -/
theorem remaining_units_run {σ : Type} (us : List (σ → Except Fail σ)) (s : σ) :
    (runUnits us s).2.length = us.length := by
  induction us generalizing s with
  | nil => rfl
  | cons f fs ih => simp [runUnits, ih]

theorem runUnits_append {σ : Type} (pre post : List (σ → Except Fail σ)) (s : σ) :
    runUnits (pre ++ post) s =
      ((runUnits post (runUnits pre s).1).1, (runUnits pre s).2 ++ (runUnits post (runUnits pre s).1).2) := by
  induction pre generalizing s with
  | nil => simp [runUnits]
  | cons f fs ih => simp [runUnits, ih]

/-- A unit that fails in the state it is reached in behaves exactly as if it had been skipped: same final
state, its flag is `false`, every other unit ran on the same states. -/
theorem failing_unit_skipped {σ : Type} (pre post : List (σ → Except Fail σ)) (f : σ → Except Fail σ) (s : σ) (e : Fail)
    (h : f (runUnits pre s).1 = .error e) :
    (runUnits (pre ++ f :: post) s).1 = (runUnits (pre ++ post) s).1 ∧
    (runUnits (pre ++ f :: post) s).2 = (runUnits pre s).2 ++ false :: (runUnits post (runUnits pre s).1).2 := by
  rw [runUnits_append, runUnits_append]
  simp [runUnits, applyIfNoError, h]

/-- **Crash-point independence** (what the fault-injection run compares): two ways of failing — the fault at
access `k` and the fault at access 0 — give the same run. -/
theorem fault_point_irrelevant {σ : Type} (pre post : List (σ → Except Fail σ)) (f g : σ → Except Fail σ) (s : σ)
    (e₁ e₂ : Fail) (hf : f (runUnits pre s).1 = .error e₁) (hg : g (runUnits pre s).1 = .error e₂) :
    runUnits (pre ++ f :: post) s = runUnits (pre ++ g :: post) s := by
  rw [runUnits_append, runUnits_append]
  simp [runUnits, applyIfNoError, hf, hg]

example : runUnits [fun n => .ok (n + 1), fun _ => .error Fail.panic, fun n => .ok (n * 10)] (1 : Nat) = (20, [true, false, true]) := rfl

/-- **No halt**: a blocker all of whose unwrapped parts are total returns normally, whatever the units do. -/
theorem blocker_total {σ : Type} (ps : List (Part σ))
    (h : ∀ p ∈ ps, ∀ g, p = Part.plain g → ∀ s, (g s).isSome = true) (s : σ) :
    (runBlocker ps s).isSome = true := by
  induction ps generalizing s with
  | nil => rfl
  | cons p ps ih =>
    have ih' := ih (fun q hq => h q (List.mem_cons_of_mem _ hq))
    cases p with
    | wrapped f => simpa [runBlocker] using ih' _
    | plain g =>
      have hg := h (Part.plain g) (by simp) g rfl s
      cases hgs : g s with
      | none => simp [hgs] at hg
      | some s' => simpa [runBlocker, hgs] using ih' s'

/-- … and every part of it is started. -/
theorem blocker_all_started {σ : Type} (ps : List (Part σ))
    (h : ∀ p ∈ ps, ∀ g, p = Part.plain g → ∀ s, (g s).isSome = true) (s : σ) :
    startedParts ps s = ps.length := by
  induction ps generalizing s with
  | nil => rfl
  | cons p ps ih =>
    have ih' := ih (fun q hq => h q (List.mem_cons_of_mem _ hq))
    cases p with
    | wrapped f => simp [startedParts, ih']; omega
    | plain g =>
      have hg := h (Part.plain g) (by simp) g rfl s
      cases hgs : g s with
      | none => simp [hgs] at hg
      | some s' => simp [startedParts, hgs, ih']; omega

example : runBlocker [Part.plain (fun n => some (n + 1)), Part.wrapped (fun _ => .error Fail.panic), Part.wrapped (fun n => .ok (n * 3))] (1 : Nat) = some 6 := rfl

/-- the hypothesis is needed: an unwrapped part that panics halts the blocker; the unit behind it never starts -/
theorem plain_panic_halts_counterexample :
    runBlocker [Part.wrapped (fun n => .ok (n + 1)), Part.plain (fun _ => none), Part.wrapped (fun n => .ok (n * 3))] (1 : Nat) = none ∧
    startedParts [Part.wrapped (fun n => .ok (n + 1)), Part.plain (fun _ => none), Part.wrapped (fun n => .ok (n * 3))] (1 : Nat) = 2 := by
  constructor <;> rfl

/-- **D6 (model)**: the same items run as an *unwrapped* loop: the failing item's partial writes stay, the loop stops,
the items behind it are not started. -/
theorem unwrapped_loop_leaks_counterexample :
    let items : List (Raw Nat) := [fun n => (n + 1, none), fun n => (n + 100, some Fail.err), fun n => (n * 3, none)]
    runUnwrappedLoop items 1 = (102, some Fail.err, 2) ∧
    (runUnits (items.map Raw.toExcept) 1) = (6, [true, false, true]) := by
  constructor <;> rfl

theorem unwrapped_loop_ok_if_no_failure {σ : Type} (items : List (Raw σ)) (h : ∀ f ∈ items, ∀ s, (f s).2 = none) (s : σ) :
    (runUnwrappedLoop items s).2.1 = none ∧ (runUnwrappedLoop items s).2.2 = items.length := by
  induction items generalizing s with
  | nil => exact ⟨rfl, rfl⟩
  | cons f fs ih =>
    have hf := h f (by simp) s
    have ih' := ih (fun g hg => h g (List.mem_cons_of_mem _ hg))
    rcases hfs : f s with ⟨s', r⟩
    rw [hfs] at hf
    simp only at hf
    subst hf
    simp [runUnwrappedLoop, hfs, ih' s']

/-! ## 2b. Per-item granularity: the wrapper INSIDE the item loop -/

/-- **Every item under its own wrapper**: whatever the pattern of failing items (`oks`), exactly the items that do not
fail are processed, in order — a fault in item k leaves every item ≠ k processed. -/
theorem per_item_loop_processes_ok_items (oks : List Bool) (i : Nat) (s : List Nat) :
    (runUnits (itemUnits oks i) s).1 = s ++ okItems oks i := by
  induction oks generalizing i s with
  | nil => simp [itemUnits, runUnits, okItems]
  | cons ok rest ih =>
    cases ok
    · simp [itemUnits, runUnits, applyIfNoError, itemUnit, okItems, ih]
    · simp [itemUnits, runUnits, applyIfNoError, itemUnit, okItems, ih]

example : (runUnits (itemUnits [true, false, true] 1) []).1 = [1, 3] := by
  simpa [okItems] using per_item_loop_processes_ok_items [true, false, true] 1 []

/-- … and every item's flag says whether it was processed -/
theorem per_item_loop_flags (oks : List Bool) (i : Nat) (s : List Nat) :
    (runUnits (itemUnits oks i) s).2 = oks := by
  induction oks generalizing i s with
  | nil => simp [itemUnits, runUnits]
  | cons ok rest ih =>
    cases ok
    · simp [itemUnits, runUnits, applyIfNoError, itemUnit, ih]
    · simp [itemUnits, runUnits, applyIfNoError, itemUnit, ih]

/-- **The blocker over all items is the one-item blockers in sequence** — for arbitrary units. This is the relation by
which the harness computes, from the REAL blocker run on one-app lists, what the state must be after a fault in app k. -/
theorem blocker_splits_per_item {σ : Type} (us : List (σ → Except Fail σ)) (s : σ) :
    (runUnits us s).1 = us.foldl (fun t f => (runUnits [f] t).1) s := by
  induction us generalizing s with
  | nil => rfl
  | cons f fs ih => simp [runUnits, ih]

example : (runUnits [fun n => .ok (n + 1), fun _ => .error Fail.panic, fun n => .ok (n * 10)] (1 : Nat)).1 =
    [fun n => .ok (n + 1), fun _ => .error Fail.panic, fun n => .ok (n * 10)].foldl (fun t f => (runUnits [f] t).1) 1 :=
  blocker_splits_per_item _ 1

theorem seqAll_items (oks : List Bool) (i : Nat) (s : List Nat) :
    seqAll (itemUnits oks i) s = if oks.all id = true then .ok (s ++ okItems oks i) else .error .err := by
  induction oks generalizing i s with
  | nil => simp [itemUnits, seqAll, okItems]
  | cons ok rest ih =>
    cases ok
    · simp [itemUnits, seqAll, itemUnit]
    · simp only [itemUnits, seqAll, itemUnit, if_true, ih, okItems, List.all_cons, id, Bool.true_and]
      split <;> simp

/-- **One wrapper around the whole loop is all-or-nothing for the LIST**: if any item fails, no item is processed — the
items before the failing one are rolled back, the items after it are not started. -/
theorem one_wrapper_all_or_nothing (oks : List Bool) (i : Nat) (s : List Nat) :
    runAsOne (itemUnits oks i) s = if oks.all id = true then (s ++ okItems oks i, true) else (s, false) := by
  unfold runAsOne applyIfNoError
  rw [seqAll_items]
  by_cases h : oks.all id = true <;> simp [h]

example : runAsOne (itemUnits [true, true] 5) [4] = ([4, 5, 6], true) := by
  simpa [okItems] using one_wrapper_all_or_nothing [true, true] 5 [4]
example : (runUnits (itemUnits [false, true] 1) []).2 = [false, true] := per_item_loop_flags _ 1 []

/-- seed s99 in the model: three apps, the second one poisoned. Per-app wrappers: apps 1 and 3 processed. One wrapper for
all: nothing processed. -/
theorem one_wrapper_for_all_counterexample :
    runUnits (itemUnits [true, false, true] 1) [] = ([1, 3], [true, false, true]) ∧
    runAsOne (itemUnits [true, false, true] 1) [] = ([], false) := by
  constructor <;> rfl

/-! ## 2c. The surplus kick-off of the second generation (unwrapped; finding D-C15-1) -/

/-- if English auctions are activated the kick-off does all of its four effects -/
theorem kickoff_complete_if_english_on (lot : Int) (s : Kick) :
    surplusKickRaw lot true s =
      ({ collector := s.collector - lot, parked := s.parked + lot, netFees := s.netFees - lot,
         lockedVaults := s.lockedVaults + 1, auctions := s.auctions + 1, active := true }, none) := rfl

/-- **D-C15-1 — the kick-off is not all-or-nothing and stops the loop** (two due entries, the first app without English
auctions): the first entry's lot has left the collector and the record, no locked vault, no auction, the entry is not
marked; the step reports failure; the second entry is never started (`2` would be the count had both been started). -/
theorem kickoff_leaks_counterexample :
    runUnwrappedLoop [surplusKickRaw 200000 false, surplusKickRaw 200000 true]
        { collector := 11000000, parked := 0, netFees := 11000000, lockedVaults := 0, auctions := 0, active := false } =
      ({ collector := 10800000, parked := 200000, netFees := 10800000, lockedVaults := 0, auctions := 0, active := false },
       some Fail.err, 1) := rfl

/-- … and because nothing marks the entry, **every block takes another lot** until the record falls below threshold + lot:
for every number of blocks `n` during which the entry stays due the collector is `n` lots short, with no auction. -/
theorem kickoff_repeats (threshold lot : Int) (n : Nat) (s : Kick) (hact : s.active = false)
    (hdue : s.netFees - (n : Int) * lot ≥ threshold) (hlot : 0 ≤ lot) :
    kickBlocks threshold lot n s =
      { s with collector := s.collector - n * lot, parked := s.parked + n * lot, netFees := s.netFees - n * lot } := by
  induction n generalizing s with
  | zero => simp [kickBlocks]
  | succ n ih =>
    have hd : kickDue s threshold lot = true := by
      simp only [kickDue, hact, Bool.not_false, Bool.true_and, decide_eq_true_eq]
      have : ((n + 1 : Nat) : Int) * lot = n * lot + lot := by rw [Int.natCast_succ, Int.add_mul, Int.one_mul]
      have h2 : 0 ≤ (n : Int) * lot := Int.mul_nonneg (Int.natCast_nonneg n) hlot
      omega
    simp only [kickBlocks, hd, if_true]
    have hs1 : (surplusKickRaw lot false s).1 =
        { s with collector := s.collector - lot, parked := s.parked + lot, netFees := s.netFees - lot } := rfl
    rw [hs1, ih]
    · have : ((n + 1 : Nat) : Int) * lot = n * lot + lot := by rw [Int.natCast_succ, Int.add_mul, Int.one_mul]
      simp only [this]
      congr 1 <;> omega
    · exact hact
    · have : ((n + 1 : Nat) : Int) * lot = n * lot + lot := by rw [Int.natCast_succ, Int.add_mul, Int.one_mul]
      simp only
      omega

example : kickBlocks 10200000 200000 3 { collector := 11000000, parked := 0, netFees := 11000000, lockedVaults := 0, auctions := 0, active := false } =
    { collector := 10400000, parked := 600000, netFees := 10400000, lockedVaults := 0, auctions := 0, active := false } := by
  decide

/-- the repair: the same step under the wrapper of `types/utils.go` leaves nothing behind, and (as a `runUnits` loop) the
entry behind it is processed -/
theorem kickoff_wrapped_is_atomic (lot : Int) (s : Kick) :
    applyShaped Comdex.Gen.Hooks.wrapper (surplusKickRaw lot false) s = (s, false, false) :=
  source_wrapper_atomic _ s _ .err rfl

example :
    (runUnits [(surplusKickRaw 200000 false).toExcept, (surplusKickRaw 200000 true).toExcept]
        { collector := 11000000, parked := 0, netFees := 11000000, lockedVaults := 0, auctions := 0, active := false }) =
      ({ collector := 10800000, parked := 200000, netFees := 10800000, lockedVaults := 1, auctions := 1, active := true }, [false, true]) := rfl

/-! ## 3. The sweep prelude (`GetSliceStartEndForLiquidations`, `list[start:end]`) -/

/-- **slice_in_bounds**: for a non-negative slice length the helper returns `0 ≤ start ≤ end ≤ sliceLen`, for every
offset and batch size (negative ones included: they arise from `int(uint64)`). -/
theorem wrap64_id (x : Int) (h0 : -(2 ^ 63) ≤ x) (h1 : x < 2 ^ 63) : wrap64 x = x := by
  unfold wrap64
  have : (x + 2 ^ 63) % 2 ^ 64 = x + 2 ^ 63 := Int.emod_eq_of_lt (by omega) (by omega)
  omega

/-- the sum `offset + batch` is a Go `int` addition: the bounds hold when it does not wrap (`off + b < 2⁶³`; a batch size at
least `2⁶³ − offset`, which the parameter validation accepts, wraps — `slice_wrap_counterexample`, finding D41) -/
theorem slice_in_bounds (n off b : Int) (hn : 0 ≤ n) (hw : off + b < 2 ^ 63) :
    0 ≤ (sliceStartEnd n off b).1 ∧ (sliceStartEnd n off b).1 ≤ (sliceStartEnd n off b).2 ∧ (sliceStartEnd n off b).2 ≤ n := by
  unfold sliceStartEnd
  by_cases h1 : (off ≥ n || off < 0 || b < 0) = true
  · simp only [h1, if_true]; omega
  · simp only [h1]
    simp only [Bool.or_eq_true, decide_eq_true_eq, not_or, Int.not_le, Int.not_lt] at h1
    have hwid : wrap64 (off + b) = off + b := wrap64_id _ (by omega) hw
    rw [hwid]
    by_cases h2 : off + b ≥ n
    · simp only [h2, if_true]; simp; omega
    · simp only [h2, if_false]; simp; omega

theorem sweep_bounds_in_range (n off b : Int) (hn : 0 ≤ n) (hb : b < 2 ^ 63) (hw : off + b < 2 ^ 63) :
    0 ≤ (sweepBounds n off b).1 ∧ (sweepBounds n off b).1 ≤ (sweepBounds n off b).2 ∧ (sweepBounds n off b).2 ≤ n := by
  unfold sweepBounds
  simp only
  split
  · exact slice_in_bounds n 0 b hn (by omega)
  · exact slice_in_bounds n off b hn hw

theorem intOfU64_small (x : Nat) (h : x < 2 ^ 63) : intOfU64 x = (x : Int) := by
  simp [intOfU64, h]

/-- **Vault sweeps are total if the counter does not exceed the capacity of the stored list** (the C01 invariant
"counter = number of stored vaults" implies it, since `len ≤ cap`). -/
theorem intOfU64_lt (x : Nat) (hx : x < 2 ^ 64) : intOfU64 x < 2 ^ 63 := by
  unfold intOfU64; split <;> omega

theorem sweep_total_if_counter_le_cap (cap counter offset batch : Nat) (h1 : counter ≤ cap) (h2 : counter < 2 ^ 63)
    (hb : batch < 2 ^ 64) (hw : intOfU64 offset + intOfU64 batch < 2 ^ 63) :
    sweepSliceOk cap counter offset batch = true := by
  unfold sweepSliceOk goSliceOk
  rw [intOfU64_small counter h2]
  have h := sweep_bounds_in_range (counter : Int) (intOfU64 offset) (intOfU64 batch) (by omega) (intOfU64_lt batch hb) hw
  simp only [Bool.and_eq_true, decide_eq_true_eq]
  refine ⟨⟨h.1, h.2.1⟩, ?_⟩
  have : ((counter : Nat) : Int) ≤ (cap : Int) := by omega
  omega

/-- **Borrow sweeps** slice `borrowIDs` by `len(borrowIDs)` itself: always total. -/
theorem borrow_sweep_total (len cap offset batch : Nat) (h1 : len ≤ cap) (h2 : len < 2 ^ 63)
    (hb : batch < 2 ^ 64) (hw : intOfU64 offset + intOfU64 batch < 2 ^ 63) :
    sweepSliceOk cap len offset batch = true :=
  sweep_total_if_counter_le_cap cap len offset batch h1 h2 hb hw

/-- **D41 witness**: five stored vaults, counter 5, offset 1 and a batch size of `2⁶³ − 1` (accepted by the parameter
validation, which only demands `> 0`): `offset + batch` wraps to `−2⁶³`, the helper returns `(1, −2⁶³)` and
`totalVaults[1:−2⁶³]` panics in the unwrapped prelude of the sweep. -/
theorem slice_wrap_counterexample : sliceStartEnd 5 1 (2 ^ 63 - 1) = (1, -(2 ^ 63)) ∧ sweepSliceOk 5 5 1 (2 ^ 63 - 1) = false := by
  decide

example : sweepSliceOk 4 3 0 200 = true := by decide

/-- **D3 witness**: one stored vault (capacity 1), counter 2, offset 0, default batch 200 ⇒ `totalVaults[0:2]` panics. -/
theorem d3_counterexample : sweepSliceOk 1 2 0 200 = false := by decide

theorem sliceStartEnd_full (n b : Int) (hn : 0 < n) (hb : n ≤ b) (hb2 : b < 2 ^ 63) : sliceStartEnd n 0 b = (0, n) := by
  unfold sliceStartEnd
  rw [wrap64_id (0 + b) (by omega) (by omega)]
  have h1 : ¬ ((0 : Int) ≥ n) := by omega
  have h3 : ¬ (b < 0) := by omega
  simp [h1, h3]
  intro h
  omega

/-- in general: a counter above the capacity panics in the block in which the sweep reaches the end of the list
(with the default batch size 200 and fewer than 200 vaults: in every block) -/
theorem d3_panics_when_counter_exceeds_cap (cap counter batch : Nat) (h1 : cap < counter) (h2 : counter < 2 ^ 63)
    (h3 : counter ≤ batch) (h4 : batch < 2 ^ 63) : sweepSliceOk cap counter 0 batch = false := by
  unfold sweepSliceOk sweepBounds
  rw [intOfU64_small counter h2, intOfU64_small batch h4]
  have h0 : intOfU64 0 = 0 := by decide
  rw [h0, sliceStartEnd_full (counter : Int) (batch : Int) (by omega) (by omega) (by omega)]
  have hne : ¬ ((0 : Int) = (counter : Int)) := by omega
  simp only [hne, if_false]
  unfold goSliceOk
  have : ¬ ((counter : Int) ≤ (cap : Int)) := by omega
  simp [this]

/-- a counter that was decremented below zero (`uint64` wrap ⇒ `int(...) = -1`) panics for every list -/
theorem d3_underflow_counterexample (cap offset batch : Nat) : sweepSliceOk cap (2 ^ 64 - 1) offset batch = false := by
  unfold sweepSliceOk goSliceOk sweepBounds sliceStartEnd
  have h : intOfU64 (2 ^ 64 - 1) = -1 := by decide
  rw [h]
  by_cases h1 : (intOfU64 offset ≥ -1 || intOfU64 offset < 0 || intOfU64 batch < 0) = true
  · simp [h1]
  · simp only [Bool.or_eq_true, decide_eq_true_eq, not_or, Int.not_le, Int.not_lt] at h1
    omega

/-! ## 4. Table obligations over the regenerated `Gen/Hooks.lean`

The lists are the *review*: one line of justification per entry (or per group where the justification is the
same). `unwrapped_calls_reviewed` is the obligation; a source edit that moves a call out of a wrapper, adds an
unwrapped call, or drops a wrapper changes the table and the theorem stops compiling. -/

open Comdex.Gen.Hooks

/-- allowed anywhere: no store access, no arithmetic that can panic -/
def pureHelpers : List String := [
  "telemetry.ModuleMeasureSince",            -- metrics side channel, deferred, no state
  "ctx.BlockTime", "ctx.BlockHeight",        -- header fields
  "ctx.Logger", "ctx.Logger().Error",        -- logging
  "ctx.EventManager", "ctx.EventManager().EmitEvent", "ctx.EventManager().EmitEvents",  -- events are not state
  "sdk.NewEvent", "sdk.NewAttribute", "fmt.Sprintf", "fmt.Errorf", "strconv.FormatUint",  -- pure constructors
  "len", "int", "uint64", "int64", "append", -- builtins; Go integer conversions wrap, they do not panic (`intOfU64`)
  "sdk.ZeroDec", "sdk.ZeroInt",              -- constants
  "types.NewLiquidationOffsetHolder",        -- struct literal
  "types.GetSliceStartEndForLiquidations",   -- comparisons and one addition of ints: total; result bounds: `slice_in_bounds`
  "bandoraclemoduletypes.OracleRequestID",   -- type conversion
  "bits.Add64",                              -- total
  "host.ChannelCapabilityPath", "clienttypes.NewHeight", "packet.NewOracleRequestPacketData", "packetData.GetBytes",
  "ctx.BlockTime().UnixNano"                 -- ibc packet construction: pure
]

/-- store getters / setters of keepers `(blocker, enclosing function, callee)`: a KV read or write followed by
`MustUnmarshal`/`MustMarshal` of the type the same keeper stored, or a prefix iteration of such records; the
`(value, found)` / `error` result is handled by the caller. Total given the store holds what the setters wrote. -/
def storeAccess : List (String × String × String) := [
  ("liquidity.BeginBlocker", "BeginBlocker", "assetKeeper.GetApps"),
  ("liquidity.EndBlocker", "EndBlocker", "assetKeeper.GetApps"),
  ("auction.BeginBlocker", "BeginBlocker", "assetKeeper.GetApps"),
  ("auction.BeginBlocker", "BeginBlocker", "collectorKeeper.GetAllAuctionMappingForApp"),
  ("auction.BeginBlocker", "BeginBlocker", "esmKeeper.GetESMStatus"),
  ("auction.BeginBlocker", "BeginBlocker", "esmKeeper.GetKillSwitchData"),
  ("auction.BeginBlocker", "RestartDutchAuctions", "k.GetAuctionParams"),
  ("auction.BeginBlocker", "RestartDutchAuctions", "k.GetDutchAuctions"),
  ("auction.BeginBlocker", "RestartDutchLendAuctions", "k.GetDutchLendAuctions"),
  ("auction.BeginBlocker", "RestartDutchLendAuctions", "k.lend.GetAddAuctionParamsData"),
  ("liquidation.BeginBlocker", "LiquidateVaults", "k.GetAppIdsForLiquidation"),
  ("liquidation.BeginBlocker", "LiquidateVaults", "k.GetParams"),               -- params subspace, set at genesis
  ("liquidation.BeginBlocker", "LiquidateVaults", "k.esm.GetESMStatus"),
  ("liquidation.BeginBlocker", "LiquidateVaults", "k.esm.GetKillSwitchData"),
  ("liquidation.BeginBlocker", "LiquidateVaults", "k.GetLiquidationOffsetHolder"),
  ("liquidation.BeginBlocker", "LiquidateVaults", "k.vault.GetVaults"),
  ("liquidation.BeginBlocker", "LiquidateVaults", "k.vault.GetLengthOfVault"),
  ("liquidation.BeginBlocker", "LiquidateVaults", "k.SetLiquidationOffsetHolder"), -- the sweep's own cursor: written once per app after the units
  ("liquidation.BeginBlocker", "LiquidateBorrows", "k.lend.GetBorrows"),
  ("liquidation.BeginBlocker", "LiquidateBorrows", "k.GetParams"),
  ("liquidation.BeginBlocker", "LiquidateBorrows", "k.GetLiquidationOffsetHolder"),
  ("liquidation.BeginBlocker", "LiquidateBorrows", "k.SetLiquidationOffsetHolder"),
  ("liquidationsV2.BeginBlocker", "LiquidateVaults", "k.GetParams"),
  ("liquidationsV2.BeginBlocker", "LiquidateVaults", "k.GetLiquidationOffsetHolder"),
  ("liquidationsV2.BeginBlocker", "LiquidateVaults", "k.vault.GetVaults"),
  ("liquidationsV2.BeginBlocker", "LiquidateVaults", "k.vault.GetLengthOfVault"),
  ("liquidationsV2.BeginBlocker", "LiquidateVaults", "k.SetLiquidationOffsetHolder"),
  ("liquidationsV2.BeginBlocker", "LiquidateBorrows", "k.lend.GetBorrows"),
  ("liquidationsV2.BeginBlocker", "LiquidateBorrows", "k.GetParams"),
  ("liquidationsV2.BeginBlocker", "LiquidateBorrows", "k.GetLiquidationOffsetHolder"),
  ("liquidationsV2.BeginBlocker", "LiquidateBorrows", "k.SetLiquidationOffsetHolder"),
  ("liquidationsV2.BeginBlocker", "LiquidateForSurplusAndDebt", "k.collector.GetAllAuctionMappingForApp"),
  ("liquidationsV2.BeginBlocker", "LiquidateForSurplusAndDebt", "k.esm.GetKillSwitchData"),
  ("liquidationsV2.BeginBlocker", "CheckStatsForSurplusAndDebt", "k.collector.GetCollectorLookupTable"),
  ("liquidationsV2.BeginBlocker", "CheckStatsForSurplusAndDebt", "k.collector.GetAuctionMappingForApp"),
  ("liquidationsV2.BeginBlocker", "CheckStatsForSurplusAndDebt", "k.collector.GetNetFeeCollectedData"),
  ("liquidationsV2.BeginBlocker", "CheckStatsForSurplusAndDebt", "k.collector.GetAmountFromCollector"), -- read + comparison, returns an error
  ("liquidationsV2.BeginBlocker", "CheckStatsForSurplusAndDebt", "k.collector.SetAuctionMappingForApp"),
  ("market.BeginBlocker", "BeginBlocker", "bandKeeper.GetOracleValidationResult"),
  ("market.BeginBlocker", "BeginBlocker", "bandKeeper.GetLastBlockHeight"),
  ("market.BeginBlocker", "BeginBlocker", "bandKeeper.GetDiscardData"),
  ("market.BeginBlocker", "BeginBlocker", "bandKeeper.SetDiscardData"),
  ("market.BeginBlocker", "BeginBlocker", "bandKeeper.GetLastFetchPriceID"),
  ("market.BeginBlocker", "BeginBlocker", "bandKeeper.GetFetchPriceResult"),
  ("market.BeginBlocker", "BeginBlocker", "bandKeeper.GetFetchPriceMsg"),
  ("market.BeginBlocker", "BeginBlocker", "assetKeeper.GetAssets"),
  ("market.BeginBlocker", "BeginBlocker", "k.GetAllTwa"),
  ("market.BeginBlocker", "BeginBlocker", "k.GetTwa"),
  ("market.BeginBlocker", "BeginBlocker", "k.SetTwa"),                           -- the oracle hook is one unwrapped pass by design; C17 covers its arithmetic
  ("market.BeginBlocker", "UpdatePriceList", "k.GetTwa"),
  ("market.BeginBlocker", "UpdatePriceList", "k.SetTwa"),
  ("bandoracle.BeginBlocker", "BeginBlocker", "k.GetLastBlockHeight"),
  ("bandoracle.BeginBlocker", "BeginBlocker", "k.GetCheckFlag"),
  ("bandoracle.BeginBlocker", "BeginBlocker", "k.GetFetchPriceMsg"),
  ("bandoracle.BeginBlocker", "BeginBlocker", "k.GetLastFetchPriceID"),
  ("bandoracle.BeginBlocker", "BeginBlocker", "k.GetTempFetchPriceID"),
  ("bandoracle.BeginBlocker", "BeginBlocker", "k.GetDiscardData"),
  ("bandoracle.BeginBlocker", "BeginBlocker", "k.SetTempFetchPriceID"),
  ("bandoracle.BeginBlocker", "BeginBlocker", "k.SetCheckFlag"),
  ("bandoracle.BeginBlocker", "BeginBlocker", "k.SetOracleValidationResult"),
  ("bandoracle.BeginBlocker", "BeginBlocker", "k.SetDiscardData"),
  ("bandoracle.BeginBlocker", "OraclePriceValidationByRequestID", "k.GetLastFetchPriceID"),
  ("bandoracle.BeginBlocker", "FetchPrice", "k.assetKeeper.GetAssets"),
  ("bandoracle.BeginBlocker", "FetchPrice", "k.scopedKeeper.GetCapability")      -- capability lookup, `(cap, ok)`
]

/-- calls whose body the extractor has expanded: the call adds nothing beyond the entries of the body, which are
in the table themselves (same blocker, deeper `fn`) -/
def expanded : List (String × String × String) := [
  ("liquidation.BeginBlocker", "BeginBlocker", "k.LiquidateVaults"),
  ("liquidation.BeginBlocker", "BeginBlocker", "k.LiquidateBorrows"),
  ("liquidationsV2.BeginBlocker", "BeginBlocker", "k.Liquidate"),
  ("liquidationsV2.BeginBlocker", "Liquidate", "k.LiquidateVaults"),
  ("liquidationsV2.BeginBlocker", "Liquidate", "k.LiquidateBorrows"),
  ("liquidationsV2.BeginBlocker", "Liquidate", "k.LiquidateForSurplusAndDebt"),
  ("liquidationsV2.BeginBlocker", "LiquidateForSurplusAndDebt", "k.CheckStatsForSurplusAndDebt"),
  ("auction.BeginBlocker", "BeginBlocker", "k.RestartDutch"),
  ("auction.BeginBlocker", "BeginBlocker", "k.RestartLendDutch"),
  ("auction.BeginBlocker", "RestartDutch", "k.RestartDutchAuctions"),
  ("auction.BeginBlocker", "RestartLendDutch", "k.RestartDutchLendAuctions"),
  ("market.BeginBlocker", "BeginBlocker", "k.UpdatePriceList"),
  ("market.BeginBlocker", "UpdatePriceList", "k.CalculateTwa"),
  ("bandoracle.BeginBlocker", "BeginBlocker", "k.FetchPrice"),
  ("bandoracle.BeginBlocker", "BeginBlocker", "k.OraclePriceValidationByRequestID")
]

/-- operators that can panic in Go, with the reason they cannot here -/
def opsTotal : List (String × String × String) := [
  ("liquidation.BeginBlocker", "LiquidateVaults", "index appIds[i]"),            -- `for i := range appIds`
  ("liquidation.BeginBlocker", "LiquidateBorrows", "slice borrowIDs[start:end]"),   -- `borrow_sweep_total`: sliced by its own length
  ("liquidationsV2.BeginBlocker", "LiquidateBorrows", "slice borrowIDs[start:end]"),-- `borrow_sweep_total`
  ("liquidationsV2.BeginBlocker", "LiquidateBorrows", "index newBorrowIDs[l]"),  -- `for l := range newBorrowIDs`
  ("market.BeginBlocker", "BeginBlocker", "div ctx.BlockHeight()%types.Int64Twenty"),     -- constant divisor 20
  ("bandoracle.BeginBlocker", "BeginBlocker", "div ctx.BlockHeight()%types.Int64Twenty"), -- constant divisor 20
  ("market.BeginBlocker", "BeginBlocker", "slice twa.PriceValue[:0]"),           -- `s[:0]` is legal for every slice, nil included
  ("market.BeginBlocker", "UpdatePriceList", "slice twa.PriceValue[:0]"),
  ("market.BeginBlocker", "BeginBlocker", "index data.Rates[index]"),            -- guarded by `length > index`, index starts at -1 and is incremented first
  ("market.BeginBlocker", "UpdatePriceList", "index twa.PriceValue[twa.CurrentIndex]"),   -- property C17: `C17.no_panic` (ring index < window)
  ("market.BeginBlocker", "CalculateTwa", "index twa.PriceValue[i]"),            -- C17.no_panic
  ("market.BeginBlocker", "CalculateTwa", "bits.Div64")                          -- C17.mean_fits_word (hi < divisor, divisor ≥ 1)
]

/-- **D3**: total only under `counter ≤ cap(list)` — `sweep_total_if_counter_le_cap`; violated on chain:
`d3_counterexample` -/
def conditionalD3 : List (String × String × String) := [
  ("liquidation.BeginBlocker", "LiquidateVaults", "slice totalVaults[start:end]"),
  ("liquidationsV2.BeginBlocker", "LiquidateVaults", "slice totalVaults[start:end]")
]

/-- **D-C15-1** (OPEN): the surplus / debt kick-off of the second generation runs outside every wrapper. No panic is
reachable (256-bit `sdk.Int` arithmetic on governance-set thresholds; `DebtTokenAmount` / `SurplusTokenAmount` return empty
coins only for a collector asset that does not exist, which `WasmSetCollectorLookupTable` refuses), but the step is NOT
all-or-nothing and a failing entry stops the loop: `surplusKickRaw`, `kickoff_leaks_counterexample`, `kickoff_repeats`;
witness replayed first in the harness run (`kick.*`), monitors `kickoff_atomic`, `kickoff_remaining`. With the repair
(`kickoff_wrapped_is_atomic`) these entries leave the unwrapped part of the table. -/
def kickoffDC151 : List (String × String × String) := [
  ("liquidationsV2.BeginBlocker", "CheckStatsForSurplusAndDebt", "collector.DebtThreshold.Sub"),
  ("liquidationsV2.BeginBlocker", "CheckStatsForSurplusAndDebt", "collector.SurplusThreshold.Add"),
  ("liquidationsV2.BeginBlocker", "CheckStatsForSurplusAndDebt", "netFeeCollectedData.NetFeesCollected.LTE"),
  ("liquidationsV2.BeginBlocker", "CheckStatsForSurplusAndDebt", "netFeeCollectedData.NetFeesCollected.GTE"),
  ("liquidationsV2.BeginBlocker", "CheckStatsForSurplusAndDebt", "k.DebtTokenAmount"),
  ("liquidationsV2.BeginBlocker", "CheckStatsForSurplusAndDebt", "k.SurplusTokenAmount"),
  ("liquidationsV2.BeginBlocker", "CheckStatsForSurplusAndDebt", "k.CreateLockedVault")
]

/-- read, judged panic-free, exercised by the feed histories over a real IBC channel — NOT proved (the IBC keeper is outside
the model): `obi.MustEncode` of the fixed struct type `FetchPriceCallData` (a panic would be a static type error of the
encoder, independent of state), `SendPacket` (returns an error, which `FetchPrice` turns into `nil, nil` before any write of
its own, `x/bandoracle/keeper/oracle.go:102-112`). -/
def reviewedUnproved : List (String × String × String) := [
  ("bandoracle.BeginBlocker", "FetchPrice", "obi.MustEncode"),
  ("bandoracle.BeginBlocker", "FetchPrice", "k.channelKeeper.SendPacket")
]

def key (e : Entry) : String × String × String := (e.blocker, e.inFn, e.callee)

def reviewed (e : Entry) : Bool :=
  pureHelpers.contains e.callee || storeAccess.contains (key e) || expanded.contains (key e) || opsTotal.contains (key e) ||
  conditionalD3.contains (key e) || kickoffDC151.contains (key e) || reviewedUnproved.contains (key e)

set_option maxRecDepth 200000 in
/-- **Table obligation**: every call and panicking operator outside every wrapper is on the reviewed list. -/
theorem unwrapped_calls_reviewed : ∀ e ∈ unwrapped, reviewed e = true := by decide

/-- the obligation ranges over exactly the unwrapped part of the table, and that part is the complement of the
wrapped part -/
theorem unwrapped_is_the_unwrapped_part :
    (unwrapped.all fun e => !e.wrapped) = true ∧ (wrappedEntries.all fun e => e.wrapped) = true := by
  constructor <;> decide

/-- has the blocker a unit in function `fn`, inside a loop (`loop`) or not, at nesting depth `nest`? -/
def hasUnit (b fn : String) (loop : Bool) (nest : Nat) : Bool :=
  units.any fun u => u.blocker == b && u.inFn == fn && u.loop == loop && u.nest == nest

/-- a per-item unit: a wrapper call in function `fn` whose innermost enclosing loop statement is `over` (the ITEM loop —
the wrapper is inside it), at nesting depth `nest`, the closure itself containing exactly the loops `inner` (loops over
the parts of ONE item; a loop over the items inside the closure would be one wrapper for all items) -/
def perItemUnit (b fn over : String) (nest : Nat) (inner : List String) : Bool :=
  units.any fun u => u.blocker == b && u.inFn == fn && u.loop && u.loopOver == over && u.nest == nest && u.innerLoops == inner

/-- a hook that is one unit as a whole: a wrapper call at the top of the blocker, in no loop -/
def wholeHookUnit (b : String) (inner : List String) : Bool :=
  units.any fun u => u.blocker == b && u.inFn == "BeginBlocker" && !u.loop && u.loopOver == "" && u.nest == 1 && u.innerLoops == inner

/-- **Every unit of work the property names sits in its own wrapper, and the wrapper is inside the loop over the items.** -/
theorem units_of_work_wrapped :
    perItemUnit "liquidation.BeginBlocker" "LiquidateVaults" "range newVaults" 1 [] = true ∧       -- one vault liquidation (gen 1)
    perItemUnit "liquidation.BeginBlocker" "LiquidateBorrows" "range newBorrowIDs" 1 ["range pool.AssetData"] = true ∧ -- one borrow liquidation (gen 1)
    perItemUnit "liquidationsV2.BeginBlocker" "LiquidateVaults" "range newVaults" 1 [] = true ∧    -- one vault liquidation (gen 2)
    perItemUnit "liquidationsV2.BeginBlocker" "LiquidateBorrows" "range newBorrowIDs" 1 [] = true ∧ -- one borrow liquidation (gen 2; D6 repaired)
    perItemUnit "auction.BeginBlocker" "BeginBlocker" "range auctionMapData" 1 [] = true ∧         -- surplus / debt activator per collector mapping
    perItemUnit "auction.BeginBlocker" "RestartDutchAuctions" "range dutchAuctions" 1 [] = true ∧  -- one auction update (gen 1, vault auctions)
    perItemUnit "auction.BeginBlocker" "RestartDutchLendAuctions" "range dutchAuctions" 1 [] = true ∧ -- one auction update (gen 1, lend auctions)
    perItemUnit "auctionsV2.BeginBlocker" "AuctionIterator" "range auctions" 2 [] = true ∧         -- one auction update (gen 2), nested in the pass
    perItemUnit "auctionsV2.BeginBlocker" "LimitOrderBid" "range auctions" 2 ["range biddingData"] = true ∧ -- one auction's limit-bid fill (its bids: inner loop)
    perItemUnit "liquidity.BeginBlocker" "BeginBlocker" "range allApps" 1 [] = true ∧              -- one app's request clean-up
    perItemUnit "liquidity.EndBlocker" "EndBlocker" "range allApps" 1 [] = true ∧                  -- one app's batch execution
    wholeHookUnit "rewards.BeginBlocker" [] = true ∧                                               -- the incentive hook as a whole
    wholeHookUnit "esm.BeginBlocker" ["range apps"] = true ∧                                       -- the emergency-shutdown hook as a whole (all apps)
    wholeHookUnit "lend.BeginBlocker" [] = true := by decide

/-- **All wrapper sites with their loops**: for each of the 17 `ApplyFuncIfNoError` calls reached from a blocker — function,
nesting depth, the innermost loop statement enclosing the call (`""` = none: a whole-hook unit or a pass) and the loops
written inside its closure. A wrapper moved out of (or into) a loop, or a loop over items moved into a closure, changes
this list. -/
def wrapperSites (repairedKickoff : Bool) : List (String × String × Nat × String × List String) :=
      [("liquidity.BeginBlocker", "BeginBlocker", 1, "range allApps", []),
       ("liquidity.EndBlocker", "EndBlocker", 1, "range allApps", []),
       ("liquidation.BeginBlocker", "LiquidateVaults", 1, "range newVaults", []),
       ("liquidation.BeginBlocker", "LiquidateBorrows", 1, "range newBorrowIDs", ["range pool.AssetData"]),
       ("liquidationsV2.BeginBlocker", "LiquidateVaults", 1, "range newVaults", []),
       ("liquidationsV2.BeginBlocker", "LiquidateBorrows", 1, "range newBorrowIDs", [])] ++
      -- the repair of D-C15-1 (notes/C15.md): one more site, the surplus / debt kick-off per auction-mapping entry
      (if repairedKickoff then [("liquidationsV2.BeginBlocker", "LiquidateForSurplusAndDebt", 1, "range auctionMapData", [])] else []) ++
      [("auction.BeginBlocker", "BeginBlocker", 1, "range auctionMapData", []),
       ("auction.BeginBlocker", "BeginBlocker", 1, "range auctionMapData", []),
       ("auction.BeginBlocker", "RestartDutchAuctions", 1, "range dutchAuctions", []),
       ("auction.BeginBlocker", "RestartDutchLendAuctions", 1, "range dutchAuctions", []),
       ("auctionsV2.BeginBlocker", "BeginBlocker", 1, "", []),
       ("auctionsV2.BeginBlocker", "AuctionIterator", 2, "range auctions", []),
       ("auctionsV2.BeginBlocker", "BeginBlocker", 1, "", []),
       ("auctionsV2.BeginBlocker", "LimitOrderBid", 2, "range auctions", ["range biddingData"]),
       ("rewards.BeginBlocker", "BeginBlocker", 1, "", []),
       ("lend.BeginBlocker", "BeginBlocker", 1, "", []),
       ("esm.BeginBlocker", "BeginBlocker", 1, "", ["range apps"])]

def siteList : List (String × String × Nat × String × List String) :=
  units.map fun u => (u.blocker, u.inFn, u.nest, u.loopOver, u.innerLoops)

theorem wrapper_sites_and_their_loops : (siteList == wrapperSites false || siteList == wrapperSites true) = true := by decide

/-! ### Error propagation inside the wrapped units (`errorSites`)

`ApplyFuncIfNoError` rolls back only if the closure *returns* the error (or panics). The extractor lists, for every
closure and two levels into the module's own keeper functions it calls, every call that produces an error and what
happens to it. Anything but `returned` (and `never-fails`: the callee's return statements all return a nil error) must
be on this reviewed list `(blocker, enclosing function, callee, disposition)`. -/

def swallowReviewed : List (String × String × String × String) := [
  -- liquidity clean-up every 150 blocks: a void helper; the params lookup is its first statement (nothing written yet);
  -- a market order that cannot be placed is skipped, the accumulated fees stay where they are for the next round
  ("liquidity.BeginBlocker", "ConvertAccumulatedSwapFeesWithSwapDistrToken", "k.GetGenericParams", "swallowed:return-nil"),
  ("liquidity.BeginBlocker", "ConvertAccumulatedSwapFeesWithSwapDistrToken", "k.MarketOrder", "swallowed:logged"),
  -- values only: an inactive price makes the value zero / the following guarded call fail; no write depends on the error
  ("liquidation.BeginBlocker", "UpdateLockedBorrows", "k.market.CalcAssetPrice", "blank"),
  ("auctionsV2.BeginBlocker", "CloseEnglishAuction", "k.GetUserBid", "blank"),           -- ids come from the auction's own bid list
  ("auctionsV2.BeginBlocker", "PlaceDutchAuctionBid", "k.vault.GetAmountOfOtherToken", "blank"),
  -- the incentive hook is ONE unit that by design logs a failing sub-step and goes on; it never reports failure itself.
  -- Its sub-steps are loops over independent records (gauges, external-reward records, users): the fallible operation of
  -- an iteration (kill-switch / ESM test, bank send) comes before that iteration's writes, a failed payout is skipped.
  -- Exercised: `hooks.sub.single` lines (which sub-steps return an error, and after which writes).
  ("rewards.BeginBlocker", "TriggerAndUpdateEpochInfos", "k.InitateGaugesForDuration", "swallowed:logged"),
  ("rewards.BeginBlocker", "InitateGaugesForDuration", "k.BeginRewardDistributions", "swallowed:continue"),
  ("rewards.BeginBlocker", "InitateGaugesForDuration", "k.liquidityKeeper.TransferFundsForSwapFeeDistribution", "swallowed:continue"),
  ("rewards.BeginBlocker", "BeginBlocker", "k.DistributeExtRewardLocker", "swallowed:logged"),
  ("rewards.BeginBlocker", "DistributeExtRewardLocker", "k.bank.SendCoinsFromModuleToAccount", "swallowed:continue"),
  ("rewards.BeginBlocker", "BeginBlocker", "k.DistributeExtRewardVault", "swallowed:logged"),
  ("rewards.BeginBlocker", "DistributeExtRewardVault", "k.bank.SendCoinsFromModuleToAccount", "swallowed:continue"),
  ("rewards.BeginBlocker", "BeginBlocker", "k.DistributeExtRewardLend", "swallowed:logged"),
  ("rewards.BeginBlocker", "DistributeExtRewardLend", "k.bank.SendCoinsFromModuleToAccount", "swallowed:continue"),
  ("rewards.BeginBlocker", "BeginBlocker", "k.DistributeExtRewardStableVault", "swallowed:logged"),
  ("rewards.BeginBlocker", "DistributeExtRewardStableVault", "k.liquidityKeeper.GetAmountFarmedForAssetID", "swallowed:logged"),
  ("rewards.BeginBlocker", "DistributeExtRewardStableVault", "k.bank.SendCoinsFromModuleToAccount", "swallowed:continue"),
  -- the emergency-shutdown hook is ONE unit over all apps; a stage that fails for one app (`continue`) must not block the
  -- other apps. Each stage is a resumable loop: per position the lookups (snapshot price, pair, asset) and the bank
  -- operation precede the writes, the stage's completion flag is set only after the loop.
  ("esm.BeginBlocker", "BeginBlocker", "k.SetUpCollateralRedemptionForVault", "swallowed:continue"),
  ("esm.BeginBlocker", "BeginBlocker", "k.SetUpCollateralRedemptionForStableVault", "swallowed:continue"),
  ("esm.BeginBlocker", "BeginBlocker", "k.SetUpDebtRedemptionForCollector", "swallowed:continue"),
  ("esm.BeginBlocker", "BeginBlocker", "k.SetUpShareCalculation", "swallowed:continue")
]

def errOk (s : ErrSite) : Bool :=
  s.disp == "returned" || s.disp == "never-fails" || swallowReviewed.contains (s.blocker, s.inFn, s.callee, s.disp)

set_option maxRecDepth 200000 in
/-- **Wrapped units propagate their errors**: inside every `ApplyFuncIfNoError` closure (and two levels into the own
keeper functions it calls) every error a call produces reaches the closure's return — so that the wrapper rolls the
unit back — except at the reviewed sites above. A closure that logs the error of its step and returns nil fails here. -/
theorem wrapped_units_propagate_errors : ∀ s ∈ errorSites, errOk s = true := by decide

/-- every closure works on the cache context it is handed, never on a context variable of the enclosing function -/
theorem units_use_their_cache_context : ∀ u ∈ units, u.liveCtx = false := by decide

/-- the closures that can never return a non-nil error are exactly the reviewed four: the liquidity clean-up (its body
has no fallible call), the two second-generation auction passes (their items are units of their own) and the incentive
hook (see `swallowReviewed`); every per-item closure has a failing return path -/
theorem per_item_units_can_report_failure :
    (units.filter fun u => !u.returnsNonNil).map (fun u => (u.blocker, u.inFn, u.nest)) =
      [("liquidity.BeginBlocker", "BeginBlocker", 1), ("auctionsV2.BeginBlocker", "BeginBlocker", 1),
       ("auctionsV2.BeginBlocker", "BeginBlocker", 1), ("rewards.BeginBlocker", "BeginBlocker", 1)] := by decide

/-! ### Where the bounds of the unwrapped slice expressions come from (`sliceFacts`)

`sweep_total_if_counter_le_cap` speaks about ONE reading of the store: the counter and the list as they are at the
same moment. In a sweep that loops over apps the units of an earlier iteration delete vaults and lower the counter, so
both must be read again in every iteration. The extractor traces the bound variables of every unwrapped
`list[start:end]` back to the calls they derive from and says, for the list and for each source, whether it is read in
the same innermost loop iteration as the slice expression. -/

/-- sources that may be read once before the loop: nothing a liquidation unit does changes them -/
def loopInvariantSources : List String := [
  "k.GetParams",                 -- module params (batch size): changed by governance only
  "k.GetAppIdsForLiquidation"    -- the whitelist the loop ranges over: changed by governance only
]

def sliceFactOk (f : SliceFact) : Bool :=
  f.listSameLoop && f.sources.all fun s => s.sameLoop || loopInvariantSources.contains s.callee

/-- does the fact have a length source (the stored counter, or `len` of the list itself) read with the list? -/
def hasFreshLength (f : SliceFact) : Bool :=
  f.sources.any fun s => s.sameLoop &&
    ((f.listSrc == "k.vault.GetVaults" && s.callee == "k.vault.GetLengthOfVault") ||
     (f.expr == "borrowIDs[start:end]" && s.callee == "len(borrowIDs)"))

/-- **The sweeps slice a list by a length read in the same iteration**: for every unwrapped `list[start:end]` the
list and everything its bounds derive from (counter, offset holder) are read in the same loop iteration as the slice
expression, except the reviewed loop-invariant sources. Hoisting the counter read out of the per-app loop of the
first-generation vault sweep (while the list is re-read per app) fails here. -/
theorem sweep_bounds_read_with_list : ∀ f ∈ sliceFacts, sliceFactOk f = true ∧ hasFreshLength f = true := by decide

/-- nothing outside the two vault sweeps depends on the vault counter, and nothing else is conditional -/
theorem d3_only_in_the_vault_sweeps :
    (unwrapped.filter fun e => conditionalD3.contains (key e)).length ≤ 2 := by decide

set_option maxRecDepth 200000 in
/-- **Pins**: exactly the twelve Begin/EndBlockers of the ten DeFi modules and exactly the seventeen wrapper sites (eighteen
with the repair of D-C15-1, see `wrapper_sites_and_their_loops`);
195 unwrapped + 205 wrapped entries on the pinned tree — stated as lower bounds because a repair of D3 legitimately
removes two of them — and spot entries, so that an extractor that returns little or nothing fails here. -/
theorem table_pins :
    blockers.length = 12 ∧ (units.length = 17 ∨ units.length = 18) ∧ unwrapped.length ≥ 150 ∧ wrappedEntries.length ≥ 150 ∧
    entries.length ≥ 380 ∧ errorSites.length ≥ 120 ∧
    (sliceFacts.map fun f => (f.blocker, f.inFn, f.expr, f.listSrc)) =
      [("liquidation.BeginBlocker", "LiquidateVaults", "totalVaults[start:end]", "k.vault.GetVaults"),
       ("liquidation.BeginBlocker", "LiquidateBorrows", "borrowIDs[start:end]", "k.lend.GetBorrows"),
       ("liquidationsV2.BeginBlocker", "LiquidateVaults", "totalVaults[start:end]", "k.vault.GetVaults"),
       ("liquidationsV2.BeginBlocker", "LiquidateBorrows", "borrowIDs[start:end]", "k.lend.GetBorrows")] ∧
    (errorSites.any fun s => s.blocker == "liquidationsV2.BeginBlocker" && s.inFn == "LiquidateVaults" &&
        s.callee == "k.LiquidateIndividualVault" && s.disp == "returned") = true ∧
    (errorSites.any fun s => s.blocker == "liquidation.BeginBlocker" && s.callee == "k.CreateLockedVault" && s.disp == "returned") = true ∧
    (blockers.map (·.name)) = ["liquidity.BeginBlocker", "liquidity.EndBlocker", "liquidation.BeginBlocker",
      "liquidationsV2.BeginBlocker", "auction.BeginBlocker", "auctionsV2.BeginBlocker", "rewards.BeginBlocker",
      "rewards.EndBlocker", "lend.BeginBlocker", "esm.BeginBlocker", "market.BeginBlocker", "bandoracle.BeginBlocker"] ∧
    (blockers.any fun b => b.name == "auctionsV2.BeginBlocker" && b.top == ["unit", "unit"]) = true ∧
    (blockers.any fun b => b.name == "rewards.EndBlocker" && b.top == []) = true ∧
    (unwrapped.any fun e => key e == ("liquidation.BeginBlocker", "LiquidateVaults", "k.vault.GetLengthOfVault")) = true ∧
    (wrappedEntries.any fun e => e.blocker == "liquidation.BeginBlocker" && e.callee == "k.CreateLockedVault") = true ∧
    (wrappedEntries.any fun e => e.blocker == "liquidity.EndBlocker" && e.callee == "k.ExecuteRequests") = true ∧
    (wrappedEntries.any fun e => e.blocker == "auction.BeginBlocker" && e.callee == "k.vault.CreateNewVault") = true := by decide

end Comdex.C15
