import Comdex.Model.Effects
import Comdex.Gen.Effects_lend
/-!
# C08 — the EFFECT SKELETON of the fourteen x/lend messages, pinned (golden skeleton)

`Gen/Effects_lend.lean` is regenerated from x/lend/keeper (msg_server.go and everything it calls: keeper.go, iter.go, funds.go …)
on every run by extract/effects: per message the ordered bank calls with normalised party / denomination texts and path
conditions.  `Model/Lend.lean` has its bank calls INSIDE monadic `do` blocks, not as data, and is being extended by another
work package, so this tie is the WEAKER one: the regenerated skeleton is compared with a reviewed literal in this file
(`exp_<Msg>`), item by item: kind, party ROLES, denomination ROLE, "only if its own amount is positive", the signature of the
path conditions (polarity + 32-bit hash of the whole normalised condition text, legend below), loop and cache flags.
Amount expressions are not compared (the C08 correspondence runs do that).  What this adds: a transfer that moved under
another guard, lost / gained a guard, changed party or denomination, disappeared or appeared makes `lend_pins` fail on the
next run, whatever states the generated population reaches.

## reviewed role table (exact match on the ABSTRACT texts: argument lists of calls nested deeper than one level elided, `…`)

| text | role |
|---|---|
| `addr(msg.Lender)`, `addr(msg.Borrower)` | `signer` |
| `addr(lend.GetLend(…).Owner)` | `lendOwner` (owner of the lend position the interest is paid to) |
| `lend.GetPool(lend.GetLendPair(…).AssetOutPoolID).ModuleName` | `outPool` (the pool the borrowed asset comes from) |
| `lend.GetPool(lend.GetLend(…).PoolID).ModuleName`, `lend.GetPool(msg.PoolId).ModuleName` | `pool` (the pool of the lend position / of the message) |
| `"lendV2"` (`types.ModuleName` of x/lend) | `reserve` |
| `"auctionV1"`, `"cmdx"` | `auction`, `cmdx` (`CalculateInterestAndRewards` only) |
| `asset.GetAsset(lend.GetAssetRatesParams(…).CAssetID).Denom` | `cAsset` |
| `asset.GetAsset(lend.GetLendPair(…).AssetOut).Denom` | `assetOut` |
| `asset.GetAsset(lend.GetLend(…).AssetID).Denom`, `asset.GetAsset(acc(…)).Denom` | `asset` |
| `msg.Amount.Denom`, `msg.AmountIn.Denom`, `msg.AmountOut.Denom` | `msgCoin` (the coin named in the message) |
| `lend.GetLend(…).AmountIn.Denom`, `lend.GetBorrow(…).AmountIn.Denom`, `….BridgedAssetAmount.Denom` | `posCoin` (a coin stored in the position) |

## clause → theorem

| clause | theorem |
|---|---|
| bank skeleton of each of the fourteen messages = reviewed literal (golden) | `lend_pins` |
| every bank call classified; the only opaque items are the depth-limited `GetAverageBorrowRate` / `GetSavingRate` reads of Borrow / BorrowAlternate; table shape | `lend_table` |

## legend of the condition hashes (hash, kind, normalised text; long texts head…hash…tail)

| h | kind | text |
|---|---|---|
| 869575135 | if | `lend.HasLendForAddressByAsset(msg.Lender, msg.AssetId, msg.PoolId)` |
| 996767492 | if | `ite(ite(!lend.GetLendRewardTracker(lend.GetLend(lend.GetLendIDForAssetIDPoolID(msg.Lender, msg.A…3b697704…nd(lend.GetLendIDForAssetIDPoolID(msg.Lender, msg.A…` |
| 546317467 | if | `msg.Amount.Amount.Equal(lend.GetLend(msg.LendId).AvailableToBorrow) && lend.GetLend(msg.LendId).AvailableToBorrow.GTE(lend.GetLend(msg.LendId).AmountIn.Amount)` |
| 4074955334 | pos | `ite(ite(!lend.GetLendRewardTracker(lend.GetLend(msg.LendId).ID)#2, LendRewardsTracker{LendingId:…f2e2e246…, lend.GetLend(msg.LendId))).TruncateInt(), 0).GT(0)` |
| 3397667833 | if | `ite(ite(!lend.GetLendRewardTracker(lend.GetLend(msg.LendId).ID)#2, LendRewardsTracker{LendingId:…ca844bf9…tLend(msg.LendId).AssetID).TotalInterestAccumulated)` |
| 1510044218 | if | `msg.Amount.Amount.LT(lend.GetLend(msg.LendId).AmountIn.Amount)` |
| 65846717 | if | `lend.HasBorrowForAddressByPair(msg.Borrower, msg.PairId)` |
| 2039287544 | if | `!lend.GetLendPair(lend.GetBorrow(lend.GetBorrowIDForAddressByPair(msg.Borrower, msg.PairId)).PairID).IsInterPool` |
| 2951588834 | if | `lend.GetBorrow(lend.GetBorrowIDForAddressByPair(msg.Borrower, msg.PairId)).BridgedAssetAmount.De…afedabe2…e), asset.GetAsset(acc(new(uint64))).Denom).Amount))` |
| 2940275843 | if | `market.CalcAssetPrice(lend.GetLendPair(lend.GetBorrow(lend.GetBorrowIDForAddressByPair(msg.Borro…af410c83…e), asset.GetAsset(acc(new(uint64))).Denom).Amount))` |
| 245005271 | if | `!lend.GetLendPair(msg.PairId).IsInterPool` |
| 571477843 | if | `market.CalcAssetPrice(lend.GetLend(msg.LendId).AssetID, sdk.NewDec(msg.AmountIn.Amount.Int64()).…22100f53…e), asset.GetAsset(acc(new(uint64))).Denom).Amount))` |
| 3819222389 | if | `msg.Amount.Amount.Equal(lend.GetBorrow(msg.BorrowId).AmountOut.Amount.Add(lend.GetBorrow(msg.BorrowId).InterestAccumulated.TruncateInt()))` |
| 1035222583 | pos | `lend.GetBorrowInterestTracker(msg.BorrowId).ReservePoolInterest.TruncateInt().GT(0)` |
| 1303515621 | if | `true` |
| 1108715873 | pos | `(lend.GetBorrow(msg.BorrowId).InterestAccumulated.Sub(lend.GetBorrowInterestTracker(msg.BorrowId).ReservePoolInterest)).TruncateInt().GT(0)` |
| 2707716491 | if | `lend.GetLendPair(lend.GetBorrow(msg.BorrowId).PairID).IsInterPool` |
| 1048479006 | if | `msg.Amount.Amount.LTE(lend.GetBorrowInterestTracker(msg.BorrowId).ReservePoolInterest.TruncateInt())` |
| 3499363615 | if | `msg.Amount.Amount.GT(lend.GetBorrowInterestTracker(msg.BorrowId).ReservePoolInterest.TruncateInt…d0940d1f…row(msg.BorrowId).InterestAccumulated.TruncateInt())` |
| 923073885 | pos | `msg.Amount.Amount.Sub(lend.GetBorrowInterestTracker(msg.BorrowId).ReservePoolInterest.TruncateInt()).GT(0)` |
| 3378415376 | pos | `lend.GetBorrow(msg.BorrowId).InterestAccumulated.Sub(lend.GetBorrowInterestTracker(msg.BorrowId).ReservePoolInterest).TruncateInt().GT(0)` |
| 3563383436 | if | `!lend.GetLendPair(lend.GetBorrow(msg.BorrowId).PairID).IsInterPool` |
| 834123723 | if | `lend.GetBorrow(msg.BorrowId).BridgedAssetAmount.Denom == asset.GetAsset(acc(new(uint64))).Denom …31b7b7cb…e), asset.GetAsset(acc(new(uint64))).Denom).Amount))` |
| 2625736130 | if | `market.CalcAssetPrice(lend.GetLendPair(lend.GetBorrow(msg.BorrowId).PairID).AssetIn, (sdk.NewDec…9c818dc2…e), asset.GetAsset(acc(new(uint64))).Denom).Amount))` |
| 454575357 | if | `lend.HasBorrowForAddressByPair(msg.Lender, msg.PairId)` |
| 3841182008 | if | `!lend.GetLendPair(lend.GetBorrow(lend.GetBorrowIDForAddressByPair(msg.Lender, msg.PairId)).PairID).IsInterPool` |
| 592850414 | if | `lend.GetBorrow(lend.GetBorrowIDForAddressByPair(msg.Lender, msg.PairId)).BridgedAssetAmount.Deno…23562dee…e), asset.GetAsset(acc(new(uint64))).Denom).Amount))` |
| 4007953295 | if | `market.CalcAssetPrice(lend.GetLendPair(lend.GetBorrow(lend.GetBorrowIDForAddressByPair(msg.Lende…eee4838f…e), asset.GetAsset(acc(new(uint64))).Denom).Amount))` |
| 1826140649 | if | `market.CalcAssetPrice(lend.GetLend(lend.GetLendIDForAssetIDPoolID(msg.Lender, msg.AssetId, msg.P…6cd8b1e9…e), asset.GetAsset(acc(new(uint64))).Denom).Amount))` |
| 3309566615 | if | `market.CalcAssetPrice(lend.GetLend(lend.GetUserLendIDCounter() + 1).AssetID, sdk.NewDec(msg.Amou…c543fa97…e), asset.GetAsset(acc(new(uint64))).Denom).Amount))` |
| 3070912315 | loop | `range acc(new([]uint64))` |
| 397767742 | pos | `ite(ite(!lend.GetLendRewardTracker(lend.GetLend(each(acc(new([]uint64)))).ID)#2, LendRewardsTrac…17b5743e…(each(acc(new([]uint64)))))).TruncateInt(), 0).GT(0)` |
| 2909833665 | if | `ite(ite(!lend.GetLendRewardTracker(lend.GetLend(each(acc(new([]uint64)))).ID)#2, LendRewardsTrac…ad7089c1…(new([]uint64)))).AssetID).TotalInterestAccumulated)` |
| 3671374226 | loop | `range auction.GetDutchLendAuctions(3)` |
| 2661081923 | continue | `bank.SendCoinsFromModuleToModule("lendV2", "cmdx", coins(each(auction.GetDutchLendAuctions(3)).InflowTokenTargetAmount)) != nil` |
| 3330531126 | if | `lend.GetBorrow(msg.BorrowId).AmountIn.Amount.Equal(lend.GetLend(lend.GetBorrow(msg.BorrowId).Len…c683df36….GetBorrow(msg.BorrowId).LendingID).AmountIn.Amount)` |
| 680418592 | pos | `ite(ite(!lend.GetLendRewardTracker(lend.GetLend(lend.GetBorrow(msg.BorrowId).LendingID).ID)#2, L…288e5d20…w(msg.BorrowId).LendingID))).TruncateInt(), 0).GT(0)` |
| 1435774798 | if | `ite(ite(!lend.GetLendRewardTracker(lend.GetLend(lend.GetBorrow(msg.BorrowId).LendingID).ID)#2, L…55942f4e….BorrowId).LendingID).AssetID).TotalInterestAccumul…` |
| 2135521789 | if | `lend.GetBorrow(msg.BorrowId).AmountIn.Amount.LT(lend.GetLend(lend.GetBorrow(msg.BorrowId).LendingID).AmountIn.Amount)` |
-/
namespace Comdex.C08
open Comdex.Effects Comdex.Gen.Effects

inductive LRole where
  | signer | lendOwner | pool | outPool | reserve | auction | cmdx
  deriving DecidableEq, Repr

inductive LDen where
  | asset | cAsset | msgCoin | posCoin | assetOut | auctionCoin
  deriving DecidableEq, Repr

abbrev LPin := RPin LRole LDen

/-- the reviewed role table of x/lend (exact match on the ABSTRACT texts `srcA` / `dstA` / `denomA`) -/
def lendRoles : Roles LRole LDen where
  abstract := true
  acct := fun t =>
    if t == "\"lendV2\"" then some .reserve
    else if t == "\"auctionV1\"" then some .auction
    else if t == "\"cmdx\"" then some .cmdx
    else if t == "addr(msg.Lender)" || t == "addr(msg.Borrower)" then some .signer
    else if t == "addr(lend.GetLend(…).Owner)" then some .lendOwner
    else if t == "lend.GetPool(lend.GetLendPair(…).AssetOutPoolID).ModuleName" then some .outPool
    else if t == "lend.GetPool(lend.GetLend(…).PoolID).ModuleName" || t == "lend.GetPool(msg.PoolId).ModuleName" then some .pool
    else none
  denom := fun t =>
    if t == "asset.GetAsset(lend.GetAssetRatesParams(…).CAssetID).Denom" then some .cAsset
    else if t == "asset.GetAsset(lend.GetLendPair(…).AssetOut).Denom" then some .assetOut
    else if t == "asset.GetAsset(lend.GetLend(…).AssetID).Denom" || t == "asset.GetAsset(acc(…)).Denom" then some .asset
    else if t == "msg.Amount.Denom" || t == "msg.AmountIn.Denom" || t == "msg.AmountOut.Denom" then some .msgCoin
    else if t == "lend.GetLend(msg.LendId).AmountIn.Denom" || t == "lend.GetBorrow(msg.BorrowId).AmountIn.Denom"
        || t == "lend.GetBorrow(msg.BorrowId).BridgedAssetAmount.Denom"
        || t == "lend.GetLend(lend.GetBorrow(…).LendingID).AmountIn.Denom" then some .posCoin
    else if t == "each(auction.GetDutchLendAuctions(…)).InflowTokenTargetAmount.Denom"
        || t == "each(auction.GetDutchLendAuctions(…)).OutflowTokenCurrentAmount.Denom" then some .auctionCoin
    else none

/-! ## the reviewed literals -/

def exp_Lend : List LPin := [
  ⟨.send, some .reserve, some .pool, .asset, false, [(true, 869575135), (true, 996767492), (true, 996767492)], false, false⟩,
  ⟨.mint, none, some .pool, .cAsset, false, [(true, 869575135), (true, 996767492), (true, 996767492)], false, false⟩,
  ⟨.send, some .pool, some .lendOwner, .cAsset, false, [(true, 869575135), (true, 996767492), (true, 996767492)], false, false⟩,
  ⟨.send, some .pool, some .lendOwner, .cAsset, false, [(true, 869575135), (true, 996767492), (false, 996767492)], false, false⟩,
  ⟨.send, some .signer, some .pool, .msgCoin, false, [(true, 869575135)], false, false⟩,
  ⟨.mint, none, some .pool, .cAsset, false, [(true, 869575135)], false, false⟩,
  ⟨.send, some .pool, some .signer, .cAsset, false, [(true, 869575135)], false, false⟩,
  ⟨.send, some .signer, some .pool, .msgCoin, false, [(false, 869575135)], false, false⟩,
  ⟨.mint, none, some .pool, .cAsset, false, [(false, 869575135)], false, false⟩,
  ⟨.send, some .pool, some .signer, .cAsset, false, [(false, 869575135)], false, false⟩]

def exp_Withdraw : List LPin := [
  ⟨.send, some .reserve, some .pool, .asset, true, [(true, 546317467), (true, 4074955334), (true, 3397667833)], false, false⟩,
  ⟨.mint, none, some .pool, .cAsset, true, [(true, 546317467), (true, 4074955334), (true, 3397667833)], false, false⟩,
  ⟨.send, some .pool, some .lendOwner, .cAsset, true, [(true, 546317467), (true, 4074955334), (true, 3397667833)], false, false⟩,
  ⟨.send, some .pool, some .lendOwner, .cAsset, true, [(true, 546317467), (true, 4074955334), (false, 3397667833)], false, false⟩,
  ⟨.send, some .signer, some .pool, .cAsset, false, [(true, 546317467)], false, false⟩,
  ⟨.burn, some .pool, none, .cAsset, false, [(true, 546317467)], false, false⟩,
  ⟨.send, some .pool, some .signer, .posCoin, false, [(true, 546317467)], false, false⟩,
  ⟨.send, some .reserve, some .pool, .asset, true, [(false, 546317467), (true, 4074955334), (true, 3397667833)], false, false⟩,
  ⟨.mint, none, some .pool, .cAsset, true, [(false, 546317467), (true, 4074955334), (true, 3397667833)], false, false⟩,
  ⟨.send, some .pool, some .lendOwner, .cAsset, true, [(false, 546317467), (true, 4074955334), (true, 3397667833)], false, false⟩,
  ⟨.send, some .pool, some .lendOwner, .cAsset, true, [(false, 546317467), (true, 4074955334), (false, 3397667833)], false, false⟩,
  ⟨.send, some .signer, some .pool, .cAsset, false, [(false, 546317467), (true, 1510044218)], false, false⟩,
  ⟨.burn, some .pool, none, .cAsset, false, [(false, 546317467), (true, 1510044218)], false, false⟩,
  ⟨.send, some .pool, some .signer, .msgCoin, false, [(false, 546317467), (true, 1510044218)], false, false⟩,
  ⟨.send, some .signer, some .pool, .cAsset, false, [(false, 546317467), (false, 1510044218)], false, false⟩,
  ⟨.burn, some .pool, none, .cAsset, false, [(false, 546317467), (false, 1510044218)], false, false⟩,
  ⟨.send, some .pool, some .signer, .msgCoin, false, [(false, 546317467), (false, 1510044218)], false, false⟩]

def exp_Deposit : List LPin := [
  ⟨.send, some .reserve, some .pool, .asset, true, [(true, 4074955334), (true, 3397667833)], false, false⟩,
  ⟨.mint, none, some .pool, .cAsset, true, [(true, 4074955334), (true, 3397667833)], false, false⟩,
  ⟨.send, some .pool, some .lendOwner, .cAsset, true, [(true, 4074955334), (true, 3397667833)], false, false⟩,
  ⟨.send, some .pool, some .lendOwner, .cAsset, true, [(true, 4074955334), (false, 3397667833)], false, false⟩,
  ⟨.send, some .signer, some .pool, .msgCoin, false, [], false, false⟩,
  ⟨.mint, none, some .pool, .cAsset, false, [], false, false⟩,
  ⟨.send, some .pool, some .signer, .cAsset, false, [], false, false⟩]

def exp_CloseLend : List LPin := [
  ⟨.send, some .reserve, some .pool, .asset, true, [(true, 4074955334), (true, 3397667833)], false, false⟩,
  ⟨.mint, none, some .pool, .cAsset, true, [(true, 4074955334), (true, 3397667833)], false, false⟩,
  ⟨.send, some .pool, some .lendOwner, .cAsset, true, [(true, 4074955334), (true, 3397667833)], false, false⟩,
  ⟨.send, some .pool, some .lendOwner, .cAsset, true, [(true, 4074955334), (false, 3397667833)], false, false⟩,
  ⟨.send, some .signer, some .pool, .cAsset, false, [], false, false⟩,
  ⟨.burn, some .pool, none, .cAsset, false, [], false, false⟩,
  ⟨.send, some .pool, some .signer, .posCoin, false, [], false, false⟩]

def exp_Borrow : List LPin := [
  ⟨.send, some .signer, some .pool, .msgCoin, false, [(true, 65846717), (true, 2039287544)], false, false⟩,
  ⟨.send, some .signer, some .pool, .msgCoin, false, [(true, 65846717), (false, 2039287544), (true, 2951588834)], false, false⟩,
  ⟨.send, some .pool, some .outPool, .asset, false, [(true, 65846717), (false, 2039287544), (true, 2951588834)], false, false⟩,
  ⟨.send, some .signer, some .pool, .msgCoin, false, [(true, 65846717), (false, 2039287544), (false, 2951588834), (true, 2940275843)], false, false⟩,
  ⟨.send, some .pool, some .outPool, .asset, false, [(true, 65846717), (false, 2039287544), (false, 2951588834), (true, 2940275843)], false, false⟩,
  ⟨.send, some .outPool, some .signer, .msgCoin, false, [(true, 65846717)], false, false⟩,
  ⟨.send, some .signer, some .pool, .msgCoin, false, [(false, 65846717), (true, 245005271)], false, false⟩,
  ⟨.send, some .outPool, some .signer, .msgCoin, false, [(false, 65846717), (true, 245005271)], false, false⟩,
  ⟨.send, some .signer, some .pool, .msgCoin, false, [(false, 65846717), (false, 245005271), (true, 571477843)], false, false⟩,
  ⟨.send, some .pool, some .outPool, .asset, false, [(false, 65846717), (false, 245005271), (true, 571477843)], false, false⟩,
  ⟨.send, some .outPool, some .signer, .msgCoin, false, [(false, 65846717), (false, 245005271), (true, 571477843)], false, false⟩,
  ⟨.send, some .signer, some .pool, .msgCoin, false, [(false, 65846717), (false, 245005271), (false, 571477843), (true, 571477843)], false, false⟩,
  ⟨.send, some .pool, some .outPool, .asset, false, [(false, 65846717), (false, 245005271), (false, 571477843), (true, 571477843)], false, false⟩,
  ⟨.send, some .outPool, some .signer, .msgCoin, false, [(false, 65846717), (false, 245005271), (false, 571477843), (true, 571477843)], false, false⟩]

def exp_Repay : List LPin := [
  ⟨.send, some .signer, some .outPool, .assetOut, false, [(true, 3819222389)], false, false⟩,
  ⟨.send, some .pool, some .lendOwner, .posCoin, false, [(true, 3819222389)], false, false⟩,
  ⟨.send, some .outPool, some .reserve, .assetOut, true, [(true, 3819222389), (true, 1035222583), (true, 1303515621)], false, false⟩,
  ⟨.send, some .reserve, some .outPool, .assetOut, true, [(true, 3819222389), (true, 1035222583), (false, 1303515621)], false, false⟩,
  ⟨.mint, none, some .outPool, .cAsset, true, [(true, 3819222389), (true, 1108715873)], false, false⟩,
  ⟨.send, some .outPool, some .pool, .posCoin, false, [(true, 3819222389), (true, 2707716491)], false, false⟩,
  ⟨.send, some .signer, some .outPool, .msgCoin, false, [(false, 3819222389), (true, 1048479006)], false, false⟩,
  ⟨.send, some .outPool, some .reserve, .msgCoin, false, [(false, 3819222389), (true, 1048479006), (true, 1303515621)], false, false⟩,
  ⟨.send, some .reserve, some .outPool, .msgCoin, false, [(false, 3819222389), (true, 1048479006), (false, 1303515621)], false, false⟩,
  ⟨.send, some .signer, some .outPool, .msgCoin, false, [(false, 3819222389), (false, 1048479006), (true, 3499363615)], false, false⟩,
  ⟨.send, some .outPool, some .reserve, .msgCoin, false, [(false, 3819222389), (false, 1048479006), (true, 3499363615), (true, 1303515621)], false, false⟩,
  ⟨.send, some .reserve, some .outPool, .msgCoin, false, [(false, 3819222389), (false, 1048479006), (true, 3499363615), (false, 1303515621)], false, false⟩,
  ⟨.mint, none, some .outPool, .cAsset, true, [(false, 3819222389), (false, 1048479006), (true, 3499363615), (true, 923073885)], false, false⟩,
  ⟨.send, some .signer, some .outPool, .msgCoin, false, [(false, 3819222389), (false, 1048479006), (false, 3499363615)], false, false⟩,
  ⟨.send, some .outPool, some .reserve, .msgCoin, false, [(false, 3819222389), (false, 1048479006), (false, 3499363615), (true, 1303515621)], false, false⟩,
  ⟨.send, some .reserve, some .outPool, .msgCoin, false, [(false, 3819222389), (false, 1048479006), (false, 3499363615), (false, 1303515621)], false, false⟩,
  ⟨.mint, none, some .outPool, .cAsset, true, [(false, 3819222389), (false, 1048479006), (false, 3499363615), (true, 3378415376)], false, false⟩]

def exp_DepositBorrow : List LPin := [
  ⟨.send, some .signer, some .pool, .msgCoin, false, [(true, 3563383436)], false, false⟩,
  ⟨.send, some .signer, some .pool, .msgCoin, false, [(false, 3563383436), (true, 834123723)], false, false⟩,
  ⟨.send, some .pool, some .outPool, .asset, false, [(false, 3563383436), (true, 834123723)], false, false⟩,
  ⟨.send, some .signer, some .pool, .msgCoin, false, [(false, 3563383436), (false, 834123723), (true, 2625736130)], false, false⟩,
  ⟨.send, some .pool, some .outPool, .asset, false, [(false, 3563383436), (false, 834123723), (true, 2625736130)], false, false⟩]

def exp_Draw : List LPin := [
  ⟨.send, some .outPool, some .signer, .msgCoin, false, [], false, false⟩]

def exp_CloseBorrow : List LPin := [
  ⟨.send, some .signer, some .outPool, .assetOut, false, [], false, false⟩,
  ⟨.send, some .pool, some .lendOwner, .posCoin, false, [], false, false⟩,
  ⟨.send, some .outPool, some .reserve, .assetOut, true, [(true, 1035222583), (true, 1303515621)], false, false⟩,
  ⟨.send, some .reserve, some .outPool, .assetOut, true, [(true, 1035222583), (false, 1303515621)], false, false⟩,
  ⟨.mint, none, some .outPool, .cAsset, true, [(true, 1108715873)], false, false⟩,
  ⟨.send, some .outPool, some .pool, .posCoin, false, [(true, 2707716491)], false, false⟩]

def exp_BorrowAlternate : List LPin := [
  ⟨.send, some .reserve, some .pool, .asset, false, [(true, 869575135), (true, 996767492), (true, 996767492)], false, false⟩,
  ⟨.mint, none, some .pool, .cAsset, false, [(true, 869575135), (true, 996767492), (true, 996767492)], false, false⟩,
  ⟨.send, some .pool, some .lendOwner, .cAsset, false, [(true, 869575135), (true, 996767492), (true, 996767492)], false, false⟩,
  ⟨.send, some .pool, some .lendOwner, .cAsset, false, [(true, 869575135), (true, 996767492), (false, 996767492)], false, false⟩,
  ⟨.send, some .signer, some .pool, .msgCoin, false, [(true, 869575135)], false, false⟩,
  ⟨.mint, none, some .pool, .cAsset, false, [(true, 869575135)], false, false⟩,
  ⟨.send, some .pool, some .signer, .cAsset, false, [(true, 869575135)], false, false⟩,
  ⟨.send, some .signer, some .pool, .cAsset, false, [(true, 869575135), (true, 454575357), (true, 3841182008)], false, false⟩,
  ⟨.send, some .signer, some .pool, .cAsset, false, [(true, 869575135), (true, 454575357), (false, 3841182008), (true, 592850414)], false, false⟩,
  ⟨.send, some .pool, some .outPool, .asset, false, [(true, 869575135), (true, 454575357), (false, 3841182008), (true, 592850414)], false, false⟩,
  ⟨.send, some .signer, some .pool, .cAsset, false, [(true, 869575135), (true, 454575357), (false, 3841182008), (false, 592850414), (true, 4007953295)], false, false⟩,
  ⟨.send, some .pool, some .outPool, .asset, false, [(true, 869575135), (true, 454575357), (false, 3841182008), (false, 592850414), (true, 4007953295)], false, false⟩,
  ⟨.send, some .outPool, some .signer, .msgCoin, false, [(true, 869575135), (true, 454575357)], false, false⟩,
  ⟨.send, some .signer, some .pool, .cAsset, false, [(true, 869575135), (false, 454575357), (true, 245005271)], false, false⟩,
  ⟨.send, some .outPool, some .signer, .msgCoin, false, [(true, 869575135), (false, 454575357), (true, 245005271)], false, false⟩,
  ⟨.send, some .signer, some .pool, .cAsset, false, [(true, 869575135), (false, 454575357), (false, 245005271), (true, 1826140649)], false, false⟩,
  ⟨.send, some .pool, some .outPool, .asset, false, [(true, 869575135), (false, 454575357), (false, 245005271), (true, 1826140649)], false, false⟩,
  ⟨.send, some .outPool, some .signer, .msgCoin, false, [(true, 869575135), (false, 454575357), (false, 245005271), (true, 1826140649)], false, false⟩,
  ⟨.send, some .signer, some .pool, .cAsset, false, [(true, 869575135), (false, 454575357), (false, 245005271), (false, 1826140649), (true, 1826140649)], false, false⟩,
  ⟨.send, some .pool, some .outPool, .asset, false, [(true, 869575135), (false, 454575357), (false, 245005271), (false, 1826140649), (true, 1826140649)], false, false⟩,
  ⟨.send, some .outPool, some .signer, .msgCoin, false, [(true, 869575135), (false, 454575357), (false, 245005271), (false, 1826140649), (true, 1826140649)], false, false⟩,
  ⟨.send, some .signer, some .pool, .msgCoin, false, [(false, 869575135)], false, false⟩,
  ⟨.mint, none, some .pool, .cAsset, false, [(false, 869575135)], false, false⟩,
  ⟨.send, some .pool, some .signer, .cAsset, false, [(false, 869575135)], false, false⟩,
  ⟨.send, some .signer, some .pool, .cAsset, false, [(false, 869575135), (true, 454575357), (true, 3841182008)], false, false⟩,
  ⟨.send, some .signer, some .pool, .cAsset, false, [(false, 869575135), (true, 454575357), (false, 3841182008), (true, 592850414)], false, false⟩,
  ⟨.send, some .pool, some .outPool, .asset, false, [(false, 869575135), (true, 454575357), (false, 3841182008), (true, 592850414)], false, false⟩,
  ⟨.send, some .signer, some .pool, .cAsset, false, [(false, 869575135), (true, 454575357), (false, 3841182008), (false, 592850414), (true, 4007953295)], false, false⟩,
  ⟨.send, some .pool, some .outPool, .asset, false, [(false, 869575135), (true, 454575357), (false, 3841182008), (false, 592850414), (true, 4007953295)], false, false⟩,
  ⟨.send, some .outPool, some .signer, .msgCoin, false, [(false, 869575135), (true, 454575357)], false, false⟩,
  ⟨.send, some .signer, some .pool, .cAsset, false, [(false, 869575135), (false, 454575357), (true, 245005271)], false, false⟩,
  ⟨.send, some .outPool, some .signer, .msgCoin, false, [(false, 869575135), (false, 454575357), (true, 245005271)], false, false⟩,
  ⟨.send, some .signer, some .pool, .cAsset, false, [(false, 869575135), (false, 454575357), (false, 245005271), (true, 3309566615)], false, false⟩,
  ⟨.send, some .pool, some .outPool, .asset, false, [(false, 869575135), (false, 454575357), (false, 245005271), (true, 3309566615)], false, false⟩,
  ⟨.send, some .outPool, some .signer, .msgCoin, false, [(false, 869575135), (false, 454575357), (false, 245005271), (true, 3309566615)], false, false⟩,
  ⟨.send, some .signer, some .pool, .cAsset, false, [(false, 869575135), (false, 454575357), (false, 245005271), (false, 3309566615), (true, 3309566615)], false, false⟩,
  ⟨.send, some .pool, some .outPool, .asset, false, [(false, 869575135), (false, 454575357), (false, 245005271), (false, 3309566615), (true, 3309566615)], false, false⟩,
  ⟨.send, some .outPool, some .signer, .msgCoin, false, [(false, 869575135), (false, 454575357), (false, 245005271), (false, 3309566615), (true, 3309566615)], false, false⟩]

def exp_FundModuleAccounts : List LPin := [
  ⟨.send, some .signer, some .pool, .msgCoin, false, [], false, false⟩,
  ⟨.mint, none, some .pool, .cAsset, false, [], false, false⟩]

def exp_CalculateInterestAndRewards : List LPin := [
  ⟨.send, some .reserve, some .pool, .asset, true, [(true, 3070912315), (true, 397767742), (true, 2909833665)], true, false⟩,
  ⟨.mint, none, some .pool, .cAsset, true, [(true, 3070912315), (true, 397767742), (true, 2909833665)], true, false⟩,
  ⟨.send, some .pool, some .lendOwner, .cAsset, true, [(true, 3070912315), (true, 397767742), (true, 2909833665)], true, false⟩,
  ⟨.send, some .pool, some .lendOwner, .cAsset, true, [(true, 3070912315), (true, 397767742), (false, 2909833665)], true, false⟩]

def exp_FundReserveAccounts : List LPin := [
  ⟨.send, some .signer, some .reserve, .msgCoin, false, [], false, false⟩,
  ⟨.send, some .reserve, some .cmdx, .auctionCoin, false, [(true, 3671374226)], true, false⟩,
  ⟨.send, some .auction, some .reserve, .auctionCoin, false, [(true, 3671374226), (false, 2661081923)], true, false⟩]

def exp_RepayWithdraw : List LPin := [
  ⟨.send, some .signer, some .outPool, .assetOut, false, [], false, false⟩,
  ⟨.send, some .pool, some .lendOwner, .posCoin, false, [], false, false⟩,
  ⟨.send, some .outPool, some .reserve, .assetOut, true, [(true, 1035222583), (true, 1303515621)], false, false⟩,
  ⟨.send, some .reserve, some .outPool, .assetOut, true, [(true, 1035222583), (false, 1303515621)], false, false⟩,
  ⟨.mint, none, some .outPool, .cAsset, true, [(true, 1108715873)], false, false⟩,
  ⟨.send, some .outPool, some .pool, .posCoin, false, [(true, 2707716491)], false, false⟩,
  ⟨.send, some .reserve, some .pool, .asset, true, [(true, 3330531126), (true, 680418592), (true, 1435774798)], false, false⟩,
  ⟨.mint, none, some .pool, .cAsset, true, [(true, 3330531126), (true, 680418592), (true, 1435774798)], false, false⟩,
  ⟨.send, some .pool, some .lendOwner, .cAsset, true, [(true, 3330531126), (true, 680418592), (true, 1435774798)], false, false⟩,
  ⟨.send, some .pool, some .lendOwner, .cAsset, true, [(true, 3330531126), (true, 680418592), (false, 1435774798)], false, false⟩,
  ⟨.send, some .signer, some .pool, .cAsset, false, [(true, 3330531126)], false, false⟩,
  ⟨.burn, some .pool, none, .cAsset, false, [(true, 3330531126)], false, false⟩,
  ⟨.send, some .pool, some .signer, .posCoin, false, [(true, 3330531126)], false, false⟩,
  ⟨.send, some .reserve, some .pool, .asset, true, [(false, 3330531126), (true, 680418592), (true, 1435774798)], false, false⟩,
  ⟨.mint, none, some .pool, .cAsset, true, [(false, 3330531126), (true, 680418592), (true, 1435774798)], false, false⟩,
  ⟨.send, some .pool, some .lendOwner, .cAsset, true, [(false, 3330531126), (true, 680418592), (true, 1435774798)], false, false⟩,
  ⟨.send, some .pool, some .lendOwner, .cAsset, true, [(false, 3330531126), (true, 680418592), (false, 1435774798)], false, false⟩,
  ⟨.send, some .signer, some .pool, .cAsset, false, [(false, 3330531126), (true, 2135521789)], false, false⟩,
  ⟨.burn, some .pool, none, .cAsset, false, [(false, 3330531126), (true, 2135521789)], false, false⟩,
  ⟨.send, some .pool, some .signer, .posCoin, false, [(false, 3330531126), (true, 2135521789)], false, false⟩,
  ⟨.send, some .signer, some .pool, .cAsset, false, [(false, 3330531126), (false, 2135521789)], false, false⟩,
  ⟨.burn, some .pool, none, .cAsset, false, [(false, 3330531126), (false, 2135521789)], false, false⟩,
  ⟨.send, some .pool, some .signer, .posCoin, false, [(false, 3330531126), (false, 2135521789)], false, false⟩]

/-- the pairs (regenerated, reviewed) -/
def lendPairs : List (String × Option (List LPin) × List LPin) := [
  ("Lend", rpins lendRoles h_lend_Lend, exp_Lend),
  ("Withdraw", rpins lendRoles h_lend_Withdraw, exp_Withdraw),
  ("Deposit", rpins lendRoles h_lend_Deposit, exp_Deposit),
  ("CloseLend", rpins lendRoles h_lend_CloseLend, exp_CloseLend),
  ("Borrow", rpins lendRoles h_lend_Borrow, exp_Borrow),
  ("Repay", rpins lendRoles h_lend_Repay, exp_Repay),
  ("DepositBorrow", rpins lendRoles h_lend_DepositBorrow, exp_DepositBorrow),
  ("Draw", rpins lendRoles h_lend_Draw, exp_Draw),
  ("CloseBorrow", rpins lendRoles h_lend_CloseBorrow, exp_CloseBorrow),
  ("BorrowAlternate", rpins lendRoles h_lend_BorrowAlternate, exp_BorrowAlternate),
  ("FundModuleAccounts", rpins lendRoles h_lend_FundModuleAccounts, exp_FundModuleAccounts),
  ("CalculateInterestAndRewards", rpins lendRoles h_lend_CalculateInterestAndRewards, exp_CalculateInterestAndRewards),
  ("FundReserveAccounts", rpins lendRoles h_lend_FundReserveAccounts, exp_FundReserveAccounts),
  ("RepayWithdraw", rpins lendRoles h_lend_RepayWithdraw, exp_RepayWithdraw)]

/-- **Golden skeleton of the fourteen lend messages** (one kernel evaluation of the regenerated table): the names of the
messages whose regenerated skeleton differs from the reviewed literal — none -/
theorem lend_pins : (lendPairs.filter fun p => p.2.1 != some p.2.2).map (·.1) = [] := by
  decide +kernel

/-- shape of the table; every bank call has a kind, parties and a denomination the role table knows; the opaque items -/
theorem lend_table :
    handlers_lend.map (fun h => (h.name, (bankItems h).length)) =
      [("Lend", 10), ("Withdraw", 17), ("Deposit", 7), ("CloseLend", 7), ("Borrow", 14), ("Repay", 17), ("DepositBorrow", 5),
       ("Draw", 1), ("CloseBorrow", 6), ("BorrowAlternate", 38), ("FundModuleAccounts", 2), ("CalculateInterestAndRewards", 4),
       ("FundReserveAccounts", 3), ("RepayWithdraw", 23)] ∧
    (∀ h ∈ handlers_lend, allBankClassified lendRoles h = true ∧ unknownBankOps h = []) ∧
    (handlers_lend.filter fun h => opaqueCalls h != []).map (·.name) = ["Borrow", "BorrowAlternate"] := by
  decide +kernel

/-! ## non-vacuity -/

example : exp_Draw = [⟨.send, some .outPool, some .signer, .msgCoin, false, [], false, false⟩] := rfl
example : exp_Lend.length = 10 ∧ exp_BorrowAlternate.length = 38 := by decide
example : lendRoles.acct "addr(msg.Lender)" = some .signer ∧ lendRoles.acct "somebody" = none := by decide +kernel

end Comdex.C08
