import Comdex.Lemmas.Gauge
/-!
# C19 — Incentive payouts never exceed their funding and follow farmed share

Property clause → theorem (all kernel-checked, quantified over ALL totals / epoch counts / histories / farmed values)

* "a gauge's per-epoch allocations sum exactly to its deposit"
    → `split_sums_to_total` (guard `1 ≤ epochs ≤ total`, the guard `MsgCreateGauge` enforces apart from `epochs = 0`),
      `split_lengths`, `split_each_within_one`, `split_remainder_on_last_epochs`, `split_zero_epochs_panics` (pure function),
      `accepted_gauge_split_sums` / `every_gauge_split_sums`: the guard is what `MsgCreateGauge.ValidateBasic` enforces
      (zero epochs refused since repo commit 295205b), so the clause holds for every gauge that can exist.
* "each epoch pays out at most that epoch's allocation"
    → `epoch_pays_le_allocation` (record), `epoch_outflow_le_allocation` (coins leaving the module account)
* "the cumulative amount paid never exceeds the deposit"
    → `cumulative_le_deposit` (induction over any list of trigger attempts: any block times — early, late, after
      skipped epochs —, any distribution data, panics rolled back), `epoch_clock_skips_are_not_repaid`
* "no farmer's payout exceeds its pro-rata share … by more than one part in 10^12 (floating-point rounding)"
    → `farmer_share_le_prorata`: for every Dec→float conversion with relative error ≤ 2⁻⁵³ (`FloatUpper`, an explicit
      hypothesis; `f64_satisfies_float_hypothesis` shows the exact round-to-nearest-even conversion satisfies it, the
      harness TESTS that Go's `MustFloat64` is that conversion)
        payout ≤ (1 + 2⁻⁵³) · ( alloc·s/S  +  (s + 1)·½·10⁻¹⁸ )          (s, S in value units)
      `farmer_share_le_prorata_1e12_partial`: the literal 10⁻¹² bound under `s ≥ 1` and `S ≤ 999000 · alloc`;
      `farmer_share_1e12_counterexample`: the literal clause is FALSE of the code in general — the 18-digit rounding of
      `multiplier = alloc/S` is amplified by `s` (alloc 4·10⁶, S 6·10¹³, s 6·10¹¹−2 ⇒ paid 40000 > 39999.99999986…,
      3.3·10⁻¹² above pro rata; the excess is always below one base unit and inside the epoch allocation).
      `master_share_le_prorata`: the same bound in master-pool mode on min(master, child) values;
      `master_child_share_le_prorata` / `plain_share_le_prorata_from_positions`: the same from the farmed POSITIONS
      (amount, price, decimals per farmer and pool), weight = min(master value, Σ child-pool values)
      (`weight_is_min_of_master_and_child_sum`).
* "the rewards custody account always holds at least the undistributed remainder of all active gauges and external
   reward programs"
    → `custody_ge_remaining` (ledger invariant over create-gauge / create-programme / donations / begin blockers made of
      gauge triggers, programme payouts, deactivations, with panicking blocks rolled back),
      `custody_ge_active_remaining` (sum over ACTIVE gauges and programmes, under the explicit hypothesis that no
      programme's `AvailableRewards` is negative — the code has no such guard, the monitor `custody` tests it),
      `farmers_receive_calculated` (under the invariant no reward send can fail for lack of funds);
      `ext_overpay_counterexample`: the hypothesis FAILS on the real code (locker programme, 18-decimal amounts): the
      programme pays 18 base units more than it has and the module account falls below a gauge's remainder.
-/
namespace Comdex.C19
open Comdex Comdex.Gauge

/-! ## Split -/

/-- **Allocations sum to the deposit** for every deposit and every positive number of epochs not above it. -/
theorem split_sums_to_total (total epochs : Nat) (h1 : 1 ≤ epochs) (h2 : epochs ≤ total) :
    ∃ l, split total epochs = .ok l ∧ l.sum = total := by
  refine ⟨_, split_ok total epochs h1 h2, ?_⟩
  exact prefixSum_total total epochs h1

example : split 150 11 = .ok [13, 13, 13, 13, 14, 14, 14, 14, 14, 14, 14] := by decide
example : ∃ l, split 150 11 = .ok l ∧ l.sum = 150 := split_sums_to_total 150 11 (by decide) (by decide)

/-- one allocation per epoch; a total smaller than the epoch count gives NO allocations (the caller then skips). -/
theorem split_lengths (total epochs : Nat) (l : List Nat) (h : split total epochs = .ok l) :
    (epochs ≤ total → l.length = epochs) ∧ (total < epochs → l = []) := by
  unfold split at h
  split at h
  · injection h with h; subst h; exact ⟨fun h' => by omega, fun _ => rfl⟩
  · split at h
    · cases h
    · injection h with h; subst h; exact ⟨fun _ => by simp, fun h' => by omega⟩

/-- every allocation is `⌊total/epochs⌋` or one more -/
theorem split_each_within_one (total epochs : Nat) (l : List Nat) (h : split total epochs = .ok l) :
    ∀ x ∈ l, total / epochs ≤ x ∧ x ≤ total / epochs + 1 := by
  intro x hx
  obtain ⟨i, hi⟩ := List.getElem?_of_mem hx
  obtain ⟨_, rfl⟩ := split_get total epochs l h i x hi
  unfold splitAt
  split_ifs <;> omega

/-- the remainder is spread over the LAST epochs: allocations never decrease -/
theorem split_remainder_on_last_epochs (total epochs : Nat) (l : List Nat) (h : split total epochs = .ok l)
    (i j : Nat) (a b : Nat) (hij : i ≤ j) (hi : l[i]? = some a) (hj : l[j]? = some b) : a ≤ b := by
  obtain ⟨_, rfl⟩ := split_get total epochs l h i a hi
  obtain ⟨_, rfl⟩ := split_get total epochs l h j b hj
  unfold splitAt
  split_ifs <;> omega

/-- `SplitTotalAmountPerEpoch(total, 0)` is a Go run-time panic for every total -/
theorem split_zero_epochs_panics (total : Nat) : split total 0 = .error "integer divide by zero" := by
  unfold split
  rw [if_neg (by omega), if_pos rfl]

/-- **Every accepted gauge has a proper split**: the guards of `MsgCreateGauge` (ValidateBasic refuses
`TotalTriggers = 0` and `deposit < TotalTriggers`) put every accepted gauge inside the hypothesis of
`split_sums_to_total`, so its per-epoch allocations sum exactly to its deposit. -/
theorem accepted_gauge_split_sums (deposit : Int) (total : Nat) (start now dur minDur : Int) (aux : Bool)
    (h : createGuard deposit total start now dur minDur aux = true) :
    1 ≤ total ∧ ∃ l, split deposit.toNat total = .ok l ∧ l.sum = deposit.toNat ∧ l.length = total := by
  simp only [createGuard, Bool.and_eq_true, decide_eq_true_eq] at h
  have h1 : 1 ≤ total := by omega
  have h2 : total ≤ deposit.toNat := by omega
  obtain ⟨l, hl, hs⟩ := split_sums_to_total deposit.toNat total h1 h2
  exact ⟨h1, l, hl, hs, (split_lengths _ _ l hl).1 h2⟩

/-- the same for every gauge that exists in the ledger after ANY history: epochs ≥ 1, deposit ≥ epochs, and the
allocations of its (never changing) deposit sum to it -/
theorem every_gauge_split_sums (ops : List Op) (l : Ledger) (hl : l = run Ledger.empty ops) :
    ∀ g ∈ l.gauges, 1 ≤ g.total ∧ (g.total : Int) ≤ g.deposit ∧
      ∃ sp, split g.deposit.toNat g.total = .ok sp ∧ sp.sum = g.deposit.toNat := by
  subst hl
  intro g hg
  obtain ⟨h1, h2⟩ := run_acc Ledger.empty ops (by intro g hg; simp [Ledger.empty] at hg) g hg
  exact ⟨h1, h2, split_sums_to_total g.deposit.toNat g.total h1 (by omega)⟩

-- a zero-epoch gauge and a gauge with fewer units than epochs are refused; a proper one is accepted
example : createGuard 7 0 0 0 86400000000000 43200000000000 true = false := by decide
example : createGuard 7 8 0 0 86400000000000 43200000000000 true = false := by decide
example : createGuard 7 7 0 0 86400000000000 43200000000000 true = true := by decide

/-! ## One epoch -/

/-- **Each epoch pays at most that epoch's allocation**: whatever `trigger` stores and hands to the bank,
the recorded increase equals the sum handed out, every coin is non-negative, and either nothing is paid or the
sum is within `split(deposit, total)[triggered]` which itself is within the undistributed remainder. -/
theorem epoch_pays_le_allocation (g g' : Gauge) (now : Int) (d : DistData) (sends : List Int)
    (h : trigger g now d = .ok (g', sends)) :
    g'.distributed - g.distributed = sumL sends ∧ (∀ x ∈ sends, 0 ≤ x) ∧
    (sends = [] ∨
      (g.triggered < g.total ∧ g'.triggered = g.triggered + 1 ∧
       sumL sends ≤ (splitAt g.deposit.toNat g.total g.triggered : Int) ∧
       (splitAt g.deposit.toNat g.total g.triggered : Int) ≤ g.deposit - g.distributed)) := by
  rcases trigger_cases g g' now d sends h with ⟨rfl, _, h2, _⟩ | ⟨a, ha, _, hnn, hsum, hcap, rfl⟩
  · exact ⟨by simp [sumL, h2], by simp, Or.inl rfl⟩
  · obtain ⟨a1, a2, _⟩ := allocation_some g a ha
    refine ⟨by simp, hnn, Or.inr ⟨a1, rfl, by omega, by omega⟩⟩

/-- the same at the bank: the module account's outflow in one gauge trigger is at most the allocation -/
theorem epoch_outflow_le_allocation (l l' : Ledger) (i : Nat) (now : Int) (d : DistData) (g : Gauge)
    (hg : l.gauges[i]? = some g) (h : stepB l (.trigger i now d) = .ok l') :
    l'.bal ≤ l.bal ∧
    (l'.bal = l.bal ∨ l.bal - l'.bal ≤ (splitAt g.deposit.toNat g.total g.triggered : Int)) := by
  simp only [stepB, hg] at h
  split at h
  · cases h
  · rename_i g' sends ht
    injection h with h; subst h
    obtain ⟨_, hnn, hc⟩ := epoch_pays_le_allocation g g' now d sends ht
    have hb := sendAll_bounds sends hnn l.bal
    refine ⟨hb.2, ?_⟩
    rcases hc with rfl | ⟨_, _, hs, _⟩
    · left; simp [sendAll]
    · right; simp only; omega

example : trigger (newGauge 1000 3 0) 5 (.ok [300, 33]) =
    .ok ({ newGauge 1000 3 0 with triggered := 1, distributed := 333 }, [300, 33]) := by decide
-- a calculated total above the allocation (333) is refused and the epoch is not counted
example : trigger (newGauge 1000 3 0) 5 (.ok [300, 34]) = .ok (newGauge 1000 3 0, []) := by decide

/-! ## All epochs -/

/-- **Cumulative paid never exceeds the deposit**: for every deposit, epoch count, start time and every finite
history of trigger attempts (arbitrary block times, arbitrary distribution data incl. errors and panics), the
recorded distributed amount stays within the allocations of the epochs triggered so far, hence within the
deposit; the deposit itself never changes and at most `total` epochs are ever counted. -/
theorem cumulative_le_deposit (deposit : Int) (total : Nat) (start : Int) (hist : List (Int × DistData))
    (hd : 0 ≤ deposit) (g : Gauge) (hg : g = runGauge (newGauge deposit total start) hist) :
    0 ≤ g.distributed ∧
    g.distributed ≤ (prefixSum deposit.toNat total g.triggered : Int) ∧
    g.distributed ≤ deposit ∧ g.deposit = deposit ∧ g.triggered ≤ total := by
  obtain ⟨hinv, hdep⟩ := runGauge_inv (newGauge deposit total start) hist (newGauge_inv deposit total start hd)
  have ht : g.total = total := by rw [hg, runGauge_total]; rfl
  rw [← hg] at hinv hdep
  have hdep' : g.deposit = deposit := hdep
  have hle := GInv_le_deposit _ hinv
  obtain ⟨h1, h2, _, h4⟩ := hinv
  rw [hdep', ht] at h4
  exact ⟨h1, h4, by omega, hdep', by omega⟩

example : (runGauge (newGauge 10 3 0) [(1, .ok [3]), (2, .err), (9, .ok [2, 1]), (9, .ok [9]), (20, .ok [4]), (21, .ok [1])]).distributed = 10 := by
  decide

/-- skipped epochs: after a gap of more than two durations the clock only moves forward; no gauge is triggered
in that block, so the skipped epochs' allocations are not paid later in a burst -/
theorem epoch_clock_skips_are_not_repaid (e : Epoch) (now : Int) (hf : e.fresh = false)
    (hgap : e.cur + e.dur * 2 < now) : (epochStep e now).2 = false := by
  unfold epochStep
  rw [if_neg (by simp [hf]), if_pos hgap]

/-- and a block triggers a duration's gauges at most once -/
theorem epoch_clock_one_trigger_per_block (e : Epoch) (now : Int) :
    (epochStep e now).2 = true → (epochStep e now).1.count = e.count + 1 ∧ (epochStep e now).1.cur = e.cur + e.dur := by
  unfold epochStep
  split_ifs <;> simp

/-! ## Farmer shares -/

/-- one payout per active farmer (or none at all when the total farmed value is zero) -/
theorem farmer_share_lengths (conv : Int → Int × Int) (a : Int) (lp rs : List Int)
    (h : sharesPlain conv a lp = .ok rs) :
    rs.length = lp.length ∨ rs = [] ∧ sumL lp = 0 := by
  unfold sharesPlain at h
  simp only at h
  split at h
  · injection h with h; right; exact ⟨h.symm, by assumption⟩
  · left; exact (mapE_get _ _ _ h).1

/-- **Farmer share (explicit bound)**: for every conversion `conv` with upward relative error ≤ 2⁻⁵³, every
allocation `a ≥ 0`, every list of farmed values `lp` (raw 10⁻¹⁸ units, non-negative, positive total `S`), the
`i`-th payout `r` satisfies, with `s` the `i`-th value and `P = 10¹⁸`,
  `r · 2⁵³ · 2P²S ≤ (2⁵³+1) · (2·a·s·P² + (s + P)·S)`,   i.e.   `r ≤ (1+2⁻⁵³)·(a·s/S + (s/P + 1)/(2P))`. -/
theorem farmer_share_le_prorata (conv : Int → Int × Int) (hc : FloatUpper conv) (a : Int) (lp rs : List Int)
    (ha : 0 ≤ a) (hnn : ∀ s ∈ lp, 0 ≤ s) (h : sharesPlain conv a lp = .ok rs)
    (i : Nat) (s r : Int) (hs : lp[i]? = some s) (hr : rs[i]? = some r) :
    r * TWO53 * (2 * Dec.P * Dec.P * sumL lp) ≤ (TWO53 + 1) * (2 * a * s * Dec.P * Dec.P + (s + Dec.P) * sumL lp) := by
  unfold sharesPlain at h
  simp only at h
  split at h
  · injection h with h; subst h; simp at hr
  · rename_i hS
    obtain ⟨_, hg⟩ := mapE_get _ _ _ h
    obtain ⟨r', hr', hf⟩ := hg i s hs
    rw [hr] at hr'; injection hr' with hr'; subst hr'
    have hs0 : 0 ≤ s := hnn s (List.mem_of_getElem? hs)
    have hSpos : 0 < sumL lp := by
      have := sumL_nonneg lp hnn
      omega
    unfold rewardOf at hf
    simp only at hf
    split at hf
    · cases hf
    · injection hf with hf; subst hf
      exact reward_bound conv hc a (sumL lp) s ha hSpos hs0

/-- **The literal 10⁻¹² clause, where it holds**: farmed value at least one value unit (`s ≥ 10¹⁸` raw, i.e. one
micro-dollar at the usual oracle scale) and total farmed value at most 999000 × the epoch allocation. -/
theorem farmer_share_le_prorata_1e12_partial (conv : Int → Int × Int) (hc : FloatUpper conv) (a : Int)
    (lp rs : List Int) (ha : 0 ≤ a) (hnn : ∀ s ∈ lp, 0 ≤ s) (h : sharesPlain conv a lp = .ok rs)
    (i : Nat) (s r : Int) (hs : lp[i]? = some s) (hr : rs[i]? = some r)
    (hs1 : Dec.P ≤ s) (hSA : sumL lp ≤ 999000 * a * Dec.P) :
    r * 1000000000000 * sumL lp ≤ 1000000000001 * a * s := by
  have hB := farmer_share_le_prorata conv hc a lp rs ha hnn h i s r hs hr
  have hSpos : 0 < sumL lp := by
    have h1 := sumL_nonneg_mem lp hnn s (List.mem_of_getElem? hs)
    have := P_pos
    omega
  exact reward_bound_1e12 r a (sumL lp) s ha hSpos hs1 hSA hB

/-- the hypothesis is satisfiable: the exact IEEE-754 round-to-nearest-even conversion has it -/
theorem f64_satisfies_float_hypothesis : FloatUpper f64 := f64_floatUpper

/-- **The literal 10⁻¹² clause is false of the code**: allocation 4 000 000, two farmers with farmed values
599 999 999 998 and 59 400 000 000 002 (total 6·10¹³).  `multiplier = 0.000000066666666667` (rounded up in the 18th
digit), the first farmer is paid 40000 although its pro-rata share is 39999.99999986…: 3.3·10⁻¹² above. -/
theorem farmer_share_1e12_counterexample :
    sharesPlain f64 4000000 [599999999998 * Dec.P, 59400000000002 * Dec.P] = .ok [40000, 3960000] ∧
    40000 * 1000000000000 * (60000000000000 * Dec.P) > 1000000000001 * 4000000 * (599999999998 * Dec.P) := by
  constructor
  · decide
  · decide

example : sharesPlain f64 10000000000 [2000000000 * Dec.P, 4000000000 * Dec.P, 6000000000 * Dec.P, 8000000000 * Dec.P]
    = .ok [1000000000, 2000000000, 3000000000, 4000000000] := by decide

/-- master-pool mode: the same bound with the eligible value `min(master, child)`; a zero eligible value gets
nothing -/
theorem master_share_le_prorata (conv : Int → Int × Int) (hc : FloatUpper conv) (a : Int) (lp child rs : List Int)
    (ha : 0 ≤ a) (hnn : ∀ s ∈ zipMin lp child, 0 ≤ s) (h : sharesMaster conv a lp child = .ok rs)
    (i : Nat) (s r : Int) (hs : (zipMin lp child)[i]? = some s) (hr : rs[i]? = some r) :
    r * TWO53 * (2 * Dec.P * Dec.P * sumL (zipMin lp child))
      ≤ (TWO53 + 1) * (2 * a * s * Dec.P * Dec.P + (s + Dec.P) * sumL (zipMin lp child)) := by
  unfold sharesMaster at h
  simp only at h
  split at h
  · injection h with h; subst h; simp at hr
  · rename_i hS
    obtain ⟨_, hg⟩ := mapE_get _ _ _ h
    obtain ⟨r', hr', hf⟩ := hg i s hs
    rw [hr] at hr'; injection hr' with hr'; subst hr'
    have hs0 : 0 ≤ s := hnn s (List.mem_of_getElem? hs)
    have hSpos : 0 < sumL (zipMin lp child) := by
      have := sumL_nonneg _ hnn
      omega
    have hP := P_pos
    split at hf
    · injection hf with hf; subst hf
      rename_i hz; subst hz
      have : 0 ≤ (TWO53 + 1) * (2 * a * 0 * Dec.P * Dec.P + (0 + Dec.P) * sumL (zipMin lp child)) := by
        have : (0:Int) ≤ TWO53 + 1 := by decide
        positivity
      simpa using this
    · unfold rewardOf at hf
      simp only at hf
      split at hf
      · cases hf
      · injection hf with hf; subst hf
        exact reward_bound conv hc a _ s ha hSpos hs0

/-- positions as the chain produces them: non-negative amounts, positive asset decimals -/
def FarmersOk (fs : List Farmer) : Prop :=
  ∀ f ∈ fs, (0 ≤ f.master.amt ∧ 0 < f.master.dec) ∧ ∀ p ∈ f.children, 0 ≤ p.amt ∧ 0 < p.dec

/-- the reward weight of a farmer in a master-pool gauge IS `min(master value, Σ over child pools of the value farmed
there)` — every child pool counts, none overwrites another -/
theorem weight_is_min_of_master_and_child_sum (f : Farmer) :
    weight f = (if posValue f.master ≤ sumL (f.children.map posValue) then posValue f.master
                else sumL (f.children.map posValue)) := rfl

/-- **Farmer share in master/child configurations, from the farmed positions**: for every set of farmers with
arbitrary positions in the master pool and in any number of child pools, every price and every allocation, the
`i`-th payout is within the rounding slack of `alloc · wᵢ / Σ w` where `w = min(master value, Σ child values)`. -/
theorem master_child_share_le_prorata (conv : Int → Int × Int) (hc : FloatUpper conv) (a : Int) (fs : List Farmer)
    (rs : List Int) (ha : 0 ≤ a) (hok : FarmersOk fs) (h : sharesFrom conv a true fs = .ok rs)
    (i : Nat) (f : Farmer) (r : Int) (hf : fs[i]? = some f) (hr : rs[i]? = some r) :
    r * TWO53 * (2 * Dec.P * Dec.P * sumL (fs.map weight))
      ≤ (TWO53 + 1) * (2 * a * weight f * Dec.P * Dec.P + (weight f + Dec.P) * sumL (fs.map weight)) := by
  unfold sharesFrom at h
  simp only [if_true] at h
  have hz := zipMin_map fs
  have hnn : ∀ s ∈ zipMin (fs.map (fun f => posValue f.master)) (fs.map (fun f => childValue f.children)), 0 ≤ s := by
    rw [hz]
    intro s hs
    obtain ⟨g, hg, rfl⟩ := List.mem_map.mp hs
    exact weight_nonneg g (hok g hg).1 (hok g hg).2
  have hs : (zipMin (fs.map (fun f => posValue f.master)) (fs.map (fun f => childValue f.children)))[i]? = some (weight f) := by
    rw [hz]; simp [hf]
  have := master_share_le_prorata conv hc a _ _ rs ha hnn h i (weight f) r hs hr
  rw [hz] at this
  exact this

/-- plain gauges (and master gauges without child pools): weight = value farmed in the gauge's pool -/
theorem plain_share_le_prorata_from_positions (conv : Int → Int × Int) (hc : FloatUpper conv) (a : Int) (fs : List Farmer)
    (rs : List Int) (ha : 0 ≤ a) (hok : FarmersOk fs) (h : sharesFrom conv a false fs = .ok rs)
    (i : Nat) (f : Farmer) (r : Int) (hf : fs[i]? = some f) (hr : rs[i]? = some r) :
    r * TWO53 * (2 * Dec.P * Dec.P * sumL (fs.map (fun f => posValue f.master)))
      ≤ (TWO53 + 1) * (2 * a * posValue f.master * Dec.P * Dec.P
          + (posValue f.master + Dec.P) * sumL (fs.map (fun f => posValue f.master))) := by
  unfold sharesFrom at h
  simp only [Bool.false_eq_true, if_false] at h
  have hnn : ∀ s ∈ fs.map (fun f => posValue f.master), 0 ≤ s := by
    intro s hs
    obtain ⟨g, hg, rfl⟩ := List.mem_map.mp hs
    exact posValue_nonneg _ (hok g hg).1.1 (hok g hg).1.2
  exact farmer_share_le_prorata conv hc a _ rs ha hnn h i _ r (by simp [hf]) hr

-- A: master 1000, child pools 600 + 400 (sum 1000); B: master 1000, one child pool 1000; C: children only does not
-- farm the master pool and is not in the list.  Equal weights ⇒ equal halves of the allocation.
example : sharesFrom f64 1000000000 true
    [{ master := ⟨500, 1000000, 1000000⟩, children := [⟨300, 1000000, 1000000⟩, ⟨200, 1000000, 1000000⟩] },
     { master := ⟨500, 1000000, 1000000⟩, children := [⟨500, 1000000, 1000000⟩] }]
    = .ok [500000000, 500000000] := by decide
-- if the last child pool overwrote the sum (weight 400 instead of 1000) the second farmer would get 714 285 714
example : weight { master := ⟨500, 1000000, 1000000⟩, children := [⟨300, 1000000, 1000000⟩, ⟨200, 1000000, 1000000⟩] }
    = 1000 * Dec.P := by decide

/-! ## Custody -/

/-- **Custody**: after ANY sequence of operations from the empty ledger — gauge creations (accepted or rejected),
external-programme creations, donations, begin blockers consisting of any gauge triggers / programme payouts /
deactivations in any order with any distribution data (a panicking block is rolled back) — the rewards module
account holds at least the sum of all gauges' undistributed remainders plus all programmes' available rewards,
and every gauge's remainder is non-negative. -/
theorem custody_ge_remaining (ops : List Op) (l : Ledger) (hl : l = run Ledger.empty ops) :
    remGauges l.gauges + remExts l.exts ≤ l.bal ∧
    ∀ g ∈ l.gauges, 0 ≤ gaugeRem g ∧ 0 ≤ g.distributed ∧ g.triggered ≤ g.total := by
  subst hl
  obtain ⟨hg, hb⟩ := run_inv Ledger.empty ops empty_inv
  refine ⟨hb, fun g hgm => ?_⟩
  have h := hg g hgm
  have := GInv_le_deposit g h
  exact ⟨by simp only [gaugeRem]; omega, h.1, h.2.1⟩

/-- the clause as worded (ACTIVE gauges and programmes).  The hypothesis that no programme's `AvailableRewards`
is negative is NOT enforced by the code (`AvailableRewards -= tracker` without comparison); the monitor tests it. -/
theorem custody_ge_active_remaining (ops : List Op) (l : Ledger) (hl : l = run Ledger.empty ops)
    (hx : ∀ x ∈ l.exts, 0 ≤ x.avail) :
    remActiveGauges l.gauges + remActiveExts l.exts ≤ l.bal := by
  subst hl
  obtain ⟨hg, hb⟩ := run_inv Ledger.empty ops empty_inv
  have h1 := remActiveGauges_le _ hg
  have h2 := remActiveExts_le _ hx
  omega

/-- **The external programmes have no `paid ≤ available` guard, and their share arithmetic can exceed it**
(iter.go:60-90): 9·10¹⁸ base units available on the last day, six lockers with equal balances ⇒ each share is
0.166666666666666667 (rounded UP in the 18th digit), each payout 1 500 000 000 000 000 003, total 18 above what
the programme has.  With a gauge holding 1000 of the same denomination in the module account the custody clause
fails: balance 982 < the gauge's undistributed 1000, and `AvailableRewards` is −18. -/
theorem ext_overpay_counterexample :
    extPays 9000000000000000000 1 6000000000 (List.replicate 6 1000000000) = List.replicate 6 1500000000000000003 ∧
    run Ledger.empty
      [.createGauge 1000 10 0 0 86400000000000 43200000000000 true 1000,
       .createExt 9000000000000000000 9000000000000000000,
       .block [.extPay 0 (extPays 9000000000000000000 1 6000000000 (List.replicate 6 1000000000))]]
    = { bal := 982, gauges := [newGauge 1000 10 0], exts := [{ avail := -18, active := true }] } := by
  constructor <;> decide

/-- under the invariant the bank can never refuse a gauge's reward send for lack of funds: every receiver gets
exactly the calculated reward -/
theorem farmers_receive_calculated (l : Ledger) (hl : LInv l) (hx : ∀ x ∈ l.exts, 0 ≤ x.avail)
    (i : Nat) (g g' : Gauge) (now : Int) (d : DistData) (sends : List Int)
    (hg : l.gauges[i]? = some g) (ht : trigger g now d = .ok (g', sends)) :
    sendAll l.bal sends = (l.bal - sumL sends, sends) := by
  obtain ⟨hgi, hb⟩ := hl
  obtain ⟨_, hnn, hc⟩ := epoch_pays_le_allocation g g' now d sends ht
  apply sendAll_exact sends hnn
  have h1 := gaugeRem_le_remGauges l.gauges hgi g (List.mem_of_getElem? hg)
  have h2 := remExts_nonneg l.exts hx
  rcases hc with rfl | ⟨_, _, hs, hcap⟩
  · have := GInv_le_deposit g (hgi g (List.mem_of_getElem? hg))
    simp only [sumL, gaugeRem] at *; omega
  · simp only [gaugeRem] at h1; omega

-- non-vacuity: a concrete history through creation, triggers, an external programme and a rejected gauge
example :
    run Ledger.empty
      [.createGauge 1000 3 0 0 86400000000000 43200000000000 true 5000,
       .createGauge 5 9 0 0 86400000000000 43200000000000 true 5000,     -- rejected: deposit < epochs
       .createExt 700 700,
       .block [.trigger 0 10 (.ok [300, 33]), .extPay 0 [100, 0, 50]],
       .block [.trigger 0 20 (.ok [333]), .trigger 0 20 (.ok [334]), .extDeactivate 0]]
    = { bal := 550,
        gauges := [{ deposit := 1000, distributed := 1000, triggered := 3, total := 3, active := true, start := 0 }],
        exts := [{ avail := 550, active := false }] } := by decide

end Comdex.C19
