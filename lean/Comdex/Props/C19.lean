import Comdex.Lemmas.Gauge
import Comdex.Lemmas.ExtReward
/-!
# C19 — Incentive payouts never exceed their funding and follow farmed share

Property clause → theorem (all kernel-checked, quantified over ALL totals / epoch counts / histories / farmed values)

* "a gauge's per-epoch allocations sum exactly to its deposit"
    → `split_sums_to_total` (guard `1 ≤ epochs ≤ total`, the guard `MsgCreateGauge` enforces apart from `epochs = 0`),
      `split_lengths`, `split_each_within_one`, `split_remainder_on_last_epochs`, `split_zero_epochs_panics` (pure function),
      `accepted_gauge_split_sums` / `every_gauge_split_sums`: the guard is what `MsgCreateGauge.ValidateBasic` enforces
      (zero epochs refused since repo commit 295205b), so the clause holds for every gauge that can exist.
* "each epoch pays out at most that epoch's allocation"
    → `epoch_pays_le_allocation` (record), `epoch_outflow_le_allocation` (coins leaving the module account)
* "the cumulative amount paid never exceeds the deposit"
    → `cumulative_le_deposit` (induction over any list of trigger attempts: any block times — early, late, after
      skipped epochs —, any distribution data, panics rolled back), `epoch_clock_skips_are_not_repaid`,
      `epoch_clock_halt_realigns` (the chain-halt branch: whole durations, no epoch counted, nothing triggered),
      `epoch_clock_no_burst` (any history of block times: triggers ≤ elapsed / duration)
* "no farmer's payout exceeds its pro-rata share … by more than one part in 10^12 (floating-point rounding)"
    → `farmer_share_le_prorata`: for every Dec→float conversion with relative error ≤ 2⁻⁵³ (`FloatUpper`, an explicit
      hypothesis; `f64_satisfies_float_hypothesis` shows the exact round-to-nearest-even conversion satisfies it, the
      harness TESTS that Go's `MustFloat64` is that conversion)
        payout ≤ (1 + 2⁻⁵³) · ( alloc·s/S  +  (s + 1)·½·10⁻¹⁸ )          (s, S in value units)
      `farmer_share_le_prorata_1e12_partial`: the literal 10⁻¹² bound under `s ≥ 1` and `S ≤ 999000 · alloc`;
      `farmer_share_1e12_counterexample`: the literal clause is FALSE of the code in general — the 18-digit rounding of
      `multiplier = alloc/S` is amplified by `s` (alloc 4·10⁶, S 6·10¹³, s 6·10¹¹−2 ⇒ paid 40000 > 39999.99999986…,
      3.3·10⁻¹² above pro rata; the excess is always below one base unit and inside the epoch allocation).
      `master_share_le_prorata`: the same bound in master-pool mode on min(master, child) values;
      `master_child_share_le_prorata` / `plain_share_le_prorata_from_positions`: the same from the farmed POSITIONS
      (amount, price, decimals per farmer and pool), weight = min(master value, Σ child-pool values)
      (`weight_is_min_of_master_and_child_sum`).
* the same three clauses for the EXTERNAL REWARD PROGRAMMES (locker, vault, lend; `Model/ExtReward.lean`):
    "each epoch pays at most that epoch's allocation" is FALSE of the code as worded; what holds exactly:
    → `ext_share_epoch_bound` (locker / vault: paid ≤ E·(1 + n/(2·10¹⁸)) + n/(2·10¹⁸), E = Dec(avail)/Dec(daysLeft), for n eligible
      positions adding up to at most the total share), `ext_share_epoch_cap_partial` (the literal cap when
      (avail + 2·daysLeft)·(n+1) < 10¹⁸), `ext_overpay_counterexample` (D20);
      `ext_lend_block_each_programme_bounded` (lend: for ANY number of programmes handled in one block every payout comes
      from an accumulator whose total is the sum of its truncated weights, and paid ≤ (D/T + ½ulp)·Σw + n/(2·10¹⁸) with D the
      daily VALUE of the programme's own AvailableRewards), `ext_lend_weights_vs_total`, `ext_lend_daily_value`,
      `ext_lend_value_at_par`, `ext_lend_epoch_cap_partial` (the literal cap at par price with integral weights),
      `ext_lend_value_as_amount_counterexample` (D42), `ext_lend_truncated_total_counterexample` (D43)
    "the cumulative amount paid never exceeds the deposit"
    → `ext_cumulative_is_funding_minus_available` (any history), `ext_available_nonneg_of_epoch_caps` (cumulative ≤ funding and
      AvailableRewards ≥ 0 PROVIDED every epoch respects the literal cap — the code does not enforce it, see the three
      counterexamples), `ext_epochs_le_duration`, `ext_one_epoch_per_visit`, `ext_not_due_twice`, `ext_share_visit_valid`,
      `ext_accepted_programme_funded`
* swap-fee gauges (`sfTrigger`): `sf_epoch_pays_le_collected` (the record always moves by what was paid and what arrived);
  `sf_gauge_leak_before_fix_counterexample` (D44, repaired by repository commit b0fa4d4: the step as it WAS left the record
  unchanged after a failed fee transfer and paid the deposit again every epoch)
* "the rewards custody account always holds at least the undistributed remainder of all active gauges and external
   reward programs"
    → `custody_ge_remaining` (ledger invariant over create-gauge / pool creation / create-programme / donations / begin
      blockers made of gauge triggers, swap-fee gauge triggers, programme payouts, deactivations, with panicking blocks rolled
      back; unconditional since the repair of D44),
      `custody_ge_active_remaining` (sum over ACTIVE gauges and programmes, under the explicit hypothesis that no
      programme's `AvailableRewards` is negative — the code has no such guard, the monitor `custody` tests it),
      `farmers_receive_calculated` (under the invariant no reward send can fail for lack of funds);
      `ext_overpay_counterexample`: the hypothesis FAILS on the real code (locker programme, 18-decimal amounts): the
      programme pays 18 base units more than it has and the module account falls below a gauge's remainder.
-/
namespace Comdex.C19
open Comdex Comdex.Gauge

/-! ## Split -/

/-- **Allocations sum to the deposit** for every deposit and every positive number of epochs not above it. -/
theorem split_sums_to_total (total epochs : Nat) (h1 : 1 ≤ epochs) (h2 : epochs ≤ total) :
    ∃ l, split total epochs = .ok l ∧ l.sum = total := by
  refine ⟨_, split_ok total epochs h1 h2, ?_⟩
  exact prefixSum_total total epochs h1

example : split 150 11 = .ok [13, 13, 13, 13, 14, 14, 14, 14, 14, 14, 14] := by decide
example : ∃ l, split 150 11 = .ok l ∧ l.sum = 150 := split_sums_to_total 150 11 (by decide) (by decide)

/-- one allocation per epoch; a total smaller than the epoch count gives NO allocations (the caller then skips). -/
theorem split_lengths (total epochs : Nat) (l : List Nat) (h : split total epochs = .ok l) :
    (epochs ≤ total → l.length = epochs) ∧ (total < epochs → l = []) := by
  unfold split at h
  split at h
  · injection h with h; subst h; exact ⟨fun h' => by omega, fun _ => rfl⟩
  · split at h
    · cases h
    · injection h with h; subst h; exact ⟨fun _ => by simp, fun h' => by omega⟩

/-- every allocation is `⌊total/epochs⌋` or one more -/
theorem split_each_within_one (total epochs : Nat) (l : List Nat) (h : split total epochs = .ok l) :
    ∀ x ∈ l, total / epochs ≤ x ∧ x ≤ total / epochs + 1 := by
  intro x hx
  obtain ⟨i, hi⟩ := List.getElem?_of_mem hx
  obtain ⟨_, rfl⟩ := split_get total epochs l h i x hi
  unfold splitAt
  split_ifs <;> omega

/-- the remainder is spread over the LAST epochs: allocations never decrease -/
theorem split_remainder_on_last_epochs (total epochs : Nat) (l : List Nat) (h : split total epochs = .ok l)
    (i j : Nat) (a b : Nat) (hij : i ≤ j) (hi : l[i]? = some a) (hj : l[j]? = some b) : a ≤ b := by
  obtain ⟨_, rfl⟩ := split_get total epochs l h i a hi
  obtain ⟨_, rfl⟩ := split_get total epochs l h j b hj
  unfold splitAt
  split_ifs <;> omega

/-- `SplitTotalAmountPerEpoch(total, 0)` is a Go run-time panic for every total -/
theorem split_zero_epochs_panics (total : Nat) : split total 0 = .error "integer divide by zero" := by
  unfold split
  rw [if_neg (by omega), if_pos rfl]

/-- **Every accepted gauge has a proper split**: the guards of `MsgCreateGauge` (ValidateBasic refuses
`TotalTriggers = 0` and `deposit < TotalTriggers`) put every accepted gauge inside the hypothesis of
`split_sums_to_total`, so its per-epoch allocations sum exactly to its deposit. -/
theorem accepted_gauge_split_sums (deposit : Int) (total : Nat) (start now dur minDur : Int) (aux : Bool)
    (h : createGuard deposit total start now dur minDur aux = true) :
    1 ≤ total ∧ ∃ l, split deposit.toNat total = .ok l ∧ l.sum = deposit.toNat ∧ l.length = total := by
  simp only [createGuard, Bool.and_eq_true, decide_eq_true_eq] at h
  have h1 : 1 ≤ total := by omega
  have h2 : total ≤ deposit.toNat := by omega
  obtain ⟨l, hl, hs⟩ := split_sums_to_total deposit.toNat total h1 h2
  exact ⟨h1, l, hl, hs, (split_lengths _ _ l hl).1 h2⟩

/-- the same for every gauge that exists in the ledger after ANY history: epochs ≥ 1, deposit ≥ epochs, and the
allocations of its (never changing) deposit sum to it -/
theorem every_gauge_split_sums (ops : List Op) (l : Ledger) (hl : l = run Ledger.empty ops) :
    ∀ g ∈ l.gauges, 1 ≤ g.total ∧ (g.total : Int) ≤ g.deposit ∧
      ∃ sp, split g.deposit.toNat g.total = .ok sp ∧ sp.sum = g.deposit.toNat := by
  subst hl
  intro g hg
  obtain ⟨h1, h2⟩ := run_acc Ledger.empty ops (by intro g hg; simp [Ledger.empty] at hg) g hg
  exact ⟨h1, h2, split_sums_to_total g.deposit.toNat g.total h1 (by omega)⟩

-- a zero-epoch gauge and a gauge with fewer units than epochs are refused; a proper one is accepted
example : createGuard 7 0 0 0 86400000000000 43200000000000 true = false := by decide
example : createGuard 7 8 0 0 86400000000000 43200000000000 true = false := by decide
example : createGuard 7 7 0 0 86400000000000 43200000000000 true = true := by decide

/-! ## One epoch -/

/-- **Each epoch pays at most that epoch's allocation**: whatever `trigger` stores and hands to the bank,
the recorded increase equals the sum handed out, every coin is non-negative, and either nothing is paid or the
sum is within `split(deposit, total)[triggered]` which itself is within the undistributed remainder. -/
theorem epoch_pays_le_allocation (g g' : Gauge) (now : Int) (d : DistData) (sends : List Int)
    (h : trigger g now d = .ok (g', sends)) :
    g'.distributed - g.distributed = sumL sends ∧ (∀ x ∈ sends, 0 ≤ x) ∧
    (sends = [] ∨
      (g.triggered < g.total ∧ g'.triggered = g.triggered + 1 ∧
       sumL sends ≤ (splitAt g.deposit.toNat g.total g.triggered : Int) ∧
       (splitAt g.deposit.toNat g.total g.triggered : Int) ≤ g.deposit - g.distributed)) := by
  rcases trigger_cases g g' now d sends h with ⟨rfl, _, h2, _⟩ | ⟨a, ha, _, hnn, hsum, hcap, rfl⟩
  · exact ⟨by simp [sumL, h2], by simp, Or.inl rfl⟩
  · obtain ⟨a1, a2, _⟩ := allocation_some g a ha
    refine ⟨by simp, hnn, Or.inr ⟨a1, rfl, by omega, by omega⟩⟩

/-- the same at the bank: the module account's outflow in one gauge trigger is at most the allocation -/
theorem epoch_outflow_le_allocation (l l' : Ledger) (i : Nat) (now : Int) (d : DistData) (g : Gauge)
    (hg : l.gauges[i]? = some g) (h : stepB l (.trigger i now d) = .ok l') :
    l'.bal ≤ l.bal ∧
    (l'.bal = l.bal ∨ l.bal - l'.bal ≤ (splitAt g.deposit.toNat g.total g.triggered : Int)) := by
  simp only [stepB, hg] at h
  split at h
  · cases h
  · rename_i g' sends ht
    injection h with h; subst h
    obtain ⟨_, hnn, hc⟩ := epoch_pays_le_allocation g g' now d sends ht
    have hb := sendAll_bounds sends hnn l.bal
    refine ⟨hb.2, ?_⟩
    rcases hc with rfl | ⟨_, _, hs, _⟩
    · left; simp [sendAll]
    · right; simp only; omega

example : trigger (newGauge 1000 3 0) 5 (.ok [300, 33]) =
    .ok ({ newGauge 1000 3 0 with triggered := 1, distributed := 333 }, [300, 33]) := by decide
-- a calculated total above the allocation (333) is refused and the epoch is not counted
example : trigger (newGauge 1000 3 0) 5 (.ok [300, 34]) = .ok (newGauge 1000 3 0, []) := by decide

/-! ## All epochs -/

/-- **Cumulative paid never exceeds the deposit**: for every deposit, epoch count, start time and every finite
history of trigger attempts (arbitrary block times, arbitrary distribution data incl. errors and panics), the
recorded distributed amount stays within the allocations of the epochs triggered so far, hence within the
deposit; the deposit itself never changes and at most `total` epochs are ever counted. -/
theorem cumulative_le_deposit (deposit : Int) (total : Nat) (start : Int) (hist : List (Int × DistData))
    (hd : 0 ≤ deposit) (g : Gauge) (hg : g = runGauge (newGauge deposit total start) hist) :
    0 ≤ g.distributed ∧
    g.distributed ≤ (prefixSum deposit.toNat total g.triggered : Int) ∧
    g.distributed ≤ deposit ∧ g.deposit = deposit ∧ g.triggered ≤ total := by
  obtain ⟨hinv, hdep⟩ := runGauge_inv (newGauge deposit total start) hist (newGauge_inv deposit total start hd)
  have ht : g.total = total := by rw [hg, runGauge_total]; rfl
  rw [← hg] at hinv hdep
  have hdep' : g.deposit = deposit := hdep
  have hle := GInv_le_deposit _ hinv
  obtain ⟨h1, h2, _, h4⟩ := hinv
  rw [hdep', ht] at h4
  exact ⟨h1, h4, by omega, hdep', by omega⟩

example : (runGauge (newGauge 10 3 0) [(1, .ok [3]), (2, .err), (9, .ok [2, 1]), (9, .ok [9]), (20, .ok [4]), (21, .ok [1])]).distributed = 10 := by
  decide

/-- skipped epochs: after a gap of more than two durations the clock only moves forward; no gauge is triggered
in that block, so the skipped epochs' allocations are not paid later in a burst -/
theorem epoch_clock_skips_are_not_repaid (e : Epoch) (now : Int) (hf : e.fresh = false)
    (hgap : e.cur + e.dur * 2 < now) : (epochStep e now).2 = false := by
  unfold epochStep
  rw [if_neg (by simp [hf]), if_pos hgap]

/-- and a block triggers a duration's gauges at most once -/
theorem epoch_clock_one_trigger_per_block (e : Epoch) (now : Int) :
    (epochStep e now).2 = true → (epochStep e now).1.count = e.count + 1 ∧ (epochStep e now).1.cur = e.cur + e.dur := by
  unfold epochStep
  split_ifs <;> simp

/-- **Chain halt** (epochs.go:84-90, "In case of chain halt/stop"): when a block arrives more than two durations after the
current epoch start, the clock jumps forward by a whole number `k ≥ 2` of durations — it stays on its grid —, lands within one
duration before the block time, counts NO epoch (`CurrentEpoch` unchanged) and triggers nothing in that block; the epoch that
is running at the restart is triggered by the first block after `cur' + dur`, i.e. less than one duration later. -/
theorem epoch_clock_halt_realigns (e : Epoch) (now : Int) (hf : e.fresh = false) (hd : 0 < e.dur)
    (hgap : e.cur + e.dur * 2 < now) :
    (epochStep e now).2 = false ∧ (epochStep e now).1.count = e.count ∧ (epochStep e now).1.dur = e.dur ∧
    (∃ k : Int, 2 ≤ k ∧ (epochStep e now).1.cur = e.cur + e.dur * k) ∧
    (epochStep e now).1.cur ≤ now ∧ now < (epochStep e now).1.cur + e.dur := by
  unfold epochStep
  rw [if_neg (by simp [hf]), if_pos hgap]
  have hpos : 0 ≤ now - e.cur := by nlinarith
  rw [Int.tdiv_eq_ediv_of_nonneg hpos]
  have h1 : (now - e.cur) / e.dur * e.dur ≤ now - e.cur := Int.ediv_mul_le _ (ne_of_gt hd)
  have h2 : now - e.cur < ((now - e.cur) / e.dur + 1) * e.dur := Int.lt_ediv_add_one_mul_self _ hd
  have h3 : 2 ≤ (now - e.cur) / e.dur := by
    apply (Int.le_ediv_iff_mul_le hd).mpr; nlinarith
  refine ⟨rfl, rfl, rfl, ⟨(now - e.cur) / e.dur, h3, rfl⟩, ?_, ?_⟩
  · simp only; nlinarith
  · simp only; nlinarith

example : epochStep { fresh := false, cur := 1000, dur := 100, count := 7 } 1675
    = ({ fresh := false, cur := 1600, dur := 100, count := 7 }, false) := by decide

/-- **No burst after a halt, for any history of block times**: however the blocks are spaced (early, late, after one or
many halts), the number of times a duration's gauges have been triggered up to time `T` is at most `(T − cur₀) / dur`:
every trigger moves the clock by one duration and the clock never passes the block time. -/
theorem epoch_clock_no_burst (e : Epoch) (times : List Int) (T : Int) (hf : e.fresh = false) (hd : 0 < e.dur)
    (ht : ∀ t ∈ times, t ≤ T) :
    ((runEpoch e times).2 : Int) * e.dur ≤ (runEpoch e times).1.cur - e.cur ∧
    (runEpoch e times).1.cur ≤ max e.cur T ∧ (runEpoch e times).1.dur = e.dur := by
  induction times generalizing e with
  | nil => simp [runEpoch]
  | cons now rest ih =>
    have hnow : now ≤ T := ht now (by simp)
    have hstep : (epochStep e now).1.fresh = false ∧ (epochStep e now).1.dur = e.dur ∧
        (((epochStep e now).2 = true ∧ (epochStep e now).1.cur = e.cur + e.dur ∧ (epochStep e now).1.cur < now) ∨
         ((epochStep e now).2 = false ∧ e.cur ≤ (epochStep e now).1.cur ∧ (epochStep e now).1.cur ≤ max e.cur now)) := by
      by_cases hgap : e.cur + e.dur * 2 < now
      · obtain ⟨a, _, c, ⟨k, hk, hk'⟩, d, _⟩ := epoch_clock_halt_realigns e now hf hd hgap
        refine ⟨?_, c, Or.inr ⟨a, ?_, ?_⟩⟩
        · unfold epochStep; rw [if_neg (by simp [hf]), if_pos hgap]; exact hf
        · rw [hk']; nlinarith
        · exact le_trans d (le_max_right _ _)
      · unfold epochStep
        rw [if_neg (by simp [hf]), if_neg hgap]
        split
        · rename_i h; exact ⟨hf, rfl, Or.inl ⟨rfl, rfl, by simp only; omega⟩⟩
        · exact ⟨hf, rfl, Or.inr ⟨rfl, le_refl _, le_max_left _ _⟩⟩
    obtain ⟨hf', hd', hc⟩ := hstep
    obtain ⟨i1, i2, i3⟩ := ih (epochStep e now).1 hf' (by rw [hd']; exact hd) (fun t h => ht t (by simp [h]))
    simp only [runEpoch]
    rw [hd'] at i1 i3
    refine ⟨?_, ?_, i3⟩
    · rcases hc with ⟨h1, h2, _⟩ | ⟨h1, h2, _⟩
      · simp only [h1, if_true]; push_cast; rw [h2] at i1; nlinarith
      · simp only [h1, Bool.false_eq_true, if_false, Nat.add_zero]; omega
    · rcases hc with ⟨_, h2, h3⟩ | ⟨_, _, h3⟩
      · have : (epochStep e now).1.cur ≤ T := by omega
        exact le_trans i2 (max_le (le_trans this (le_max_right _ _)) (le_max_right _ _))
      · have : (epochStep e now).1.cur ≤ max e.cur T := le_trans h3 (max_le (le_max_left _ _) (le_trans hnow (le_max_right _ _)))
        exact le_trans i2 (max_le this (le_max_right _ _))

-- a clock at 1000 with duration 100 and blocks at 1101, 1150, 1675 (halt), 1690, 1701: two triggers in 701 time units
example : runEpoch { fresh := false, cur := 1000, dur := 100, count := 0 } [1101, 1150, 1675, 1690, 1701]
    = ({ fresh := false, cur := 1700, dur := 100, count := 2 }, 2) := by decide

/-! ## Farmer shares -/

/-- one payout per active farmer (or none at all when the total farmed value is zero) -/
theorem farmer_share_lengths (conv : Int → Int × Int) (a : Int) (lp rs : List Int)
    (h : sharesPlain conv a lp = .ok rs) :
    rs.length = lp.length ∨ rs = [] ∧ sumL lp = 0 := by
  unfold sharesPlain at h
  simp only at h
  split at h
  · injection h with h; right; exact ⟨h.symm, by assumption⟩
  · left; exact (mapE_get _ _ _ h).1

/-- **Farmer share (explicit bound)**: for every conversion `conv` with upward relative error ≤ 2⁻⁵³, every
allocation `a ≥ 0`, every list of farmed values `lp` (raw 10⁻¹⁸ units, non-negative, positive total `S`), the
`i`-th payout `r` satisfies, with `s` the `i`-th value and `P = 10¹⁸`,
  `r · 2⁵³ · 2P²S ≤ (2⁵³+1) · (2·a·s·P² + (s + P)·S)`,   i.e.   `r ≤ (1+2⁻⁵³)·(a·s/S + (s/P + 1)/(2P))`. -/
theorem farmer_share_le_prorata (conv : Int → Int × Int) (hc : FloatUpper conv) (a : Int) (lp rs : List Int)
    (ha : 0 ≤ a) (hnn : ∀ s ∈ lp, 0 ≤ s) (h : sharesPlain conv a lp = .ok rs)
    (i : Nat) (s r : Int) (hs : lp[i]? = some s) (hr : rs[i]? = some r) :
    r * TWO53 * (2 * Dec.P * Dec.P * sumL lp) ≤ (TWO53 + 1) * (2 * a * s * Dec.P * Dec.P + (s + Dec.P) * sumL lp) := by
  unfold sharesPlain at h
  simp only at h
  split at h
  · injection h with h; subst h; simp at hr
  · rename_i hS
    obtain ⟨_, hg⟩ := mapE_get _ _ _ h
    obtain ⟨r', hr', hf⟩ := hg i s hs
    rw [hr] at hr'; injection hr' with hr'; subst hr'
    have hs0 : 0 ≤ s := hnn s (List.mem_of_getElem? hs)
    have hSpos : 0 < sumL lp := by
      have := sumL_nonneg lp hnn
      omega
    unfold rewardOf at hf
    simp only at hf
    split at hf
    · cases hf
    · injection hf with hf; subst hf
      exact reward_bound conv hc a (sumL lp) s ha hSpos hs0

/-- **The literal 10⁻¹² clause, where it holds**: farmed value at least one value unit (`s ≥ 10¹⁸` raw, i.e. one
micro-dollar at the usual oracle scale) and total farmed value at most 999000 × the epoch allocation. -/
theorem farmer_share_le_prorata_1e12_partial (conv : Int → Int × Int) (hc : FloatUpper conv) (a : Int)
    (lp rs : List Int) (ha : 0 ≤ a) (hnn : ∀ s ∈ lp, 0 ≤ s) (h : sharesPlain conv a lp = .ok rs)
    (i : Nat) (s r : Int) (hs : lp[i]? = some s) (hr : rs[i]? = some r)
    (hs1 : Dec.P ≤ s) (hSA : sumL lp ≤ 999000 * a * Dec.P) :
    r * 1000000000000 * sumL lp ≤ 1000000000001 * a * s := by
  have hB := farmer_share_le_prorata conv hc a lp rs ha hnn h i s r hs hr
  have hSpos : 0 < sumL lp := by
    have h1 := sumL_nonneg_mem lp hnn s (List.mem_of_getElem? hs)
    have := P_pos
    omega
  exact reward_bound_1e12 r a (sumL lp) s ha hSpos hs1 hSA hB

/-- the hypothesis is satisfiable: the exact IEEE-754 round-to-nearest-even conversion has it -/
theorem f64_satisfies_float_hypothesis : FloatUpper f64 := f64_floatUpper

/-- **The literal 10⁻¹² clause is false of the code**: allocation 4 000 000, two farmers with farmed values
599 999 999 998 and 59 400 000 000 002 (total 6·10¹³).  `multiplier = 0.000000066666666667` (rounded up in the 18th
digit), the first farmer is paid 40000 although its pro-rata share is 39999.99999986…: 3.3·10⁻¹² above. -/
theorem farmer_share_1e12_counterexample :
    sharesPlain f64 4000000 [599999999998 * Dec.P, 59400000000002 * Dec.P] = .ok [40000, 3960000] ∧
    40000 * 1000000000000 * (60000000000000 * Dec.P) > 1000000000001 * 4000000 * (599999999998 * Dec.P) := by
  constructor
  · decide
  · decide

example : sharesPlain f64 10000000000 [2000000000 * Dec.P, 4000000000 * Dec.P, 6000000000 * Dec.P, 8000000000 * Dec.P]
    = .ok [1000000000, 2000000000, 3000000000, 4000000000] := by decide

/-- master-pool mode: the same bound with the eligible value `min(master, child)`; a zero eligible value gets
nothing -/
theorem master_share_le_prorata (conv : Int → Int × Int) (hc : FloatUpper conv) (a : Int) (lp child rs : List Int)
    (ha : 0 ≤ a) (hnn : ∀ s ∈ zipMin lp child, 0 ≤ s) (h : sharesMaster conv a lp child = .ok rs)
    (i : Nat) (s r : Int) (hs : (zipMin lp child)[i]? = some s) (hr : rs[i]? = some r) :
    r * TWO53 * (2 * Dec.P * Dec.P * sumL (zipMin lp child))
      ≤ (TWO53 + 1) * (2 * a * s * Dec.P * Dec.P + (s + Dec.P) * sumL (zipMin lp child)) := by
  unfold sharesMaster at h
  simp only at h
  split at h
  · injection h with h; subst h; simp at hr
  · rename_i hS
    obtain ⟨_, hg⟩ := mapE_get _ _ _ h
    obtain ⟨r', hr', hf⟩ := hg i s hs
    rw [hr] at hr'; injection hr' with hr'; subst hr'
    have hs0 : 0 ≤ s := hnn s (List.mem_of_getElem? hs)
    have hSpos : 0 < sumL (zipMin lp child) := by
      have := sumL_nonneg _ hnn
      omega
    have hP := P_pos
    split at hf
    · injection hf with hf; subst hf
      rename_i hz; subst hz
      have : 0 ≤ (TWO53 + 1) * (2 * a * 0 * Dec.P * Dec.P + (0 + Dec.P) * sumL (zipMin lp child)) := by
        have : (0:Int) ≤ TWO53 + 1 := by decide
        positivity
      simpa using this
    · unfold rewardOf at hf
      simp only at hf
      split at hf
      · cases hf
      · injection hf with hf; subst hf
        exact reward_bound conv hc a _ s ha hSpos hs0

/-- positions as the chain produces them: non-negative amounts, positive asset decimals -/
def FarmersOk (fs : List Farmer) : Prop :=
  ∀ f ∈ fs, (0 ≤ f.master.amt ∧ 0 < f.master.dec) ∧ ∀ p ∈ f.children, 0 ≤ p.amt ∧ 0 < p.dec

/-- the reward weight of a farmer in a master-pool gauge IS `min(master value, Σ over child pools of the value farmed
there)` — every child pool counts, none overwrites another -/
theorem weight_is_min_of_master_and_child_sum (f : Farmer) :
    weight f = (if posValue f.master ≤ sumL (f.children.map posValue) then posValue f.master
                else sumL (f.children.map posValue)) := rfl

/-- **Farmer share in master/child configurations, from the farmed positions**: for every set of farmers with
arbitrary positions in the master pool and in any number of child pools, every price and every allocation, the
`i`-th payout is within the rounding slack of `alloc · wᵢ / Σ w` where `w = min(master value, Σ child values)`. -/
theorem master_child_share_le_prorata (conv : Int → Int × Int) (hc : FloatUpper conv) (a : Int) (fs : List Farmer)
    (rs : List Int) (ha : 0 ≤ a) (hok : FarmersOk fs) (h : sharesFrom conv a true fs = .ok rs)
    (i : Nat) (f : Farmer) (r : Int) (hf : fs[i]? = some f) (hr : rs[i]? = some r) :
    r * TWO53 * (2 * Dec.P * Dec.P * sumL (fs.map weight))
      ≤ (TWO53 + 1) * (2 * a * weight f * Dec.P * Dec.P + (weight f + Dec.P) * sumL (fs.map weight)) := by
  unfold sharesFrom at h
  simp only [if_true] at h
  have hz := zipMin_map fs
  have hnn : ∀ s ∈ zipMin (fs.map (fun f => posValue f.master)) (fs.map (fun f => childValue f.children)), 0 ≤ s := by
    rw [hz]
    intro s hs
    obtain ⟨g, hg, rfl⟩ := List.mem_map.mp hs
    exact weight_nonneg g (hok g hg).1 (hok g hg).2
  have hs : (zipMin (fs.map (fun f => posValue f.master)) (fs.map (fun f => childValue f.children)))[i]? = some (weight f) := by
    rw [hz]; simp [hf]
  have := master_share_le_prorata conv hc a _ _ rs ha hnn h i (weight f) r hs hr
  rw [hz] at this
  exact this

/-- plain gauges (and master gauges without child pools): weight = value farmed in the gauge's pool -/
theorem plain_share_le_prorata_from_positions (conv : Int → Int × Int) (hc : FloatUpper conv) (a : Int) (fs : List Farmer)
    (rs : List Int) (ha : 0 ≤ a) (hok : FarmersOk fs) (h : sharesFrom conv a false fs = .ok rs)
    (i : Nat) (f : Farmer) (r : Int) (hf : fs[i]? = some f) (hr : rs[i]? = some r) :
    r * TWO53 * (2 * Dec.P * Dec.P * sumL (fs.map (fun f => posValue f.master)))
      ≤ (TWO53 + 1) * (2 * a * posValue f.master * Dec.P * Dec.P
          + (posValue f.master + Dec.P) * sumL (fs.map (fun f => posValue f.master))) := by
  unfold sharesFrom at h
  simp only [Bool.false_eq_true, if_false] at h
  have hnn : ∀ s ∈ fs.map (fun f => posValue f.master), 0 ≤ s := by
    intro s hs
    obtain ⟨g, hg, rfl⟩ := List.mem_map.mp hs
    exact posValue_nonneg _ (hok g hg).1.1 (hok g hg).1.2
  exact farmer_share_le_prorata conv hc a _ rs ha hnn h i _ r (by simp [hf]) hr

-- A: master 1000, child pools 600 + 400 (sum 1000); B: master 1000, one child pool 1000; C: children only does not
-- farm the master pool and is not in the list.  Equal weights ⇒ equal halves of the allocation.
example : sharesFrom f64 1000000000 true
    [{ master := ⟨500, 1000000, 1000000⟩, children := [⟨300, 1000000, 1000000⟩, ⟨200, 1000000, 1000000⟩] },
     { master := ⟨500, 1000000, 1000000⟩, children := [⟨500, 1000000, 1000000⟩] }]
    = .ok [500000000, 500000000] := by decide
-- if the last child pool overwrote the sum (weight 400 instead of 1000) the second farmer would get 714 285 714
example : weight { master := ⟨500, 1000000, 1000000⟩, children := [⟨300, 1000000, 1000000⟩, ⟨200, 1000000, 1000000⟩] }
    = 1000 * Dec.P := by decide

/-! ## Custody -/

/-- **Custody**: after ANY sequence of operations from the empty ledger — gauge creations (accepted or rejected), pool
creations (swap-fee gauges), external-programme creations, donations, begin blockers consisting of any gauge triggers /
swap-fee gauge triggers (with any distribution data and any outcome of the fee transfer) / programme payouts /
deactivations in any order (a panicking block is rolled back) — the rewards module account holds at least the sum of all
gauges' undistributed remainders plus all swap-fee gauges' deposits plus all programmes' available rewards (signed: a
programme that over-paid counts negatively, D20 / D42 / D43), and every gauge's remainder is non-negative. -/
theorem custody_ge_remaining (ops : List Op) (l : Ledger) (hl : l = run Ledger.empty ops) :
    remGauges l.gauges + remExts l.exts + remSfs l.sfs ≤ l.bal ∧
    ∀ g ∈ l.gauges, 0 ≤ gaugeRem g ∧ 0 ≤ g.distributed ∧ g.triggered ≤ g.total := by
  subst hl
  obtain ⟨⟨hg, hb⟩, _⟩ := run_inv Ledger.empty ops empty_inv empty_sinv
  refine ⟨hb, fun g hgm => ?_⟩
  have h := hg g hgm
  have := GInv_le_deposit g h
  exact ⟨by simp only [gaugeRem]; omega, h.1, h.2.1⟩

/-- the clause as worded (ACTIVE gauges and programmes).  The hypothesis that no programme's `AvailableRewards`
is negative is NOT enforced by the code (`AvailableRewards -= tracker` without comparison; D20, D42, D43); the monitor
tests it. -/
theorem custody_ge_active_remaining (ops : List Op) (l : Ledger) (hl : l = run Ledger.empty ops)
    (hx : ∀ x ∈ l.exts, 0 ≤ x.avail) :
    remActiveGauges l.gauges + remActiveExts l.exts + remSfs l.sfs ≤ l.bal := by
  subst hl
  obtain ⟨⟨hg, hb⟩, _⟩ := run_inv Ledger.empty ops empty_inv empty_sinv
  have h1 := remActiveGauges_le _ hg
  have h2 := remActiveExts_le _ hx
  omega

/-- **One swap-fee epoch**: what is handed out is at most what the gauge collected at the previous epoch (its
`DepositAmount`), every coin is non-negative, nothing is handed out from an empty gauge, the payment is always booked
(`distributed' = distributed + paid`); in the gauge's denomination the record moves by exactly what was paid and what
arrived (`deposit' = deposit − paid + received`) — also when the fee transfer fails (nothing arrives, epoch not counted) —,
except when the fees arrive in ANOTHER denomination (`SwapFeeDistrDenom` changed): then the deposit of this denomination is
dropped to 0 (never relabelled), i.e. owed ≤ deposit − paid. -/
theorem sf_epoch_pays_le_collected (g g' : SfGauge) (d : DistData) (x : Xfer) (sends : List Int) (recv : Int)
    (h : sfTrigger g d x = .ok (g', sends, recv)) (hg : 0 ≤ g.deposit) :
    (∀ r ∈ sends, 0 ≤ r) ∧ 0 ≤ recv ∧ sumL sends ≤ g.deposit ∧
    g'.distributed = g.distributed + sumL sends ∧ 0 ≤ g'.deposit ∧ g'.deposit ≤ g.deposit - sumL sends + recv ∧
    ((∀ amt, x ≠ .moved amt) → g'.deposit = g.deposit - sumL sends + recv) ∧
    (x = .err → recv = 0 ∧ g'.triggered = g.triggered) ∧ (∀ amt, x = .moved amt → g'.triggered = g.triggered + 1 → g'.deposit = 0 ∧ recv = 0) := by
  obtain ⟨h1, h2, h3, h4, h6, hc⟩ := sfTrigger_cases g g' d x sends recv h
  obtain ⟨hn, hle⟩ := sfTrigger_deposit_nonneg g g' d x sends recv h hg
  have hs : sumL sends ≤ g.deposit := by
    by_cases hp : 0 < g.deposit
    · exact h3 hp
    · have := h4 (by omega); subst this; simp [sumL]; omega
  refine ⟨h1, h2, hs, h6, hn, hle, ?_, ?_, ?_⟩
  · intro hx
    rcases hc with ⟨rfl, rfl, rfl⟩ | ⟨_, rfl, _, hd⟩ | ⟨amt, _, rfl, _, hd⟩ | ⟨amt, hm, _⟩
    · simp [sumL]
    · omega
    · omega
    · exact absurd hm (hx amt)
  · intro hx
    rcases hc with ⟨rfl, hr, _⟩ | ⟨_, hr, ht, _⟩ | ⟨amt, hxa, _⟩ | ⟨amt, hxa, _⟩
    · exact ⟨hr, rfl⟩
    · exact ⟨hr, ht⟩
    · rw [hx] at hxa; cases hxa
    · rw [hx] at hxa; cases hxa
  · intro amt hx ht
    rcases hc with ⟨rfl, hr, rfl⟩ | ⟨hxe, _⟩ | ⟨a, hxa, _⟩ | ⟨a, _, hr, _, hd⟩
    · omega
    · rw [hx] at hxe; cases hxe
    · rw [hx] at hxa; cases hxa
    · exact ⟨hd, hr⟩

/-- **Change of the swap-fee denomination, per denomination**: a gauge holding a remainder of 500 of the old denomination
(an epoch without farmers) receives 300 of the NEW one: in the old denomination's ledger its deposit drops to 0 (the 500
stay in the account, owed to nobody), in the new denomination's ledger it arrives with exactly the 300 that came in, next
to an unrelated gauge's 1000 — both ledgers satisfy the custody inequality (instances of `custody_ge_remaining`). Relabelling
the remainder (deposit 800 of the new denomination against 300 received) would break it: 1000 + 800 > 1300. -/
theorem sf_denom_change_keeps_custody_per_denom :
    run Ledger.empty [.createSf, .block [.sfTrigger 0 (.ok []) (.ok 500)], .block [.sfTrigger 0 (.ok []) (.moved 300)]]
      = { bal := 500, gauges := [], exts := [], sfs := [{ deposit := 0, distributed := 0, triggered := 2 }] } ∧
    run Ledger.empty [.createGauge 1000 10 1000 0 86400000000000 43200000000000 true 1000, .block [.sfArrive 300 2]]
      = { bal := 1300, gauges := [newGauge 1000 10 1000], exts := [], sfs := [{ deposit := 300, distributed := 0, triggered := 2 }] } ∧
    (1000 : Int) + 800 > 1300 := by
  refine ⟨by decide, by decide, by decide⟩

example : sfTrigger { deposit := 36000, distributed := 0, triggered := 1 } (.ok [35999]) (.ok 500)
    = .ok ({ deposit := 501, distributed := 35999, triggered := 2 }, [35999], 500) := by decide
-- the fee transfer fails after the distribution: the payment is booked, the epoch is not counted
example : sfTrigger { deposit := 36000, distributed := 0, triggered := 1 } (.ok [36000]) .err
    = .ok ({ deposit := 0, distributed := 36000, triggered := 1 }, [36000], 0) := by decide

/-- **Finding D44 (repaired by repository commit b0fa4d4), kept as a theorem about the step AS IT WAS**: before the fix a
failed fee transfer `continue`d before `SetGauge` (`sfTriggerBeforeFix`): the distribution was paid and the record kept
`DepositAmount = 36000`; repeated over three epochs 108 000 leave the module account for 36 000 collected, and an ordinary
gauge's 100 000 held in the same account is backed by 28 000 — the custody inequality of `custody_ge_remaining` fails for
that step function, while the repaired step books the payment once and pays nothing afterwards. -/
theorem sf_gauge_leak_before_fix_counterexample :
    let g : SfGauge := { deposit := 36000, distributed := 0, triggered := 1 }
    sfTriggerBeforeFix g (.ok [36000]) .err = .ok (g, [36000], 0) ∧
    (100000 : Int) + g.deposit > 136000 - 3 * 36000 ∧
    sfTrigger g (.ok [36000]) .err = .ok ({ deposit := 0, distributed := 36000, triggered := 1 }, [36000], 0) ∧
    run Ledger.empty
      [.createGauge 100000 10 1000 0 86400000000000 43200000000000 true 100000, .createSf,
       .block [.sfTrigger 0 (.ok []) (.ok 36000)],
       .block [.sfTrigger 0 (.ok [36000]) .err], .block [.sfTrigger 0 (.ok [36000]) .err], .block [.sfTrigger 0 (.ok [36000]) .err]]
    = { bal := 100000, gauges := [newGauge 100000 10 1000], exts := [], sfs := [{ deposit := 0, distributed := 36000, triggered := 1 }] } := by
  refine ⟨by decide, by decide, by decide, by decide⟩

/-- **The external programmes have no `paid ≤ available` guard, and their share arithmetic can exceed it**
(iter.go:60-90): 9·10¹⁸ base units available on the last day, six lockers with equal balances ⇒ each share is
0.166666666666666667 (rounded UP in the 18th digit), each payout 1 500 000 000 000 000 003, total 18 above what
the programme has.  With a gauge holding 1000 of the same denomination in the module account the custody clause
fails: balance 982 < the gauge's undistributed 1000, and `AvailableRewards` is −18. -/
theorem ext_overpay_counterexample :
    extPays 9000000000000000000 1 6000000000 (List.replicate 6 1000000000) = List.replicate 6 1500000000000000003 ∧
    run Ledger.empty
      [.createGauge 1000 10 0 0 86400000000000 43200000000000 true 1000,
       .createExt 9000000000000000000 9000000000000000000,
       .block [.extPay 0 (extPays 9000000000000000000 1 6000000000 (List.replicate 6 1000000000))]]
    = { bal := 982, gauges := [newGauge 1000 10 0], exts := [{ avail := -18, active := true }] } := by
  constructor <;> decide

/-- under the invariant the bank can never refuse a gauge's reward send for lack of funds: every receiver gets
exactly the calculated reward -/
theorem farmers_receive_calculated (l : Ledger) (hl : LInv l) (hx : ∀ x ∈ l.exts, 0 ≤ x.avail)
    (hsf : ∀ s ∈ l.sfs, 0 ≤ s.deposit) (i : Nat) (g g' : Gauge) (now : Int) (d : DistData) (sends : List Int)
    (hg : l.gauges[i]? = some g) (ht : trigger g now d = .ok (g', sends)) :
    sendAll l.bal sends = (l.bal - sumL sends, sends) := by
  obtain ⟨hgi, hb⟩ := hl
  obtain ⟨_, hnn, hc⟩ := epoch_pays_le_allocation g g' now d sends ht
  apply sendAll_exact sends hnn
  have h1 := gaugeRem_le_remGauges l.gauges hgi g (List.mem_of_getElem? hg)
  have h2 := remExts_nonneg l.exts hx
  have h3 := remSfs_nonneg l.sfs hsf
  rcases hc with rfl | ⟨_, _, hs, hcap⟩
  · have := GInv_le_deposit g (hgi g (List.mem_of_getElem? hg))
    simp only [sumL, gaugeRem] at *; omega
  · simp only [gaugeRem] at h1; omega

-- non-vacuity: a concrete history through creation, triggers, an external programme and a rejected gauge
example :
    run Ledger.empty
      [.createGauge 1000 3 0 0 86400000000000 43200000000000 true 5000,
       .createGauge 5 9 0 0 86400000000000 43200000000000 true 5000,     -- rejected: deposit < epochs
       .createExt 700 700,
       .block [.trigger 0 10 (.ok [300, 33]), .extPay 0 [100, 0, 50]],
       .block [.trigger 0 20 (.ok [333]), .trigger 0 20 (.ok [334]), .extDeactivate 0]]
    = { bal := 550,
        gauges := [{ deposit := 1000, distributed := 1000, triggered := 3, total := 3, active := true, start := 0 }],
        exts := [{ avail := 550, active := false }] } := by decide

/-! ## External reward programmes (locker, vault, lend): `Model/ExtReward.lean` -/

section ExtProgrammes
open Comdex.ExtReward

/-- **Locker / vault programme, one epoch — what holds exactly.**  Whenever `DistributeExtRewardLocker` / `…Vault` pays an
epoch of a programme with non-negative `AvailableRewards`, a positive total share and eligible positions that add up to at most
the total share: every payment is non-negative and, with `n` eligible positions and `E = Dec(avail).Quo(Dec(daysLeft))`,
`paid · 2·10³⁶ ≤ E·(2·10¹⁸ + n) + n·10¹⁸`   i.e.   `paid ≤ E·(1 + n/(2·10¹⁸)) + n/(2·10¹⁸)`,   `E ≤ avail/daysLeft + ½·10⁻¹⁸`:
the epoch allocation plus a rounding excess of at most `n/2` units in the 18th decimal of the allocation (finding D20). -/
theorem ext_share_epoch_bound (p : Prog) (now total : Int) (users : List User) (pays : List Int)
    (h : shareOutcome p now total users = .ok (.pay pays))
    (ha : 0 ≤ p.avail) (ht : 0 < total) (hu : ∀ u ∈ users, 0 ≤ u.amt)
    (hsum : sumL ((users.filter (eligible p now)).map (·.amt)) ≤ total) :
    (∀ r ∈ pays, 0 ≤ r) ∧
    shareBoundOk p (users.filter (eligible p now)).length (sumL pays) = true ∧
    0 ≤ epochRewards p ∧ 2 * epochRewards p * p.daysLeft ≤ 2 * p.avail * Dec.P + p.daysLeft := by
  obtain ⟨_, hp⟩ := shareOutcome_valid p now total users _ h
  obtain ⟨_, _, hc, rfl⟩ := hp pays rfl
  have hd : 0 < p.daysLeft := by unfold Prog.daysLeft; omega
  have hb := share_bound p now total users ha hd ht hu (by rw [eligAmount_eq]; exact hsum)
  rw [eligCount_eq] at hb
  obtain ⟨hE0, hE1⟩ := epochRewards_bounds p ha hd
  refine ⟨?_, hb, hE0, hE1⟩
  intro r hr
  obtain ⟨u, _, rfl⟩ := List.mem_map.mp hr
  exact userPay_nonneg p now total u

/-- **The clause as worded, where it holds** (locker / vault): when `(avail + 2·daysLeft)·(n + 1) < 10¹⁸` — any 6-decimal
token amount below 10¹⁸/(n+1) base units — the epoch pays at most `avail / daysLeft`. -/
theorem ext_share_epoch_cap_partial (p : Prog) (now total : Int) (users : List User) (pays : List Int)
    (h : shareOutcome p now total users = .ok (.pay pays))
    (ha : 0 ≤ p.avail) (ht : 0 < total) (hu : ∀ u ∈ users, 0 ≤ u.amt)
    (hsum : sumL ((users.filter (eligible p now)).map (·.amt)) ≤ total)
    (hsmall : (p.avail + 2 * p.daysLeft) * (((users.filter (eligible p now)).length : Int) + 1) < Dec.P) :
    capOk p (sumL pays) = true := by
  obtain ⟨hnn, hb, hE0, hE1⟩ := ext_share_epoch_bound p now total users pays h ha ht hu hsum
  obtain ⟨_, hp⟩ := shareOutcome_valid p now total users _ h
  obtain ⟨_, _, hc, _⟩ := hp pays rfl
  have hd : 0 < p.daysLeft := by unfold Prog.daysLeft; omega
  have hP := P_pos
  have hs0 : 0 ≤ sumL pays := sumL_nonneg pays hnn
  unfold shareBoundOk at hb
  simp only [decide_eq_true_eq] at hb
  unfold capOk
  simp only [Bool.or_eq_true, Bool.and_eq_true, decide_eq_true_eq]
  right
  refine ⟨hs0, ?_⟩
  generalize sumL pays = paid at *
  have hn : (0:Int) ≤ ((users.filter (eligible p now)).length : Int) := Int.natCast_nonneg _
  generalize ((users.filter (eligible p now)).length : Int) = n at *
  generalize epochRewards p = E at *
  generalize p.daysLeft = dl at *
  generalize p.avail = av at *
  -- paid·dl·4P² ≤ (2·av·P + dl)(2P + n) + 2nP·dl
  have e1 : paid * (2 * Dec.P * Dec.P) * (2 * dl) ≤ (E * (2 * Dec.P + n) + n * Dec.P) * (2 * dl) :=
    Int.mul_le_mul_of_nonneg_right hb (by omega)
  have e2 : 2 * E * dl * (2 * Dec.P + n) ≤ (2 * av * Dec.P + dl) * (2 * Dec.P + n) :=
    Int.mul_le_mul_of_nonneg_right hE1 (by omega)
  -- the excess is below one unit
  have e3 : 2 * av * n + 2 * dl + 3 * n * dl < 2 * Dec.P := by nlinarith [mul_nonneg ha hn, mul_nonneg hn (le_of_lt hd)]
  have e6 : n * dl ≤ Dec.P * (n * dl) := by nlinarith [mul_nonneg hn (le_of_lt hd)]
  have e7 : Dec.P * (2 * av * n + 2 * dl + 3 * n * dl) < Dec.P * (2 * Dec.P) := Int.mul_lt_mul_of_pos_left e3 hP
  have e4 : (paid * dl - av) * (4 * Dec.P * Dec.P) < 4 * Dec.P * Dec.P := by nlinarith
  have e5 : paid * dl - av < 1 := by
    by_contra hcon
    have : 1 * (4 * Dec.P * Dec.P) ≤ (paid * dl - av) * (4 * Dec.P * Dec.P) :=
      Int.mul_le_mul_of_nonneg_right (by omega) (by positivity)
    omega
  omega

-- three lockers 200 / 300 / 500 of a total share 1000, 9000 available, 3 days left: 600 + 900 + 1500 = the allocation 3000
example : shareOutcome (newProg 9000 3 1 0 DAY) 100000 1000 [⟨200, 5⟩, ⟨300, 6⟩, ⟨500, 7⟩] = .ok (.pay [600, 900, 1500]) := by decide
-- a locker created 10 s ago is not eligible for a 3600 s lock-up (except on the last day)
example : shareOutcome (newProg 9000 3 3600 0 DAY) 100000 1000 [⟨200, 5⟩, ⟨300, 6⟩, ⟨500, 99990⟩] = .ok (.pay [600, 900, 0]) := by decide
example : shareOutcome { newProg 9000 3 3600 0 DAY with count := 2 } 100000 1000 [⟨200, 5⟩, ⟨300, 6⟩, ⟨500, 99990⟩]
    = .ok (.pay [1800, 2700, 4500]) := by decide
example : capOk (newProg 9000 3 1 0 DAY) 3000 = true := by decide

/-- **Lend programmes, any number of them handled in one block.**  `DistributeExtRewardLend` keeps `addrArr`, `amountArr` and
`totalAmount` across the programmes of one block.  For every list of programmes and environments (prices, borrowers, farmed
positions — non-negative), every programme that pays does so from an accumulator whose total IS the sum of the truncated
weights it holds (`accOk`), with a positive total, and its payout obeys
`paid · 2·10³⁶·T ≤ (2·D + T)·Σw + n·10¹⁸·T`   i.e.   `paid ≤ (D/T + ½ulp)·Σw + n/(2·10¹⁸)`
with `D` the daily VALUE of the programme's own `AvailableRewards`, `T` the accumulated total, `Σw` the accumulated weights. -/
theorem ext_lend_block_each_programme_bounded (now : Int) (pes : List (Prog × LendEnv))
    (he : ∀ pe ∈ pes, EnvOk pe.2) (hav : ∀ pe ∈ pes, 0 ≤ pe.1.avail) :
    ∀ ao ∈ lendBlock now pes Acc.empty, accOk ao.1 = true ∧
      ∀ pays, ao.2 = .pay pays →
        0 < ao.1.tot ∧ (∀ r ∈ pays, 0 ≤ r) ∧
        ∃ pe ∈ pes, ∃ tr, value pe.2.reward pe.1.avail = some tr ∧ 0 ≤ lendDaily pe.1 tr ∧
          lendBoundOk ao.1.ws ao.1.tot (lendDaily pe.1 tr) (sumL pays) = true := by
  intro ao hao
  obtain ⟨hacc, hp⟩ := lendBlock_spec now pes Acc.empty AccOk_empty he ao hao
  refine ⟨(accOk_iff _).mpr hacc, ?_⟩
  intro pays hpay
  obtain ⟨pe, hpe, _, _, hc, htot, tr, htr, rfl⟩ := hp pays hpay
  have hd : 0 < pe.1.daysLeft := by unfold Prog.daysLeft; omega
  have htr0 : 0 ≤ tr := value_nonneg _ _ _ (he pe hpe).2.2.2.1 (hav pe hpe) htr
  have hD := lendDaily_nonneg pe.1 tr htr0 hd
  obtain ⟨hnn, hb⟩ := lend_bound ao.1.ws ao.1.tot (lendDaily pe.1 tr) hacc.2 htot hD
  exact ⟨htot, hnn, pe, hpe, tr, htr, hD, hb⟩

/-- the accumulated weights exceed the accumulated total only by their fractional parts: `T·10¹⁸ ≤ Σw < (T + n)·10¹⁸` -/
theorem ext_lend_weights_vs_total (a : Acc) (h : accOk a = true) :
    a.tot * Dec.P ≤ sumL a.ws ∧ sumL a.ws + (a.ws.length : Int) ≤ (a.tot + (a.ws.length : Int)) * Dec.P := by
  obtain ⟨h1, h2⟩ := (accOk_iff a).mp h
  obtain ⟨i1, i2, _⟩ := sum_lt_trunc a.ws h2
  rw [h1]; exact ⟨i2, i1⟩

/-- `D` is the oracle VALUE of the available rewards over the days left: `2·D·daysLeft ≤ 2·value + daysLeft`; and when the
reward token's price record is exactly one value unit per base unit (`twa = decimals`) the value of an amount is the amount -/
theorem ext_lend_daily_value (p : Prog) (tr : Dec) (ht : 0 ≤ tr) (hc : (p.count : Int) < p.days) :
    0 ≤ lendDaily p tr ∧ 2 * lendDaily p tr * p.daysLeft ≤ 2 * tr + p.daysLeft :=
  quo_ofInt_bounds tr p.daysLeft ht (by unfold Prog.daysLeft; omega)

theorem ext_lend_value_at_par (pr : Price) (amt : Int) (hf : pr.found = true) (ht : 0 < pr.twa) (hpar : pr.twa = pr.dec)
    (ha : 0 ≤ amt) : value pr amt = some (Dec.ofInt amt) := value_at_par pr amt hf ht hpar ha

/-- **The clause as worded, where it holds** (lend): reward token at par, weights without fractional part (`Σw = T·10¹⁸`),
`(T + n + 1)·daysLeft < 2·10¹⁸`. -/
theorem ext_lend_epoch_cap_partial (p : Prog) (pr : Price) (ws : List Dec) (tot : Int)
    (hf : pr.found = true) (ht : 0 < pr.twa) (hpar : pr.twa = pr.dec) (ha : 0 ≤ p.avail) (hc : (p.count : Int) < p.days)
    (hw : ∀ w ∈ ws, 0 ≤ w) (htot : 0 < tot) (hint : sumL ws = tot * Dec.P)
    (hsmall : (tot + (ws.length : Int) + 1) * p.daysLeft < 2 * Dec.P) :
    ∃ tr, value pr p.avail = some tr ∧ capOk p (sumL (lendPays ws tot (lendDaily p tr))) = true := by
  refine ⟨Dec.ofInt p.avail, value_at_par pr p.avail hf ht hpar ha, ?_⟩
  have hP := P_pos
  have hd : 0 < p.daysLeft := by unfold Prog.daysLeft; omega
  have htr0 : 0 ≤ Dec.ofInt p.avail := by unfold Dec.ofInt; positivity
  obtain ⟨hD0, hD1⟩ := ext_lend_daily_value p _ htr0 hc
  obtain ⟨hnn, hb⟩ := lend_bound ws tot _ hw htot hD0
  have hs0 := sumL_nonneg _ hnn
  unfold lendBoundOk at hb
  simp only [decide_eq_true_eq] at hb
  rw [hint] at hb
  unfold capOk
  simp only [Bool.or_eq_true, Bool.and_eq_true, decide_eq_true_eq]
  right
  refine ⟨hs0, ?_⟩
  generalize sumL (lendPays ws tot (lendDaily p (Dec.ofInt p.avail))) = paid at *
  generalize lendDaily p (Dec.ofInt p.avail) = D at *
  unfold Dec.ofInt at hD1
  have hn : (0:Int) ≤ (ws.length : Int) := Int.natCast_nonneg _
  generalize (ws.length : Int) = n at *
  generalize p.daysLeft = dl at *
  generalize p.avail = av at *
  -- paid·2P²·T ≤ (2D + T)·T·P + nPT  ⇒  paid·2P ≤ 2D + T + n
  have e1 : (Dec.P * tot) * (paid * (2 * Dec.P)) ≤ (Dec.P * tot) * (2 * D + tot + n) := by nlinarith
  have e2 : paid * (2 * Dec.P) ≤ 2 * D + tot + n := Int.le_of_mul_le_mul_left e1 (by positivity)
  have e3 : paid * (2 * Dec.P) * dl ≤ (2 * D + tot + n) * dl := Int.mul_le_mul_of_nonneg_right e2 (by omega)
  have e4 : (paid * dl - av) * (2 * Dec.P) < 2 * Dec.P := by nlinarith
  have e5 : paid * dl - av < 1 := by
    by_contra hcon
    have : 1 * (2 * Dec.P) ≤ (paid * dl - av) * (2 * Dec.P) :=
      Int.mul_le_mul_of_nonneg_right (by omega) (by positivity)
    omega
  omega

def parPrice : Price := { found := true, active := true, twa := 1000000, dec := 1000000 }
def twoBorrowers : List Borrower := [⟨false, 1000, true, 5000, 5000⟩, ⟨false, 1000, true, 5000, 5000⟩]
def envTwo : LendEnv :=
  { halt := false, stats := true, asset := parPrice, quote := parPrice, base := parPrice, borrowers := twoBorrowers, rewardAsset := true, reward := parPrice }
/-- witness X1 of the harness: borrowed asset and quote coin at par, base coin at 2, reward token at 12 -/
def envValue : LendEnv :=
  { halt := false, stats := true, asset := parPrice, quote := parPrice, base := { parPrice with twa := 2000000 }, rewardAsset := true,
    reward := { parPrice with twa := 12000000 },
    borrowers := [⟨false, 1000000000, true, 5000000000, 5000000000⟩, ⟨false, 1000000000, true, 4999999999, 4999999999⟩] }
/-- witness X2 of the harness: three borrowers of 19 base units of an asset priced 0.1 -/
def envTrunc : LendEnv :=
  { halt := false, stats := true, asset := { parPrice with twa := 100000 }, quote := parPrice, base := parPrice, rewardAsset := true,
    reward := parPrice, borrowers := [⟨false, 19, true, 5000, 5000⟩, ⟨false, 19, true, 5000, 5000⟩, ⟨false, 19, true, 5000, 5000⟩] }

-- two borrowers whose eligible value is 1000 each, 600 available, 2 days left: 150 + 150 = the allocation 300; a second
-- programme due in the same block pays the FOUR accumulated entries 75 each = its own allocation 300
example : lendBlock 100000 [(newProg 600 2 1 0 LENDFIRST, envTwo), (newProg 600 2 1 0 LENDFIRST, envTwo)]
    Acc.empty
    = [(⟨[1000 * Dec.P, 1000 * Dec.P], 2000⟩, .pay [150, 150]),
       (⟨[1000 * Dec.P, 1000 * Dec.P, 1000 * Dec.P, 1000 * Dec.P], 4000⟩, .pay [75, 75, 75, 75])] := by decide

/-- **A lend programme pays the oracle VALUE of its daily allocation as a token AMOUNT** (iter.go:280-295): reward token priced
12 value units per base unit, 1 200 000 000 available, 2 days left, two borrowers with weight 10⁹ each ⇒ 3 600 000 000 each:
7 200 000 000 paid in one epoch of a programme funded with 1 200 000 000 (allocation 600 000 000). -/
theorem ext_lend_value_as_amount_counterexample :
    let e := envValue
    let p := newProg 1200000000 2 1 0 LENDFIRST
    (lendOne p 100000 e Acc.empty).2.1 = .pay [3600000000, 3600000000] ∧
    capOk p 7200000000 = false ∧ (p.apply 100000 (.pay [3600000000, 3600000000])).avail = -6000000000 := by
  decide

/-- **`totalAmount` sums the TRUNCATED weights, the payouts use the untruncated ones** (iter.go:273-274, 288-292): three
borrowers of 19 base units of an asset priced 0.1 (weight 1.9 each, total 3): the programme pays 633 333 × 3 = 1 899 999 of a daily
allocation of 1 000 000; on the last day this exceeds what the programme has. -/
theorem ext_lend_truncated_total_counterexample :
    let e := envTrunc
    let p := newProg 3000000 3 1 0 LENDFIRST
    (lendOne p 100000 e Acc.empty).1 = ⟨[1900000000000000000, 1900000000000000000, 1900000000000000000], 3⟩ ∧
    (lendOne p 100000 e Acc.empty).2.1 = .pay [633333, 633333, 633333] ∧ capOk p 1899999 = false := by
  decide

/-! ### A programme's life: any history of visits -/

/-- the visits the code can produce are valid (`ValidVisit`): an epoch is paid only when the programme is active, due and has
epochs left; it is switched off only when due with no epochs left -/
theorem ext_share_visit_valid (p : Prog) (now total : Int) (users : List User) (o : Outcome)
    (h : shareOutcome p now total users = .ok o) : ValidVisit p now o := by
  obtain ⟨h1, h2⟩ := shareOutcome_valid p now total users o h
  cases o with
  | skip => trivial
  | off => exact h1 rfl
  | pay pays =>
    obtain ⟨a, b, c, rfl⟩ := h2 pays rfl
    refine ⟨a, b, c, ?_⟩
    intro r hr
    obtain ⟨u, _, rfl⟩ := List.mem_map.mp hr
    exact userPay_nonneg p now total u

/-- **Cumulative paid = funding − AvailableRewards**, the funding and the duration never change — for any history of visits -/
theorem ext_cumulative_is_funding_minus_available (amount days minLock now first : Int) (hist : List (Int × Outcome)) :
    paidTotal hist = amount - (runProg (newProg amount days minLock now first) hist).avail ∧
    (runProg (newProg amount days minLock now first) hist).total = amount := by
  obtain ⟨h1, h2, _⟩ := runProg_booking (newProg amount days minLock now first) hist
  simp only [newProg] at h1 h2 ⊢
  exact ⟨by omega, h2⟩

/-- **At most `DurationDays` epochs are ever paid**, one per visit, whatever the block times (a pause of many days pays one
epoch at the next block, the missed days are not paid in a burst: the duration stretches) -/
theorem ext_epochs_le_duration (amount days minLock now first : Int) (hd : 0 ≤ days) (hist : List (Int × Outcome))
    (hv : ValidHist (newProg amount days minLock now first) hist) :
    ((runProg (newProg amount days minLock now first) hist).count : Int) ≤ days := by
  have := (runProg_count (newProg amount days minLock now first) hist hv (by simp [newProg]; exact hd)).1
  simpa [newProg] using this

theorem ext_one_epoch_per_visit (p : Prog) (now : Int) (pays : List Int) :
    (p.apply now (.pay pays)).count = p.count + 1 ∧ (p.apply now (.pay pays)).start = now + DAY ∧
    ¬ ((p.apply now (.pay pays)).start < now) := by
  simp only [Prog.apply, DAY]; refine ⟨trivial, trivial, by omega⟩

/-- after an epoch was paid at block time `now` the programme is not due again in that block -/
theorem ext_not_due_twice (p : Prog) (now total : Int) (users : List User) (pays : List Int) :
    shareOutcome (p.apply now (.pay pays)) now total users = .ok .skip := by
  unfold shareOutcome
  split
  · rfl
  · rw [if_pos (by simp only [Prog.apply, DAY]; omega)]

/-- **Cumulative paid ≤ funding and AvailableRewards ≥ 0 — provided every epoch respects the clause as worded.**  The code does
not enforce that (`AvailableRewards -= tracker` without comparison): `ext_overpay_counterexample`,
`ext_lend_value_as_amount_counterexample`, `ext_lend_truncated_total_counterexample`. -/
theorem ext_available_nonneg_of_epoch_caps (amount days minLock now first : Int) (ha : 0 ≤ amount) (hist : List (Int × Outcome))
    (hv : ValidHist (newProg amount days minLock now first) hist) (hcap : CapHist (newProg amount days minLock now first) hist) :
    0 ≤ (runProg (newProg amount days minLock now first) hist).avail ∧ paidTotal hist ≤ amount := by
  have h := runProg_nonneg (newProg amount days minLock now first) hist hv hcap (by simpa [newProg] using ha)
  have h2 := (ext_cumulative_is_funding_minus_available amount days minLock now first hist).1
  exact ⟨h, by omega⟩

/-- an accepted activation message is funded and has at least one day; the ledger of the custody theorem accepts it too -/
theorem ext_accepted_programme_funded (amount days funds : Int) (aux : Bool) (h : ExtReward.createGuard amount days funds aux = true)
    (l : Ledger) : 0 < amount ∧ 1 ≤ days ∧ amount ≤ funds ∧
    step l (.createExt amount funds) = { l with bal := l.bal + amount, exts := l.exts ++ [{ avail := amount, active := true }] } := by
  simp only [ExtReward.createGuard, Bool.and_eq_true, decide_eq_true_eq] at h
  refine ⟨h.1.1.1, h.1.1.2, h.1.2, ?_⟩
  simp only [step]
  rw [if_pos (by simp only [Bool.and_eq_true, decide_eq_true_eq]; omega)]

-- a programme of 2 days through a pause: two epochs, then switched off; 900 booked of 900
example : runProg (newProg 900 2 1 0 DAY) [(86401, .pay [450]), (86402, .skip), (900000, .pay [450]), (990000, .off)]
    = { total := 900, avail := 0, days := 2, minLock := 1, active := false, start := 986400, count := 2 } := by decide

end ExtProgrammes

end Comdex.C19
