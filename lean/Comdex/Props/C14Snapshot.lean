import Comdex.Model.EsmSnapshot
import Comdex.Lemmas.EsmSnapshot
/-! # C14, ESM branch — the price snapshot after an emergency shutdown is only ever taken from ACTIVE feeds

Clause → theorem ("whenever the oracle price needed by an operation is missing or inactive, the operation fails rather than
proceeding with a stale or zero price" — after ExecuteESM the vault module and the redemption code read the snapshot that the
esm BeginBlocker takes, so the clause becomes a statement about how that snapshot is built)

| clause | theorem |
|---|---|
| a snapshot entry is only ever written from the TWA of a found, active feed, in some block since the shutdown | `snapshot_entries_only_from_active` |
| the status completes only in a block in which no found feed is inactive, and then every found feed has an entry | `snapshot_completes_only_when_all_active`, `snapshot_status_false_while_inactive` |
| a consumer gets a price only from a complete snapshot, and that price was an active feed's TWA | `snapshot_price_only_from_active` |
| feed inactive / missing in EVERY block since the shutdown ⇒ no price, whatever the history; an operation needing it is refused | `never_active_no_snapshot_price`, `never_active_unavailable` |
| an entry is never overwritten; a complete snapshot is final | `snapshot_entry_never_changes`, `snapshot_complete_is_final` |
| the model passes the driver's per-block monitor `snapshot_only_from_active` (`stepOk`) | `snapshot_monitor_sound` |

All for EVERY sequence of blocks and feed states (induction over the blocks and over the asset list, `Lemmas/EsmSnapshot.lean`).
`Drv/EsmSnapshot.lean` replays every real block on `snapshotStep` (DIFF) and evaluates `stepOk` on the real before/after (MON). -/
namespace Comdex.C14
open Comdex.EsmSnapshot

/-- whatever is in the snapshot after any number of blocks was the TWA of that asset's feed in one of those blocks, and the
feed was found and ACTIVE in that block -/
theorem snapshot_entries_only_from_active (blocks : List (List Feed)) (a p : Nat)
    (h : (a, p) ∈ (run {} blocks).entries) :
    ∃ fs ∈ blocks, ∃ f ∈ fs, f.asset = a ∧ f.found = true ∧ f.active = true ∧ f.twa = p := by
  rcases run_mem blocks {} a p h with h | h
  · simp at h
  · exact h

/-- the snapshot is complete only if there was a block in which every found feed was active; every found feed of that block
has an entry in the final snapshot -/
theorem snapshot_completes_only_when_all_active (blocks : List (List Feed)) (h : (run {} blocks).status = true) :
    ∃ fs ∈ blocks, ∀ f ∈ fs, f.found = true → f.active = true ∧ (lookup (run {} blocks).entries f.asset).isSome = true := by
  rcases run_status blocks {} h with h | h
  · simp at h
  · exact h

/-- while any found feed is inactive the status stays false (one block) -/
theorem snapshot_status_false_while_inactive (st : St) (fs : List Feed) (hs : st.status = false)
    (h : ∃ f ∈ fs, f.found = true ∧ f.active = false) : (snapshotStep st fs).status = false := by
  simp [snapshotStep, hs, walk_inactive fs st.entries h]

/-- the price a consumer can get after the shutdown was an active feed's TWA -/
theorem snapshot_price_only_from_active (blocks : List (List Feed)) (a p : Nat)
    (h : snapshotPrice (run {} blocks) a = some p) :
    ∃ fs ∈ blocks, ∃ f ∈ fs, f.asset = a ∧ f.found = true ∧ f.active = true ∧ f.twa = p := by
  unfold snapshotPrice at h
  split at h
  · exact snapshot_entries_only_from_active blocks a p (lookup_mem h)
  · simp at h

/-- a feed that was inactive or missing in EVERY block since the shutdown yields no price — for every history -/
theorem never_active_no_snapshot_price (blocks : List (List Feed)) (a : Nat)
    (h : ∀ fs ∈ blocks, activeIn fs a = false) : snapshotPrice (run {} blocks) a = none := by
  cases hp : snapshotPrice (run {} blocks) a with
  | none => rfl
  | some p =>
    obtain ⟨fs, hfs, f, hf, h1, h2, h3, _⟩ := snapshot_price_only_from_active blocks a p hp
    have : activeIn fs a = true := by
      simp only [activeIn, List.any_eq_true]
      exact ⟨f, hf, by simp [h1, h2, h3]⟩
    rw [h fs hfs] at this
    simp at this

/-- … so an operation that needs it is not served -/
theorem never_active_unavailable (blocks : List (List Feed)) (needs : List Nat) (a : Nat) (ha : a ∈ needs)
    (h : ∀ fs ∈ blocks, activeIn fs a = false) : available (run {} blocks) needs = false := by
  cases hv : available (run {} blocks) needs with
  | false => rfl
  | true =>
    simp only [available, List.all_eq_true] at hv
    have := hv a ha
    simp [never_active_no_snapshot_price blocks a h] at this

theorem snapshot_entry_never_changes (blocks : List (List Feed)) (st : St) (a p : Nat)
    (h : lookup st.entries a = some p) : lookup (run st blocks).entries a = some p :=
  run_lookup_stable blocks st a p h

theorem snapshot_complete_is_final (blocks : List (List Feed)) (st : St) (h : st.status = true) : run st blocks = st :=
  run_status_stable blocks st h

/-- the model satisfies the decidable per-block form that the driver evaluates on the REAL before/after states -/
theorem snapshot_monitor_sound (st : St) (fs : List Feed) : stepOk fs st (snapshotStep st fs) = true := by
  simp only [stepOk, Bool.and_eq_true, List.all_eq_true]
  refine ⟨⟨?_, ?_⟩, ?_⟩
  · rintro ⟨a, p⟩ he
    have hsome := mem_lookup_isSome he
    cases hl : lookup st.entries a with
    | none => simp [hl] at hsome
    | some q => simp [step_lookup_stable st fs a q hl]
  · rintro ⟨a, p⟩ he
    rcases step_mem st fs a p he with h | ⟨f, hf, h1, h2, h3, h4⟩
    · simp [mem_lookup_isSome h]
    · have : activeAt fs a p = true := by
        simp only [activeAt, List.any_eq_true]
        exact ⟨f, hf, by simp [h1, h2, h3, h4]⟩
      simp [this]
  · by_cases hs : st.status = true
    · simp [hs]
    · cases hw : (snapshotStep st fs).status with
      | false => simp
      | true =>
        have hw' : (walk fs st.entries).2 = true := by simpa [snapshotStep, hs] using hw
        have he : (snapshotStep st fs).entries = (walk fs st.entries).1 := by simp [snapshotStep, hs]
        simp only [Bool.not_true, Bool.or_false, Bool.or_eq_true, List.all_eq_true, Bool.not_eq_true', Bool.and_eq_true]
        refine Or.inr ?_
        intro f hf
        cases hfound : f.found with
        | false => simp
        | true =>
          obtain ⟨h1, h2⟩ := walk_done fs st.entries hw' f hf hfound
          exact Or.inr ⟨h1, by rw [he]; exact h2⟩

/-! ## non-vacuity: the collateral feed (asset 1) is inactive with a stale TWA of 1180559 when the app is shut down, stays so for
two blocks and comes back with 846285 in the third; asset 2 is fine throughout -/

private def stale : List Feed := [⟨1, true, false, 1180559⟩, ⟨2, true, true, 1000000⟩]
private def later : List Feed := [⟨1, true, false, 1180559⟩, ⟨2, true, true, 990000⟩]
private def fresh : List Feed := [⟨1, true, true, 846285⟩, ⟨2, true, true, 990000⟩]

example : run {} [stale, later] = { entries := [], status := false } := by decide
example : run {} [stale, later, fresh] = { entries := [(1, 846285), (2, 990000)], status := true } := by decide
example : snapshotPrice (run {} [stale, later]) 1 = none ∧ available (run {} [stale, later]) [1, 2] = false := by decide
example : snapshotPrice (run {} [stale, later, fresh]) 1 = some 846285 := by decide
/-- an asset after the inactive one is not reached, one before it gets its entry at once and keeps it -/
example : run {} [[⟨2, true, true, 1000000⟩, ⟨1, true, false, 1180559⟩], [⟨2, true, true, 990000⟩, ⟨1, true, true, 846285⟩]] =
    { entries := [(2, 1000000), (1, 846285)], status := true } := by decide
/-- a MISSING record is skipped (`continue`): the snapshot completes without an entry, the consumer still gets no price -/
example : run {} [[⟨1, false, false, 0⟩, ⟨2, true, true, 1000000⟩]] = { entries := [(2, 1000000)], status := true } ∧
    available (run {} [[⟨1, false, false, 0⟩, ⟨2, true, true, 1000000⟩]]) [1, 2] = false := by decide
/-- what the per-block monitor rejects: an entry taken from the inactive feed's stored TWA, status set -/
example : stepOk stale {} { entries := [(1, 1180559), (2, 1000000)], status := true } = false := by decide
example : stepOk stale {} (snapshotStep {} stale) = true := by decide

end Comdex.C14
