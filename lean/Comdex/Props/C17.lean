import Comdex.Lemmas.Twa
/-!
# C17 — Oracle price averaging is exact and activates only on a full window

Property clause → theorem
* "never indexes outside its window or panics for any sample sequence"      → `C17.no_panic`
  (with `C17.latest_price_in_bounds` for the reader `GetLatestPrice`)
* "published time-weighted price equals the integer mean of the most recent N samples"
                                                                              → `C17.refines_spec` + `C17.active_mean`
* "becomes active only after N positive samples have been received"          → `C17.active_only_after_N_positive`
* "a zero sample deactivates the price until fresh data arrives"             → `C17.zero_sample_deactivates`,
                                                                                `C17.positive_sample_reactivates_full_window`
* "consumers asking for the value of an asset with an inactive price get an error" → `C17.inactive_valuation_refused`
* the mean fits the `uint64` it is stored in                                  → `C17.mean_fits_word`

All statements quantify over every window size `N ≥ 1`, every accepted-height gap `acc`, every
finite op list (`sample rate height` with `height > 0`, `discardAll`, `deactivate`) from the empty store.

* the premise "for a FIXED window size N": on the chain N and the gap are (re)installed by governance; every installation
  deletes every stored window, so every maximal stretch between two installations is such an op list from the empty
  store                                                   → `Props/C17Reconf.lean` (`every_segment_is_a_fresh_run`,
                                                             `no_oob_across_reconfigurations`, `activation_needs_N_fresh_positive`, …)
* how the chain produces the sample sequences of all assets → `Props/C17Feed.lean`, `C17Reconf.chain_window_history`
* the last clause per real consumer                        → `C17Reconf.strict_readers_fail_closed` (+ finding D35)
-/
namespace Comdex.C17
open Comdex.Twa

/-- chain heights are positive -/
def HeightsPos (ops : List Op) : Prop := ∀ op ∈ ops, ∀ r h, op = Op.sample r h → h > 0

def specRun (N : Nat) (acc : Int) (s : Spec) (ops : List Op) : Spec := ops.foldl (Spec.step N acc) s

theorem run_refines (N : Nat) (hN : N ≥ 1) (acc : Int) (ops : List Op) (s : Option Rec)
    (hwf : WfO N s) (hh : HeightsPos ops) :
    ∃ s', run N acc s ops = .ok s' ∧ WfO N s' ∧ abs s' = specRun N acc (abs s) ops := by
  induction ops generalizing s with
  | nil => exact ⟨s, rfl, hwf, rfl⟩
  | cons op ops ih =>
    obtain ⟨s1, h1, hwf1, habs1⟩ := step_refines N hN acc s op hwf
      (fun r h e => hh op (by simp) r h e)
    obtain ⟨s2, h2, hwf2, habs2⟩ := ih s1 hwf1 (fun o ho => hh o (by simp [ho]))
    refine ⟨s2, ?_, hwf2, ?_⟩
    · simp [run, h1, h2, bind, Except.bind]
    · rw [habs2, habs1]; rfl

/-- **No panic, no out-of-window index**: every op sequence from the empty store runs to completion. -/
theorem no_panic (N : Nat) (hN : N ≥ 1) (acc : Int) (ops : List Op) (hh : HeightsPos ops) :
    ∃ s', run N acc none ops = .ok s' ∧ WfO N s' :=
  let ⟨s', h, w, _⟩ := run_refines N hN acc ops none trivial hh; ⟨s', h, w⟩

/-- **Refinement**: what is stored is, observably, the sliding-window specification. -/
theorem refines_spec (N : Nat) (hN : N ≥ 1) (acc : Int) (ops : List Op) (hh : HeightsPos ops) :
    ∃ s', run N acc none ops = .ok s' ∧ abs s' = specRun N acc Spec.init ops :=
  let ⟨s', h, _, a⟩ := run_refines N hN acc ops none trivial hh; ⟨s', h, a⟩

/-- Spec invariant: an active price has a full window and publishes its integer mean. -/
def SpecInv (N : Nat) (s : Spec) : Prop :=
  s.window.length ≤ N ∧ (s.active = true → s.window.length = N ∧ s.twa = s.window.sum / N)

theorem lastN_length_le (N : Nat) (l : List Nat) : (lastN N l).length ≤ N := by
  unfold lastN; simp; omega

theorem push_inv (N : Nat) (s : Spec) (rate : Nat) (h : SpecInv N s) : SpecInv N (s.push N rate) := by
  obtain ⟨hl, ha⟩ := h
  unfold Spec.push
  by_cases hw : (lastN N (s.window ++ [rate])).length = N
  · simp only [hw, if_true]; exact ⟨by simp [hw], fun _ => ⟨hw, rfl⟩⟩
  · simp only [hw, if_false]
    refine ⟨lastN_length_le _ _, fun hact => ?_⟩
    exfalso; apply hw
    have := (ha hact).1
    unfold lastN; simp [this]

theorem resume_inv (N : Nat) (acc : Int) (s : Spec) (ht : Int) (h : SpecInv N s) :
    SpecInv N (s.resume acc ht) := by
  obtain ⟨hl, ha⟩ := h
  unfold Spec.resume
  split
  · split
    · exact ⟨hl, ha⟩
    · exact ⟨by simp, by simp⟩
  · exact ⟨hl, ha⟩

theorem spec_step_inv (N : Nat) (acc : Int) (s : Spec) (op : Op) (h : SpecInv N s) :
    SpecInv N (s.step N acc op) := by
  cases op with
  | discardAll => exact ⟨by simp [Spec.step], by simp [Spec.step]⟩
  | deactivate => exact ⟨by simpa [Spec.step] using h.1, by simp [Spec.step]⟩
  | sample rate ht =>
    simp only [Spec.step, Spec.sample]
    split
    · split
      · exact ⟨h.1, by simp⟩
      · exact h
    · exact push_inv N _ rate (resume_inv N acc s ht h)

theorem spec_run_inv (N : Nat) (acc : Int) (ops : List Op) (s : Spec) (h : SpecInv N s) :
    SpecInv N (specRun N acc s ops) := by
  induction ops generalizing s with
  | nil => exact h
  | cons op ops ih => exact ih _ (spec_step_inv N acc s op h)

/-- **Mean**: whenever the stored price is active, the published value is `⌊Σ window / N⌋` over a
window of exactly `N` samples, where `window` is (by `refines_spec`) the last `N` positive samples. -/
theorem active_mean (N : Nat) (hN : N ≥ 1) (acc : Int) (ops : List Op) (hh : HeightsPos ops) :
    ∃ s', run N acc none ops = .ok s' ∧
      ((abs s').active = true → (abs s').window.length = N ∧ (abs s').twa = (abs s').window.sum / N) := by
  obtain ⟨s', h, a⟩ := refines_spec N hN acc ops hh
  refine ⟨s', h, ?_⟩
  rw [a]
  exact (spec_run_inv N acc ops Spec.init ⟨by simp [Spec.init], by simp [Spec.init]⟩).2

/-- number of positive samples in a history -/
def countPos : List Op → Nat
  | [] => 0
  | .sample r _ :: t => (if r > 0 then 1 else 0) + countPos t
  | _ :: t => countPos t

theorem spec_window_le_count (N : Nat) (acc : Int) (ops : List Op) (s : Spec) :
    (specRun N acc s ops).window.length ≤ s.window.length + countPos ops := by
  induction ops generalizing s with
  | nil => simp [specRun, countPos]
  | cons op ops ih =>
    have := ih (s.step N acc op)
    simp only [specRun, List.foldl_cons] at *
    refine Nat.le_trans this ?_
    cases op with
    | discardAll => simp [Spec.step, countPos]
    | deactivate => simp [Spec.step, countPos]
    | sample rate ht =>
      simp only [Spec.step, Spec.sample, countPos]
      by_cases hr : rate = 0
      · simp only [hr, if_true]; split <;> simp
      · have hr' : rate > 0 := by omega
        simp only [hr, hr', if_true, if_false]
        have hres : (s.resume acc ht).window.length ≤ s.window.length := by
          unfold Spec.resume
          by_cases h1 : s.discarded > 0 <;> by_cases h2 : ht - s.discarded < acc <;> simp [h1, h2] <;> omega
        have hpush : ∀ t : Spec, (t.push N rate).window.length ≤ t.window.length + 1 := by
          intro t; unfold Spec.push
          have : (lastN N (t.window ++ [rate])).length ≤ t.window.length + 1 := by
            unfold lastN; simp only [List.length_drop, List.length_append, List.length_singleton]; omega
          dsimp only
          split <;> simpa using this
        have := hpush (s.resume acc ht)
        omega

/-- **Activation needs a full window of positive samples.** -/
theorem active_only_after_N_positive (N : Nat) (hN : N ≥ 1) (acc : Int) (ops : List Op)
    (hh : HeightsPos ops) :
    ∃ s', run N acc none ops = .ok s' ∧ ((abs s').active = true → countPos ops ≥ N) := by
  obtain ⟨s', h, _, a⟩ := run_refines N hN acc ops none trivial hh
  refine ⟨s', h, fun ha => ?_⟩
  have hinv := spec_run_inv N acc ops Spec.init ⟨by simp [Spec.init], by simp [Spec.init]⟩
  have hc := spec_window_le_count N acc ops Spec.init
  have a' : specRun N acc Spec.init ops = abs s' := by rw [a]; rfl
  rw [a'] at hinv hc
  have hl := (hinv.2 ha).1
  simp [Spec.init] at hc; omega

/-- **A zero sample deactivates**, from any reachable (well-formed) stored state. -/
theorem zero_sample_deactivates (N : Nat) (hN : N ≥ 1) (acc : Int) (s : Option Rec) (hwf : WfO N s)
    (h : Int) (hpos : h > 0) :
    ∃ s', step N acc s (.sample 0 h) = .ok s' ∧ (abs s').active = false := by
  obtain ⟨s', hs, hwf', _⟩ := step_refines N hN acc s (.sample 0 h) hwf
    (fun r h' e => by cases e; exact hpos)
  refine ⟨s', hs, ?_⟩
  cases s with
  | none => simp [step, update] at hs; cases hs; simp [abs, Spec.init]
  | some r =>
    obtain ⟨_, _, _, _, hdisc, hnz⟩ := hwf
    by_cases hd : r.discarded < 0
    · simp [step, update, discardPhase, hd] at hs; cases hs; simp [abs]
    · simp [step, update, discardPhase, hd] at hs; cases hs
      simp only [abs]; exact hdisc (by omega)

/-- **Reactivation as configured**: a positive sample on a full window republishes the mean at once
(within the accepted gap the window is kept; beyond it the window restarts from this sample). -/
theorem positive_sample_reactivates_full_window (N : Nat) (acc : Int) (s : Spec) (rate : Nat)
    (h : Int) (hr : rate > 0) :
    let s' := s.sample N acc rate h
    (s'.window.length = N → s'.active = true ∧ s'.twa = s'.window.sum / N) ∧
    (s.discarded > 0 → ¬ (h - s.discarded < acc) → s'.window = lastN N [rate]) := by
  have hr0 : ¬ rate = 0 := by omega
  refine ⟨?_, ?_⟩
  · intro hl
    simp only [Spec.sample, hr0, if_false, Spec.push] at hl ⊢
    split
    · exact ⟨rfl, rfl⟩
    · next hw => simp only [hw, if_false] at hl
  · intro hd hg
    simp only [Spec.sample, hr0, if_false, Spec.push, Spec.resume, hd, hg, if_true]
    split <;> simp

/-- **Fail-closed valuation**: a consumer gets a value iff the price is active. -/
theorem inactive_valuation_refused (s : Option Rec) :
    valuation s = none ↔ (abs s).active = false := by
  cases s with
  | none => simp [valuation, abs, Spec.init]
  | some r => by_cases h : r.active <;> simp [valuation, abs, h]

/-- `GetLatestPrice` never indexes outside the window on a reachable record. -/
theorem latest_price_in_bounds (N : Nat) (s : Option Rec) (hwf : WfO N s) :
    ∃ v, latestPrice s = .ok v := by
  cases s with
  | none => exact ⟨none, rfl⟩
  | some r =>
    obtain ⟨hle, hlt, hfull, _, _, _⟩ := hwf
    by_cases ha : r.active = true
    · have hlen : r.values.length = N := by
        rcases Nat.lt_or_ge r.values.length N with h | h
        · have := (hlt h).2; rw [ha] at this; cases this
        · omega
      have hi : r.idx < r.values.length := by have := hfull hlen; omega
      refine ⟨some r.values[r.idx], ?_⟩
      simp [latestPrice, ha, List.getElem?_eq_getElem hi]
    · exact ⟨none, by simp [latestPrice, ha]⟩

/-- The published mean fits the machine word the samples came from. -/
theorem mean_fits_word (B N : Nat) (hN : N ≥ 1) (w : List Nat) (hl : w.length = N)
    (hb : ∀ x ∈ w, x < B) : w.sum / N < B := by
  have hs : ∀ l : List Nat, (∀ x ∈ l, x < B) → l ≠ [] → l.sum < B * l.length := by
    intro l hl hne
    induction l with
    | nil => exact absurd rfl hne
    | cons a t ih =>
      have ha : a < B := hl a (by simp)
      by_cases ht : t = []
      · subst ht; simp; omega
      · have := ih (fun x hx => hl x (by simp [hx])) ht
        simp [Nat.mul_add]; omega
  have hne : w ≠ [] := by intro h; subst h; simp at hl; omega
  have := hs w hb hne
  rw [hl] at this
  exact (Nat.div_lt_iff_lt_mul (by omega)).mpr this

/-! ### Non-vacuity: concrete runs that meet the hypotheses and reach the interesting states -/
example : run 3 5 none [.sample 10 1, .sample 20 2, .sample 33 3, .sample 40 4] =
    .ok (some { values := [40, 20, 33], idx := 1, twa := 31, active := true, discarded := -1 }) := by
  rfl
example : HeightsPos [.sample 10 1, .sample 0 2, .sample 7 9] := by
  intro op ho r h e; simp at ho; rcases ho with rfl | rfl | rfl <;> cases e <;> decide
example : (specRun 2 5 Spec.init [.sample 10 1, .sample 20 2, .sample 0 3, .sample 8 9]).window = [8] := by
  decide
example : run 1 5 none [.sample 10 1, .sample 20 2] =
    .ok (some { values := [20], idx := 0, twa := 20, active := true, discarded := -1 }) := by rfl

end Comdex.C17
