import Comdex.Lemmas.Liquidation
import Comdex.Lemmas.LiquidationDec
/-!
# C09 — Liquidation is safe and live: only unsafe positions are seized, and all are

Property clause → theorem  (model: `Comdex/Model/Liquidation.lean`, both generations)

* "a vault whose collateral value / total debt (principal + accrued interest + closing fee) is at or above the
  product's liquidation ratio, and a borrow whose debt-to-collateral ratio is at or below the applicable threshold,
  is never seized, neither by the per-block sweep nor by anyone's liquidate message"
    → `C09.safe_never_seized` (generation-2 hook, generation-1 hook, generation-2 message with any type/id,
      generation-1 message with any app/id: every vault that disappears satisfies the code's test `CR < MinCr` on the
      recorded debt; every unflagged borrow that fails the code's test keeps its record),
      `C09.ratio_test_safe_side_exact` / `C09.borrow_ratio_test_safe_side_exact` (the `Dec` roundings never turn an
      exact ratio on the safe side into a failing test), `C09.unsafe_test_is_strict`, `C09.borrow_threshold_cases` (which of
      the three thresholds applies to which kind of borrow) and `C09.borrow_at_or_below_threshold_is_safe` (all three cases).
* batched sweep: `C09.slice_in_bounds` (`0 ≤ start ≤ end ≤ len` for all `len ≥ 0`, `off`, `batch`, also negative ones, whose
  sum `off + batch` stays below 2^63; beyond that Go's `int` addition wraps and the claim is false of the code:
  `C09.slice_in_bounds_wrap_counterexample` — found by the regenerated translation, `Props/C09Pure.lean`),
  `C09.slice_panics_iff_counter_exceeds_list` (the list is sliced by bounds computed from an independent counter:
  exactly when that panics — used by C15), `C09.pass_follows_abstract_sweep`.
* "every position on the unsafe side is seized within a bounded number of blocks (at most two full sweeps)"
    → FALSE as stated: `C09.two_sweeps_counterexample` (D9, replayed on the real code of both generations by the harness);
      what IS true: `C09.v2_vault_offset_independent_of_borrow_pass` (since fix 16be2e4 the borrow sweep keeps its own
      offset: the vault sweep of generation 2 follows the abstract sweep like generation 1), `C09.v2_witness_seized`, `C09.sweep_live_partial` (excluded adversarial condition: during the `i / batch + 1` blocks of the
      sweep some position BEFORE the unsafe one is deleted — closed by its owner or itself seized),
      `C09.two_sweeps_if_one_shift`, `C09.unsafe_processed_is_seized` (a position handed to the step IS seized when
      liquidation and the auction type are enabled, prices active, no emergency control).
* "seizure moves exactly the recorded collateral into auction custody and opens exactly one auction for it"
    → `C09.seize_moves_exactly_collateral` (vaults, both generations: the WHOLE recorded collateral moves, is the amount on the
      locked vault and on the auction, never exceeds custody; debt / fee / bonus / target / ratio on the locked vault as the code
      computes them after booking the interest; lend accounting untouched), `C09.seize_opens_one_auction`,
      `C09.borrow_step_atomic` (generation-2 borrow: pledged amount pool → auction, cTokens burnt, fee and bonus on the principal,
      target = principal + fee, `TotalBorrowed` / `TotalLend` / lend position reduced by exactly what left),
      `C09.flagged_borrow_is_backed`, `C09.failing_step_leaves_no_writes`; generation-1 borrow sell-off:
      `C09.v1_selloff_records` and — FALSE for the transfers — `C09.v1_selloff_can_exceed_collateral_counterexample` (D33).
* generation-1 borrows end to end (sweep `LiquidateBorrows`, message `MsgLiquidateBorrow`, sell-off, auction start)
    → `C09.v1_borrow_safe_never_seized` (ONE test for both paths: a borrow safe under the applicable, e-mode aware threshold, or
      kill-switched, is seized by neither the sweep nor anybody's message — the message since fix f18ae51, finding D38; what the
      unrepaired message did: `C09.v1_msg_borrow_ignored_emode_before_fix_counterexample`),
      `C09.v1_borrow_seizure_effect` (exactly one locked vault and one lend auction, amounts, custody).
* "opens exactly one auction for it", for every auction type the whitelisting can select, and nothing seized when none is
    → `C09.auction_type_follows_whitelisting`; the messages that seize nobody: `C09.external_liquidation_touches_no_position`;
      `MsgLiquidateInternalKeeper` = step + keeper mark: `C09.keeper_message_is_step_plus_mark`.
* the vault sweep's window is untouched by every non-vault seizure (borrow step / pass, external-keeper, reserve message)
    → `C09.nonvault_seizure_leaves_vault_window` (round-6 seed s107; monitor `vault_counter_follows_vault_seizures`).
* liveness when governance changes the batch size mid-sweep → `C09.sweep_live_varbatch_partial` (any positive sizes; the block
  that covers index `i` comes at most `i` blocks after the sweep start), `C09.zero_batch_processes_nothing` (why `> 0` is validated).
* accrual: `C09.vault_safe_after_accrual_not_seized`, `C09.vault_decision_is_on_recorded_debt` (the vault decision ignores
  interest not yet booked), `C09.borrow_decision_after_accrual`.
* emergency controls and whitelisting: `C09.safe_never_seized` now carries `GuardsOff` for every removed vault and the kill
  switch / whitelisting for every flagged borrow; `C09.guarded_vault_never_seized`, `C09.guards_reject`.
-/
namespace Comdex.C09
open Comdex Comdex.Liquidation

/-! ## safety -/

/-- **Safe positions are never seized, guarded positions neither** — all four entry points, all states, all inputs.
`Removes e w w'`: `w'.vaults ⊆ w.vaults` and every vault of `w` missing in `w'` satisfies `vaultUnsafe e` (the code's
`CR(amountIn, principal + interest + closingFee) < MinCr` on the recorded debt) AND `GuardsOff` (no ESM, no kill switch for its
app, app whitelisted for liquidation).  `KeepsB`: an unflagged borrow that fails `borrowUnsafe e` (ratio AFTER the accrual >
applicable threshold), or whose app has the kill switch on, or is not whitelisted, is still there with an identical record.
`AppsUnique`: app records are keyed by id. -/
theorem safe_never_seized :
    (∀ e batch w w', NodupIds w → NodupB w → (blockV2 e batch w).world? = some w' → Removes e w w' ∧ KeepsB e w w') ∧
    (∀ e batch w w', AppsUnique e → NodupIds w → (blockV1 e batch w).world? = some w' → Removes e w w') ∧
    (∀ e liqType id w w', NodupIds w → NodupB w → msgLiquidateV2 e liqType id w = some w' → Removes e w w' ∧ KeepsB e w w') ∧
    (∀ e app id w w', NodupIds w → msgLiquidateVaultV1 e app id w = some w' → Removes e w w') :=
  ⟨fun e batch w w' hn hb h => let r := blockV2_rel e batch w w' hn hb h; ⟨r.1, r.2.1⟩,
   fun e batch w w' hU hn h => blockV1_rel e batch w w' hU hn h,
   fun e t id w w' hn hb h => let r := msgLiquidateV2_rel e t id w w' hn hb h; ⟨r.1, r.2.1⟩,
   fun e a id w w' hn h => (msgLiquidateVaultV1_rel e a id w w' hn h).1⟩

/-- **Guard on ⇒ nothing seized** (corollary, contrapositive form): whatever the entry point, a vault whose app has the ESM
executed, or the kill switch on, or is whitelisted in neither generation, is still there afterwards. -/
theorem guarded_vault_never_seized (e : Env) (w w' : World) (hr : Removes e w w') (q : Vault) (hq : q ∈ w.vaults)
    (hg : (e.app q.app).esm = true ∨ (e.app q.app).kill = true ∨ ((e.app q.app).wl2 = false ∧ (e.app q.app).wl1 = false)) :
    q ∈ w'.vaults := by
  apply Classical.byContradiction
  intro hn
  obtain ⟨_, h1, h2, h3⟩ := hr.2 q hq hn
  rcases hg with hg | hg | hg
  · rw [h1] at hg; cases hg
  · rw [h2] at hg; cases hg
  · rcases h3 with h3 | h3
    · rw [hg.1] at h3; cases h3
    · rw [hg.2] at h3; cases h3

/-- **The guards of the liquidate messages and of the per-position steps reject outright** (`none` = the transaction
fails / the wrapped step is rolled back): generation 2 vault step under ESM, kill switch or missing whitelisting;
generation 2 borrow step under the kill switch (an unflagged borrow); generation 1 message for an app that is not whitelisted
or has ESM / kill switch on; and the generation 1 sweep skips such an app entirely. -/
theorem guards_reject :
    (∀ (e : Env) (id : Nat) (w : World) (v : Vault), w.vaults.find? (·.id == id) = some v →
      ((e.app v.app).esm = true ∨ (e.app v.app).kill = true ∨ (e.app v.app).wl2 = false) → liquidateVaultV2 e id w = none) ∧
    (∀ (e : Env) (id : Nat) (w : World) (b : Borrow), w.borrows.find? (·.id == id) = some b → b.liquidated = false →
      (e.app b.app).kill = true → liquidateBorrowV2 e id w = none) ∧
    (∀ (e : Env) (app id : Nat) (w : World),
      ((e.app app).wl1 = false ∨ (e.app app).kill = true ∨ (e.app app).esm = true) → msgLiquidateVaultV1 e app id w = none) ∧
    (∀ (e : Env) (batch : Nat) (a : App) (rest : List App) (w : World), (a.kill = true ∨ a.esm = true) →
      appsLoopV1 e batch (a :: rest) w = appsLoopV1 e batch rest w) := by
  refine ⟨?_, ?_, ?_, ?_⟩
  · intro e id w v hf hg
    unfold liquidateVaultV2
    simp only [hf]
    rcases hg with hg | hg | hg <;> simp [hg]
  · intro e id w b hf hl hk
    unfold liquidateBorrowV2
    simp [hf, hl, hk]
  · intro e app id w hg
    unfold msgLiquidateVaultV1
    rcases hg with hg | hg | hg <;> simp [hg]
  · intro e batch a rest w hg
    conv => lhs; unfold appsLoopV1
    rcases hg with hg | hg <;> simp [hg]

/-- the test is the strict one: a vault exactly AT the liquidation ratio is not unsafe -/
theorem unsafe_test_is_strict (e : Env) (v : Vault) (p : Product) (hp : e.product? v.prod = some p)
    (h : vaultCR e p v.amountIn v.totalOut = some p.minCr) : vaultUnsafe e v = false := by
  unfold vaultUnsafe vaultCRof
  simp [hp, h]

/-- `Dec` rounding, vaults: if the exact quotient collateral value / debt value is at or above the liquidation ratio
(`minCr · vout ≤ vin · 10¹⁸` on raw values) the computed ratio `vin.Quo(vout)` does not test below it. -/
theorem ratio_test_safe_side_exact (vin vout minCr : Dec) (hin : 0 ≤ vin) (hout : 0 < vout)
    (h : minCr * vout ≤ vin * Dec.P) : ¬ (Dec.quo vin vout < minCr) := by
  exact Int.not_lt.mpr (quo_ge_of_ratio_ge vin vout minCr hin hout h)

/-- `Dec` rounding, borrows: if debt value / collateral value is at or below the threshold the computed ratio does not
test above it. -/
theorem borrow_ratio_test_safe_side_exact (tout tin thr : Dec) (hout : 0 ≤ tout) (hin : 0 < tin)
    (h : tout * Dec.P ≤ thr * tin) : ¬ (Dec.quo tout tin > thr) := by
  exact Int.not_lt.mpr (quo_le_of_ratio_le tout tin thr hout hin h)

/-- **Which threshold applies to which kind of borrow** (liquidate.go:300-356): a same-pool borrow (no bridged amount) is
judged against the collateral asset's threshold; a cross-pool borrow whose bridged coin is the FIRST transit asset of the
lender's pool against collateral threshold × first transit asset's threshold; every other cross-pool borrow against
collateral threshold × SECOND transit asset's threshold; the collateral threshold is the e-mode one iff the pair is in e-mode. -/
theorem borrow_threshold_cases (b : Borrow) :
    (b.bridgedAmount = 0 → borrowThreshold b = b.baseThreshold) ∧
    (b.bridgedAmount ≠ 0 → b.bridgedAsset = b.firstTransit → borrowThreshold b = Dec.mul b.baseThreshold b.ltFirst) ∧
    (b.bridgedAmount ≠ 0 → b.bridgedAsset ≠ b.firstTransit → borrowThreshold b = Dec.mul b.baseThreshold b.ltSecond) ∧
    (b.baseThreshold = if b.emode then b.elt else b.lt) := by
  refine ⟨fun h => ?_, fun h1 h2 => ?_, fun h1 h2 => ?_, rfl⟩
  · unfold borrowThreshold Borrow.bridge; simp [h]
  · unfold borrowThreshold Borrow.bridge; simp [h1, h2]
  · unfold borrowThreshold Borrow.bridge; simp [h1, h2]

/-- **A borrow at or below its applicable threshold is not unsafe** — all three cases, all inputs: if the exact quotient
debt value / collateral value is `≤ borrowThreshold b` the code's test `ratio.GT(threshold)` fails, so (by
`safe_never_seized`) neither the sweep nor a message touches it. -/
theorem borrow_at_or_below_threshold_is_safe (e : Env) (b : Borrow) (tin tout : Dec)
    (hin : e.valueOf b.assetIn b.amountIn = some tin) (hout : e.valueOf b.assetOut b.debt = some tout)
    (hpos : 0 < tin) (hnn : 0 ≤ tout) (h : tout * Dec.P ≤ borrowThreshold b * tin) : borrowUnsafe e b = false := by
  unfold borrowUnsafe borrowRatio
  have hne : ¬ (tin = 0) := fun h0 => by rw [h0] at hpos; exact absurd hpos (by decide)
  simp only [hin, hout, hne, if_false]
  have := borrow_ratio_test_safe_side_exact tout tin (borrowThreshold b) hnn hpos h
  simpa using this

/-! ## the batched sweep -/

/-- **`GetSliceStartEndForLiquidations` stays inside the list** for every non-negative length and all offsets and
batch sizes (negative ones included) whose sum does not leave the Go `int` range, also after the wrap-around second
call.  (Without the range hypothesis the statement is FALSE of the code: `slice_in_bounds_wrap_counterexample`.) -/
theorem slice_in_bounds (len off batch : Int) (hl : 0 ≤ len) (hb : batch < 9223372036854775808)
    (hw : off + batch < 9223372036854775808) :
    (0 ≤ (sliceBoundsI len off batch).1 ∧ (sliceBoundsI len off batch).1 ≤ (sliceBoundsI len off batch).2 ∧
      (sliceBoundsI len off batch).2 ≤ len) ∧
    (0 ≤ (sweepBoundsI len off batch).1 ∧ (sweepBoundsI len off batch).1 ≤ (sweepBoundsI len off batch).2 ∧
      (sweepBoundsI len off batch).2 ≤ len) :=
  ⟨sliceBoundsI_bounds len off batch hl hw, sweepBoundsI_bounds len off batch hl hb hw⟩

/-- Go `int` addition wraps: with a batch size of `MaxInt64` and offset 1 the helper returns a NEGATIVE end, the
caller's `vaults[1:end]` then panics (reproduced on the real function of both generations; needs the governance
parameter `LiquidationBatchSize ≥ 2^63 − offset`, which `validateLiquidationBatchSize` accepts).  Found by the
regenerated translation, `Props/C09Pure.lean`. -/
theorem slice_in_bounds_wrap_counterexample :
    sliceBoundsI 5 1 9223372036854775807 = (1, -9223372036854775808) := by decide

/-- **The slice expression panics exactly when the stored counter promises more than the list holds.**
The bounds come from the counter `c = LengthOfVault` (an independent `uint64`), the list has `n` entries:
the pass panics iff `c` reads negative as an `int` or `n <` the range end; for `batch > 0` the end is
`min (off+batch) c` while the offset is inside, `min batch c` after a wrap. Hence: never when `c ≤ n`; and when
`c > n` and `batch > 0` the offset `n` — reached by the sweep itself — panics.
(`hb`, `hw`: offset + batch stays inside the Go `int` range, see `slice_in_bounds_wrap_counterexample`.) -/
theorem slice_panics_iff_counter_exceeds_list (batch key off : Nat) (f : Vault → World → Option World) (w : World)
    (hb : toGoInt batch < 9223372036854775808) (hw : toGoInt off + toGoInt batch < 9223372036854775808) :
    (vaultPass batch key off f w = none ↔
      (toGoInt w.counter < 0 ∨
       (w.vaults.length : Int) < (sweepBoundsI (toGoInt w.counter) (toGoInt off) (toGoInt batch)).2)) ∧
    (0 ≤ toGoInt w.counter → 0 ≤ toGoInt off → 0 < toGoInt batch →
      (sweepBoundsI (toGoInt w.counter) (toGoInt off) (toGoInt batch)).2 =
        if toGoInt off < toGoInt w.counter then min (toGoInt off + toGoInt batch) (toGoInt w.counter)
        else min (toGoInt batch) (toGoInt w.counter)) ∧
    (0 ≤ toGoInt w.counter → toGoInt w.counter ≤ w.vaults.length → vaultPass batch key off f w ≠ none) := by
  refine ⟨?_, fun hc ho hb0 => sweepBoundsI_end _ _ _ hc ho hb0 hw, ?_⟩
  · rw [vaultPass_none_iff]
    by_cases hc : 0 ≤ toGoInt w.counter
    · rw [goSlice_none_iff _ _ _ _ hc hb hw]
      constructor
      · intro h; exact Or.inr h
      · intro h; cases h with
        | inl h => omega
        | inr h => exact h
    · constructor
      · intro _; exact Or.inl (by omega)
      · intro _; exact goSlice_neg _ _ _ _ (by omega)
  · intro hc hle hnone
    rw [vaultPass_none_iff, goSlice_none_iff _ _ _ _ hc hb hw] at hnone
    have := (sweepBoundsI_bounds (toGoInt w.counter) (toGoInt off) (toGoInt batch) hc hb hw).2.2
    omega

/-- with a counter larger than the list and a positive batch, the offset equal to the list length makes the pass panic -/
theorem panic_reachable_if_counter_gt_length (batch key : Nat) (f : Vault → World → Option World) (w : World)
    (hb : 0 < batch) (hb' : batch < 2 ^ 63) (hc : w.vaults.length < w.counter) (hc' : w.counter < 2 ^ 63)
    (hw : w.vaults.length + batch < 2 ^ 63) :
    vaultPass batch key w.vaults.length f w = none := by
  have h1 : toGoInt w.counter = w.counter := toGoInt_small _ hc'
  have h2 : toGoInt batch = batch := toGoInt_small _ hb'
  have h3 : toGoInt w.vaults.length = w.vaults.length := toGoInt_small _ (by omega)
  have hall := slice_panics_iff_counter_exceeds_list batch key w.vaults.length f w (by rw [h2]; omega) (by rw [h2, h3]; omega)
  rw [hall.1]
  right
  rw [hall.2.1 (by omega) (by omega) (by omega), h1, h2, h3]
  have : ((w.vaults.length : Nat) : Int) < (w.counter : Int) := by omega
  simp only [this, if_true]
  omega

/-- the concrete pass follows the abstract sweep: with a consistent counter it stores `(sweepBounds n off batch).2` -/
theorem pass_follows_abstract_sweep (batch key off : Nat) (f : Vault → World → Option World) (w w' : World)
    (hc : w.counter = w.vaults.length) (h63 : w.counter < 2 ^ 63) (ho : off < 2 ^ 63) (hb : batch < 2 ^ 63)
    (hw : off + batch < 2 ^ 63) (h : vaultPass batch key off f w = some w') :
    w'.offsets.get? key = some (sweepBounds w.vaults.length off batch).2 := by
  rw [vaultPass_offset batch key off f w w' h]
  have h1 : toGoInt w.counter = (w.vaults.length : Int) := by rw [toGoInt_small _ h63, hc]
  have h2 : toGoInt batch = batch := toGoInt_small _ hb
  have h3 : toGoInt off = off := toGoInt_small _ ho
  rw [h1, h2, h3, sweepBounds_cast _ _ _ (by omega)]
  simp

/-! ## liveness -/

/-- **Liveness, the part that is true** (see `Lemmas`): a sweep that starts at block `t` hands the position at index
`i` to the per-position step in block `t + i / batch`, provided the position stays at index `i` during these blocks —
i.e. it persists and no position BEFORE it is deleted in the meantime (the excluded adversarial condition; appends and
deletions behind it are free). `Evolves`: each block stores its range end as the next offset, as the code does. -/
theorem sweep_live_partial (batch : Nat) (hb : 0 < batch) (r : Nat → Sw) (hev : Evolves batch r)
    (t i p : Nat) (hstart : (r t).starts batch = true)
    (hpos : ∀ k, k ≤ i / batch → (r (t+k)).l[i]? = some p) :
    p ∈ (r (t + i / batch)).processed batch :=
  sweep_live_partial_aux batch hb r hev t i p hstart hpos

/-- **Two sweeps suffice if positions before `p` are deleted in at most one block** (`d`): for any two sweep starts
`w1 < w2`, `p` is processed in the sweep started at `w1` or in the one started at `w2`. -/
theorem two_sweeps_if_one_shift (batch : Nat) (hb : 0 < batch) (r : Nat → Sw) (hev : Evolves batch r)
    (p : Nat) (idx : Nat → Nat) (T : Nat) (hidx : ∀ k, k ≤ T → (r k).l[idx k]? = some p)
    (d : Nat) (hshift : ∀ k, k < T → k ≠ d → idx (k+1) = idx k)
    (w1 w2 : Nat) (h12 : w1 < w2) (hs1 : (r w1).starts batch = true) (hs2 : (r w2).starts batch = true)
    (hT1 : w1 + idx w1 / batch ≤ T) (hT2 : w2 + idx w2 / batch ≤ T) :
    p ∈ (r (w1 + idx w1 / batch)).processed batch ∨ p ∈ (r (w2 + idx w2 / batch)).processed batch :=
  two_sweeps_if_one_shift_aux batch hb r hev p idx T hidx d hshift w1 w2 h12 hs1 hs2 hT1 hT2

/-- D9 schedule: batch 1, positions 1…6, position 6 unsafe throughout; the owners of 1, 2 and 3 close their
positions after blocks 5, 9 and 12 (just before the offset reaches position 6). -/
def d9Schedule : List (List Nat × List Nat) :=
  [([],[]),([],[]),([],[]),([],[]),([1],[]),([],[]),([],[]),([],[]),([2],[]),([],[]),([],[]),([3],[]),([],[]),([],[]),([],[]),([],[])]

def d9States : List Sw := Sw.run 1 (· == 6) d9Schedule { l := [1,2,3,4,5,6], off := 0 }

/-- **"At most two full sweeps" is false.** On the D9 schedule the unsafe position 6 is present before each of the
first 15 blocks, is not handed to the step in blocks 1–14 although four sweeps start in that time (blocks 1, 6, 10, 13),
and is seized only in block 15 > 2·⌈6/1⌉ = 12. The harness replays the schedule on the real generation-1 sweep. -/
theorem two_sweeps_counterexample :
    ((d9States.take 15).all (fun s => s.l.contains 6) = true) ∧
    ((d9States.take 14).all (fun s => !(s.processed 1).contains 6) = true) ∧
    (((d9States.take 14).zipIdx.filter (fun x => x.1.starts 1)).map (·.2 + 1) = [1, 6, 10, 13]) ∧
    ((d9States.getD 14 default).processed 1 = [6]) ∧
    ((d9States.getD 15 default).l.contains 6 = false) := by
  decide

/-- **A processed unsafe position IS seized** when liquidation and its auction type are enabled for the app, no
emergency control is on, prices are active and custody holds the recorded collateral — vaults of generation 2 and 1 (unsafe
on the recorded debt; `k` = the amounts computed after the accrual) and borrows of generation 2 (unsafe AFTER the accrual,
same-pool, cross-pool and e-mode alike: `borrowUnsafe` is the test on `borrowThreshold`). -/
theorem unsafe_processed_is_seized :
    (∀ (e : Env) (id : Nat) (w : World) (v : Vault) (p : Product) (k : Amounts),
      w.vaults.find? (·.id == id) = some v → e.product? v.prod = some p →
      (e.app v.app).esm = false → (e.app v.app).kill = false → (e.app v.app).wl2 = true → (e.app v.app).dutch2 = true →
      e.priceActive p.assetIn = true → e.priceActive p.assetOut = true →
      v.amountIn ≤ w.vaultBal.get p.assetIn → vaultUnsafe e v = true → amountsV2 e p v = some k →
      ∃ w', liquidateVaultV2 e id w = some w' ∧ handOver w v p.assetIn k = some w' ∧ ∀ q, q ∈ w'.vaults → q.id ≠ v.id) ∧
    (∀ (e : Env) (a : Nat) (w : World) (v : Vault) (p : Product) (k : Amounts),
      v.app = a → e.product? v.prod = some p → (e.app a).auc1 = true →
      e.priceActive p.assetIn = true → (p.outOracle = true → e.priceActive p.assetOut = true) →
      v.amountIn ≤ w.vaultBal.get p.assetIn → vaultUnsafe e v = true → amountsV1 e p v = some k →
      ∃ w', liquidateVaultV1 e a v w = some w' ∧ handOver w v p.assetIn k = some w' ∧ ∀ q, q ∈ w'.vaults → q.id ≠ v.id) ∧
    (∀ (e : Env) (id : Nat) (w : World) (b : Borrow) (r : Dec),
      w.borrows.find? (·.id == id) = some b → b.liquidated = false → borrowRatio e b = some r → borrowUnsafe e b = true →
      (e.app b.app).kill = false → (e.app b.app).wl2 = true → (e.app b.app).dutch2 = true →
      e.priceActive b.assetIn = true → e.priceActive b.assetOut = true →
      b.amountIn ≤ w.poolBal.get b.assetIn → b.amountIn ≤ w.poolBal.get b.cAsset →
      liquidateBorrowV2 e id w = some (borrowSeized e w id b r)) :=
  ⟨fun e id w v p k hf hp h1 h2 h3 h4 h5 h6 h7 h8 hk => liquidateVaultV2_seizes e id w v p hf hp h1 h2 h3 h4 h5 h6 h7 h8 k hk,
   fun e a w v p k h1 hp h2 h3 h4 h5 h6 hk => liquidateVaultV1_seizes e a w v p h1 hp h2 h3 h4 h5 h6 k hk,
   fun e id w b r hf hl hr hu h1 h2 h3 h4 h5 h6 h7 => liquidateBorrowV2_seizes e id w b r hf hl hr hu h1 h2 h3 h4 h5 h6 h7⟩

/-! ### safety judged after the accrual -/

/-- **Vaults: safe after the accrual ⇒ not seized.** Both generations take the decision on the RECORDED debt and book the
interest afterwards. If the interest the seizure would book is non-negative (`interest ≤ intPost`) and the vault is at or
above the liquidation ratio on the debt AFTER that accrual, then it is not unsafe on the recorded debt either (the ratio is
antitone in the debt, `vaultCR_anti_debt`), hence — `safe_never_seized` — never seized. -/
theorem vault_safe_after_accrual_not_seized (e : Env) (v : Vault) (p : Product) (crPost : Dec)
    (hp : e.product? v.prod = some p) (hn : EnvNonneg e p) (h0 : 0 ≤ v.totalOut) (hacc : v.interest ≤ v.intPost)
    (hpost : vaultCR e p v.amountIn v.totalOutPost = some crPost) (hsafe : p.minCr ≤ crPost) : vaultUnsafe e v = false := by
  unfold vaultUnsafe vaultCRof
  simp only [hp]
  cases hpre : vaultCR e p v.amountIn v.totalOut with
  | none => rfl
  | some cr =>
    have hle : v.totalOut ≤ v.totalOutPost := by unfold Vault.totalOut Vault.totalOutPost; omega
    have := vaultCR_anti_debt e p v.amountIn v.totalOut v.totalOutPost cr crPost hn h0 hle hpre hpost
    have h2 : ¬ (cr < p.minCr) := Int.not_lt.mpr (Int.le_trans hsafe this)
    simp [h2]

/-- The converse fails, and the model says so: the decision ignores interest that is not booked yet. Recorded debt
1 000 000 (ratio 1.5004 ≥ 1.5), 50 000 of interest would be booked by the seizure (ratio after: 1.429): the vault is NOT
seized by the generation-2 hook; once the interest is on the record it is. -/
theorem vault_decision_is_on_recorded_debt :
    let e : Env := { assets := [{ id := 1, decimals := 1000000, price := some 1800000 }, { id := 2, decimals := 1000000, price := some 1000000 }]
                     products := [{ id := 1, app := 1, minCr := 1500000000000000000, assetIn := 1, assetOut := 2, outOracle := true, outFixed := 1000000 }]
                     apps := [{ id := 1, wl2 := true, dutch2 := true }] }
    let v : Vault := { id := 1, app := 1, prod := 1, amountIn := 833600, amountOut := 1000000, interest := 0, closingFee := 0, intPost := 50000 }
    let w : World := { vaults := [v], counter := 1, vaultBal := [(1, 833600)] }
    (∃ w', (blockV2 e 5 w).world? = some w' ∧ w'.vaults = [v]) ∧
    (∃ w', (blockV2 e 5 { w with vaults := [{ v with interest := 50000 }] }).world? = some w' ∧ w'.vaults = [] ∧
       w'.newLocked.map (·.debt) = [1050000]) := by
  refine ⟨⟨_, rfl, by decide⟩, ⟨_, rfl, by decide, by decide⟩⟩

/-- **Borrows: the decision is taken after the accrual.** `borrowUnsafe` compares
`(principal + trunc(interest after the in-memory accrual)) · price / collateral value` with the applicable threshold; so
(`safe_never_seized`) safe-after-accrual borrows are never touched and (`unsafe_processed_is_seized`) unsafe-after-accrual
borrows that are reached are seized. -/
theorem borrow_decision_after_accrual (e : Env) (b : Borrow) :
    b.debt = b.principal + Dec.truncateInt b.interestPost ∧
    (borrowUnsafe e b = true ↔ ∃ r, borrowRatio e b = some r ∧ r > borrowThreshold b) := by
  refine ⟨rfl, ?_⟩
  unfold borrowUnsafe
  cases h : borrowRatio e b with
  | none => simp
  | some r => simp

/-! ### generation 2: the vault sweep is not disturbed by the borrow sweep (fix 16be2e4) -/

/-- **The vault offset after a generation-2 block is the vault pass's own range end**, whatever the borrow pass does
(any number of borrows, any outcomes of their steps): the two sweeps keep separate offsets. Together with
`pass_follows_abstract_sweep` the generation-2 vault sweep satisfies `Evolves`, i.e. `sweep_live_partial` applies. -/
theorem v2_vault_offset_independent_of_borrow_pass (e : Env) (batch : Nat) (w w' : World) (h : blockV2 e batch w = .ok w') :
    w'.offsets.get? 0 =
      some (sweepBoundsI (toGoInt w.counter) (toGoInt ((w.offsets.get? 0).getD 0)) (toGoInt batch)).2.toNat :=
  blockV2_vault_offset e batch w w' h

def witEnv : Env :=
  { assets := [{ id := 1, decimals := 1000000, price := some 1800000 }, { id := 2, decimals := 1000000, price := some 1000000 }]
    products := [{ id := 1, app := 1, minCr := 1500000000000000000, assetIn := 1, assetOut := 2, outOracle := true, outFixed := 1000000,
                   penalty := 120000000000000000 }]
    apps := [{ id := 1, wl2 := true, dutch2 := true, wl1 := true, auc1 := true }] }

def witWorld : World :=
  { vaults := [{ id := 1, app := 1, prod := 1, amountIn := 1500001, amountOut := 1000000, interest := 0, closingFee := 0 },
               { id := 2, app := 1, prod := 1, amountIn := 1500001, amountOut := 1000000, interest := 0, closingFee := 0 },
               { id := 3, app := 1, prod := 1, amountIn := 800251, amountOut := 1000000, interest := 0, closingFee := 0 }]
    counter := 3, vaultBal := [(1, 3800253), (2, 0)], auctionBal := [(1, 0), (2, 0)] }

def iterV2 : Nat → World → Option World
  | 0, w => some w
  | n+1, w => match blockV2 witEnv 1 w with
    | .ok w' => iterV2 n w'
    | _ => none

/-- the former starvation witness (batch 1, three vaults, the third at ratio 1.44 < 1.5): seized in block 3, exactly
`amountIn` auctioned. The harness runs the same population on the real code. -/
theorem v2_witness_seized :
    vaultUnsafe witEnv (witWorld.vaults.getD 2 default) = true ∧
    ∃ w, iterV2 3 witWorld = some w ∧ w.vaults.map (·.id) = [1, 2] ∧ w.newAuctions.map (·.amount) = [800251] := by
  exact ⟨by decide, _, rfl, by decide, by decide⟩

/-! ### generation 2: borrow steps are atomic (fix c15713f) -/

/-- **A borrow step does nothing or everything, and hands over exactly what was pledged**: a successful
`LiquidateIndividualBorrow` either leaves the state unchanged or it addressed an unflagged borrow `b`, unsafe after the accrual
(ratio `r`), with the kill switch off, the lend app whitelisted with Dutch or English auctions activated, and produced
`borrowSeized e w id b r` (the auction is Dutch iff Dutch is activated — `auction_type_follows_whitelisting`):
* exactly `b.amountIn` (the pledged cTokens, 1:1 in the underlying) of the collateral asset moves pool → auction account, the
  same amount of cTokens is burnt from the pool account, and the pool held at least that much of both;
* locked vault: collateral `b.amountIn`, `DebtToken` = the principal (NOT the accrued interest), `FeeToBeCollected` =
  trunc(principal · LiquidationPenalty), `BonusToBeGiven` = trunc(principal · LiquidationBonus), `TargetDebt` = principal + fee,
  ratio `r`; exactly one auction over (`b.assetIn`, `b.amountIn`) with the same target;
* pool totals and the lend position shrink by exactly what left: `TotalBorrowed(outPool, assetOut) −= principal`,
  `TotalLend(pool, assetIn) −= amountIn`, lend position `−= amountIn` (deleted when nothing is left). -/
theorem borrow_step_atomic (e : Env) (id : Nat) (w w' : World) (h : liquidateBorrowV2 e id w = some w') :
    w' = w ∨ ∃ b r, w.borrows.find? (·.id == id) = some b ∧ b.liquidated = false ∧ borrowRatio e b = some r ∧
      borrowUnsafe e b = true ∧ (e.app b.app).kill = false ∧ (e.app b.app).wl2 = true ∧
      ((e.app b.app).dutch2 = true ∨ (e.app b.app).english2 = true) ∧
      b.amountIn ≤ w.poolBal.get b.assetIn ∧ b.amountIn ≤ w.poolBal.get b.cAsset ∧ w' = borrowSeized e w id b r ∧
      w'.auctionBal.get b.assetIn = w.auctionBal.get b.assetIn + b.amountIn ∧
      w'.totalBorrowed.get (statKey b.outPool b.assetOut) = w.totalBorrowed.get (statKey b.outPool b.assetOut) - b.principal ∧
      w'.totalLend.get (statKey b.pool b.assetIn) = w.totalLend.get (statKey b.pool b.assetIn) - b.amountIn ∧
      (∃ l a, w'.newLocked = w.newLocked ++ [l] ∧ w'.newAuctions = w.newAuctions ++ [a] ∧
        l.amountIn = b.amountIn ∧ a.amount = b.amountIn ∧ a.asset = b.assetIn ∧ a.locked = l.id ∧ l.orig = b.id ∧
        l.debt = b.principal ∧ l.fee = Dec.truncateInt (Dec.mul (Dec.ofInt b.principal) b.pen) ∧
        l.bonus = Dec.truncateInt (Dec.mul (Dec.ofInt b.principal) b.bon) ∧ l.target = l.debt + l.fee ∧ a.target = l.target ∧ l.cr = r) := by
  cases liquidateBorrowV2_cases e id w w' h with
  | inl h => exact Or.inl h
  | inr h =>
    obtain ⟨b, r, hf, hl, hr, hu, hk, hwl, hd, hb1, hb2, hw⟩ := h
    refine Or.inr ⟨b, r, hf, hl, hr, hu, hk, hwl, hd, hb1, hb2, hw, ?_, ?_, ?_, ?_⟩
    · rw [hw]; unfold borrowSeized; simp only; exact Bal.get_add_self _ _ _
    · rw [hw]; unfold borrowSeized; simp only; rw [Bal.get_add_self]; omega
    · rw [hw]; unfold borrowSeized; simp only; rw [Bal.get_add_self]; omega
    · rw [hw]; exact ⟨_, _, rfl, rfl, rfl, rfl, rfl, rfl, rfl, rfl, rfl, rfl, rfl, rfl, rfl⟩

/-- a failing step inside `ApplyFuncIfNoError` leaves no writes (the sweep then goes on with the next position) -/
theorem failing_step_leaves_no_writes (f : World → Option World) (w : World) (h : f w = none) : applyIfNoError f w = w := by
  unfold applyIfNoError; rw [h]; rfl

/-- **Every flagged borrow is backed**: after any generation-2 block hook and any generation-2 liquidate message, a
borrow that is flagged `IsLiquidated` was flagged before or there is a NEW locked vault for it and a NEW auction for
that locked vault over the locked amount; the books only grow. -/
theorem flagged_borrow_is_backed :
    (∀ e batch w w', NodupIds w → NodupB w → (blockV2 e batch w).world? = some w' → Backed w w' ∧ Grows w w') ∧
    (∀ e liqType id w w', NodupIds w → NodupB w → msgLiquidateV2 e liqType id w = some w' → Backed w w' ∧ Grows w w') :=
  ⟨fun e batch w w' hn hb h => let r := blockV2_rel e batch w w' hn hb h; ⟨r.2.2.2.1, r.2.2.1⟩,
   fun e t id w w' hn hb h => let r := msgLiquidateV2_rel e t id w w' hn hb h; ⟨r.2.2.2.1, r.2.2.1⟩⟩

def leakEnv : Env :=
  { assets := [{ id := 6, decimals := 1000000, price := some 1400000 }, { id := 7, decimals := 1000000, price := some 2000000 }]
    apps := [{ id := 3, wl2 := true, dutch2 := false }] }

def leakWorld : World :=
  { borrows := [{ id := 1, app := 3, pool := 1, assetIn := 6, assetOut := 7, amountIn := 100000000, principal := 65000000, cAsset := 9, lendId := 1, outPool := 1,
                  bridgedAmount := 0, bridgedAsset := 0, firstTransit := 8, secondTransit := 6, liquidated := false, emode := false,
                  lt := 750000000000000000, elt := 0, ltFirst := 850000000000000000, ltSecond := 750000000000000000 }]
    poolBal := [(6, 1000000000), (9, 1000000000)], auctionBal := [(6, 0)], lendBal := [(1, 100000000)] }

/-- the former leak witness (lend app whitelisted, no auction type activated, borrow unsafe): the hook now leaves the
borrow, custody and books untouched and only advances the borrow offset; with Dutch auctions activated the same
borrow is seized completely. -/
theorem v2_borrow_witness_atomic :
    borrowUnsafe leakEnv (leakWorld.borrows.getD 0 default) = true ∧
    (blockV2 leakEnv 5 leakWorld).world? = some { leakWorld with offsets := [(0, 0), (1, 1)] } ∧
    (∃ w', (blockV2 { leakEnv with apps := [{ id := 3, wl2 := true, dutch2 := true }] } 5 leakWorld).world? = some w' ∧
      w'.borrows.map (·.liquidated) = [true] ∧ w'.auctionBal.get 6 = 100000000 ∧ w'.newAuctions.map (·.amount) = [100000000]) := by
  refine ⟨by decide, rfl, _, rfl, by decide, by decide, by decide⟩

/-! ## seizure effect -/

/-- what both vault hand-overs have in common, in terms of the amounts `k` written on the locked vault -/
def VaultHandedOver (w w' : World) (v : Vault) (asset : Nat) (k : Amounts) : Prop :=
  w'.auctionBal.get asset = w.auctionBal.get asset + v.amountIn ∧
  w'.vaultBal.get asset = w.vaultBal.get asset - v.amountIn ∧
  (∀ a', a' ≠ asset → w'.auctionBal.get a' = w.auctionBal.get a' ∧ w'.vaultBal.get a' = w.vaultBal.get a') ∧
  w'.poolBal = w.poolBal ∧ w'.lendBal = w.lendBal ∧ w'.totalLend = w.totalLend ∧ w'.totalBorrowed = w.totalBorrowed ∧
  (v.amountIn ≤ w.vaultBal.get asset ∨ v.amountIn = 0) ∧
  w'.auctionId = w.auctionId + 1 ∧ w'.lockedId = w.lockedId + 1 ∧
  w'.newAuctions = w.newAuctions ++ [{ id := w.auctionId + 1, locked := w.lockedId + 1, asset := asset, amount := v.amountIn, target := k.target }] ∧
  w'.newLocked = w.newLocked ++ [{ id := w.lockedId + 1, orig := v.id, app := v.app, amountIn := v.amountIn, isBorrow := false,
                                   debt := k.debt, target := k.target, fee := k.fee, bonus := k.bonus, cr := k.cr, collValue := k.collValue }]

theorem vaultHandedOver_of (w w' : World) (v : Vault) (a : Nat) (k : Amounts) (hnn : 0 ≤ v.amountIn)
    (h : handOver w v a k = some w') : VaultHandedOver w w' v a k := by
  obtain ⟨h1, h2, h3, h4, h5, h6, h7, h8, _, _, _, h12, h13, h14, h15⟩ := handOver_effect w w' v a k hnn h
  exact ⟨h1, h2, h3, h4, h12, h13, h14, h15, h5, h6, h7, h8⟩

/-- **Seizure moves exactly the recorded collateral into auction custody** (and nothing else, no other asset, no lend
accounting): every successful per-vault step of either generation either changes nothing or hands over the vault `v`, unsafe
on its recorded debt and unguarded: auction custody of the collateral asset grows by exactly `v.amountIn` — the WHOLE recorded
collateral, the amount written on the locked vault and on the auction —, the vault module's shrinks by the same and held at
least that much. The amounts on the locked vault are what the code computes AFTER booking the interest:
generation 2 `DebtToken = principal + interest(after accrual) + closing fee`, `FeeToBeCollected = trunc(DebtToken · LiquidationPenalty)`,
`BonusToBeGiven = 0`, `TargetDebt = DebtToken + FeeToBeCollected` = the auction's debt, ratio recomputed on that debt;
generation 1 `AmountOut = principal`, `InterestAccumulated = interest(after accrual) + closing fee`, `CollateralToBeAuctioned` =
value of the collateral, auction inflow target `= principal + trunc(principal · penalty) + interest + closing fee`. -/
theorem seize_moves_exactly_collateral :
    (∀ (e : Env) (id : Nat) (w w' : World), (∀ q, q ∈ w.vaults → 0 ≤ q.amountIn) → liquidateVaultV2 e id w = some w' →
      w' = w ∨ ∃ v p k, w.vaults.find? (·.id == id) = some v ∧ e.product? v.prod = some p ∧ vaultUnsafe e v = true ∧
        GuardsOff e v.app ∧ VaultHandedOver w w' v p.assetIn k ∧
        k.debt = v.amountOut + v.intPost + v.closingFee ∧ k.fee = Dec.truncateInt (Dec.mul (Dec.ofInt k.debt) p.penalty) ∧
        k.bonus = 0 ∧ k.target = k.debt + k.fee ∧ vaultCR e p v.amountIn k.debt = some k.cr) ∧
    (∀ (e : Env) (a : Nat) (v : Vault) (w w' : World), 0 ≤ v.amountIn → liquidateVaultV1 e a v w = some w' →
      w' = w ∨ ∃ p k, v.app = a ∧ e.product? v.prod = some p ∧ vaultUnsafe e v = true ∧ VaultHandedOver w w' v p.assetIn k ∧
        k.debt = v.amountOut ∧ k.fee = v.intPost + v.closingFee ∧
        k.target = v.amountOut + Dec.truncateInt (Dec.mul (Dec.ofInt v.amountOut) p.penalty) + k.fee ∧
        vaultCR e p v.amountIn (v.amountOut + v.intPost + v.closingFee) = some k.cr ∧
        e.valueOf p.assetIn v.amountIn = some k.collValue) := by
  constructor
  · intro e id w w' hnn h
    cases liquidateVaultV2_cases e id w w' h with
    | inl h => exact Or.inl h
    | inr h =>
      obtain ⟨v, p, k, hf, hp, hu, hg, _, hk, ho⟩ := h
      have hv := vaultHandedOver_of w w' v p.assetIn k (hnn v (find_id_eq hf).2) ho
      unfold amountsV2 at hk
      cases hcr : vaultCR e p v.amountIn v.totalOutPost with
      | none => simp [hcr] at hk
      | some cr =>
        simp only [hcr, Option.some.injEq] at hk
        subst hk
        exact Or.inr ⟨v, p, _, hf, hp, hu, hg, hv, rfl, rfl, rfl, rfl, hcr⟩
  · intro e a v w w' hnn h
    cases liquidateVaultV1_cases e a v w w' h with
    | inl h => exact Or.inl h
    | inr h =>
      obtain ⟨p, k, ha, hp, hu, _, hk, ho⟩ := h
      have hv := vaultHandedOver_of w w' v p.assetIn k hnn ho
      unfold amountsV1 at hk
      cases hcr : vaultCR e p v.amountIn v.totalOutPost with
      | none => simp [hcr] at hk
      | some cr =>
        cases hin : e.valueOf p.assetIn v.amountIn with
        | none => simp [hcr, hin] at hk
        | some tin =>
          simp only [hcr, hin, Option.some.injEq] at hk
          subst hk
          exact Or.inr ⟨p, _, ha, hp, hu, hv, rfl, rfl, rfl, hcr, hin⟩

/-- **Seizure opens exactly one auction for it**: whenever a per-vault step of either generation changes the state, the
auction counter and the locked-vault counter advance by exactly one and exactly one auction record and one locked-vault
record are appended, the auction being for that locked vault, over the collateral asset, of exactly the locked amount, with
the locked vault's target as its debt. (Borrows: `borrow_step_atomic`, `flagged_borrow_is_backed`.) -/
theorem seize_opens_one_auction :
    (∀ (e : Env) (id : Nat) (w w' : World), (∀ q, q ∈ w.vaults → 0 ≤ q.amountIn) → liquidateVaultV2 e id w = some w' →
      w' = w ∨ (w'.auctionId = w.auctionId + 1 ∧ w'.lockedId = w.lockedId + 1 ∧
        ∃ l a, w'.newLocked = w.newLocked ++ [l] ∧ w'.newAuctions = w.newAuctions ++ [a] ∧ a.locked = l.id ∧
          a.amount = l.amountIn ∧ a.target = l.target ∧ l.id = w.lockedId + 1 ∧ a.id = w.auctionId + 1)) ∧
    (∀ (e : Env) (a : Nat) (v : Vault) (w w' : World), 0 ≤ v.amountIn → liquidateVaultV1 e a v w = some w' →
      w' = w ∨ (w'.auctionId = w.auctionId + 1 ∧ w'.lockedId = w.lockedId + 1 ∧
        ∃ l au, w'.newLocked = w.newLocked ++ [l] ∧ w'.newAuctions = w.newAuctions ++ [au] ∧ au.locked = l.id ∧
          au.amount = l.amountIn ∧ au.target = l.target ∧ l.id = w.lockedId + 1 ∧ au.id = w.auctionId + 1)) := by
  constructor
  · intro e id w w' hnn h
    rcases seize_moves_exactly_collateral.1 e id w w' hnn h with h | ⟨v, p, k, _, _, _, _, hv, _⟩
    · exact Or.inl h
    · exact Or.inr ⟨hv.2.2.2.2.2.2.2.2.1, hv.2.2.2.2.2.2.2.2.2.1, _, _, hv.2.2.2.2.2.2.2.2.2.2.2, hv.2.2.2.2.2.2.2.2.2.2.1, rfl, rfl, rfl, rfl, rfl⟩
  · intro e a v w w' hnn h
    rcases seize_moves_exactly_collateral.2 e a v w w' hnn h with h | ⟨p, k, _, _, _, hv, _⟩
    · exact Or.inl h
    · exact Or.inr ⟨hv.2.2.2.2.2.2.2.2.1, hv.2.2.2.2.2.2.2.2.2.1, _, _, hv.2.2.2.2.2.2.2.2.2.2.2, hv.2.2.2.2.2.2.2.2.2.2.1, rfl, rfl, rfl, rfl, rfl⟩

/-! ### generation 1: the borrow sell-off -/

/-- **What the generation-1 sell-off keeps consistent**: the collateral left on the locked vault / the borrow and the
reduction of the lend position (and of `TotalLend`) add up to the collateral the position held; nothing is negative.
(The TRANSFERS `toAuction`, `toReserve` and the burnt cTokens `totalDeduction` are not capped — next theorem.) -/
theorem v1_selloff_records (i : SellOffIn) (o : SellOffOut) (h : sellOffV1 i = some o) (hin : 0 ≤ i.amountIn) :
    0 ≤ o.newAmountIn ∧ o.newAmountIn + o.lendReduction = i.amountIn ∧ o.lendReduction ≤ i.amountIn ∧
    0 ≤ o.toAuction ∧ 0 ≤ o.toReserve ∧ 0 ≤ o.totalDeduction ∧
    (o.totalDeduction < i.amountIn → o.lendReduction = o.totalDeduction) := by
  unfold sellOffV1 at h
  split at h
  · cases h
  · simp only at h
    split at h
    · cases h
    · split at h
      · cases h
      · split at h
        · cases h
        · split at h
          · cases h
          · rename_i hneg
            simp only [Option.some.injEq] at h
            subst h
            simp only
            split <;> omega

/-- **The generation-1 sell-off can move more collateral than the position held** (found on the real code by the harness,
`UpdateLockedBorrows` called on a branch): collateral 1 083 074 820 at price 1.66, debt 892 889 230 at price 2.00 (ratio 0.993),
LTV 0.81, bonus 0.05: 1 394 003 545 units are sent pool → auction account and as many cTokens burnt, the records are capped
at zero. The excess comes out of the pool, i.e. from the other lenders. -/
theorem v1_selloff_can_exceed_collateral_counterexample :
    ∃ o, sellOffV1 { amountIn := 1083074820, updatedOut := 892889230, pIn := 1660000, pOut := 2000000, dIn := 1000000, dOut := 1000000,
                     c := 810000000000000000, pen := 0, bon := 50000000000000000 } = some o ∧
      o.toAuction = 1394003545 ∧ o.toAuction > 1083074820 ∧ o.totalDeduction = 1394003545 ∧ o.newAmountIn = 0 ∧ o.lendReduction = 1083074820 := by
  exact ⟨_, rfl, by decide, by decide, by decide, by decide, by decide⟩

/-! ## generation 1 borrows end to end (`LiquidateBorrows` sweep, `MsgLiquidateBorrow`) -/

/-- **Generation-1 borrows: a borrow that is safe under the applicable threshold is seized by NEITHER the sweep NOR the message.**
ONE test for both paths (the message since fix f18ae51, finding D38): `borrowUnsafe` = ratio after the accrual > `borrowThreshold`
(e-mode threshold iff the pair is in e-mode, × the transit asset's threshold for the two cross-pool cases).
(1) after any generation-1 block hook and (2) after anybody's `MsgLiquidateBorrow` (any id) an unflagged borrow that fails this test,
or whose app has the kill switch on, still has an identical record (`KeepsB1`); the message touches no vault either. -/
theorem v1_borrow_safe_never_seized :
    (∀ e batch w w', AppsUnique e → NodupIds w → NodupB w → (blockV1 e batch w).world? = some w' → KeepsB1 e w w') ∧
    (∀ e id w w', NodupB w → msgLiquidateBorrowV1 e id w = some w' → KeepsB1 e w w' ∧ Removes e w w') :=
  ⟨fun e batch w w' hU hn hb h => (blockV1_keepsB1 e batch w w' hU hn hb h).1,
   fun e id w w' hb h => let r := msgLiquidateBorrowV1_rel e id w w' hb h; ⟨r.1, r.2.1⟩⟩

def emodeEnv : Env :=
  { assets := [{ id := 6, decimals := 1000000, price := some 1000000 }, { id := 7, decimals := 1000000, price := some 1000000 }]
    apps := [{ id := 3, lendAuc1 := true }] }

/-- an e-mode pair: normal threshold 0.80, e-mode threshold 0.85; debt 82 against collateral 100 (ratio 0.82) -/
def emodeWorld : World :=
  { borrows := [{ id := 1, app := 3, pool := 1, assetIn := 6, assetOut := 7, amountIn := 100000000, principal := 82000000, cAsset := 9, lendId := 1,
                  outPool := 1, bridgedAmount := 0, bridgedAsset := 0, firstTransit := 8, secondTransit := 6, liquidated := false, emode := true,
                  lt := 800000000000000000, elt := 850000000000000000, ltFirst := 0, ltSecond := 0,
                  ltv := 750000000000000000, pen := 50000000000000000, epen := 50000000000000000, bon := 50000000000000000 }]
    poolBal := [(6, 1000000000), (9, 1000000000)], auctionBal := [(6, 0)], reserveBal := [(6, 0)], lendBal := [(1, 100000000)] }

/-- what the UNREPAIRED code did (before f18ae51, finding D38; a revert is reported by the correspondence run as
`safe_never_seized` on the witness `c09WitnessEmodeMsgV1`): `MsgLiquidateBorrow` compared with `LiquidationThreshold` whatever the
pair's e-mode (`borrowThresholdMsgV1BeforeFix`). E-mode pair, normal threshold 0.80, e-mode threshold 0.85, ratio 0.82: the borrow is
safe (`borrowUnsafe = false`), the block hook leaves it alone (only its offset moves), the PRE-FIX message flagged it, sent
42 000 000 units of its collateral to the auction account and opened an auction over 40 000 000; the message AS IT IS NOW
(`msgLiquidateBorrowV1`) succeeds and changes nothing. -/
theorem v1_msg_borrow_ignored_emode_before_fix_counterexample :
    borrowUnsafe emodeEnv (emodeWorld.borrows.getD 0 default) = false ∧
    (blockV1 emodeEnv 5 emodeWorld).world? = some { emodeWorld with offsets := [(3, 1)] } ∧
    (∃ w', msgLiquidateBorrowV1BeforeFix emodeEnv 1 emodeWorld = some w' ∧ w'.borrows.map (·.liquidated) = [true] ∧
      w'.auctionBal.get 6 = 42000000 ∧ w'.newAuctions.map (·.amount) = [40000000] ∧ w'.newLocked.map (·.orig) = [1]) ∧
    msgLiquidateBorrowV1 emodeEnv 1 emodeWorld = some emodeWorld := by
  refine ⟨by decide, rfl, ⟨_, rfl, by decide, by decide, by decide, by decide⟩, rfl⟩

/-- **What a generation-1 borrow seizure does** (sweep body and message alike): a successful step either changes nothing or
addressed an unflagged borrow `b` with the kill switch off, unsafe under the applicable threshold at ratio `r`, and: the sell-off
`o = sellOffV1 (b.sellOffIn e)` was computed; the pool held `toAuction + toReserve` of the collateral and `totalDeduction`
cTokens; exactly `o.toAuction` units went pool → auction account and `o.toReserve` pool → reserve; the borrow is flagged and keeps
`o.newAmountIn` collateral; the lend position and `TotalLend` shrink by `o.lendReduction` with
`newAmountIn + lendReduction = amountIn` (records consistent — the transfers are NOT capped: D33); the locked-vault id and the
LEND auction id advance by one, the vault auction id does not; exactly one locked vault (for `b`, holding `newAmountIn`,
`CollateralToBeAuctioned = selloff`) and exactly one auction for it (Dutch, over `trunc(selloff / unit value of the collateral)`
units, target `trunc(selloff / unit value of the debt asset)`) are appended; the vault side is untouched. -/
theorem v1_borrow_seizure_effect (e : Env) (sweep : Bool) (id : Nat) (w w' : World) (h : liquidateBorrowV1 e sweep id w = some w') :
    w' = w ∨ ∃ b r i o, w.borrows.find? (·.id == id) = some b ∧ b.liquidated = false ∧ (e.app b.app).kill = false ∧
      borrowRatio e b = some r ∧ borrowUnsafe e b = true ∧ SeizedV1 e sweep b r w w' i o ∧
      (0 ≤ b.amountIn → o.newAmountIn + o.lendReduction = b.amountIn ∧ 0 ≤ o.newAmountIn ∧ 0 ≤ o.toAuction ∧ 0 ≤ o.toReserve) := by
  cases liquidateBorrowV1_cases e sweep id w w' h with
  | inl h => exact Or.inl h
  | inr h =>
    obtain ⟨b, r, hf, hl, hk, hr, hgt, hs⟩ := h
    obtain ⟨i, o, S⟩ := seizeBorrowV1_spec e sweep b r w w' hs
    refine Or.inr ⟨b, r, i, o, hf, hl, hk, hr, borrowUnsafe_of_gt e b r hr hgt, S, fun hnn => ?_⟩
    have hi : i.amountIn = b.amountIn := by
      have := S.hin
      unfold Borrow.sellOffIn at this
      split at this
      · split at this
        · simp only [Option.some.injEq] at this; rw [← this]
        · cases this
      · cases this
    have hrec := v1_selloff_records i o S.hout (by rw [hi]; exact hnn)
    rw [hi] at hrec
    exact ⟨hrec.2.1, hrec.1, hrec.2.2.2.1, hrec.2.2.2.2.1⟩

/-! ## generation 2: which auction type, and the messages that seize nobody -/

/-- **The auction a seizure opens is of the type the app's whitelisting selects — and with no type enabled nothing is seized.**
(1) a generation-2 borrow step that changes the state appends exactly one auction, Dutch iff `IsDutchActivated`, and the app has
Dutch or English activated; ids advance by one; (2) a vault of an app WITHOUT Dutch activated is never seized (English-only
apps included: liquidate.go:136) — a successful step changes nothing; (3) a borrow of an app with neither type activated is
never seized. In (2)/(3) the failing attempt is an error (`none`), whose writes both callers drop: no collateral moves
without an auction. -/
theorem auction_type_follows_whitelisting :
    (∀ (e : Env) (id : Nat) (w w' : World), liquidateBorrowV2 e id w = some w' →
      w' = w ∨ ∃ b a, w.borrows.find? (·.id == id) = some b ∧ w'.newAuctions = w.newAuctions ++ [a] ∧
        a.dutch = (e.app b.app).dutch2 ∧ ((e.app b.app).dutch2 = true ∨ (e.app b.app).english2 = true) ∧
        w'.auctionId = w.auctionId + 1 ∧ w'.lockedId = w.lockedId + 1 ∧ a.amount = b.amountIn) ∧
    (∀ (e : Env) (id : Nat) (w w' : World) (v : Vault), w.vaults.find? (·.id == id) = some v → (e.app v.app).dutch2 = false →
      liquidateVaultV2 e id w = some w' → w' = w) ∧
    (∀ (e : Env) (id : Nat) (w w' : World) (b : Borrow), w.borrows.find? (·.id == id) = some b →
      (e.app b.app).dutch2 = false → (e.app b.app).english2 = false → liquidateBorrowV2 e id w = some w' → w' = w) := by
  refine ⟨?_, ?_, ?_⟩
  · intro e id w w' h
    cases liquidateBorrowV2_cases e id w w' h with
    | inl h => exact Or.inl h
    | inr h =>
      obtain ⟨b, r, hf, _, _, _, _, _, hty, _, _, hw⟩ := h
      exact Or.inr ⟨b, _, hf, by rw [hw]; rfl, rfl, hty, by rw [hw]; rfl, by rw [hw]; rfl, rfl⟩
  · intro e id w w' v hf hd h
    cases liquidateVaultV2_cases e id w w' h with
    | inl h => exact h
    | inr h =>
      obtain ⟨v', _, _, hf', _, _, _, hd', _, _⟩ := h
      rw [hf] at hf'
      cases hf'
      rw [hd] at hd'; cases hd'
  · intro e id w w' b hf hd he h
    cases liquidateBorrowV2_cases e id w w' h with
    | inl h => exact h
    | inr h =>
      obtain ⟨b', _, hf', _, _, _, _, _, hty, _⟩ := h
      rw [hf] at hf'
      cases hf'
      rcases hty with hty | hty
      · rw [hd] at hty; cases hty
      · rw [he] at hty; cases hty

/-- **`MsgLiquidateExternalKeeper` and `MsgAppReserveFunds` seize nobody.** An accepted external liquidation leaves the vault list,
the counter, the offsets, every borrow, vault custody and pool custody untouched; it needed positive reserve funds for (app, debt
asset), the app whitelisted with Dutch auctions, and the sender holding the collateral; exactly `collAmt` enters auction custody,
and exactly one locked vault (original id 0) and one Dutch auction over `collAmt` with the locked vault's target are appended.
An accepted reserve-funds message changes only the reserve and the module's own account. -/
theorem external_liquidation_touches_no_position :
    (∀ (e : Env) (app ca da : Nat) (camt damt ub : Int) (w w' : World), msgLiquidateExternalV2 e app ca da camt damt ub w = some w' →
      w'.vaults = w.vaults ∧ w'.counter = w.counter ∧ w'.offsets = w.offsets ∧ w'.borrows = w.borrows ∧ w'.vaultBal = w.vaultBal ∧
      w'.poolBal = w.poolBal ∧ 0 < w.appReserve.get (statKey app da) ∧ (e.app app).wl2 = true ∧ (e.app app).dutch2 = true ∧ camt ≤ ub ∧
      w'.auctionBal.get ca = w.auctionBal.get ca + camt ∧ w'.lockedId = w.lockedId + 1 ∧ w'.auctionId = w.auctionId + 1 ∧
      ∃ l a, w'.newLocked = w.newLocked ++ [l] ∧ w'.newAuctions = w.newAuctions ++ [a] ∧ l.orig = 0 ∧ l.amountIn = camt ∧
        a.amount = camt ∧ a.asset = ca ∧ a.locked = l.id ∧ a.dutch = true ∧ a.target = l.target ∧ l.target = l.debt + l.fee ∧ l.debt = damt) ∧
    (∀ (e : Env) (app asset : Nat) (dok : Bool) (amt ub : Int) (w w' : World), msgAppReserveFunds e app asset dok amt ub w = some w' →
      w'.vaults = w.vaults ∧ w'.borrows = w.borrows ∧ w'.vaultBal = w.vaultBal ∧ w'.poolBal = w.poolBal ∧ w'.auctionBal = w.auctionBal ∧
      w'.newLocked = w.newLocked ∧ w'.newAuctions = w.newAuctions ∧ amt ≤ ub ∧
      w'.appReserve.get (statKey app asset) = w.appReserve.get (statKey app asset) + amt) := by
  constructor
  · intro e app ca da camt damt ub w w' h
    unfold msgLiquidateExternalV2 at h
    split at h
    · cases h
    · split at h
      · split at h
        · cases h
        · rename_i hres
          split at h
          · cases h
          · split at h
            · cases h
            · rename_i hub
              simp only at h
              split at h
              · cases h
              · rename_i hwl
                split at h
                · cases h
                · simp only [Option.some.injEq] at h
                  subst h
                  have hwl' : (e.app app).wl2 = true ∧ (e.app app).dutch2 = true := by
                    cases h1 : (e.app app).wl2 <;> cases h2 : (e.app app).dutch2 <;> simp_all
                  refine ⟨rfl, rfl, rfl, rfl, rfl, rfl, by omega, hwl'.1, hwl'.2, by omega, ?_, rfl, rfl,
                    _, _, rfl, rfl, rfl, rfl, rfl, rfl, rfl, rfl, rfl, rfl, rfl⟩
                  simp only
                  by_cases h0 : camt = 0
                  · simp [h0]
                  · simp only [h0, if_false]; exact Bal.get_add_self _ _ _
      · cases h
  · intro e app asset dok amt ub w w' h
    unfold msgAppReserveFunds at h
    split at h
    · cases h
    · split at h
      · cases h
      · split at h
        · cases h
        · split at h
          · cases h
          · simp only [Option.some.injEq] at h
            subst h
            exact ⟨rfl, rfl, rfl, rfl, rfl, rfl, rfl, by omega, Bal.get_add_self _ _ _⟩

/-- the index window `totalVaults[start:end]` the NEXT generation-2 vault pass will look at: computed from the vault COUNTER
(`LengthOfVault`) and the vault sweep's own offset (key 0), liquidate.go:43-57 -/
def vaultWindow (batch : Nat) (w : World) : Int × Int :=
  sweepBoundsI (toGoInt w.counter) (toGoInt ((w.offsets.get? 0).getD 0)) (toGoInt batch)

/-- **A non-vault seizure leaves the vault sweep's window untouched.** In generation 2 `CreateLockedVault` is shared by the vault
liquidation, the borrow liquidation, the external-keeper liquidation (and the collector kick-offs); the vault counter is decremented
by the VAULT liquidation only (liquidate.go:151-152). So: a borrow step, a whole borrow pass, an accepted `MsgLiquidateExternalKeeper`
and an accepted `MsgAppReserveFunds` leave the vault list, the vault counter and — for every batch size — the window of the next vault
pass exactly as they were: no position at the tail of the vault list drops out of the sweep because something else was seized.
(Round-6 seed s107 moved the decrement into `CreateLockedVault`; on the real code the law is monitored as
`vault_counter_follows_vault_seizures` and, for the tail positions, by `seized_within_bound`.) -/
theorem nonvault_seizure_leaves_vault_window (batch : Nat) :
    (∀ (e : Env) (id : Nat) (w w' : World), liquidateBorrowV2 e id w = some w' →
      w'.vaults = w.vaults ∧ w'.counter = w.counter ∧ vaultWindow batch w' = vaultWindow batch w) ∧
    (∀ (e : Env) (b : Nat) (w w' : World), borrowPassV2 e b w = .ok w' →
      w'.vaults = w.vaults ∧ w'.counter = w.counter ∧ vaultWindow batch w' = vaultWindow batch w) ∧
    (∀ (e : Env) (app ca da : Nat) (camt damt ub : Int) (w w' : World), msgLiquidateExternalV2 e app ca da camt damt ub w = some w' →
      w'.vaults = w.vaults ∧ w'.counter = w.counter ∧ vaultWindow batch w' = vaultWindow batch w) ∧
    (∀ (e : Env) (app asset : Nat) (dok : Bool) (amt ub : Int) (w w' : World), msgAppReserveFunds e app asset dok amt ub w = some w' →
      w'.vaults = w.vaults ∧ w'.counter = w.counter ∧ vaultWindow batch w' = vaultWindow batch w) := by
  refine ⟨?_, ?_, ?_, ?_⟩
  · intro e id w w' h
    have r := liquidateBorrowV2_vaultSide e id w w' h
    have ho := liquidateBorrowV2_offsets e id w w' h
    exact ⟨r.1, r.2.1, by unfold vaultWindow; rw [r.2.1, ho]⟩
  · intro e b w w' h
    have r := borrowPassV2_vaultSide e b w w' h
    exact ⟨r.1, r.2.1, by unfold vaultWindow; rw [r.2.1, r.2.2.2]⟩
  · intro e app ca da camt damt ub w w' h
    have r := external_liquidation_touches_no_position.1 e app ca da camt damt ub w w' h
    exact ⟨r.1, r.2.1, by unfold vaultWindow; rw [r.2.1, r.2.2.1]⟩
  · intro e app asset dok amt ub w w' h
    unfold msgAppReserveFunds at h
    split at h
    · cases h
    · split at h
      · cases h
      · split at h
        · cases h
        · split at h
          · cases h
          · simp only [Option.some.injEq] at h
            subst h
            exact ⟨rfl, rfl, rfl⟩

/-- **`MsgLiquidateInternalKeeper` = the per-position step + the keeper mark**: the delivered message is `msgLiquidateV2` (to which
`safe_never_seized`, `seize_opens_one_auction`, `borrow_step_atomic` apply) followed by setting `IsInternalKeeper` on the locked
vaults it appended; the mark changes nothing else. -/
theorem keeper_message_is_step_plus_mark (e : Env) (liqType id : Nat) (w w'' : World) (h : msgLiquidateV2K e liqType id w = some w'') :
    ∃ w', msgLiquidateV2 e liqType id w = some w' ∧ w'' = markViaMsg w.newLocked.length w' ∧
      w''.vaults = w'.vaults ∧ w''.borrows = w'.borrows ∧ w''.vaultBal = w'.vaultBal ∧ w''.poolBal = w'.poolBal ∧
      w''.auctionBal = w'.auctionBal ∧ w''.newAuctions = w'.newAuctions ∧ w''.lockedId = w'.lockedId ∧ w''.auctionId = w'.auctionId ∧
      w''.newLocked.map (fun l => { l with viaMsg := false }) = w'.newLocked.map (fun l => { l with viaMsg := false }) := by
  unfold msgLiquidateV2K at h
  cases hm : msgLiquidateV2 e liqType id w with
  | none => rw [hm] at h; cases h
  | some w' =>
    rw [hm] at h
    simp only [Option.map_some, Option.some.injEq] at h
    subst h
    refine ⟨w', rfl, rfl, rfl, rfl, rfl, rfl, rfl, rfl, rfl, rfl, ?_⟩
    unfold markViaMsg
    simp only [List.map_append, List.map_map]
    conv => rhs; rw [← List.take_append_drop w.newLocked.length w'.newLocked, List.map_append]
    rfl

/-! ## liveness when the batch size changes mid-sweep -/

/-- **Liveness under governance changes of the batch size** (`LiquidationBatchSize` is a parameter; the validator only demands
`> 0`): block `k` runs with batch `bt k > 0`. A sweep that starts at block `t` covers the indices `[covered K, covered (K+1))`
in its block `t + K` (`covered K` = sum of the first `K` batch sizes). If position `p` stays at index `i` up to that block it is
handed to the step there; and that block exists with `K ≤ i` — a position is reached at most `i` blocks after the sweep start
whatever governance does to the batch size. With a constant batch this is `sweep_live_partial` (`K = i / batch`). Excluded
adversarial condition as before: a position BEFORE `p` is deleted during these blocks. -/
theorem sweep_live_varbatch_partial (bt : Nat → Nat) (hb : ∀ k, 0 < bt k) (r : Nat → Sw) (hev : EvolvesV bt r) (t i p : Nat)
    (hstart : (r t).starts (bt t) = true) :
    ∃ K, K ≤ i ∧ covered bt t K ≤ i ∧ i < covered bt t (K+1) ∧
      ((∀ k, k ≤ K → (r (t+k)).l[i]? = some p) → p ∈ (r (t + K)).processed (bt (t+K))) := by
  obtain ⟨K, hK, h1, h2⟩ := covered_block_exists bt hb t i
  exact ⟨K, hK, h1, h2, fun hpos => sweep_live_varbatch_aux bt hb r hev t i p K hstart h1 h2 hpos⟩

/-- a zero batch size — which would stop every sweep: the range is always empty — is not a valid parameter value
(`validateLiquidationBatchSize`, both generations; the harness replays `SetParams(0)`: the parameter store panics) -/
theorem zero_batch_processes_nothing (s : Sw) : s.processed 0 = [] := by
  unfold Sw.processed sweepBounds sliceBounds
  by_cases h : s.off ≥ s.l.length
  · simp only [h, if_true]
    by_cases h0 : (0 : Nat) ≥ s.l.length
    · simp [h0]
    · simp [h0]
  · simp only [h, if_false]
    have h2 : ¬ (s.off + 0 ≥ s.l.length) := by omega
    simp only [h2, if_false]
    have h3 : ¬ ((0:Nat) ≥ s.l.length) := by omega
    simp [h3]

/-! ## non-vacuity -/

-- the hypotheses of `safe_never_seized` hold of a non-trivial state on which the hook really seizes
example : NodupIds witWorld ∧ NodupB witWorld ∧
    ∃ w', (blockV1 witEnv 3 witWorld).world? = some w' ∧ w'.vaults.map (·.id) = [1, 2] ∧ w'.auctionBal.get 1 = 800251 ∧
      w'.newLocked.map (·.target) = [1120000] :=
  ⟨by unfold NodupIds; decide, by unfold NodupB; decide, _, rfl, by decide, by decide, by decide⟩

-- `unsafe_processed_is_seized`: all hypotheses hold of vault 3 of the witness
example : witWorld.vaults.find? (·.id == 3) = some (witWorld.vaults.getD 2 default) ∧
    (witEnv.app 1).wl2 = true ∧ witEnv.priceActive 1 = true ∧ vaultUnsafe witEnv (witWorld.vaults.getD 2 default) = true ∧
    vaultUnsafe witEnv (witWorld.vaults.getD 0 default) = false := by decide

-- `sweep_live_partial` / `two_sweeps_if_one_shift`: `Evolves` holds of every run of the executable sweep, e.g. D9's
example : ∀ k, k < 16 → (d9States.getD (k+1) default).off =
    (sweepBounds (d9States.getD k default).l.length (d9States.getD k default).off 1).2 := by decide

-- `slice_panics_iff_counter_exceeds_list`: a counter one above the list length panics at offset = length
example : vaultPass 1 0 3 (fun v => liquidateVaultV2 witEnv v.id) { witWorld with counter := 4 } = none := by decide

-- `ratio_test_safe_side_exact` at equality: ratio exactly 1.5
example : ¬ (Dec.quo (3 * Dec.P) (2 * Dec.P) < 1500000000000000000) := by decide

-- `v1_borrow_safe_never_seized` / `v1_borrow_seizure_effect`: the hypotheses hold of the e-mode witness; with the e-mode threshold
-- lowered to 0.81 the same borrow (ratio 0.82) IS unsafe and the message really seizes it (lend-auction id 1, vault-auction id 0)
def emodeWorldUnsafe : World :=
  { emodeWorld with borrows := emodeWorld.borrows.map (fun b => { b with elt := 810000000000000000 }) }

example : AppsUnique emodeEnv ∧ NodupIds emodeWorld ∧ NodupB emodeWorld ∧ NodupB emodeWorldUnsafe ∧
    ∃ w', msgLiquidateBorrowV1 emodeEnv 1 emodeWorldUnsafe = some w' ∧ w'.borrows.map (·.liquidated) = [true] ∧
      w'.lendAuctionId = 1 ∧ w'.auctionId = 0 :=
  ⟨by unfold AppsUnique; decide, by unfold NodupIds; decide, by unfold NodupB; decide, by unfold NodupB; decide,
   _, rfl, by decide, by decide, by decide⟩

-- `auction_type_follows_whitelisting`: English-only whitelisting — the borrow of the leak witness is sold by an English auction
example : ∃ w', (blockV2 { leakEnv with apps := [{ id := 3, wl2 := true, dutch2 := false, english2 := true }] } 5 leakWorld).world? = some w' ∧
    w'.borrows.map (·.liquidated) = [true] ∧ w'.newAuctions.map (·.dutch) = [false] ∧ w'.auctionBal.get 6 = 100000000 :=
  ⟨_, rfl, by decide, by decide, by decide⟩

-- `external_liquidation_touches_no_position`: an accepted external liquidation
example : ∃ w', msgLiquidateExternalV2 { witEnv with aucParams2 := some (100000000000000000, 0) } 1 1 2 5000 4000 9000
      { witWorld with appReserve := [(statKey 1 2, 10)] } = some w' ∧ w'.vaults = witWorld.vaults ∧ w'.newLocked.map (·.target) = [4400] :=
  ⟨_, rfl, rfl, by decide⟩

-- `sweep_live_varbatch_partial`: batch sizes 2, 1, 3, … cover index 4 in the third block of the sweep
example : covered (fun k => [2, 1, 3].getD k 1) 0 2 ≤ 4 ∧ 4 < covered (fun k => [2, 1, 3].getD k 1) 0 3 := by decide

-- `nonvault_seizure_leaves_vault_window`: the English-only seizure of the leak witness's borrow, with three vaults in the same world:
-- counter 3 and window (0, 2) before and after
example : ∃ w', liquidateBorrowV2 { leakEnv with apps := [{ id := 3, wl2 := true, english2 := true }] } 1
      { leakWorld with vaults := witWorld.vaults, counter := 3 } = some w' ∧ w'.borrows.map (·.liquidated) = [true] ∧
      w'.counter = 3 ∧ vaultWindow 2 w' = (0, 2) :=
  ⟨_, rfl, by decide, by decide, by decide⟩

end Comdex.C09
