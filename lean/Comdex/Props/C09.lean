import Comdex.Lemmas.Liquidation
import Comdex.Lemmas.LiquidationDec
/-!
# C09 — Liquidation is safe and live: only unsafe positions are seized, and all are

Property clause → theorem  (model: `Comdex/Model/Liquidation.lean`, both generations)

* "a vault whose collateral value / total debt (principal + accrued interest + closing fee) is at or above the
  product's liquidation ratio, and a borrow whose debt-to-collateral ratio is at or below the applicable threshold,
  is never seized, neither by the per-block sweep nor by anyone's liquidate message"
    → `C09.safe_never_seized` (generation-2 hook, generation-1 hook, generation-2 message with any type/id,
      generation-1 message with any app/id: every vault that disappears satisfies the code's test `CR < MinCr` on the
      recorded debt; every unflagged borrow that fails the code's test keeps its record),
      `C09.ratio_test_safe_side_exact` / `C09.borrow_ratio_test_safe_side_exact` (the `Dec` roundings never turn an
      exact ratio on the safe side into a failing test), `C09.unsafe_test_is_strict`, `C09.borrow_threshold_cases` (which of
      the three thresholds applies to which kind of borrow) and `C09.borrow_at_or_below_threshold_is_safe` (all three cases).
* batched sweep: `C09.slice_in_bounds` (`0 ≤ start ≤ end ≤ len` for ALL `len ≥ 0`, `off`, `batch`, also negative ones),
  `C09.slice_panics_iff_counter_exceeds_list` (the list is sliced by bounds computed from an independent counter:
  exactly when that panics — used by C15), `C09.pass_follows_abstract_sweep`.
* "every position on the unsafe side is seized within a bounded number of blocks (at most two full sweeps)"
    → FALSE as stated: `C09.two_sweeps_counterexample` (D9, replayed on the real code of both generations by the harness);
      what IS true: `C09.v2_vault_offset_independent_of_borrow_pass` (since fix 16be2e4 the borrow sweep keeps its own
      offset: the vault sweep of generation 2 follows the abstract sweep like generation 1), `C09.v2_witness_seized`, `C09.sweep_live_partial` (excluded adversarial condition: during the `i / batch + 1` blocks of the
      sweep some position BEFORE the unsafe one is deleted — closed by its owner or itself seized),
      `C09.two_sweeps_if_one_shift`, `C09.unsafe_processed_is_seized` (a position handed to the step IS seized when
      liquidation and the auction type are enabled, prices active, no emergency control).
* "seizure moves exactly the recorded collateral into auction custody and opens exactly one auction for it"
    → `C09.seize_moves_exactly_collateral`, `C09.seize_opens_one_auction` (vault seizures, both generations),
      `C09.borrow_step_atomic` (a borrow step does nothing or the complete seizure) and, for whole blocks and messages,
      `C09.flagged_borrow_is_backed` (since fix c15713f: every borrow flagged by a hook or message has a new locked vault and
      a new auction; a failing borrow leaves no writes: `C09.failing_step_leaves_no_writes`).
-/
namespace Comdex.C09
open Comdex Comdex.Liquidation

/-! ## safety -/

/-- **Safe positions are never seized** — all four entry points, all states, all inputs.
`Removes e w w'`: `w'.vaults ⊆ w.vaults` and every vault of `w` missing in `w'` satisfies `vaultUnsafe e`
(the code's `CR(amountIn, principal + interest + closingFee) < MinCr`).  `KeepsB`: a borrow that is not flagged and
fails `borrowUnsafe e` (ratio > applicable threshold) is still there with an identical record. -/
theorem safe_never_seized :
    (∀ e batch w w', NodupIds w → NodupB w → (blockV2 e batch w).world? = some w' → Removes e w w' ∧ KeepsB e w w') ∧
    (∀ e batch w w', NodupIds w → (blockV1 e batch w).world? = some w' → Removes e w w') ∧
    (∀ e liqType id w w', NodupIds w → NodupB w → msgLiquidateV2 e liqType id w = some w' → Removes e w w' ∧ KeepsB e w w') ∧
    (∀ e app id w w', NodupIds w → msgLiquidateVaultV1 e app id w = some w' → Removes e w w') :=
  ⟨fun e batch w w' hn hb h => let r := blockV2_rel e batch w w' hn hb h; ⟨r.1, r.2.1⟩,
   fun e batch w w' hn h => (blockV1_rel e batch w w' hn h).1,
   fun e t id w w' hn hb h => let r := msgLiquidateV2_rel e t id w w' hn hb h; ⟨r.1, r.2.1⟩,
   fun e a id w w' hn h => (msgLiquidateVaultV1_rel e a id w w' hn h).1⟩

/-- the test is the strict one: a vault exactly AT the liquidation ratio is not unsafe -/
theorem unsafe_test_is_strict (e : Env) (v : Vault) (p : Product) (hp : e.product? v.prod = some p)
    (h : vaultCR e p v.amountIn v.totalOut = some p.minCr) : vaultUnsafe e v = false := by
  unfold vaultUnsafe vaultCRof
  simp [hp, h]

/-- `Dec` rounding, vaults: if the exact quotient collateral value / debt value is at or above the liquidation ratio
(`minCr · vout ≤ vin · 10¹⁸` on raw values) the computed ratio `vin.Quo(vout)` does not test below it. -/
theorem ratio_test_safe_side_exact (vin vout minCr : Dec) (hin : 0 ≤ vin) (hout : 0 < vout)
    (h : minCr * vout ≤ vin * Dec.P) : ¬ (Dec.quo vin vout < minCr) := by
  exact Int.not_lt.mpr (quo_ge_of_ratio_ge vin vout minCr hin hout h)

/-- `Dec` rounding, borrows: if debt value / collateral value is at or below the threshold the computed ratio does not
test above it. -/
theorem borrow_ratio_test_safe_side_exact (tout tin thr : Dec) (hout : 0 ≤ tout) (hin : 0 < tin)
    (h : tout * Dec.P ≤ thr * tin) : ¬ (Dec.quo tout tin > thr) := by
  exact Int.not_lt.mpr (quo_le_of_ratio_le tout tin thr hout hin h)

/-- **Which threshold applies to which kind of borrow** (liquidate.go:300-356): a same-pool borrow (no bridged amount) is
judged against the collateral asset's threshold; a cross-pool borrow whose bridged coin is the FIRST transit asset of the
lender's pool against collateral threshold × first transit asset's threshold; every other cross-pool borrow against
collateral threshold × SECOND transit asset's threshold; the collateral threshold is the e-mode one iff the pair is in e-mode. -/
theorem borrow_threshold_cases (b : Borrow) :
    (b.bridgedAmount = 0 → borrowThreshold b = b.baseThreshold) ∧
    (b.bridgedAmount ≠ 0 → b.bridgedAsset = b.firstTransit → borrowThreshold b = Dec.mul b.baseThreshold b.ltFirst) ∧
    (b.bridgedAmount ≠ 0 → b.bridgedAsset ≠ b.firstTransit → borrowThreshold b = Dec.mul b.baseThreshold b.ltSecond) ∧
    (b.baseThreshold = if b.emode then b.elt else b.lt) := by
  refine ⟨fun h => ?_, fun h1 h2 => ?_, fun h1 h2 => ?_, rfl⟩
  · unfold borrowThreshold Borrow.bridge; simp [h]
  · unfold borrowThreshold Borrow.bridge; simp [h1, h2]
  · unfold borrowThreshold Borrow.bridge; simp [h1, h2]

/-- **A borrow at or below its applicable threshold is not unsafe** — all three cases, all inputs: if the exact quotient
debt value / collateral value is `≤ borrowThreshold b` the code's test `ratio.GT(threshold)` fails, so (by
`safe_never_seized`) neither the sweep nor a message touches it. -/
theorem borrow_at_or_below_threshold_is_safe (e : Env) (b : Borrow) (tin tout : Dec)
    (hin : e.valueOf b.assetIn b.amountIn = some tin) (hout : e.valueOf b.assetOut b.debt = some tout)
    (hpos : 0 < tin) (hnn : 0 ≤ tout) (h : tout * Dec.P ≤ borrowThreshold b * tin) : borrowUnsafe e b = false := by
  unfold borrowUnsafe borrowRatio
  have hne : ¬ (tin = 0) := fun h0 => by rw [h0] at hpos; exact absurd hpos (by decide)
  simp only [hin, hout, hne, if_false]
  have := borrow_ratio_test_safe_side_exact tout tin (borrowThreshold b) hnn hpos h
  simpa using this

/-! ## the batched sweep -/

/-- **`GetSliceStartEndForLiquidations` stays inside the list** for every non-negative length and ALL offsets and
batch sizes (negative ones included), also after the wrap-around second call. -/
theorem slice_in_bounds (len off batch : Int) (hl : 0 ≤ len) :
    (0 ≤ (sliceBoundsI len off batch).1 ∧ (sliceBoundsI len off batch).1 ≤ (sliceBoundsI len off batch).2 ∧
      (sliceBoundsI len off batch).2 ≤ len) ∧
    (0 ≤ (sweepBoundsI len off batch).1 ∧ (sweepBoundsI len off batch).1 ≤ (sweepBoundsI len off batch).2 ∧
      (sweepBoundsI len off batch).2 ≤ len) :=
  ⟨sliceBoundsI_bounds len off batch hl, sweepBoundsI_bounds len off batch hl⟩

/-- **The slice expression panics exactly when the stored counter promises more than the list holds.**
The bounds come from the counter `c = LengthOfVault` (an independent `uint64`), the list has `n` entries:
the pass panics iff `c` reads negative as an `int` or `n <` the range end; for `batch > 0` the end is
`min (off+batch) c` while the offset is inside, `min batch c` after a wrap. Hence: never when `c ≤ n`; and when
`c > n` and `batch > 0` the offset `n` — reached by the sweep itself — panics. -/
theorem slice_panics_iff_counter_exceeds_list (batch key off : Nat) (f : Vault → World → Option World) (w : World) :
    (vaultPass batch key off f w = none ↔
      (toGoInt w.counter < 0 ∨
       (w.vaults.length : Int) < (sweepBoundsI (toGoInt w.counter) (toGoInt off) (toGoInt batch)).2)) ∧
    (0 ≤ toGoInt w.counter → 0 ≤ toGoInt off → 0 < toGoInt batch →
      (sweepBoundsI (toGoInt w.counter) (toGoInt off) (toGoInt batch)).2 =
        if toGoInt off < toGoInt w.counter then min (toGoInt off + toGoInt batch) (toGoInt w.counter)
        else min (toGoInt batch) (toGoInt w.counter)) ∧
    (0 ≤ toGoInt w.counter → toGoInt w.counter ≤ w.vaults.length → vaultPass batch key off f w ≠ none) := by
  refine ⟨?_, fun hc ho hb => sweepBoundsI_end _ _ _ hc ho hb, ?_⟩
  · rw [vaultPass_none_iff]
    by_cases hc : 0 ≤ toGoInt w.counter
    · rw [goSlice_none_iff _ _ _ _ hc]
      constructor
      · intro h; exact Or.inr h
      · intro h; cases h with
        | inl h => omega
        | inr h => exact h
    · constructor
      · intro _; exact Or.inl (by omega)
      · intro _; exact goSlice_neg _ _ _ _ (by omega)
  · intro hc hle hnone
    rw [vaultPass_none_iff, goSlice_none_iff _ _ _ _ hc] at hnone
    have := (sweepBoundsI_bounds (toGoInt w.counter) (toGoInt off) (toGoInt batch) hc).2.2
    omega

/-- with a counter larger than the list and a positive batch, the offset equal to the list length makes the pass panic -/
theorem panic_reachable_if_counter_gt_length (batch key : Nat) (f : Vault → World → Option World) (w : World)
    (hb : 0 < batch) (hb' : batch < 2 ^ 63) (hc : w.vaults.length < w.counter) (hc' : w.counter < 2 ^ 63) :
    vaultPass batch key w.vaults.length f w = none := by
  have h1 : toGoInt w.counter = w.counter := toGoInt_small _ hc'
  have h2 : toGoInt batch = batch := toGoInt_small _ hb'
  have h3 : toGoInt w.vaults.length = w.vaults.length := toGoInt_small _ (by omega)
  have hall := slice_panics_iff_counter_exceeds_list batch key w.vaults.length f w
  rw [hall.1]
  right
  rw [hall.2.1 (by omega) (by omega) (by omega), h1, h2, h3]
  have : ((w.vaults.length : Nat) : Int) < (w.counter : Int) := by omega
  simp only [this, if_true]
  omega

/-- the concrete pass follows the abstract sweep: with a consistent counter it stores `(sweepBounds n off batch).2` -/
theorem pass_follows_abstract_sweep (batch key off : Nat) (f : Vault → World → Option World) (w w' : World)
    (hc : w.counter = w.vaults.length) (h63 : w.counter < 2 ^ 63) (ho : off < 2 ^ 63) (hb : batch < 2 ^ 63)
    (h : vaultPass batch key off f w = some w') :
    w'.offsets.get? key = some (sweepBounds w.vaults.length off batch).2 := by
  rw [vaultPass_offset batch key off f w w' h]
  have h1 : toGoInt w.counter = (w.vaults.length : Int) := by rw [toGoInt_small _ h63, hc]
  have h2 : toGoInt batch = batch := toGoInt_small _ hb
  have h3 : toGoInt off = off := toGoInt_small _ ho
  rw [h1, h2, h3, sweepBounds_cast]
  simp

/-! ## liveness -/

/-- **Liveness, the part that is true** (see `Lemmas`): a sweep that starts at block `t` hands the position at index
`i` to the per-position step in block `t + i / batch`, provided the position stays at index `i` during these blocks —
i.e. it persists and no position BEFORE it is deleted in the meantime (the excluded adversarial condition; appends and
deletions behind it are free). `Evolves`: each block stores its range end as the next offset, as the code does. -/
theorem sweep_live_partial (batch : Nat) (hb : 0 < batch) (r : Nat → Sw) (hev : Evolves batch r)
    (t i p : Nat) (hstart : (r t).starts batch = true)
    (hpos : ∀ k, k ≤ i / batch → (r (t+k)).l[i]? = some p) :
    p ∈ (r (t + i / batch)).processed batch :=
  sweep_live_partial_aux batch hb r hev t i p hstart hpos

/-- **Two sweeps suffice if positions before `p` are deleted in at most one block** (`d`): for any two sweep starts
`w1 < w2`, `p` is processed in the sweep started at `w1` or in the one started at `w2`. -/
theorem two_sweeps_if_one_shift (batch : Nat) (hb : 0 < batch) (r : Nat → Sw) (hev : Evolves batch r)
    (p : Nat) (idx : Nat → Nat) (T : Nat) (hidx : ∀ k, k ≤ T → (r k).l[idx k]? = some p)
    (d : Nat) (hshift : ∀ k, k < T → k ≠ d → idx (k+1) = idx k)
    (w1 w2 : Nat) (h12 : w1 < w2) (hs1 : (r w1).starts batch = true) (hs2 : (r w2).starts batch = true)
    (hT1 : w1 + idx w1 / batch ≤ T) (hT2 : w2 + idx w2 / batch ≤ T) :
    p ∈ (r (w1 + idx w1 / batch)).processed batch ∨ p ∈ (r (w2 + idx w2 / batch)).processed batch :=
  two_sweeps_if_one_shift_aux batch hb r hev p idx T hidx d hshift w1 w2 h12 hs1 hs2 hT1 hT2

/-- D9 schedule: batch 1, positions 1…6, position 6 unsafe throughout; the owners of 1, 2 and 3 close their
positions after blocks 5, 9 and 12 (just before the offset reaches position 6). -/
def d9Schedule : List (List Nat × List Nat) :=
  [([],[]),([],[]),([],[]),([],[]),([1],[]),([],[]),([],[]),([],[]),([2],[]),([],[]),([],[]),([3],[]),([],[]),([],[]),([],[]),([],[])]

def d9States : List Sw := Sw.run 1 (· == 6) d9Schedule { l := [1,2,3,4,5,6], off := 0 }

/-- **"At most two full sweeps" is false.** On the D9 schedule the unsafe position 6 is present before each of the
first 15 blocks, is not handed to the step in blocks 1–14 although four sweeps start in that time (blocks 1, 6, 10, 13),
and is seized only in block 15 > 2·⌈6/1⌉ = 12. The harness replays the schedule on the real generation-1 sweep. -/
theorem two_sweeps_counterexample :
    ((d9States.take 15).all (fun s => s.l.contains 6) = true) ∧
    ((d9States.take 14).all (fun s => !(s.processed 1).contains 6) = true) ∧
    (((d9States.take 14).zipIdx.filter (fun x => x.1.starts 1)).map (·.2 + 1) = [1, 6, 10, 13]) ∧
    ((d9States.getD 14 default).processed 1 = [6]) ∧
    ((d9States.getD 15 default).l.contains 6 = false) := by
  decide

/-- **A processed unsafe position IS seized** when liquidation and its auction type are enabled for the app, no
emergency control is on, prices are active and custody holds the recorded collateral (generation 2; generation 1). -/
theorem unsafe_processed_is_seized :
    (∀ (e : Env) (id : Nat) (w : World) (v : Vault) (p : Product),
      w.vaults.find? (·.id == id) = some v → e.product? v.prod = some p →
      (e.app v.app).esm = false → (e.app v.app).kill = false → (e.app v.app).wl2 = true → (e.app v.app).dutch2 = true →
      e.priceActive p.assetIn = true → e.priceActive p.assetOut = true →
      v.amountIn ≤ w.vaultBal.get p.assetIn → vaultUnsafe e v = true →
      ∃ w', liquidateVaultV2 e id w = some w' ∧ handOver w v p.assetIn = some w' ∧ ∀ q, q ∈ w'.vaults → q.id ≠ v.id) ∧
    (∀ (e : Env) (a : Nat) (w : World) (v : Vault) (p : Product),
      v.app = a → e.product? v.prod = some p → (e.app a).auc1 = true →
      e.priceActive p.assetIn = true → (p.outOracle = true → e.priceActive p.assetOut = true) →
      v.amountIn ≤ w.vaultBal.get p.assetIn → vaultUnsafe e v = true →
      ∃ w', liquidateVaultV1 e a v w = some w' ∧ handOver w v p.assetIn = some w' ∧ ∀ q, q ∈ w'.vaults → q.id ≠ v.id) :=
  ⟨fun e id w v p hf hp h1 h2 h3 h4 h5 h6 h7 h8 => liquidateVaultV2_seizes e id w v p hf hp h1 h2 h3 h4 h5 h6 h7 h8,
   fun e a w v p h1 hp h2 h3 h4 h5 h6 => liquidateVaultV1_seizes e a w v p h1 hp h2 h3 h4 h5 h6⟩

/-! ### generation 2: the vault sweep is not disturbed by the borrow sweep (fix 16be2e4) -/

/-- **The vault offset after a generation-2 block is the vault pass's own range end**, whatever the borrow pass does
(any number of borrows, any outcomes of their steps): the two sweeps keep separate offsets. Together with
`pass_follows_abstract_sweep` the generation-2 vault sweep satisfies `Evolves`, i.e. `sweep_live_partial` applies. -/
theorem v2_vault_offset_independent_of_borrow_pass (e : Env) (batch : Nat) (w w' : World) (h : blockV2 e batch w = .ok w') :
    w'.offsets.get? 0 =
      some (sweepBoundsI (toGoInt w.counter) (toGoInt ((w.offsets.get? 0).getD 0)) (toGoInt batch)).2.toNat :=
  blockV2_vault_offset e batch w w' h

def witEnv : Env :=
  { assets := [{ id := 1, decimals := 1000000, price := some 1800000 }, { id := 2, decimals := 1000000, price := some 1000000 }]
    products := [{ id := 1, app := 1, minCr := 1500000000000000000, assetIn := 1, assetOut := 2, outOracle := true, outFixed := 1000000 }]
    apps := [{ id := 1, wl2 := true, dutch2 := true, wl1 := true, auc1 := true }] }

def witWorld : World :=
  { vaults := [{ id := 1, app := 1, prod := 1, amountIn := 1500001, amountOut := 1000000, interest := 0, closingFee := 0 },
               { id := 2, app := 1, prod := 1, amountIn := 1500001, amountOut := 1000000, interest := 0, closingFee := 0 },
               { id := 3, app := 1, prod := 1, amountIn := 800251, amountOut := 1000000, interest := 0, closingFee := 0 }]
    counter := 3, vaultBal := [(1, 3800253), (2, 0)], auctionBal := [(1, 0), (2, 0)] }

def iterV2 : Nat → World → Option World
  | 0, w => some w
  | n+1, w => match blockV2 witEnv 1 w with
    | .ok w' => iterV2 n w'
    | _ => none

/-- the former starvation witness (batch 1, three vaults, the third at ratio 1.44 < 1.5): seized in block 3, exactly
`amountIn` auctioned. The harness runs the same population on the real code. -/
theorem v2_witness_seized :
    vaultUnsafe witEnv (witWorld.vaults.getD 2 default) = true ∧
    ∃ w, iterV2 3 witWorld = some w ∧ w.vaults.map (·.id) = [1, 2] ∧ w.newAuctions.map (·.amount) = [800251] := by
  exact ⟨by decide, _, rfl, by decide, by decide⟩

/-! ### generation 2: borrow steps are atomic (fix c15713f) -/

/-- **A borrow step does nothing or everything**: a successful `LiquidateIndividualBorrow` either leaves the state
unchanged or it addressed an unflagged borrow `b` with ratio above its threshold and produced `borrowSeized w id b` —
flag set, exactly `b.amountIn` of the collateral asset moved pool → auction account, locked-vault id and auction id
advanced by one, one locked vault for `b` and one auction over (`b.assetIn`, `b.amountIn`) for that locked vault. -/
theorem borrow_step_atomic (e : Env) (id : Nat) (w w' : World) (h : liquidateBorrowV2 e id w = some w') :
    w' = w ∨ ∃ b, w.borrows.find? (·.id == id) = some b ∧ b.liquidated = false ∧ borrowUnsafe e b = true ∧
      b.amountIn ≤ w.poolBal.get b.assetIn ∧ w' = borrowSeized w id b ∧
      w'.auctionBal.get b.assetIn = w.auctionBal.get b.assetIn + b.amountIn ∧
      w'.poolBal.get b.assetIn = w.poolBal.get b.assetIn - b.amountIn ∧
      w'.newAuctions = w.newAuctions ++ [{ id := w.auctionId + 1, locked := w.lockedId + 1, asset := b.assetIn, amount := b.amountIn }] ∧
      w'.newLocked = w.newLocked ++ [{ id := w.lockedId + 1, orig := b.id, app := b.app, amountIn := b.amountIn, isBorrow := true }] := by
  cases liquidateBorrowV2_cases e id w w' h with
  | inl h => exact Or.inl h
  | inr h =>
    obtain ⟨b, hf, hl, hu, hbal, hw⟩ := h
    refine Or.inr ⟨b, hf, hl, hu, hbal, hw, ?_, ?_, ?_, ?_⟩
    · rw [hw]; unfold borrowSeized; simp only; exact Bal.get_add_self _ _ _
    · rw [hw]; unfold borrowSeized; simp only; rw [Bal.get_add_self]; omega
    · rw [hw]; rfl
    · rw [hw]; rfl

/-- a failing step inside `ApplyFuncIfNoError` leaves no writes (the sweep then goes on with the next position) -/
theorem failing_step_leaves_no_writes (f : World → Option World) (w : World) (h : f w = none) : applyIfNoError f w = w := by
  unfold applyIfNoError; rw [h]; rfl

/-- **Every flagged borrow is backed**: after any generation-2 block hook and any generation-2 liquidate message, a
borrow that is flagged `IsLiquidated` was flagged before or there is a NEW locked vault for it and a NEW auction for
that locked vault over the locked amount; the books only grow. -/
theorem flagged_borrow_is_backed :
    (∀ e batch w w', NodupIds w → NodupB w → (blockV2 e batch w).world? = some w' → Backed w w' ∧ Grows w w') ∧
    (∀ e liqType id w w', NodupIds w → NodupB w → msgLiquidateV2 e liqType id w = some w' → Backed w w' ∧ Grows w w') :=
  ⟨fun e batch w w' hn hb h => let r := blockV2_rel e batch w w' hn hb h; ⟨r.2.2.2.1, r.2.2.1⟩,
   fun e t id w w' hn hb h => let r := msgLiquidateV2_rel e t id w w' hn hb h; ⟨r.2.2.2.1, r.2.2.1⟩⟩

def leakEnv : Env :=
  { assets := [{ id := 6, decimals := 1000000, price := some 1400000 }, { id := 7, decimals := 1000000, price := some 2000000 }]
    apps := [{ id := 3, wl2 := true, dutch2 := false }] }

def leakWorld : World :=
  { borrows := [{ id := 1, app := 3, pool := 1, assetIn := 6, assetOut := 7, amountIn := 100000000, debt := 65000000,
                  bridgedAmount := 0, bridgedAsset := 0, firstTransit := 8, secondTransit := 6, liquidated := false, emode := false,
                  lt := 750000000000000000, elt := 0, ltFirst := 850000000000000000, ltSecond := 750000000000000000 }]
    poolBal := [(6, 1000000000)], auctionBal := [(6, 0)] }

/-- the former leak witness (lend app whitelisted, no auction type activated, borrow unsafe): the hook now leaves the
borrow, custody and books untouched and only advances the borrow offset; with Dutch auctions activated the same
borrow is seized completely. -/
theorem v2_borrow_witness_atomic :
    borrowUnsafe leakEnv (leakWorld.borrows.getD 0 default) = true ∧
    (blockV2 leakEnv 5 leakWorld).world? = some { leakWorld with offsets := [(0, 0), (1, 1)] } ∧
    (∃ w', (blockV2 { leakEnv with apps := [{ id := 3, wl2 := true, dutch2 := true }] } 5 leakWorld).world? = some w' ∧
      w'.borrows.map (·.liquidated) = [true] ∧ w'.auctionBal.get 6 = 100000000 ∧ w'.newAuctions.map (·.amount) = [100000000]) := by
  refine ⟨by decide, rfl, _, rfl, by decide, by decide, by decide⟩

/-! ## seizure effect -/

/-- **Seizure moves exactly the recorded collateral into auction custody** (and nothing else, and no other asset):
every successful per-vault step of either generation either changes nothing or hands over a vault `v` with
`vaultUnsafe`, after which auction custody of the collateral asset grew by exactly `v.amountIn`, the vault module's
shrank by the same, all other assets and the lend pool are unchanged. -/
theorem seize_moves_exactly_collateral :
    (∀ (e : Env) (id : Nat) (w w' : World), (∀ q, q ∈ w.vaults → 0 ≤ q.amountIn) → liquidateVaultV2 e id w = some w' →
      w' = w ∨ ∃ v p, w.vaults.find? (·.id == id) = some v ∧ e.product? v.prod = some p ∧ vaultUnsafe e v = true ∧
        w'.auctionBal.get p.assetIn = w.auctionBal.get p.assetIn + v.amountIn ∧
        w'.vaultBal.get p.assetIn = w.vaultBal.get p.assetIn - v.amountIn ∧
        (∀ a', a' ≠ p.assetIn → w'.auctionBal.get a' = w.auctionBal.get a' ∧ w'.vaultBal.get a' = w.vaultBal.get a') ∧
        w'.poolBal = w.poolBal) ∧
    (∀ (e : Env) (a : Nat) (v : Vault) (w w' : World), 0 ≤ v.amountIn → liquidateVaultV1 e a v w = some w' →
      w' = w ∨ ∃ p, e.product? v.prod = some p ∧ vaultUnsafe e v = true ∧
        w'.auctionBal.get p.assetIn = w.auctionBal.get p.assetIn + v.amountIn ∧
        w'.vaultBal.get p.assetIn = w.vaultBal.get p.assetIn - v.amountIn ∧
        (∀ a', a' ≠ p.assetIn → w'.auctionBal.get a' = w.auctionBal.get a' ∧ w'.vaultBal.get a' = w.vaultBal.get a') ∧
        w'.poolBal = w.poolBal) := by
  constructor
  · intro e id w w' hnn h
    cases liquidateVaultV2_cases e id w w' h with
    | inl h => exact Or.inl h
    | inr h =>
      obtain ⟨v, p, hf, hp, hu, ho⟩ := h
      have he := handOver_effect w w' v p.assetIn (hnn v (find_id_eq hf).2) ho
      exact Or.inr ⟨v, p, hf, hp, hu, he.1, he.2.1, he.2.2.1, he.2.2.2.1⟩
  · intro e a v w w' hnn h
    cases liquidateVaultV1_cases e a v w w' h with
    | inl h => exact Or.inl h
    | inr h =>
      obtain ⟨p, hp, hu, ho⟩ := h
      have he := handOver_effect w w' v p.assetIn hnn ho
      exact Or.inr ⟨p, hp, hu, he.1, he.2.1, he.2.2.1, he.2.2.2.1⟩

/-- **Seizure opens exactly one auction for it**: the auction counter and the locked-vault counter advance by exactly
one, exactly one auction record is added — for the new locked vault, over the collateral asset, of exactly
`v.amountIn` — and exactly one locked-vault record, for vault `v`. -/
theorem seize_opens_one_auction :
    (∀ (e : Env) (id : Nat) (w w' : World), (∀ q, q ∈ w.vaults → 0 ≤ q.amountIn) → liquidateVaultV2 e id w = some w' →
      w' = w ∨ ∃ v p, w.vaults.find? (·.id == id) = some v ∧ e.product? v.prod = some p ∧
        w'.auctionId = w.auctionId + 1 ∧ w'.lockedId = w.lockedId + 1 ∧
        w'.newAuctions = w.newAuctions ++ [{ id := w.auctionId + 1, locked := w.lockedId + 1, asset := p.assetIn, amount := v.amountIn }] ∧
        w'.newLocked = w.newLocked ++ [{ id := w.lockedId + 1, orig := v.id, app := v.app, amountIn := v.amountIn, isBorrow := false }]) ∧
    (∀ (e : Env) (a : Nat) (v : Vault) (w w' : World), 0 ≤ v.amountIn → liquidateVaultV1 e a v w = some w' →
      w' = w ∨ ∃ p, e.product? v.prod = some p ∧
        w'.auctionId = w.auctionId + 1 ∧ w'.lockedId = w.lockedId + 1 ∧
        w'.newAuctions = w.newAuctions ++ [{ id := w.auctionId + 1, locked := w.lockedId + 1, asset := p.assetIn, amount := v.amountIn }] ∧
        w'.newLocked = w.newLocked ++ [{ id := w.lockedId + 1, orig := v.id, app := v.app, amountIn := v.amountIn, isBorrow := false }]) := by
  constructor
  · intro e id w w' hnn h
    cases liquidateVaultV2_cases e id w w' h with
    | inl h => exact Or.inl h
    | inr h =>
      obtain ⟨v, p, hf, hp, _, ho⟩ := h
      have he := handOver_effect w w' v p.assetIn (hnn v (find_id_eq hf).2) ho
      exact Or.inr ⟨v, p, hf, hp, he.2.2.2.2.1, he.2.2.2.2.2.1, he.2.2.2.2.2.2.1, he.2.2.2.2.2.2.2.1⟩
  · intro e a v w w' hnn h
    cases liquidateVaultV1_cases e a v w w' h with
    | inl h => exact Or.inl h
    | inr h =>
      obtain ⟨p, hp, _, ho⟩ := h
      have he := handOver_effect w w' v p.assetIn hnn ho
      exact Or.inr ⟨p, hp, he.2.2.2.2.1, he.2.2.2.2.2.1, he.2.2.2.2.2.2.1, he.2.2.2.2.2.2.2.1⟩

/-! ## non-vacuity -/

-- the hypotheses of `safe_never_seized` hold of a non-trivial state on which the hook really seizes
example : NodupIds witWorld ∧ NodupB witWorld ∧
    ∃ w', (blockV1 witEnv 3 witWorld).world? = some w' ∧ w'.vaults.map (·.id) = [1, 2] ∧ w'.auctionBal.get 1 = 800251 :=
  ⟨by unfold NodupIds; decide, by unfold NodupB; decide, _, rfl, by decide, by decide⟩

-- `unsafe_processed_is_seized`: all hypotheses hold of vault 3 of the witness
example : witWorld.vaults.find? (·.id == 3) = some (witWorld.vaults.getD 2 default) ∧
    (witEnv.app 1).wl2 = true ∧ witEnv.priceActive 1 = true ∧ vaultUnsafe witEnv (witWorld.vaults.getD 2 default) = true ∧
    vaultUnsafe witEnv (witWorld.vaults.getD 0 default) = false := by decide

-- `sweep_live_partial` / `two_sweeps_if_one_shift`: `Evolves` holds of every run of the executable sweep, e.g. D9's
example : ∀ k, k < 16 → (d9States.getD (k+1) default).off =
    (sweepBounds (d9States.getD k default).l.length (d9States.getD k default).off 1).2 := by decide

-- `slice_panics_iff_counter_exceeds_list`: a counter one above the list length panics at offset = length
example : vaultPass 1 0 3 (fun v => liquidateVaultV2 witEnv v.id) { witWorld with counter := 4 } = none := by decide

-- `ratio_test_safe_side_exact` at equality: ratio exactly 1.5
example : ¬ (Dec.quo (3 * Dec.P) (2 * Dec.P) < 1500000000000000000) := by decide

end Comdex.C09
