import Comdex.Gen.Pure
import Comdex.Lemmas.GoSem
import Comdex.Model.Liquidation
/-!
# C09 — the sweep's slice bounds of the model ARE the arithmetic of the current Go source

`Gen.Pure.sliceStartEndV2` / `sliceStartEndV1` are regenerated on every run by `extract/pure` from
`x/liquidationsV2/types/offset.go` / `x/liquidation/types/liquidations.go`: `GetSliceStartEndForLiquidations`
(Go `int` arithmetic: `offset + batchSize` wraps at 2^63).  `Liquidation.sliceBoundsI` is the hand-written model used by
the sweep (`sweepBoundsI`, `vaultPass`, `borrowPassV2` …) and by the C09 liveness theorems.

Go function → theorem
* generation 2 `GetSliceStartEndForLiquidations` → `pure_sliceStartEndV2_eq_model`
* generation 1 `GetSliceStartEndForLiquidations` → `pure_sliceStartEndV1_eq_model`
  for all `int` arguments whose sum `offset + batchSize` does not leave the int64 range.
* outside that range the model and the code DIFFER (`pure_sliceStartEnd_wrap_counterexample`, reproduced on the real
  code: `GetSliceStartEndForLiquidations(5, 1, MaxInt64) = (1, MinInt64)`, the model says `(1, 5)`); see notes/PURE.md.

Trusted: the translator's reading of Go and `Base/GoSem.lean`; kernel-checked: the equality with the model.
-/
namespace Comdex.C09
open Comdex Comdex.GoSem Comdex.Liquidation

/-- the proof of both generations (the two Go functions are textual copies) -/
local macro "slice_tac" len:ident off:ident batch:ident hlo:ident hhi:ident : tactic => `(tactic| (
  unfold sliceBoundsI
  rw [i64Add_of_fits $hlo $hhi]
  by_cases h1 : $off ≥ $len ∨ $off < 0 ∨ $batch < 0
  · have h1' : ($off ≥ $len ∨ $off < 0) ∨ $batch < 0 := by omega
    simp only [h1, h1', if_true]; rfl
  · have h1' : ¬ (($off ≥ $len ∨ $off < 0) ∨ $batch < 0) := by omega
    simp only [h1, h1', if_false]
    by_cases h2 : $off + $batch ≥ $len
    · simp only [h2, if_true]; rfl
    · simp only [h2, if_false]; rfl))

/-- generation 2 `GetSliceStartEndForLiquidations` as translated from the current source = `sliceBoundsI` -/
theorem pure_sliceStartEndV2_eq_model (len off batch : Int)
    (hlo : -9223372036854775808 ≤ off + batch) (hhi : off + batch < 9223372036854775808) :
    Gen.Pure.sliceStartEndV2 len off batch = .ok (sliceBoundsI len off batch) := by
  unfold Gen.Pure.sliceStartEndV2
  slice_tac len off batch hlo hhi

/-- generation 1 `GetSliceStartEndForLiquidations` as translated from the current source = `sliceBoundsI` -/
theorem pure_sliceStartEndV1_eq_model (len off batch : Int)
    (hlo : -9223372036854775808 ≤ off + batch) (hhi : off + batch < 9223372036854775808) :
    Gen.Pure.sliceStartEndV1 len off batch = .ok (sliceBoundsI len off batch) := by
  unfold Gen.Pure.sliceStartEndV1
  slice_tac len off batch hlo hhi

example : Gen.Pure.sliceStartEndV2 10 3 4 = .ok (3, 7) := by rfl
example : Gen.Pure.sliceStartEndV2 10 8 4 = .ok (8, 10) := by rfl
example : Gen.Pure.sliceStartEndV1 10 10 4 = .ok (10, 10) := by rfl
example : sliceBoundsI 10 3 4 = (3, 7) := by decide

/-- where the sum wraps the code returns a NEGATIVE end (the caller's `s[start:end]` then panics); the model does not -/
theorem pure_sliceStartEnd_wrap_counterexample :
    Gen.Pure.sliceStartEndV2 5 1 9223372036854775807 = .ok (1, -9223372036854775808) ∧
    Gen.Pure.sliceStartEndV1 5 1 9223372036854775807 = .ok (1, -9223372036854775808) ∧
    sliceBoundsI 5 1 9223372036854775807 = (1, 5) := by
  refine ⟨by rfl, by rfl, by decide⟩

end Comdex.C09
