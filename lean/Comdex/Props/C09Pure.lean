import Comdex.Gen.Pure
import Comdex.Lemmas.GoSem
import Comdex.Model.Liquidation
/-!
# C09 — the sweep's slice bounds of the model ARE the arithmetic of the current Go source

`Gen.Pure.sliceStartEndV2` / `sliceStartEndV1` are regenerated on every run by `extract/pure` from
`x/liquidationsV2/types/offset.go` / `x/liquidation/types/liquidations.go`: `GetSliceStartEndForLiquidations`
(Go `int` arithmetic: `offset + batchSize` wraps at 2^63).  `Liquidation.sliceBoundsI` is the hand-written model used by
the sweep (`sweepBoundsI`, `vaultPass`, `borrowPassV2` …) and by the C09 liveness theorems.

Go function → theorem
* generation 2 `GetSliceStartEndForLiquidations` → `pure_sliceStartEndV2_eq_model`
* generation 1 `GetSliceStartEndForLiquidations` → `pure_sliceStartEndV1_eq_model`
  for ALL integer arguments, no hypothesis.

History: the first version of these theorems needed the hypothesis "`offset + batchSize` stays inside int64" — the model
added without wrap-around.  The real function wraps (`GetSliceStartEndForLiquidations(5, 1, MaxInt64) = (1, MinInt64)`,
run on both generations); the MODEL was repaired (`Liquidation.wrapInt`), `C09.slice_in_bounds` and the theorems built
on it now state the no-wrap hypothesis, and `C09.slice_in_bounds_wrap_counterexample` /
`pure_sliceStartEnd_wrap_witness` record the witness.  See notes/PURE.md.

Trusted: the translator's reading of Go and `Base/GoSem.lean`; kernel-checked: the equality with the model.
-/
namespace Comdex.C09
open Comdex Comdex.GoSem Comdex.Liquidation

theorem i64Add_eq_wrapInt (a b : Int) : i64Add a b = wrapInt (a + b) := rfl

/-- the proof of both generations (the two Go functions are textual copies) -/
local macro "slice_tac" len:ident off:ident batch:ident : tactic => `(tactic| (
  unfold sliceBoundsI
  rw [i64Add_eq_wrapInt]
  by_cases h1 : $off ≥ $len ∨ $off < 0 ∨ $batch < 0
  · have h1' : ($off ≥ $len ∨ $off < 0) ∨ $batch < 0 := by omega
    simp only [h1, h1', if_true]; rfl
  · have h1' : ¬ (($off ≥ $len ∨ $off < 0) ∨ $batch < 0) := by omega
    simp only [h1, h1', if_false]
    by_cases h2 : wrapInt ($off + $batch) ≥ $len
    · simp only [h2, if_true]; rfl
    · simp only [h2, if_false]; rfl))

/-- generation 2 `GetSliceStartEndForLiquidations` as translated from the current source = `sliceBoundsI` -/
theorem pure_sliceStartEndV2_eq_model (len off batch : Int) :
    Gen.Pure.sliceStartEndV2 len off batch = .ok (sliceBoundsI len off batch) := by
  unfold Gen.Pure.sliceStartEndV2
  slice_tac len off batch

/-- generation 1 `GetSliceStartEndForLiquidations` as translated from the current source = `sliceBoundsI` -/
theorem pure_sliceStartEndV1_eq_model (len off batch : Int) :
    Gen.Pure.sliceStartEndV1 len off batch = .ok (sliceBoundsI len off batch) := by
  unfold Gen.Pure.sliceStartEndV1
  slice_tac len off batch

example : Gen.Pure.sliceStartEndV2 10 3 4 = .ok (3, 7) := by rfl
example : Gen.Pure.sliceStartEndV2 10 8 4 = .ok (8, 10) := by rfl
example : Gen.Pure.sliceStartEndV1 10 10 4 = .ok (10, 10) := by rfl
example : sliceBoundsI 10 3 4 = (3, 7) := by decide

/-- where the sum wraps the code returns a NEGATIVE end (the caller's `s[start:end]` then panics) — and so does the model -/
theorem pure_sliceStartEnd_wrap_witness :
    Gen.Pure.sliceStartEndV2 5 1 9223372036854775807 = .ok (1, -9223372036854775808) ∧
    Gen.Pure.sliceStartEndV1 5 1 9223372036854775807 = .ok (1, -9223372036854775808) ∧
    sliceBoundsI 5 1 9223372036854775807 = (1, -9223372036854775808) := by
  refine ⟨by rfl, by rfl, by decide⟩

end Comdex.C09
