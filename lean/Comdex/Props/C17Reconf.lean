import Comdex.Props.C17
import Comdex.Lemmas.Reconf
/-!
# C17 across governance: the window parameters are (re)configured

The property is stated "for a fixed window size N". On the chain N (`TwaBatchSize`) and the accepted gap
(`AcceptedHeightDiff`) are installed by the `FetchPriceProposal` (`x/bandoracle/keeper/oracle.go:167-177
AddFetchPriceRecords`), any number of times. The code keeps the premise of the property true by DELETING every stored
window when the parameters are installed; this file puts that step into the model and proves that it is sufficient and
necessary.

clause → theorem
* a (re)configuration deletes every stored window and installs the new parameters     → `reconfigure_restarts_every_window`
  (the delete loop as written leaves nothing: `Feed.deleteAllWindows_nil`)
* one window, histories WITH reconfigurations: the stored window is always the fresh run of the LAST maximal segment
  under that segment's N and gap                                                        → `every_segment_is_a_fresh_run`
* hence, for every history with reconfigurations (every N' ≥ 1, positive heights):
  - never panics / never indexes outside the window, well-formed for the N in force     → `no_oob_across_reconfigurations`
  - observably the sliding-window specification of the segment                          → `segment_refines_spec`
  - active ⇒ full window of the segment's N, published value = integer mean            → `segment_active_mean`
  - active ⇒ at least N' positive samples SINCE the reconfiguration                    → `activation_needs_N_fresh_positive`
* the whole chain (band side, market begin-blocker, proposals, asset-list changes, ANY genesis windows):
  - never panics, windows well-formed for the N in force once configured                → `chain_never_panics`
  - every asset's window is the result of ITS single-window history (samples by rank, bulk discards, switch-offs,
    reconfigurations), so all of the above holds per asset                               → `chain_window_history`,
                                                                                           `chain_activation_needs_N_fresh_positive`
  - windows imported by genesis are only ever switched off before the first proposal, and deleted by it
                                                                                         → `unconfigured_chain_only_switches_off`
* NECESSITY of the clearing (counterfactual: parameters replaced, windows kept):
  - a full window that is well-formed for N is well-formed for NO other N'              → `stale_full_window_not_wf`
  - shrinking: the write cursor lies outside the new window, the published mean ignores the new sample;
    growing: `CalculateTwa` indexes past the slice (panic)                              → `stale_window_oob_counterexample`
  - growing: the price activates with fewer than N' samples of the new configuration    → `stale_window_early_activation_counterexample`
  - a delete loop keyed by an id that is no asset id deletes nothing                    → `delete_by_script_keeps_windows`,
                                                                                           `chain_stale_counterexample`
* last clause, per consumer: the readers that test the activity flag hand out a value only for an active price, and
  nothing at all right after a (re)configuration                                        → `strict_readers_fail_closed`,
                                                                                           `readers_refuse_after_reconfigure`
  three reward-weighting readers answer with the last average of an INACTIVE price (finding D35)
                                                                                         → `stale_tolerant_readers_counterexample`,
                                                                                           `stale_tolerant_readers_answer_iff`
-/
namespace Comdex.C17
open Comdex Comdex.Twa Comdex.Feed

/-- **A (re)configuration restarts every window**: the proposal handler installs the new parameters, re-arms the band
side and leaves NO stored window — for any stored windows of any shape, listed or not. -/
theorem reconfigure_restarts_every_window (c : Chain) (cfg : Cfg) (h : Int) :
    ∃ c', chainStep c (.configure cfg h) = .ok c' ∧ c'.cfg = cfg ∧ c'.bk = [] ∧ (∀ id, c'.bk.get id = none) ∧
      (∀ N, BooksWf N c'.bk) ∧ c'.b.lastBlock = h ∧ c'.b.checkFlag = false ∧ c'.b.discardBool = false ∧ c'.b.discardHeight = -1 := by
  refine ⟨_, rfl, rfl, deleteAllWindows_nil c.bk, fun id => ?_, fun N => ?_, rfl, rfl, rfl, rfl⟩
  · show (deleteAllWindows c.bk).get id = none
    rw [deleteAllWindows_nil]; rfl
  · show BooksWf N (deleteAllWindows c.bk)
    rw [deleteAllWindows_nil]; intro x hx; cases hx

/-- **Every maximal segment is a fresh run**: whatever happened before, the window stored after a history with
reconfigurations is the result of running the ops since the last reconfiguration, under the parameters it installed,
from the window the segment started with — which is the EMPTY store as soon as one reconfiguration happened. -/
theorem every_segment_is_a_fresh_run (c st : CSt) (ops : List COp) (h : crun c ops = .ok st) :
    st.cfg = (lastSegment c ops).cfg ∧
    run st.cfg.N st.cfg.acc (lastSegment c ops).start (lastSegment c ops).ops = .ok st.s ∧
    ((∃ cfg, COp.reconfigure cfg ∈ ops) → (lastSegment c ops).start = none) := by
  have := crun_seg ops { cfg := c.cfg, start := c.s, ops := [] } c st ⟨rfl, rfl⟩ h
  refine ⟨this.1, ?_, fun hr => foldl_seg_start ops _ hr⟩
  rw [this.1]; exact this.2

/-- **No panic, no out-of-window index, across reconfigurations**: every history of samples, bulk operations and
reconfigurations (each installing some `N' ≥ 1`) from a well-formed window runs to completion, and the stored window is
well-formed for the window size IN FORCE. -/
theorem no_oob_across_reconfigurations (c : CSt) (ops : List COp) (hN : c.cfg.N ≥ 1) (hwf : WfO c.cfg.N c.s) (hv : ValidC ops) :
    ∃ st, crun c ops = .ok st ∧ st.cfg.N ≥ 1 ∧ WfO st.cfg.N st.s ∧ (∃ v, latestPrice st.s = .ok v) := by
  obtain ⟨st, h, hn, hw⟩ := crun_total ops c hN hwf hv
  exact ⟨st, h, hn, hw, latest_price_in_bounds st.cfg.N st.s hw⟩

theorem segment_heights (c : CSt) (ops : List COp) (hv : ValidC ops) : HeightsPos (lastSegment c ops).ops := by
  intro op hop r h e
  subst e
  rcases foldl_seg_ops ops _ _ hop with h1 | h1
  · cases h1
  · exact hv.2 r h h1

/-- **Refinement per segment**: after at least one reconfiguration the stored window is, observably, the sliding-window
specification of the samples SINCE the last reconfiguration, for the N and gap it installed — whatever was stored before. -/
theorem segment_refines_spec (c st : CSt) (ops : List COp) (hv : ValidC ops)
    (hr : ∃ cfg, COp.reconfigure cfg ∈ ops) (h : crun c ops = .ok st) :
    st.cfg.N ≥ 1 ∧ abs st.s = specRun st.cfg.N st.cfg.acc Spec.init (lastSegment c ops).ops := by
  obtain ⟨hcfg, hrun, hstart⟩ := every_segment_is_a_fresh_run c st ops h
  have hn : st.cfg.N ≥ 1 := by rw [hcfg]; exact foldl_seg_cfg_valid ops _ hv.1 hr
  rw [hstart hr] at hrun
  obtain ⟨s', hs', ha⟩ := refines_spec st.cfg.N hn st.cfg.acc (lastSegment c ops).ops (segment_heights c ops hv)
  rw [hrun] at hs'; cases hs'
  exact ⟨hn, ha⟩

/-- **Mean per segment**: an active price has a full window of the N in force and publishes its integer mean. -/
theorem segment_active_mean (c st : CSt) (ops : List COp) (hv : ValidC ops)
    (hr : ∃ cfg, COp.reconfigure cfg ∈ ops) (h : crun c ops = .ok st) :
    (abs st.s).active = true → (abs st.s).window.length = st.cfg.N ∧ (abs st.s).twa = (abs st.s).window.sum / st.cfg.N := by
  rw [(segment_refines_spec c st ops hv hr h).2]
  exact (spec_run_inv st.cfg.N st.cfg.acc _ Spec.init ⟨by simp [Spec.init], by simp [Spec.init]⟩).2

/-- **Activation needs N' FRESH positive samples**: after a reconfiguration to `N'` the price is active only if at least
`N'` positive samples were received since that reconfiguration — samples of an earlier configuration never count. -/
theorem activation_needs_N_fresh_positive (c st : CSt) (ops : List COp) (hv : ValidC ops)
    (hr : ∃ cfg, COp.reconfigure cfg ∈ ops) (h : crun c ops = .ok st) :
    (abs st.s).active = true → countPos (lastSegment c ops).ops ≥ st.cfg.N := by
  intro ha
  have hl := (segment_active_mean c st ops hv hr h ha).1
  rw [(segment_refines_spec c st ops hv hr h).2] at hl
  have hc := spec_window_le_count st.cfg.N st.cfg.acc (lastSegment c ops).ops Spec.init
  have h0 : Spec.init.window.length = 0 := rfl
  rw [h0] at hc
  omega

/-! ### the whole chain -/

/-- every op of a history is admissible: proposals carry `N ≥ 1` (`ValidateBasic`), heights positive, asset ids distinct -/
def ValidOps (ops : List ChainOp) : Prop := ∀ o ∈ ops, ValidOp o

/-- **The chain never panics**, from ANY genesis (stored windows of any shape, any check flag), for every history of
proposals, acknowledgments, responses, asset-list changes and begin-blockers in any interleaving; once a proposal has
passed, every stored window is well-formed for the window size in force. -/
theorem chain_never_panics (flag : Bool) (bk0 : Books) (ops : List ChainOp) (hv : ValidOps ops) :
    ∃ c', chainRun (Chain.genesis flag bk0) ops = .ok c' ∧
      (c'.b.lastBlock ≠ 0 → c'.cfg.N ≥ 1 ∧ BooksWf c'.cfg.N c'.bk) ∧ (c'.b.lastBlock = 0 → c'.b.validation = false) := by
  obtain ⟨c', h, hinv, _⟩ := chainRun_spec ops _ (genesis_inv flag bk0) hv
  exact ⟨c', h, hinv.2, hinv.1⟩

/-- **Every asset's window has a single-window history**: the window of asset `id` after a chain history is the result
of the single-window history `projectRun id` (one sample per sampling block with the rate at the asset's rank, a bulk
discard when one is pending, a switch-off while the feed is not validated, a reconfiguration per proposal) — so every
single-window theorem applies to every asset the chain prices. -/
theorem chain_window_history (flag : Bool) (bk0 : Books) (ops : List ChainOp) (hv : ValidOps ops) (id : Nat) :
    ∃ c', chainRun (Chain.genesis flag bk0) ops = .ok c' ∧
      crun { cfg := (Chain.genesis flag bk0).cfg, s := bk0.get id } (projectRun id (Chain.genesis flag bk0) ops) =
        .ok { cfg := c'.cfg, s := c'.bk.get id } ∧
      ValidC (projectRun id (Chain.genesis flag bk0) ops) := by
  obtain ⟨c', h, _, hp⟩ := chainRun_spec ops _ (genesis_inv flag bk0) hv
  exact ⟨c', h, hp id, projectRun_valid id ops _ hv⟩

/-- **On the chain, activation needs N' fresh positive samples**: once a proposal has passed, an asset's price is active
only if, since the LAST proposal, at least `N'` positive rates were fed to it (by rank) — whatever windows the genesis
file or an earlier configuration left behind. -/
theorem chain_activation_needs_N_fresh_positive (flag : Bool) (bk0 : Books) (ops : List ChainOp) (hv : ValidOps ops) (id : Nat)
    (cfg : Cfg) (h : Int) (hc : ChainOp.configure cfg h ∈ ops) :
    ∃ c', chainRun (Chain.genesis flag bk0) ops = .ok c' ∧
      ((abs (c'.bk.get id)).active = true →
        countPos (lastSegment { cfg := (Chain.genesis flag bk0).cfg, s := bk0.get id } (projectRun id (Chain.genesis flag bk0) ops)).ops ≥ c'.cfg.N ∧
        (abs (c'.bk.get id)).window.length = c'.cfg.N ∧ (abs (c'.bk.get id)).twa = (abs (c'.bk.get id)).window.sum / c'.cfg.N) := by
  obtain ⟨c', hrun, _, hp⟩ := chainRun_spec ops _ (genesis_inv flag bk0) hv
  refine ⟨c', hrun, fun ha => ?_⟩
  have hrec : ∃ cfg, COp.reconfigure cfg ∈ projectRun id (Chain.genesis flag bk0) ops :=
    ⟨cfg, configure_projects id ops _ c' cfg h hc hrun⟩
  have hvalid := projectRun_valid id ops (Chain.genesis flag bk0) hv
  exact ⟨activation_needs_N_fresh_positive _ _ _ hvalid hrec (hp id) ha, segment_active_mean _ _ _ hvalid hrec (hp id) ha⟩

/-- **Windows imported by genesis are never sampled**: while no proposal has passed the feed is not validated, and the
market begin-blocker does nothing to a window but switch it off (listed assets) — for genesis windows of ANY shape. -/
theorem unconfigured_chain_only_switches_off (c : Chain) (o : ChainOp) (h0 : c.b.lastBlock = 0) (hv : c.b.validation = false)
    (hnc : ∀ cfg h, o ≠ ChainOp.configure cfg h) :
    ∃ c', chainStep c o = .ok c' ∧ c'.b.lastBlock = 0 ∧ c'.b.validation = false ∧ c'.cfg = c.cfg ∧
      ∀ id, c'.bk.get id = c.bk.get id ∨ c'.bk.get id = deactivate (c.bk.get id) := by
  cases o with
  | configure cfg h => exact absurd rfl (hnc cfg h)
  | ack i => exact ⟨_, rfl, h0, hv, rfl, fun id => Or.inl rfl⟩
  | response i r => exact ⟨_, rfl, h0, hv, rfl, fun id => Or.inl rfl⟩
  | assetChange q =>
    refine ⟨_, rfl, ?_, ?_, rfl, fun id => Or.inl rfl⟩
    · show (c.b.assetChange q).lastBlock = 0
      unfold Band.assetChange; split <;> exact h0
    · show (c.b.assetChange q).validation = false
      unfold Band.assetChange; split <;> exact hv
  | band h =>
    refine ⟨_, rfl, ?_, ?_, rfl, fun id => Or.inl rfl⟩
    · show (bandBegin c.b h c.cfg.acc).lastBlock = 0
      rw [bandBegin_unconfigured c.b h c.cfg.acc h0]; exact h0
    · show (bandBegin c.b h c.cfg.acc).validation = false
      rw [bandBegin_unconfigured c.b h c.cfg.acc h0]; exact hv
  | market h assets =>
    obtain ⟨hm, _⟩ := marketBegin_window_unconfigured c.b c.cfg.N c.cfg.acc h assets c.bk hv
    refine ⟨{ c with b := c.b, bk := switchOff assets c.bk }, by simp only [chainStep, hm, Except.map], h0, hv, rfl, fun id => ?_⟩
    show (switchOff assets c.bk).get id = _ ∨ (switchOff assets c.bk).get id = _
    rw [get_switchOff]
    split
    · exact Or.inr rfl
    · exact Or.inl rfl

/-! ### Necessity of the clearing (counterfactuals) -/

/-- **A full window fits exactly one window size**: a record that is well-formed for `N` with all `N` slots filled is
well-formed for NO other size — so new parameters cannot be installed over the stored windows. -/
theorem stale_full_window_not_wf (N N' : Nat) (r : Rec) (hwf : Wf N r) (hfull : r.values.length = N) (hne : N' ≠ N) :
    ¬ Wf N' r := by
  intro h'
  obtain ⟨hle, hlt, _, _, _, _⟩ := h'
  obtain ⟨_, _, hidx, _, _, _⟩ := hwf
  have hi := hidx hfull
  rcases Nat.lt_or_ge N' N with h | h
  · omega
  · have hl : r.values.length < N' := by omega
    have := (hlt hl).1
    omega

/-- a window filled under N = 5 (switched off by the warm-up round after a proposal) -/
def staleFive : Rec := { values := [10, 20, 30, 40, 50], idx := 4, twa := 30, active := false, discarded := -1 }
/-- an active window filled under N = 3 -/
def staleThree : Rec := { values := [10, 20, 30], idx := 0, twa := 20, active := true, discarded := -1 }

/-- **Without the clearing the pipeline leaves its window** (what seed s91 exhibits on the real code).
Shrinking 5 → 2: the stale record is not well-formed for 2; the next sample (99) is written at index 4 ≥ 2 — outside
the window —, the price activates after ONE sample and publishes ⌊(10+20)/2⌋ = 15, a mean the new sample is not part of.
Growing 3 → 5 on an active record: `CalculateTwa` reads slot 3 of a three-element slice — a panic in the market
begin-blocker; as a history: the same five ops run to completion WITH the clearing and panic WITHOUT it. -/
theorem stale_window_oob_counterexample :
    Wf 5 staleFive ∧ ¬ Wf 2 staleFive ∧ staleFive.idx ≥ 2 ∧
    update (some staleFive) 99 2 100 60 =
      .ok (some { values := [10, 20, 30, 40, 99], idx := 0, twa := 15, active := true, discarded := -1 }) ∧
    Wf 3 staleThree ∧ ¬ Wf 5 staleThree ∧ update (some staleThree) 99 5 100 60 = .error .oob ∧
    crunStale ⟨⟨3, 60⟩, none⟩ [.op (.sample 10 20), .op (.sample 20 40), .op (.sample 30 60), .reconfigure ⟨5, 60⟩, .op (.sample 99 80)]
      = .error .oob ∧
    crun ⟨⟨3, 60⟩, none⟩ [.op (.sample 10 20), .op (.sample 20 40), .op (.sample 30 60), .reconfigure ⟨5, 60⟩, .op (.sample 99 80)]
      = .ok ⟨⟨5, 60⟩, some { values := [99], idx := 1, twa := 0, active := false, discarded := -1 }⟩ :=
  ⟨by decide, by decide, by decide, rfl, by decide, by decide, rfl, rfl, rfl⟩

/-- five samples under N = 3, reconfiguration to N = 5, the warm-up round switches the price off, three samples -/
def staleHistory : List COp :=
  [.op (.sample 10 20), .op (.sample 20 40), .op (.sample 30 60), .op (.sample 40 80), .op (.sample 50 100),
   .reconfigure ⟨5, 60⟩, .op .deactivate, .op (.sample 60 140), .op (.sample 70 160), .op (.sample 80 180)]

/-- **Without the clearing the price activates early on stale samples**: growing 3 → 5 with the ring at phase 2, the
price is active after THREE samples of the new configuration and publishes ⌊(40+50+30+60+80)/5⌋ = 52 — three of the five
values are samples of the previous configuration; with the clearing it is inactive with a window of exactly the three
fresh samples. -/
theorem stale_window_early_activation_counterexample :
    crunStale ⟨⟨3, 60⟩, none⟩ staleHistory =
      .ok ⟨⟨5, 60⟩, some { values := [40, 50, 30, 60, 80], idx := 0, twa := 52, active := true, discarded := -1 }⟩ ∧
    countPos (lastSegment ⟨⟨3, 60⟩, none⟩ staleHistory).ops = 3 ∧
    crun ⟨⟨3, 60⟩, none⟩ staleHistory =
      .ok ⟨⟨5, 60⟩, some { values := [60, 70, 80], idx := 3, twa := 0, active := false, discarded := -1 }⟩ :=
  ⟨rfl, by decide, rfl⟩

/-- **A delete loop keyed by an id that is no asset id deletes nothing** (and keyed by an id that IS one, exactly that
unrelated asset's window): the seeded `DeleteTwaData(ctx, data.ScriptID)`. -/
theorem delete_by_script_keeps_windows (script : Nat) (bk : Books) :
    (script ∉ bk.map (·.1) → deleteByScript script bk = bk) ∧
    (∀ x, x ∈ deleteByScript script bk ↔ x ∈ bk ∧ x.1 ≠ script) :=
  ⟨deleteByScript_keeps script bk, mem_deleteByScript script bk⟩

/-- one oracle round: request `id` acknowledged and answered with `rate`, then both begin-blockers at height `h` -/
def demoRound (h id : Int) (rate : Nat) : List ChainOp := [.ack id, .response id [rate], .band h, .market h [(1, true)]]

/-- the history of the seed's demonstration: proposal N = 3, warm-up, five samples, proposal N = 5, warm-up, three samples -/
def demoHistory : List ChainOp :=
  [.configure ⟨3, 60⟩ 10] ++ demoRound 20 1 1000 ++ demoRound 40 2 10 ++ demoRound 60 3 20 ++ demoRound 80 4 30 ++
  demoRound 100 5 40 ++ demoRound 120 6 50 ++ [.configure ⟨5, 60⟩ 130] ++ demoRound 140 7 55 ++ demoRound 160 8 60 ++
  demoRound 180 9 70 ++ demoRound 200 10 80

/-- what a run leaves behind (`none` = panic) -/
def finalBooks (r : Except Panic Chain) : Option (Cfg × Books) := match r with | .ok c => some (c.cfg, c.bk) | .error _ => none

/-- **The chain with the loop keyed by the script id** (112, no asset id): after the second proposal the price of asset 1
is active after three samples with a window mixing both configurations; the chain as written has it inactive with the
three fresh samples. With script id 1 (= the asset's id) the loop happens to delete the right window. -/
theorem chain_stale_counterexample :
    finalBooks (chainRunStale 112 {} demoHistory) =
      some (⟨5, 60⟩, [(1, { values := [40, 50, 30, 60, 80], idx := 0, twa := 52, active := true, discarded := -1 })]) ∧
    finalBooks (chainRun {} demoHistory) =
      some (⟨5, 60⟩, [(1, { values := [60, 70, 80], idx := 3, twa := 0, active := false, discarded := -1 })]) ∧
    finalBooks (chainRunStale 1 {} demoHistory) = finalBooks (chainRun {} demoHistory) := by
  decide +kernel


/-! ### Consumers (last clause: "consumers asking for the value of an asset with an inactive price get an error") -/

/-- **The readers that test the activity flag fail closed**: `market.CalcAssetPrice` (through which vault, lend,
liquidation and auction value assets), `GetLatestPrice`, the vault ratio, `rewards.OraclePrice` hand out a value only
for an active price — for ANY stored window (reachable or not: also a stale or genesis-imported one). -/
theorem strict_readers_fail_closed (r : Reader) (s : Option Rec) (listed : Bool) (hs : r.strict = true)
    (h : r.answers s listed = true) : (abs s).active = true := by
  cases s with
  | none => simp [Reader.answers] at h
  | some w =>
    cases r <;> simp [Reader.strict] at hs <;> simp [Reader.answers] at h <;> simp [abs, h]

/-- after a (re)configuration every reader refuses every asset until its window has been refilled: nothing is stored -/
theorem readers_refuse_after_reconfigure (c : Chain) (cfg : Cfg) (h : Int) (r : Reader) (id : Nat) (listed : Bool) :
    ∃ c', chainStep c (.configure cfg h) = .ok c' ∧ r.answers (c'.bk.get id) listed = false := by
  obtain ⟨c', hc, _, _, hget, _⟩ := reconfigure_restarts_every_window c cfg h
  exact ⟨c', hc, by rw [hget id]; rfl⟩

/-- **Finding D35**: the three reward-weighting readers do NOT fail closed. Window size 1: a sample of 5 activates the
price, a zero sample deactivates it — the stored average stays 5 — and `liquidity.CalcAssetPrice`, `liquidity.OraclePrice`,
`rewards.OraclePriceForRewards` still answer, while every flag-testing reader refuses. -/
theorem stale_tolerant_readers_counterexample :
    run 1 60 none [.sample 5 20, .sample 0 40] = .ok (some { values := [5], idx := 0, twa := 5, active := false, discarded := 40 }) ∧
    (∀ r : Reader, r.answers (some { values := [5], idx := 0, twa := 5, active := false, discarded := 40 }) true = !r.strict) :=
  ⟨rfl, by intro r; cases r <;> rfl⟩

/-- exactly when they answer: a stored window with a non-zero last average (or an active one) -/
theorem stale_tolerant_readers_answer_iff (w : Rec) :
    (Reader.liqCalc.answers (some w) true = true ↔ w.twa > 0) ∧
    (Reader.liqOracle.answers (some w) true = true ↔ (w.active = true ∨ w.twa > 0)) ∧
    (Reader.rewardsPrice.answers (some w) true = true ↔ (w.active = true ∨ w.twa > 0)) := by
  simp [Reader.answers]

example : Reader.calc.strict = true ∧ Reader.calc.answers (some { values := [5], idx := 0, twa := 5, active := true, discarded := -1 }) true = true := by decide

/-! ### Non-vacuity -/
-- a history with two reconfigurations; the last segment is the two samples after the second one
example : crun ⟨⟨2, 60⟩, none⟩ [.op (.sample 5 20), .op (.sample 7 40), .reconfigure ⟨3, 60⟩, .op (.sample 9 60), .reconfigure ⟨1, 40⟩,
      .op (.sample 4 80), .op (.sample 6 100)] =
    .ok ⟨⟨1, 40⟩, some { values := [6], idx := 0, twa := 6, active := true, discarded := -1 }⟩ := rfl
example : (lastSegment ⟨⟨2, 60⟩, none⟩ [.op (.sample 5 20), .reconfigure ⟨3, 60⟩, .op (.sample 9 60), .op .discardAll]).ops =
    [.sample 9 60, .discardAll] := rfl
example : ValidC [.op (.sample 5 20), .reconfigure ⟨3, 60⟩, .op (.sample 9 60)] := by
  refine ⟨fun cfg h => ?_, fun r h hm => ?_⟩
  · simp at h; subst h; decide
  · simp at hm; rcases hm with ⟨rfl, rfl⟩ | ⟨rfl, rfl⟩ <;> decide
-- the hypotheses of the chain theorems are satisfiable: the seed's history is valid and contains two proposals
example : ValidOps demoHistory := by
  intro o ho
  simp [demoHistory, demoRound] at ho
  rcases ho with rfl | rfl | rfl | rfl | rfl | rfl | rfl | rfl | rfl | rfl | rfl | rfl | rfl | rfl | rfl | rfl | rfl | rfl | rfl | rfl |
    rfl | rfl | rfl | rfl | rfl | rfl | rfl | rfl | rfl | rfl | rfl | rfl | rfl | rfl | rfl | rfl | rfl | rfl | rfl | rfl | rfl | rfl <;>
    simp [ValidOp]
example : ChainOp.configure ⟨5, 60⟩ 130 ∈ demoHistory := by simp [demoHistory]
example : (projectRun 1 {} demoHistory).length = 12 ∧ countPos (lastSegment ⟨⟨0, 0⟩, none⟩ (projectRun 1 {} demoHistory)).ops = 3 := by decide +kernel
-- a genesis window of a shape no run produces (index past the slice) is switched off, then deleted by the proposal
example : finalBooks (chainRun (Chain.genesis true [(1, { values := [7], idx := 9, twa := 7, active := true, discarded := -1 })])
      [.band 20, .market 20 [(1, true)]]) =
    some (⟨0, 0⟩, [(1, { values := [7], idx := 9, twa := 7, active := false, discarded := -1 })]) := by decide +kernel
example : finalBooks (chainRun (Chain.genesis true [(1, { values := [7], idx := 9, twa := 7, active := true, discarded := -1 })])
      [.band 20, .market 20 [(1, true)], .configure ⟨2, 60⟩ 25]) = some (⟨2, 60⟩, []) := by decide +kernel

end Comdex.C17
