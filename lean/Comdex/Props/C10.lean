import Comdex.Lemmas.DutchPrice
import Comdex.Lemmas.DutchV2
import Comdex.Lemmas.DutchV1
import Comdex.Lemmas.DutchV1Lend
import Comdex.Lemmas.DutchV1LendBook
import Comdex.Lemmas.DutchV2W
import Comdex.Lemmas.DutchBand
/-!
# C10 — Dutch auctions settle completely and sell at the posted, falling price

Property clause → theorem (models: `Model/DutchPrice.lean` price functions of both generations, `Model/DutchV2.lean`
second-generation bid path (vault / lend / external), `Model/DutchV1.lean` first-generation bid path for seized vaults;
`Model/DutchV1Lend.lean` first-generation lend auctions `dutch_lend.go` (`l1_…` theorems).  The first-generation versions of
the bid-path theorems are the `v1_…` theorems at the end; they hold without exception.

* "start price (oracle price times premium)"                         → `start_price_is_oracle_times_premium`
* "between restarts the posted price is non-increasing in time"      → `price_nonincreasing` (any `tau > 0`),
                                                                        `price_nonincreasing_v2`, `price_nonincreasing_v1`
* "stays between the start price …"                                   → `price_le_start`, `price_le_start_v2/_v1`
* "… and the configured end price"                                    → FALSE of the code at the last second of the window
                                                                        (`price_ge_end_counterexample`, DESIGN §7 D8);
                                                                        proved with explicit slack `(top−end)/tau + 1 ulp`:
                                                                        `price_ge_end_minus_slack_v2/_v1`;
                                                                        `window_within_time_to_zero` (`T ≤ tau`, so the
                                                                        posted price never goes negative inside the window)
* "bidders pay in total no more than the target debt"                 → `bidders_pay_le_target_partial`
* "… and receive in total no more than the seized collateral"         → `bidders_receive_le_collateral_partial`
     both over ALL sequences of market bids by any bidders, price updates, restarts, reserve top-ups, limit deposits and
     limit-bid fills with at most one limit bid per premium; FALSE with two limit bids at one premium:
     `bidders_pay_le_target_counterexample`, `bidders_receive_le_collateral_counterexample` (DESIGN §7 D7)
  (what "pay"/"receive" mean in bank terms: `bid_moves_exactly`)
* "each bid exchanges at the posted price, up to one smallest unit"   → `bid_at_posted_price` (collateral not exhausted),
                                                                        `bid_at_posted_price_exhausted` (collateral exhausted:
                                                                        against the amount charged + 2 debt units),
                                                                        `bid_at_posted_price_exhausted_requested` (against
                                                                        the amount the bidder asked to pay, no slack)
* "when the auction ends the proceeds are fully distributed …"        → `close_proceeds_distributed` (burn + collector +
                                                                        keeper + initiator + pool + booked fees = target,
                                                                        unsold collateral to the owner); one theorem per
                                                                        distribution branch of the close path, each with
                                                                        "no unaccounted remainder stays in custody":
                                                                        `vault_close_distributes` (bid.go:89-101,161-190),
                                                                        `external_close_distributes` (bid.go:122-158),
                                                                        `lend_close_distributes` (bid.go:191-202 →
                                                                        liquidate.go:722-813, + `lend_close_split`)
* the band in EVERY reachable state, emergency shutdown included       → `price_in_band_every_reachable_state` (+ what the shutdown
                                                                        iterator does per initiator kind:
                                                                        `esm_leaves_nonvault_auction_untouched_past_end`,
                                                                        `trigger_esm_moves`, `esm_trigger_repeats_counterexample`)
* "… and no unaccounted remainder stays in auction custody"           → `debt_custody_every_history` (every history, D7 / D23 / D24
                                                                        included: the remainder is exactly `paid + need − target`),
                                                                        `close_custody_accounted` (identity with the explicit
                                                                        shortfall term), `close_distributes_all_partial`
                                                                        (exact when no reserve shortfall happened),
                                                                        `close_distributes_all_counterexample`
                                                                        (reserve shortfall is silently taken from other
                                                                        users' funds in the module account)
-/
namespace Comdex.C10
open Comdex Comdex.Dec Comdex.DutchPrice Comdex.DutchV2

-- `Dec.fits` compares with 2^315; let `decide` evaluate it in the concrete witnesses below
set_option exponentiation.threshold 512

/-! ## price functions (both generations) -/

/-- the start price is exactly `premium × oracle price` (no rounding: the oracle price is an integer) -/
theorem start_price_is_oracle_times_premium (twa : Int) (premium p : Int) (h : startPrice twa premium = .ok p) :
    p = premium * twa := startPrice_ok h

example : startPrice 1400000 1200000000000000000 = .ok 1680000000000000000000000 := by decide

/-- **non-increasing**: for every start price ≥ 0, every positive time-to-zero and all elapsed times `d1 ≤ d2`
(no bound on either), a later posted price is never above an earlier one. -/
theorem price_nonincreasing (top : Int) (tau d1 d2 : Int) (p1 p2 : Int)
    (htop : (0 : Int) ≤ top) (ht : 0 < tau) (hd : d1 ≤ d2)
    (h1 : linear top tau d1 = .ok p1) (h2 : linear top tau d2 = .ok p2) : (p2 : Int) ≤ p1 := by
  rw [(linear_ok h1).1, (linear_ok h2).1]
  exact linearVal_antitone top tau d1 d2 htop ht hd

example : linear 1200000000000000000 33 3 = .ok 1090909090909090909 ∧ linear 1200000000000000000 33 4 = .ok 1054545454545454545 := by
  decide

/-- a valid window configuration: `0 ≤ end < start` -/
def ValidWindow (top endP : Int) : Prop := (0 : Int) ≤ endP ∧ (endP : Int) < top

theorem tau_pos_of_valid (top endP : Int) (T : Int) (hv : ValidWindow top endP) (hT : 0 ≤ T)
    (hne : tauVal top endP T ≠ 0) : 0 < tauVal top endP T := by
  have := tauVal_ge_T top endP T hv.1 (by have := hv.2; omega) hT
  omega

/-- the window never outlasts the time-to-zero (`T ≤ tau`) -/
theorem window_within_time_to_zero (top endP : Int) (T t : Int) (hv : ValidWindow top endP) (hT : 0 ≤ T)
    (h : tau top endP T = .ok t) : T ≤ t := by
  rw [(tau_ok h).1]
  exact tauVal_ge_T top endP T hv.1 (by have := hv.2; omega) hT

/-- first generation (`dutch.go:495-503`): stored end price -/
theorem price_nonincreasing_v1 (top endP : Int) (T d1 d2 : Int) (p1 p2 : Int)
    (hv : ValidWindow top endP) (hT : 0 ≤ T) (hd : d1 ≤ d2)
    (h1 : priceV1 top endP T d1 = .ok p1) (h2 : priceV1 top endP T d2 = .ok p2) : (p2 : Int) ≤ p1 := by
  obtain ⟨e1, hne⟩ := priceV1_ok h1
  obtain ⟨e2, _⟩ := priceV1_ok h2
  rw [e1, e2]
  exact linearVal_antitone top _ d1 d2 (by have := hv.1; have := hv.2; omega) (tau_pos_of_valid top endP T hv hT hne) hd

/-- second generation (`auctions.go:287-335`): end price recomputed from the app's `Discount` -/
theorem price_nonincreasing_v2 (top disc : Int) (T d1 d2 : Int) (p1 p2 : Int)
    (hv : ValidWindow top (Dec.mul top disc)) (hT : 0 ≤ T) (hd : d1 ≤ d2)
    (h1 : priceV2 top disc T d1 = .ok p1) (h2 : priceV2 top disc T d2 = .ok p2) : (p2 : Int) ≤ p1 := by
  obtain ⟨e1, hne⟩ := priceV2_ok h1
  obtain ⟨e2, _⟩ := priceV2_ok h2
  rw [e1, e2]
  exact linearVal_antitone top _ d1 d2 (by have := hv.1; have := hv.2; omega) (tau_pos_of_valid top _ T hv hT hne) hd

/-- **never above the start price** -/
theorem price_le_start (top : Int) (tau dur : Int) (p : Int) (htop : (0 : Int) ≤ top) (ht : 0 < tau) (hd : 0 ≤ dur)
    (h : linear top tau dur = .ok p) : (p : Int) ≤ top := by
  rw [(linear_ok h).1]; exact linearVal_le_top top tau dur htop ht hd

theorem price_le_start_v1 (top endP : Int) (T dur : Int) (p : Int) (hv : ValidWindow top endP) (hT : 0 ≤ T)
    (hd : 0 ≤ dur) (h : priceV1 top endP T dur = .ok p) : (p : Int) ≤ top := by
  obtain ⟨e1, hne⟩ := priceV1_ok h
  rw [e1]
  exact linearVal_le_top top _ dur (by have := hv.1; have := hv.2; omega) (tau_pos_of_valid top endP T hv hT hne) hd

theorem price_le_start_v2 (top disc : Int) (T dur : Int) (p : Int) (hv : ValidWindow top (Dec.mul top disc)) (hT : 0 ≤ T)
    (hd : 0 ≤ dur) (h : priceV2 top disc T dur = .ok p) : (p : Int) ≤ top := by
  obtain ⟨e1, hne⟩ := priceV2_ok h
  rw [e1]
  exact linearVal_le_top top _ dur (by have := hv.1; have := hv.2; omega) (tau_pos_of_valid top _ T hv hT hne) hd

/-- the price at elapsed time 0 IS the start price -/
theorem price_at_zero (top : Int) (tau : Int) (p : Int) (h : linear top tau 0 = .ok p) : p = top := by
  obtain ⟨e, hne⟩ := linear_ok h
  rw [e]; exact linearVal_zero top tau hne

/-- **lower bound with explicit slack** (first generation): inside the window
`price ≥ end − (start − end)/tau − 10⁻¹⁸`, stated cross-multiplied by `tau`. -/
theorem price_ge_end_minus_slack_v1 (top endP : Int) (T dur t : Int) (p : Int) (hv : ValidWindow top endP)
    (hT : 0 < T) (hd : dur ≤ T) (ht : tau top endP T = .ok t) (h : priceV1 top endP T dur = .ok p) :
    (endP : Int) * t - (top - endP) ≤ (p + 1) * t := by
  obtain ⟨e1, _⟩ := priceV1_ok h
  rw [e1, (tau_ok ht).1]
  exact linearVal_ge_end_slack top endP T dur hv.1 (by have := hv.2; omega) hT hd

/-- … and second generation -/
theorem price_ge_end_minus_slack_v2 (top disc : Int) (T dur t : Int) (p : Int) (hv : ValidWindow top (Dec.mul top disc))
    (hT : 0 < T) (hd : dur ≤ T) (ht : tau top (Dec.mul top disc) T = .ok t) (h : priceV2 top disc T dur = .ok p) :
    (Dec.mul top disc : Int) * t - (top - Dec.mul top disc) ≤ (p + 1) * t := by
  obtain ⟨e1, _⟩ := priceV2_ok h
  rw [e1, (tau_ok ht).1]
  exact linearVal_ge_end_slack top _ T dur hv.1 (by have := hv.2; omega) hT hd

/-- **the exact lower bound is false of the code** (DESIGN §7 D8): start 1.2, discount 0.7, window 10 s.
`tau = ⌊12/0.36⌋ = 33`, so at the last second of the window the posted price is 1.2·23/33 = 0.8363… < 0.84.
Replayed on both real keepers by the harness (first two lines of the run). -/
theorem price_ge_end_counterexample :
    endPrice 1200000000000000000 700000000000000000 = .ok 840000000000000000 ∧
    priceV2 1200000000000000000 700000000000000000 10 10 = .ok 836363636363636364 ∧
    priceV1 1200000000000000000 840000000000000000 10 10 = .ok 836363636363636364 ∧
    (836363636363636364 : Int) < 840000000000000000 := by decide

/-! ## second-generation bid path -/

/-- the auction record `DutchAuctionActivator` writes for a seized position -/
structure Start (e : Env) (a : Auc) : Prop where
  coll : a.coll = e.coll0
  debt : a.debt = e.target
  bonus : a.bonus = e.bonus0
  target_nonneg : 0 ≤ e.target
  coll_nonneg : 0 ≤ e.coll0
  bonus_nonneg : 0 ≤ e.bonus0
  price_nonneg : (0 : Int) ≤ a.price
  init_nonneg : (0 : Int) ≤ a.init
  window : a.end_ = a.start + e.T

theorem init_inv (e : Env) (a : Auc) (b : Bank) (r : Option Int) (hs : Start e a) : Inv e (initSt e a b r) := by
  refine ⟨by simp [initSt], by simp [initSt], ?_, ?_⟩
  · intro a' ha'
    simp only [initSt, Option.some.injEq] at ha'
    subst ha'
    simp only [initSt]
    refine ⟨by rw [hs.debt]; omega, by rw [hs.coll]; omega, by rw [hs.debt]; exact hs.target_nonneg,
      by rw [hs.coll]; exact hs.coll_nonneg, by rw [hs.bonus]; exact hs.bonus_nonneg, hs.price_nonneg, hs.init_nonneg,
      hs.window, by rw [hs.coll]; omega, by omega⟩
  · intro hn; simp [initSt] at hn

/-- **bidders pay in total no more than the target debt** — for every configuration, every initial bank, every finite
sequence of market bids (any bidders, any amounts), price updates / restarts with any oracle path, reserve top-ups, limit
deposits and limit-bid fills with at most one limit bid per premium bucket.  `_partial`: with two limit bids in one
bucket the statement is false of the code (`bidders_pay_le_target_counterexample`). -/
theorem bidders_pay_le_target_partial (e : Env) (hw : WfEnv e) (a : Auc) (b : Bank) (r : Option Int) (hs : Start e a)
    (ops : List Op) (hops : ∀ op ∈ ops, WfOp e op) :
    0 ≤ (run e (initSt e a b r) ops).paid ∧ (run e (initSt e a b r) ops).paid ≤ e.target := by
  have hi := run_inv hw ops _ (init_inv e a b r hs) hops
  refine ⟨hi.paid_nonneg, ?_⟩
  cases hauc : (run e (initSt e a b r) ops).auc with
  | none => exact (hi.closed hauc).1
  | some a' =>
    obtain ⟨o1, _, o3, _⟩ := hi.open_ a' hauc
    omega

/-- **bidders receive in total no more than the seized collateral** (same quantification) -/
theorem bidders_receive_le_collateral_partial (e : Env) (hw : WfEnv e) (a : Auc) (b : Bank) (r : Option Int) (hs : Start e a)
    (ops : List Op) (hops : ∀ op ∈ ops, WfOp e op) :
    0 ≤ (run e (initSt e a b r) ops).recv ∧ (run e (initSt e a b r) ops).recv ≤ e.coll0 := by
  have hi := run_inv hw ops _ (init_inv e a b r hs) hops
  refine ⟨hi.recv_nonneg, ?_⟩
  cases hauc : (run e (initSt e a b r) ops).auc with
  | none => exact (hi.closed hauc).2.1
  | some a' =>
    obtain ⟨_, o2, _, o4, _⟩ := hi.open_ a' hauc
    omega

/-- while the auction is open the books are exact: paid + remaining target = target, received + remaining collateral = seized -/
theorem open_books_exact (e : Env) (hw : WfEnv e) (a : Auc) (b : Bank) (r : Option Int) (hs : Start e a)
    (ops : List Op) (hops : ∀ op ∈ ops, WfOp e op) (a' : Auc) (h : (run e (initSt e a b r) ops).auc = some a') :
    (run e (initSt e a b r) ops).paid + a'.debt = e.target ∧ (run e (initSt e a b r) ops).recv + a'.coll = e.coll0 ∧
    0 ≤ a'.debt ∧ 0 ≤ a'.coll ∧ (0 : Int) ≤ a'.price := by
  have hi := run_inv hw ops _ (init_inv e a b r hs) hops
  obtain ⟨o1, o2, o3, o4, _, o6, _⟩ := hi.open_ a' h
  exact ⟨o1, o2, o3, o4, o6⟩

/-- what `paid` / `recv` mean: an accepted market bid debits exactly `Δpaid` of the debt denom from the bidder and credits
exactly `Δrecv` collateral to him; no other bidder's balance moves. -/
theorem bid_moves_exactly (e : Env) (hw : WfEnv e) (s s' : St) (who : Nat) (amt dt : Int) (hi : Inv e s) (hdt : 0 ≤ dt)
    (h : bidE e s who amt dt = .ok s') :
    s'.bank.get (.bidder who) .debt = s.bank.get (.bidder who) .debt - (s'.paid - s.paid) ∧
    s'.bank.get (.bidder who) .coll = s.bank.get (.bidder who) .coll + (s'.recv - s.recv) ∧
    0 ≤ s'.paid - s.paid ∧ 0 ≤ s'.recv - s.recv ∧
    ∀ n, n ≠ who → s'.bank.get (.bidder n) .coll = s.bank.get (.bidder n) .coll ∧
                   s'.bank.get (.bidder n) .debt = s.bank.get (.bidder n) .debt := by
  unfold bidE at h
  split at h
  · cases h
  · split at h
    · cases h
    · rename_i a ha
      unfold placeBid at h
      split at h
      · rename_i p hp
        obtain ⟨_, _, _, _, o5, o6, _⟩ := hi.open_ a ha
        have hpo := plan_ok hp o5 (debtPrice_nonneg e dt hdt) hw.decD_pos o6 hw.decC_pos
        obtain ⟨m1, m2, m3, m4, m5, _, _⟩ := apply_moves hpo h
        simp only [Bool.false_eq_true, if_false] at m4
        refine ⟨by rw [m4, m1]; omega, by rw [m3, m2]; omega, by rw [m1]; have := hpo.pay_nonneg; omega,
          by rw [m2]; have := hpo.total_nonneg; omega, m5⟩
      · cases h

/-- **each bid exchanges at the posted price, up to one smallest unit** (collateral not exhausted): the collateral handed
out is at most one unit above what the amount paid plus the advertised bonus buys at the posted price,
`recv ≤ (paid + bonus)·p_debt·dec_c / (dec_d·p_coll) + 1`, provided one unit of collateral is worth at least two ulps
(`dec_c·(p_coll + 10¹⁸) ≤ p_coll·10¹⁸`; checked on every real bid by the driver). -/
theorem bid_at_posted_price (e : Env) (hw : WfEnv e) (a : Auc) (amt0 dt : Int) (p : Plan)
    (hb : 0 ≤ a.bonus) (hpr : (0 : Int) ≤ a.price) (hdt : 0 ≤ dt)
    (hs : roundingSmall a.price e.decC = true)
    (h : plan e a amt0 (debtPrice e dt) = .ok p) (hnc : p.clipped = false) :
    monPosted p.total p.pay a.bonus (debtPrice e dt) e.decD a.price e.decC = true := by
  unfold roundingSmall at hs
  simp only [Bool.and_eq_true, decide_eq_true_eq] at hs
  unfold monPosted
  simp only [decide_eq_true_eq]
  exact plan_posted h hb (debtPrice_nonneg e dt hdt) hw.decD_pos hpr hw.decC_pos hs.2 hnc

/-- collateral exhausted (`bid.go:54-69`): the bidder receives all that is left, which is less than what the amount he
asked to pay (clipped to the remaining target) plus the bonus buys at the posted price. -/
theorem bid_at_posted_price_exhausted_requested (e : Env) (hw : WfEnv e) (a : Auc) (amt0 dt : Int) (p : Plan)
    (ha0 : 0 ≤ amt0) (hd0 : 0 ≤ a.debt) (hb : 0 ≤ a.bonus) (hpr : (0 : Int) ≤ a.price) (hdt : 0 ≤ dt)
    (hs : roundingSmall a.price e.decC = true)
    (h : plan e a amt0 (debtPrice e dt) = .ok p) (hc : p.clipped = true) :
    p.total = a.coll ∧
    p.total * (e.decD * a.price) ≤ ((if amt0 ≥ a.debt then a.debt else amt0) + a.bonus) * (debtPrice e dt) * e.decC := by
  unfold roundingSmall at hs
  simp only [Bool.and_eq_true, decide_eq_true_eq] at hs
  exact plan_clipped_bound h ha0 hd0 hb (debtPrice_nonneg e dt hdt) hw.decD_pos hpr hw.decC_pos hs.2 hc

/-- **collateral exhausted, against the amount finally charged**: the bidder receives all that is left and that is at most one
collateral unit above what `paid + 2` debt units plus the bonus buy at the posted price (one debt unit for the truncation of
the recomputed bid `bid.go:57`, one for the half-even roundings of the intermediate values; side condition on the debt side
`roundingSmallBack`, checked on every real bid). -/
theorem bid_at_posted_price_exhausted (e : Env) (hw : WfEnv e) (a : Auc) (amt0 dt : Int) (p : Plan)
    (hb : 0 ≤ a.bonus) (hpr : (0 : Int) ≤ a.price)
    (hs : roundingSmall a.price e.decC = true) (hsb : roundingSmallBack (debtPrice e dt) e.decD = true)
    (h : plan e a amt0 (debtPrice e dt) = .ok p) (hc : p.clipped = true) :
    p.total = a.coll ∧ monPosted p.total (p.pay + 2) a.bonus (debtPrice e dt) e.decD a.price e.decC = true := by
  unfold roundingSmall at hs
  unfold roundingSmallBack at hsb
  simp only [Bool.and_eq_true, decide_eq_true_eq] at hs hsb
  unfold monPosted
  simp only [decide_eq_true_eq]
  have ht : p.total = a.coll := by
    have := plan_ok h hb (Int.le_of_lt hsb.1) hw.decD_pos hpr hw.decC_pos
    exact (this.clipped_close hc).2.2
  exact ⟨ht, plan_clipped_posted h hb hsb.1 hw.decD_pos hpr hw.decC_pos hs.2 hsb.2 hc⟩

/-- **the proceeds are fully distributed**: the bid that closes the auction (any kind: vault / lend / external) sends
exactly `target` out of the module account — burned + fee collector + keeper + external initiator + lending pool + booked
as auction-module fees — and the unsold collateral to the owner. -/
theorem close_proceeds_distributed (e : Env) (hw : WfEnv e) (s s' : St) (a : Auc) (who : Nat) (amt dt : Int)
    (hi : Inv e s) (hdt : 0 ≤ dt) (ha : s.auc = some a) (h : bidE e s who amt dt = .ok s') (hc : s'.auc = none) :
    (s'.burned - s.burned) + (s'.bank.get .collector .debt - s.bank.get .collector .debt)
      + (s'.bank.get .keeper .debt - s.bank.get .keeper .debt)
      + (s'.bank.get .initiator .debt - s.bank.get .initiator .debt)
      + (s'.bank.get .pool .debt - s.bank.get .pool .debt) + (s'.bank.get .lendres .debt - s.bank.get .lendres .debt)
      + (s'.booked - s.booked) = e.target ∧
    s'.bank.get .owner .coll - s.bank.get .owner .coll = e.coll0 - s'.recv := by
  unfold bidE at h
  split at h
  · cases h
  · rw [ha] at h
    simp only at h
    unfold placeBid at h
    split at h
    · rename_i p hp
      obtain ⟨_, o2, _, _, o5, o6, _⟩ := hi.open_ a ha
      have hpo := plan_ok hp o5 (debtPrice_nonneg e dt hdt) hw.decD_pos o6 hw.decC_pos
      obtain ⟨_, m2, _, _, _, m6, m7⟩ := apply_moves hpo h
      by_cases hcl : p.close = true
      · obtain ⟨_, c2, c3⟩ := m6 hcl
        exact ⟨c3, by rw [c2, m2]; omega⟩
      · have := m7 (by simpa using hcl)
        rw [this] at hc; cases hc
    · cases h

/-- **vault-initiated close, branch `bid.go:89-101,161-190`** — the closing bid burns `target − penalty`, pays the keeper of a
keeper-initiated liquidation `⌊incentive·penalty⌋`, sends the rest of the penalty to the collector (and adds it to the collector's
net-fee record), moves nothing to initiator / pool / lend reserve, books nothing — **and no unaccounted remainder stays in
custody**: afterwards the module account holds exactly the collateral that is not this auction's, and of the debt denomination
exactly what is not this auction's plus the booked fees (minus reserve draws that were silently skipped, `short`). -/
theorem vault_close_distributes (e : Env) (hw : WfEnv e) (hk : e.kind = .vault) (s s' : St) (who : Nat) (amt dt : Int)
    (hi : Inv e s) (hdt : 0 ≤ dt) (h : bidE e s who amt dt = .ok s') (hc : s'.auc = none) :
    s'.burned = s.burned + (e.target - e.fee) ∧
    s'.bank.get .keeper .debt = s.bank.get .keeper .debt + cutOf e e.isKeeper ∧
    s'.bank.get .collector .debt = s.bank.get .collector .debt + (e.fee - cutOf e e.isKeeper) ∧
    s'.netFees = s.netFees + (e.fee - cutOf e e.isKeeper) ∧
    0 ≤ cutOf e e.isKeeper ∧ cutOf e e.isKeeper ≤ e.fee ∧
    s'.bank.get .initiator .debt = s.bank.get .initiator .debt ∧ s'.bank.get .pool .debt = s.bank.get .pool .debt ∧
    s'.bank.get .lendres .debt = s.bank.get .lendres .debt ∧ s'.booked = s.booked ∧ s'.extFees = s.extFees ∧
    s'.bank.get .auction .coll = s'.otherC ∧ s'.bank.get .auction .debt + s'.short = s'.otherD + s'.booked := by
  obtain ⟨hinv, s2, s3, hd, e1, e2, e3, e4, e5, _, f1, f2, f3, f4, f5, _⟩ := bidE_close hw hi hdt h hc
  obtain ⟨v1, v2, _, v4, v5, v6, v7, _, v9, v10, v11, v12, v13, _⟩ := distribute_vault hk hd
  obtain ⟨_, _, c3, c4⟩ := hinv.closed hc
  refine ⟨by rw [f1, v4, e1], ?_, ?_, by rw [f2, v7, e2], v1, v2, ?_, ?_, ?_, by rw [f4, v12, e4], by rw [f3, v13, e3], c3, c4⟩
  · rw [f5 _ _ (by decide), v5, e5 _ _ (by decide) (by decide) (by simp)]
  · rw [f5 _ _ (by decide), v6, e5 _ _ (by decide) (by decide) (by simp)]
  · rw [f5 _ _ (by decide), v9, e5 _ _ (by decide) (by decide) (by simp)]
  · rw [f5 _ _ (by decide), v10, e5 _ _ (by decide) (by decide) (by simp)]
  · rw [f5 _ _ (by decide), v11, e5 _ _ (by decide) (by decide) (by simp)]

/-- **externally initiated close, branch `bid.go:122-158`** — the closing bid returns the principal `target − penalty` to the
external initiator; the penalty STAYS in the module account and is booked as the module's own fee data (`extFees`, ghost `booked`);
an accepted close pays no keeper incentive (a non-zero incentive makes every closing bid fail: the transfer goes to the empty
keeper address); nothing is burned, collector / pool / lend reserve get nothing — **and no unaccounted remainder stays in custody**:
the debt denomination left in the module account is exactly what is not this auction's plus the booked fees. -/
theorem external_close_distributes (e : Env) (hw : WfEnv e) (hk : e.kind = .external) (s s' : St) (who : Nat) (amt dt : Int)
    (hi : Inv e s) (hdt : 0 ≤ dt) (h : bidE e s who amt dt = .ok s') (hc : s'.auc = none) :
    s'.bank.get .initiator .debt = s.bank.get .initiator .debt + (e.target - e.fee) ∧
    s'.booked = s.booked + e.fee ∧ s'.extFees = s.extFees + e.fee ∧ cutOf e true = 0 ∧
    s'.burned = s.burned ∧ s'.netFees = s.netFees ∧
    s'.bank.get .collector .debt = s.bank.get .collector .debt ∧ s'.bank.get .keeper .debt = s.bank.get .keeper .debt ∧
    s'.bank.get .pool .debt = s.bank.get .pool .debt ∧ s'.bank.get .lendres .debt = s.bank.get .lendres .debt ∧
    s'.bank.get .auction .coll = s'.otherC ∧ s'.bank.get .auction .debt + s'.short = s'.otherD + s'.booked := by
  obtain ⟨hinv, s2, s3, hd, e1, e2, e3, e4, e5, _, f1, f2, f3, f4, f5, _⟩ := bidE_close hw hi hdt h hc
  obtain ⟨x1, _, _, x4, _, x6, x7, x8, x9, x10, x11, x12, x13, _⟩ := distribute_external hk hd
  obtain ⟨_, _, c3, c4⟩ := hinv.closed hc
  refine ⟨?_, by rw [f4, x6, e4], by rw [f3, x7, e3], x1, by rw [f1, x8, e1], by rw [f2, x9, e2], ?_, ?_, ?_, ?_, c3, c4⟩
  · rw [f5 _ _ (by decide), x4, e5 _ _ (by decide) (by decide) (by simp)]
  · rw [f5 _ _ (by decide), x10, e5 _ _ (by decide) (by decide) (by simp)]
  · rw [f5 _ _ (by decide), x11, e5 _ _ (by decide) (by decide) (by simp)]
  · rw [f5 _ _ (by decide), x12, e5 _ _ (by decide) (by decide) (by simp)]
  · rw [f5 _ _ (by decide), x13, e5 _ _ (by decide) (by decide) (by simp)]

/-- **lend-initiated close, branch `bid.go:191-202` → `MsgCloseDutchAuctionForBorrow`** — the closing bid hands the whole target to
the debt pool; from there the liquidation penalty and the reserve's share of the interest go to the lend reserve and the bridge
asset of a cross-pool borrow returns to the collateral's pool (`lend_close_split`); nothing is burned, nothing booked, collector /
keeper / initiator get nothing — **and no unaccounted remainder stays in custody**. -/
theorem lend_close_distributes (e : Env) (hw : WfEnv e) (hk : e.kind = .lend) (s s' : St) (who : Nat) (amt dt : Int)
    (hi : Inv e s) (hdt : 0 ≤ dt) (h : bidE e s who amt dt = .ok s') (hc : s'.auc = none) :
    s'.bank.get .pool .debt = s.bank.get .pool .debt + e.target - e.lendPen - DutchV2.posPart e.lendInt ∧
    s'.bank.get .lendres .debt = s.bank.get .lendres .debt + e.lendPen + DutchV2.posPart e.lendInt ∧
    s'.bank.get .pool .transit = s.bank.get .pool .transit - DutchV2.posPart e.bridged ∧
    s'.bank.get .poolIn .transit = s.bank.get .poolIn .transit + DutchV2.posPart e.bridged ∧
    s'.burned = s.burned ∧ s'.netFees = s.netFees ∧ s'.extFees = s.extFees ∧ s'.booked = s.booked ∧
    s'.bank.get .auction .coll = s'.otherC ∧ s'.bank.get .auction .debt + s'.short = s'.otherD + s'.booked := by
  obtain ⟨hinv, s2, s3, hd, e1, e2, e3, e4, e5, _, f1, f2, f3, f4, f5, _⟩ := bidE_close hw hi hdt h hc
  obtain ⟨_, l2, l3, l4, l5, _, _, l8, l9, l10⟩ := distribute_lend hk hd
  obtain ⟨q1, q2, q3, q4, q5, q6, q7, _⟩ := distribute_ok hd
  obtain ⟨_, _, c3, c4⟩ := hinv.closed hc
  have hbk : s3.booked = s2.booked := by
    -- the lend branch books nothing
    unfold distribute at hd
    split at hd
    · cases hd
    · rw [hk] at hd
      simp only at hd
      iterate 6 (all_goals (try (split at hd)))
      all_goals (first | (cases hd; rfl) | cases hd)
  refine ⟨?_, ?_, ?_, ?_, by rw [f1, l8, e1], by rw [f2, l9, e2], by rw [f3, l10, e3], by rw [f4, hbk, e4], c3, c4⟩
  · rw [f5 _ _ (by decide), l2, e5 _ _ (by decide) (by decide) (by simp)]
  · rw [f5 _ _ (by decide), l3, e5 _ _ (by decide) (by decide) (by simp)]
  · rw [f5 _ _ (by decide), l4, e5 _ _ (by decide) (by decide) (by simp)]
  · rw [f5 _ _ (by decide), l5, e5 _ _ (by decide) (by decide) (by simp)]

/-- **second-generation lend close, the split** (`liquidate.go:721-813`): of the target handed over by the auction module the
debt pool keeps `target − penalty − reserve interest`, the lend reserve receives `penalty + reserve interest`, the bridge asset of a
cross-pool borrow returns to the pool the collateral was lent to; no collateral moves, nothing is burned, no fee is booked. -/
theorem lend_close_split (e : Env) (s s3 : St) (hk : e.kind = .lend) (h : distribute e s = .ok s3) :
    s3.bank.get .auction .debt = s.bank.get .auction .debt - e.target ∧
    s3.bank.get .pool .debt = s.bank.get .pool .debt + e.target - e.lendPen - DutchV2.posPart e.lendInt ∧
    s3.bank.get .lendres .debt = s.bank.get .lendres .debt + e.lendPen + DutchV2.posPart e.lendInt ∧
    s3.bank.get .pool .transit = s.bank.get .pool .transit - DutchV2.posPart e.bridged ∧
    s3.bank.get .poolIn .transit = s.bank.get .poolIn .transit + DutchV2.posPart e.bridged ∧
    s3.bank.get .auction .transit = s.bank.get .auction .transit ∧
    (∀ a, s3.bank.get a .coll = s.bank.get a .coll) ∧ s3.burned = s.burned ∧ s3.netFees = s.netFees ∧ s3.extFees = s.extFees :=
  distribute_lend hk h

/-- **custody**: after ANY sequence of operations (as in `bidders_pay_le_target_partial`), once the auction is closed the
module account holds, of the collateral, exactly what does not belong to this auction, and of the debt denom exactly what
does not belong to it plus the penalty an external auction books as module fees — MINUS every reserve draw that was
needed but silently skipped (`short`, written only at `liquidate.go:611-617` when the reserve record is too small). -/
theorem close_custody_accounted (e : Env) (hw : WfEnv e) (a : Auc) (b : Bank) (r : Option Int) (hs : Start e a)
    (ops : List Op) (hops : ∀ op ∈ ops, WfOp e op) (hc : (run e (initSt e a b r) ops).auc = none) :
    let s := run e (initSt e a b r) ops
    s.bank.get .auction .coll = s.otherC ∧ s.bank.get .auction .debt + s.short = s.otherD + s.booked := by
  have hi := run_inv hw ops _ (init_inv e a b r hs) hops
  obtain ⟨_, _, c3, c4⟩ := hi.closed hc
  exact ⟨c3, c4⟩

/-- `_partial`: nothing unaccounted stays in (or leaves) custody, PROVIDED no reserve shortfall was skipped -/
theorem close_distributes_all_partial (e : Env) (hw : WfEnv e) (a : Auc) (b : Bank) (r : Option Int) (hs : Start e a)
    (ops : List Op) (hops : ∀ op ∈ ops, WfOp e op) (hc : (run e (initSt e a b r) ops).auc = none)
    (hshort : (run e (initSt e a b r) ops).short = 0) :
    let s := run e (initSt e a b r) ops
    s.bank.get .auction .coll = s.otherC ∧ s.bank.get .auction .debt = s.otherD + s.booked := by
  have := close_custody_accounted e hw a b r hs ops hops hc
  simp only at this ⊢
  rw [hshort] at this
  exact ⟨this.1, by omega⟩

/-! ### every reachable state: the price band, and the iterator under emergency shutdown -/

/-- **The posted price stays between the start price and the end price (minus the proved slack) in EVERY reachable state** of a
second-generation auction of any initiator kind: after any sequence of market bids, limit fills, reserve top-ups, limit deposits,
ordinary blocks (price update inside the window, restart after it) and blocks under emergency shutdown of the app (`tickEsm`:
price update inside the window; past its end `TriggerEsm` for a vault-initiated auction, NOTHING for a lend- / externally initiated
one).  Hypotheses: the activator posted the start price, block times do not run backwards, oracle prices are unsigned.
The band of the record: `price ≤ start` and `(price + 1)·tau ≥ end·tau − (start − end)` with `end`, `tau` recomputed from the
record's start price as the code does — exactly what the driver evaluates on every REAL record after every REAL block
(`price_in_range`, `price_in_range_slack`).  An iterator that keeps updating past the end of the window (seeded change s81: a
non-vault auction under shutdown) leaves this band after `tau − T` more seconds. -/
theorem price_in_band_every_reachable_state (e : Env) (hw : WfEnv e) (a : Auc) (b : Bank) (r : Option Int) (hs : Start e a)
    (hp : a.price = a.init) (t0 : Int) (ht0 : a.start ≤ t0) (ops : List Op) (hc : Chrono t0 ops)
    (a' : Auc) (h : (run e (initSt e a b r) ops).auc = some a') :
    (a'.price : Int) ≤ a'.init ∧ monBand e a' = true ∧
    ∀ endP t, DutchPrice.endPrice a'.init e.discount = .ok endP → DutchPrice.tau a'.init endP e.T = .ok t →
      (endP : Int) * t - (a'.init - endP) ≤ (a'.price + 1) * t := by
  have h0 : BandInv e (initSt e a b r) t0 := by
    intro a'' ha''
    simp only [initSt, Option.some.injEq] at ha''
    subst ha''
    exact ⟨band_at_start hw hs.init_nonneg hp hs.window, ht0⟩
  obtain ⟨hb, _⟩ := run_band hw ops _ t0 h0 hc a' h
  exact ⟨hb.le_start, monBand_of_band hb, hb.ge_end⟩

/-- non-vacuity: a lend-initiated auction, shutdown switched on, blocks inside the window, at its end and far past it: the record
is updated twice and then frozen at the last posted price -/
def bandEnv : Env := { kind := .lend, target := 1000, coll0 := 1000, T := 3600, premium := 1200000000000000000, discount := 700000000000000000 }
def bandAuc : Auc := { coll := 1000, debt := 1000, bonus := 0, price := 2400000000000000000000000, init := 2400000000000000000000000,
                       orc := 2000000000000000000000000, ord := 1000000000000000000000000, start := 0, end_ := 3600 }
def bandOps : List Op := [.tickEsm 1800 2000000 true 1000000 true [], .tickEsm 3600 2000000 true 1000000 true [],
                          .tickEsm 5400 2000000 true 1000000 true [], .tickEsm 20000 2000000 true 1000000 true []]

example : Chrono 0 bandOps ∧ bandAuc.price = bandAuc.init ∧
    ((run bandEnv (initSt bandEnv bandAuc [] none) bandOps).auc.map fun x => (x.price, x.start)) = some (1680000000000000000000000, 0) := by
  refine ⟨by simp [Chrono, bandOps], rfl, by decide⟩

/-- **emergency shutdown, lend- / externally initiated auction, window over: nothing happens** — no price update, no restart, no
money moves (auctions.go:160-173: only a vault-initiated auction is handed to `TriggerEsm`) -/
theorem esm_leaves_nonvault_auction_untouched_past_end (e : Env) (s : St) (a : Auc) (now twaC twaD : Int) (actC actD : Bool)
    (hk : e.kind ≠ .vault) (ha : s.auc = some a) (hn : now > a.end_) : tickIterEsm e s now twaC actC twaD actD = s :=
  tickIterEsm_nonvault_past_end hk ha hn

/-- **what `TriggerEsm` moves** (vault-initiated auction under shutdown, window over): exactly what the auction has collected so
far, `target − remaining debt`, leaves the module account — burned or sent to the collector; no collateral moves and the auction
record stays as it is (so the next block does it again: `esm_trigger_repeats_counterexample`) -/
theorem trigger_esm_moves (e : Env) (s s' : St) (a : Auc) (h : triggerEsm e s a = .ok s') :
    s'.auc = s.auc ∧ 0 ≤ e.target - a.debt ∧
    s'.bank.get .auction .debt = s.bank.get .auction .debt - (e.target - a.debt) ∧
    (s'.burned - s.burned) + (s'.bank.get .collector .debt - s.bank.get .collector .debt) = e.target - a.debt ∧
    (∀ x, s'.bank.get x .coll = s.bank.get x .coll) ∧ s'.esmOut = s.esmOut + (e.target - a.debt) ∧
    s'.paid = s.paid ∧ s'.recv = s.recv := triggerEsm_ok h

/-! ### the debt-side ledger that holds for EVERY history (several limit bids at one premium included) -/

theorem init_invW (e : Env) (a : Auc) (b : Bank) (r : Option Int) (hs : Start e a) : InvW e (initSt e a b r) := by
  refine ⟨by simp [initSt], by simp [initSt], by simp [initSt], by simp [initSt], by simp [initSt], ?_, ?_⟩
  · intro a' ha'
    simp only [initSt, Option.some.injEq] at ha'
    subst ha'
    refine ⟨rfl, ⟨?_, ?_, ?_, hs.price_nonneg, hs.init_nonneg, hs.window⟩, ?_⟩
    · simp only [initSt]; rw [hs.debt]; omega
    · rw [hs.debt]; exact hs.target_nonneg
    · rw [hs.bonus]; exact hs.bonus_nonneg
    · simp only [initSt]
  · intro hn; simp [initSt] at hn

/-- **custody of the debt side, for every history** — no hypothesis on the limit bids or the initiator: any number of bidders may
wait at one premium (D7), the collateral may be exhausted by a limit fill (D24), the reserve may be short (D23), the app may be
under emergency shutdown (`TriggerEsm` may run any number of times, D39).  While the auction is open, what the bidders paid is in
the module account except for what `TriggerEsm` sent away (`esmOut`); once it is closed the module account holds, beyond what is
not this auction's and the booked fees, exactly `paid + need − target ≥ 0`: what was collected (and asked from the reserve) beyond
the target — 0 under the hypotheses of `close_custody_accounted`, the second collection of D7 otherwise — minus the reserve draw
that was silently skipped (`short ≤ need`) and minus `esmOut`. -/
theorem debt_custody_every_history (e : Env) (hw : WfEnv e) (a : Auc) (b : Bank) (r : Option Int) (hs : Start e a)
    (ops : List Op) (hops : ∀ op ∈ ops, WfOpW e op) :
    let s := run e (initSt e a b r) ops
    0 ≤ s.paid ∧ 0 ≤ s.short ∧ s.short ≤ s.need ∧ 0 ≤ s.booked ∧ 0 ≤ s.esmOut ∧
    (∀ a', s.auc = some a' → s.need = 0 ∧ e.target ≤ s.paid + a'.debt ∧
        s.bank.get .auction .debt + s.short + s.esmOut = s.otherD + s.booked + s.paid) ∧
    (s.auc = none → e.target ≤ s.paid + s.need ∧
        s.bank.get .auction .debt + s.short + s.esmOut = s.otherD + s.booked + (s.paid + s.need - e.target)) := by
  have hi := run_w hw ops _ (init_invW e a b r hs) hops
  simp only
  refine ⟨hi.paid_nonneg, hi.short_nonneg, hi.short_le, hi.booked_nonneg, hi.esm_nonneg, ?_, ?_⟩
  · intro a' ha'
    obtain ⟨o1, o2, o3⟩ := hi.open_ a' ha'
    exact ⟨o1, o2.cover, o3⟩
  · intro hn
    obtain ⟨c1, c2⟩ := hi.closed hn
    exact ⟨c1, by omega⟩

/-! ### concrete witnesses (replayed on the real keepers by the harness, first sequences of the run) -/

def wEnv : Env := { kind := .vault, decC := 1000000, decD := 1000000, target := 1120000, fee := 120000, bonus0 := 0, coll0 := 1000000, isKeeper := true, incentive := 100000000000000000, minUsd := 100000, T := 3600, premium := 1200000000000000000, discount := 700000000000000000, cmst := true }

def wAuc (price orc : Dec) : Auc := { coll := 1000000, debt := 1120000, bonus := 0, price := price, init := price, orc := orc, ord := 1000000000000000000000000, start := 0, end_ := 3600 }

/-- non-vacuity of the three branch theorems: a keeper-initiated vault position, an external one and a lend one (penalty 50 000,
reserve interest 700) are each closed by one market bid -/
def xEnv : Env := { wEnv with kind := .external, isKeeper := false, incentive := 0 }
def lEnv : Env := { wEnv with kind := .lend, isKeeper := false, lendPen := 50000, lendInt := 700 }
def cBank : Bank := [((.auction, .coll), 1000000), ((.bidder 1, .debt), 10000000)]

def cClose (e : Env) : St := run e (initSt e (wAuc 1680000000000000000000000 1400000000000000000000000) cBank none) [.bid 1 5000000 1000000]

example :
    (cClose wEnv).auc = none ∧ (cClose wEnv).burned = 1000000 ∧ (cClose wEnv).bank.get .keeper .debt = 12000 ∧
    (cClose wEnv).bank.get .collector .debt = 108000 ∧ (cClose wEnv).netFees = 108000 ∧ (cClose wEnv).bank.get .auction .debt = 0 ∧
    (cClose xEnv).auc = none ∧ (cClose xEnv).bank.get .initiator .debt = 1000000 ∧ (cClose xEnv).booked = 120000 ∧
    (cClose xEnv).extFees = 120000 ∧ (cClose xEnv).burned = 0 ∧ (cClose xEnv).bank.get .auction .debt = 120000 ∧
    (cClose lEnv).auc = none ∧ (cClose lEnv).bank.get .pool .debt = 1069300 ∧ (cClose lEnv).bank.get .lendres .debt = 50700 ∧
    (cClose lEnv).burned = 0 ∧ (cClose lEnv).booked = 0 ∧ (cClose lEnv).bank.get .auction .debt = 0 := by decide

/-- D7: two limit bidders (400 000 each) wait at premium 9; a second seized position of the same pair shares the module account -/
def d7Bank : Bank := [((.auction, .coll), 2000000), ((.bidder 1, .debt), 10000000), ((.bidder 2, .debt), 10000000), ((.bidder 4, .debt), 10000000)]
def d7Ops : List Op := [.limit 1 9 400000, .limit 2 9 400000, .tick 2950 1400000 true 1000000 true [(9, 1, 400000), (9, 2, 400000)], .bid 4 5000000 1000000]
def d7Final : St := run wEnv (initSt wEnv (wAuc 1680000000000000000000000 1400000000000000000000000) d7Bank none) d7Ops

/-- **D7**: `LimitOrderBid` fills both bidders against the auction value it read before the loop; the second fill
overwrites the first one's bookkeeping, the remaining target is collected a second time: 1 520 000 paid for a target of 1 120 000. -/
theorem bidders_pay_le_target_counterexample : d7Final.paid = 1520000 ∧ wEnv.target = 1120000 ∧ d7Final.auc = none := by decide

/-- … and 1 199 683 units of collateral handed out of 1 000 000 seized (the rest comes from the other position's custody) -/
theorem bidders_receive_le_collateral_counterexample : d7Final.recv = 1199683 ∧ wEnv.coll0 = 1000000 := by decide

/-- the D7 run satisfies the all-history ledger: after the close the module still holds the 400 000 it collected twice -/
example : (∀ op ∈ d7Ops, WfOpW wEnv op) ∧ d7Final.paid + d7Final.need - wEnv.target = 400000 ∧
    d7Final.bank.get .auction .debt = d7Final.otherD + 400000 := by
  refine ⟨?_, by decide, by decide⟩
  intro op hop
  simp only [d7Ops, List.mem_cons, List.mem_nil_iff, or_false] at hop
  rcases hop with h | h | h | h <;> subst h <;> simp [WfOpW]

/-- emergency shutdown, vault-initiated auction (corpus 4): b1 has paid 100 000, a stranger's limit deposit of 250 000 sits in the
module account; the window is over -/
def esmBank : Bank := [((.auction, .coll), 1000000), ((.bidder 1, .debt), 10000000), ((.bidder 4, .debt), 10000000)]
def esmOps : List Op := [.bid 1 100000 1000000, .limit 4 30 250000, .tickEsm 3660 1400000 true 1000000 true [(30, 4, 250000)],
  .tickEsm 3720 1400000 true 1000000 true [(30, 4, 250000)], .tickEsm 3780 1400000 true 1000000 true [(30, 4, 250000)],
  .tickEsm 3840 1400000 true 1000000 true [(30, 4, 250000)]]
def esmFinal : St := run wEnv (initSt wEnv (wAuc 1680000000000000000000000 1400000000000000000000000) esmBank none) esmOps

/-- **`TriggerEsm` repeats** (auctions.go:160-173, 487-533): it forwards what the auction collected but deletes neither the auction
nor the locked vault, so every further block under shutdown forwards the same 100 000 again — here three times, 200 000 of it out
of the stranger's deposit (50 000 left of 250 000; the fourth transfer fails); the auction is still open, its collateral still in
the module account. -/
theorem esm_trigger_repeats_counterexample :
    esmFinal.paid = 100000 ∧ esmFinal.esmOut = 300000 ∧ esmFinal.bank.get .collector .debt = 300000 ∧
    esmFinal.otherD = 250000 ∧ esmFinal.bank.get .auction .debt = 50000 ∧ esmFinal.auc.isSome = true ∧
    esmFinal.bank.get .auction .coll = 1000000 - esmFinal.recv := by decide

/-- the shutdown witness above is one of these histories: 100 000 paid, 300 000 sent away by `TriggerEsm` -/
example : (∀ op ∈ esmOps, WfOpW wEnv op) := by
  intro op hop
  simp only [esmOps, List.mem_cons, List.mem_nil_iff, or_false] at hop
  rcases hop with h | h | h | h | h | h <;> subst h <;> simp [WfOpW]

/-- reserve shortfall: collateral worth less than the remaining target, reserve record = 10, a stranger's limit deposit of
700 000 sits in the module account -/
def rsBank : Bank := [((.auction, .coll), 1000000), ((.bidder 1, .debt), 10000000), ((.bidder 4, .debt), 10000000), ((.reserve, .debt), 10)]
def rsOps : List Op := [.limit 4 30 700000, .tick 1800 1000000 true 1000000 true [(30, 4, 700000)], .bid 1 5000000 1000000]
def rsFinal : St := run wEnv (initSt wEnv (wAuc 1200000000000000000000000 1000000000000000000000000) rsBank (some 10)) rsOps

/-- **reserve shortfall** (`liquidate.go:611-617`): the closing bid needs 100 000 from the app reserve, the record holds 10,
`WithdrawAppReserveFundsFn` transfers nothing and returns no error; the close then burns and pays the full target out of
the module account: 100 000 of the stranger's 700 000 deposit are gone (600 000 left), the reserve record goes negative. -/
theorem close_distributes_all_counterexample :
    rsFinal.auc = none ∧ rsFinal.otherD = 700000 ∧ rsFinal.bank.get .auction .debt = 600000 ∧ rsFinal.short = 100000 ∧
    rsFinal.reserve = some (-99990) ∧ rsFinal.paid = 1020000 := by decide


/-! ## first-generation bid path (`x/auction/keeper/dutch.go`) -/

namespace V1
open Comdex.DutchV1

/-- the record `StartDutchAuction` writes -/
structure Start (e : DutchV1.Env) (a : DutchV1.Auc) : Prop where
  out : a.outCur = e.coll0
  inn : a.inCur = 0
  target_nonneg : 0 ≤ e.target
  coll_nonneg : 0 ≤ e.coll0
  principal_nonneg : 0 ≤ e.principal

theorem init_inv (e : DutchV1.Env) (a : DutchV1.Auc) (b : Bank) (nf : Option Int) (hs : Start e a) :
    DutchV1.Inv e (DutchV1.initSt e a b nf) := by
  refine ⟨by simp [DutchV1.initSt], by simp [DutchV1.initSt], ?_, ?_⟩
  · intro a' ha'
    simp only [DutchV1.initSt, Option.some.injEq] at ha'
    subst ha'
    simp only [DutchV1.initSt]
    refine ⟨by rw [hs.inn], by rw [hs.inn]; exact hs.target_nonneg, by rw [hs.out]; omega, by rw [hs.out]; exact hs.coll_nonneg,
      by rw [hs.out]; omega, by rw [hs.inn]; omega⟩
  · intro hn; simp [DutchV1.initSt] at hn

end V1

/-- **first generation: bidders pay ≤ target and receive ≤ the seized collateral**, for every sequence of bids (any bidders,
any amounts incl. zero/negative/over-sized) and block hooks (price updates, restarts, emergency-shutdown wind-down, any oracle path) -/
theorem v1_bidders_pay_le_target_and_receive_le_collateral (e : DutchV1.Env) (a : DutchV1.Auc) (b : Bank) (nf : Option Int)
    (hs : V1.Start e a) (ops : List DutchV1.Op) :
    let s := DutchV1.run e (DutchV1.initSt e a b nf) ops
    0 ≤ s.paid ∧ s.paid ≤ e.target ∧ 0 ≤ s.recv ∧ s.recv ≤ e.coll0 := by
  have hi := DutchV1.run_inv hs.principal_nonneg ops _ (V1.init_inv e a b nf hs)
  simp only
  refine ⟨hi.paid_nonneg, ?_, hi.recv_nonneg, ?_⟩
  · cases hauc : (DutchV1.run e (DutchV1.initSt e a b nf) ops).auc with
    | none => exact (hi.closed hauc).1
    | some a' => obtain ⟨o1, o2, _⟩ := hi.open_ a' hauc; omega
  · cases hauc : (DutchV1.run e (DutchV1.initSt e a b nf) ops).auc with
    | none => exact (hi.closed hauc).2.1
    | some a' => obtain ⟨_, _, o3, o4, _⟩ := hi.open_ a' hauc; omega

/-- **first generation: custody** — while open the module account holds exactly the unsold collateral and the debt collected so
far on top of what does not belong to the auction; once closed it holds nothing of the auction -/
theorem v1_custody_exact (e : DutchV1.Env) (a : DutchV1.Auc) (b : Bank) (nf : Option Int) (hs : V1.Start e a)
    (ops : List DutchV1.Op) :
    let s := DutchV1.run e (DutchV1.initSt e a b nf) ops
    (∀ a', s.auc = some a' → s.bank.get .auction .coll = s.otherC + a'.outCur ∧ s.bank.get .auction .debt = s.otherD + a'.inCur) ∧
    (s.auc = none → s.bank.get .auction .coll = s.otherC ∧ s.bank.get .auction .debt = s.otherD) := by
  have hi := DutchV1.run_inv hs.principal_nonneg ops _ (V1.init_inv e a b nf hs)
  simp only
  refine ⟨?_, ?_⟩
  · intro a' ha'
    obtain ⟨_, _, _, _, o5, o6⟩ := hi.open_ a' ha'
    exact ⟨o5, o6⟩
  · intro hn
    obtain ⟨_, _, c3, c4⟩ := hi.closed hn
    exact ⟨c3, c4⟩

/-- **first generation: what a bid moves and how the close distributes**: an accepted bid debits exactly `Δpaid` from the bidder
and credits exactly `Δrecv` collateral to him, touches no other bidder; if it closes the auction then everything the bidders
paid over the auction's life has been burned or sent to the collector (net of what the collector had to add when the collateral
was sold out below the target) and the unsold collateral went to the owner. -/
theorem v1_bid_moves_and_close_distributes (e : DutchV1.Env) (s s' : DutchV1.St) (who : Nat) (sl : Int)
    (hpr : 0 ≤ e.principal) (hi : DutchV1.Inv e s) (h : DutchV1.bidE e s who sl = .ok s') :
    s'.bank.get (.bidder who) .debt = s.bank.get (.bidder who) .debt - (s'.paid - s.paid) ∧
    s'.bank.get (.bidder who) .coll = s.bank.get (.bidder who) .coll + (s'.recv - s.recv) ∧
    0 ≤ s'.paid - s.paid ∧ 0 ≤ s'.recv - s.recv ∧
    (∀ n, n ≠ who → s'.bank.get (.bidder n) .coll = s.bank.get (.bidder n) .coll ∧
                    s'.bank.get (.bidder n) .debt = s.bank.get (.bidder n) .debt) ∧
    (s'.auc = none →
      (s'.burned - s.burned) + (s'.bank.get .collector .debt - s.bank.get .collector .debt) = s'.paid ∧
      s'.bank.get .owner .coll - s.bank.get .owner .coll = e.coll0 - s'.recv) := by
  unfold DutchV1.bidE at h
  split at h
  · cases h
  · rename_i a ha
    split at h
    · rename_i p hp
      have hpo := DutchV1.plan_ok hp
      obtain ⟨_, m1, m2, m3, m4, m5, m6⟩ := DutchV1.apply_ok hpr hi ha hpo h
      refine ⟨by rw [m3, m1]; omega, by rw [m4, m2]; omega, by rw [m1]; have := hpo.in_nonneg; omega,
        by rw [m2]; have := hpo.slice_nonneg; omega, m5, m6⟩
    · cases h

/-- **first generation, emergency-shutdown wind-down** (`dutch.go:515-637`): when the block hook finds the window over and the app's
ESM on, the auction is closed and NOTHING of it stays in auction custody: the unsold collateral leaves to the vault module (if less
than the principal was collected: the vault is re-created / topped up) or to the ESM module (otherwise), everything collected is
burned except the excess over the principal, which is the penalty for the collector. -/
theorem v1_esm_winddown_empties_custody (e : DutchV1.Env) (s s' : DutchV1.St) (a : DutchV1.Auc) (snapshot : Bool)
    (hpr : 0 ≤ e.principal) (hi : DutchV1.Inv e s) (ha : s.auc = some a) (h : DutchV1.windDown e s a snapshot = .ok s') :
    s'.auc = none ∧ s'.bank.get .auction .coll = s'.otherC ∧ s'.bank.get .auction .debt = s'.otherD ∧
    (s'.bank.get .vaultMod .coll - s.bank.get .vaultMod .coll) + (s'.bank.get .esm .coll - s.bank.get .esm .coll) = e.coll0 - s.recv ∧
    (s'.burned - s.burned) + (s'.bank.get .collector .debt - s.bank.get .collector .debt) = s.paid ∧
    (a.inCur < e.principal → s'.bank.get .vaultMod .coll = s.bank.get .vaultMod .coll + a.outCur ∧ s'.burned = s.burned + a.inCur) ∧
    (e.principal ≤ a.inCur → s'.bank.get .esm .coll = s.bank.get .esm .coll + a.outCur ∧ s'.burned = s.burned + e.principal ∧
        s'.bank.get .collector .debt = s.bank.get .collector .debt + (a.inCur - e.principal)) := by
  obtain ⟨o1, o2, o3, o4, o5, o6⟩ := hi.open_ a ha
  have hin0 : 0 ≤ a.inCur := by rw [← o1]; exact hi.paid_nonneg
  obtain ⟨w1, _, _, w4, w5, w6, w7, w8, w9, w10, w11⟩ := DutchV1.windDown_ok hpr o4 hin0 h
  exact ⟨w1, by rw [w6, w4]; omega, by rw [w7, w5]; omega, by rw [w8]; omega, by rw [w9]; omega, w10, w11⟩

/-- **first generation: each bid at the posted price** (`recv ≤ (paid + 2)·p_debt·dec_c/(dec_d·p_coll) + 1`) -/
theorem v1_bid_at_posted_price (e : DutchV1.Env) (a : DutchV1.Auc) (slice0 : Int) (p : DutchV1.Plan)
    (hdC : 0 < e.decC) (hdD : 0 < e.decD) (hpr : (0 : Int) ≤ a.price)
    (hs : roundingSmall a.price e.decC = true) (hsb : roundingSmallBack a.inPrice e.decD = true)
    (h : DutchV1.plan e a slice0 = .ok p) :
    monPosted p.slice (p.inAmt + 2) 0 a.inPrice e.decD a.price e.decC = true := by
  unfold roundingSmall at hs
  unfold roundingSmallBack at hsb
  simp only [Bool.and_eq_true, decide_eq_true_eq] at hs hsb
  unfold monPosted
  simp only [decide_eq_true_eq, Int.add_zero]
  exact DutchV1.plan_posted h hdC hdD hpr (Int.le_of_lt hsb.1) hs.2 hsb.2


/-! ## first-generation lend auctions (`x/auction/keeper/dutch_lend.go`) -/

namespace L1
open Comdex.DutchV1Lend

/-- the record `StartLendDutchAuction` writes, and what the liquidation moved into the module: the auctioned collateral plus a
bonus pot that covers the largest bonus payable on it -/
structure Start (e : DutchV1Lend.Env) (a : DutchV1Lend.Auc) : Prop where
  out : a.outCur = e.coll0
  inn : a.inCur = 0
  target_nonneg : 0 ≤ e.target
  coll_nonneg : 0 ≤ e.coll0
  bonus_nonneg : (0 : Int) ≤ e.bonus
  pot : e.coll0 + e.coll0 * e.bonus / P ≤ e.deposit

theorem init_inv (e : DutchV1Lend.Env) (a : DutchV1Lend.Auc) (b : Bank) (hs : Start e a) :
    DutchV1Lend.Inv e (DutchV1Lend.initSt e a b) := by
  refine ⟨by simp [DutchV1Lend.initSt], by simp [DutchV1Lend.initSt], by simp [DutchV1Lend.initSt], by simp [DutchV1Lend.initSt],
    by simp [DutchV1Lend.initSt], ?_, ?_⟩
  · intro a' ha'
    simp only [DutchV1Lend.initSt, Option.some.injEq] at ha'
    subst ha'
    simp only [DutchV1Lend.initSt]
    refine ⟨by rw [hs.inn], by rw [hs.inn]; exact hs.target_nonneg, by rw [hs.out]; omega, by rw [hs.out]; exact hs.coll_nonneg,
      by rw [hs.out]; omega⟩
  · intro hn; simp [DutchV1Lend.initSt] at hn

end L1

/-- **first-generation lend auctions: bidders pay ≤ target, receive (bonus included) ≤ what was seized into the module**, for every
sequence of bids and block hooks, every re-liquidation hand-over and every reserve balance -/
theorem l1_bidders_pay_le_target_and_receive_le_seized (e : DutchV1Lend.Env) (a : DutchV1Lend.Auc) (b : Bank)
    (hs : L1.Start e a) (ops : List DutchV1Lend.Op) :
    let s := DutchV1Lend.run e (DutchV1Lend.initSt e a b) ops
    0 ≤ s.paid ∧ s.paid ≤ e.target ∧ 0 ≤ s.recv ∧ s.recv ≤ e.deposit := by
  have hi := DutchV1Lend.run_inv hs.bonus_nonneg ops _ (L1.init_inv e a b hs)
  simp only
  set s := DutchV1Lend.run e (DutchV1Lend.initSt e a b) ops
  have hsold : s.recv - s.bonusPaid ≤ e.coll0 := by
    cases hauc : s.auc with
    | none => exact (hi.closed hauc).2.1
    | some a' => obtain ⟨_, _, o3, o4, _⟩ := hi.open_ a' hauc; omega
  have hbp : s.bonusPaid ≤ e.coll0 * e.bonus / P := by
    apply Int.le_ediv_of_mul_le (by simp [P])
    exact Int.le_trans hi.bonus_le (Int.mul_le_mul_of_nonneg_right hsold hs.bonus_nonneg)
  refine ⟨hi.paid_nonneg, ?_, by have := hi.bonus_nonneg; have := hi.sold_nonneg; omega, by have := hs.pot; omega⟩
  cases hauc : s.auc with
  | none => exact (hi.closed hauc).1
  | some a' => obtain ⟨o1, o2, _⟩ := hi.open_ a' hauc; omega

/-- **the proceeds never rest in auction custody** (each bid forwards what it collected to the lending side in the same message),
and of the collateral the module holds exactly: what is still for sale + the unpaid part of the bonus pot (+ what is not this
auction's).  `_partial`: after the close the unpaid part of the bonus pot STAYS in the module account — the property's "no
unaccounted remainder" is false here (`l1_close_custody_counterexample`). -/
theorem l1_close_custody_partial (e : DutchV1Lend.Env) (a : DutchV1Lend.Auc) (b : Bank) (hs : L1.Start e a)
    (ops : List DutchV1Lend.Op) :
    let s := DutchV1Lend.run e (DutchV1Lend.initSt e a b) ops
    s.bank.get .auction .debt = s.otherD ∧
    (∀ a', s.auc = some a' → s.bank.get .auction .coll = s.otherC + a'.outCur + (e.deposit - e.coll0 - s.bonusPaid)) ∧
    (s.auc = none → s.bank.get .auction .coll = s.otherC + (e.deposit - e.coll0 - s.bonusPaid)) ∧
    0 ≤ e.deposit - e.coll0 - s.bonusPaid := by
  have hi := DutchV1Lend.run_inv hs.bonus_nonneg ops _ (L1.init_inv e a b hs)
  simp only
  set s := DutchV1Lend.run e (DutchV1Lend.initSt e a b) ops
  have hsold : s.recv - s.bonusPaid ≤ e.coll0 := by
    cases hauc : s.auc with
    | none => exact (hi.closed hauc).2.1
    | some a' => obtain ⟨_, _, o3, o4, _⟩ := hi.open_ a' hauc; omega
  have hbp : s.bonusPaid ≤ e.coll0 * e.bonus / P := by
    apply Int.le_ediv_of_mul_le (by simp [P])
    exact Int.le_trans hi.bonus_le (Int.mul_le_mul_of_nonneg_right hsold hs.bonus_nonneg)
  refine ⟨hi.debt_custody, ?_, ?_, by have := hs.pot; omega⟩
  · intro a' ha'; exact (hi.open_ a' ha').2.2.2.2
  · intro hn; exact (hi.closed hn).2.2

/-- what one accepted bid moves: the bidder pays exactly `Δpaid` and receives exactly `Δrecv` (slice + bonus), no other bidder
moves, the lending side receives exactly `Δpaid`, and a closing bid hands the unsold collateral to the borrower -/
theorem l1_bid_moves_and_close_distributes (e : DutchV1Lend.Env) (s s' : DutchV1Lend.St) (who : Nat) (sl redep resBal : Int)
    (hb : (0 : Int) ≤ e.bonus) (hi : DutchV1Lend.Inv e s) (h : DutchV1Lend.bidE e s who sl redep resBal = .ok s') :
    s'.bank.get (.bidder who) .debt = s.bank.get (.bidder who) .debt - (s'.paid - s.paid) ∧
    s'.bank.get (.bidder who) .coll = s.bank.get (.bidder who) .coll + (s'.recv - s.recv) ∧
    (∀ n, n ≠ who → s'.bank.get (.bidder n) .coll = s.bank.get (.bidder n) .coll ∧
                    s'.bank.get (.bidder n) .debt = s.bank.get (.bidder n) .debt) ∧
    s'.bank.get .pool .debt = s.bank.get .pool .debt + (s'.paid - s.paid) ∧
    (s'.auc = none → s'.bank.get .owner .coll - s.bank.get .owner .coll = e.coll0 - (s'.recv - s'.bonusPaid)) := by
  unfold DutchV1Lend.bidE at h
  split at h
  · cases h
  · rename_i a ha
    split at h
    · rename_i p hp
      obtain ⟨_, m1, m2, m3, m4, m5, m6, m7⟩ := DutchV1Lend.apply_ok hb hi ha (DutchV1Lend.plan_ok hb hp) h
      exact ⟨by rw [m3, m1]; omega, by rw [m4, m2]; omega, m5, by rw [m6, m1]; omega, m7⟩
    · cases h

/-- witness (first lend sequence of the harness run): 33 816 425 auctioned, 35 507 246 moved in, bonus 5 % -/
def l1Env : DutchV1Lend.Env := { decC := 1000000, decD := 1000000, target := 30434782, coll0 := 33816425, deposit := 35507246, bonus := 50000000000000000, dust := 1000000, T := 3600, buffer := 1200000000000000000, cusp := 700000000000000000 }
def l1Auc : DutchV1Lend.Auc := { outCur := 33816425, inCur := 0, price := 2160000000000000000000000, init := 2160000000000000000000000, endP := 1512000000000000000000000, inPrice := 2000000000000000000000000, start := 0, end_ := 3600 }
def l1Bank : Bank := [((.auction, .coll), 35507246), ((.bidder 1, .debt), 100000000), ((.bidder 2, .debt), 100000000)]
def l1Final : DutchV1Lend.St := DutchV1Lend.run l1Env (DutchV1Lend.initSt l1Env l1Auc l1Bank)
  [.bid 1 1000000 0 0, .tick 1200 1800000 true 2000000 true, .bid 2 32816425 0 0]

/-- **the bonus on the unsold collateral is stranded**: the target is reached with 2 616 032 units unsold (returned to the borrower);
the 5 % bonus pot that was seized for them — 130 802 units — stays in the auction module account, claimed by nothing. -/
theorem l1_close_custody_counterexample :
    l1Final.auc = none ∧ l1Final.paid = 30434782 ∧ l1Final.bank.get .owner .coll = 2616032 ∧
    l1Final.bank.get .auction .coll = 130802 ∧ l1Final.otherC = 0 := by decide

/-! ### first-generation lend auctions: the lend-side book-keeping of the close (`Model/DutchV1LendBook.lean`) -/

section LendBook
open Comdex.DutchV1LendBook

/-- **`close_distributes_all` for first-generation lend auctions, pool and lend module accounts included.**  The bid that closes the
auction (target reached, or collateral sold out with the reserve paying the rest) does, and only does, the following.

*Debt denomination.*  The bidder pays `p.inAmt`; nothing of it rests in the auction module (`Inv`: module debt balance = what is
not this auction's).  The pool receives it, plus `req` from the reserve when the collateral was sold out below the target
(`req = target − collected`, else 0), minus the reserve's share of the borrow's interest `⌊ReservePoolInterest⌋`, which goes to the
lend module: pool and reserve TOGETHER gain exactly what the bidder paid.

*Collateral.*  The bidder gets slice + bonus, the borrower the unsold rest (`coll0 − sold`); the pool loses exactly what a
re-liquidation hands to the auction module for the follow-up auction (`cp.redep`, booked as not this auction's) plus that
re-liquidation's penalty `cp.pen2`, which the reserve gains.  In the auction module stays, of this auction, exactly the unpaid part of
the bonus pot (`Inv.closed` — the stranded remainder of D32, `l1_close_custody_counterexample`).

*Records.*  cTokens of the debt asset minted to the pool: `⌊InterestAccumulated − ReservePoolInterest⌋`; and one of five outcomes for
locked vault / borrow / collateral cTokens (`Outcome`): repaid in full (records deleted, the cTokens `AmountIn` returned to the
borrower), no collateral left (records deleted), healthy again (borrow restored with `AmountIn`, `AmountOut − target`), still
unhealthy (liquidated again: `deduction` cTokens burned and taken off the locked vault), or stuck (a price went inactive). -/
theorem l1_close_distributes_all (e : DutchV1Lend.Env) (r : Rates) (s s' : BSt) (who : Nat) (slice : Int) (x : Ext) (a : DutchV1Lend.Auc)
    (hb : (0 : Int) ≤ e.bonus) (hi : DutchV1Lend.Inv e s.s) (ha : s.s.auc = some a)
    (h : DutchV1LendBook.bidE e r s who slice x = .ok s') (hc : s'.s.auc = none) :
    ∃ p cp lv0 req, DutchV1Lend.plan e a slice = .ok p ∧ closeBook e r s.k x = .ok cp ∧ s.k.lv = some lv0 ∧ Outcome e s.k lv0 cp ∧
      -- debt
      s'.s.bank.get .auction .debt = s'.s.otherD ∧ s'.s.otherD = s.s.otherD ∧
      s'.s.bank.get (.bidder who) .debt = s.s.bank.get (.bidder who) .debt - p.inAmt ∧
      0 ≤ req ∧ (a.inCur + p.inAmt ≥ e.target → req = 0) ∧ (a.inCur + p.inAmt < e.target → req = e.target - (a.inCur + p.inAmt)) ∧
      s'.s.bank.get .pool .debt = s.s.bank.get .pool .debt + p.inAmt + req - riOf s.k ∧
      s'.s.bank.get .lendres .debt = s.s.bank.get .lendres .debt - req + riOf s.k ∧
      -- collateral
      s'.s.bank.get .owner .coll - s.s.bank.get .owner .coll = e.coll0 - (s'.s.recv - s'.s.bonusPaid) ∧
      s'.s.bank.get .pool .coll = s.s.bank.get .pool .coll - cp.redep - cp.pen2 ∧
      s'.s.bank.get .lendres .coll = s.s.bank.get .lendres .coll + cp.pen2 ∧
      s'.s.bank.get .auction .coll = s.s.otherC + cp.redep + (e.deposit - e.coll0 - s'.s.bonusPaid) ∧
      -- records
      s'.k.lv = cp.k.lv ∧ s'.k.borrow = cp.k.borrow ∧ s'.k.liquidated = cp.k.liquidated ∧
      s'.k.cPoolDebt = s.k.cPoolDebt + mintOf s.k ∧ s'.k.cPoolColl = cp.k.cPoolColl ∧ s'.k.cOwnerColl = cp.k.cOwnerColl := by
  obtain ⟨p, cp, lv0, h1, h2, h3, h4, h5, _, hoD, ⟨req, q1, q2, q3, q4, q5, _⟩, h8, h9, h10, h11, h12, h13, h14, h15, h16, _, h18, h19⟩ :=
    DutchV1LendBook.bidE_close hb hi ha h hc
  obtain ⟨_, _, c3⟩ := h5.closed hc
  refine ⟨p, cp, lv0, req, h1, h2, h3, h4, h5.debt_custody, hoD, ?_, q1, q2, q3, q4, q5, h19, h8, h9, ?_, h11, h12, h13, h14, h15, h16⟩
  · have := h18 who; simpa using this
  · rw [c3, h10]

/-- non-vacuity: the three outcomes that move anything, on the borrow of the D32 witness with a year of interest (570 809.03 accrued,
114 161.80 of it the reserve's): (1) healthy again — the reserve gets 114 161, 456 647 cTokens are minted, the borrow is restored
with 39 565 218 owed; (2) a smaller debt is repaid in full — 62 801 933 cTokens go back to the borrower; (3) the collateral price
has halved — liquidated again: 206 483 951 collateral to the auction module, 9 832 569 to the reserve -/
def lbRates : Rates := { ltv := 700000000000000000, pen := 50000000000000000, thr := 750000000000000000 }
def lbLv : LV := { amtIn := 62801933, amtOut := 70000000, updOut := 70570809 }
def lbBook : Book := { lv := some lbLv, borrow := some (62801933, 70000000), intAcc := 570809034907615000000000, resInt := 114161806981523000000000, cPoolDebt := 10100000000, cPoolColl := 11062801933, cOwnerColl := 2900000000 }
def lbBank : Bank := [((.auction, .coll), 35507246), ((.bidder 1, .debt), 100000000), ((.bidder 2, .debt), 100000000),
  ((.pool, .coll), 13000000000), ((.pool, .debt), 20000000000), ((.lendres, .debt), 500)]
def lbX (twaC : Int) : Ext := { twaC := twaC, actC := true, twaD := 2000000, actD := true }
def lbRun (k : Book) (twaC : Int) : BSt := DutchV1LendBook.run l1Env lbRates { s := DutchV1Lend.initSt l1Env l1Auc lbBank, k := k }
  [.bid 1 1000000 (lbX 1800000), .tick 1200 1800000 true 2000000 true, .bid 2 32816425 (lbX twaC)]

example :
    (lbRun lbBook 1800000).s.auc = none ∧ (lbRun lbBook 1800000).k.lv = none ∧ (lbRun lbBook 1800000).k.borrow = some (62801933, 39565218) ∧
    (lbRun lbBook 1800000).k.cPoolDebt = 10100456647 ∧ (lbRun lbBook 1800000).s.bank.get .lendres .debt = 114661 ∧
    (lbRun lbBook 1800000).s.bank.get .pool .debt = 20030320621 ∧ (lbRun lbBook 1800000).s.bank.get .auction .coll = 130802 := by decide

example :
    let k2 : Book := { lbBook with lv := some { lbLv with amtOut := 30434782, updOut := 30434782 }, borrow := some (62801933, 30434782) }
    (lbRun k2 1800000).s.auc = none ∧ (lbRun k2 1800000).k.lv = none ∧ (lbRun k2 1800000).k.borrow = none ∧
    (lbRun k2 1800000).k.cOwnerColl = 2962801933 ∧ (lbRun k2 1800000).k.cPoolColl = 11000000000 := by decide

example :
    (lbRun lbBook 900000).s.auc = none ∧ (lbRun lbBook 900000).k.lv = some { amtIn := 0, amtOut := 39565218, updOut := 40136027 } ∧
    (lbRun lbBook 900000).k.redep = 206483951 ∧ (lbRun lbBook 900000).k.pen2 = 9832569 ∧ (lbRun lbBook 900000).s.otherC = 206483951 ∧
    (lbRun lbBook 900000).s.bank.get .pool .coll = 12783683480 ∧ (lbRun lbBook 900000).s.bank.get .lendres .coll = 9832569 := by decide

end LendBook

end Comdex.C10