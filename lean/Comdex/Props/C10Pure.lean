import Comdex.Gen.Pure
import Comdex.Lemmas.PureDutch
/-!
# C10 — the Dutch price functions of the model ARE the arithmetic of the current Go source (both generations)

Regenerated on every run by `extract/pure` (Go → Lean, notes/PURE.md):

| Go function                                                              | translation (`Gen.Pure.…`)   | model (`DutchPrice.…`) | theorem |
|--------------------------------------------------------------------------|------------------------------|------------------------|---------|
| x/auction/keeper/math.go `getOutflowTokenInitialPrice`                   | `auctionInitialPrice`        | `startPrice`           | `pure_auctionInitialPrice_eq_model` |
| x/auction/keeper/math.go `getOutflowTokenEndPrice` (+ `Multiply`)        | `auctionEndPrice`            | `endPrice`             | `pure_auctionEndPrice_eq_model` |
| x/auction/keeper/math.go `getPriceFromLinearDecreaseFunction`            | `auctionLinearPrice`         | `linear`               | `pure_auctionLinearPrice_eq_model` |
| x/auctionsV2/keeper/maths.go `GetCollalteralTokenInitialPrice`           | `auctionsV2InitialPrice`     | `startPrice`           | `pure_auctionsV2InitialPrice_eq_model` |
| x/auctionsV2/keeper/maths.go `GetCollateralTokenEndPrice` (+ `Multiply`) | `auctionsV2EndPrice`         | `endPrice`             | `pure_auctionsV2EndPrice_eq_model` |
| x/auctionsV2/keeper/maths.go `GetPriceFromLinearDecreaseFunction`        | `auctionsV2LinearPrice`      | `linear`               | `pure_auctionsV2LinearPrice_eq_model` |

The model has ONE failure value (`Except Unit`: the step panics and `ApplyFuncIfNoError` writes nothing), so the
theorems compare through `PureDutch.forget` (drop the panic class): for ALL arguments the translation returns the
model's price, and panics exactly when the model fails (`Int64()` out of range, `Quo` by zero, 315-bit overflow, and
the 256-bit overflow of `tau.Sub(dur)`, which implies the `Int64()` failure the model tests).

Trusted: the translator's reading of Go and `Base/GoSem.lean`; kernel-checked: the equality with the model.
-/
set_option exponentiation.threshold 512
namespace Comdex.C10
open Comdex Comdex.GoSem Comdex.DutchPrice Comdex.PureDutch

local macro "initial_tac" : tactic => `(tactic| (
  simp only [forget_bind, forget_pure, forget_decMul, forget_intInt64, bind_pure]
  unfold startPrice
  split
  · rfl
  · rfl))

local macro "end_tac" : tactic => `(tactic| (
  simp only [bind_pure]
  exact forget_chkDec _))

local macro "linear_tac" tau:ident dur:ident : tactic => `(tactic| (
  unfold linear
  simp only [forget_bind, forget_decMul, forget_decQuo, forget_intInt64, forget_intSub, bind_pure]
  have hd : ∀ i, decNew i = Dec.ofInt i := fun _ => rfl
  simp only [hd]
  by_cases hA : DutchPrice.fitsI64 ($tau - $dur) = true
  · by_cases hB : DutchPrice.fitsI64 $tau = true
    · have hz : Dec.ofInt $tau = 0 ↔ $tau = 0 := decNew_eq_zero $tau
      simp only [fitsInt_of_fitsI64 hA, hA, hB, if_true, pure_bind, Bool.not_true, Bool.or_self, Bool.false_eq_true,
        if_false, hz]
      by_cases ht : $tau = 0
      · simp only [ht, if_true, bind_error_unit]
      · simp only [ht, if_false]
    · simp only [fitsInt_of_fitsI64 hA, hA, hB, if_true, pure_bind, if_false, error_bind_unit, bind_error_unit,
        Bool.not_true, Bool.false_or, Bool.not_eq_true', Bool.false_eq_true, Bool.not_false]
  · have hA' : DutchPrice.fitsI64 ($tau - $dur) = false := Bool.not_eq_true _ |>.mp hA
    simp only [hA', Bool.not_false, Bool.true_or, if_true]
    by_cases hI : Dec.fitsInt ($tau - $dur) = true
    · simp only [hI, if_true, pure_bind, hA', Bool.false_eq_true, if_false, error_bind_unit]
    · simp only [hI, Bool.false_eq_true, if_false, error_bind_unit]))

/-! ## generation 1 (x/auction) -/

/-- `getOutflowTokenInitialPrice(price, buffer)` = `buffer.Mul(NewDec(price.Int64()))` = `startPrice` -/
theorem pure_auctionInitialPrice_eq_model (twa : Int) (premium : Dec) :
    forget (Gen.Pure.auctionInitialPrice twa premium) = startPrice twa premium := by
  unfold Gen.Pure.auctionInitialPrice
  initial_tac

/-- `getOutflowTokenEndPrice(price, cusp)` = `Multiply(price, cusp)` = `endPrice` -/
theorem pure_auctionEndPrice_eq_model (top cusp : Dec) :
    forget (Gen.Pure.auctionEndPrice top cusp) = endPrice top cusp := by
  unfold Gen.Pure.auctionEndPrice Gen.Pure.auctionMultiply
  end_tac

/-- `getPriceFromLinearDecreaseFunction(top, tau, dur)` = `linear` -/
theorem pure_auctionLinearPrice_eq_model (top : Dec) (tau dur : Int) :
    forget (Gen.Pure.auctionLinearPrice top tau dur) = linear top tau dur := by
  unfold Gen.Pure.auctionLinearPrice
  linear_tac tau dur

/-! ## generation 2 (x/auctionsV2) -/

theorem pure_auctionsV2InitialPrice_eq_model (twa : Int) (premium : Dec) :
    forget (Gen.Pure.auctionsV2InitialPrice twa premium) = startPrice twa premium := by
  unfold Gen.Pure.auctionsV2InitialPrice
  initial_tac

theorem pure_auctionsV2EndPrice_eq_model (top cusp : Dec) :
    forget (Gen.Pure.auctionsV2EndPrice top cusp) = endPrice top cusp := by
  unfold Gen.Pure.auctionsV2EndPrice Gen.Pure.auctionsV2Multiply
  end_tac

theorem pure_auctionsV2LinearPrice_eq_model (top : Dec) (tau dur : Int) :
    forget (Gen.Pure.auctionsV2LinearPrice top tau dur) = linear top tau dur := by
  unfold Gen.Pure.auctionsV2LinearPrice
  linear_tac tau dur

/-! ## non-vacuity: concrete runs of the translations (1.2 × 2_000_000; cusp 0.6; 3600 s window, 900 s elapsed) -/
example : Gen.Pure.auctionInitialPrice 2000000 1200000000000000000 = .ok 2400000000000000000000000 := by rfl
example : Gen.Pure.auctionsV2EndPrice 2400000000000000000000000 600000000000000000 = .ok 1440000000000000000000000 := by rfl
example : Gen.Pure.auctionLinearPrice 2400000000000000000000000 9000 900 = .ok 2160000000000000000000000 := by rfl
example : Gen.Pure.auctionsV2LinearPrice 2400000000000000000000000 0 0 = .error .panic := by rfl        -- Quo by zero
example : Gen.Pure.auctionsV2InitialPrice 9223372036854775808 1 = .error .overflow := by rfl             -- Int64() out of bound
example : linear 2400000000000000000000000 9000 900 = .ok 2160000000000000000000000 := by rfl

end Comdex.C10
