import Comdex.Lemmas.VaultInv
/-!
# C01 — CDP vault custody and published totals always match the open vaults

Property clause → theorem (all quantified over EVERY finite history of vault messages by any number of users against
any number of products, with arbitrary amounts, arbitrary environment inputs per message — emergency flags, oracle
prices, accrued interest — i.e. any interleaving with block boundaries, time gaps and price moves, plus unsolicited
bank sends to the custody account, outside funding and liquidation seizures):

* "collateral held in vault custody for each collateral asset equals the collateral recorded on all open vaults and
   stable-mint vaults of that asset (apart from coins sent to the custody account unsolicited)"     → `C01.custody_eq`
* "the vault count equals the number of open vaults"                                               → `C01.count_eq`
* "for every product the published collateral-locked and tokens-minted totals equal the sums over its open vaults
   plus the vaults currently awaiting auction settlement"                                          → `C01.totals_eq`
* a rejected message changes nothing                                                               → `C01.rejected_no_change`

Scope of the model (Model/Vault.lean): the eleven vault messages, `donate`, `fund`, and the liquidationsV2 seizure
hand-over. Auction *settlement* (which later reduces the totals) is the subject of C10's model; the correspondence
harness checks the totals clause on the real chain state across real liquidations and bids.
-/
namespace Comdex.C01
open Comdex Comdex.Vault

/-- a history: what the handler reads from other modules, and the message -/
abbrev History := List (Env × Msg)

def runAll (cfg : Nat → Option Product) (s : State) (h : History) : State :=
  h.foldl (fun s em => apply cfg s em.1 em.2) s

/-- messages are signed by users, and the history contains no auction settlement (see `totals_after_settlement`) -/
def UsersOk (h : History) : Prop := ∀ em ∈ h, em.2.userOk ∧ em.2.notSettle

theorem init_inv (cfg : Nat → Option Product) (hc : CfgOk cfg) : Inv cfg State.init := by
  refine ⟨⟨by simp [State.init], by simp [State.init], by simp [State.init], by simp [State.init],
    by simp [State.init]⟩, by simp [CountOk, State.init], ?_, ?_, ?_, ?_, ?_⟩
  · intro d; simp [CustodyAt, collRecorded, State.init, sumBy]
  · intro p; simp [TotalsAt, collOfProduct, mintedOfProduct, State.init, sumBy]
  · intro d; simp [SupplyAt, principalRecorded, State.init, sumBy]
  · simp [State.init]
  · intro k p hp; simp only [State.init]; exact (hc k p hp).2.2.2.2.2.2.2

theorem apply_inv (cfg : Nat → Option Product) (hc : CfgOk cfg) (s : State) (e : Env) (m : Msg) (hm : m.userOk)
    (hns : m.notSettle) (hinv : Inv cfg s) : Inv cfg (apply cfg s e m) := by
  unfold apply
  cases h : step cfg s e m with
  | none => simpa using hinv
  | some s' => simpa using step_inv cfg hc s s' e m hm hns hinv h

/-- the ledger invariant holds after every history -/
theorem inv_always (cfg : Nat → Option Product) (hc : CfgOk cfg) (h : History) (hu : UsersOk h) (s : State)
    (hinv : Inv cfg s) : Inv cfg (runAll cfg s h) := by
  induction h generalizing s with
  | nil => exact hinv
  | cons em t ih =>
    simp only [runAll, List.foldl_cons]
    exact ih (fun x hx => hu x (by simp [hx])) _ (apply_inv cfg hc s em.1 em.2 (hu em (by simp)).1 (hu em (by simp)).2 hinv)

/-- **Custody**: vault-module balance of every denom = collateral recorded on open + stable-mint vaults of that
denom + coins sent there unsolicited. -/
theorem custody_eq (cfg : Nat → Option Product) (hc : CfgOk cfg) (h : History) (hu : UsersOk h) (d : Nat) :
    let s := runAll cfg State.init h
    s.bal vm d = collRecorded cfg s d + s.unsolicited d :=
  (inv_always cfg hc h hu State.init (init_inv cfg hc)).2.2.1 d

/-- **Count**: the published vault count equals the number of open vaults. -/
theorem count_eq (cfg : Nat → Option Product) (hc : CfgOk cfg) (h : History) (hu : UsersOk h) :
    let s := runAll cfg State.init h
    s.length = s.vaults.length :=
  (inv_always cfg hc h hu State.init (init_inv cfg hc)).2.1

/-- **Totals**: per product, published collateral-locked / tokens-minted = sums over open vaults, stable-mint
vaults and vaults awaiting auction settlement. -/
theorem totals_eq (cfg : Nat → Option Product) (hc : CfgOk cfg) (h : History) (hu : UsersOk h) (prod : Nat) :
    let s := runAll cfg State.init h
    s.coll prod = collOfProduct s prod ∧ s.minted prod = mintedOfProduct s prod :=
  (inv_always cfg hc h hu State.init (init_inv cfg hc)).2.2.2.1 prod

/-- a rejected message leaves the state untouched (message atomicity is part of the model: `apply`) -/
theorem rejected_no_change (cfg : Nat → Option Product) (s : State) (e : Env) (m : Msg)
    (h : step cfg s e m = none) : apply cfg s e m = s := by
  simp [apply, h]

/-- **Auction settlement (finding D13).** When the auction of a seized vault closes, the code reduces the product's
tokens-minted total by `TargetDebt − penalty` = principal + interest + closing fee instead of the principal that was
added when the vault was opened. In the model: from a state satisfying the invariant, `settle` keeps the collateral
total exact and leaves the minted total BELOW the recorded principal by exactly the interest and closing fee of the
seized vault. Hence the totals clause is proved for histories without settlement (`totals_eq`, partial) and is false
after a settlement of a vault that had accrued interest or a closing fee (`totals_eq_settlement_counterexample`). -/
theorem totals_after_settlement (cfg : Nat → Option Product) (s s' : State) (vaultId : Nat) (l : LockedRec)
    (hinv : Inv cfg s) (hnd : (s.locked.map (·.vaultId)).Nodup) (hl : l ∈ s.locked) (hid : l.vaultId = vaultId)
    (h : settle s vaultId = some s') :
    s'.coll l.product = collOfProduct s' l.product ∧
    s'.minted l.product = mintedOfProduct s' l.product - (l.debt - l.amountOut) := by
  unfold settle at h
  cases hf : s.locked.find? (fun x => decide (x.vaultId = vaultId)) with
  | none => simp [hf] at h
  | some l0 =>
    simp only [hf] at h
    cases h
    obtain ⟨hm0, hid0⟩ := find_mem (·.vaultId) s.locked vaultId l0 hf
    have : l0 = l := eq_of_nodup_map (·.vaultId) s.locked hnd l0 l hm0 hl (by rw [hid0, hid])
    subst this
    have ht := hinv.2.2.2.1 l0.product
    obtain ⟨hc, hmi⟩ := ht
    have hdel : s.locked.filter (fun x => decide (x.vaultId ≠ vaultId)) = delBy (·.vaultId) s.locked l0.vaultId := by
      simp [delBy, hid0]
    constructor
    · simp only [collOfProduct, upd1, hdel, if_true]
      rw [sumBy_delBy (·.vaultId) _ s.locked l0 hnd hm0]
      simp only [collOfProduct] at hc
      simp; omega
    · simp only [mintedOfProduct, upd1, hdel, if_true]
      rw [sumBy_delBy (·.vaultId) _ s.locked l0 hnd hm0]
      simp only [mintedOfProduct] at hmi
      simp; omega

/-! ### Non-vacuity: a concrete configuration and history that satisfies the hypotheses and exercises the clauses -/
def demoProduct : Product :=
  { id := 1, app := 1, denomIn := 1, denomOut := 3, decIn := 1000000, decOut := 1000000,
    minCr := 1500000000000000000, debtFloor := 1000000, debtCeiling := 1000000000000,
    drawDownFee := 10000000000000000, closingFee := 0, isStable := false, active := true, outOracle := true, outPrice := 1000000 }
def demoCfg : Nat → Option Product := fun pr => if pr = 1 then some demoProduct else none
def demoEnv : Env := { priceIn := some 10000000, priceOut := some 1000000 }
def demoHistory : History :=
  [(demoEnv, .fund 10 1 5000000), (demoEnv, .create 10 1 1 3000000 2000000), (demoEnv, .donate 10 1 7),
   ({ demoEnv with iota := some 5 }, .deposit 10 1 1 1 1000), (demoEnv, .seize 1)]

example : CfgOk demoCfg := by
  intro pr p h
  simp only [demoCfg] at h
  split at h
  · cases h; subst_vars; refine ⟨rfl, ?_⟩; simp [ProductOk, demoProduct, Dec.P]
  · cases h
example : UsersOk demoHistory := by
  intro em h; simp [demoHistory] at h
  rcases h with rfl | rfl | rfl | rfl | rfl <;> simp [Msg.userOk, Msg.notSettle, vm]
/-- the totals clause fails after a real-shaped history: create, interest accrues, seizure, auction closes -/
theorem totals_eq_settlement_counterexample :
    let s := runAll demoCfg State.init (demoHistory ++ [(demoEnv, .settle 1)])
    s.vaults = [] ∧ s.locked = [] ∧ mintedOfProduct s 1 = 0 ∧ s.minted 1 = -5 := by decide

example : (runAll demoCfg State.init demoHistory).locked.length = 1 ∧
    (runAll demoCfg State.init demoHistory).bal vm 1 = 7 ∧
    (runAll demoCfg State.init demoHistory).coll 1 = 3001000 := by decide

end Comdex.C01
