import Comdex.Lemmas.VaultInv
import Comdex.Lemmas.VaultCfg
/-!
# C01 — CDP vault custody and published totals always match the open vaults

Property clause → theorem (all quantified over EVERY finite history of vault messages by any number of users against
any number of products, with arbitrary amounts, arbitrary environment inputs per message — emergency flags, oracle
prices, accrued interest — i.e. any interleaving with block boundaries, time gaps and price moves, plus unsolicited
bank sends to the custody account, outside funding and liquidation seizures):

* "collateral held in vault custody for each collateral asset equals the collateral recorded on all open vaults and
   stable-mint vaults of that asset (apart from coins sent to the custody account unsolicited)"     → `C01.custody_eq`
* "the vault count equals the number of open vaults"                                               → `C01.count_eq`
* "for every product the published collateral-locked and tokens-minted totals equal the sums over its open vaults
   plus the vaults currently awaiting auction settlement"                                          → `C01.totals_eq`
* a rejected message changes nothing                                                               → `C01.rejected_no_change`

* the same clauses when the product configuration CHANGES between messages (`WasmUpdatePairsVault`, asset proposals)
                                                      → `C01.invL_always_reconfig`, `C01.ledger_eq_reconfig` (via `C01.apply_invL`)
* D13 (second-generation settlement): `C01.totals_after_settlement`, `C01.totals_eq_settlement_counterexample`
* D29 (emergency redemption of a stable-mint vault): `C01.custody_after_esm_stable`, `C01.esm_stable_counterexample`
* first-generation wind-down that re-creates a vault: `C01.wind_down_return_keeps_ledger`
* D39 (auctionsV2 `TriggerEsm`: second-generation auction that runs out under shutdown): `C01.trigger_esm_effect`,
  `C01.trigger_esm_counterexample`

Scope of the model (Model/Vault.lean): the eleven vault messages, `donate`, `fund`, the seizure hand-over of both liquidation
generations, the vault-side bookkeeping of both generations' auction closes, the emergency-shutdown steps of x/esm and of both
auction generations. See notes/C01.md.
-/
namespace Comdex.C01
open Comdex Comdex.Vault

/-- a history: what the handler reads from other modules, and the message -/
abbrev History := List (Env × Msg)

def runAll (cfg : Nat → Option Product) (s : State) (h : History) : State :=
  h.foldl (fun s em => apply cfg s em.1 em.2) s

/-- messages are signed by user accounts -/
def UsersOk (h : History) : Prop := ∀ em ∈ h, em.2.userOk
/-- the history contains no SECOND-generation auction settlement (`settle`, auctionsV2 — finding D13); first-generation
settlements (`settle1`, x/auction `CloseDutchAuction`) are allowed: they keep every equation exact -/
def NoSettle (h : History) : Prop := ∀ em ∈ h, em.2.notSettle

/-- the history contains neither an emergency redemption of a STABLE-MINT vault (`esmStable`, x/esm — finding D29: the record
stays behind) nor a first-generation wind-down that re-creates a vault (`esmReturn1`: keeps every ledger equation —
`wind_down_return_keeps_ledger` — but the re-created vault may lie below the debt floor); every other emergency-shutdown
step (`esmVault`, `esmCollector`, `esmBurn`, and the wind-down with the principal recovered = `settle1`) is allowed -/
def EsmRegular (h : History) : Prop := ∀ em ∈ h, em.2.esmRegular

/-- offsets that only auction settlements can produce: custody, count and collateral totals stay exact; the minted
total and the supply can only fall BELOW the recorded principal -/
def GoodGaps (G : Gaps) : Prop :=
  (∀ d, G.cus d = 0) ∧ G.cnt = 0 ∧ (∀ k, G.coll k = 0) ∧ (∀ k, G.mint k ≤ 0) ∧ (∀ d, G.sup d ≤ 0)

theorem invG_zero (cfg : Nat → Option Product) (s : State) : InvG cfg Gaps.zero s ↔ Inv cfg s := by
  simp [InvG, Vault.Inv, CustodyAtG, CustodyAt, CountOkG, CountOk, TotalsAtG, TotalsAt, SupplyAtG, SupplyAt, Gaps.zero]

theorem init_inv (cfg : Nat → Option Product) (hc : CfgOk cfg) : Inv cfg State.init := by
  refine ⟨⟨by simp [State.init], by simp [State.init], by simp [State.init], by simp [State.init],
    by simp [State.init]⟩, by simp [CountOk, State.init], ?_, ?_, ?_, ?_, ?_⟩
  · intro d; simp [CustodyAt, collRecorded, State.init, sumBy]
  · intro p; simp [TotalsAt, collOfProduct, mintedOfProduct, State.init, sumBy]
  · intro d; simp [SupplyAt, principalRecorded, State.init, sumBy]
  · simp [State.init]
  · intro k p hp; simp only [State.init]; exact (hc k p hp).2.2.2.2.2.2.2

/-- one message: the invariant is kept relative to offsets that stay good; only a settlement changes them -/
theorem apply_invG (cfg : Nat → Option Product) (hc : CfgOk cfg) (G : Gaps) (s : State) (e : Env) (m : Msg)
    (hm : m.userOk) (hne : m.esmRegular) (hinv : InvG cfg G s) (hg : GoodGaps G) :
    ∃ G', InvG cfg G' (apply cfg s e m) ∧ GoodGaps G' ∧ (m.notSettle → G' = G) := by
  unfold apply
  cases h : step cfg s e m with
  | none => exact ⟨G, by simpa using hinv, hg, fun _ => rfl⟩
  | some s' =>
    by_cases hns : m.notSettle
    · exact ⟨G, by simpa using step_inv cfg G hc s s' e m hm hns hne hinv h, hg, fun _ => rfl⟩
    · cases m with
      | settle v =>
        simp only [step, Msg.product] at h
        cases hf : s.locked.find? (fun x => decide (x.vaultId = v)) with
        | none => simp [hf] at h
        | some l0 =>
          simp only [hf, Option.map_some] at h
          cases hp : cfg l0.product with
          | none => simp [hp] at h
          | some p =>
            simp only [hp] at h
            split at h; · cases h
            next hpid =>
            simp only [Decidable.not_not] at hpid
            simp only [stepP] at h
            have hpc : ∀ l ∈ s.locked, l.product = p.id → cfg l.product = some p := by
              intro l _ hlp; rw [hlp, hpid]; exact hp
            obtain ⟨l, hl, _, hle, hinv'⟩ := settle_inv cfg G s s' p v hinv hpc h
            obtain ⟨g1, g2, g3, g4, g5⟩ := hg
            refine ⟨G.afterSettle p l, by simpa using hinv', ⟨g1, g2, g3, ?_, ?_⟩, fun hn => absurd hn hns⟩
            · intro k; have := g4 k; simp only [Gaps.afterSettle]; split <;> omega
            · intro d; have := g5 d; simp only [Gaps.afterSettle]; split <;> omega
      | _ => exact absurd (by simp [Msg.notSettle]) hns

/-- the ledger invariant holds after every history, relative to offsets that only settlements move -/
theorem invG_always (cfg : Nat → Option Product) (hc : CfgOk cfg) (h : History) (hu : UsersOk h) (hne : EsmRegular h)
    (G : Gaps) (s : State)
    (hinv : InvG cfg G s) (hg : GoodGaps G) :
    ∃ G', InvG cfg G' (runAll cfg s h) ∧ GoodGaps G' ∧ (NoSettle h → G' = G) := by
  induction h generalizing s G with
  | nil => exact ⟨G, hinv, hg, fun _ => rfl⟩
  | cons em t ih =>
    simp only [runAll, List.foldl_cons]
    obtain ⟨G1, h1, g1, e1⟩ := apply_invG cfg hc G s em.1 em.2 (hu em (by simp)) (hne em (by simp)) hinv hg
    obtain ⟨G2, h2, g2, e2⟩ := ih (fun x hx => hu x (by simp [hx])) (fun x hx => hne x (by simp [hx])) G1 _ h1 g1
    refine ⟨G2, h2, g2, fun hn => ?_⟩
    rw [e2 (fun x hx => hn x (by simp [hx])), e1 (hn em (by simp))]

theorem goodGaps_zero : GoodGaps Gaps.zero := by simp [GoodGaps, Gaps.zero]

/-- histories without auction settlement keep the invariant with all offsets zero -/
theorem inv_always (cfg : Nat → Option Product) (hc : CfgOk cfg) (h : History) (hu : UsersOk h) (hne : EsmRegular h)
    (hn : NoSettle h) :
    Inv cfg (runAll cfg State.init h) := by
  obtain ⟨G', h', _, e⟩ := invG_always cfg hc h hu hne Gaps.zero State.init ((invG_zero cfg _).mpr (init_inv cfg hc)) goodGaps_zero
  rw [e hn] at h'; exact (invG_zero cfg _).mp h'

/-- **Custody**: after EVERY history (including liquidation seizures and auction settlements) the vault-module balance
of every denom = collateral recorded on open + stable-mint vaults of that denom + coins sent there unsolicited. -/
theorem custody_eq (cfg : Nat → Option Product) (hc : CfgOk cfg) (h : History) (hu : UsersOk h) (hne : EsmRegular h) (d : Nat) :
    let s := runAll cfg State.init h
    s.bal vm d = collRecorded cfg s d + s.unsolicited d := by
  obtain ⟨G', h', g, _⟩ := invG_always cfg hc h hu hne Gaps.zero State.init ((invG_zero cfg _).mpr (init_inv cfg hc)) goodGaps_zero
  have := h'.2.2.1 d
  simp only [CustodyAtG, g.1 d] at this
  simpa using this

/-- **Count**: after every history the published vault count equals the number of open vaults. -/
theorem count_eq (cfg : Nat → Option Product) (hc : CfgOk cfg) (h : History) (hu : UsersOk h) (hne : EsmRegular h) :
    let s := runAll cfg State.init h
    s.length = s.vaults.length := by
  obtain ⟨G', h', g, _⟩ := invG_always cfg hc h hu hne Gaps.zero State.init ((invG_zero cfg _).mpr (init_inv cfg hc)) goodGaps_zero
  have := h'.2.1
  simp only [CountOkG, g.2.1] at this
  simpa using this

/-- **Totals, collateral**: after every history the published collateral-locked total of every product equals the sum
over open, stable-mint and awaiting-auction vaults. -/
theorem totals_coll_eq (cfg : Nat → Option Product) (hc : CfgOk cfg) (h : History) (hu : UsersOk h) (hne : EsmRegular h) (prod : Nat) :
    let s := runAll cfg State.init h
    s.coll prod = collOfProduct s prod := by
  obtain ⟨G', h', g, _⟩ := invG_always cfg hc h hu hne Gaps.zero State.init ((invG_zero cfg _).mpr (init_inv cfg hc)) goodGaps_zero
  have := (h'.2.2.2.1 prod).1
  simp only [g.2.2.1 prod] at this
  simpa using this

/-- **Totals, minted**: after every history the published tokens-minted total is AT MOST the recorded principal
(open + stable-mint + awaiting auction); it is EQUAL in histories without auction settlement (`totals_eq`). -/
theorem totals_minted_le (cfg : Nat → Option Product) (hc : CfgOk cfg) (h : History) (hu : UsersOk h) (hne : EsmRegular h) (prod : Nat) :
    let s := runAll cfg State.init h
    s.minted prod ≤ mintedOfProduct s prod := by
  obtain ⟨G', h', g, _⟩ := invG_always cfg hc h hu hne Gaps.zero State.init ((invG_zero cfg _).mpr (init_inv cfg hc)) goodGaps_zero
  have := (h'.2.2.2.1 prod).2
  have := g.2.2.2.1 prod
  simp only at *
  omega

/-- **Totals** (partial: histories without auction settlement — see `totals_after_settlement`): per product, published
collateral-locked / tokens-minted = sums over open vaults, stable-mint vaults and vaults awaiting auction settlement. -/
theorem totals_eq (cfg : Nat → Option Product) (hc : CfgOk cfg) (h : History) (hu : UsersOk h) (hne : EsmRegular h) (hn : NoSettle h)
    (prod : Nat) :
    let s := runAll cfg State.init h
    s.coll prod = collOfProduct s prod ∧ s.minted prod = mintedOfProduct s prod :=
  (inv_always cfg hc h hu hne hn).2.2.2.1 prod

/-- a rejected message leaves the state untouched (message atomicity is part of the model: `apply`) -/
theorem rejected_no_change (cfg : Nat → Option Product) (s : State) (e : Env) (m : Msg)
    (h : step cfg s e m = none) : apply cfg s e m = s := by
  simp [apply, h]

/-- **Auction settlement (finding D13).** When the auction of a seized vault closes, the code reduces the product's
tokens-minted total by `TargetDebt − penalty` = principal + interest + closing fee instead of the principal that was
added when the vault was opened. From a state satisfying the invariant, `settle` keeps the collateral total exact and
leaves the minted total BELOW the recorded principal by exactly the interest and closing fee of the seized vault
(`Gaps.afterSettle`). Hence the minted-totals clause is an equality only for histories without settlement (`totals_eq`,
partial), an inequality in general (`totals_minted_le`), and the equality is false after a settlement of a vault that
had accrued interest or a closing fee (`totals_eq_settlement_counterexample`). -/
theorem totals_after_settlement (cfg : Nat → Option Product) (s s' : State) (p : Product) (vaultId : Nat)
    (hinv : Inv cfg s) (hpc : ∀ l ∈ s.locked, l.product = p.id → cfg l.product = some p)
    (h : settle s p vaultId = some s') :
    ∃ l ∈ s.locked, l.vaultId = vaultId ∧
      s'.coll l.product = collOfProduct s' l.product ∧
      s'.minted l.product = mintedOfProduct s' l.product - (l.debt - l.amountOut) := by
  obtain ⟨l, hl, hid, _, hinv'⟩ := settle_inv cfg Gaps.zero s s' p vaultId ((invG_zero cfg s).mpr hinv) hpc h
  refine ⟨l, hl, hid, ?_, ?_⟩
  · have := (hinv'.2.2.2.1 l.product).1
    simpa [Gaps.afterSettle, Gaps.zero] using this
  · have := (hinv'.2.2.2.1 l.product).2
    simp only [Gaps.afterSettle, Gaps.zero, if_true] at this
    omega

/-- **Emergency redemption of a stable-mint vault (finding D29).** After the cool-off period of an emergency shutdown
`SetUpCollateralRedemptionForStableVault` moves the stable-mint vault's collateral to the esm account and reduces the
product totals, but never deletes (or zeroes) the stable-mint vault record. From a state satisfying the invariant the
step leaves custody BELOW the recorded collateral by exactly that vault's collateral and both published totals below the
sums over the records by its collateral and principal (`Gaps.afterEsmStable`): the custody and totals clauses are false
afterwards (`esm_stable_counterexample`). Every other emergency-shutdown step keeps all equations (`step_inv`). -/
theorem custody_after_esm_stable (cfg : Nat → Option Product) (s s' : State) (p : Product) (e : Env) (stableId : Nat)
    (hinv : Inv cfg s) (hout : ∀ r ∈ s.stables, r.id = stableId → 0 ≤ r.amountOut)
    (h : esmStable s p e stableId = some s') :
    ∃ r ∈ s.stables, r.id = stableId ∧
      s'.bal vm p.denomIn = collRecorded cfg s' p.denomIn + s'.unsolicited p.denomIn - (if r.amountIn > 0 then r.amountIn else 0) ∧
      s'.coll p.id = collOfProduct s' p.id - r.amountIn ∧
      s'.minted p.id = mintedOfProduct s' p.id - r.amountOut := by
  obtain ⟨r, hr, hid, _, hinv'⟩ := esmStable_inv cfg Gaps.zero s s' p e stableId ((invG_zero cfg s).mpr hinv) hout h
  refine ⟨r, hr, hid, ?_, ?_, ?_⟩
  · have := hinv'.2.2.1 p.denomIn
    simp only [CustodyAtG, Gaps.afterEsmStable, Gaps.zero, if_true] at this
    omega
  · have := (hinv'.2.2.2.1 p.id).1
    simp only [Gaps.afterEsmStable, Gaps.zero, if_true] at this
    omega
  · have := (hinv'.2.2.2.1 p.id).2
    simp only [Gaps.afterEsmStable, Gaps.zero, if_true] at this
    omega

/-- **Wind-down of a first-generation auction that collected less than the principal** (x/auction dutch.go:538-570 under
emergency shutdown): the collected amount is burnt, the unsold collateral returns to vault custody and the owner gets a
vault with it and the principal still owed. From a state satisfying the invariant the step keeps custody, count, both
totals and the supply equation exactly (same offsets); the only premise is that a NEWLY created vault respects the debt
floor (a top-up of the owner's existing vault always does) — the code does not check it. -/
theorem wind_down_return_keeps_ledger (cfg : Nat → Option Product) (s s' : State) (p : Product) (e : Env) (vaultId owner : Nat)
    (cur infl : Int) (hp : cfg p.id = some p) (hinv : Inv cfg s)
    (hfloor : ∀ l ∈ s.locked, l.vaultId = vaultId →
      (s.vaults.find? (fun v => v.owner = owner ∧ v.product = p.id)) = none → p.debtFloor ≤ l.amountOut - infl)
    (h : esmReturn1 s p e vaultId owner cur infl = some s') : Inv cfg s' :=
  (invG_zero cfg s').mp (esmReturn1_inv cfg Gaps.zero s s' p e vaultId owner cur infl hp ((invG_zero cfg s).mpr hinv) hfloor h)

/-! ### Configuration changes in the middle of a history

`Product` is an argument of every handler, so each single-step theorem above already holds for whatever parameters are in
force at that step. The history theorems above fix one configuration `cfg`; the ones below let it CHANGE between any two
messages (`Ev.reconfig`: `WasmUpdatePairsVault` — fees, ceiling, floor, min CR, `IsVaultActive` —, x/asset proposals —
decimals —, new products), the only constraint being what no update path can change: a product keeps its id and its two
assets (`CfgExt`), and the new parameters are admissible (`CfgOk`). Custody, count, collateral totals and
"minted ≤ recorded principal" (equality without second-generation settlement) hold after EVERY such history. The C03 limits
are NOT invariant under reconfiguration (lower the ceiling below what is outstanding, raise the floor above a vault):
what holds is that no accepted message makes an excess worse — `C03.ceiling_excess_never_increases`,
`C03.floor_deficit_never_increases`, from `apply_invL` below. -/

/-- one message under relaxed limits: the ledger invariant is kept for ANY bounds `B ≤ floor`, `C ≥ ceiling` that hold
before — the limits that hold are kept, whether or not they are the configured ones -/
theorem apply_invL (cfg : Nat → Option Product) (hc : CfgOk cfg) (B C : Nat → Int)
    (hB0 : ∀ k p, cfg k = some p → 0 ≤ B k) (hB : ∀ k p, cfg k = some p → B k ≤ p.debtFloor)
    (hC : ∀ k p, cfg k = some p → p.debtCeiling ≤ C k)
    (G : Gaps) (s : State) (e : Env) (m : Msg) (hm : m.userOk) (hne : m.esmRegular)
    (hinv : InvL cfg G s) (hl : LimitsBC cfg B C s) (hg : GoodGaps G) :
    ∃ G', InvL cfg G' (apply cfg s e m) ∧ LimitsBC cfg B C (apply cfg s e m) ∧ GoodGaps G' ∧ (m.notSettle → G' = G) := by
  cases h : step cfg s e m with
  | none => exact ⟨G, by simpa [apply, h] using hinv, by simpa [apply, h] using hl, hg, fun _ => rfl⟩
  | some s' =>
    have hR := step_relax cfg B C s s' e m hB hC h
    have hcR : CfgOk (relaxCfg cfg B C) := relaxCfg_ok cfg B C hc hB0 (fun k p hp => by
      have := (hc k p hp).2.2.2.2.2.2.2; have := hC k p hp; omega)
    have hinvR : InvG (relaxCfg cfg B C) G s :=
      (invL_reconfig (relaxCfg_ext cfg B C) G s hinv).withLimits ((limits_relaxCfg cfg B C s).mpr hl)
    obtain ⟨G', h1, h2, h3⟩ := apply_invG (relaxCfg cfg B C) hcR G s e m hm hne hinvR hg
    have e1 : apply (relaxCfg cfg B C) s e m = s' := by simp [apply, hR]
    have e2 : apply cfg s e m = s' := by simp [apply, h]
    rw [e1] at h1; rw [e2]
    exact ⟨G', invL_reconfig (relaxCfg_ext' cfg B C) G' s' h1.toL, (limits_relaxCfg cfg B C s').mp h1.2.2.2.2.2, h2, h3⟩

/-- the bounds that hold in ANY well-formed state: 0 below every principal, the larger of ceiling and minted total above -/
def ceilBound (cfg : Nat → Option Product) (s : State) (k : Nat) : Int :=
  match cfg k with
  | some p => if s.minted k ≤ p.debtCeiling then p.debtCeiling else s.minted k
  | none => 0

theorem limitsBC_any (cfg : Nat → Option Product) (G : Gaps) (s : State) (h : InvL cfg G s) :
    LimitsBC cfg (fun _ => 0) (ceilBound cfg s) s := by
  refine ⟨fun v hv _ => (h.1.2.1 v hv).2.2.2.1, fun k hs => ?_⟩
  unfold ceilBound
  cases hp : cfg k with
  | none => simp [hp] at hs
  | some p => simp only; split <;> omega

/-- one message keeps the ledger part of the invariant from ANY state satisfying it — no assumption on the limits -/
theorem apply_invL_any (cfg : Nat → Option Product) (hc : CfgOk cfg) (G : Gaps) (s : State) (e : Env) (m : Msg)
    (hm : m.userOk) (hne : m.esmRegular) (hinv : InvL cfg G s) (hg : GoodGaps G) :
    ∃ G', InvL cfg G' (apply cfg s e m) ∧ GoodGaps G' ∧ (m.notSettle → G' = G) := by
  obtain ⟨G', h1, _, h3, h4⟩ := apply_invL cfg hc (fun _ => 0) (ceilBound cfg s) (fun _ _ _ => Int.le_refl 0)
    (fun k p hp => (hc k p hp).2.2.2.2.1)
    (fun k p hp => by unfold ceilBound; simp only [hp]; split <;> omega) G s e m hm hne hinv (limitsBC_any cfg G s hinv) hg
  exact ⟨G', h1, h3, h4⟩

/-- an event of a history with configuration changes -/
inductive Ev where
  | msg (e : Env) (m : Msg)
  | reconfig (cfg' : Nat → Option Product)

def stepC (cs : (Nat → Option Product) × State) : Ev → (Nat → Option Product) × State
  | .msg e m => (cs.1, apply cs.1 cs.2 e m)
  | .reconfig cfg' => (cfg', cs.2)

def runC (cs : (Nat → Option Product) × State) (h : List Ev) : (Nat → Option Product) × State := h.foldl stepC cs

/-- admissible histories: users sign, the two excluded shutdown steps do not occur, every reconfiguration keeps the products'
identity and installs admissible parameters -/
def EvOk (cfg : Nat → Option Product) : List Ev → Prop
  | [] => True
  | .msg _ m :: t => m.userOk ∧ m.esmRegular ∧ EvOk cfg t
  | .reconfig cfg' :: t => CfgExt cfg cfg' ∧ CfgOk cfg' ∧ EvOk cfg' t

def NoSettleC : List Ev → Prop
  | [] => True
  | .msg _ m :: t => m.notSettle ∧ NoSettleC t
  | .reconfig _ :: t => NoSettleC t

/-- **the ledger invariant holds after every history with configuration changes** -/
theorem invL_always_reconfig (h : List Ev) (cfg : Nat → Option Product) (hc : CfgOk cfg) (hok : EvOk cfg h)
    (G : Gaps) (s : State) (hinv : InvL cfg G s) (hg : GoodGaps G) :
    ∃ G', InvL (runC (cfg, s) h).1 G' (runC (cfg, s) h).2 ∧ GoodGaps G' ∧ CfgOk (runC (cfg, s) h).1 ∧ (NoSettleC h → G' = G) := by
  induction h generalizing cfg s G with
  | nil => exact ⟨G, hinv, hg, hc, fun _ => rfl⟩
  | cons ev t ih =>
    cases ev with
    | msg e m =>
      obtain ⟨hm, hne, hok'⟩ := hok
      obtain ⟨G1, h1, g1, e1⟩ := apply_invL_any cfg hc G s e m hm hne hinv hg
      obtain ⟨G2, h2, g2, c2, e2⟩ := ih cfg hc hok' G1 _ h1 g1
      exact ⟨G2, h2, g2, c2, fun hn => by rw [e2 hn.2, e1 hn.1]⟩
    | reconfig cfg' =>
      obtain ⟨hx, hc', hok'⟩ := hok
      obtain ⟨G2, h2, g2, c2, e2⟩ := ih cfg' hc' hok' G s (invL_reconfig hx G s hinv) hg
      exact ⟨G2, h2, g2, c2, fun hn => e2 hn⟩

theorem invL_init (cfg : Nat → Option Product) (hc : CfgOk cfg) : InvL cfg Gaps.zero State.init :=
  ((invG_zero cfg _).mpr (init_inv cfg hc)).toL

/-- **Custody, count, totals under reconfiguration**: after every history in which the product parameters change between
messages, vault custody of every denom = recorded collateral + unsolicited coins, the vault count = number of open vaults,
the published collateral total = sum over the records, the published minted total ≤ recorded principal (= without
second-generation settlement) — all read with the configuration in force at the END of the history. -/
theorem ledger_eq_reconfig (cfg0 : Nat → Option Product) (hc : CfgOk cfg0) (h : List Ev) (hok : EvOk cfg0 h) :
    let cfg := (runC (cfg0, State.init) h).1
    let s := (runC (cfg0, State.init) h).2
    (∀ d, s.bal vm d = collRecorded cfg s d + s.unsolicited d) ∧ s.length = s.vaults.length ∧
    (∀ k, s.coll k = collOfProduct s k) ∧ (∀ k, s.minted k ≤ mintedOfProduct s k) ∧
    (NoSettleC h → ∀ k, s.minted k = mintedOfProduct s k) := by
  obtain ⟨G', h', g, _, e⟩ := invL_always_reconfig h cfg0 hc hok Gaps.zero State.init (invL_init cfg0 hc) goodGaps_zero
  obtain ⟨_, hcnt, hcus, htot, _⟩ := h'
  obtain ⟨g1, g2, g3, g4, _⟩ := g
  refine ⟨fun d => ?_, ?_, fun k => ?_, fun k => ?_, fun hn k => ?_⟩
  · have := hcus d; simp only [CustodyAtG, g1 d] at this; simpa using this
  · simp only [CountOkG, g2] at hcnt; simpa using hcnt
  · have := (htot k).1; simp only [g3 k] at this; simpa using this
  · have := (htot k).2; have := g4 k; omega
  · rw [e hn] at htot; have := (htot k).2; simpa [Gaps.zero] using this

/-! ### Non-vacuity: a concrete configuration and history that satisfies the hypotheses and exercises the clauses -/
def demoProduct : Product :=
  { id := 1, app := 1, denomIn := 1, denomOut := 3, decIn := 1000000, decOut := 1000000,
    minCr := 1500000000000000000, debtFloor := 1000000, debtCeiling := 1000000000000,
    drawDownFee := 10000000000000000, closingFee := 0, isStable := false, active := true, outOracle := true, outPrice := 1000000 }
def demoCfg : Nat → Option Product := fun pr => if pr = 1 then some demoProduct else none
def demoEnv : Env := { priceIn := some 10000000, priceOut := some 1000000 }
def demoHistory : History :=
  [(demoEnv, .fund 10 1 5000000), (demoEnv, .create 10 1 1 3000000 2000000), (demoEnv, .donate 10 1 7),
   ({ demoEnv with iota := some 5 }, .deposit 10 1 1 1 1000), (demoEnv, .seize 1)]

example : CfgOk demoCfg := by
  intro pr p h
  simp only [demoCfg] at h
  split at h
  · cases h; subst_vars; refine ⟨rfl, ?_⟩; simp [ProductOk, demoProduct, Dec.P]
  · cases h
example : UsersOk demoHistory ∧ NoSettle demoHistory := by
  constructor <;> intro em h <;> simp [demoHistory] at h <;>
    rcases h with rfl | rfl | rfl | rfl | rfl <;> simp [Msg.userOk, Msg.notSettle, vm]
/-- the totals clause fails after a real-shaped history: create, interest accrues, seizure, auction closes -/
theorem totals_eq_settlement_counterexample :
    let s := runAll demoCfg State.init (demoHistory ++ [(demoEnv, .settle 1)])
    s.vaults = [] ∧ s.locked = [] ∧ mintedOfProduct s 1 = 0 ∧ s.minted 1 = -5 ∧ s.supply 3 = -5 + 2000000 - 2000000 + 0 := by
  decide

/-- the same history settled by the FIRST-generation auction (x/auction `CloseDutchAuction`) keeps the totals exact -/
theorem totals_eq_gen1_settlement_example :
    let s := runAll demoCfg State.init (demoHistory ++ [(demoEnv, .settle1 1)])
    s.vaults = [] ∧ s.locked = [] ∧ mintedOfProduct s 1 = 0 ∧ s.minted 1 = 0 ∧ s.coll 1 = 0 ∧
      NoSettle (demoHistory ++ [(demoEnv, .settle1 1)]) := by
  refine ⟨by decide, by decide, by decide, by decide, by decide, ?_⟩
  intro em h
  simp only [demoHistory, List.cons_append, List.nil_append, List.mem_cons, List.not_mem_nil, or_false] at h
  rcases h with rfl | rfl | rfl | rfl | rfl | rfl <;> simp [Msg.notSettle]

example : (runAll demoCfg State.init demoHistory).locked.length = 1 ∧
    (runAll demoCfg State.init demoHistory).bal vm 1 = 7 ∧
    (runAll demoCfg State.init demoHistory).coll 1 = 3001000 := by decide

/-- a stable-mint product (6 → 6 decimals, no fee) next to the demo product -/
def demoStable : Product :=
  { id := 2, app := 1, denomIn := 4, denomOut := 3, decIn := 1000000, decOut := 1000000,
    minCr := 1000000000000000000, debtFloor := 1000, debtCeiling := 1000000000000,
    drawDownFee := 0, closingFee := 0, isStable := true, active := true, outOracle := true, outPrice := 1000000 }
def demoCfg2 : Nat → Option Product := fun pr => if pr = 1 then some demoProduct else if pr = 2 then some demoStable else none
def esmEnv : Env := { demoEnv with esm := true, pastCoolOff := true }
/-- stable mint of 2 000 000, emergency shutdown, cool-off over, redemption: the stable-mint vault still shows 2 000 000 of
collateral and principal, custody and both published totals are 0 -/
theorem esm_stable_counterexample :
    let s := runAll demoCfg2 State.init [(demoEnv, .fund 10 4 5000000), (demoEnv, .stableCreate 10 1 2 2000000), (esmEnv, .esmStable 1)]
    s.stables.length = 1 ∧ collRecorded demoCfg2 s 4 = 2000000 ∧ s.bal vm 4 = 0 ∧ s.bal em 4 = 2000000 ∧
    s.coll 2 = 0 ∧ collOfProduct s 2 = 2000000 ∧ s.minted 2 = 0 ∧ mintedOfProduct s 2 = 2000000 ∧ s.redeem 1 3 = 2000000 := by
  decide

/-- emergency redemption of an ordinary vault keeps every equation: the demo vault is moved to the redemption pool,
its principal is registered, a holder then burns part of it -/
theorem esm_vault_example :
    let h : History := [(demoEnv, .fund 10 1 5000000), (demoEnv, .create 10 1 1 3000000 2000000), (esmEnv, .esmVault 1),
                        (esmEnv, .esmBurn 10 1 3 500000)]
    let s := runAll demoCfg State.init h
    s.vaults = [] ∧ s.length = 0 ∧ s.bal vm 1 = 0 ∧ s.bal em 1 = 3000000 ∧ s.coll 1 = 0 ∧ s.minted 1 = 0 ∧
    s.redeem 1 3 = 1500000 ∧ s.supply 3 = 1500000 ∧ s.extSupply 3 = 1500000 ∧ EsmRegular h ∧ NoSettle h := by
  refine ⟨by decide, by decide, by decide, by decide, by decide, by decide, by decide, by decide, by decide, ?_, ?_⟩ <;>
  · intro em h
    simp only [List.mem_cons, List.not_mem_nil, or_false] at h
    rcases h with rfl | rfl | rfl | rfl <;> simp [Msg.esmRegular, Msg.notSettle]

/-- the demo vault (3 001 000 collateral, 2 000 000 principal) is seized, 1 200 000 is collected for 1 801 000 of the
collateral, the auction runs out under shutdown: the owner gets vault 2 with 1 200 000 collateral and 800 000 principal -/
theorem wind_down_return_example :
    let s := runAll demoCfg State.init (demoHistory ++ [({ demoEnv with esm := true }, .esmReturn1 1 10 1200000 1200000)])
    s.locked = [] ∧ s.vaults.map (fun v => (v.id, v.owner, v.amountIn, v.amountOut)) = [(2, 10, 1200000, 800000)] ∧ s.length = 1 ∧
    s.coll 1 = 1200000 ∧ s.minted 1 = 800000 ∧ s.bal vm 1 = 1200007 ∧ s.supply 3 = 800000 := by
  decide


/-! ### auctionsV2 `TriggerEsm` (recorded finding): a second-generation auction that runs out under emergency shutdown -/

/-- **What `TriggerEsm` does to the vault books** (x/auctionsV2/keeper/auctions.go:487-534, modelled as the code is): no
balance of any account the vault ledger speaks about moves — in particular NOTHING reaches vault custody — and the seized
vault stays on the awaiting-settlement list (so the step can run again), while the owner's vault is credited with the
auction's unsold collateral `cur` and remaining target debt `curDebt`, the collateral total falls by the collateral sold and
supply and minted total fall by what was burnt. -/
theorem trigger_esm_effect (s s' : State) (p : Product) (e : Env) (vaultId owner : Nat) (cur curDebt fee : Int)
    (h : esmReturn2 s p e vaultId owner cur curDebt fee = some s') :
    s'.bal = s.bal ∧ s'.locked = s.locked ∧ s'.unsolicited = s.unsolicited ∧
    ∃ l ∈ s.locked, l.vaultId = vaultId ∧ e.esm = true ∧
      s'.supply p.denomOut = s.supply p.denomOut - trigger2Burn l curDebt fee ∧
      s'.minted p.id = s.minted p.id - trigger2Burn l curDebt fee ∧
      s'.coll p.id = s.coll p.id - (l.amountIn - cur) ∧
      (match s.vaults.find? (fun v => v.owner = owner ∧ v.product = p.id) with
       | some w => s'.vaults = setVault s.vaults { w with amountIn := w.amountIn + cur, amountOut := w.amountOut + curDebt } ∧
                   s'.length = s.length
       | none => s'.vaults = s.vaults ++ [{ id := s.nextVault + 1, owner := owner, product := p.id, amountIn := cur,
                                            amountOut := curDebt, interest := 0, closingFee := 0 }] ∧
                 s'.length = s.length + 1) := by
  unfold esmReturn2 at h
  cases hf : s.locked.find? (fun x => decide (x.vaultId = vaultId)) with
  | none => simp [hf] at h
  | some l =>
    simp only [hf] at h
    split at h; · cases h
    next hg =>
    simp only [not_or, Decidable.not_not] at hg
    obtain ⟨hm, hid⟩ := find_mem (·.vaultId) s.locked vaultId l hf
    simp only [Option.some.injEq] at h
    subst h
    unfold creditRecord
    simp only
    cases hv : s.vaults.find? (fun v => decide (v.owner = owner ∧ v.product = p.id)) with
    | some w =>
      refine ⟨by simp, by simp, by simp, l, hm, hid, hg.2.1, by simp [upd1], by simp [upd1], by simp [upd1], by simp⟩
    | none =>
      refine ⟨by simp, by simp, by simp, l, hm, hid, hg.2.1, by simp [upd1], by simp [upd1], by simp [upd1], by simp⟩

/-- **Witness.** The demo vault (3 001 000 collateral, principal 2 000 000, 5 interest) is seized by the second generation,
nobody bids, the app is shut down and the auction runs out: after TWO begin-blocks the owner holds vault 2 with 6 002 000 of
recorded collateral and 4 600 010 of recorded debt, vault custody holds only the 7 coins donated earlier, the seized
collateral is still in auction custody and the seized vault is still awaiting settlement. Custody and both totals clauses
are false; every further block adds the same again. -/
theorem trigger_esm_counterexample :
    let ev : Env × Msg := ({ demoEnv with esm := true }, .esmReturn2 1 10 3001000 2300005 300000)
    let s := runAll demoCfg State.init (demoHistory ++ [ev, ev])
    s.vaults.map (fun v => (v.id, v.owner, v.amountIn, v.amountOut)) = [(2, 10, 6002000, 4600010)] ∧
    s.bal vm 1 = 7 ∧ collRecorded demoCfg s 1 = 6002000 ∧ s.bal am 1 = 3001000 ∧ s.locked.length = 1 ∧
    s.coll 1 = 3001000 ∧ collOfProduct s 1 = 9003000 ∧ s.minted 1 = 2000000 ∧ mintedOfProduct s 1 = 6600010 ∧
    s.supply 3 = 2000000 ∧ s.length = 1 := by
  decide

/-! ### Non-vacuity of the reconfiguration theorems: the demo product with the ceiling LOWERED below what is outstanding and
the floor RAISED above the open vault's principal, in the middle of a history -/
def demoTight : Product := { demoProduct with debtCeiling := 1500000, debtFloor := 2500000, drawDownFee := 0, minCr := 1200000000000000000 }
def demoCfgTight : Nat → Option Product := fun pr => if pr = 1 then some demoTight else none
def demoEvents : List Ev :=
  [.msg demoEnv (.fund 10 1 5000000), .msg demoEnv (.create 10 1 1 3000000 2000000), .reconfig demoCfgTight,
   .msg demoEnv (.draw 10 1 1 1 1), .msg demoEnv (.repay 10 1 1 1 600000), .msg demoEnv (.deposit 10 1 1 1 1000)]

example : CfgOk demoCfgTight := by
  intro pr p h
  simp only [demoCfgTight] at h
  split at h
  · cases h; subst_vars; refine ⟨rfl, ?_⟩; simp [ProductOk, demoTight, demoProduct, Dec.P]
  · cases h
example : CfgExt demoCfg demoCfgTight := by
  intro k p h
  simp only [demoCfg] at h
  split at h
  · cases h; subst_vars; exact ⟨demoTight, by simp [demoCfgTight], rfl, rfl⟩
  · cases h
/-- after the reconfiguration the outstanding 2 000 000 exceeds the new ceiling 1 500 000 and lies below the new floor
2 500 000: the draw is refused (it would raise the excess), the repayment is refused (it would deepen the deficit), the deposit
is accepted; the ledger equations hold throughout -/
example : let s := (runC (demoCfg, State.init) demoEvents).2
    s.minted 1 = 2000000 ∧ s.vaults.map (fun v => (v.amountIn, v.amountOut)) = [(3001000, 2000000)] ∧ s.bal vm 1 = 3001000 := by
  decide

end Comdex.C01
