import Comdex.Lemmas.LendLtv
import Comdex.Lemmas.LendAccrual
import Comdex.Lemmas.LendIds
import Comdex.Lemmas.LendReserve
import Comdex.Lemmas.LendMigrate
/-!
# C08 — Lending books balance and borrowing is bounded by loan-to-value

Property clause → theorem (all over `Model/Lend.lean`, the hand-written model of x/lend/keeper tied to the real keeper by the
correspondence run; every statement quantifies over ALL configurations, initial banks, prices, op lists and external
interest / reward amounts)

* "published total lent = Σ over lend positions of (available to borrow + collateral pledged to open borrows not handed over)"
    → `C08.totalLend_eq` for every history of the user messages the property lists (lend, deposit, withdraw, close-lend, borrow,
      borrow-alternate, deposit-borrow, draw, repay, close-borrow, repay-withdraw, interest calculation, funding, price changes);
      with liquidation hand-overs in the history the identity is FALSE of the code: `C08.totalLend_handover_counterexample`
      (a position that earned a reward and pledged its whole principal is deleted with availableToBorrow > 0), and
      `C08.totalLend_eq_partial` is the strongest true form (every hand-over leaves the position in place or takes all of it).
* "published totals borrowed (variable and stable) = Σ principal over open borrows of that asset not under liquidation"
    → `C08.totalBorrowed_eq`, `C08.totalStable_eq` (all histories, hand-overs included, no side condition).
* "a borrow or draw succeeds only if debt value (principal + accrued interest + new loan) ≤ collateral value × LTV at the prices in force"
    → `C08.borrow_respects_ltv`, `C08.draw_respects_ltv` (decision form: the `Dec` ratio the chain computes is ≤ the LTV),
      `C08.ltv_exact` (+ `borrow_accepted_ltv_exact`, `draw_accepted_ltv_exact`): the accept decision multiplied out over the integers,
      `(D − ½u − u²)… < (ltv + ½u + u²)·(C + ½u)` with `D = debt·p_out/d_out`, `C = coll·p_in/d_in` exact and `u = 10⁻¹⁸`: half an ulp
      for each of the two `CalcAssetPrice` quotients (truncated big-integer division, then half-even) and for the final `Quo`
      (`ExactLtv`); with decimal scales dividing 10¹⁸ only the final `Quo` rounds (`ExactLtvScales`: `D/C < ltv + ½u + u²`);
      `ltv_exact_tight`: the slack is real (an accepted loan whose exact ratio exceeds the LTV by 2.5·10⁻¹⁹);
      `C08.interpool_borrow_respects_transit_ltv`, `C08.interpool_borrow_ltv_exact` (cross-pool: second check on the bridged transit
      asset, exact form, plus the three roundings between the pledged amount and the bridged quantity).
      The handlers value the collateral as the asset of the debited LEND POSITION; since the repair of defect A (`BorrowAsset` now
      refuses a pair whose collateral asset is not the lend's asset) this is the asset of the pledged cTokens:
      `C08.borrow_respects_ltv_pledged` (the message level statement: pledged denom = cToken of the pair's collateral asset, valued as
      that asset); regression example for the old witness below it.
* "… and the pool actually holds the lent-out coins" → `C08.borrow_requires_pool_funds`, `C08.draw_requires_pool_funds`.
* (depth) accrued interest and rewards — inputs of the identities above — are themselves computed by the model from the RATES in force
  (`Model/LendAccrual.lean`, compared bit for bit with the real records on every run); their bookkeeping loses nothing:
    → `C08.accrual_split` (one accrual: interest charged = reserve share + lenders' share, no coin moves, no total changes),
      `C08.accrual_zero_elapsed` (a second accrual in the same block is the identity), `C08.reward_tracker_conserved` (whole tokens
      paid + fraction carried = fraction before + reward accrued), `C08.reward_source` (a reward is taken from the accumulated lenders'
      share or from the reserve), `C08.repay_split`, `C08.closeBorrow_split` (every repayment = reserve share + lenders' share +
      principal + at most one token of dust).
* (depth) emergency controls fail closed → `C08.killswitch_rejects_lend_ops`, `C08.killswitch_rejects_borrow_ops`,
  `C08.guards_reject_new_positions`, `C08.guards_reject_borrow`, `C08.depreciation_rejects`, `C08.rejected_no_change`.
* "withdrawing or closing a lend position never releases collateral pledged to an open borrow"
    → `C08.withdraw_never_releases_pledged`, `C08.closeLend_never_releases_pledged`.
* (depth 2) "… collateral … that has NOT been handed over" over histories that go on after the hand-over — partial fills and the closing bid of the
  second-generation auction (`bid`, `auctionClose`: x/auctionsV2 bid.go lend branch + `MsgCloseDutchAuctionForBorrow`), where the liquidated borrow
  disappears and the lend position stays debited → the three identities above now range over such histories (`totalLend_eq`, `totalLend_eq_partial`,
  `totalBorrowed_eq`, `totalStable_eq` — the op type has the new ops), `C08.auctionClose_books`, `C08.auctionBid_books`; the close of a cross-pool borrow
  whose lend position was deleted at the hand-over can never succeed: `C08.auctionClose_needs_lend`, `C08.auctionClose_stuck_counterexample`.
  (A borrow that comes BACK exists only in the first generation — `CreteNewBorrow` — which is not modelled.)
* (depth 2) the state anchor `PoolAssetLBMapping.{LendIds, BorrowIds}`: every live lend / borrow is in exactly the list of its (pool, asset) / (out pool,
  out asset), no dangling id, lists ascending so that the binary-search removal is exact → `C08.ids_consistent`, `C08.id_lists_ascending`,
  `C08.delId_binary_search`, `C08.delId_needs_ascending`, `C08.lend_listed_exactly`, `C08.borrow_listed_exactly`, `C08.no_dangling_ids`.
* (depth 2) reserve book-keeping records vs the reserve module balance → `C08.reserve_ledger` (all histories without block-hook runs),
  `C08.reserve_halves_step`, `C08.reserve_halves_drift_counterexample`; the x/lend block hook breaks the ledger and kills itself:
  `C08.reserve_ledger_poolsweep_counterexample`, `C08.beginBlock_dead_after_deletion`, `C08.beginBlock_keeps_pending` (finding D36).
* (depth 2) the store migration 2 → 3 run in the middle of a history keeps all of the above → `C08.books_across_migration`,
  `C08.reserve_ledger_across_migration`, `C08.migration_switches_off`; it leaks flags between records: `C08.migration_leak_counterexample` (finding D37).
-/
namespace Comdex.C08
open Comdex Comdex.Lend

/-! ## Genesis and runs -/

theorem init_core (cfg : Cfg) (bank : Bank) (prices : List (Nat × Nat)) : CoreS cfg (init cfg bank prices) := by
  have hz : ∀ st ∈ initStats cfg, st.totalLend = 0 ∧ st.totalBorrowed = 0 ∧ st.totalStable = 0 := by
    intro st hst
    unfold initStats at hst
    obtain ⟨p, _, hp⟩ := List.mem_flatMap.mp hst
    obtain ⟨d, _, rfl⟩ := List.mem_map.mp hp
    exact ⟨rfl, rfl, rfl⟩
  refine { lu := List.Pairwise.nil, ll := (fun l hl => nomatch hl), bu := List.Pairwise.nil, bl := (fun b hb => nomatch hb),
           br := (fun b hb => nomatch hb), tbs := ?_ }
  intro sf st hst
  have := hz st hst
  cases sf <;> simp [projB, this, borrowedSum, sumBy, init]

theorem init_totalLend (cfg : Cfg) (bank : Bank) (prices : List (Nat × Nat)) : TotalLendEq (init cfg bank prices) := by
  intro st hst
  have hst' : st ∈ initStats cfg := hst
  unfold initStats at hst'
  obtain ⟨p, _, hp⟩ := List.mem_flatMap.mp hst'
  obtain ⟨d, _, rfl⟩ := List.mem_map.mp hp
  rfl

theorem apply_core {cfg : Cfg} {s : State} (op : Op) (c : CoreS cfg s) : CoreS cfg (apply cfg s op) := by
  unfold apply
  split
  · exact step_core (by assumption) c
  · exact c

theorem run_core {cfg : Cfg} (ops : List Op) {s : State} (c : CoreS cfg s) : CoreS cfg (run cfg s ops) := by
  induction ops generalizing s with
  | nil => exact c
  | cons op ops ih => exact ih (apply_core op c)

/-- every liquidation hand-over in the history is clean (see `HandoverClean`) -/
def CleanRun (cfg : Cfg) : State → List Op → Prop
  | _, [] => True
  | s, op :: ops => cleanStep s op ∧ CleanRun cfg (apply cfg s op) ops

def decCleanRun (cfg : Cfg) : (s : State) → (ops : List Op) → Decidable (CleanRun cfg s ops)
  | _, [] => isTrue trivial
  | s, op :: ops => @instDecidableAnd _ _ _ (decCleanRun cfg (apply cfg s op) ops)

instance (cfg : Cfg) (s : State) (ops : List Op) : Decidable (CleanRun cfg s ops) := decCleanRun cfg s ops

theorem run_totalLend {cfg : Cfg} (ops : List Op) {s : State} (c : CoreS cfg s) (t : TotalLendEq s) (hc : CleanRun cfg s ops) :
    TotalLendEq (run cfg s ops) := by
  induction ops generalizing s with
  | nil => exact t
  | cons op ops ih =>
    refine ih (apply_core op c) ?_ hc.2
    unfold apply
    split
    · exact step_tl (by assumption) c t hc.1
    · exact t

theorem cleanRun_of_noHandover (cfg : Cfg) (ops : List Op) (s : State) (h : ∀ op ∈ ops, op.isHandover = false) : CleanRun cfg s ops := by
  induction ops generalizing s with
  | nil => trivial
  | cons op ops ih =>
    refine ⟨?_, ih _ (fun o ho => h o (by simp [ho]))⟩
    have := h op (by simp)
    cases op <;> first | trivial | cases this

/-! ## The book identities -/

/-- **Total lent** — for every configuration, genesis bank, prices, and every history of user messages (any external reward and
interest amounts): every published total lent equals the sum over the lend positions of that pool and asset of
`availableToBorrow + Σ collateral pledged to their borrows that are not handed over to a liquidation auction`. -/
theorem totalLend_eq (cfg : Cfg) (bank : Bank) (prices : List (Nat × Nat)) (ops : List Op) (h : ∀ op ∈ ops, op.isHandover = false) :
    TotalLendEq (run cfg (init cfg bank prices) ops) :=
  run_totalLend ops (init_core cfg bank prices) (init_totalLend cfg bank prices) (cleanRun_of_noHandover cfg ops _ h)

/-- **Total lent, with liquidation hand-overs** — strongest true form: the identity survives every history in which each hand-over
either leaves the lend position in place or takes everything that was left in it. -/
theorem totalLend_eq_partial (cfg : Cfg) (bank : Bank) (prices : List (Nat × Nat)) (ops : List Op)
    (h : CleanRun cfg (init cfg bank prices) ops) : TotalLendEq (run cfg (init cfg bank prices) ops) :=
  run_totalLend ops (init_core cfg bank prices) (init_totalLend cfg bank prices) h

/-- **Total borrowed (variable rate)** — all histories, hand-overs included. -/
theorem totalBorrowed_eq (cfg : Cfg) (bank : Bank) (prices : List (Nat × Nat)) (ops : List Op) :
    TotalBorrowedEq cfg (run cfg (init cfg bank prices) ops) :=
  fun st hst => (run_core ops (init_core cfg bank prices)).tbs false st hst

/-- **Total borrowed (stable rate)** — all histories, hand-overs included. -/
theorem totalStable_eq (cfg : Cfg) (bank : Bank) (prices : List (Nat × Nat)) (ops : List Op) :
    TotalStableEq cfg (run cfg (init cfg bank prices) ops) :=
  fun st hst => (run_core ops (init_core cfg bank prices)).tbs true st hst

/-! ## Loan-to-value -/

/-- the LTV the handlers apply on a pair: the e-mode LTV of the pair's collateral asset when the pair is in e-mode -/
def ltvOf (pair : PairCfg) (rates : RatesCfg) : Dec := if pair.eMode then rates.eLtv else rates.ltv

/-- **A new borrow respects the LTV** (decision form). Whenever `BorrowAsset` opens a borrow, the ratio the chain computes,
`Quo(value(loan), value(collateral))` at the oracle prices in force, is at most the applicable LTV. The collateral `aIn` is valued
as the asset of the lend position `l` that is debited. -/
theorem borrow_respects_ltv {cfg : Cfg} {s s' : State} {u : Nat} {l : Lend} {pair : PairCfg} {rates : RatesCfg} {stable : Bool}
    {dIn : Nat} {aIn : Int} {dOut : Nat} {aOut : Int} (h : borrowNew cfg s u l pair rates stable dIn aIn dOut aOut = .ok s') :
    ∃ r, collRatio cfg s.prices aIn l.asset aOut pair.assetOut = .ok r ∧ r ≤ ltvOf pair rates := by
  unfold borrowNew at h
  invert h
  all_goals exact verifyCR_ok ‹verifyCR cfg s.prices aIn l.asset aOut pair.assetOut _ = .ok _›

/-- The borrow message: either a new borrow is opened (`borrow_respects_ltv` applies), or the user already borrows on the pair and
the message is a collateral top-up followed by a draw on that borrow (`draw_respects_ltv` applies to the whole position). -/
theorem borrow_msg_cases {cfg : Cfg} {s s' : State} {u k pid : Nat} {stable : Bool} {dIn : Nat} {aIn : Int} {dOut : Nat} {aOut : Int} {e1 e2 : ExtB}
    (h : borrow cfg s u k pid stable dIn aIn dOut aOut e1 e2 = .ok s') :
    (∃ l pair rates, getLend s.lends k = some l ∧ cfg.pair? pid = some pair ∧ cfg.rates? pair.assetIn = some rates ∧
        dIn = rates.cAsset ∧ pair.assetIn = l.asset ∧
        findBorrowByPair s u pid = none ∧ borrowNew cfg s u l pair rates stable dIn aIn dOut aOut = .ok s') ∨
    (∃ b s1, findBorrowByPair s u pid = some b ∧ depositBorrow cfg s u b.id dIn aIn e1 = .ok s1 ∧ draw cfg s1 u b.id dOut aOut e2 = .ok s') := by
  unfold borrow at h
  invert h
  · exact Or.inr ⟨_, _, ‹_›, ‹_›, ‹_›⟩
  · exact Or.inl ⟨_, _, _, ‹getLend s.lends k = some _›, ‹cfg.pair? pid = some _›, ‹cfg.rates? _ = some _›,
      by simpa using ‹(dIn == _) = true›, by simpa using ‹(PairCfg.assetIn _ == _) = true›, ‹_›, ‹_›⟩

/-- **A draw respects the LTV** (decision form): principal + accrued interest (after the accrual the message itself performs) + the
new loan, against the whole pledged collateral. -/
theorem draw_respects_ltv {cfg : Cfg} {s s' : State} {u k d : Nat} {y : Int} {ext : ExtB} (h : draw cfg s u k d y ext = .ok s') :
    ∃ b0 l pair rates s1 b r, getBorrow s.borrows k = some b0 ∧ getLend s.lends b0.lendingId = some l ∧ cfg.pair? b0.pairId = some pair ∧
      cfg.rates? pair.assetIn = some rates ∧ iterBorrow s k ext = .ok s1 ∧ getBorrow s1.borrows k = some b ∧
      collRatio cfg s1.prices b.amountIn l.asset (b.amountOut + Dec.truncateInt b.interest + y) pair.assetOut = .ok r ∧ r ≤ ltvOf pair rates := by
  unfold draw at h
  invert h
  have hit := ‹iterBorrow s k ext = .ok _›
  have hb1 := after_iterBorrow hit (by assumption)
  obtain ⟨r, hr, hle⟩ := verifyCR_ok ‹verifyCR cfg _ _ _ _ _ _ = .ok _›
  exact ⟨_, _, _, _, _, _, r, ‹getBorrow s.borrows k = some _›, ‹getLend s.lends _ = some _›, ‹cfg.pair? _ = some _›, ‹cfg.rates? _ = some _›,
    hit, hb1, hr, hle⟩

/-- **Exact form of the accept decision** — for two configured assets at the prices in force, non-negative amounts and `ltv ≥ 0`:
`ratio ≤ ltv` (what `VerifyCollateralizationRatio` accepts) implies `ExactLtv` — the inequality between the exact products
`debt·p_out`, `coll·p_in`, the decimal scales and the LTV with half an ulp of slack for each of the three roundings — and, when the
decimal scales divide `10^18` (every `10^k`, `k ≤ 18`), `ExactLtvScales`: only the final quotient rounds. -/
theorem ltv_exact {cfg : Cfg} {prices : List (Nat × Nat)} {aIn : Int} {assetIn : Nat} {aOut : Int} {assetOut : Nat} {r ltv : Dec}
    (h : collRatio cfg prices aIn assetIn aOut assetOut = .ok r) (hle : r ≤ ltv) (hc : 0 ≤ aIn) (hd : 0 ≤ aOut) (hl : 0 ≤ ltv) :
    ∃ ai pin ao pout, cfg.asset? assetIn = some ai ∧ prices.lookup assetIn = some pin ∧ cfg.asset? assetOut = some ao ∧
      prices.lookup assetOut = some pout ∧
      (0 < ai.decimals → 0 < ao.decimals → ExactLtv ltv aIn (pin : Int) ai.decimals aOut (pout : Int) ao.decimals) ∧
      (0 < ai.decimals → 0 < ao.decimals → ai.decimals ∣ Dec.P → ao.decimals ∣ Dec.P →
        ExactLtvScales ltv aIn (pin : Int) ai.decimals aOut (pout : Int) ao.decimals) :=
  collRatio_exact h hle hc hd hl

/-- an accepted new borrow: exact inequality between loan value and collateral value × LTV -/
theorem borrow_accepted_ltv_exact {cfg : Cfg} {s s' : State} {u : Nat} {l : Lend} {pair : PairCfg} {rates : RatesCfg} {stable : Bool}
    {dIn : Nat} {aIn : Int} {dOut : Nat} {aOut : Int} (h : borrowNew cfg s u l pair rates stable dIn aIn dOut aOut = .ok s')
    (hc : 0 ≤ aIn) (hd : 0 ≤ aOut) (hl : 0 ≤ ltvOf pair rates) :
    ∃ ai pin ao pout, cfg.asset? l.asset = some ai ∧ s.prices.lookup l.asset = some pin ∧ cfg.asset? pair.assetOut = some ao ∧
      s.prices.lookup pair.assetOut = some pout ∧
      (0 < ai.decimals → 0 < ao.decimals → ExactLtv (ltvOf pair rates) aIn (pin : Int) ai.decimals aOut (pout : Int) ao.decimals) ∧
      (0 < ai.decimals → 0 < ao.decimals → ai.decimals ∣ Dec.P → ao.decimals ∣ Dec.P →
        ExactLtvScales (ltvOf pair rates) aIn (pin : Int) ai.decimals aOut (pout : Int) ao.decimals) := by
  obtain ⟨r, hr, hle⟩ := borrow_respects_ltv h
  exact ltv_exact hr hle hc hd hl

/-- an accepted draw: exact inequality for debt = principal + accrued interest (after the accrual of the message) + the draw -/
theorem draw_accepted_ltv_exact {cfg : Cfg} {s s' : State} {u k d : Nat} {y : Int} {ext : ExtB} (h : draw cfg s u k d y ext = .ok s') :
    ∃ b0 l pair rates s1 b, getBorrow s.borrows k = some b0 ∧ getLend s.lends b0.lendingId = some l ∧ cfg.pair? b0.pairId = some pair ∧
      cfg.rates? pair.assetIn = some rates ∧ iterBorrow s k ext = .ok s1 ∧ getBorrow s1.borrows k = some b ∧
      (0 ≤ b.amountIn → 0 ≤ b.amountOut + Dec.truncateInt b.interest + y → 0 ≤ ltvOf pair rates →
        ∃ ai pin ao pout, cfg.asset? l.asset = some ai ∧ s.prices.lookup l.asset = some pin ∧ cfg.asset? pair.assetOut = some ao ∧
          s.prices.lookup pair.assetOut = some pout ∧
          (0 < ai.decimals → 0 < ao.decimals →
            ExactLtv (ltvOf pair rates) b.amountIn (pin : Int) ai.decimals (b.amountOut + Dec.truncateInt b.interest + y) (pout : Int) ao.decimals)) := by
  obtain ⟨b0, l, pair, rates, s1, b, r, h1, h2, h3, h4, h5, h6, hr, hle⟩ := draw_respects_ltv h
  refine ⟨b0, l, pair, rates, s1, b, h1, h2, h3, h4, h5, h6, fun hc hd hl => ?_⟩
  rw [(iterBorrow_frame h5).2.1] at hr
  obtain ⟨ai, pin, ao, pout, e1, e2, e3, e4, hx, _⟩ := ltv_exact hr hle hc hd hl
  exact ⟨ai, pin, ao, pout, e1, e2, e3, e4, hx⟩

/-- `cfgT`: two assets with 18 decimals, price 10⁶ each; LTV 0.5 -/
def cfgT : Cfg := { assets := [⟨1, 1000000000000000000⟩, ⟨2, 1000000000000000000⟩] }
def pricesT : List (Nat × Nat) := [(1, 1000000), (2, 1000000)]

/-- **The slack is real**: collateral 4·10¹⁸ units, debt 2·10¹⁸ + 1 units, same price and scale: the check accepts at LTV 0.5
(`Quo` rounds 0.500000000000000000 25 half-even down), the exact ratio is above 0.5, and `ExactLtvScales` holds. -/
theorem ltv_exact_tight :
    (verifyCR cfgT pricesT 4000000000000000000 1 2000000000000000001 2 500000000000000000).toBool = true ∧
    (2000000000000000001 : Int) * 1000000 * 1000000000000000000 * Dec.P > 500000000000000000 * (4000000000000000000 * 1000000 * 1000000000000000000) ∧
    ExactLtvScales 500000000000000000 4000000000000000000 1000000 1000000000000000000 2000000000000000001 1000000 1000000000000000000 := by
  decide

/-- **Cross-pool borrow**: besides the check on the pledged collateral, the bridged quantity `q` of the transit asset — the amount
recorded in the new borrow (`openBorrow … q …`) and moved to the lending-out pool — must itself cover the loan at the transit
asset's LTV. -/
theorem interpool_borrow_respects_transit_ltv {cfg : Cfg} {s s' : State} {u : Nat} {l : Lend} {pair : PairCfg} {rates : RatesCfg} {stable : Bool}
    {dIn : Nat} {aIn : Int} {dOut : Nat} {aOut : Int} (h : borrowNew cfg s u l pair rates stable dIn aIn dOut aOut = .ok s')
    (hi : pair.inter = true) :
    ∃ q transit rt r, cfg.rates? transit = some rt ∧ collRatio cfg s.prices q transit aOut pair.assetOut = .ok r ∧ r ≤ rt.ltv ∧
      ∃ brd bank', s' = openBorrow s l pair stable dIn aIn dOut aOut brd q bank' := by
  unfold borrowNew at h
  invert h
  all_goals first
    | exact absurd ‹(!pair.inter) = true› (by simp [hi])
    | (obtain ⟨r, hr, hle⟩ := verifyCR_ok ‹verifyCR cfg s.prices (Dec.truncateInt _) _ aOut pair.assetOut _ = .ok _›
       exact ⟨_, _, _, r, by assumption, hr, hle, _, _, rfl⟩)

/-- **Cross-pool borrow, exact form**: the bridged quantity `q` recorded in the borrow satisfies the exact LTV inequality of the
transit asset against the loan, and `q` itself is bounded through the three roundings that produce it from the pledged amount
(`tin = ⌊aIn·ltv⌋`, its `Dec` value `v`, `q = ⌊Quo(v, unit)⌋` with `unit` the `Dec` value of one unit of the transit asset). -/
theorem interpool_borrow_ltv_exact {cfg : Cfg} {s s' : State} {u : Nat} {l : Lend} {pair : PairCfg} {rates : RatesCfg} {stable : Bool}
    {dIn : Nat} {aIn : Int} {dOut : Nat} {aOut : Int} (h : borrowNew cfg s u l pair rates stable dIn aIn dOut aOut = .ok s')
    (hi : pair.inter = true) (hc : 0 ≤ aIn) (hd : 0 ≤ aOut) (hl : 0 ≤ ltvOf pair rates) :
    ∃ v unit transit rt brd bank' al pl,
      cfg.rates? transit = some rt ∧ cfg.asset? l.asset = some al ∧ s.prices.lookup l.asset = some pl ∧
      s' = openBorrow s l pair stable dIn aIn dOut aOut brd (Dec.truncateInt (Dec.quo v unit)) bank' ∧
      (0 < al.decimals → 0 < unit →
        let tin := Dec.truncateInt (Dec.mul (Dec.ofInt aIn) (ltvOf pair rates))
        let q := Dec.truncateInt (Dec.quo v unit)
        tin * Dec.P ≤ aIn * ltvOf pair rates ∧ 2 * al.decimals * Dec.P * v ≤ 2 * (tin * (pl : Int) * Dec.P * Dec.P) + al.decimals * Dec.P ∧
          0 ≤ q ∧ 2 * unit * Dec.P * q ≤ 2 * Dec.P * v + unit ∧
          (0 ≤ rt.ltv → ∃ atr pt ao pout, cfg.asset? transit = some atr ∧ s.prices.lookup transit = some pt ∧
            cfg.asset? pair.assetOut = some ao ∧ s.prices.lookup pair.assetOut = some pout ∧
            (0 < atr.decimals → 0 < ao.decimals → ExactLtv rt.ltv q (pt : Int) atr.decimals aOut (pout : Int) ao.decimals))) := by
  obtain ⟨v, unit, transit, rt, r, brd, bank', hv, _, _, hrt, hr, hle, hs'⟩ := borrowNew_inter_shape h hi
  obtain ⟨al, pl, hal, hpl, _, hveq⟩ := calcPrice_eq hv
  refine ⟨v, unit, transit, rt, brd, bank', al, pl, hrt, hal, hpl, hs', fun hdl hu => ?_⟩
  intro tin q
  obtain ⟨_, h1, _, h2, h3, h4⟩ := bridged_chain aIn (ltvOf pair rates) pl al.decimals unit hc hl hdl hu
  have h2' : 2 * al.decimals * Dec.P * v ≤ 2 * (tin * (pl : Int) * Dec.P * Dec.P) + al.decimals * Dec.P := by rw [hveq]; exact h2
  have h3' : 0 ≤ q := by show 0 ≤ Dec.truncateInt (Dec.quo v unit); rw [hveq]; exact h3
  have h4' : 2 * unit * Dec.P * q ≤ 2 * Dec.P * v + unit := by
    show 2 * unit * Dec.P * Dec.truncateInt (Dec.quo v unit) ≤ _; rw [hveq]; exact h4
  refine ⟨h1, h2', h3', h4', fun hlt => ?_⟩
  obtain ⟨at', pt, ao, pout, e1, e2, e3, e4, hx, _⟩ := ltv_exact hr hle h3' hd hlt
  exact ⟨at', pt, ao, pout, e1, e2, e3, e4, hx⟩

/-- **A new borrow respects the LTV on the tokens actually pledged**: when a borrow message opens a borrow, the pledged denomination
is the cToken of the pair's collateral asset, that asset is the asset of the debited lend position, and the ratio of the loan value to
the value of the pledged amount (valued as that asset, at the prices in force) is at most the applicable LTV. -/
theorem borrow_respects_ltv_pledged {cfg : Cfg} {s s' : State} {u k pid : Nat} {stable : Bool} {dIn : Nat} {aIn : Int} {dOut : Nat} {aOut : Int}
    {e1 e2 : ExtB} (h : borrow cfg s u k pid stable dIn aIn dOut aOut e1 e2 = .ok s') (hnew : findBorrowByPair s u pid = none) :
    ∃ l pair rates r, getLend s.lends k = some l ∧ cfg.pair? pid = some pair ∧ cfg.rates? pair.assetIn = some rates ∧
      dIn = rates.cAsset ∧ l.asset = pair.assetIn ∧
      collRatio cfg s.prices aIn pair.assetIn aOut pair.assetOut = .ok r ∧ r ≤ ltvOf pair rates := by
  rcases borrow_msg_cases h with ⟨l, pair, rates, hl, hp, hr, hd, hsame, _, hb⟩ | ⟨b, _, hb, _⟩
  · obtain ⟨r, hr', hle⟩ := borrow_respects_ltv hb
    exact ⟨l, pair, rates, r, hl, hp, hr, hd, hsame.symm, by rw [hsame]; exact hr', hle⟩
  · rw [hnew] at hb; cases hb

/-! ### regression: a pair registered for another asset of the pool (repaired defect A of notes/C08.md) -/

/-- assets 1 (X, price 2), 2 (Y, price 1), 3 (Z, price 1), cTokens 4, 5, 6; one pool holding all three; pair 1 = (Y → Z). -/
def cfgF : Cfg :=
  { assets := [⟨1, 1⟩, ⟨2, 1⟩, ⟨3, 1⟩, ⟨4, 1⟩, ⟨5, 1⟩, ⟨6, 1⟩],
    rates := [⟨1, 700000000000000000, 0, 4, false, false, 0, 0⟩, ⟨2, 500000000000000000, 0, 5, false, false, 0, 0⟩, ⟨3, 800000000000000000, 0, 6, false, false, 0, 0⟩],
    pools := [⟨1, 101, [⟨1, 3, 1000000000000000000000000000000000000⟩, ⟨2, 1, 1000000000000000000000000000000000000⟩, ⟨3, 2, 1000000000000000000000000000000000000⟩]⟩],
    pairs := [⟨1, 2, 3, false, 1, false⟩],
    a2p := [⟨2, 1, [1]⟩],
    apps := [(1, true)] }
def bankF : Bank := [((1, 1), 1000), ((1, 2), 1000), ((101, 3), 1000)]
def pricesF : List (Nat × Nat) := [(1, 2000000), (2, 1000000), (3, 1000000)]
/-- user 1 lends 100 X (lend 1) and 100 Y (lend 2) -/
def stateF : State := run cfgF (init cfgF bankF pricesF) [.lend 1 1 1 100 1 1 0, .lend 1 2 2 100 1 1 0]
/-- … and tries to borrow 90 Z on the X lend through the (Y → Z) pair, pledging 100 cY: before the repair this was accepted although
100 cY (= 100) at LTV 0.5 do not cover 90 (the pledge was valued as 100 X = 200) -/
def opF : Op := .borrow 1 1 1 false 5 100 3 90 .err .err

/-- the foreign-pair borrow is refused; on the Y lend the same pair lends up to the LTV (50) and not one unit more -/
example : (step cfgF stateF opF).toBool = false ∧
    (step cfgF stateF (.borrow 1 2 1 false 5 100 3 50 .err .err)).toBool = true ∧
    (step cfgF stateF (.borrow 1 2 1 false 5 100 3 51 .err .err)).toBool = false := by decide

/-! ## Pool funds -/

/-- **A new borrow is paid out of coins the lending-out pool holds**: the loan is at most the pool's balance of the loan denomination
at that moment. -/
theorem borrow_requires_pool_funds {cfg : Cfg} {s s' : State} {u : Nat} {l : Lend} {pair : PairCfg} {rates : RatesCfg} {stable : Bool}
    {dIn : Nat} {aIn : Int} {dOut : Nat} {aOut : Int} (h : borrowNew cfg s u l pair rates stable dIn aIn dOut aOut = .ok s') :
    ∃ outPool, cfg.pool? pair.outPool = some outPool ∧ aOut ≤ s.bank.get outPool.acct dOut := by
  unfold borrowNew at h
  invert h
  all_goals exact ⟨_, ‹cfg.pool? pair.outPool = some _›, decide_not_gt ‹decide (¬ aOut > _) = true›⟩

/-- **A draw is paid out of coins the pool holds** (the interest accrual that precedes the check does not touch the bank). -/
theorem draw_requires_pool_funds {cfg : Cfg} {s s' : State} {u k d : Nat} {y : Int} {ext : ExtB} (h : draw cfg s u k d y ext = .ok s') :
    ∃ b0 pair pool, getBorrow s.borrows k = some b0 ∧ cfg.pair? b0.pairId = some pair ∧ cfg.pool? pair.outPool = some pool ∧
      y ≤ s.bank.get pool.acct pair.assetOut := by
  unfold draw at h
  invert h
  have hf := (iterBorrow_frame ‹iterBorrow s k ext = .ok _›).1
  have := decide_not_gt ‹decide (¬ y > _) = true›
  rw [hf] at this
  exact ⟨_, _, _, ‹getBorrow s.borrows k = some _›, ‹cfg.pair? _ = some _›, ‹cfg.pool? _ = some _›, this⟩

/-! ## Pledged collateral stays -/

/-- **Closing a lend position releases exactly its availability and only when nothing is borrowed against it**; no borrow record
changes. (`l` is the position after the reward accrual the message itself performs.) -/
theorem closeLend_never_releases_pledged {cfg : Cfg} {s s' : State} {u k : Nat} {r : Int} (h : closeLend cfg s u k r = .ok s') :
    s'.borrows = s.borrows ∧ (∀ b ∈ s.borrows, b.lendingId ≠ k) ∧ getLend s'.lends k = none ∧
      ∃ s1 l, iterLends cfg s k r = .ok s1 ∧ getLend s1.lends k = some l ∧
        s'.stats = delLendId (addTotalLend s1.stats l.pool l.asset (-l.avail)) l.pool l.asset k := by
  unfold closeLend at h
  invert h
  have hb := iterLends_borrows ‹iterLends cfg s k r = .ok _›
  refine ⟨hb, ?_, getLend_delLend _ k, _, _, ‹iterLends cfg s k r = .ok _›, ‹getLend _ k = some _›, rfl⟩
  rw [← hb]
  exact borrowsOfLend_empty ‹_›

/-- **A withdrawal never exceeds `availableToBorrow`** (after the reward accrual), leaves every borrow record — hence every pledge —
untouched, and leaves a non-negative availability; or it is the close-lend shortcut. -/
theorem withdraw_never_releases_pledged {cfg : Cfg} {s s' : State} {u k d : Nat} {w r : Int} (h : withdraw cfg s u k d w r = .ok s') :
    s'.borrows = s.borrows ∧ (∀ j, pledgedOf s'.borrows j = pledgedOf s.borrows j) ∧
      (closeLend cfg s u k r = .ok s' ∨
       ∃ s1 l l', iterLends cfg s k r = .ok s1 ∧ getLend s1.lends k = some l ∧ w ≤ l.avail ∧
         getLend s'.lends k = some l' ∧ l'.avail = l.avail - w ∧ 0 ≤ l'.avail) := by
  have key : s'.borrows = s.borrows → s'.borrows = s.borrows ∧ (∀ j, pledgedOf s'.borrows j = pledgedOf s.borrows j) :=
    fun e => ⟨e, fun j => by rw [e]⟩
  unfold withdraw at h
  invert h
  · have := (closeLend_never_releases_pledged ‹closeLend cfg s u k r = .ok s'›).1
    exact ⟨(key this).1, (key this).2, Or.inl ‹_›⟩
  · have hb := iterLends_borrows ‹iterLends cfg s k r = .ok _›
    have hg := ‹getLend _ k = some _›
    have hw := decide_not_gt ‹decide (¬ w > Lend.avail _) = true›
    have hk := (getLend_mem hg).2
    have hit := ‹iterLends cfg s _ r = .ok _›
    subst hk
    refine ⟨(key hb).1, (key hb).2, Or.inr ⟨_, _, _, hit, hg, hw, getLend_setLend (getLend_id hg) ?_, ?_, ?_⟩⟩
    · split <;> rfl
    · split <;> rfl
    · split <;> simp <;> omega

/-! ## Witness: liquidation hand-over (defect B of notes/C08.md) -/

/-- assets 1 (A), 2 (B), both price 1; cTokens 3, 4; one pool; pair 1 = (A → B). -/
def cfgH : Cfg :=
  { assets := [⟨1, 1⟩, ⟨2, 1⟩, ⟨3, 1⟩, ⟨4, 1⟩],
    rates := [⟨1, 500000000000000000, 0, 3, false, false, 0, 0⟩, ⟨2, 500000000000000000, 0, 4, false, false, 0, 0⟩],
    pools := [⟨1, 101, [⟨1, 1, 1000000000000000000000000000000000000⟩, ⟨2, 2, 1000000000000000000000000000000000000⟩]⟩],
    pairs := [⟨1, 1, 2, false, 1, false⟩],
    a2p := [⟨1, 1, [1]⟩],
    apps := [(1, true)] }
def bankH : Bank := [((1, 1), 1000), ((101, 2), 1000), ((99, 1), 10)]
def pricesH : List (Nat × Nat) := [(1, 1000000), (2, 1000000)]
/-- lend 100 A; a reward of 5 is credited (availableToBorrow 105, AmountIn 100, total lent 105); the whole principal (100 cA) is
pledged for a loan of 10 B; the borrow is handed over to the liquidation auction. -/
def opsH : List Op :=
  [.lend 1 1 1 100 1 1 0, .calcAll 1 [] [(1, 5)], .borrow 1 1 1 false 3 100 2 10 .err .err, .handover 1 0]

/-- every message of the list is accepted when replayed from `s` -/
def allAccepted (cfg : Cfg) : State → List Op → Bool
  | _, [] => true
  | s, op :: ops => (step cfg s op).toBool && allAccepted cfg (apply cfg s op) ops

/-- **Counterexample (hand-over)**: every step is accepted; afterwards the pool publishes a total lent of 5 for asset A while no lend
position is left: `UpdateLockedBorrows` (x/liquidationsV2/keeper/liquidate.go:392-401) subtracts the pledge from `AmountIn`, which
counts principal only, and deletes the position as soon as that is ≤ 0 — here with `availableToBorrow = 5` still in it. -/
theorem totalLend_handover_counterexample :
    allAccepted cfgH (init cfgH bankH pricesH) opsH = true ∧
    (run cfgH (init cfgH bankH pricesH) opsH).lends = [] ∧
    ((run cfgH (init cfgH bankH pricesH) opsH).stats.map fun st => (st.pool, st.asset, st.totalLend)) = [(1, 1, 5), (1, 2, 0)] ∧
    ¬ TotalLendEq (run cfgH (init cfgH bankH pricesH) opsH) ∧
    ¬ CleanRun cfgH (init cfgH bankH pricesH) opsH := by decide

/-! ## Non-vacuity: the hypotheses of every theorem above are met by concrete non-trivial runs -/

/-- `totalLend_eq`: a hand-over-free history with two lends and an open borrow -/
example : (∀ op ∈ [Op.lend 1 1 1 100 1 1 0, .lend 1 2 2 100 1 1 0, .borrow 1 2 1 false 5 100 3 50 .err .err], op.isHandover = false) ∧
    (run cfgF (init cfgF bankF pricesF) [.lend 1 1 1 100 1 1 0, .lend 1 2 2 100 1 1 0, .borrow 1 2 1 false 5 100 3 50 .err .err]).borrows.length = 1 := by
  decide

/-- `totalLend_eq_partial`: a history with a clean hand-over (60 of 100 pledged, the position survives with 40) -/
example : CleanRun cfgH (init cfgH bankH pricesH) [.lend 1 1 1 100 1 1 0, .borrow 1 1 1 false 3 60 2 10 .err .err, .handover 1 0] ∧
    allAccepted cfgH (init cfgH bankH pricesH) [.lend 1 1 1 100 1 1 0, .borrow 1 1 1 false 3 60 2 10 .err .err, .handover 1 0] = true ∧
    (run cfgH (init cfgH bankH pricesH) [.lend 1 1 1 100 1 1 0, .borrow 1 1 1 false 3 60 2 10 .err .err, .handover 1 0]).lends.length = 1 := by
  decide

/-- the state after `lend 100 A; borrow 10 B against 60 cA` -/
def stateE : State := run cfgH (init cfgH bankH pricesH) [.lend 1 1 1 100 1 1 0, .borrow 1 1 1 false 3 60 2 10 .err .err]

/-- `borrow_respects_ltv`, `borrow_requires_pool_funds`, `borrow_respects_ltv_pledged`: an accepted new borrow on a regular pair -/
example : (borrowNew cfgH (run cfgH (init cfgH bankH pricesH) [.lend 1 1 1 100 1 1 0]) 1 ⟨1, 1, 1, 1, 100, 100, 1⟩ ⟨1, 1, 2, false, 1, false⟩
    ⟨1, 500000000000000000, 0, 3, false, false, 0, 0⟩ false 3 60 2 10).toBool = true ∧ (⟨1, 1, 2, false, 1, false⟩ : PairCfg).assetIn = (⟨1, 1, 1, 1, 100, 100, 1⟩ : Lend).asset := by
  decide

/-- `draw_respects_ltv`, `draw_requires_pool_funds`: an accepted draw with accrued interest (external increments 2.5 and 0.5) -/
example : (draw cfgH stateE 1 1 2 15 (.val 2500000000000000000 500000000000000000)).toBool = true := by decide

/-- … and the draw one unit above the LTV limit (60·0.5 = 30 = 10 + 2 + 18) is refused -/
example : (draw cfgH stateE 1 1 2 18 (.val 2500000000000000000 500000000000000000)).toBool = true ∧
    (draw cfgH stateE 1 1 2 19 (.val 2500000000000000000 500000000000000000)).toBool = false := by decide

/-- `withdraw_never_releases_pledged`: 40 of 100 are available; 40 can be withdrawn, 41 cannot -/
example : (withdraw cfgH stateE 1 1 1 40 0).toBool = true ∧ (withdraw cfgH stateE 1 1 1 41 0).toBool = false := by decide

/-- `closeLend_never_releases_pledged`: refused while a borrow is open, accepted on a fresh position -/
example : (closeLend cfgH stateE 1 1 0).toBool = false ∧
    (closeLend cfgH (run cfgH (init cfgH bankH pricesH) [.lend 1 1 1 100 1 1 0]) 1 1 0).toBool = true := by decide

/-! ## Where the interest goes: every repayment is split without loss -/

/-- how a partial repayment `p` on borrow `b` (as it stands after the accrual of the message) is booked: `bs'` is the borrow store afterwards -/
def RepaySplit (b : Borrow) (p : Int) (bs bs' : List Borrow) : Prop :=
  ∃ toReserve toLenders cut dust,
    p = toReserve + toLenders + cut + dust ∧
    (0 ≤ b.reserveInt → b.reserveInt ≤ b.interest → 0 ≤ dust ∧ dust ≤ 1) ∧
    bs' = setBorrow bs { b with amountOut := b.amountOut - cut,
                                interest := b.interest - Dec.ofInt (toReserve + toLenders + dust),
                                reserveInt := b.reserveInt - Dec.ofInt toReserve }

theorem repaySplit_reserve (b : Borrow) (p : Int) (bs : List Borrow) :
    RepaySplit b p bs (setBorrow bs { b with reserveInt := b.reserveInt - Dec.ofInt p, interest := b.interest - Dec.ofInt p }) :=
  ⟨p, 0, 0, 0, by omega, fun _ _ => ⟨by omega, by omega⟩, by simp⟩

theorem repaySplit_interest (b : Borrow) (p : Int) (bs : List Borrow) :
    RepaySplit b p bs (setBorrow bs { b with reserveInt := b.reserveInt - Dec.ofInt (Dec.truncateInt b.reserveInt),
                                             interest := b.interest - Dec.ofInt p }) := by
  refine ⟨Dec.truncateInt b.reserveInt, p - Dec.truncateInt b.reserveInt, 0, 0, by omega, fun _ _ => ⟨by omega, by omega⟩, ?_⟩
  have : Dec.truncateInt b.reserveInt + (p - Dec.truncateInt b.reserveInt) + 0 = p := by omega
  simp [this]

theorem repaySplit_principal (b : Borrow) (p : Int) (bs : List Borrow) :
    RepaySplit b p bs (setBorrow bs { b with reserveInt := b.reserveInt - Dec.ofInt (Dec.truncateInt b.reserveInt),
                                             amountOut := b.amountOut - (p - Dec.truncateInt b.interest),
                                             interest := b.interest - Dec.ofInt (Dec.truncateInt b.interest) }) := by
  refine ⟨Dec.truncateInt b.reserveInt, Dec.truncateInt (b.interest - b.reserveInt), p - Dec.truncateInt b.interest,
    Dec.truncateInt b.interest - Dec.truncateInt b.reserveInt - Dec.truncateInt (b.interest - b.reserveInt), by omega, ?_, ?_⟩
  · intro h0 hle
    obtain ⟨dust, d0, d1, e⟩ := interest_split b.interest b.reserveInt h0 hle
    omega
  · have : Dec.truncateInt b.reserveInt + Dec.truncateInt (b.interest - b.reserveInt) +
        (Dec.truncateInt b.interest - Dec.truncateInt b.reserveInt - Dec.truncateInt (b.interest - b.reserveInt)) = Dec.truncateInt b.interest := by omega
    simp [this]

/-- **Repayment split** — an accepted partial repayment `p` (not the close shortcut) is split into a reserve share, a lender share
(minted as cTokens into `totalInterestAccumulated`), a principal cut and at most one token of dust:
`p = toReserve + toLenders + cut + dust`; the borrow's principal falls by `cut`, its accrued interest by exactly the whole tokens
`toReserve + toLenders + dust`, its reserve tracker by `toReserve`; with `0 ≤ reserveShare ≤ interest` the dust is 0 or 1 token (it is the
`⌊a⌋ − ⌊b⌋ − ⌊a−b⌋` of the two truncations and stays in the pool). -/
theorem repay_split {cfg : Cfg} {s s' : State} {u k d : Nat} {p : Int} {ext : ExtB} (h : repay cfg s u k d p ext = .ok s') :
    closeBorrow cfg s u k ext = .ok s' ∨
    ∃ s1 b, iterBorrow s k ext = .ok s1 ∧ getBorrow s1.borrows k = some b ∧ RepaySplit b p s1.borrows s'.borrows := by
  unfold repay at h
  invert h
  · exact Or.inl ‹_›
  all_goals
    refine Or.inr ?_
    have hit := ‹iterBorrow s k ext = .ok _›
    have hb1 := after_iterBorrow hit (by assumption)
    first
    | exact ⟨_, _, hit, hb1, repaySplit_reserve _ _ _⟩
    | exact ⟨_, _, hit, hb1, repaySplit_interest _ _ _⟩
    | exact ⟨_, _, hit, hb1, repaySplit_principal _ _ _⟩

/-- **Closing a borrow**: the borrower pays principal + whole tokens of interest; of the interest the whole tokens of the reserve share
go to the reserve, the whole tokens of the rest are minted as cTokens and booked on `totalInterestAccumulated` (the lenders' share),
at most one token of dust stays in the pool: `⌊interest⌋ = ⌊reserve⌋ + ⌊interest − reserve⌋ + dust`, `dust ∈ {0, 1}`. -/
theorem closeBorrow_split {cfg : Cfg} {s s' : State} {u k : Nat} {ext : ExtB} (h : closeBorrow cfg s u k ext = .ok s') :
    ∃ s1 b pair, iterBorrow s k ext = .ok s1 ∧ getBorrow s1.borrows k = some b ∧ cfg.pair? b.pairId = some pair ∧
      s'.stats = delBorrowId (addBorrowed (if Dec.truncateInt (b.interest - b.reserveInt) > 0
                              then addTotalInterest s1.stats pair.outPool pair.assetOut (Dec.truncateInt (b.interest - b.reserveInt))
                              else s1.stats) pair.outPool pair.assetOut b.stable (-b.amountOut)) pair.outPool pair.assetOut k ∧
      (0 ≤ b.reserveInt → b.reserveInt ≤ b.interest → ∃ dust, 0 ≤ dust ∧ dust ≤ 1 ∧
        Dec.truncateInt b.interest = Dec.truncateInt b.reserveInt + Dec.truncateInt (b.interest - b.reserveInt) + dust) := by
  unfold closeBorrow at h
  invert h
  all_goals
    have hb0 := ‹getBorrow s.borrows k = some _›
    have hit := ‹iterBorrow s k ext = .ok _›
    have hb1 := after_iterBorrow hit (by assumption)
    obtain ⟨_, _, _, hpi, _⟩ := iterBorrow_rel hit hb0 hb1
    have hp := ‹cfg.pair? _ = some _›
    rw [← hpi] at hp
    refine ⟨_, _, _, hit, hb1, hp, ?_, fun h0 hle => interest_split _ _ h0 hle⟩
    simp [*]

/-! ## Emergency guards fail closed: kill switch (per app) and pool depreciation -/

/-- a rejected message leaves every record, total and balance unchanged -/
theorem rejected_no_change (cfg : Cfg) (s : State) (op : Op) (h : (step cfg s op).toBool = false) : apply cfg s op = s := by
  unfold apply
  cases hs : step cfg s op with
  | ok s' => rw [hs] at h; cases h
  | error e => rfl

theorem bnot_contra {b : Bool} (h1 : (!b) = true) (h2 : b = true) : False := by subst h2; cases h1

/-- **Kill switch on ⇒ every message on a lend position of that app is rejected**: deposit, withdraw, close-lend -/
theorem killswitch_rejects_lend_ops (cfg : Cfg) (s : State) (u k d : Nat) (amt r : Int) (l : Lend)
    (hl : getLend s.lends k = some l) (hk : s.isKilled l.app = true) :
    (deposit cfg s u k d amt r).toBool = false ∧ (withdraw cfg s u k d amt r).toBool = false ∧ (closeLend cfg s u k r).toBool = false := by
  have hc : ∀ s', closeLend cfg s u k r ≠ .ok s' := by
    intro s' h; unfold closeLend at h; invert h
    have e := ‹getLend s.lends k = some _›; rw [hl] at e; cases e
    exact bnot_contra ‹(!s.isKilled _) = true› hk
  have hd : ∀ s', deposit cfg s u k d amt r ≠ .ok s' := by
    intro s' h; unfold deposit at h; invert h
    have e := ‹getLend s.lends k = some _›; rw [hl] at e; cases e
    exact bnot_contra ‹(!s.isKilled _) = true› hk
  have hw : ∀ s', withdraw cfg s u k d amt r ≠ .ok s' := by
    intro s' h; unfold withdraw at h; invert h
    · exact hc _ ‹_›
    · have e := ‹getLend s.lends k = some _›; rw [hl] at e; cases e
      exact bnot_contra ‹(!s.isKilled _) = true› hk
  refine ⟨?_, ?_, ?_⟩
  · cases h : deposit cfg s u k d amt r with | ok s' => exact absurd h (hd s') | error e => rfl
  · cases h : withdraw cfg s u k d amt r with | ok s' => exact absurd h (hw s') | error e => rfl
  · cases h : closeLend cfg s u k r with | ok s' => exact absurd h (hc s') | error e => rfl

/-- **Kill switch on ⇒ every message on a borrow of a lend position of that app is rejected**: deposit-borrow, draw, repay,
close-borrow, repay-withdraw (and the liquidation hand-over) -/
theorem killswitch_rejects_borrow_ops (cfg : Cfg) (s : State) (u k d : Nat) (amt r : Int) (ext : ExtB) (ni : Dec) (b : Borrow) (l : Lend)
    (hb : getBorrow s.borrows k = some b) (hl : getLend s.lends b.lendingId = some l) (hk : s.isKilled l.app = true) :
    (depositBorrow cfg s u k d amt ext).toBool = false ∧ (draw cfg s u k d amt ext).toBool = false ∧
    (repay cfg s u k d amt ext).toBool = false ∧ (closeBorrow cfg s u k ext).toBool = false ∧
    (repayWithdraw cfg s u k ext r).toBool = false ∧ (handover cfg s k ni).toBool = false := by
  have fin : ∀ {b' : Borrow} {l' : Lend}, getBorrow s.borrows k = some b' → getLend s.lends b'.lendingId = some l' →
      (!s.isKilled l'.app) = true → False := by
    intro b' l' e1 e2 e3
    rw [hb] at e1; cases e1
    rw [hl] at e2; cases e2
    exact bnot_contra e3 hk
  have hcb : ∀ s', closeBorrow cfg s u k ext ≠ .ok s' := by
    intro s' h; unfold closeBorrow at h; invert h
    all_goals exact fin ‹getBorrow s.borrows k = some _› ‹getLend s.lends _ = some _› ‹(!s.isKilled _) = true›
  have hdb : ∀ s', depositBorrow cfg s u k d amt ext ≠ .ok s' := by
    intro s' h; unfold depositBorrow at h; invert h
    all_goals exact fin ‹getBorrow s.borrows k = some _› ‹getLend s.lends _ = some _› ‹(!s.isKilled _) = true›
  have hdr : ∀ s', draw cfg s u k d amt ext ≠ .ok s' := by
    intro s' h; unfold draw at h; invert h
    exact fin ‹getBorrow s.borrows k = some _› ‹getLend s.lends _ = some _› ‹(!s.isKilled _) = true›
  have hrp : ∀ s', repay cfg s u k d amt ext ≠ .ok s' := by
    intro s' h; unfold repay at h; invert h
    · exact hcb _ ‹_›
    all_goals exact fin ‹getBorrow s.borrows k = some _› ‹getLend s.lends _ = some _› ‹(!s.isKilled _) = true›
  have hrw : ∀ s', repayWithdraw cfg s u k ext r ≠ .ok s' := by
    intro s' h; unfold repayWithdraw at h; invert h
    exact hcb _ ‹closeBorrow cfg s u k ext = .ok _›
  have hho : ∀ s', handover cfg s k ni ≠ .ok s' := by
    intro s' h; unfold handover at h; invert h
    all_goals exact fin ‹getBorrow s.borrows k = some _› ‹getLend s.lends _ = some _› ‹(!s.isKilled _) = true›
  refine ⟨?_, ?_, ?_, ?_, ?_, ?_⟩
  · cases h : depositBorrow cfg s u k d amt ext with | ok s' => exact absurd h (hdb s') | error e => rfl
  · cases h : draw cfg s u k d amt ext with | ok s' => exact absurd h (hdr s') | error e => rfl
  · cases h : repay cfg s u k d amt ext with | ok s' => exact absurd h (hrp s') | error e => rfl
  · cases h : closeBorrow cfg s u k ext with | ok s' => exact absurd h (hcb s') | error e => rfl
  · cases h : repayWithdraw cfg s u k ext r with | ok s' => exact absurd h (hrw s') | error e => rfl
  · cases h : handover cfg s k ni with | ok s' => exact absurd h (hho s') | error e => rfl

/-- **Kill switch / depreciation on ⇒ no new lend, no borrow-alternate on that app / pool; no borrow message on a lend position of that
app / pool** -/
theorem guards_reject_new_positions (cfg : Cfg) (s : State) (u a d : Nat) (amt : Int) (p app : Nat) (r : Int) (pid : Nat) (st : Bool)
    (dOut : Nat) (aOut : Int) (e1 e2 : ExtB) (h : s.isKilled app = true ∨ s.isDep p = true) :
    (lend cfg s u a d amt p app r).toBool = false ∧
    (borrowAlternate cfg s u a p d amt pid st dOut aOut app r e1 e2).toBool = false := by
  have hg : ∀ pc, lendGuards cfg s a d amt p app ≠ .ok pc := by
    intro pc hh; unfold lendGuards at hh; invert hh
    rcases h with h | h
    · exact bnot_contra ‹(!s.isKilled app) = true› h
    · exact bnot_contra ‹(!s.isDep p) = true› h
  constructor
  · cases hh : lend cfg s u a d amt p app r with
    | error e => rfl
    | ok s' => unfold lend at hh; invert hh <;> exact absurd ‹lendGuards cfg s a d amt p app = .ok _› (hg _)
  · cases hh : borrowAlternate cfg s u a p d amt pid st dOut aOut app r e1 e2 with
    | error e => rfl
    | ok s' => unfold borrowAlternate at hh; invert hh <;> exact absurd ‹lendGuards cfg s a d amt p app = .ok _› (hg _)

theorem guards_reject_borrow (cfg : Cfg) (s : State) (u k pid : Nat) (st : Bool) (dIn : Nat) (aIn : Int) (dOut : Nat) (aOut : Int) (e1 e2 : ExtB)
    (l : Lend) (hl : getLend s.lends k = some l) (h : s.isKilled l.app = true ∨ s.isDep l.pool = true) :
    (borrow cfg s u k pid st dIn aIn dOut aOut e1 e2).toBool = false := by
  cases hh : borrow cfg s u k pid st dIn aIn dOut aOut e1 e2 with
  | error e => rfl
  | ok s' =>
    exfalso
    unfold borrow at hh; invert hh
    all_goals
      have e := ‹getLend s.lends k = some _›; rw [hl] at e; cases e
      rcases h with h | h
      · exact bnot_contra ‹(!s.isKilled _) = true› h
      · exact bnot_contra ‹(!s.isDep _) = true› h

/-- **Depreciated pool ⇒ no deposit, no further pledge, no draw on its positions** (withdraw, close, repay stay possible: users can exit) -/
theorem depreciation_rejects (cfg : Cfg) (s : State) (u k d : Nat) (amt r : Int) (l : Lend)
    (hl : getLend s.lends k = some l) (hd : s.isDep l.pool = true) :
    (deposit cfg s u k d amt r).toBool = false ∧
    (∀ kb ext b, getBorrow s.borrows kb = some b → b.lendingId = k →
      (depositBorrow cfg s u kb d amt ext).toBool = false ∧ (draw cfg s u kb d amt ext).toBool = false) := by
  constructor
  · cases hh : deposit cfg s u k d amt r with
    | error e => rfl
    | ok s' =>
      exfalso
      unfold deposit at hh; invert hh
      have e := ‹getLend s.lends k = some _›; rw [hl] at e; cases e
      exact bnot_contra ‹(!s.isDep _) = true› hd
  · intro kb ext b hb hbk
    have fin : ∀ {b' : Borrow} {l' : Lend}, getBorrow s.borrows kb = some b' → getLend s.lends b'.lendingId = some l' →
        (!s.isDep l'.pool) = true → False := by
      intro b' l' e1 e2 e3
      rw [hb] at e1; cases e1
      rw [hbk, hl] at e2; cases e2
      exact bnot_contra e3 hd
    constructor
    · cases hh : depositBorrow cfg s u kb d amt ext with
      | error e => rfl
      | ok s' =>
        exfalso
        unfold depositBorrow at hh; invert hh
        all_goals exact fin ‹getBorrow s.borrows kb = some _› ‹getLend s.lends _ = some _› ‹(!s.isDep _) = true›
    · cases hh : draw cfg s u kb d amt ext with
      | error e => rfl
      | ok s' =>
        exfalso
        unfold draw at hh; invert hh
        exact fin ‹getBorrow s.borrows kb = some _› ‹getLend s.lends _ = some _› ‹(!s.isDep _) = true›

/-- non-vacuity: with the switch of app 1 on, the open position of `stateE` can be neither drawn on nor repaid nor withdrawn from; with
it off again all three work; a depreciated pool still lets the user repay and withdraw but not draw or deposit -/
example :
    (step cfgH (setKill stateE 1 true) (.draw 1 1 2 5 (.val 0 0))).toBool = false ∧
    (step cfgH (setKill stateE 1 true) (.repay 1 1 2 5 (.val 0 0))).toBool = false ∧
    (step cfgH (setKill stateE 1 true) (.withdraw 1 1 1 5 0)).toBool = false ∧
    (step cfgH (setKill (setKill stateE 1 true) 1 false) (.draw 1 1 2 5 (.val 0 0))).toBool = true ∧
    (step cfgH (setDepreciated stateE 1) (.draw 1 1 2 5 (.val 0 0))).toBool = false ∧
    (step cfgH (setDepreciated stateE 1) (.deposit 1 1 1 5 0)).toBool = false ∧
    (step cfgH (setDepreciated stateE 1) (.repay 1 1 2 5 (.val 0 0))).toBool = true ∧
    (step cfgH (setDepreciated stateE 1) (.withdraw 1 1 1 5 0)).toBool = true := by decide

/-! ## Accrual bookkeeping (amounts computed by the model from the rates in force) -/

/-- **One accrual, in the ledger**: `IterateBorrow` charges `dI` to the borrower and earmarks `dR` (when positive) for the reserve; the
lenders' share of the accrued interest, `interest − reserve share`, grows by exactly `dI − dR`; no coin moves and no total changes. -/
theorem accrual_split {s s1 : State} {k : Nat} {dI dR : Dec} {b0 b : Borrow} (h : iterBorrow s k (.val dI dR) = .ok s1)
    (h0 : getBorrow s.borrows k = some b0) (h1 : getBorrow s1.borrows k = some b) :
    b.interest = b0.interest + dI ∧ b.reserveInt = b0.reserveInt + (if dR > 0 then dR else 0) ∧
      (b.interest - b.reserveInt) - (b0.interest - b0.reserveInt) = dI - (if dR > 0 then dR else 0) ∧
      s1.bank = s.bank ∧ s1.stats = s.stats ∧ s1.lends = s.lends :=
  iterBorrow_split h h0 h1

/-- **A second accrual in the same block is the identity** (deposit-and-draw accrues twice): nothing is charged, the indices stay. -/
theorem accrual_zero_elapsed (a : AccB) (amountOut : Int) (stable : Bool) (apr rr : Dec) (now : Int)
    (hgi : 0 < a.gi) (hrgi : 0 < a.rgi) (ham : 0 ≤ amountOut) (hsr : 0 ≤ a.stableRate) (hnow : LendRates.elapsed now a.last = 0) :
    accrueBorrow a amountOut stable apr (some rr) now = { ext := .val 0 0, gi := a.gi, rgi := a.rgi } :=
  accrueBorrow_zero_elapsed a amountOut stable apr rr now hgi hrgi ham hsr hnow

/-- **The reward tracker loses nothing**: whole tokens paid + fraction carried = fraction before + reward accrued; the carried
fraction stays in `[0, 1)`. -/
theorem reward_tracker_conserved (a : AccL) (amountIn : Int) (apr : Dec) (now : Int) (per gi' : Dec) (r : LendAccrual)
    (h : LendRates.lendReward amountIn apr a.gi now a.last = .ok [per, gi']) (hr : accrueLend a amountIn apr now = r) :
    Dec.ofInt r.reward + r.tracker = a.tracker + per ∧ r.gi = gi' ∧ r.panicked = false ∧
      (0 ≤ a.tracker + per → 0 ≤ r.reward ∧ 0 ≤ r.tracker ∧ r.tracker < Dec.one) :=
  accrueLend_conserved a amountIn apr now per gi' r h hr

/-- **Where a lend reward comes from**: from the lenders' share accumulated by repayments when that suffices (it is reduced by the
reward), otherwise from the reserve, which must hold the coins. -/
theorem reward_source {cfg : Cfg} {s s' : State} {k : Nat} {r : Int} (h : iterLends cfg s k r = .ok s') (hr : r > 0) :
    ∃ l st, getLend s.lends k = some l ∧ getStats s.stats l.pool l.asset = some st ∧
      ((r ≤ st.totalInterest ∧ s'.stats = addTotalLend (addTotalInterest s.stats l.pool l.asset (-r)) l.pool l.asset r) ∨
       (st.totalInterest < r ∧ r ≤ s.bank.get cfg.reserveAcct l.asset ∧ s'.stats = addTotalLend s.stats l.pool l.asset r)) :=
  iterLends_source h hr

/-- non-vacuity: one year at 5 % on a principal of 1000 with index 1, reserve rate 1 %: 50 charged, 10 of it for the reserve; and the
tracker example: 0.7 carried + 0.6 accrued pays 1 token and carries 0.3 -/
example :
    (accrueBorrow ⟨1, Dec.one, Dec.one, 1700000000, 0⟩ 1000 false 50000000000000000 (some 10000000000000000) (1700000000 + 31557600)).ext
      = .val 50000000000000000000 10000000000000000000 ∧
    (accrueLend ⟨1, Dec.one, 1700000000, 700000000000000000⟩ 6 100000000000000000 (1700000000 + 31557600)).reward = 1 ∧
    (accrueLend ⟨1, Dec.one, 1700000000, 700000000000000000⟩ 6 100000000000000000 (1700000000 + 31557600)).tracker = 300000000000000000 := by
  decide

/-! ## The id lists of the pool-asset records (`LendIds`, `BorrowIds`) — what the liquidation sweeps and the interest queries iterate -/

theorem init_ids (cfg : Cfg) (bank : Bank) (prices : List (Nat × Nat)) : IdsS cfg (init cfg bank prices) := by
  refine { la := List.Pairwise.nil, ba := List.Pairwise.nil, ok := ?_, lr := (fun l hl => nomatch hl), br := (fun b hb => nomatch hb) }
  intro st hst
  have hst' : st ∈ initStats cfg := hst
  unfold initStats at hst'
  obtain ⟨p, _, hp⟩ := List.mem_flatMap.mp hst'
  obtain ⟨d, _, rfl⟩ := List.mem_map.mp hp
  exact ⟨rfl, rfl⟩

theorem apply_ids {cfg : Cfg} {s : State} (op : Op) (c : CoreS cfg s) (i : IdsS cfg s) : IdsS cfg (apply cfg s op) := by
  unfold apply
  split
  · exact step_ids (by assumption) c i
  · exact i

theorem run_ids {cfg : Cfg} (ops : List Op) {s : State} (c : CoreS cfg s) (i : IdsS cfg s) : IdsS cfg (run cfg s ops) := by
  induction ops generalizing s with
  | nil => exact i
  | cons op ops ih => exact ih (apply_core op c) (apply_ids op c i)

/-- **Id lists are exact** — for every configuration, genesis and history (user messages, hand-overs, bids, auction closes): every
pool-asset record lists exactly the ids of the lend positions of its pool and asset, and exactly the ids of the borrows whose pair
lends out its asset from its pool (handed-over borrows included until the auction close deletes them), in creation order. -/
theorem ids_consistent (cfg : Cfg) (bank : Bank) (prices : List (Nat × Nat)) (ops : List Op) :
    IdsOk cfg (run cfg (init cfg bank prices) ops) :=
  (run_ids ops (init_core cfg bank prices) (init_ids cfg bank prices)).ok

/-- **Id lists ascend** — which is what the binary search of `DeleteIDFromAssetStatsMapping` relies on (`delId_binary_search`). -/
theorem id_lists_ascending (cfg : Cfg) (bank : Bank) (prices : List (Nat × Nat)) (ops : List Op) :
    ∀ st ∈ (run cfg (init cfg bank prices) ops).stats, Asc st.lendIds ∧ Asc st.borrowIds := by
  intro st hst
  have i := run_ids ops (init_core cfg bank prices) (init_ids cfg bank prices)
  obtain ⟨h1, h2⟩ := i.ok st hst
  rw [h1, h2]
  exact ⟨asc_lendIdsOf i.la _ _, asc_borrowIdsOf i.ba _ _⟩

/-- **Removal by binary search is removal** on an ascending list; on an unsorted one it can miss the id (`[5, 3]`, id `3`). -/
theorem delId_binary_search (ids : List Nat) (h : Asc ids) (k : Nat) : delId ids k = ids.filter (· != k) := delId_eq_filter ids h k
theorem delId_needs_ascending : delId [5, 3] 3 = [5, 3] := delId_unsorted_misses

/-- **Every live lend position is in exactly the list of its pool and asset**: the record exists, lists the id, and any record that
lists the id is one of that pool and asset. -/
theorem lend_listed_exactly (cfg : Cfg) (bank : Bank) (prices : List (Nat × Nat)) (ops : List Op) (l : Lend)
    (hl : l ∈ (run cfg (init cfg bank prices) ops).lends) :
    (∃ st ∈ (run cfg (init cfg bank prices) ops).stats, st.pool = l.pool ∧ st.asset = l.asset ∧ l.id ∈ st.lendIds) ∧
    (∀ st ∈ (run cfg (init cfg bank prices) ops).stats, l.id ∈ st.lendIds → st.pool = l.pool ∧ st.asset = l.asset) := by
  have i := run_ids ops (init_core cfg bank prices) (init_ids cfg bank prices)
  have hu : Uniq lid (run cfg (init cfg bank prices) ops).lends := asc_uniq (fun l : Lend => l.id) i.la
  constructor
  · obtain ⟨st, hst, h1, h2⟩ := i.lr l hl
    refine ⟨st, hst, h1, h2, ?_⟩
    rw [(i.ok st hst).1, h1, h2]
    unfold lendIdsOf
    exact List.mem_map.mpr ⟨l, List.mem_filter.mpr ⟨hl, by simp⟩, rfl⟩
  · intro st hst hk
    rw [(i.ok st hst).1] at hk
    obtain ⟨x, hx, hxid, hxp, hxa⟩ := mem_lendIdsOf hk
    have : x = l := uniq_eq lid hu hx hl (by simp [lid, hxid])
    subst this
    exact ⟨hxp.symm, hxa.symm⟩

/-- **Every live borrow is in exactly the list of its pair's out pool and asset** (so `GetBorrows`, the list the liquidation sweeps of
both generations walk, reaches it). -/
theorem borrow_listed_exactly (cfg : Cfg) (bank : Bank) (prices : List (Nat × Nat)) (ops : List Op) (b : Borrow)
    (hb : b ∈ (run cfg (init cfg bank prices) ops).borrows) :
    (∃ st ∈ (run cfg (init cfg bank prices) ops).stats, cfg.pairOut b.pairId = some (st.pool, st.asset) ∧ b.id ∈ st.borrowIds) ∧
    (∀ st ∈ (run cfg (init cfg bank prices) ops).stats, b.id ∈ st.borrowIds → cfg.pairOut b.pairId = some (st.pool, st.asset)) := by
  have i := run_ids ops (init_core cfg bank prices) (init_ids cfg bank prices)
  have hu : Uniq bid (run cfg (init cfg bank prices) ops).borrows := asc_uniq (fun b : Borrow => b.id) i.ba
  constructor
  · obtain ⟨p, a, hpa, st, hst, h1, h2⟩ := i.br b hb
    refine ⟨st, hst, by rw [hpa, h1, h2], ?_⟩
    rw [(i.ok st hst).2, h1, h2]
    unfold borrowIdsOf
    exact List.mem_map.mpr ⟨b, List.mem_filter.mpr ⟨hb, by simp [hpa]⟩, rfl⟩
  · intro st hst hk
    rw [(i.ok st hst).2] at hk
    obtain ⟨x, hx, hxid, hxp⟩ := mem_borrowIdsOf hk
    have : x = b := uniq_eq bid hu hx hb (by simp [bid, hxid])
    subst this
    exact hxp

/-- **No dangling id**: an id in a list is the id of a live position of that record's pool and asset / out pool and asset. -/
theorem no_dangling_ids (cfg : Cfg) (bank : Bank) (prices : List (Nat × Nat)) (ops : List Op) :
    ∀ st ∈ (run cfg (init cfg bank prices) ops).stats,
      (∀ k ∈ st.lendIds, ∃ l ∈ (run cfg (init cfg bank prices) ops).lends, l.id = k ∧ l.pool = st.pool ∧ l.asset = st.asset) ∧
      (∀ k ∈ st.borrowIds, ∃ b ∈ (run cfg (init cfg bank prices) ops).borrows, b.id = k ∧ cfg.pairOut b.pairId = some (st.pool, st.asset)) := by
  intro st hst
  have i := run_ids ops (init_core cfg bank prices) (init_ids cfg bank prices)
  obtain ⟨h1, h2⟩ := i.ok st hst
  exact ⟨fun k hk => mem_lendIdsOf (by rw [← h1]; exact hk), fun k hk => mem_borrowIdsOf (by rw [← h2]; exact hk)⟩

/-! ## Life after the hand-over: bids and the close of the second-generation auction -/

/-- the principal totals and the lent total of a record are those of the record with the same key before -/
def SameTotals (ss ss' : List Stats) : Prop :=
  ∀ st' ∈ ss', ∃ st ∈ ss, st.pool = st'.pool ∧ st.asset = st'.asset ∧ st.totalLend = st'.totalLend ∧
    st.totalBorrowed = st'.totalBorrowed ∧ st.totalStable = st'.totalStable

theorem sameTotals_mod (ss : List Stats) (p a : Nat) (f : Stats → Stats) (hf : IdsOnly f) : SameTotals ss (modStats ss p a f) := by
  intro st' hst'
  obtain ⟨s0, hs0, rfl⟩ := mem_modStats hst'
  refine ⟨s0, hs0, ?_⟩
  by_cases hc : s0.pool = p ∧ s0.asset = a
  · rw [if_pos hc]; obtain ⟨h1, h2, h3, h4, h5⟩ := hf s0; exact ⟨h1.symm, h2.symm, h3.symm, h4.symm, h5.symm⟩
  · rw [if_neg hc]; exact ⟨rfl, rfl, rfl, rfl, rfl⟩

theorem SameTotals.trans {a b c : List Stats} (h1 : SameTotals a b) (h2 : SameTotals b c) : SameTotals a c := by
  intro st hst
  obtain ⟨s1, hs1, e1, e2, e3, e4, e5⟩ := h2 st hst
  obtain ⟨s0, hs0, f1, f2, f3, f4, f5⟩ := h1 s1 hs1
  exact ⟨s0, hs0, by omega, by omega, by omega, by omega, by omega⟩

theorem SameTotals.refl (a : List Stats) : SameTotals a a := fun st hst => ⟨st, hst, rfl, rfl, rfl, rfl, rfl⟩

theorem sameTotals_addTotalInterest (ss : List Stats) (p a : Nat) (d : Int) : SameTotals ss (addTotalInterest ss p a d) :=
  sameTotals_mod ss p a _ (fun _ => ⟨rfl, rfl, rfl, rfl, rfl⟩)
theorem sameTotals_delBorrowId (ss : List Stats) (p a k : Nat) : SameTotals ss (delBorrowId ss p a k) :=
  sameTotals_mod ss p a _ (idsOnly_delBorrow k)

/-- what an accepted closing bid does to the books (see `auctionClose_books`) -/
def CloseBooks (cfg : Cfg) (s s' : State) (k : Nat) : Prop :=
  ∃ b pair, getBorrow s.borrows k = some b ∧ b.liq = true ∧ cfg.pair? b.pairId = some pair ∧
    s'.borrows = delBorrow s.borrows k ∧ getBorrow s'.borrows k = none ∧ getLocked s'.locked k = none ∧
    s'.lends = s.lends ∧ s'.lendCtr = s.lendCtr ∧ s'.borrowCtr = s.borrowCtr ∧ SameTotals s.stats s'.stats ∧
    s'.stats = delBorrowId (if Dec.truncateInt (b.interest - b.reserveInt) > 0
                            then addTotalInterest s.stats pair.outPool pair.assetOut (Dec.truncateInt (b.interest - b.reserveInt))
                            else s.stats) pair.outPool pair.assetOut k

/-- **The auction close on the books**: an accepted closing bid deletes the handed-over borrow and its locked vault; no lend position
changes (the position was debited at the hand-over and stays debited); no published principal or lent total changes (they were
reduced at the hand-over); the lenders' share of the accrued interest, `⌊interest − reserve share⌋`, is added to
`totalInterestAccumulated` of the debt pool's record. A partial fill changes nothing but balances (`auctionBid_books`). -/
theorem auctionClose_books {cfg : Cfg} {s s' : State} {u k : Nat} {paid recv left topUp : Int}
    (h : auctionClose cfg s u k paid recv left topUp = .ok s') : CloseBooks cfg s s' k := by
  unfold auctionClose at h
  invert h
  all_goals
    unfold CloseBooks
    refine ⟨_, _, ‹getBorrow s.borrows k = some _›, ‹Borrow.liq _ = true›, ‹cfg.pair? _ = some _›, rfl, find_del bid _ k, ?_, rfl, rfl, rfl, ?_, ?_⟩
    · unfold getLocked delLocked
      apply List.find?_eq_none.mpr
      intro x hx
      have := (List.mem_filter.mp hx).2
      simpa using this
    · first
      | exact (sameTotals_addTotalInterest _ _ _ _).trans (sameTotals_delBorrowId _ _ _ _)
      | exact sameTotals_delBorrowId _ _ _ _
    · simp [*]

theorem auctionBid_books {cfg : Cfg} {s s' : State} {u k : Nat} {paid recv : Int} (h : auctionBid cfg s u k paid recv = .ok s') :
    s'.lends = s.lends ∧ s'.borrows = s.borrows ∧ s'.stats = s.stats ∧ s'.resv = s.resv ∧ s'.locked = s.locked := by
  unfold auctionBid at h
  simp only [bind, Except.bind, pure, Except.pure] at h
  repeat' (split at h <;> try cases h)
  all_goals exact ⟨rfl, rfl, rfl, rfl, rfl⟩

/-- **The close needs the lend position of a cross-pool borrow**: `MsgCloseDutchAuctionForBorrow` reads the collateral's pool from the
lend position to send the bridged transit asset back; when the hand-over deleted that position (`UpdateLockedBorrows` deletes it as
soon as `AmountIn − pledge ≤ 0`) no closing bid can ever succeed, whatever the amounts and whoever bids. -/
theorem auctionClose_needs_lend {cfg : Cfg} {s : State} {k : Nat} {b : Borrow} (hb : getBorrow s.borrows k = some b) (hbr : b.bridged > 0)
    (hl : getLend s.lends b.lendingId = none) (u : Nat) (paid recv left topUp : Int) :
    (auctionClose cfg s u k paid recv left topUp).toBool = false := by
  cases h : auctionClose cfg s u k paid recv left topUp with
  | error e => rfl
  | ok s' =>
    exfalso
    unfold auctionClose at h
    invert h
    all_goals
      have e := ‹getBorrow s.borrows k = some _›
      rw [hb] at e; cases e
      first
      | (have e2 := ‹getLend s.lends _ = some _›; rw [hl] at e2; cases e2)
      | exact absurd hbr ‹¬ _›

/-- cross-pool world: assets A = 1, B = 2, T = 3 (cTokens 4, 5, 6); pool 1 {A (second transit asset), T (first transit asset)}, pool 2 {B, T, A};
pair 1 = (A → B of pool 2), cross-pool; liquidation penalty 5 % -/
def cfgX : Cfg :=
  { assets := [⟨1, 1⟩, ⟨2, 1⟩, ⟨3, 1⟩, ⟨4, 1⟩, ⟨5, 1⟩, ⟨6, 1⟩],
    rates := [⟨1, 500000000000000000, 0, 4, false, false, 50000000000000000, 0⟩, ⟨2, 500000000000000000, 0, 5, false, false, 50000000000000000, 0⟩,
              ⟨3, 800000000000000000, 0, 6, false, false, 50000000000000000, 0⟩],
    pools := [⟨1, 101, [⟨1, 3, 1000000000000000000000000000000000000⟩, ⟨3, 2, 1000000000000000000000000000000000000⟩]⟩,
              ⟨2, 102, [⟨2, 1, 1000000000000000000000000000000000000⟩, ⟨3, 2, 1000000000000000000000000000000000000⟩, ⟨1, 3, 1000000000000000000000000000000000000⟩]⟩],
    pairs := [⟨1, 1, 2, true, 2, false⟩],
    a2p := [⟨1, 1, [1]⟩],
    apps := [(1, true)] }
def bankX : Bank := [((1, 1), 1000), ((101, 3), 1000), ((102, 2), 1000), ((7, 2), 1000)]
def pricesX : List (Nat × Nat) := [(1, 1000000), (2, 1000000), (3, 1000000)]
/-- user 1 lends 100 A and pledges ALL of it for a cross-pool loan of 30 B (50 T are bridged to pool 2); the borrow is handed over: the
lend position is deleted (`AmountIn − pledge = 0`) -/
def opsX : List Op := [.lend 1 1 1 100 1 1 0, .borrow 1 1 1 false 4 100 2 30 .err .err, .handover 1 0]

/-- **Witness (stuck auction)**: every step is accepted; afterwards the borrow is under liquidation with 50 T bridged and its lend
position is gone — by `auctionClose_needs_lend` no bid can close the auction (here: the bid that pays the whole target is refused),
the collateral stays in the auction module and the 50 T stay in pool 2. -/
theorem auctionClose_stuck_counterexample :
    allAccepted cfgX (init cfgX bankX pricesX) opsX = true ∧
    (run cfgX (init cfgX bankX pricesX) opsX).lends = [] ∧
    ((run cfgX (init cfgX bankX pricesX) opsX).borrows.map fun b => (b.id, b.liq, b.bridged)) = [(1, true, 50)] ∧
    ((run cfgX (init cfgX bankX pricesX) opsX).locked.map fun k => (k.borrowId, k.target)) = [(1, 31)] ∧
    (step cfgX (run cfgX (init cfgX bankX pricesX) opsX) (.auctionClose 7 1 31 100 0 0)).toBool = false := by decide

/-- `cfgH` with a liquidation penalty of 10 % on both assets -/
def cfgP : Cfg := { cfgH with rates := [⟨1, 500000000000000000, 0, 3, false, false, 100000000000000000, 0⟩,
                                        ⟨2, 500000000000000000, 0, 4, false, false, 100000000000000000, 0⟩] }
def bankP : Bank := [((1, 1), 1000), ((101, 2), 1000), ((99, 1), 10), ((7, 2), 100)]
/-- lend 100 A; borrow 10 B against 60 cA; 2.5 B of interest accrue, 1.5 of it the reserve's; hand-over (target 10 + 1 penalty); a
partial fill by account 7 (4 B for 20 A); its closing bid (7 B for 30 A, 10 A back to the owner) -/
def opsC : List Op :=
  [.lend 1 1 1 100 1 1 0, .borrow 1 1 1 false 3 60 2 10 .err .err, .calcAll 1 [(1, .val 2500000000000000000 1500000000000000000)] [(1, 0)],
   .handover 1 2500000000000000000, .bid 7 1 4 20, .auctionClose 7 1 7 30 10 0]

/-- non-vacuity (`auctionClose_books`, `auctionBid_books`, `ids_consistent` with a deletion, the reserve records): every step of `opsC`
is accepted; afterwards the borrow, its id and its locked vault are gone, the lend keeps 40 (principal and availability), the lent and
borrowed totals are 40 / 0, one cToken of B is minted into `totalInterestAccumulated` (⌊2.5 − 1.5⌋), the reserve has received the
penalty 1 and the whole token of its interest share 1 — recorded as such, both halves ⌊1/2⌋ + ⌊1/2⌋ = 0 — and holds 2 B -/
example :
    allAccepted cfgP (init cfgP bankP pricesH) opsC = true ∧
    ((run cfgP (init cfgP bankP pricesH) opsC).stats.map fun st => (st.asset, st.totalLend, st.totalBorrowed, st.totalInterest)) = [(1, 40, 0, 0), (2, 0, 0, 1)] ∧
    ((run cfgP (init cfgP bankP pricesH) opsC).stats.map fun st => (st.lendIds, st.borrowIds)) = [([1], ([] : List Nat)), ([], [])] ∧
    ((run cfgP (init cfgP bankP pricesH) opsC).lends.map fun l => (l.amountIn, l.avail)) = [(40, 40)] ∧
    (run cfgP (init cfgP bankP pricesH) opsC).borrows = [] ∧ (run cfgP (init cfgP bankP pricesH) opsC).locked = [] ∧
    ((run cfgP (init cfgP bankP pricesH) opsC).resv.map fun r => (r.asset, r.reserve, r.buyback, r.inPenalty, r.inRepay)) = [(2, 0, 0, 1, 1)] ∧
    (run cfgP (init cfgP bankP pricesH) opsC).bank.get 99 2 = 2 := by
  decide

/-! ## The reserve ledger: reserve module balance vs the book-keeping records -/

/-- no message of the history is signed by the reserve module account (module accounts hold no key), and the history has no run of the
x/lend block hook (`beginBlock`: it sweeps a deleted pool's funds into the reserve with no flow record — `reserve_ledger_poolsweep_counterexample`) -/
def SignersOk (cfg : Cfg) (ops : List Op) : Prop := ∀ op ∈ ops, op.signer ≠ some cfg.reserveAcct ∧ op.isBeginBlock = false
instance (cfg : Cfg) (ops : List Op) : Decidable (SignersOk cfg ops) := by unfold SignersOk; infer_instance

theorem init_own (cfg : Cfg) (bank : Bank) (prices : List (Nat × Nat)) : Own cfg (init cfg bank prices) :=
  ⟨(fun l hl => nomatch hl), (fun k hk => nomatch hk), (fun b hb => nomatch hb)⟩

theorem run_ledger {cfg : Cfg} (ok : CfgOk cfg) {bank0 : Bank} (ops : List Op) {s : State} (hs : SignersOk cfg ops) (o : Own cfg s)
    (l : ResLedger cfg bank0 s) : ResLedger cfg bank0 (run cfg s ops) ∧ Own cfg (run cfg s ops) := by
  induction ops generalizing s with
  | nil => exact ⟨l, o⟩
  | cons op ops ih =>
    have hop := hs op (by simp)
    have hrest : SignersOk cfg ops := fun o ho => hs o (by simp [ho])
    show ResLedger cfg bank0 (run cfg (apply cfg s op) ops) ∧ Own cfg (run cfg (apply cfg s op) ops)
    unfold apply
    split
    · rename_i s' hstep
      exact ih hrest (step_own hop.1 hstep o) (resLedger_step l (step_bal ok hop.1 hop.2 hstep o))
    · exact ih hrest o l

/-- **Reserve ledger** — for every configuration whose module accounts are distinct accounts, every genesis bank and prices, and every
history (user messages not signed by the reserve account, hand-overs, bids, auction closes): for every asset the balance of the
reserve module account is its genesis balance plus the inflows the records name (`FundReserveBal` entries, `AmountInFromLiqPenalty`,
`AmountInFromRepayments`) minus the outflows they name (`AmountOutFromReserveToLenders`, `AmountOutFromReserveForAuction`). -/
theorem reserve_ledger (cfg : Cfg) (ok : CfgOk cfg) (bank : Bank) (prices : List (Nat × Nat)) (ops : List Op) (hs : SignersOk cfg ops) :
    ResLedger cfg bank (run cfg (init cfg bank prices) ops) :=
  (run_ledger ok ops hs (init_own cfg bank prices) (fun a => by simp [init, getResv, Resv.flow])).1

/-- **One reserve transfer, on the records**: `UpdateReserveBalances` moves BOTH halves (`ReserveAmount`, `BuybackAmount`) by `⌊x/2⌋`
while the bank moves `x`: the halves stay equal, and after an inflow `x` their sum lags the coins by `x mod 2`. -/
theorem reserve_halves_step (r : Resv) (x : Int) (inc : Bool) (h : r.reserve = r.buyback) (hx : 0 ≤ x) :
    (r.halves x inc).reserve = (r.halves x inc).buyback ∧ (r.halves x inc).flow = r.flow ∧
      ((r.halves x true).reserve + (r.halves x true).buyback = r.reserve + r.buyback + x - x % 2) := by
  refine ⟨halves_eq r x inc h, halves_flow r x inc, ?_⟩
  simp only [Resv.halves, if_true]
  rw [Int.tdiv_eq_ediv_of_nonneg hx]
  omega

/-- **The halves are no ledger**: two inflows of 1 and one outflow of 2 leave `ReserveAmount = BuybackAmount = −1` with an empty
account — the records round every transfer separately (`⌊1/2⌋ + ⌊1/2⌋ − ⌊2/2⌋`). -/
theorem reserve_halves_drift_counterexample :
    ((({ asset := 1 } : Resv).halves 1 true).halves 1 true).halves 2 false = { asset := 1, reserve := -1, buyback := -1 } := by decide

/-- non-vacuity (`reserve_ledger`): `cfgP` has distinct module accounts, the history `opsC` (with the auction close paying penalty and
interest share into the reserve) is signed by users only, and it does move the reserve: 2 B in, recorded as 1 + 1 -/
example : CfgOk cfgP ∧ SignersOk cfgP opsC ∧
    (run cfgP (init cfgP bankP pricesH) opsC).bank.get cfgP.reserveAcct 2 = 2 ∧
    (getResv (run cfgP (init cfgP bankP pricesH) opsC).resv 2).flow = 2 := by
  refine ⟨⟨by decide, by decide⟩, by decide, by decide, by decide⟩

/-! ## The block hook of x/lend: pool deletion -/

theorem sweepPool_delPools {cfg : Cfg} {s s' : State} {p q : Nat} (h : sweepPool cfg s p = .ok s') (hq : s.delPools.contains q = true) :
    s'.delPools.contains q = true := by
  unfold sweepPool at h
  invert h
  · simp only [List.contains_cons]; rw [hq]; simp
  · exact hq

theorem sweepPools_dead {cfg : Cfg} (ps : List Nat) {s : State} {p : Nat} (hp : p ∈ ps) (hd : s.delPools.contains p = true) :
    (sweepPools cfg s ps).toBool = false := by
  induction ps generalizing s with
  | nil => cases hp
  | cons q ps ih =>
    simp only [sweepPools, bind, Except.bind]
    cases hs : sweepPool cfg s q with
    | error e => rfl
    | ok s1 =>
      rcases List.mem_cons.mp hp with rfl | hp'
      · exfalso
        unfold sweepPool at hs
        invert hs
        all_goals exact bnot_contra ‹(!s.delPools.contains p) = true› hd
      · exact ih hp' (sweepPool_delPools hs hd)

/-- **The hook is dead after its first pool deletion**: the deleted pool's entry stays pending (the flag is set on a copy of the
entry, pair.go:655-657), the next run reads the deleted pool as a zero record and panics on the empty denomination — so the whole
hook, with every other pending entry, is rolled back, at every later run. -/
theorem beginBlock_dead_after_deletion (cfg : Cfg) (s : State) (p : Nat) (hp : p ∈ s.depPending) (hd : s.delPools.contains p = true) :
    (beginBlock cfg s).toBool = false := sweepPools_dead s.depPending hp hd

/-- a pending entry stays pending and a deleted pool stays deleted, whatever the hook does -/
theorem beginBlock_keeps_pending {cfg : Cfg} {s s' : State} (h : beginBlock cfg s = .ok s') : s'.depPending = s.depPending := by
  have key : ∀ (ps : List Nat) (s s' : State), sweepPools cfg s ps = .ok s' → s'.depPending = s.depPending := by
    intro ps
    induction ps with
    | nil => intro s s' h; unfold sweepPools at h; cases h; rfl
    | cons q ps ih =>
      intro s s' h
      simp only [sweepPools] at h
      invert h
      rename_i s1 hs
      have h1 : s1.depPending = s.depPending := by
        unfold sweepPool at hs
        invert hs <;> rfl
      rw [ih _ _ ‹sweepPools cfg _ ps = .ok s'›, h1]
  exact key _ _ _ h

/-- two pools; pool 2 {A = 2 (main), B = 3, C = 4}; user 1 lends 50 A in pool 2 and closes; the pool holds 7 B from a funding message -/
def cfgD : Cfg :=
  { assets := [⟨1, 1⟩, ⟨2, 1⟩, ⟨3, 1⟩, ⟨4, 1⟩, ⟨5, 1⟩, ⟨6, 1⟩, ⟨7, 1⟩],
    rates := [⟨2, 500000000000000000, 0, 5, false, false, 0, 0⟩, ⟨3, 500000000000000000, 0, 6, false, false, 0, 0⟩, ⟨4, 500000000000000000, 0, 7, false, false, 0, 0⟩],
    pools := [⟨2, 102, [⟨2, 1, 1000000000000000000000000000000000000⟩, ⟨3, 2, 1000000000000000000000000000000000000⟩, ⟨4, 3, 1000000000000000000000000000000000000⟩]⟩],
    apps := [(1, true)] }
def bankD : Bank := [((1, 2), 100), ((1, 3), 100)]
def pricesD : List (Nat × Nat) := [(2, 1000000), (3, 1000000), (4, 1000000)]
def opsD : List Op := [.lend 1 2 2 50 2 1 0, .fundModule 1 2 3 3 7, .closeLend 1 1 0, .setDepreciated 2 false, .beginBlock]

/-- **Counterexample (pool sweep)**: every step is accepted; the hook moves the 7 B the pool still holds into the reserve — both record
halves move by ⌊7/2⌋ = 3 — but no flow record names them: the reserve holds 7 B while genesis + recorded net inflow is 0; the pool is
deleted, its entry is still pending, and the next run of the hook fails. -/
theorem reserve_ledger_poolsweep_counterexample :
    allAccepted cfgD (init cfgD bankD pricesD) opsD = true ∧
    (run cfgD (init cfgD bankD pricesD) opsD).bank.get cfgD.reserveAcct 3 = 7 ∧
    (getResv (run cfgD (init cfgD bankD pricesD) opsD).resv 3).flow = 0 ∧
    (getResv (run cfgD (init cfgD bankD pricesD) opsD).resv 3).reserve = 3 ∧
    ¬ resLedgerOn cfgD bankD (run cfgD (init cfgD bankD pricesD) opsD) [3] = true ∧
    (run cfgD (init cfgD bankD pricesD) opsD).delPools = [2] ∧ (run cfgD (init cfgD bankD pricesD) opsD).depPending = [2] ∧
    (step cfgD (run cfgD (init cfgD bankD pricesD) opsD) .beginBlock).toBool = false := by decide

/-! ## The store migration 2 → 3 of x/lend, run in the middle of a history -/

/-- **The books survive the migration** — for every configuration, genesis, history before and history after the migration (the
messages after it run under the migrated configuration): the borrowed totals (variable and stable) and the id lists are right at the
end; so is the lent total when every hand-over of both parts is clean. The migration touches no position, total, balance or record. -/
theorem books_across_migration (cfg : Cfg) (bank : Bank) (prices : List (Nat × Nat)) (ops1 ops2 : List Op) :
    let s1 := run cfg (init cfg bank prices) ops1
    let s2 := run (migrateCfg cfg) s1 ops2
    TotalBorrowedEq (migrateCfg cfg) s2 ∧ TotalStableEq (migrateCfg cfg) s2 ∧ IdsOk (migrateCfg cfg) s2 ∧
      (CleanRun cfg (init cfg bank prices) ops1 → CleanRun (migrateCfg cfg) s1 ops2 → TotalLendEq s2) := by
  intro s1 s2
  have c1 : CoreS cfg s1 := run_core ops1 (init_core cfg bank prices)
  have i1 : IdsS cfg s1 := run_ids ops1 (init_core cfg bank prices) (init_ids cfg bank prices)
  have c2 : CoreS (migrateCfg cfg) s2 := run_core ops2 (migrate_core c1)
  have i2 : IdsS (migrateCfg cfg) s2 := run_ids ops2 (migrate_core c1) (migrate_ids i1)
  refine ⟨fun st hst => c2.tbs false st hst, fun st hst => c2.tbs true st hst, i2.ok, fun h1 h2 => ?_⟩
  exact run_totalLend ops2 (migrate_core c1) (run_totalLend ops1 (init_core cfg bank prices) (init_totalLend cfg bank prices) h1) h2

/-- **The reserve ledger survives the migration** (same side conditions as `reserve_ledger` for both parts) -/
theorem reserve_ledger_across_migration (cfg : Cfg) (ok : CfgOk cfg) (bank : Bank) (prices : List (Nat × Nat)) (ops1 ops2 : List Op)
    (h1 : SignersOk cfg ops1) (h2 : SignersOk (migrateCfg cfg) ops2) :
    ResLedger (migrateCfg cfg) bank (run (migrateCfg cfg) (run cfg (init cfg bank prices) ops1) ops2) := by
  obtain ⟨l1, o1⟩ := run_ledger (bank0 := bank) ok ops1 h1 (init_own cfg bank prices) (fun a => by simp [init, getResv, Resv.flow])
  exact (run_ledger (migrate_cfgOk ok) ops2 h2 (migrate_own o1) (migrate_ledger l1)).1

theorem mem_migratePairs {c : Bool} {ps : List PairCfg} {p : PairCfg} (h : p ∈ migratePairs c ps) : p.eMode = false := by
  induction ps generalizing c with
  | nil => cases h
  | cons q ps ih =>
    simp only [migratePairs, List.mem_cons] at h
    rcases h with rfl | h
    · rfl
    · exact ih h

theorem mem_migrateRates {c : Bool} {rs : List RatesCfg} {r : RatesCfg} (h : r ∈ migrateRates c rs) :
    r.isolated = false ∧ r.eLtv = 0 ∧ r.eLiqPenalty = 0 := by
  induction rs generalizing c with
  | nil => cases h
  | cons q rs ih =>
    simp only [migrateRates, List.mem_cons] at h
    rcases h with rfl | h
    · exact ⟨rfl, rfl, rfl⟩
    · exact ih h

/-- **What the migration switches off**: afterwards no pair is an e-mode pair, no asset is isolated collateral, every e-LTV and
e-penalty is zero — a borrow opened above the normal LTV on an e-mode pair is over its limit from that block on. -/
theorem migration_switches_off (cfg : Cfg) :
    (∀ p ∈ (migrateCfg cfg).pairs, p.eMode = false) ∧ (∀ r ∈ (migrateCfg cfg).rates, r.isolated = false ∧ r.eLtv = 0 ∧ r.eLiqPenalty = 0) :=
  ⟨fun _ h => mem_migratePairs h, fun _ h => mem_migrateRates h⟩

/-- **Counterexample (migration leak)**: two asset-rates records, the first with stable borrowing enabled, the second without; two
pairs, the first cross-pool, the second same-pool. After `Migrate2to3` the second asset has stable borrowing ENABLED and the second
pair is CROSS-POOL: the loop decodes every record into one variable that `Unmarshal` does not reset, so a `false` (absent on the wire)
keeps the previous record's `true` (migrate.go:152-164, 189-205). Written record by record (`migrateCfgSpec`) both stay `false`. -/
theorem migration_leak_counterexample :
    let cfg : Cfg := { rates := [⟨3, 800000000000000000, 0, 7, false, true, 0, 0⟩, ⟨4, 600000000000000000, 0, 8, false, false, 0, 0⟩],
                       pairs := [⟨1, 3, 4, true, 2, false⟩, ⟨2, 4, 3, false, 2, false⟩] }
    ((migrateCfg cfg).rates.map fun r => (r.asset, r.stableOk)) = [(3, true), (4, true)] ∧
    ((migrateCfgSpec cfg).rates.map fun r => (r.asset, r.stableOk)) = [(3, true), (4, false)] ∧
    ((migrateCfg cfg).pairs.map fun p => (p.id, p.inter)) = [(1, true), (2, true)] ∧
    ((migrateCfgSpec cfg).pairs.map fun p => (p.id, p.inter)) = [(1, true), (2, false)] := by decide

/-- non-vacuity (`books_across_migration`): a borrow on an e-mode pair before the migration, a repayment after it -/
example :
    let cfg : Cfg := { cfgH with pairs := [⟨1, 1, 2, false, 1, true⟩],
                                 rates := [⟨1, 500000000000000000, 900000000000000000, 3, false, false, 0, 0⟩, ⟨2, 500000000000000000, 0, 4, false, false, 0, 0⟩] }
    allAccepted cfg (init cfg bankH pricesH) [.lend 1 1 1 100 1 1 0, .borrow 1 1 1 false 3 60 2 50 .err .err] = true ∧
    allAccepted (migrateCfg cfg) (run cfg (init cfg bankH pricesH) [.lend 1 1 1 100 1 1 0, .borrow 1 1 1 false 3 60 2 50 .err .err])
      [.repay 1 1 2 5 (.val 0 0), .draw 1 1 2 1 (.val 0 0)] = false ∧
    (step (migrateCfg cfg) (run cfg (init cfg bankH pricesH) [.lend 1 1 1 100 1 1 0, .borrow 1 1 1 false 3 60 2 50 .err .err]) (.repay 1 1 2 5 (.val 0 0))).toBool = true := by
  decide

end Comdex.C08
