import Comdex.Lemmas.AmmMatchExact
import Comdex.Lemmas.AmmMatchDust
import Comdex.Lemmas.AmmFindPriceBook
import Comdex.Lemmas.AmmPool
import Comdex.Lemmas.AmmRanged
import Comdex.Lemmas.AmmKeeper
import Comdex.Lemmas.AmmPlace
import Comdex.Lemmas.AmmOrders
import Comdex.Model.AmmMultiView
/-!
# C05 — Batch matching conserves coins and never fills an order beyond its limits

Model: `Comdex/Model/AmmMatch.lean` (x/liquidity/amm: match.go, orderbook.go, util.go).  All statements are about the
executable model that the correspondence harness ties to the real code on every run, and quantify over **every** list of
well-formed orders (`Wf`: positive price, `0 ≤ paid`, `0 ≤ open ≤ amount`, the remaining offer coin covers — buy: `paid ≤
offer`; sell: `paid + open ≤ offer`), every positive match price / last price, every insertion order, batch-id mix and
priority tie-break.  `Delta o o'` (Lemmas/AmmMatch.lean) collects the per-order facts between the state before (`o`) and
after (`o'`) matching.

Property clause → theorem
* "no order pays more than its offer coin, is filled beyond its amount" (and `FillOrder`'s panic is unreachable from every
  call site: `FulfillOrder`, the final loop of `DistributeOrderAmountToOrders`, through `DistributeOrderAmountToTick`,
  `MatchAtSinglePrice`, `Match`)                                        → `fill_within_limits` (+ `_single`, `_distribute`)
* "or trades at a price worse than its own limit price by more than one smallest quote unit per individual fill"
                                                                         → `fill_price_within_limit` (per fill, both directions),
                                                                           `fill_price_within_limit_engine` (every fill the engine makes)
* "An order that is matched receives a strictly positive amount"         → `matched_receives_positive`
* "quote paid by buyers ≥ quote received by sellers, dust < number of individual fills"
      lists of fills at one price / several rounds, given base conservation → `quote_dust_bounds`, `quote_dust_bounds_rounds`
      COMPOSED over every result of `Match` / `MatchAtSinglePrice` (nothing assumed but well-formed orders with distinct ids):
      `0 ≤ dust`, `lo·L ≤ dust·10¹⁸ ≤ hi·L + #fills·(10¹⁸−1)` with `L ≥ 0` the base coin defect D2 dropped; `L = 0` and
      `dust < #fills` wherever nothing is lost; the statement IS the monitor  → `quote_dust_bounds_match`, `quote_dust_bounds_single`
      the clause as written is FALSE of the code (consequence of D2)     → `quote_dust_counterexample`
* "matching exchanges exactly as much base coin as buyers receive and sellers pay"
      FALSE of the code (defect D2)                                      → `base_conserved_counterexample`
      true when nothing is lost in the re-runs of the pro-rata distribution → `base_conserved_partial`
      always true on the buy side                                        → `base_conserved_partial_buys`
      exactly when                                                       → `base_conserved_iff_lossless` (+ `_single`), `distribution_exact_iff_lossless`
* the price of a pair's first batch (`FindMatchPrice`)                   → `found_price_in_spread`, `found_price_iff_crossing`,
                                                                           `limit_respected_first_batch`, `price_uniform_first_batch`
* pool orders (the pool never buys above / sells below its curve price, never offers more than it holds)
      basic pools                                                        → `pool_buy_amount_on_curve`, `pool_sell_amount_on_curve`,
                                                                           `pool_*_orders_within_reserves_and_curve`, `pool_offers_within_reserves`
      ranged pools (virtual reserves; `DeriveTranslation` modelled)      → `ranged_buy_amount_on_curve`, `ranged_sell_amount_on_curve`,
                                                                           `ranged_buy_keeps_product`, `ranged_sell_keeps_product`,
                                                                           `ranged_pool_*_orders_within_reserves_and_curve`,
                                                                           `ranged_limit_orders_covered`, `ranged_pool_offers_within_reserves`
* stored orders across batches (`NewUserOrder` → matcher → `ApplyMatchResult` → expiry)
      limit orders                                                       → `order_within_amount` (+ `_after_batch`, `_step`, `_validated`),
                                                                           `offered_amount_within_open`
      the fitted price of a limit order (both directions)                → `place_ok_limit_order`, `placed_price_within_limit`
      limit + market + MM orders (MM cancellation)                       → `order_within_amount_all_orders`,
                                                                           `market_order_price_on_grid`, `mm_order_ticks_on_grid`
-/
namespace Comdex.C05
open Comdex Comdex.Amm

/-! ## every order after matching is an input order after allowed fills -/

/-- `OrderBook.Match` on `NewOrderBook(os…)`: never a panic; every order of the resulting book is one of the given orders
with the facts of `Delta` -/
theorem match_delta (os : List Order) (hw : ∀ o ∈ os, Wf o) (lp : Int) (hlp : 0 < lp) :
    matchBook (newBook os) lp = .noMatch ∨
    ∃ b' mp q, matchBook (newBook os) lp = .ok b' mp q ∧ ∀ o' ∈ b'.orders, ∃ o ∈ os, Delta o o' := by
  rcases matchBook_ok (newBook os) lp hlp (newBook_ok os hw) with h | ⟨b', mp, q, h, r⟩
  · left; exact h
  · right
    refine ⟨b', mp, q, h, ?_⟩
    intro o' ho'
    obtain ⟨o, ho, ro⟩ := bookReach_orders r ho'
    have hos := mem_newBook os o ho
    exact ⟨o, hos, reach_delta ro (hw o hos)⟩

/-- the same for `OrderBook.MatchAtSinglePrice` (first batch of a pair: price from `FindMatchPrice`; any price here) -/
theorem single_delta (os : List Order) (hw : ∀ o ∈ os, Wf o) (p : Int) (hp : 0 < p) :
    matchAtSinglePrice (newBook os) p = .noMatch ∨
    ∃ b' q, matchAtSinglePrice (newBook os) p = .ok b' q ∧ ∀ o' ∈ b'.orders, ∃ o ∈ os, Delta o o' := by
  rcases matchAtSinglePrice_ok (newBook os) p hp (newBook_ok os hw) with h | ⟨b', q, h, r⟩
  · left; exact h
  · right
    refine ⟨b', q, h, ?_⟩
    intro o' ho'
    obtain ⟨o, ho, ro⟩ := bookReach_orders r ho'
    have hos := mem_newBook os o ho
    exact ⟨o, hos, reach_delta ro (hw o hos)⟩

/-! ## fill_within_limits -/

/-- **No order pays more than its offer coin or is filled beyond its amount, and `FillOrder` never panics** — `Match`. -/
theorem fill_within_limits (os : List Order) (hw : ∀ o ∈ os, Wf o) (lp : Int) (hlp : 0 < lp) :
    matchBook (newBook os) lp ≠ .panic ∧
    ∀ b' mp q, matchBook (newBook os) lp = .ok b' mp q →
      ∀ o' ∈ b'.orders, 0 ≤ o'.paid ∧ o'.paid ≤ o'.offer ∧ 0 ≤ o'.opn ∧ o'.opn ≤ o'.amount := by
  rcases match_delta os hw lp hlp with h | ⟨b', mp, q, h, hd⟩
  · rw [h]; exact ⟨by simp, by intro _ _ _ hc; cases hc⟩
  · rw [h]
    refine ⟨by simp, ?_⟩
    intro b2 mp2 q2 he o' ho'
    cases he
    obtain ⟨o, _, d⟩ := hd o' ho'
    have w := d.wf
    have hpl := w.paid_le
    have hon := w.opn_nonneg
    refine ⟨w.paid_nonneg, ?_, w.opn_nonneg, w.opn_le⟩
    split at hpl <;> omega

/-- the same for `MatchAtSinglePrice` -/
theorem fill_within_limits_single (os : List Order) (hw : ∀ o ∈ os, Wf o) (p : Int) (hp : 0 < p) :
    matchAtSinglePrice (newBook os) p ≠ .panic ∧
    ∀ b' q, matchAtSinglePrice (newBook os) p = .ok b' q →
      ∀ o' ∈ b'.orders, 0 ≤ o'.paid ∧ o'.paid ≤ o'.offer ∧ 0 ≤ o'.opn ∧ o'.opn ≤ o'.amount := by
  rcases single_delta os hw p hp with h | ⟨b', q, h, hd⟩
  · rw [h]; exact ⟨by simp, by intro _ _ hc; cases hc⟩
  · rw [h]
    refine ⟨by simp, ?_⟩
    intro b2 q2 he o' ho'
    cases he
    obtain ⟨o, _, d⟩ := hd o' ho'
    have w := d.wf
    have hpl := w.paid_le
    have hon := w.opn_nonneg
    refine ⟨w.paid_nonneg, ?_, w.opn_nonneg, w.opn_le⟩
    split at hpl <;> omega

/-- the same for a direct call of `DistributeOrderAmountToOrders` / `DistributeOrderAmountToTick` with any amount `≥ 0` on
orders whose limit admits the price: it terminates (fuel not exhausted), does not divide by zero, does not panic -/
theorem fill_within_limits_distribute (os : List Order) (amt p : Int) (hp : 0 < p) (hamt : 0 ≤ amt)
    (hw : ∀ o ∈ os, Wf o ∧ Within o p) :
    (∃ os' q, distributeToOrders os amt p = some (os', q) ∧ All2 Reach os os') ∧
    (∃ os' q, distributeToTick os amt p = some (os', q) ∧ All2 Reach os os') :=
  ⟨distributeToOrders_ok os amt p hp hamt hw, distributeToTick_ok os amt p hp hamt hw⟩

/-- one `FillOrder` within `MatchableAmount` keeps the order within its limits (the step all of the above rest on) -/
theorem fill_within_limits_step (o : Order) (a p : Int) (hw : Wf o) (g : GoodFill o a p) :
    fillOrder o a p = some (fillRaw o a p) ∧ Wf (fillRaw o a p).1 :=
  ⟨fillOrder_good o a p g, fillRaw_wf o a p hw g⟩

/-! ## fill_price_within_limit -/

/-- **one fill**: a buyer filled for `a` at price `p ≤ L` pays `⌈p·a⌉ ≤ ⌈L·a⌉`; a seller filled at `p ≥ L` receives
`⌊p·a⌋ ≥ ⌊L·a⌋` — i.e. never worse than the limit price by a whole quote unit -/
theorem fill_price_within_limit (p L a : Int) (ha : 0 ≤ a) :
    (0 ≤ p → p ≤ L → quoteCeil p a ≤ quoteCeil L a) ∧ (0 ≤ L → L ≤ p → quoteFloor L a ≤ quoteFloor p a) :=
  ⟨fun h0 h => quoteCeil_mono p L a h0 h ha, fun h0 h => quoteFloor_mono L p a h0 h ha⟩

/-- what `FillOrder` books for such a fill is exactly that -/
theorem fill_price_booked (o : Order) (a p : Int) :
    (o.dir = .buy → (fillRaw o a p).1.paid = o.paid + quoteCeil p a ∧ (fillRaw o a p).1.received = o.received + a) ∧
    (o.dir = .sell → (fillRaw o a p).1.paid = o.paid + a ∧ (fillRaw o a p).1.received = o.received + quoteFloor p a) := by
  constructor <;> intro h <;> unfold fillRaw <;> rw [h] <;> exact ⟨rfl, rfl⟩

/-- **every fill the engine makes is at a price within the order's limit**, hence over a whole `Match`: a buyer pays at
most `limit × filled` plus less than one quote unit per fill, a seller receives at least `limit × filled` minus less than one
quote unit per fill (`fills` = ghost count of `FillOrder` calls on the order; raw prices are ×10^18 = `Dec.P`) -/
theorem fill_price_within_limit_engine (os : List Order) (hw : ∀ o ∈ os, Wf o) (lp : Int) (hlp : 0 < lp)
    (b' : Book) (mp q : Int) (h : matchBook (newBook os) lp = .ok b' mp q) :
    ∀ o' ∈ b'.orders, ∃ o ∈ os, o'.id = o.id ∧ o'.price = o.price ∧ o'.dir = o.dir ∧
      (o.dir = .buy → (o'.paid - o.paid) * Dec.P ≤ o.price * (o.opn - o'.opn) + ((o'.fills : Int) - o.fills) * (Dec.P - 1)) ∧
      (o.dir = .sell → o.price * (o.opn - o'.opn) ≤ (o'.received - o.received) * Dec.P + ((o'.fills : Int) - o.fills) * (Dec.P - 1)) := by
  rcases match_delta os hw lp hlp with h0 | ⟨b2, mp2, q2, h2, hd⟩
  · rw [h0] at h; cases h
  · rw [h2] at h; cases h
    intro o' ho'
    obtain ⟨o, ho, d⟩ := hd o' ho'
    exact ⟨o, ho, d.id_eq, d.price_eq, d.dir_eq, d.buy_price, d.sell_price⟩

/-- the same for `MatchAtSinglePrice`: it never touches a tick beyond the match price -/
theorem fill_price_within_limit_single (os : List Order) (hw : ∀ o ∈ os, Wf o) (p : Int) (hp : 0 < p)
    (b' : Book) (q : Int) (h : matchAtSinglePrice (newBook os) p = .ok b' q) :
    ∀ o' ∈ b'.orders, ∃ o ∈ os, o'.id = o.id ∧ o'.price = o.price ∧ o'.dir = o.dir ∧
      (o.dir = .buy → (o'.paid - o.paid) * Dec.P ≤ o.price * (o.opn - o'.opn) + ((o'.fills : Int) - o.fills) * (Dec.P - 1)) ∧
      (o.dir = .sell → o.price * (o.opn - o'.opn) ≤ (o'.received - o.received) * Dec.P + ((o'.fills : Int) - o.fills) * (Dec.P - 1)) := by
  rcases single_delta os hw p hp with h0 | ⟨b2, q2, h2, hd⟩
  · rw [h0] at h; cases h
  · rw [h2] at h; cases h
    intro o' ho'
    obtain ⟨o, ho, d⟩ := hd o' ho'
    exact ⟨o, ho, d.id_eq, d.price_eq, d.dir_eq, d.buy_price, d.sell_price⟩

/-! ## matched_receives_positive -/

/-- **an order that was filled (its open amount went down) received a strictly positive amount** — `Match` -/
theorem matched_receives_positive (os : List Order) (hw : ∀ o ∈ os, Wf o) (lp : Int) (hlp : 0 < lp)
    (b' : Book) (mp q : Int) (h : matchBook (newBook os) lp = .ok b' mp q) :
    ∀ o' ∈ b'.orders, ∃ o ∈ os, o'.id = o.id ∧ (o'.opn < o.opn → o.received < o'.received) := by
  rcases match_delta os hw lp hlp with h0 | ⟨b2, mp2, q2, h2, hd⟩
  · rw [h0] at h; cases h
  · rw [h2] at h; cases h
    intro o' ho'
    obtain ⟨o, ho, d⟩ := hd o' ho'
    exact ⟨o, ho, d.id_eq, d.positive⟩

/-- in the words of the code: for fresh orders (`NewBaseOrder`: open = amount, received = 0), `IsMatched() ⇒ received > 0` -/
theorem matched_receives_positive_fresh (os : List Order) (hw : ∀ o ∈ os, Wf o)
    (hfresh : ∀ o ∈ os, o.opn = o.amount ∧ o.received = 0) (lp : Int) (hlp : 0 < lp)
    (b' : Book) (mp q : Int) (h : matchBook (newBook os) lp = .ok b' mp q) :
    ∀ o' ∈ b'.orders, o'.isMatched = true → 0 < o'.received := by
  rcases match_delta os hw lp hlp with h0 | ⟨b2, mp2, q2, h2, hd⟩
  · rw [h0] at h; cases h
  · rw [h2] at h; cases h
    intro o' ho' hm
    obtain ⟨o, ho, d⟩ := hd o' ho'
    obtain ⟨f1, f2⟩ := hfresh o ho
    unfold Order.isMatched at hm
    simp only [decide_eq_true_eq] at hm
    have := d.positive (by rw [f1, ← d.amount_eq]; exact hm)
    omega

theorem matched_receives_positive_single (os : List Order) (hw : ∀ o ∈ os, Wf o) (p : Int) (hp : 0 < p)
    (b' : Book) (q : Int) (h : matchAtSinglePrice (newBook os) p = .ok b' q) :
    ∀ o' ∈ b'.orders, ∃ o ∈ os, o'.id = o.id ∧ (o'.opn < o.opn → o.received < o'.received) := by
  rcases single_delta os hw p hp with h0 | ⟨b2, q2, h2, hd⟩
  · rw [h0] at h; cases h
  · rw [h2] at h; cases h
    intro o' ho'
    obtain ⟨o, ho, d⟩ := hd o' ho'
    exact ⟨o, ho, d.id_eq, d.positive⟩

/-! ## quote_dust_bounds -/

/-- **Rounding dust of the fills at one price**, given that base coin is conserved among them (`Σ bs = Σ ss`): buyers pay
`Σ⌈p·b⌉`, sellers receive `Σ⌊p·s⌋`; the difference is `≥ 0` and `< #fills` (it is 0 when there is no fill) -/
theorem quote_dust_bounds (p : Int) (hp : 0 ≤ p) (bs ss : List Int) (hb : ∀ a ∈ bs, 0 ≤ a) (hs : ∀ a ∈ ss, 0 ≤ a)
    (hc : sumInt bs = sumInt ss) :
    0 ≤ roundDust p bs ss ∧ (0 < bs.length + ss.length → roundDust p bs ss < bs.length + ss.length) ∧
    (bs.length + ss.length = 0 → roundDust p bs ss = 0) := by
  obtain ⟨h0, h1⟩ := roundDust_bounds p hp bs ss hb hs hc
  refine ⟨h0, ?_, ?_⟩
  · intro hn
    have hP := P_pos
    by_contra hge
    have h2 : ((bs.length : Int) + ss.length) * Dec.P ≤ roundDust p bs ss * Dec.P :=
      Int.mul_le_mul_of_nonneg_right (by omega) (by omega)
    have h3 : ((bs.length : Int) + ss.length) * (Dec.P - 1) = ((bs.length : Int) + ss.length) * Dec.P - ((bs.length : Int) + ss.length) := by
      ring
    omega
  · intro hn
    have e1 : bs = [] := by cases bs with | nil => rfl | cons _ _ => simp at hn
    have e2 : ss = [] := by cases ss with | nil => rfl | cons _ _ => simp at hn
    subst e1 e2
    rfl

/-- a round of the two-sided loop of `Match`: price, buy fills, sell fills -/
abbrev Round := Int × List Int × List Int

def roundsDust (rs : List Round) : Int := sumInt (rs.map fun r => roundDust r.1 r.2.1 r.2.2)
def roundsFills (rs : List Round) : Int := sumInt (rs.map fun r => (r.2.1.length : Int) + r.2.2.length)

/-- **dust over several rounds at different prices** (what `Match` returns as `quoteCoinDiff`), each round conserving base
coin: `0 ≤ dust` and `dust·10^18 ≤ #fills·(10^18 − 1)`, hence `dust < #fills` as soon as there is a fill -/
theorem quote_dust_bounds_rounds (rs : List Round)
    (h : ∀ r ∈ rs, 0 ≤ r.1 ∧ (∀ a ∈ r.2.1, 0 ≤ a) ∧ (∀ a ∈ r.2.2, 0 ≤ a) ∧ sumInt r.2.1 = sumInt r.2.2) :
    0 ≤ roundsDust rs ∧ roundsDust rs * Dec.P ≤ roundsFills rs * (Dec.P - 1) ∧
    (0 < roundsFills rs → roundsDust rs < roundsFills rs) := by
  have key : 0 ≤ roundsDust rs ∧ roundsDust rs * Dec.P ≤ roundsFills rs * (Dec.P - 1) := by
    induction rs with
    | nil => simp [roundsDust, roundsFills, sumInt]
    | cons r rs ih =>
      obtain ⟨hp, hb, hs, hc⟩ := h r (by simp)
      obtain ⟨a0, a1⟩ := roundDust_bounds r.1 hp r.2.1 r.2.2 hb hs hc
      obtain ⟨i0, i1⟩ := ih (fun x hx => h x (by simp [hx]))
      simp only [roundsDust, roundsFills, List.map_cons, sumInt] at *
      constructor
      · omega
      · nlinarith
  refine ⟨key.1, key.2, ?_⟩
  intro hn
  have hP := P_pos
  by_contra hge
  have h2 : roundsFills rs * Dec.P ≤ roundsDust rs * Dec.P := Int.mul_le_mul_of_nonneg_right (by omega) (by omega)
  have h3 : roundsFills rs * (Dec.P - 1) = roundsFills rs * Dec.P - roundsFills rs := by ring
  have := key.2
  omega

/-! ## base conservation -/

/-- **`DistributeOrderAmountToOrders` hands out exactly the amount it was given — PARTIAL**: true when the orders that are
finally filled, after the function's re-runs on fewer orders, can still absorb the amount (`lossless`, a decidable
predicate mirroring the recursion).  Without it the statement is false: `base_conserved_counterexample`. -/
theorem base_conserved_partial (os : List Order) (amt p : Int) (hp : 0 < p) (hamt : 0 ≤ amt) (hw : ∀ o ∈ os, Wf o)
    (hl : lossless (os.length + 1) os amt p = true) :
    ∃ plan, planOrders (os.length + 1) os amt p = some plan ∧ planSum plan = amt := by
  cases h : planOrders (os.length + 1) os amt p with
  | none =>
    -- impossible: the function terminates within its fuel and does not divide by zero (needs no `Within` here)
    exfalso
    have : ∀ (fuel : Nat) (l : List Order), (∀ o ∈ l, Wf o) → l.length < fuel → planOrders fuel l amt p ≠ none := by
      intro fuel
      induction fuel with
      | zero => intro l _ hl; omega
      | succ fuel ih =>
        intro l hwl hlen
        unfold planOrders
        rw [no_div_by_zero l p hp hwl]
        simp only [Bool.false_eq_true, if_false]
        have hlen' := shares_length l amt p hp hwl hamt
        split
        · simp
        · rename_i hne
          have hlt : (List.filter (fun oa => shareOk oa.1 oa.2 p) (shares l amt p)).length < (shares l amt p).length := by
            have := List.length_filter_le (fun oa => shareOk oa.1 oa.2 p) (shares l amt p); omega
          split
          · apply ih _ (fun o ho => hwl o (List.dropLast_subset l ho))
            rw [List.length_dropLast]
            have : l ≠ [] := by intro e; subst e; simp [shares] at hlt
            have : 0 < l.length := List.length_pos_iff.mpr this
            omega
          · apply ih
            · intro o ho
              rw [List.mem_map] at ho
              obtain ⟨oa, hoa, rfl⟩ := ho
              exact hwl _ (shares_mem l amt p hp hwl hamt oa (List.mem_filter.mp hoa).1).1
            · rw [List.length_map]; omega
    exact this _ os hw (by omega) h
  | some plan => exact ⟨plan, rfl, planOrders_sum _ os amt p hp hamt hw hl plan h⟩

/-- **the buy side never loses anything**: a list of buy orders that can absorb `amt` is handed exactly `amt` -/
theorem base_conserved_partial_buys (os : List Order) (amt p : Int) (hp : 0 < p) (hamt : 0 ≤ amt) (hw : ∀ o ∈ os, Wf o)
    (hb : ∀ o ∈ os, o.dir = .buy) (hle : amt ≤ totalMatchable os p) :
    ∃ plan, planOrders (os.length + 1) os amt p = some plan ∧ planSum plan = amt :=
  base_conserved_partial os amt p hp hamt hw (lossless_buys _ os amt p hp hamt hw hb hle)

/-- **`MatchAtSinglePrice` on any book of distinct well-formed orders — base coin, PARTIAL; quote coin, exact.**
With `x` the amount found by `FindMatchableAmountAtSinglePrice`: the buyers receive exactly `x` base coin
(`ticksFilled` = sum of the decreases of the open amounts = base coin received by buyers / paid by sellers, see
`Delta.buy_recv`, `Delta.sell_paid`); the sellers pay exactly `x` **if** nothing is lost in the re-runs of the pro-rata
distribution on the one partially filled sell group (`ticksLossless`, decidable); and the returned `quoteCoinDiff` is
exactly the quote coin paid by the buyers minus the quote coin received by the sellers. -/
theorem base_conserved_partial_single (os : List Order) (hw : ∀ o ∈ os, Wf o) (hnd : os.Nodup) (p : Int) (hp : 0 < p)
    (b' : Book) (q : Int) (h : matchAtSinglePrice (newBook os) p = .ok b' q) :
    ∃ x, findMatchableAmount (newBook os) p = some x ∧ 0 < x ∧
      q = ticksQuote (newBook os).buys b'.buys + ticksQuote (newBook os).sells b'.sells ∧
      ticksFilled (newBook os).buys b'.buys = x ∧
      (ticksLossless (newBook os).sells x p = true →
        ticksFilled (newBook os).sells b'.sells = ticksFilled (newBook os).buys b'.buys) := by
  obtain ⟨x, h1, h2, h3, h4, h5⟩ :=
    matchAtSinglePrice_account (newBook os) p hp (newBook_ok os hw) (newBook_nodup os hnd) b' q h
  exact ⟨x, h1, h2, h3, h4, fun hl => by rw [h5 hl, h4]⟩

/-- **`OrderBook.Match` on any book of orders with distinct ids — base coin, PARTIAL; quote coin, exact.**
The returned `quoteCoinDiff` is exactly the quote coin paid by the buyers minus the quote coin received by the sellers
(what is left in escrow is what is sent to the dust collector); and the base coin received by the buyers equals the base coin
paid by the sellers **if** no sell-side distribution — in the single-price step at the last price or in any iteration of the
two-sided loop — lost a remainder (`matchLossless`, a decidable ghost computed along the run; the buy side never loses
anything).  `ticksFilled` sums the decreases of the open amounts, which for a buyer is the base coin received and for a seller
the base coin paid (`Delta.buy_recv`, `Delta.sell_paid`). -/
theorem base_conserved_partial_match (os : List Order) (hw : ∀ o ∈ os, Wf o) (hids : (os.map (·.id)).Nodup)
    (lp : Int) (hlp : 0 < lp) (b' : Book) (mp q : Int) (h : matchBook (newBook os) lp = .ok b' mp q) :
    q = ticksQuote (newBook os).buys b'.buys + ticksQuote (newBook os).sells b'.sells ∧
    (matchLossless (newBook os) lp = true →
      ticksFilled (newBook os).buys b'.buys = ticksFilled (newBook os).sells b'.sells) :=
  matchBook_account (newBook os) lp hlp (newBook_ok os hw) (newBook_ids os hids) b' mp q h

/-- **one iteration of the two-sided loop of `Match`** (`DistributeOrderAmountToTick` on a buy tick and on a sell tick with
the same amount `X ≤` both ticks' matchable totals, match.go:283-294): the buy tick is filled for exactly `X`; the sell tick
too if nothing is lost; both returned quote differences are exact (the building block of `base_conserved_partial_match`). -/
theorem base_conserved_partial_step (bt st : List Order) (X p : Int) (hp : 0 < p) (hX : 0 ≤ X)
    (hb : ∀ o ∈ bt, Wf o ∧ o.dir = .buy) (hs : ∀ o ∈ st, Wf o) (hbn : bt.Nodup) (hsn : st.Nodup)
    (hXb : X ≤ totalMatchable bt p)
    (bt' st' : List Order) (q1 q2 : Int)
    (h1 : distributeToTick bt X p = some (bt', q1)) (h2 : distributeToTick st X p = some (st', q2)) :
    filledOf bt bt' = X ∧ q1 = quoteOf bt bt' ∧ q2 = quoteOf st st' ∧
    (groupsLossless (groupOrders st) X p = true → filledOf st st' = filledOf bt bt') := by
  obtain ⟨a1, a2⟩ := distributeToTick_account bt X p hp hX (fun o ho => (hb o ho).1) hbn bt' q1 h1
  obtain ⟨c1, c2⟩ := distributeToTick_account st X p hp hX hs hsn st' q2 h2
  have hl : groupsLossless (groupOrders bt) X p = true := by
    apply groupsLossless_buys _ X p hp hX
    · intro g hg o ho; exact hb o (mem_groupOrders bt g hg o ho)
    · rw [sum_groupOrders]; exact hXb
  exact ⟨a2 hl, a1, c1, fun h => by rw [c2 h, a2 hl]⟩

/-! ### the witness of defect D2 (DESIGN.md §7): two sells 15000 @ 0.0001 of one batch, a buy 16000 @ 0.0002, last price 0.00009 -/

def d2s1 : Order := { id := 0, kind := 2, oid := 0, dir := .sell, price := 100000000000000, amount := 15000,
                      offer := 15000, opn := 15000, paid := 0, received := 0, batchId := 0 }
def d2s2 : Order := { d2s1 with id := 1 }
def d2b : Order := { id := 2, kind := 2, oid := 0, dir := .buy, price := 200000000000000, amount := 16000,
                     offer := 4, opn := 16000, paid := 0, received := 0, batchId := 0 }
def d2Orders : List Order := [d2s1, d2s2, d2b]
def d2After : List Order :=
  [{ d2s1 with opn := 0, paid := 15000, received := 1, fills := 1 }, d2s2,
   { d2b with opn := 0, paid := 2, received := 16000, fills := 1 }]

theorem d2_wf : ∀ o ∈ d2Orders, Wf o := by
  intro o ho
  simp only [d2Orders, List.mem_cons, List.not_mem_nil, or_false] at ho
  rcases ho with rfl | rfl | rfl <;> exact ⟨by decide, by decide, by decide, by decide, by decide⟩

/-- **Base coin is NOT conserved by the code as it is**: on the witness, `Match` fills the buyer for 16000 base coin while the
sellers together hand over 15000 (the pro-rata shares 8000 + 8000 are each worth 0 quote units, the re-run on the first seller
alone can absorb only 15000 and the remaining 1000 are silently dropped, match.go:385-390). -/
theorem base_conserved_counterexample :
    matchBook (newBook d2Orders) 90000000000000 =
      .ok ⟨[⟨200000000000000, [{ d2b with opn := 0, paid := 2, received := 16000, fills := 1 }]⟩],
           [⟨100000000000000, [{ d2s1 with opn := 0, paid := 15000, received := 1, fills := 1 }, d2s2]⟩]⟩
          100000000000000 1 ∧
    buyReceived d2Orders d2After = 16000 ∧ sellPaid d2Orders d2After = 15000 ∧
    monBaseConserved d2Orders d2After = false ∧
    lossless 3 (sortOrders [d2s1, d2s2]) 16000 100000000000000 = false := by
  refine ⟨by decide, by decide, by decide, by decide, by decide⟩

/-- on the D2 witness the ghost of `base_conserved_partial_match` is false (the theorem does not apply there) -/
example : matchLossless (newBook d2Orders) 90000000000000 = false := by decide

/-! ## non-vacuity: the hypotheses are satisfiable on non-trivial books -/

def exBuy1 : Order := { id := 0, kind := 0, oid := 7, dir := .buy, price := 1100000000000000000, amount := 10000,
                        offer := 11000, opn := 10000, paid := 0, received := 0, batchId := 2 }
def exBuy2 : Order := { id := 1, kind := 0, oid := 8, dir := .buy, price := 1100000000000000000, amount := 5000,
                        offer := 5500, opn := 5000, paid := 0, received := 0, batchId := 0 }
def exSell1 : Order := { id := 2, kind := 1, oid := 1, dir := .sell, price := 900000000000000000, amount := 12000,
                         offer := 12000, opn := 12000, paid := 0, received := 0, batchId := 0 }
def exOrders : List Order := [exBuy1, exBuy2, exSell1]

theorem ex_wf : ∀ o ∈ exOrders, Wf o := by
  intro o ho
  simp only [exOrders, List.mem_cons, List.not_mem_nil, or_false] at ho
  rcases ho with rfl | rfl | rfl <;> exact ⟨by decide, by decide, by decide, by decide, by decide⟩

/-- a real match happens on the example (so the theorems above are not about `noMatch` only): all three orders are
filled, the older batch first, base coin 12000 = 12000, dust 0 -/
def exResult : Option (Int × Int × List (Nat × Int × Int × Int)) :=
  match matchBook (newBook exOrders) 1000000000000000000 with
  | .ok b' mp q => some (mp, q, b'.orders.map fun (o : Order) => (o.id, o.opn, o.paid, o.received))
  | _ => none

example : exResult =
    some (1000000000000000000, 0, [(0, 0, 10000, 10000), (1, 3000, 2000, 2000), (2, 0, 12000, 12000)]) := by rfl

/-- the hypotheses of `base_conserved_partial_match` hold on the example (distinct ids, nothing lost) -/
example : (exOrders.map (·.id)).Nodup ∧ matchLossless (newBook exOrders) 1000000000000000000 = true := by decide

example : (fill_within_limits exOrders ex_wf 1000000000000000000 (by decide)).1 =
    (fill_within_limits exOrders ex_wf 1000000000000000000 (by decide)).1 := rfl

/-- `quote_dust_bounds` on a non-trivial round: buyers 7 + 5 at price 0.3, sellers 12: pay ⌈2.1⌉+⌈1.5⌉ = 5, receive ⌊3.6⌋ = 3 -/
example : roundDust 300000000000000000 [7, 5] [12] = 2 ∧ sumInt [7, 5] = sumInt [12] := by decide

/-- `base_conserved_partial`'s hypothesis holds on a partially filled group of sells whose shares are worth something -/
example : lossless 3 [{ d2s1 with amount := 30000, opn := 30000, offer := 30000 }, { d2s2 with amount := 30000, opn := 30000, offer := 30000 }]
    31000 100000000000000 = true := by decide


/-! ## the dust clause on every result of the engine (composed over all ticks, groups and rounds)

`pre = (newBook os).orders`, `post = b'.orders`: the orders of the book before and after the call, in book order; `buyPaid`,
`sellReceived`, `buyReceived`, `sellPaid`, `fillCount`, `baseLost = buyReceived − sellPaid` are the sums the driver computes on
the REAL result (`Model/AmmMatch.lean`, `Model/AmmDust.lean`); `priceLo` / `priceHi` = lowest sell / highest buy limit price. -/

theorem dust_lt_fills_of_le (q n : Int) (hn : 0 ≤ n) (h : q * Dec.P ≤ n * (Dec.P - 1)) : q < max n 1 := by
  have hP := P_pos
  have h3 : n * (Dec.P - 1) = n * Dec.P - n := by ring
  by_cases hn1 : 1 ≤ n
  · rw [Int.max_eq_left hn1]
    by_contra hge
    have h2 : n * Dec.P ≤ q * Dec.P := Int.mul_le_mul_of_nonneg_right (by omega) (by omega)
    omega
  · have h0 : n = 0 := by omega
    subst h0
    by_contra hge
    have h2 : 1 * Dec.P ≤ q * Dec.P := Int.mul_le_mul_of_nonneg_right (by omega) (by omega)
    omega

/-- what `monQuoteDustAt … = true` says, spelled out -/
theorem monQuoteDustAt_iff (pre post : List Order) (q lo hi : Int) :
    monQuoteDustAt pre post q lo hi = true ↔
      (q = buyPaid pre post - sellReceived pre post ∧ 0 ≤ q ∧ 0 ≤ baseLost pre post ∧ 0 ≤ fillCount pre post ∧
       lo * baseLost pre post ≤ q * Dec.P ∧ q * Dec.P ≤ hi * baseLost pre post + fillCount pre post * (Dec.P - 1)) := by
  unfold monQuoteDustAt
  simp only [Bool.and_eq_true, beq_iff_eq, decide_eq_true_eq]
  constructor
  · rintro ⟨⟨⟨⟨⟨a, b⟩, c⟩, d⟩, e⟩, f⟩; exact ⟨a, b, c, d, e, f⟩
  · rintro ⟨a, b, c, d, e, f⟩; exact ⟨⟨⟨⟨⟨a, b⟩, c⟩, d⟩, e⟩, f⟩

/-- **quote_dust_bounds for every result of `OrderBook.Match`** (single-price step at the last price + the two-sided loop,
ticks touched several times, any batch / priority mix).  The returned `quoteCoinDiff` is exactly what the buyers paid minus
what the sellers received; it is `≥ 0`; the buyers never receive less base coin than the sellers pay (`0 ≤ L`); and
`lo·L ≤ quoteCoinDiff·10¹⁸ ≤ hi·L + #fills·(10¹⁸ − 1)`: the dust is the value of the base coin the sell side failed to deliver
(defect D2; priced between the lowest sell and the highest buy limit of the book) plus LESS THAN ONE quote unit per individual
fill.  Where nothing is lost (`matchLossless`, decidable from the input; the buy side never loses) this is the property's clause
literally: `0 ≤ dust < #fills` (`dust = 0` without fills).  Hypotheses: well-formed orders with distinct ids, positive last
price — nothing else.  The first conjunct is literally what the driver evaluates on every REAL `Match` result (monitor
`quote_dust`). -/
theorem quote_dust_bounds_match (os : List Order) (hw : ∀ o ∈ os, Wf o) (hids : (os.map (·.id)).Nodup)
    (lp : Int) (hlp : 0 < lp) (b' : Book) (mp q : Int) (h : matchBook (newBook os) lp = .ok b' mp q) :
    monQuoteDustAt (newBook os).orders b'.orders q (priceLo (newBook os).orders) (priceHi (newBook os).orders) = true ∧
    (matchLossless (newBook os) lp = true →
      baseLost (newBook os).orders b'.orders = 0 ∧ monDustBelowFills (newBook os).orders b'.orders q = true) := by
  have hb := newBook_ok os hw
  have hn := newBook_ids os hids
  have hm := matchBook_monDust (newBook os) lp hlp hb hn (newBook_nonempty os) b' mp q h
  refine ⟨hm, ?_⟩
  obtain ⟨_, m2, _, m4, _, m6⟩ := (monQuoteDustAt_iff _ _ _ _ _).mp hm
  intro hl
  have hex := (matchBook_exact (newBook os) lp hlp hb hn b' mp q h).2.mpr hl
  rcases matchBook_ok (newBook os) lp hlp hb with h0 | ⟨b2, mp2, q2, h2, hr⟩
  · rw [h0] at h; cases h
  · rw [h2] at h; cases h
    obtain ⟨_, _, s2, s3⟩ := book_sums (newBook os) b' hb hr
    have hL : baseLost (newBook os).orders b'.orders = 0 := by
      unfold baseLost; rw [s2, s3]; omega
    refine ⟨hL, ?_⟩
    rw [hL] at m6
    simp only [Int.mul_zero, Int.zero_add] at m6
    unfold monDustBelowFills
    simp only [Bool.and_eq_true, decide_eq_true_eq]
    exact ⟨m2, dust_lt_fills_of_le q _ m4 m6⟩

/-- the same for `MatchAtSinglePrice` (a pair's first batch), exact in the price: `p·L ≤ quoteCoinDiff·10¹⁸ ≤ p·L + #fills·(10¹⁸−1)` -/
theorem quote_dust_bounds_single (os : List Order) (hw : ∀ o ∈ os, Wf o) (hnd : os.Nodup) (p : Int) (hp : 0 < p)
    (b' : Book) (q : Int) (h : matchAtSinglePrice (newBook os) p = .ok b' q) :
    monQuoteDustAt (newBook os).orders b'.orders q p p = true ∧
    (∀ x, findMatchableAmount (newBook os) p = some x → ticksLossless (newBook os).sells x p = true →
      baseLost (newBook os).orders b'.orders = 0 ∧ monDustBelowFills (newBook os).orders b'.orders q = true) := by
  have hb := newBook_ok os hw
  have hn := newBook_nodup os hnd
  have hm := matchAtSinglePrice_monDust (newBook os) p hp hb hn b' q h
  refine ⟨hm, ?_⟩
  obtain ⟨_, m2, _, m4, _, m6⟩ := (monQuoteDustAt_iff _ _ _ _ _).mp hm
  intro x hx hl
  obtain ⟨x', hx', e1, _, e3⟩ := matchAtSinglePrice_exact (newBook os) p hp hb hn b' q h
  rw [hx] at hx'; cases hx'
  have hex := e3.mpr hl
  rcases matchAtSinglePrice_ok (newBook os) p hp hb with h0 | ⟨b2, q2, h2, hr⟩
  · rw [h0] at h; cases h
  · rw [h2] at h; cases h
    obtain ⟨_, _, s2, s3⟩ := book_sums (newBook os) b' hb hr
    have hL : baseLost (newBook os).orders b'.orders = 0 := by
      unfold baseLost; rw [s2, s3]; omega
    refine ⟨hL, ?_⟩
    rw [hL] at m6
    simp only [Int.mul_zero, Int.zero_add] at m6
    unfold monDustBelowFills
    simp only [Bool.and_eq_true, decide_eq_true_eq]
    exact ⟨m2, dust_lt_fills_of_le q _ m4 m6⟩

/-! ### the clause as written (`dust < #fills` unconditionally) is FALSE of the code: a consequence of defect D2

sells 1000 @ 0.1 and 5 × 10 @ 0.1 (one batch), a buy of 1045 @ 0.2, last price 0.09.  The loop trades 1045 at 0.1: the buyer is
filled for 1045 and pays ⌈104.5⌉ = 105.  The sell tick gets 1045 of its 1050 to distribute: pro-rata 995 + 5×9, the remainder 5
tops the big seller up to 1000; the five shares of 9 are worth ⌊0.9⌋ = 0, so the function re-runs on the big seller alone with
the same 1045, fills him for 1000 (he receives 100) and drops 45.  `quoteCoinDiff` = 5 with 2 individual fills. -/

def dustS : Order := { id := 0, kind := 2, oid := 0, dir := .sell, price := 100000000000000000, amount := 1000,
                       offer := 1000, opn := 1000, paid := 0, received := 0, batchId := 0 }
def dustSm (i : Nat) : Order := { dustS with id := i, amount := 10, offer := 10, opn := 10 }
def dustB : Order := { id := 6, kind := 2, oid := 0, dir := .buy, price := 200000000000000000, amount := 1045,
                       offer := 209, opn := 1045, paid := 0, received := 0, batchId := 0 }
def dustOrders : List Order := [dustS, dustSm 1, dustSm 2, dustSm 3, dustSm 4, dustSm 5, dustB]

theorem dust_wf : ∀ o ∈ dustOrders, Wf o := by
  intro o ho
  simp only [dustOrders, List.mem_cons, List.not_mem_nil, or_false] at ho
  rcases ho with rfl | rfl | rfl | rfl | rfl | rfl | rfl <;> exact ⟨by decide, by decide, by decide, by decide, by decide⟩

/-- **`dust < #fills` is NOT true of the code as it is** (only of results that conserve base coin): on the witness `Match`
returns `quoteCoinDiff = 5` after 2 individual fills; 45 base coin were dropped (D2), worth 4.5 quote units, which the buyer
paid and nobody received.  The strongest true form (`quote_dust_bounds_match`) holds on the witness. -/
theorem quote_dust_counterexample :
    ∃ b', matchBook (newBook dustOrders) 90000000000000000 = .ok b' 100000000000000000 5 ∧
      fillCount (newBook dustOrders).orders b'.orders = 2 ∧ baseLost (newBook dustOrders).orders b'.orders = 45 ∧
      monDustBelowFills (newBook dustOrders).orders b'.orders 5 = false ∧
      monQuoteDustAt (newBook dustOrders).orders b'.orders 5 (priceLo (newBook dustOrders).orders)
        (priceHi (newBook dustOrders).orders) = true ∧
      matchLossless (newBook dustOrders) 90000000000000000 = false := by
  refine ⟨⟨[⟨200000000000000000, [{ dustB with opn := 0, paid := 105, received := 1045, fills := 1 }]⟩],
           [⟨100000000000000000, [{ dustS with opn := 0, paid := 1000, received := 100, fills := 1 },
              dustSm 1, dustSm 2, dustSm 3, dustSm 4, dustSm 5]⟩]⟩, ?_, ?_, ?_, ?_, ?_, ?_⟩ <;> decide

/-- non-vacuity of `quote_dust_bounds_match`: its hypotheses hold on the witness (and on `exOrders`, where nothing is lost) -/
example : (∀ o ∈ dustOrders, Wf o) ∧ (dustOrders.map (·.id)).Nodup ∧
    (exOrders.map (·.id)).Nodup ∧ matchLossless (newBook exOrders) 1000000000000000000 = true :=
  ⟨dust_wf, by decide, by decide, by decide⟩

/-- non-vacuity of `quote_dust_bounds_single`: the D2 single-price book (three user orders of one batch) really matches at 0.0001 -/
example : d2Orders.Nodup ∧ (match matchAtSinglePrice (newBook d2Orders) 100000000000000 with | .ok _ _ => true | _ => false) = true :=
  ⟨by decide, by decide⟩

/-! ## FindMatchPrice (the price of a pair's first batch) — modelled, no longer an input

`T prec k` is the tick of index `k` at precision `prec` (`TickFromIndex`), `hiIdx prec` the index of `HighestTick`. -/

/-- the order prices are ticks of precision `prec` (what `ValidateMsgLimitOrder` / `PriceLimits` establish) -/
def OnGrid (os : List Order) (prec : Nat) : Prop :=
  ∀ o ∈ os, ∃ k, k ≤ hiIdx prec ∧ o.price = ((T prec k : Nat) : Int)

/-- **a match price found by `FindMatchPrice` lies between the lowest sell and the highest buy price of the book
(inclusive), is positive and on the tick grid** -/
theorem found_price_in_spread (os : List Order) (prec : Nat) (hprec : 10 ^ prec < 2 ^ 300 - 1) (hw : ∀ o ∈ os, Wf o)
    (hg : OnGrid os prec) (p : Int) (h : findMatchPrice (makeView (newBook os)) prec = some p) :
    ∃ ls hb, (makeView (newBook os)).lowestSellPrice = some ls ∧ (makeView (newBook os)).highestBuyPrice = some hb ∧
      ls ≤ p ∧ p ≤ hb ∧ 0 < p ∧ isTick p prec = true ∧ monMatchPrice (makeView (newBook os)) prec p = true := by
  obtain ⟨hb, ls, hhb, hls, hc⟩ := findMatchPrice_some_inv _ prec p h
  obtain ⟨k, a, b, hf, ha, hb', hak, hkb⟩ :=
    findMatchPrice_crossing _ prec hprec (makeView_ok os prec hw hg) hb ls hhb hls hc
  rw [hf] at h; cases h
  have h1 : ls ≤ ((T prec k : Nat) : Int) := by rw [ha]; exact_mod_cast T_mono prec hak
  have h2 : ((T prec k : Nat) : Int) ≤ hb := by rw [hb']; exact_mod_cast T_mono prec hkb
  have h3 : (0 : Int) < ((T prec k : Nat) : Int) := by
    have := T_pos prec k
    have : 0 < T prec k := Nat.lt_of_lt_of_le (Nat.pow_pos (by omega)) this
    exact_mod_cast this
  refine ⟨ls, hb, hls, hhb, h1, h2, h3, isTick_T prec k, ?_⟩
  unfold monMatchPrice
  rw [hhb, hls]
  have hTpos : 0 < T prec k := by exact_mod_cast h3
  simp [h1, h2, hTpos, isTick_T prec k]

/-- **found ⇔ the book crosses** (there is a buy and a sell, and the highest buy price is not below the lowest sell price) -/
theorem found_price_iff_crossing (os : List Order) (prec : Nat) (hprec : 10 ^ prec < 2 ^ 300 - 1)
    (hw : ∀ o ∈ os, Wf o) (hg : OnGrid os prec) :
    (findMatchPrice (makeView (newBook os)) prec).isSome = monCrossing (makeView (newBook os)) := by
  cases hf : findMatchPrice (makeView (newBook os)) prec with
  | some p =>
    obtain ⟨hb, ls, hhb, hls, hc⟩ := findMatchPrice_some_inv _ prec p hf
    unfold monCrossing; rw [hhb, hls]; simp [hc]
  | none =>
    unfold monCrossing
    cases hhb : (makeView (newBook os)).highestBuyPrice with
    | none => simp
    | some hb =>
      cases hls : (makeView (newBook os)).lowestSellPrice with
      | none => simp
      | some ls =>
        simp only [Option.isSome_none]
        by_cases hc : ls ≤ hb
        · obtain ⟨k, _, _, hf', _⟩ :=
            findMatchPrice_crossing _ prec hprec (makeView_ok os prec hw hg) hb ls hhb hls hc
          rw [hf] at hf'; cases hf'
        · simp [hc]

/-- **at a found match price both sides of the book offer a positive amount** (amounts as the order-book view counts them:
every order's matchable amount at its OWN price) -/
theorem found_price_amounts_positive (os : List Order) (prec : Nat) (hprec : 10 ^ prec < 2 ^ 300 - 1)
    (hw : ∀ o ∈ os, Wf o) (hg : OnGrid os prec) (p : Int) (h : findMatchPrice (makeView (newBook os)) prec = some p) :
    0 < (makeView (newBook os)).buyAmountOver p ∧ 0 < (makeView (newBook os)).sellAmountUnder p := by
  obtain ⟨ls, hb, hls, hhb, h1, h2, _⟩ := found_price_in_spread os prec hprec hw hg p h
  have hv := makeView_ok os prec hw hg
  exact ⟨(View.buy_pos_iff hv hb hhb p).mpr h2, (View.sell_pos_iff hv ls hls p).mpr h1⟩

/-- …but NOT necessarily a positive `MatchableAmount` at the match price itself: a buy of 1 @ 2.0 and a sell of 3 @ 0.4
cross, `FindMatchPrice` answers 0.4, and at 0.4 the buyer's one unit is worth ⌊0.4⌋ = 0 quote units, so `MatchableAmount`
is 0 and `MatchAtSinglePrice` matches nothing (harmless: the batch simply does not trade; ~1.7 % of the generated
first batches with a found price). -/
theorem found_price_unmatchable_counterexample :
    let b : Order := { id := 0, kind := 2, oid := 0, dir := .buy, price := 2000000000000000000, amount := 1, offer := 2,
                       opn := 1, paid := 0, received := 0, batchId := 0 }
    let s : Order := { id := 1, kind := 2, oid := 0, dir := .sell, price := 400000000000000000, amount := 3, offer := 3,
                       opn := 3, paid := 0, received := 0, batchId := 0 }
    findMatchPrice (makeView (newBook [b, s])) 1 = some 400000000000000000 ∧
    totalMatchable [b] 400000000000000000 = 0 ∧ matchFirstBatch (newBook [b, s]) 1 = .noMatch := by
  set_option maxRecDepth 20000 in
  refine ⟨by decide, by decide, by decide⟩

/-- the keeper's first batch (`FindMatchPrice` then `MatchAtSinglePrice` at the price the MODEL finds): never a panic; every
order of the result is an input order with the facts of `Delta` — **limit_respected** (`Delta.buy_price`, `Delta.sell_price`,
`Delta.wf`, `Delta.positive`) no longer for an arbitrary fed price but for the price `FindMatchPrice` returns -/
theorem limit_respected_first_batch (os : List Order) (prec : Nat) (hprec : 10 ^ prec < 2 ^ 300 - 1)
    (hw : ∀ o ∈ os, Wf o) (hg : OnGrid os prec) :
    matchFirstBatch (newBook os) prec = .noMatch ∨
    ∃ b' q, matchFirstBatch (newBook os) prec = .ok b' q ∧ ∀ o' ∈ b'.orders, ∃ o ∈ os, Delta o o' := by
  unfold matchFirstBatch
  cases hf : findMatchPrice (makeView (newBook os)) prec with
  | none => left; rfl
  | some p =>
    obtain ⟨_, _, _, _, _, _, hp, _⟩ := found_price_in_spread os prec hprec hw hg p hf
    exact single_delta os hw p hp

/-- **price_uniform**: in the first batch every order is either untouched or filled exactly ONCE, for some amount `a > 0`
within `MatchableAmount`, at the ONE price `p` that `FindMatchPrice` returned — a buyer pays `⌈p·a⌉` and receives `a`, a seller
pays `a` and receives `⌊p·a⌋` (`fill_price_booked`), and `p` is within every filled order's limit -/
theorem price_uniform_first_batch (os : List Order) (prec : Nat) (hprec : 10 ^ prec < 2 ^ 300 - 1)
    (hw : ∀ o ∈ os, Wf o) (hg : OnGrid os prec) (b' : Book) (q : Int)
    (h : matchFirstBatch (newBook os) prec = .ok b' q) :
    ∃ p, findMatchPrice (makeView (newBook os)) prec = some p ∧
      ∀ o' ∈ b'.orders, ∃ o ∈ os, o' = o ∨ ∃ a, GoodFill o a p ∧ o' = (fillRaw o a p).1 := by
  unfold matchFirstBatch at h
  cases hf : findMatchPrice (makeView (newBook os)) prec with
  | none => rw [hf] at h; cases h
  | some p =>
    rw [hf] at h
    simp only at h
    obtain ⟨_, _, _, _, _, _, hp, _⟩ := found_price_in_spread os prec hprec hw hg p hf
    refine ⟨p, rfl, ?_⟩
    rcases matchAtSinglePrice_at (newBook os) p hp (newBook_ok os hw) with h0 | ⟨b2, q2, h2, r1, r2⟩
    · rw [h0] at h; cases h
    · rw [h2] at h; cases h
      intro o' ho'
      unfold Book.orders at ho'
      rcases List.mem_append.mp ho' with hm | hm
      · obtain ⟨o, ho, r⟩ := ticksAt_orders r1 hm
        exact ⟨o, mem_newBook os o (by unfold Book.orders; exact List.mem_append_left _ ho), r⟩
      · obtain ⟨o, ho, r⟩ := ticksAt_orders r2 hm
        exact ⟨o, mem_newBook os o (by unfold Book.orders; exact List.mem_append_right _ ho), r⟩

/-- non-vacuity: the example book is on the grid of precision 1 (0.9 and 1.1 are the ticks of index 1520 and 1531), crosses, and its first
batch trades at the tick 1.1 (the demand 15000 exceeds the supply 12000 up to there) -/
example : findMatchPrice (makeView (newBook exOrders)) 1 = some 1100000000000000000 ∧
    (match matchFirstBatch (newBook exOrders) 1 with | .ok _ _ => true | _ => false) = true ∧
    T 1 1520 = 900000000000000000 ∧ T 1 1531 = 1100000000000000000 := by
  set_option maxRecDepth 20000 in
  refine ⟨by decide, by decide, by decide, by decide⟩


/-! ## the pool side of a batch (basic pools) — modelled, no longer an input

`rx` quote reserve, `ry` base reserve; raw prices are ×10^18 (`Dec.P`). -/

/-- **`BasicPool.BuyAmountOver`**: the amount `a` a pool offers to buy at price `t` costs at most its quote reserve, and
`t·(ry + a) ≤ rx`, i.e. the pool pays at most `rx / (ry + a)` — on its constant-product curve the trade does not decrease
`rx·ry` (before the buyer-side rounding-up of the payment, which costs the pool less than one quote unit) -/
theorem pool_buy_amount_on_curve (pl : BPool) (t a : Int) (hry : 0 ≤ pl.ry) (ht : minPoolPrice ≤ t)
    (h : pl.buyAmountOver t = some a) (ha : 0 < a) :
    quoteCeil t a ≤ pl.rx ∧ t * (pl.ry + a) ≤ pl.rx * Dec.P :=
  (buyAmountOver_spec pl t a hry ht h).2 ha

/-- **`BasicPool.SellAmountUnder`** (prices up to 10^18): the amount `a` offered for sale at `t` is covered by the base reserve
and `rx ≤ t·(ry − a)`, i.e. the pool receives at least `rx / (ry − a)` per unit -/
theorem pool_sell_amount_on_curve (pl : BPool) (t a : Int) (hrx : 0 ≤ pl.rx) (ht0 : 0 < t) (ht : t ≤ Dec.PP)
    (h : pl.sellAmountUnder t = some a) (ha : 0 < a) :
    a ≤ pl.ry ∧ pl.rx * Dec.P ≤ t * (pl.ry - a) :=
  (sellAmountUnder_spec pl t a hrx ht0 ht h).2 ha

/-- **`PoolBuyOrders`**: every order the tick loop places is (replayed on the running reserves, `monPoolBuys`) covered by the
quote reserve and not above the curve; the only other order is the one `BuyAmountTo` contributes at the upper price limit when
the pool price is above it (approximate square roots: monitored, not proved).  Hence the pool never offers more quote coin
than it holds. -/
theorem pool_buy_orders_within_reserves_and_curve (pl : BPool) (lowest highest : Int) (prec : Nat) (hry : 0 ≤ pl.ry)
    (hlow : minPoolPrice ≤ lowest) : BuysOk pl highest (poolBuyOrders pl lowest highest prec) :=
  poolBuyOrders_ok pl lowest highest prec hry hlow

/-- **`PoolSellOrders`** likewise (price limits up to 10^18); here the `SellAmountTo` order too is proved to be covered by the
base reserve -/
theorem pool_sell_orders_within_reserves_and_curve (pl : BPool) (lowest highest : Int) (prec : Nat) (hrx : 0 ≤ pl.rx)
    (hry : 0 ≤ pl.ry) (hhigh : highest ≤ Dec.PP) : SellsOk pl lowest (poolSellOrders pl lowest highest prec) :=
  poolSellOrders_ok pl lowest highest prec hrx hry hhigh

/-- the totals: quote coin offered by the buy orders ≤ `rx`, base coin offered by the sell orders ≤ `ry` (for lists that satisfy
the replayed conditions) -/
theorem pool_offers_within_reserves (pl : BPool) (bl sl : List (Int × Int)) (hb : monPoolBuys pl bl = true)
    (hs : monPoolSells pl sl = true) :
    (bl ≠ [] → sumInt (bl.map fun pa => quoteCeil pa.1 pa.2) ≤ pl.rx) ∧ (sl ≠ [] → sumInt (sl.map fun pa => pa.2) ≤ pl.ry) :=
  ⟨fun hne => (monPoolBuys_total pl bl hb).resolve_right hne, fun hne => (monPoolSells_total pl sl hs).resolve_right hne⟩

/-- non-vacuity: a pool 10^6 : 10^6 (price 1.0) inside the limits 0.9 … 1.1 at precision 2 places 37 buy orders starting at 0.999
and they satisfy the replayed conditions -/
example : (poolBuyOrders ⟨1000000, 1000000⟩ 900000000000000000 1100000000000000000 2).length = 37 ∧
    monPoolBuys ⟨1000000, 1000000⟩ (poolBuyOrders ⟨1000000, 1000000⟩ 900000000000000000 1100000000000000000 2) = true ∧
    monPoolSells ⟨1000000, 1000000⟩ (poolSellOrders ⟨1000000, 1000000⟩ 900000000000000000 1100000000000000000 2) = true := by
  set_option maxRecDepth 100000 in
  refine ⟨by decide, by decide, by decide⟩


/-! ## the pool side of a batch (ranged pools) — modelled, no longer an input

`Model/AmmRanged.lean`: `DeriveTranslation`, the `RangedPool` curve functions and `PoolBuyOrders` / `PoolSellOrders` over a ranged
pool, bit for bit.  `X = xComp = rx + transX`, `Y = yComp = ry + transY` are the VIRTUAL reserves (Dec raws, ×10^18 = `Dec.P`); the
pool's curve is `X·Y = const`; `rx`, `ry` are the REAL reserves.  The translation comes out of approximate square roots; every
statement below holds for ANY translation with non-negative virtual reserves (what the monitor checks on every real pool). -/

/-- **`RangedPool.BuyAmountOver`**: the amount `a` a ranged pool offers to buy at price `t` costs at most its REAL quote reserve,
and `t·(Y + a) ≤ X` up to half a unit of the 18th decimal (`Dec.Mul` rounds): the pool pays at most `X/(Y + a)` — on its virtual
constant-product curve -/
theorem ranged_buy_amount_on_curve (pl : RPool) (t a : Int) (hrx : 0 ≤ pl.rx) (hY : 0 ≤ pl.yComp) (ht0 : 0 < t)
    (h : pl.buyAmountOver t = some a) (ha : 0 < a) :
    quoteCeil t a ≤ pl.rx ∧ t * (pl.yComp + a * Dec.P) ≤ pl.xComp * Dec.P + Dec.half :=
  (rBuyAmountOver_spec pl t a hrx hY ht0 h).2 ha

/-- **`RangedPool.SellAmountUnder`**: the amount `a` offered for sale at `t` is covered by the REAL base reserve, and
`X/t ≤ Y − a` up to `t·10⁻³⁶` (`QuoRoundUp` rounds twice): the pool receives at least `X/(Y − a)` per unit; every price -/
theorem ranged_sell_amount_on_curve (pl : RPool) (t a : Int) (hX : 0 ≤ pl.xComp) (hY : 0 ≤ pl.yComp)
    (h : pl.sellAmountUnder t = some a) (ha : 0 < a) :
    0 < t ∧ a ≤ pl.ry ∧ 0 ≤ pl.yComp - a * Dec.P ∧
    pl.xComp * Dec.PP ≤ t * (pl.yComp - a * Dec.P) * Dec.P + t :=
  (rSellAmountUnder_spec pl t a hX hY h).2 ha

/-- **no value extraction, buy side**: an order on the curve (`t·(Y + a) ≤ X + ½·10⁻¹⁸`), fully filled — the pool pays `c = ⌈t·a⌉`
and receives `a` — leaves the virtual product at least `X·Y − (Y + a)·1 quote unit − a·½·10⁻¹⁸`: nothing but the rounding of the
payment to a whole quote unit can lower it -/
theorem ranged_buy_keeps_product (X Y t a : Int) (hY : 0 ≤ Y) (ha : 0 ≤ a) (ht : 0 ≤ t)
    (hc : t * (Y + a * Dec.P) ≤ X * Dec.P + Dec.half) :
    X * Y - Dec.P * (Y + a * Dec.P) - a * Dec.half ≤ (X - quoteCeil t a * Dec.P) * (Y + a * Dec.P) := by
  have hP := P_pos
  have hq : 0 ≤ Y + a * Dec.P := by have := Int.mul_nonneg ha (Int.le_of_lt hP); omega
  have h0 := quoteCeil_mul_le t a (Int.mul_nonneg ht ha)
  have h1 : quoteCeil t a * Dec.P * (Y + a * Dec.P) ≤ (t * a + (Dec.P - 1)) * (Y + a * Dec.P) :=
    Int.mul_le_mul_of_nonneg_right h0 hq
  have h2 : a * (t * (Y + a * Dec.P)) ≤ a * (X * Dec.P + Dec.half) := Int.mul_le_mul_of_nonneg_left hc ha
  nlinarith [h1, h2]

/-- **no value extraction, sell side**: the pool gives `a` and receives `r = ⌊t·a⌋`; with `Y' = Y − a`:
`X'·Y' ≥ X·Y − Y'·1 quote unit − a·t·10⁻³⁶` -/
theorem ranged_sell_keeps_product (X Y t a : Int) (ha : 0 ≤ a) (ht : 0 ≤ t) (hY' : 0 ≤ Y - a * Dec.P)
    (hc : X * Dec.PP ≤ t * (Y - a * Dec.P) * Dec.P + t) :
    Dec.P * (X * Y) - a * t - Dec.PP * (Y - a * Dec.P) ≤ Dec.P * ((X + quoteFloor t a * Dec.P) * (Y - a * Dec.P)) := by
  have hP := P_pos
  have h0 := le_quoteFloor_mul t a (Int.mul_nonneg ht ha)
  have h1 : (t * a - (Dec.P - 1)) * (Y - a * Dec.P) ≤ quoteFloor t a * Dec.P * (Y - a * Dec.P) :=
    Int.mul_le_mul_of_nonneg_right (by omega) hY'
  have h2 : a * (X * Dec.PP) ≤ a * (t * (Y - a * Dec.P) * Dec.P + t) := Int.mul_le_mul_of_nonneg_left hc ha
  have hPP : Dec.PP = Dec.P * Dec.P := rfl
  rw [hPP] at h2 ⊢
  nlinarith [h1, h2, Int.mul_nonneg (Int.le_of_lt hP) hY']

/-- **`PoolBuyOrders` over a ranged pool** (positive lower price limit): every order the tick loop places is — replayed on the
running reserves, `monRPoolBuys` — covered by the REAL quote reserve and not above the virtual curve, given that the state the loop
starts from (the pool itself, or the pool after the one `BuyAmountTo` order at the upper limit, translation derived again) has
non-negative real quote and virtual base reserve -/
theorem ranged_pool_buy_orders_within_reserves_and_curve (pl : RPool) (lowest highest : Int) (prec : Nat) (hlow : 0 < lowest) :
    RBuysOk pl highest (rPoolBuyOrders pl lowest highest prec) :=
  rPoolBuyOrders_ok pl lowest highest prec hlow

/-- **`PoolSellOrders` over a ranged pool** likewise (`monRPoolSells`; non-negative virtual reserves at the start of the loop) -/
theorem ranged_pool_sell_orders_within_reserves_and_curve (pl : RPool) (lowest highest : Int) (prec : Nat) :
    RSellsOk pl lowest (rPoolSellOrders pl lowest highest prec) :=
  rPoolSellOrders_ok pl lowest highest prec

/-- the one order at the price limit (`BuyAmountTo` / `SellAmountTo`, approximate square roots — not proved to be on the curve)
is at least covered by the REAL reserves -/
theorem ranged_limit_orders_covered (pl : RPool) (t a : Int) (hrx : 0 ≤ pl.rx) (hry : 0 ≤ pl.ry) (ht0 : 0 < t) :
    (pl.buyAmountTo t = some a → 0 ≤ a ∧ (0 < a → quoteCeil t a ≤ pl.rx)) ∧
    (pl.sellAmountTo t = some a → 0 ≤ a ∧ a ≤ pl.ry) :=
  ⟨fun h => rBuyAmountTo_covered pl t a hrx ht0 h, fun h => rSellAmountTo_covered pl t a hry h⟩

/-- the totals: quote coin offered by the tick-loop buy orders ≤ `rx`, base coin offered by the sell orders ≤ `ry` -/
theorem ranged_pool_offers_within_reserves (pl : RPool) (bl sl : List (Int × Int)) (hb : monRPoolBuys pl bl = true)
    (hs : monRPoolSells pl sl = true) :
    (bl ≠ [] → sumInt (bl.map fun pa => quoteCeil pa.1 pa.2) ≤ pl.rx) ∧ (sl ≠ [] → sumInt (sl.map fun pa => pa.2) ≤ pl.ry) :=
  ⟨fun hne => (monRPoolBuys_total pl bl hb).resolve_right hne, fun hne => (monRPoolSells_total pl sl hs).resolve_right hne⟩

/-- non-vacuity: the ranged pool 10^6 : 10^6 on [0.9, 1.1] (`NewRangedPool` derives the translation ≈ 1.94·10^7 : 1.95·10^7, price
0.9952…) places 47 buy and 15 sell orders inside the limits 0.9 … 1.1 at precision 2, its virtual reserves are non-negative and
the orders pass the replayed conditions -/
def exRanged : RPool := ⟨1000000, 1000000, 900000000000000000, 1100000000000000000,
  19388616655548310034032496, 19486292924390644719857716⟩

example : RPool.new 1000000 1000000 900000000000000000 1100000000000000000 = some exRanged := by
  set_option maxRecDepth 100000 in decide

example : exRanged.price = some 995232115971257888 ∧ 0 ≤ exRanged.xComp ∧ 0 ≤ exRanged.yComp ∧
    (rPoolBuyOrders exRanged 900000000000000000 1100000000000000000 2).length = 47 ∧
    (rPoolSellOrders exRanged 900000000000000000 1100000000000000000 2).length = 15 ∧
    monRPoolBuys exRanged (rPoolBuyOrders exRanged 900000000000000000 1100000000000000000 2) = true ∧
    monRPoolSells exRanged (rPoolSellOrders exRanged 900000000000000000 1100000000000000000 2) = true := by
  set_option maxRecDepth 100000 in
  refine ⟨by decide, by decide, by decide, by decide, by decide, by decide, by decide⟩

example : exRanged.buyAmountOver 995000000000000000 = some 4779 ∧ exRanged.sellAmountUnder 996000000000000000 ≠ some 0 := by
  set_option maxRecDepth 100000 in
  refine ⟨by decide, by decide⟩


/-! ## the keeper's first batch of a pair WITH pools — modelled (`Model/AmmMultiView.lean`)

`FindMatchPrice` walks `MultipleOrderViews{book view, pool curves…}`; each pool then places one buy and one sell order at the found
price — `BuyAmountOver(p)` / `SellAmountUnder(p)`, the amounts of `pool_buy_amount_on_curve` / `ranged_buy_amount_on_curve` … — and
the book is matched at that single price. -/

theorem poolOrdersAt_wf (pools : List (Nat × PoolV)) (p : Int) (hp : 0 < p) (firstId : Nat) :
    ∀ o ∈ poolOrdersAt pools p firstId, Wf o ∧ o.price = p ∧ o.kind = 1 := by
  induction pools generalizing firstId with
  | nil => intro o ho; simp [poolOrdersAt] at ho
  | cons x rest ih =>
    obtain ⟨pid, pl⟩ := x
    intro o ho
    unfold poolOrdersAt at ho
    simp only at ho
    rcases List.mem_append.mp ho with h1 | h1
    · rcases List.mem_append.mp h1 with h2 | h2
      · split at h2
        · rename_i hb
          simp only [List.mem_singleton] at h2
          subst h2
          refine ⟨⟨hp, Int.le_refl _, by simp only; omega, Int.le_refl _, ?_⟩, rfl, rfl⟩
          simp only [reduceCtorEq, if_false, offerCoinAmount]
          have := quoteCeil_nonneg p ((pl.buyAmountOver p).getD 0) (by omega) (by omega)
          omega
        · simp at h2
      · split at h2
        · rename_i hs
          simp only [List.mem_singleton] at h2
          subst h2
          refine ⟨⟨hp, Int.le_refl _, by simp only; omega, Int.le_refl _, ?_⟩, rfl, rfl⟩
          simp [offerCoinAmount]
        · simp at h2
    · exact ih _ o h1

/-- **limits respected in a first batch with pools**: at any positive match price (in particular the one `FindMatchPrice` returns
for the multiple view) the book of the user orders plus the pools' orders at that price is matched without a panic, and every
order of the result — user or pool — is an input order after allowed fills (`Delta`: within offer and amount, at a price within
its limit, a matched order receives something) -/
theorem limit_respected_first_batch_pools (os : List Order) (hw : ∀ o ∈ os, Wf o) (pools : List (Nat × PoolV))
    (prec firstId : Nat) (p : Int) (hp : 0 < p)
    (hf : (matchFirstBatchPools os pools prec firstId).1 = some p) :
    (matchFirstBatchPools os pools prec firstId).2.1 = poolOrdersAt pools p firstId ∧
    ((matchFirstBatchPools os pools prec firstId).2.2 = .noMatch ∨
     ∃ b' q, (matchFirstBatchPools os pools prec firstId).2.2 = .ok b' q ∧
       ∀ o' ∈ b'.orders, ∃ o ∈ os ++ poolOrdersAt pools p firstId, Delta o o') := by
  unfold matchFirstBatchPools at hf ⊢
  simp only at hf ⊢
  cases hm : findMatchPriceM ⟨makeView (newBook os), pools.map (·.2)⟩ prec with
  | none => rw [hm] at hf; cases hf
  | some p' =>
    rw [hm] at hf
    simp only at hf ⊢
    cases hf
    refine ⟨rfl, ?_⟩
    have hfold : (poolOrdersAt pools p firstId).foldl addOrder (newBook os) = newBook (os ++ poolOrdersAt pools p firstId) := by
      unfold newBook; rw [List.foldl_append]
    rw [hfold]
    apply single_delta _ _ p hp
    intro o ho
    rcases List.mem_append.mp ho with h | h
    · exact hw o h
    · exact (poolOrdersAt_wf pools p hp firstId o h).1

/-- non-vacuity: a buy of 1000 @ 1.05, a sell of 500 @ 0.95 and the basic pool 10⁶ : 10⁶ (price 1.0) at precision 2: the multiple
view finds the price 1.01, the pool places a sell order of 9900 there, the buyer gets 500 from the seller and 500 from the pool -/
example :
    let b : Order := { id := 0, kind := 0, oid := 1, dir := .buy, price := 1050000000000000000, amount := 1000, offer := 1050,
                       opn := 1000, paid := 0, received := 0, batchId := 1 }
    let s : Order := { id := 1, kind := 0, oid := 2, dir := .sell, price := 950000000000000000, amount := 500, offer := 500,
                       opn := 500, paid := 0, received := 0, batchId := 1 }
    let r := matchFirstBatchPools [b, s] [(1, PoolV.basic ⟨1000000, 1000000⟩)] 2 2
    r.1 = some 1010000000000000000 ∧ (r.2.1.map fun (o : Order) => (o.id, o.amount)) = [(2, 9900)] ∧
    (match r.2.2 with
     | .ok b' q => some (q, b'.orders.map fun (o : Order) => (o.id, o.opn, o.paid, o.received))
     | _ => none) = some (0, [(0, 0, 1010, 1000), (1, 0, 500, 505), (2, 9400, 500, 505)]) := by
  set_option maxRecDepth 100000 in
  refine ⟨by decide, by decide, by decide⟩

/-! ## the exact characterisation of defect D2 -/

/-- **Base coin over a whole `Match`, exactly**: the sellers never pay more base coin than the buyers receive, and they pay
exactly as much **if and only if** `matchLossless` holds — i.e. no sell-side pro-rata distribution (in the single-price step at
the last price or in an iteration of the two-sided loop) re-ran on orders that cannot absorb the amount it was given.  The
ghost is computed from the INPUT alone, so it predicts on which books D2 strikes (the driver uses it: a non-conserving real
result is reported as the known `base_conserved` only where the ghost predicts it, as `base_conserved_unexplained` otherwise). -/
theorem base_conserved_iff_lossless (os : List Order) (hw : ∀ o ∈ os, Wf o) (hids : (os.map (·.id)).Nodup)
    (lp : Int) (hlp : 0 < lp) (b' : Book) (mp q : Int) (h : matchBook (newBook os) lp = .ok b' mp q) :
    ticksFilled (newBook os).sells b'.sells ≤ ticksFilled (newBook os).buys b'.buys ∧
    (ticksFilled (newBook os).buys b'.buys = ticksFilled (newBook os).sells b'.sells ↔
      matchLossless (newBook os) lp = true) :=
  matchBook_exact (newBook os) lp hlp (newBook_ok os hw) (newBook_ids os hids) b' mp q h

/-- the same for `MatchAtSinglePrice` (first batch): with `x` the matchable amount, buyers receive `x`, sellers pay `≤ x`, and
`= x` iff `ticksLossless` -/
theorem base_conserved_iff_lossless_single (os : List Order) (hw : ∀ o ∈ os, Wf o) (hnd : os.Nodup) (p : Int) (hp : 0 < p)
    (b' : Book) (q : Int) (h : matchAtSinglePrice (newBook os) p = .ok b' q) :
    ∃ x, findMatchableAmount (newBook os) p = some x ∧ ticksFilled (newBook os).buys b'.buys = x ∧
      ticksFilled (newBook os).sells b'.sells ≤ x ∧
      (ticksFilled (newBook os).sells b'.sells = x ↔ ticksLossless (newBook os).sells x p = true) :=
  matchAtSinglePrice_exact (newBook os) p hp (newBook_ok os hw) (newBook_nodup os hnd) b' q h

/-- and at its root: `DistributeOrderAmountToOrders` hands out at most `amt`, and exactly `amt` iff the orders that are finally
filled after its re-runs can absorb `amt` (`lossless`) -/
theorem distribution_exact_iff_lossless (os : List Order) (amt p : Int) (hp : 0 < p) (hamt : 0 ≤ amt) (hw : ∀ o ∈ os, Wf o)
    (plan : List (Order × Int)) (h : planOrders (os.length + 1) os amt p = some plan) :
    planSum plan ≤ amt ∧ (planSum plan = amt ↔ lossless (os.length + 1) os amt p = true) :=
  planOrders_sum_iff _ os amt p hp hamt hw plan h


/-! ## stored orders over several batches (the keeper's glue around the matcher)

`Model/AmmKeeper.lean`: `NewUserOrder` (which amounts of a stored order the matcher sees), the matcher as `keeper.Match` calls it,
`ApplyMatchResult` (write-back), expiry, pruning; one pair without pools. `PlaceOk`: what `ValidateMsgLimitOrder` lets through
(non-negative amount; the price fitted to the grid is a positive tick). -/

/-- **the amount offered to the matcher never exceeds what is still open** (and the amm order is well-formed): the fact the
conversion `NewUserOrder` has to establish in every batch — for a buy `min(OpenAmount, RemainingOfferCoin / Price)`, for a sell
`OpenAmount` -/
theorem offered_amount_within_open (prec : Nat) (so : SOrder) (h : SInv prec so) :
    Wf (newUserOrder so) ∧ (newUserOrder so).amount ≤ so.openAmt ∧ (newUserOrder so).offer = so.remaining :=
  ⟨newUserOrder_wf h, (newUserOrder_fields so).2.2.2.2.2.2.2.2, (newUserOrder_fields so).2.2.2.1⟩

/-- **no stored order is ever filled beyond its amount — across batches.** For every run of any number of batches from the
empty pair (limit orders placed in every block, then convert all live orders, match with the modelled matcher, write back,
expire, prune), every stored order has `0 ≤ OpenAmount ≤ Amount`, `0 ≤ RemainingOfferCoin ≤ OfferCoin`; a buy has received
exactly `Amount − OpenAmount ≤ Amount` base coin; a sell has paid exactly `Amount − OpenAmount` base coin; and over its whole life
a buyer paid at most `limit × filled` plus less than one quote unit per fill, a seller received at least `limit × filled` minus
less than one quote unit per fill. -/
theorem order_within_amount (prec : Nat) (hprec : 10 ^ prec < 2 ^ 300 - 1) (bs : List Batch)
    (hok : ∀ b ∈ bs, ∀ x ∈ b.placed, PlaceOk prec x.1 x.2.1 x.2.2.1) :
    ∀ so ∈ (runBatches KState.init prec bs).orders,
      0 ≤ so.openAmt ∧ so.openAmt ≤ so.amount ∧ 0 ≤ so.remaining ∧ so.remaining ≤ so.offer ∧
      (so.dir = .buy → so.received = so.amount - so.openAmt ∧ so.received ≤ so.amount) ∧
      (so.dir = .sell → so.offer - so.remaining = so.amount - so.openAmt) ∧
      monOrderWithinAmount so = true ∧ monOrderLimit so = true := by
  intro so hso
  have h := (runBatches_inv prec hprec KState.init bs (KInv.init prec) hok).inv so hso
  refine ⟨h.open_nonneg, h.open_le, h.rem_nonneg, h.rem_le, ?_, fun hs => (h.sell_paid hs).1, h.monitors.1, h.monitors.2⟩
  intro hb
  have := h.buy_recv hb
  have := h.open_nonneg
  exact ⟨by assumption, by omega⟩

/-- the same at the moment the harness looks: right after a block's `EndBlocker` (finished orders not yet pruned), after any
earlier history -/
theorem order_within_amount_after_batch (prec : Nat) (hprec : 10 ^ prec < 2 ^ 300 - 1) (bs : List Batch) (b : Batch)
    (hok : ∀ b ∈ bs, ∀ x ∈ b.placed, PlaceOk prec x.1 x.2.1 x.2.2.1) (hb : ∀ x ∈ b.placed, PlaceOk prec x.1 x.2.1 x.2.2.1) :
    ∀ so ∈ (batchStep (placeAll (runBatches KState.init prec bs) prec b.placed) prec b.now).orders,
      monOrderWithinAmount so = true ∧ monOrderLimit so = true := by
  intro so hso
  have h0 := runBatches_inv prec hprec KState.init bs (KInv.init prec) hok
  exact ((batchStep_inv prec hprec _ b.now (placeAll_inv prec _ b.placed h0 hb)).inv so hso).monitors

/-- one batch from ANY state that satisfies the invariant (the induction step, usable for pairs with a history) -/
theorem order_within_amount_step (prec : Nat) (hprec : 10 ^ prec < 2 ^ 300 - 1) (s : KState) (now : Int) (h : KInv prec s) :
    KInv prec (batchStep s prec now) :=
  batchStep_inv prec hprec s now h

/-- **`PlaceOk` is what `ValidateMsgLimitOrder` establishes, for BOTH directions**: a message price between `LowestTick` and
`HighestTick` (the check of swap.go:59-68 for a pair without last price), fitted to the grid — `PriceToDownTick` for a buy,
`PriceToUpTick` for a sell — is a positive tick whose index does not exceed the highest tick's -/
theorem place_ok_limit_order (prec : Nat) (hprec : 10 ^ prec < 2 ^ 300 - 1) (d : Dir) (x : Nat) (amount : Int) (ha : 0 ≤ amount)
    (h1 : lowestTick prec ≤ (x : Int)) (h2 : (x : Int) ≤ highestTick prec) : PlaceOk prec d (x : Int) amount := by
  have h1' : 10 ^ prec ≤ x := by unfold lowestTick at h1; exact_mod_cast h1
  have h2' : x ≤ T prec (hiIdx prec) := by rw [highestTick_eq prec hprec] at h2; exact_mod_cast h2
  cases d with
  | buy =>
    apply placeOk_buy prec x amount ha h1'
    have := (grid_cell prec (2 ^ 300 - 1) (by omega)).2.1
    unfold hiIdx at h2'
    omega
  | sell => exact placeOk_sell prec x amount ha h1' h2'

/-- **the price an order is stored with is never worse for the orderer than the price of the message**: a buy is fitted down, a sell
up (monitor `placed_price_within_limit` on every real stored limit order) -/
theorem placed_price_within_limit (prec x : Nat) (hx : lowestTick prec ≤ (x : Int)) :
    priceToDownTick (x : Int) prec ≤ (x : Int) ∧ (x : Int) ≤ priceToUpTick (x : Int) prec :=
  fitted_price_within_limit prec x (by unfold lowestTick at hx; exact_mod_cast hx)

/-- `order_within_amount` with the assumption on the placed orders discharged: every limit order whose message price lies between
the lowest and the highest tick and whose amount is not negative -/
theorem order_within_amount_validated (prec : Nat) (hprec : 10 ^ prec < 2 ^ 300 - 1) (bs : List Batch)
    (hok : ∀ b ∈ bs, ∀ x ∈ b.placed, 0 ≤ x.2.2.1 ∧ ∃ n : Nat, x.2.1 = (n : Int) ∧ lowestTick prec ≤ (n : Int) ∧ (n : Int) ≤ highestTick prec) :
    ∀ so ∈ (runBatches KState.init prec bs).orders,
      0 ≤ so.openAmt ∧ so.openAmt ≤ so.amount ∧ 0 ≤ so.remaining ∧ so.remaining ≤ so.offer ∧
      monOrderWithinAmount so = true ∧ monOrderLimit so = true := by
  intro so hso
  have h := order_within_amount prec hprec bs (by
    intro b hb x hx
    obtain ⟨ha, n, hn, l1, l2⟩ := hok b hb x hx
    rw [hn]
    exact place_ok_limit_order prec hprec x.1 n x.2.2.1 ha l1 l2) so hso
  exact ⟨h.1, h.2.1, h.2.2.1, h.2.2.2.1, h.2.2.2.2.2.2.1, h.2.2.2.2.2.2.2⟩

/-- non-vacuity: at precision 4 the message price 1.00005 of a sell order is fitted up to the tick 1.0001 (index 90001 + …) -/
example : priceToUpTick 1000050000000000000 4 = 1000100000000000000 ∧ priceToDownTick 1000050000000000000 4 = 1000000000000000000 ∧
    lowestTick 4 ≤ 1000050000000000000 ∧ (1000050000000000000 : Int) ≤ highestTick 4 := by
  set_option maxRecDepth 100000 in
  refine ⟨by decide, by decide, by decide, by decide⟩

/-! ## market orders and MM orders at the keeper level — modelled (`Model/AmmOrders.lean`), no longer out of scope

A market order is stored with the limit price `last price ± MaxPriceLimitRatio` fitted to the grid and the offer coin
`OfferCoinAmount(dir, price, amount)`; an MM order is a ladder of tick orders (`MMOrderTicks`), the orderer's previous ladder is
canceled first.  After placement they are ordinary stored orders. -/

/-- **the limit price of a market order is a positive tick of the grid** whenever the last price moved by the ratio lies between
the lowest and the highest tick (`x` = that product, a natural number) -/
theorem market_order_price_on_grid (prec : Nat) (hprec : 10 ^ prec < 2 ^ 300 - 1) (d : Dir) (lp ratio : Int) (x : Nat)
    (hx : (match d with | .buy => Dec.mul lp (Dec.one + ratio) | .sell => Dec.mul lp (Dec.one - ratio)) = (x : Int))
    (h1 : 10 ^ prec ≤ x) (h2 : x ≤ T prec (hiIdx prec)) : GridPrice prec (marketPrice prec d lp ratio) :=
  marketPrice_grid prec hprec d lp ratio x hx h1 h2

/-- **the tick ladder of an MM order** (`MMOrderTicks`, at least two ticks allowed): when both ends of the price range are ticks
between the lowest and the highest tick — what `MMOrder` checks — every tick order's price is a positive tick of the grid and every
amount is `≥ 0` -/
theorem mm_order_ticks_on_grid (prec : Nat) (hprec : 10 ^ prec < 2 ^ 300 - 1) (d : Dir) (a b : Nat) (amt : Int) (n : Nat)
    (hn : 2 ≤ n) (ha : 10 ^ prec ≤ a) (hab : a ≤ b) (hb : b ≤ T prec (hiIdx prec))
    (hga : GridPrice prec (a : Int)) (hgb : GridPrice prec (b : Int)) (hamt : 0 ≤ amt) :
    ∀ pa ∈ mmOrderTicks d (a : Int) (b : Int) amt n prec, GridPrice prec pa.1 ∧ 0 ≤ pa.2 :=
  mmOrderTicks_ok prec hprec d a b amt n hn ha hab hb hga hgb hamt

/-- **`order_within_amount` and `order_limit_respected` for limit, market and MM orders together**: for every run of any number
of batches from the empty pair in which every accepted message is acceptable in the state it is delivered in (`RunOk`: a limit
order's fitted price, a market order's computed price and an MM order's tick prices are grid prices, amounts `≥ 0` — discharged by
`place_ok_limit_order`, `market_order_price_on_grid`, `mm_order_ticks_on_grid`), every stored order — whatever its kind, also after
an MM cancellation — has `0 ≤ OpenAmount ≤ Amount`, `0 ≤ RemainingOfferCoin ≤ OfferCoin`, and passes `monOrderWithinAmount` and
`monOrderLimit` (a buyer paid at most its price × filled + <1 per fill; a seller received at least price × filled − <1 per fill,
where for a market order "its price" is the computed limit `last ± ratio`) -/
theorem order_within_amount_all_orders (prec : Nat) (hprec : 10 ^ prec < 2 ^ 300 - 1) (ratio : Int) (maxNumTicks : Nat)
    (bs : List MBatch) (hok : RunOk prec ratio maxNumTicks MState.init bs) :
    ∀ so ∈ (runMBatches MState.init prec ratio maxNumTicks bs).k.orders,
      0 ≤ so.openAmt ∧ so.openAmt ≤ so.amount ∧ 0 ≤ so.remaining ∧ so.remaining ≤ so.offer ∧
      monOrderWithinAmount so = true ∧ monOrderLimit so = true := by
  intro so hso
  have h := (runMBatches_inv prec hprec ratio maxNumTicks MState.init bs (KInv.init prec) hok).inv so hso
  exact ⟨h.open_nonneg, h.open_le, h.rem_nonneg, h.rem_le, h.monitors.1, h.monitors.2⟩

/-- non-vacuity: last price 1.0, ratio 10 %, precision 4: a market buy is stored with the limit 1.1 (= tick 1261000), a market sell
with 0.9; an MM buy ladder 0.97 … 0.9999 of 100000 in 10 ticks puts 10000 on each tick; the run below (limit orders making the last
price 1.0, then a market buy of 1000 against a limit sell of 600 @ 1.0) fills the market order for 600 at 1.0, not at its limit -/
example :
    let P : Int := 1000000000000000000
    marketPrice 4 .buy P (P / 10) = 11 * P / 10 ∧ marketPrice 4 .sell P (P / 10) = 9 * P / 10 ∧
    (mmOrderTicks .buy (97 * P / 100) (9999 * P / 10000) 100000 10 4).length = 10 ∧
    (mmOrderTicks .buy (97 * P / 100) (9999 * P / 10000) 100000 10 4).getLast? = some (9999 * P / 10000, 10000) ∧
    ((runMBatches MState.init 4 (P / 10) 10
        [⟨[.limit .buy P 100 0, .limit .sell P 100 0], 0⟩,
         ⟨[.market .buy 1000 3600, .limit .sell P 600 5], 5⟩]).k.orders.map
      fun (o : SOrder) => (o.id, o.price, o.openAmt, o.remaining, o.received, o.status.code)) =
      [(3, 11 * P / 10, 400, 500, 600, 3)] := by
  set_option maxRecDepth 100000 in
  refine ⟨by decide, by decide, by decide, by decide, by decide⟩

/-- …and its hypotheses are satisfiable: the market order of that run is acceptable (`MsgOk`) at the last price 1.0 -/
example : MsgOk 4 100000000000000000 10 (some 1000000000000000000) (.market .buy 1000 3600) := by
  refine ⟨by decide, ?_⟩
  intro lp hlp
  cases hlp
  exact market_order_price_on_grid 4 (by decide) .buy _ _ 1100000000000000000 (by decide) (by decide)
    (by set_option maxRecDepth 100000 in decide)

/-- non-vacuity, and the scenario of the seeded edit s64 on the model: last price 1.0; a buy of 1000 @ 1.1 (offer 1100) is filled
600 at 1.0 (400 open, 500 quote left — which would buy 454 at 1.1); against a later sell of 1000 @ 1.0 it takes exactly its 400
open units (completed: received 1000, 100 quote left) and the seller keeps 600 -/
example :
    let P : Int := 1000000000000000000
    let b1 : Batch := ⟨[(.buy, P, 100, 0), (.sell, P, 100, 0)], 0⟩
    let b2 : Batch := ⟨[(.buy, 11 * P / 10, 1000, 3600), (.sell, P, 600, 5)], 5⟩
    let s2 := batchStep (placeAll (runBatches KState.init 4 [b1]) 4 b2.placed) 4 b2.now
    let s3 := batchStep (placeAll (prune s2) 4 [(.sell, P, 1000, 10)]) 4 10
    (s2.orders.map fun (o : SOrder) => (o.id, o.openAmt, o.remaining, o.received, o.status.code)) =
      [(3, 400, 500, 600, 3), (4, 0, 0, 600, 4)] ∧
    (s3.orders.map fun (o : SOrder) => (o.id, o.openAmt, o.remaining, o.received, o.status.code)) =
      [(3, 0, 100, 1000, 4), (5, 600, 600, 400, 6)] := by
  set_option maxRecDepth 100000 in
  decide

end Comdex.C05
