import Comdex.Gen.Pure
import Comdex.Lemmas.GoSem
import Comdex.Model.Gauge
/-!
# C19 — the epoch split of the model IS the arithmetic of the current Go source

`Gen.Pure.splitTotalAmountPerEpoch` is regenerated on every run by `extract/pure` from
`x/rewards/keeper/utils.go: SplitTotalAmountPerEpoch` (uint64 arithmetic with wrap-around, `%` and `/` that panic on a
zero divisor, two counting loops with `append`).  `Gauge.split` is the hand-written model the C19 theorems
(`split_sums_to_total`, `split_lengths`, `split_each_within_one`, …) are about.

Go function → theorem
* `SplitTotalAmountPerEpoch` → `pure_splitTotalAmountPerEpoch_eq_model`: for all `uint64` arguments (naturals below 2^64)
  the translation returns exactly the model's list, and panics exactly when the model reports the division by zero.

Trusted: the translator's reading of Go and `Base/GoSem.lean`; kernel-checked: the equality with the model.
-/
namespace Comdex.C19
open Comdex Comdex.GoSem

/-- outcome of `Gauge.split` in the `GoSem` monad: its only failure is the division-by-zero run-time panic -/
def splitOutcome (r : Except String (List Nat)) : M (List Nat) :=
  match r with
  | .ok l => .ok l
  | .error _ => .error .panic

theorem pure_splitTotalAmountPerEpoch_eq_model (total epochs : Nat)
    (h1 : total < 18446744073709551616) (h2 : epochs < 18446744073709551616) :
    Gen.Pure.splitTotalAmountPerEpoch total epochs = splitOutcome (Gauge.split total epochs) := by
  unfold Gen.Pure.splitTotalAmountPerEpoch Gauge.split
  by_cases hlt : total < epochs
  · simp only [hlt, if_true]; rfl
  · by_cases h0 : epochs = 0
    · subst h0; simp only [hlt, if_false]; rfl
    · simp only [hlt, h0, if_false, u64Mod_pos h0, u64Div_pos h0, pure_bind, rangeU64, Nat.sub_zero]
      by_cases hm : total % epochs = 0
      · simp only [hm, if_true, forIn_append_map, List.nil_append, splitOutcome]
        rw [pure_bind, ← List.range_eq_range']
        show Except.ok _ = Except.ok _
        congr 1
        apply List.map_congr_left
        intro i _
        simp only [Gauge.splitAt, hm, if_true]
      · have hlt' : total % epochs < epochs := Nat.mod_lt _ (by omega)
        have hpp : total / epochs + 1 < 18446744073709551616 := by
          have hmul : epochs * (total / epochs) ≤ total := Nat.mul_div_le total epochs
          have h2e : 2 ≤ epochs := by
            rcases Nat.lt_or_ge epochs 2 with h | h
            · have : epochs = 1 := by omega
              rw [this, Nat.mod_one] at hm; exact absurd rfl hm
            · exact h
          have : 2 * (total / epochs) ≤ epochs * (total / epochs) := Nat.mul_le_mul_right _ h2e
          omega
        simp only [hm, if_false, u64Sub_of_le (Nat.le_of_lt hlt') h2, u64Add_of_fits hpp]
        have hb : (fun (i_1 : Nat) (__s : List Nat) =>
              (if i_1 ≥ epochs - total % epochs then (pure (ForInStep.yield (__s ++ [total / epochs + 1])) : M _)
               else pure (ForInStep.yield (__s ++ [total / epochs]))))
            = fun i s => pure (ForInStep.yield (s ++ [Gauge.splitAt total epochs i])) := by
          funext i s
          simp only [Gauge.splitAt, hm, if_false]
          split <;> rfl
        rw [hb, forIn_append_map, pure_bind, ← List.range_eq_range']
        rfl

example : Gen.Pure.splitTotalAmountPerEpoch 150 11 = .ok [13, 13, 13, 13, 14, 14, 14, 14, 14, 14, 14] := by rfl
example : Gen.Pure.splitTotalAmountPerEpoch 150 10 = .ok [15, 15, 15, 15, 15, 15, 15, 15, 15, 15] := by rfl
example : Gen.Pure.splitTotalAmountPerEpoch 5 0 = .error .panic := by rfl
example : Gen.Pure.splitTotalAmountPerEpoch 5 6 = .ok [] := by rfl

end Comdex.C19
