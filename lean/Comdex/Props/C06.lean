import Comdex.Lemmas.Pool
/-!
# C06 — Pool shares are fair: deposits and withdrawals cannot extract value from a pool

Model: `Comdex/Model/Pool.lean` (`deposit`, `withdraw`, `createRangedPool`, `deriveTranslation`, `rangedPrice`
over `Comdex.Dec`, with the `SafeMath` overflow arm).  All theorems quantify over ALL integers satisfying
the stated (decidable) domain predicates — there is NO upper bound on reserves, supplies or amounts: inside
the module bounds (≤ 10^40) and far beyond them the laws hold, because the overflow arm returns zeros.

Property clause → theorem
* "a deposit never takes more of either coin than was offered"           → `deposit_takes_at_most_offered`
* "mints shares at a rate no better than the pool's reserves per share"  → `deposit_rate_not_better`
     (bound: `pc/ps ≤ a/r + (10^18+2)/(2·10^36)`, the half-ulp of `mintProportion`; it is tight:
      `deposit_dust_goes_to_depositor` shows the depositor really can win that dust)
* "a withdrawal never returns more than the pro-rata part reduced by the fee" → `withdraw_at_most_prorata` (exact)
* "reserves per outstanding share never decrease (up to relative error < 10^-17)"
     → `reserves_per_share_nondecreasing` (= `…_deposit` with the bound, `…_withdraw` exact)
* "redeeming the last outstanding shares returns the entire remaining reserves" → `last_share_gets_all`
* overflow (`SafeMath`) → `deposit_overflow_returns_zeros`, `withdraw_overflow_returns_zeros`,
     `deposit_overflow_reachable_within_bounds` (so "no overflow within 10^40" is FALSE for Deposit),
     `deposit_no_overflow_of_small_mint`, `withdraw_no_overflow_within_bounds`;
     neither function panics on its domain: `deposit_total`, `withdraw_total`
* "a ranged pool's price always stays within its configured price range" → FALSE of the code:
     `ranged_price_in_range_counterexample` (one ulp below min, everyday prices, on-tick triple),
     `ranged_price_above_max_counterexample`, `ranged_price_far_below_min_counterexample` (85 % below min);
     what IS proved: `ranged_price_between_curve_endpoints_partial` (the price lies between the prices of the
     two single-asset end points of the pool's own translated curve) and `create_ok_implies_admissible`.
     MISSING for the full clause: that those end points coincide with `minPrice`/`maxPrice` — they do so only
     up to the error of `approxSqrt`/`Quo`/`Mul` rounding, which is unbounded relative to 10^-18 at prices
     near 10^20 (see notes/C06.md).
-/
namespace Comdex.C06
open Comdex Comdex.Pool

/-! ## Deposit -/

/-- `amm.Deposit` never panics on a pool that is not depleted (so the request either executes or fails cleanly). -/
theorem deposit_total {rx ry ps x y : Int} (h : DepositDom rx ry ps x y) :
    ∃ r, deposit rx ry ps x y = some r := by
  obtain ⟨hrx, hry, hr, hps, _, _⟩ := h
  have hnp : depositCore rx ry ps x y ≠ .error .panic :=
    depositCore_no_panic (by omega) (by omega)
  unfold deposit
  split
  · exact ⟨_, rfl⟩
  · exact ⟨_, rfl⟩
  · rename_i hc; exact absurd hc hnp

/-- the overflow arm: any `Dec`/`Int` overflow inside makes `Deposit` return zeros -/
theorem deposit_overflow_returns_zeros {rx ry ps x y : Int}
    (h : depositCore rx ry ps x y = .error .overflow) : deposit rx ry ps x y = some (0, 0, 0) := by
  unfold deposit; rw [h]

/-- all deposit laws at once (used by the named clauses below) -/
theorem deposit_laws {rx ry ps x y ax ay pc : Int} (h : DepositDom rx ry ps x y)
    (hd : deposit rx ry ps x y = some (ax, ay, pc)) :
    TakesAtMostOffered x ax ∧ TakesAtMostOffered y ay ∧ 0 ≤ pc ∧
    RateNotBetter rx ps ax pc ∧ RateNotBetter ry ps ay pc := by
  rcases deposit_cases hd with ⟨_, e⟩ | ⟨_, e⟩
  · obtain ⟨hrx, hry, _, hps, hx, hy⟩ := h
    have e1 : ax = 0 := congrArg (·.1) e
    have e2 : ay = 0 := congrArg (·.2.1) e
    have e3 : pc = 0 := congrArg (·.2.2) e
    subst e1 e2 e3
    have hP : (0:Int) ≤ Dec.P + 2 := by decide
    refine ⟨⟨Int.le_refl 0, hx⟩, ⟨Int.le_refl 0, hy⟩, Int.le_refl 0, ?_, ?_⟩
    · show 2 * Dec.PP * (0 * rx) ≤ 2 * Dec.PP * (0 * ps) + rx * ps * (Dec.P + 2)
      have := Int.mul_nonneg (Int.mul_nonneg hrx (Int.le_of_lt hps)) hP
      omega
    · show 2 * Dec.PP * (0 * ry) ≤ 2 * Dec.PP * (0 * ps) + ry * ps * (Dec.P + 2)
      have := Int.mul_nonneg (Int.mul_nonneg hry (Int.le_of_lt hps)) hP
      omega
  · have L := depositVals_laws h
    rw [← e] at L
    exact L

/-- **A deposit never takes more of either coin than was offered** (and never a negative amount). -/
theorem deposit_takes_at_most_offered {rx ry ps x y ax ay pc : Int} (h : DepositDom rx ry ps x y)
    (hd : deposit rx ry ps x y = some (ax, ay, pc)) :
    (0 ≤ ax ∧ ax ≤ x) ∧ (0 ≤ ay ∧ ay ≤ y) ∧ 0 ≤ pc :=
  let ⟨a, b, c, _, _⟩ := deposit_laws h hd; ⟨a, b, c⟩

/-- **Shares are minted at a rate no better than reserves per share**, up to the half-ulp of `mintProportion`:
`pc·r ≤ a·ps + r·ps·(10^18+2)/(2·10^36)` for both coins (denominators cleared). -/
theorem deposit_rate_not_better {rx ry ps x y ax ay pc : Int} (h : DepositDom rx ry ps x y)
    (hd : deposit rx ry ps x y = some (ax, ay, pc)) :
    2 * Dec.PP * (pc * rx) ≤ 2 * Dec.PP * (ax * ps) + rx * ps * (Dec.P + 2) ∧
    2 * Dec.PP * (pc * ry) ≤ 2 * Dec.PP * (ay * ps) + ry * ps * (Dec.P + 2) :=
  let ⟨_, _, _, a, b⟩ := deposit_laws h hd; ⟨a, b⟩

/-- **Reserves per share after a deposit** are at least `(1 - 10^-17)` × reserves per share before:
`(10^17 - 1)·r/ps ≤ 10^17·(r + a)/(ps + pc)` for both coins. -/
theorem reserves_per_share_nondecreasing_deposit {rx ry ps x y ax ay pc : Int} (h : DepositDom rx ry ps x y)
    (hd : deposit rx ry ps x y = some (ax, ay, pc)) :
    (100000000000000000 - 1) * (rx * (ps + pc)) ≤ 100000000000000000 * ((rx + ax) * ps) ∧
    (100000000000000000 - 1) * (ry * (ps + pc)) ≤ 100000000000000000 * ((ry + ay) * ps) := by
  obtain ⟨_, _, hpc, a, b⟩ := deposit_laws h hd
  obtain ⟨hrx, hry, _, hps, _, _⟩ := h
  exact ⟨perShare_of_rate hrx (Int.le_of_lt hps) hpc a, perShare_of_rate hry (Int.le_of_lt hps) hpc b⟩

/-- The rounding bound of `deposit_rate_not_better` is not slack: with supply 3 the half-even rounding of
`mintProportion = 1/3` goes DOWN and the depositor gets a third of the pool for `10^18 - 1` instead of `10^18`
coins — the strict law `pc·rx ≤ ax·ps` is false of the code, the law with the stated bound holds. -/
theorem deposit_dust_goes_to_depositor :
    deposit 3000000000000000000 3000000000000000000 3 1000000000000000002 1000000000000000002
      = some (999999999999999999, 999999999999999999, 1) ∧
    ¬ (1 * 3000000000000000000 ≤ 999999999999999999 * (3:Int)) := by
  set_option exponentiation.threshold 512 in decide

/-- Inside the module bounds (all arguments ≤ 10^40) an intermediate of `Deposit` CAN exceed 315 bits
(`ps·ratio` = 10^98): the overflow arm is reachable and returns zeros (the request fails, nothing moves). -/
theorem deposit_overflow_reachable_within_bounds :
    deposit 1 1 (10^40) (10^40) (10^40) = some (0, 0, 0) ∧
    overflows (depositCore 1 1 (10^40) (10^40) (10^40)) = true := by
  set_option exponentiation.threshold 512 in decide

/-! ## Withdraw -/

/-- `amm.Withdraw` never panics when there are outstanding shares. -/
theorem withdraw_total {rx ry ps pc : Int} {fee : Dec} (hps : ps ≠ 0) :
    ∃ r, withdraw rx ry ps pc fee = some r := by
  have hnp : withdrawCore rx ry ps pc fee ≠ .error .panic := withdrawCore_no_panic hps
  unfold withdraw
  split
  · exact ⟨_, rfl⟩
  · split
    · exact ⟨_, rfl⟩
    · exact ⟨_, rfl⟩
    · rename_i hc; exact absurd hc hnp

theorem withdraw_overflow_returns_zeros {rx ry ps pc : Int} {fee : Dec} (hne : pc ≠ ps)
    (h : withdrawCore rx ry ps pc fee = .error .overflow) : withdraw rx ry ps pc fee = some (0, 0) := by
  unfold withdraw; rw [if_neg hne, h]

/-- **Redeeming the last outstanding shares returns the entire remaining reserves** — for all integers,
whatever the fee rate. -/
theorem last_share_gets_all (rx ry ps : Int) (fee : Dec) : withdraw rx ry ps ps fee = some (rx, ry) := by
  unfold withdraw; rw [if_pos rfl]

/-- **A withdrawal (of less than the whole supply) never returns more than the pro-rata part reduced by the
fee**: `x·ps·10^18 ≤ rx·pc·(10^18 − fee)`, same for `y`; exact (truncation only). -/
theorem withdraw_at_most_prorata {rx ry ps pc x y : Int} {fee : Dec} (h : WithdrawDom rx ry ps pc fee)
    (hne : pc ≠ ps) (hw : withdraw rx ry ps pc fee = some (x, y)) :
    (0 ≤ x ∧ x * ps * Dec.P ≤ rx * pc * (Dec.P - fee)) ∧ (0 ≤ y ∧ y * ps * Dec.P ≤ ry * pc * (Dec.P - fee)) := by
  obtain ⟨hrx, hry, hps, hpc, _, hf0, hf1⟩ := h
  have hm : (0:Int) ≤ Dec.P - fee := Int.sub_nonneg_of_le hf1
  rcases withdraw_cases hw with ⟨e, _⟩ | ⟨_, _, e⟩ | ⟨_, _, e⟩
  · exact absurd e hne
  · have e1 : x = 0 := congrArg (·.1) e
    have e2 : y = 0 := congrArg (·.2) e
    subst e1 e2
    have a := Int.mul_nonneg (Int.mul_nonneg hrx hpc) hm
    have b := Int.mul_nonneg (Int.mul_nonneg hry hpc) hm
    exact ⟨⟨Int.le_refl 0, by omega⟩, ⟨Int.le_refl 0, by omega⟩⟩
  · have e1 : x = outVal rx ps pc fee := congrArg (·.1) e
    have e2 : y = outVal ry ps pc fee := congrArg (·.2) e
    subst e1 e2
    exact ⟨outVal_facts hrx hps hpc hf1, outVal_facts hry hps hpc hf1⟩

/-- **Reserves per share never decrease through a withdrawal** (exact): `r/ps ≤ (r − out)/(ps − pc)` in
cross-multiplied form, and no more than the reserve leaves the pool. -/
theorem reserves_per_share_nondecreasing_withdraw {rx ry ps pc x y : Int} {fee : Dec}
    (h : WithdrawDom rx ry ps pc fee) (hw : withdraw rx ry ps pc fee = some (x, y)) :
    rx * (ps - pc) ≤ (rx - x) * ps ∧ ry * (ps - pc) ≤ (ry - y) * ps ∧ x ≤ rx ∧ y ≤ ry := by
  by_cases hne : pc = ps
  · subst hne
    rw [last_share_gets_all] at hw
    have := Option.some.inj hw
    have e1 : rx = x := congrArg (·.1) this
    have e2 : ry = y := congrArg (·.2) this
    subst e1 e2
    simp
  · obtain ⟨⟨_, a⟩, ⟨_, b⟩⟩ := withdraw_at_most_prorata h hne hw
    obtain ⟨hrx, hry, hps, hpc, hle, hf0, hf1⟩ := h
    have hP := P_pos
    -- out·ps·P ≤ r·pc·(P − fee) ≤ r·pc·P  ⇒  out·ps ≤ r·pc ≤ r·ps
    have key : ∀ r out : Int, 0 ≤ r → out * ps * Dec.P ≤ r * pc * (Dec.P - fee) →
        r * (ps - pc) ≤ (r - out) * ps ∧ out ≤ r := by
      intro r out hr hb
      have h1 : r * pc * (Dec.P - fee) ≤ r * pc * Dec.P :=
        Int.mul_le_mul_of_nonneg_left (Int.sub_le_self _ hf0) (Int.mul_nonneg hr hpc)
      have h2 : out * ps ≤ r * pc := Int.le_of_mul_le_mul_right (Int.le_trans hb h1) hP
      have h3 : r * pc ≤ r * ps := Int.mul_le_mul_of_nonneg_left hle hr
      refine ⟨by nlinarith, ?_⟩
      exact Int.le_of_mul_le_mul_right (Int.le_trans h2 h3) hps
    obtain ⟨k1, k2⟩ := key rx x hrx a
    obtain ⟨k3, k4⟩ := key ry y hry b
    exact ⟨k1, k3, k2, k4⟩

/-- **Reserves per outstanding share never decrease through deposits and withdrawals** (deposits: up to a
relative error below 10^-17; withdrawals: exactly). -/
theorem reserves_per_share_nondecreasing :
    (∀ rx ry ps x y ax ay pc : Int, DepositDom rx ry ps x y → deposit rx ry ps x y = some (ax, ay, pc) →
      (100000000000000000 - 1) * (rx * (ps + pc)) ≤ 100000000000000000 * ((rx + ax) * ps) ∧
      (100000000000000000 - 1) * (ry * (ps + pc)) ≤ 100000000000000000 * ((ry + ay) * ps)) ∧
    (∀ (rx ry ps pc x y : Int) (fee : Dec), WithdrawDom rx ry ps pc fee → withdraw rx ry ps pc fee = some (x, y) →
      rx * (ps - pc) ≤ (rx - x) * ps ∧ ry * (ps - pc) ≤ (ry - y) * ps) :=
  ⟨fun _ _ _ _ _ _ _ _ h hd => reserves_per_share_nondecreasing_deposit h hd,
   fun _ _ _ _ _ _ _ h hw => let ⟨a, b, _, _⟩ := reserves_per_share_nondecreasing_withdraw h hw; ⟨a, b⟩⟩

/-- `Deposit` does not reach the overflow arm when the offers are inside the module bounds (≤ 10^40) and the
shares to be minted stay below 10^76 for one of the coins (`ps·x ≤ 10^76·rx`): `ps·ratio`, the only intermediate
that can exceed 315 bits, then stays below 10^94 < 2^315.  No bound on reserves or supply is needed. -/
theorem deposit_no_overflow_of_small_mint {rx ry ps x y : Int} (h : DepositDom rx ry ps x y)
    (bx : x ≤ 10^40) (bY : y ≤ 10^40)
    (hm : (0 < rx ∧ ps * x ≤ 10^76 * rx) ∨ (0 < ry ∧ ps * y ≤ 10^76 * ry)) :
    overflows (depositCore rx ry ps x y) = false ∧ deposit rx ry ps x y = some (depositVals rx ry ps x y) := by
  have hdom := h
  obtain ⟨hrx, hry, hr, hps, hx, hy⟩ := h
  have hP := P_pos
  obtain ⟨r0, r1, r2⟩ := ratioVal_facts hrx hry hr hx hy
  have key : ∀ r off : Int, 0 < r → r * ratioVal rx ry x y ≤ off * Dec.P → ps * off ≤ 10^76 * r →
      ps * ratioVal rx ry x y < B315 := by
    intro r off hr0 hle hb
    have h1 : (ps * ratioVal rx ry x y) * r ≤ (10^76 * Dec.P) * r := by
      calc (ps * ratioVal rx ry x y) * r = ps * (r * ratioVal rx ry x y) := by ring
        _ ≤ ps * (off * Dec.P) := Int.mul_le_mul_of_nonneg_left hle (Int.le_of_lt hps)
        _ = (ps * off) * Dec.P := by ring
        _ ≤ (10^76 * r) * Dec.P := Int.mul_le_mul_of_nonneg_right hb (Int.le_of_lt hP)
        _ = (10^76 * Dec.P) * r := by ring
    exact Int.lt_of_le_of_lt (Int.le_of_mul_le_mul_right h1 hr0) (by decide)
  have hov : ps * ratioVal rx ry x y < B315 := by
    rcases hm with ⟨a, b⟩ | ⟨a, b⟩
    · exact key rx x a r1 b
    · exact key ry y a r2 b
  have e := depositCore_eq_ok hdom (by simpa [E40] using bx) (by simpa [E40] using bY) hov
  refine ⟨by rw [e]; rfl, ?_⟩
  unfold deposit; rw [e]

/-- `Withdraw` never reaches the overflow arm inside the module bounds (reserves ≤ 10^40; any supply). -/
theorem withdraw_no_overflow_within_bounds {rx ry ps pc : Int} {fee : Dec} (h : WithdrawDom rx ry ps pc fee)
    (bx : rx ≤ 10^40) (bY : ry ≤ 10^40) :
    overflows (withdrawCore rx ry ps pc fee) = false := by
  rw [withdrawCore_eq_ok h (by simpa [E40] using bx) (by simpa [E40] using bY)]; rfl

/-! ### Non-vacuity: concrete runs inside the domains -/

example : DepositDom 1000000 3000000 2000 500 1600 ∧ deposit 1000000 3000000 2000 500 1600 = some (500, 1500, 1) := by
  set_option exponentiation.threshold 512 in decide
example : DepositDom 0 700 10 5 70 ∧ deposit 0 700 10 5 70 = some (0, 70, 1) := by
  set_option exponentiation.threshold 512 in decide
example : WithdrawDom 1000 2000 10 3 3000000000000000 ∧ (3:Int) ≠ 10 ∧
    withdraw 1000 2000 10 3 3000000000000000 = some (299, 598) := by
  set_option exponentiation.threshold 512 in decide
example : withdraw 1000 2000 10 10 3000000000000000 = some (1000, 2000) := last_share_gets_all _ _ _ _

/-! ## Ranged pools -/

/-- An accepted `CreateRangedPool` had an admissible price triple (what "admissible" means in the property),
and the pool remembers exactly that range. -/
theorem create_ok_implies_admissible {x y : Int} {minP maxP initP : Dec} {p : RPool}
    (h : createRangedPool x y minP maxP initP = .ok (some p)) :
    (0 < x ∨ 0 < y) ∧ minPoolPrice ≤ minP ∧ minP < maxP ∧ maxP ≤ maxPoolPrice ∧ minP ≤ initP ∧ initP ≤ maxP ∧
    minGapRatio ≤ Dec.quo (Dec.sub maxP minP) minP ∧ p.minP = minP ∧ p.maxP = maxP := by
  obtain ⟨a, v, m1, m2⟩ := createRangedPool_ok h
  obtain ⟨_, b1, b2, b3, b4, b5, b6⟩ := validate_ok_true v
  exact ⟨a, b1, b3, b2, b4, b5, b6, m1, m2⟩

/-- **The price-range clause is FALSE of the code** — everyday prices, an on-tick admissible triple
(min 3.2, max 3.2032, initial 3.2), a y-only deposit of 65 721 122: the created pool's price is
3.199999999999999999 < 3.2 = minPrice. -/
theorem ranged_price_in_range_counterexample :
    createdReserves 0 65721122 3200000000000000000 3203200000000000000 3200000000000000000 = some (0, 65721122) ∧
    createdPrice 0 65721122 3200000000000000000 3203200000000000000 3200000000000000000 = some 3199999999999999999 ∧
    ¬ PriceInRange 3200000000000000000 3203200000000000000 3199999999999999999 := by
  set_option exponentiation.threshold 512 in decide

/-- … and above the maximum: min 0.000089, max 8.9, initial 8.9, x-only pool: price 8.900000000000000001. -/
theorem ranged_price_above_max_counterexample :
    createdReserves 25435609390 11 89000000000000 8900000000000000000 8900000000000000000 = some (25435609390, 0) ∧
    createdPrice 25435609390 11 89000000000000 8900000000000000000 8900000000000000000 = some 8900000000000000001 ∧
    ¬ PriceInRange 89000000000000 8900000000000000000 8900000000000000001 := by
  set_option exponentiation.threshold 512 in decide

/-- … and not only by one ulp: at prices near the upper module bound (min 4.603·10^19, max 10^20, initial
4.7485·10^19, all on ticks; offer 6.6·10^19 / 8.9·10^31) the pool is created with reserves (6.6·10^19, 28) and its
price is 6.83·10^18 — 85 % below minPrice (`1/sqrt(P)` has only 8 significant digits there). -/
theorem ranged_price_far_below_min_counterexample :
    createdReserves 66000000000000000000 89000000000000000000000000000000
        46030000000000000000000000000000000000 100000000000000000000000000000000000000
        47485000000000000000000000000000000000 = some (66000000000000000000, 28) ∧
    createdPrice 66000000000000000000 89000000000000000000000000000000
        46030000000000000000000000000000000000 100000000000000000000000000000000000000
        47485000000000000000000000000000000000 = some 6829975878090043315189425532011435350 ∧
    (6829975878090043315189425532011435350 : Int) * 100 < 15 * 46030000000000000000000000000000000000 := by
  set_option exponentiation.threshold 512 in decide

/-- **What does hold (partial).** For every ranged pool record built by `NewRangedPool` (any reserves, any
range) whose translation is non-negative with `transY > 0`, the price lies between the prices of the two
single-asset end points of the pool's OWN translated curve:
`transX/(ry+transY) ≤ price ≤ (rx+transX)/transY` (in `Dec` arithmetic, with `Quo`'s rounding).
MISSING for the full clause: `transX/(ry_max+transY) = minPrice` and `(rx_max+transX)/transY = maxPrice`; these
hold only approximately (`approxSqrt`, `Quo`, `Mul` roundings), see the counterexamples above. -/
theorem ranged_price_between_curve_endpoints_partial {rx ry ps : Int} {minP maxP : Dec} {p : RPool} {v : Dec}
    (hp : newRangedPool rx ry ps minP maxP = .ok p) (hrx : 0 ≤ rx) (hry : 0 ≤ ry)
    (htx : 0 ≤ p.transX) (hty : 0 < p.transY) (hv : rangedPrice p = .ok v) :
    Dec.quo p.transX p.yComp ≤ v ∧ v ≤ Dec.quo p.xComp p.transY := by
  obtain ⟨_, _, _, _, ex, ey⟩ := newRangedPool_ok hp
  have hP := P_pos
  have hx : p.transX ≤ p.xComp := by
    rw [ex]; show p.transX ≤ rx * Dec.P + p.transX
    exact Int.le_add_of_nonneg_left (Int.mul_nonneg hrx (Int.le_of_lt hP))
  have hy : p.transY ≤ p.yComp := by
    rw [ey]; show p.transY ≤ ry * Dec.P + p.transY
    exact Int.le_add_of_nonneg_left (Int.mul_nonneg hry (Int.le_of_lt hP))
  have hv' : v = Dec.quo p.xComp p.yComp := by
    unfold rangedPrice at hv
    split at hv
    · exact absurd hv (by simp)
    · exact (quo_ok hv).2
  rw [hv']
  exact ⟨quo_mono_num htx hx (Int.lt_of_lt_of_le hty hy), quo_anti_den (Int.le_trans htx hx) hty hy⟩

/-- non-vacuity of the partial theorem: a real two-sided pool (reserves 10^12 / 10^12, range [1, 4]) -/
example : (match newRangedPool 1000000000000 1000000000000 1000000000000 1000000000000000000 4000000000000000000 with
    | .ok p => decide (0 ≤ p.transX ∧ 0 < p.transY) && (match rangedPrice p with | .ok v => decide (PriceInRange p.minP p.maxP v) | _ => false)
    | _ => false) = true := by
  set_option exponentiation.threshold 512 in decide

end Comdex.C06
