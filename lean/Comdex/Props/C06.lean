import Comdex.Lemmas.Pool
import Comdex.Lemmas.PoolKeeper
/-!
# C06 — Pool shares are fair: deposits and withdrawals cannot extract value from a pool

Model: `Comdex/Model/Pool.lean` (`deposit`, `withdraw`, `createRangedPool`, `deriveTranslation`, `rangedPrice`
over `Comdex.Dec`, with the `SafeMath` overflow arm).  All theorems quantify over ALL integers satisfying
the stated (decidable) domain predicates — there is NO upper bound on reserves, supplies or amounts: inside
the module bounds (≤ 10^40) and far beyond them the laws hold, because the overflow arm returns zeros.

Property clause → theorem
* "a deposit never takes more of either coin than was offered"           → `deposit_takes_at_most_offered`
* "mints shares at a rate no better than the pool's reserves per share"  → `deposit_rate_not_better`
     (bound: `pc/ps ≤ a/r + (10^18+2)/(2·10^36)`, the half-ulp of `mintProportion`; it is tight:
      `deposit_dust_goes_to_depositor` shows the depositor really can win that dust)
* "a withdrawal never returns more than the pro-rata part reduced by the fee" → `withdraw_at_most_prorata` (exact)
* "reserves per outstanding share never decrease (up to relative error < 10^-17)"
     → `reserves_per_share_nondecreasing` (= `…_deposit` with the bound, `…_withdraw` exact)
* "redeeming the last outstanding shares returns the entire remaining reserves" → `last_share_gets_all`
* overflow (`SafeMath`) → `deposit_overflow_returns_zeros`, `withdraw_overflow_returns_zeros`,
     `deposit_overflow_reachable_within_bounds` (so "no overflow within 10^40" is FALSE for Deposit),
     `deposit_no_overflow_of_small_mint`, `withdraw_no_overflow_within_bounds`;
     neither function panics on its domain: `deposit_total`, `withdraw_total`
* "a ranged pool's price always stays within its configured price range" → FALSE of the code:
     `ranged_price_in_range_counterexample` (one ulp below min, everyday prices, on-tick triple),
     `ranged_price_above_max_counterexample`, `ranged_price_far_below_min_counterexample` (85 % below min);
     what IS proved: `ranged_price_between_curve_endpoints_partial` (the price lies between the prices of the
     two single-asset end points of the pool's own translated curve) and `create_ok_implies_admissible`.
     MISSING for the full clause: that those end points coincide with `minPrice`/`maxPrice` — they do so only
     up to the error of `approxSqrt`/`Quo`/`Mul` rounding, which is unbounded relative to 10^-18 at prices
     near 10^20 (see notes/C06.md).
     Under swaps (`RangedPool.SetBalances`): with the translation kept (`derive = false`)
     `ranged_price_within_endpoints_fixed_translation` (every reserve pair of the box [0,X]×[0,Y] prices between the
     two ends of the pool's own curve) and `ranged_price_monotone_fixed_translation`; with `derive = true`
     `rederive_is_fresh_pool` (= `NewRangedPool` on the new reserves, history forgotten),
     `rederive_same_iff_translation_fixpoint` (end points unchanged iff the translation is a fixed point of
     `DeriveTranslation`) and `rederive_moves_endpoint_counterexample` (it is not: the D15 mechanism).

The KEEPER level (`Model/PoolKeeper.lean`: `Keeper.ExecuteDepositRequest` / `ExecuteWithdrawRequest` / `Finish…Request`,
the end-block batch `ExecuteRequests`, `MsgDepositAndFarm`, `MsgUnfarmAndWithdraw`; basic and ranged pools) — every
clause lifted to every execution of a request on the pool's bank balances, bank supply and the app's WithdrawFeeRate:
* tie keeper → arithmetic                         → `keeper_deposit_moves_amm_result`, `keeper_withdraw_moves_amm_result`
* "never takes more than offered" (+ refund exact, failed request refunded in full) → `keeper_deposit_takes_at_most_offered`
* "rate no better than reserves per share"        → `keeper_deposit_rate_not_better`
* "at most pro rata reduced by the fee"           → `keeper_withdraw_at_most_prorata_minus_fee`
* "last shares return the entire reserves" (+ burns the supply, disables the pool) → `keeper_last_share_gets_all`
* "reserves per share never decrease" over ANY history of executed requests (failed / aborted ones and donations
  included), `(1−10^-17)^k` for `k` deposits   → `keeper_reserves_per_share_nondecreasing` (step: `keeper_step`);
  per pool of a whole batch                      → `keeper_batch_reserves_per_share`
* no request gets stuck on a basic pool           → `keeper_exec_total`
* in-transaction paths execute exactly their own request → `keeper_deposit_and_farm`, `keeper_unfarm_and_withdraw`
-/
namespace Comdex.C06
open Comdex Comdex.Pool

/-! ## Deposit -/

/-- `amm.Deposit` never panics on a pool that is not depleted (so the request either executes or fails cleanly). -/
theorem deposit_total {rx ry ps x y : Int} (h : DepositDom rx ry ps x y) :
    ∃ r, deposit rx ry ps x y = some r := by
  obtain ⟨hrx, hry, hr, hps, _, _⟩ := h
  have hnp : depositCore rx ry ps x y ≠ .error .panic :=
    depositCore_no_panic (by omega) (by omega)
  unfold deposit
  split
  · exact ⟨_, rfl⟩
  · exact ⟨_, rfl⟩
  · rename_i hc; exact absurd hc hnp

/-- the overflow arm: any `Dec`/`Int` overflow inside makes `Deposit` return zeros -/
theorem deposit_overflow_returns_zeros {rx ry ps x y : Int}
    (h : depositCore rx ry ps x y = .error .overflow) : deposit rx ry ps x y = some (0, 0, 0) := by
  unfold deposit; rw [h]

/-- all deposit laws at once (used by the named clauses below) -/
theorem deposit_laws {rx ry ps x y ax ay pc : Int} (h : DepositDom rx ry ps x y)
    (hd : deposit rx ry ps x y = some (ax, ay, pc)) :
    TakesAtMostOffered x ax ∧ TakesAtMostOffered y ay ∧ 0 ≤ pc ∧
    RateNotBetter rx ps ax pc ∧ RateNotBetter ry ps ay pc := by
  rcases deposit_cases hd with ⟨_, e⟩ | ⟨_, e⟩
  · obtain ⟨hrx, hry, _, hps, hx, hy⟩ := h
    have e1 : ax = 0 := congrArg (·.1) e
    have e2 : ay = 0 := congrArg (·.2.1) e
    have e3 : pc = 0 := congrArg (·.2.2) e
    subst e1 e2 e3
    have hP : (0:Int) ≤ Dec.P + 2 := by decide
    refine ⟨⟨Int.le_refl 0, hx⟩, ⟨Int.le_refl 0, hy⟩, Int.le_refl 0, ?_, ?_⟩
    · show 2 * Dec.PP * (0 * rx) ≤ 2 * Dec.PP * (0 * ps) + rx * ps * (Dec.P + 2)
      have := Int.mul_nonneg (Int.mul_nonneg hrx (Int.le_of_lt hps)) hP
      omega
    · show 2 * Dec.PP * (0 * ry) ≤ 2 * Dec.PP * (0 * ps) + ry * ps * (Dec.P + 2)
      have := Int.mul_nonneg (Int.mul_nonneg hry (Int.le_of_lt hps)) hP
      omega
  · have L := depositVals_laws h
    rw [← e] at L
    exact L

/-- **A deposit never takes more of either coin than was offered** (and never a negative amount). -/
theorem deposit_takes_at_most_offered {rx ry ps x y ax ay pc : Int} (h : DepositDom rx ry ps x y)
    (hd : deposit rx ry ps x y = some (ax, ay, pc)) :
    (0 ≤ ax ∧ ax ≤ x) ∧ (0 ≤ ay ∧ ay ≤ y) ∧ 0 ≤ pc :=
  let ⟨a, b, c, _, _⟩ := deposit_laws h hd; ⟨a, b, c⟩

/-- **Shares are minted at a rate no better than reserves per share**, up to the half-ulp of `mintProportion`:
`pc·r ≤ a·ps + r·ps·(10^18+2)/(2·10^36)` for both coins (denominators cleared). -/
theorem deposit_rate_not_better {rx ry ps x y ax ay pc : Int} (h : DepositDom rx ry ps x y)
    (hd : deposit rx ry ps x y = some (ax, ay, pc)) :
    2 * Dec.PP * (pc * rx) ≤ 2 * Dec.PP * (ax * ps) + rx * ps * (Dec.P + 2) ∧
    2 * Dec.PP * (pc * ry) ≤ 2 * Dec.PP * (ay * ps) + ry * ps * (Dec.P + 2) :=
  let ⟨_, _, _, a, b⟩ := deposit_laws h hd; ⟨a, b⟩

/-- **Reserves per share after a deposit** are at least `(1 - 10^-17)` × reserves per share before:
`(10^17 - 1)·r/ps ≤ 10^17·(r + a)/(ps + pc)` for both coins. -/
theorem reserves_per_share_nondecreasing_deposit {rx ry ps x y ax ay pc : Int} (h : DepositDom rx ry ps x y)
    (hd : deposit rx ry ps x y = some (ax, ay, pc)) :
    (100000000000000000 - 1) * (rx * (ps + pc)) ≤ 100000000000000000 * ((rx + ax) * ps) ∧
    (100000000000000000 - 1) * (ry * (ps + pc)) ≤ 100000000000000000 * ((ry + ay) * ps) := by
  obtain ⟨_, _, hpc, a, b⟩ := deposit_laws h hd
  obtain ⟨hrx, hry, _, hps, _, _⟩ := h
  exact ⟨perShare_of_rate hrx (Int.le_of_lt hps) hpc a, perShare_of_rate hry (Int.le_of_lt hps) hpc b⟩

/-- The rounding bound of `deposit_rate_not_better` is not slack: with supply 3 the half-even rounding of
`mintProportion = 1/3` goes DOWN and the depositor gets a third of the pool for `10^18 - 1` instead of `10^18`
coins — the strict law `pc·rx ≤ ax·ps` is false of the code, the law with the stated bound holds. -/
theorem deposit_dust_goes_to_depositor :
    deposit 3000000000000000000 3000000000000000000 3 1000000000000000002 1000000000000000002
      = some (999999999999999999, 999999999999999999, 1) ∧
    ¬ (1 * 3000000000000000000 ≤ 999999999999999999 * (3:Int)) := by
  set_option exponentiation.threshold 512 in decide

/-- Inside the module bounds (all arguments ≤ 10^40) an intermediate of `Deposit` CAN exceed 315 bits
(`ps·ratio` = 10^98): the overflow arm is reachable and returns zeros (the request fails, nothing moves). -/
theorem deposit_overflow_reachable_within_bounds :
    deposit 1 1 (10^40) (10^40) (10^40) = some (0, 0, 0) ∧
    overflows (depositCore 1 1 (10^40) (10^40) (10^40)) = true := by
  set_option exponentiation.threshold 512 in decide

/-! ## Withdraw -/

/-- `amm.Withdraw` never panics when there are outstanding shares. -/
theorem withdraw_total {rx ry ps pc : Int} {fee : Dec} (hps : ps ≠ 0) :
    ∃ r, withdraw rx ry ps pc fee = some r := by
  have hnp : withdrawCore rx ry ps pc fee ≠ .error .panic := withdrawCore_no_panic hps
  unfold withdraw
  split
  · exact ⟨_, rfl⟩
  · split
    · exact ⟨_, rfl⟩
    · exact ⟨_, rfl⟩
    · rename_i hc; exact absurd hc hnp

theorem withdraw_overflow_returns_zeros {rx ry ps pc : Int} {fee : Dec} (hne : pc ≠ ps)
    (h : withdrawCore rx ry ps pc fee = .error .overflow) : withdraw rx ry ps pc fee = some (0, 0) := by
  unfold withdraw; rw [if_neg hne, h]

/-- **Redeeming the last outstanding shares returns the entire remaining reserves** — for all integers,
whatever the fee rate. -/
theorem last_share_gets_all (rx ry ps : Int) (fee : Dec) : withdraw rx ry ps ps fee = some (rx, ry) := by
  unfold withdraw; rw [if_pos rfl]

/-- **A withdrawal (of less than the whole supply) never returns more than the pro-rata part reduced by the
fee**: `x·ps·10^18 ≤ rx·pc·(10^18 − fee)`, same for `y`; exact (truncation only). -/
theorem withdraw_at_most_prorata {rx ry ps pc x y : Int} {fee : Dec} (h : WithdrawDom rx ry ps pc fee)
    (hne : pc ≠ ps) (hw : withdraw rx ry ps pc fee = some (x, y)) :
    (0 ≤ x ∧ x * ps * Dec.P ≤ rx * pc * (Dec.P - fee)) ∧ (0 ≤ y ∧ y * ps * Dec.P ≤ ry * pc * (Dec.P - fee)) := by
  obtain ⟨hrx, hry, hps, hpc, _, hf0, hf1⟩ := h
  have hm : (0:Int) ≤ Dec.P - fee := Int.sub_nonneg_of_le hf1
  rcases withdraw_cases hw with ⟨e, _⟩ | ⟨_, _, e⟩ | ⟨_, _, e⟩
  · exact absurd e hne
  · have e1 : x = 0 := congrArg (·.1) e
    have e2 : y = 0 := congrArg (·.2) e
    subst e1 e2
    have a := Int.mul_nonneg (Int.mul_nonneg hrx hpc) hm
    have b := Int.mul_nonneg (Int.mul_nonneg hry hpc) hm
    exact ⟨⟨Int.le_refl 0, by omega⟩, ⟨Int.le_refl 0, by omega⟩⟩
  · have e1 : x = outVal rx ps pc fee := congrArg (·.1) e
    have e2 : y = outVal ry ps pc fee := congrArg (·.2) e
    subst e1 e2
    exact ⟨outVal_facts hrx hps hpc hf1, outVal_facts hry hps hpc hf1⟩

/-- **Reserves per share never decrease through a withdrawal** (exact): `r/ps ≤ (r − out)/(ps − pc)` in
cross-multiplied form, and no more than the reserve leaves the pool. -/
theorem reserves_per_share_nondecreasing_withdraw {rx ry ps pc x y : Int} {fee : Dec}
    (h : WithdrawDom rx ry ps pc fee) (hw : withdraw rx ry ps pc fee = some (x, y)) :
    rx * (ps - pc) ≤ (rx - x) * ps ∧ ry * (ps - pc) ≤ (ry - y) * ps ∧ x ≤ rx ∧ y ≤ ry := by
  by_cases hne : pc = ps
  · subst hne
    rw [last_share_gets_all] at hw
    have := Option.some.inj hw
    have e1 : rx = x := congrArg (·.1) this
    have e2 : ry = y := congrArg (·.2) this
    subst e1 e2
    simp
  · obtain ⟨⟨_, a⟩, ⟨_, b⟩⟩ := withdraw_at_most_prorata h hne hw
    obtain ⟨hrx, hry, hps, hpc, hle, hf0, hf1⟩ := h
    have hP := P_pos
    -- out·ps·P ≤ r·pc·(P − fee) ≤ r·pc·P  ⇒  out·ps ≤ r·pc ≤ r·ps
    have key : ∀ r out : Int, 0 ≤ r → out * ps * Dec.P ≤ r * pc * (Dec.P - fee) →
        r * (ps - pc) ≤ (r - out) * ps ∧ out ≤ r := by
      intro r out hr hb
      have h1 : r * pc * (Dec.P - fee) ≤ r * pc * Dec.P :=
        Int.mul_le_mul_of_nonneg_left (Int.sub_le_self _ hf0) (Int.mul_nonneg hr hpc)
      have h2 : out * ps ≤ r * pc := Int.le_of_mul_le_mul_right (Int.le_trans hb h1) hP
      have h3 : r * pc ≤ r * ps := Int.mul_le_mul_of_nonneg_left hle hr
      refine ⟨by nlinarith, ?_⟩
      exact Int.le_of_mul_le_mul_right (Int.le_trans h2 h3) hps
    obtain ⟨k1, k2⟩ := key rx x hrx a
    obtain ⟨k3, k4⟩ := key ry y hry b
    exact ⟨k1, k3, k2, k4⟩

/-- **Reserves per outstanding share never decrease through deposits and withdrawals** (deposits: up to a
relative error below 10^-17; withdrawals: exactly). -/
theorem reserves_per_share_nondecreasing :
    (∀ rx ry ps x y ax ay pc : Int, DepositDom rx ry ps x y → deposit rx ry ps x y = some (ax, ay, pc) →
      (100000000000000000 - 1) * (rx * (ps + pc)) ≤ 100000000000000000 * ((rx + ax) * ps) ∧
      (100000000000000000 - 1) * (ry * (ps + pc)) ≤ 100000000000000000 * ((ry + ay) * ps)) ∧
    (∀ (rx ry ps pc x y : Int) (fee : Dec), WithdrawDom rx ry ps pc fee → withdraw rx ry ps pc fee = some (x, y) →
      rx * (ps - pc) ≤ (rx - x) * ps ∧ ry * (ps - pc) ≤ (ry - y) * ps) :=
  ⟨fun _ _ _ _ _ _ _ _ h hd => reserves_per_share_nondecreasing_deposit h hd,
   fun _ _ _ _ _ _ _ h hw => let ⟨a, b, _, _⟩ := reserves_per_share_nondecreasing_withdraw h hw; ⟨a, b⟩⟩

/-- `Deposit` does not reach the overflow arm when the offers are inside the module bounds (≤ 10^40) and the
shares to be minted stay below 10^76 for one of the coins (`ps·x ≤ 10^76·rx`): `ps·ratio`, the only intermediate
that can exceed 315 bits, then stays below 10^94 < 2^315.  No bound on reserves or supply is needed. -/
theorem deposit_no_overflow_of_small_mint {rx ry ps x y : Int} (h : DepositDom rx ry ps x y)
    (bx : x ≤ 10^40) (bY : y ≤ 10^40)
    (hm : (0 < rx ∧ ps * x ≤ 10^76 * rx) ∨ (0 < ry ∧ ps * y ≤ 10^76 * ry)) :
    overflows (depositCore rx ry ps x y) = false ∧ deposit rx ry ps x y = some (depositVals rx ry ps x y) := by
  have hdom := h
  obtain ⟨hrx, hry, hr, hps, hx, hy⟩ := h
  have hP := P_pos
  obtain ⟨r0, r1, r2⟩ := ratioVal_facts hrx hry hr hx hy
  have key : ∀ r off : Int, 0 < r → r * ratioVal rx ry x y ≤ off * Dec.P → ps * off ≤ 10^76 * r →
      ps * ratioVal rx ry x y < B315 := by
    intro r off hr0 hle hb
    have h1 : (ps * ratioVal rx ry x y) * r ≤ (10^76 * Dec.P) * r := by
      calc (ps * ratioVal rx ry x y) * r = ps * (r * ratioVal rx ry x y) := by ring
        _ ≤ ps * (off * Dec.P) := Int.mul_le_mul_of_nonneg_left hle (Int.le_of_lt hps)
        _ = (ps * off) * Dec.P := by ring
        _ ≤ (10^76 * r) * Dec.P := Int.mul_le_mul_of_nonneg_right hb (Int.le_of_lt hP)
        _ = (10^76 * Dec.P) * r := by ring
    exact Int.lt_of_le_of_lt (Int.le_of_mul_le_mul_right h1 hr0) (by decide)
  have hov : ps * ratioVal rx ry x y < B315 := by
    rcases hm with ⟨a, b⟩ | ⟨a, b⟩
    · exact key rx x a r1 b
    · exact key ry y a r2 b
  have e := depositCore_eq_ok hdom (by simpa [E40] using bx) (by simpa [E40] using bY) hov
  refine ⟨by rw [e]; rfl, ?_⟩
  unfold deposit; rw [e]

/-- `Withdraw` never reaches the overflow arm inside the module bounds (reserves ≤ 10^40; any supply). -/
theorem withdraw_no_overflow_within_bounds {rx ry ps pc : Int} {fee : Dec} (h : WithdrawDom rx ry ps pc fee)
    (bx : rx ≤ 10^40) (bY : ry ≤ 10^40) :
    overflows (withdrawCore rx ry ps pc fee) = false := by
  rw [withdrawCore_eq_ok h (by simpa [E40] using bx) (by simpa [E40] using bY)]; rfl

/-! ### Non-vacuity: concrete runs inside the domains -/

example : DepositDom 1000000 3000000 2000 500 1600 ∧ deposit 1000000 3000000 2000 500 1600 = some (500, 1500, 1) := by
  set_option exponentiation.threshold 512 in decide
example : DepositDom 0 700 10 5 70 ∧ deposit 0 700 10 5 70 = some (0, 70, 1) := by
  set_option exponentiation.threshold 512 in decide
example : WithdrawDom 1000 2000 10 3 3000000000000000 ∧ (3:Int) ≠ 10 ∧
    withdraw 1000 2000 10 3 3000000000000000 = some (299, 598) := by
  set_option exponentiation.threshold 512 in decide
example : withdraw 1000 2000 10 10 3000000000000000 = some (1000, 2000) := last_share_gets_all _ _ _ _

/-! ## The keeper level: every execution of a deposit / withdraw request (`Model/PoolKeeper.lean`)

`execDeposit` / `execWithdraw` model `Keeper.ExecuteDepositRequest` / `ExecuteWithdrawRequest` (+ `Finish…Request`):
which values reach the pool arithmetic (the pool's own reserve balances and pool-coin supply, the request's own
coins, the app's `WithdrawFeeRate`) and what is then transferred, minted, burnt, refunded.  The clauses above are
lifted to every execution, from the end-block batch (`execRequests`) or inside `MsgDepositAndFarm` /
`MsgUnfarmAndWithdraw`, on basic and ranged pools. -/
section Keeper
open Comdex.PoolKeeper

/-- The checked tie of the keeper's deposit path: a successful execution moved EXACTLY what `amm.Deposit` returned
for the pool's own reserves and supply and the request's own coins, and minted a positive amount. -/
theorem keeper_deposit_moves_amm_result {p : KPool} {x y : Int} {o : DepOut}
    (h : execDeposit p x y = some o) (hs : o.status = .succeeded) :
    p.disabled = false ∧ deposit p.rx p.ry p.ps x y = some (o.ax, o.ay, o.mint) ∧ 0 < o.mint ∧
    o.rfx = x - o.ax ∧ o.rfy = y - o.ay ∧ o.disable = false := by
  rcases execDeposit_cases h with ⟨dis, e, _⟩ | ⟨hd, _, ax, ay, pc, hdp, hpc, _, _, _, _, e⟩
  · rw [e] at hs; cases hs
  · subst e; exact ⟨hd, hdp, hpc, rfl, rfl, rfl⟩

/-- all laws of one deposit execution (used by the named clauses below) -/
theorem keeper_deposit_laws {p : KPool} {x y : Int} {o : DepOut} (hp : KInv p) (hx : 0 ≤ x) (hy : 0 ≤ y)
    (h : execDeposit p x y = some o) :
    DepConserves x y o ∧ DepFailedClean o ∧ RateNotBetter p.rx p.ps o.ax o.mint ∧ RateNotBetter p.ry p.ps o.ay o.mint ∧
    PerShareAfterDeposit p.rx p.ps o.ax o.mint ∧ PerShareAfterDeposit p.ry p.ps o.ay o.mint := by
  obtain ⟨hrx, hry, hps⟩ := hp
  have hP : (0:Int) ≤ Dec.P + 2 := by decide
  rcases execDeposit_cases h with ⟨dis, e, _⟩ | ⟨hd, hdep, ax, ay, pc, hdp, hpc, hax, hay, hxa, hya, e⟩
  · subst e
    have a := Int.mul_nonneg (Int.mul_nonneg hrx hps) hP
    have b := Int.mul_nonneg (Int.mul_nonneg hry hps) hP
    have c := Int.mul_nonneg hrx hps
    have d := Int.mul_nonneg hry hps
    refine ⟨⟨by simp [depFail], by simp [depFail], ⟨Int.le_refl 0, hx⟩, ⟨Int.le_refl 0, hy⟩, Int.le_refl 0⟩,
      fun _ => ⟨rfl, rfl, rfl⟩, ?_, ?_, ?_, ?_⟩
    · show 2 * Dec.PP * (0 * p.rx) ≤ 2 * Dec.PP * (0 * p.ps) + p.rx * p.ps * (Dec.P + 2); omega
    · show 2 * Dec.PP * (0 * p.ry) ≤ 2 * Dec.PP * (0 * p.ps) + p.ry * p.ps * (Dec.P + 2); omega
    · show (100000000000000000 - 1) * (p.rx * (p.ps + 0)) ≤ 100000000000000000 * ((p.rx + 0) * p.ps)
      simp only [Int.add_zero]; omega
    · show (100000000000000000 - 1) * (p.ry * (p.ps + 0)) ≤ 100000000000000000 * ((p.ry + 0) * p.ps)
      simp only [Int.add_zero]; omega
  · subst e
    obtain ⟨hps0, hr, _⟩ := isDepleted_false hdep
    have hdom : DepositDom p.rx p.ry p.ps x y := ⟨hrx, hry, by omega, by omega, hx, hy⟩
    obtain ⟨r1, r2⟩ := deposit_rate_not_better hdom hdp
    obtain ⟨s1, s2⟩ := reserves_per_share_nondecreasing_deposit hdom hdp
    exact ⟨⟨by show ax + (x - ax) = x; omega, by show ay + (y - ay) = y; omega, ⟨hax, hxa⟩, ⟨hay, hya⟩, Int.le_of_lt hpc⟩,
      (fun e => by cases e), r1, r2, s1, s2⟩

/-- **Keeper level: a deposit never takes more of either coin than was offered** — every coin of the request is
either accepted into the reserve (`0 ≤ accepted ≤ offered`) or refunded (`accepted + refund = offered`), and a failed
request is refunded in full with nothing minted.  For every execution, batch or in-transaction, basic or ranged. -/
theorem keeper_deposit_takes_at_most_offered {p : KPool} {x y : Int} {o : DepOut} (hp : KInv p) (hx : 0 ≤ x)
    (hy : 0 ≤ y) (h : execDeposit p x y = some o) :
    (o.ax + o.rfx = x ∧ o.ay + o.rfy = y) ∧ (0 ≤ o.ax ∧ o.ax ≤ x) ∧ (0 ≤ o.ay ∧ o.ay ≤ y) ∧ 0 ≤ o.mint ∧
    (o.status = .failed → o.ax = 0 ∧ o.ay = 0 ∧ o.mint = 0) :=
  let ⟨⟨a, b, c, d, e⟩, f, _⟩ := keeper_deposit_laws hp hx hy h; ⟨⟨a, b⟩, c, d, e, f⟩

/-- **Keeper level: pool coins are minted at a rate no better than the reserves per share** of the pool's bank
balances and bank supply at the moment of execution (bound of `deposit_rate_not_better`). -/
theorem keeper_deposit_rate_not_better {p : KPool} {x y : Int} {o : DepOut} (hp : KInv p) (hx : 0 ≤ x)
    (hy : 0 ≤ y) (h : execDeposit p x y = some o) :
    2 * Dec.PP * (o.mint * p.rx) ≤ 2 * Dec.PP * (o.ax * p.ps) + p.rx * p.ps * (Dec.P + 2) ∧
    2 * Dec.PP * (o.mint * p.ry) ≤ 2 * Dec.PP * (o.ay * p.ps) + p.ry * p.ps * (Dec.P + 2) :=
  let ⟨_, _, a, b, _⟩ := keeper_deposit_laws hp hx hy h; ⟨a, b⟩

/-- the checked tie of the withdraw path: a successful execution paid out EXACTLY `amm.Withdraw(reserves, supply,
requested pool coin, the app's WithdrawFeeRate)` and burnt exactly the requested pool coin -/
theorem keeper_withdraw_moves_amm_result {fee : Dec} {p : KPool} {pc : Int} {o : WdrOut}
    (h : execWithdraw fee p pc = some o) (hs : o.status = .succeeded) :
    p.disabled = false ∧ withdraw p.rx p.ry p.ps pc fee = some (o.x, o.y) ∧ o.burn = pc ∧ o.rfpc = 0 ∧
    o.disable = decide (pc = p.ps) := by
  rcases execWithdraw_cases h with ⟨dis, e, _⟩ | ⟨hd, _, x, y, hw, _, _, _, _, _, e⟩
  · rw [e] at hs; cases hs
  · subst e; exact ⟨hd, hw, rfl, rfl, rfl⟩

/-- **Keeper level: a withdrawal (of less than the whole supply) never pays out more than the pro-rata part of the
reserve balances reduced by the app's withdraw fee**: `x·ps·10^18 ≤ rx·pc·(10^18 − WithdrawFeeRate)`, same for `y`;
the pool coin is either burnt (success) or refunded (failure: nothing is paid). For every execution. -/
theorem keeper_withdraw_at_most_prorata_minus_fee {fee : Dec} {p : KPool} {pc : Int} {o : WdrOut} (hp : KInv p)
    (hpc : 0 ≤ pc) (hle : pc ≤ p.ps) (hf0 : 0 ≤ fee) (hf1 : fee ≤ Dec.one) (hne : pc ≠ p.ps)
    (h : execWithdraw fee p pc = some o) :
    (0 ≤ o.x ∧ o.x * p.ps * Dec.P ≤ p.rx * pc * (Dec.P - fee)) ∧
    (0 ≤ o.y ∧ o.y * p.ps * Dec.P ≤ p.ry * pc * (Dec.P - fee)) ∧
    o.burn + o.rfpc = pc ∧ (o.status = .failed → o.x = 0 ∧ o.y = 0 ∧ o.burn = 0) ∧ (o.status = .succeeded → o.burn = pc) := by
  obtain ⟨hrx, hry, hps⟩ := hp
  have hm : (0:Int) ≤ Dec.P - fee := Int.sub_nonneg_of_le hf1
  rcases execWithdraw_cases h with ⟨dis, e, _⟩ | ⟨hd, hdep, x, y, hw, _, _, _, _, _, e⟩
  · subst e
    have a := Int.mul_nonneg (Int.mul_nonneg hrx hpc) hm
    have b := Int.mul_nonneg (Int.mul_nonneg hry hpc) hm
    refine ⟨⟨Int.le_refl 0, ?_⟩, ⟨Int.le_refl 0, ?_⟩, (by simp [wdrFail]), (fun _ => ⟨rfl, rfl, rfl⟩), (fun e => by cases e)⟩
    · show 0 * p.ps * Dec.P ≤ p.rx * pc * (Dec.P - fee); omega
    · show 0 * p.ps * Dec.P ≤ p.ry * pc * (Dec.P - fee); omega
  · subst e
    obtain ⟨hps0, _, _⟩ := isDepleted_false hdep
    have hdom : WithdrawDom p.rx p.ry p.ps pc fee := ⟨hrx, hry, by omega, hpc, hle, hf0, hf1⟩
    obtain ⟨a, b⟩ := withdraw_at_most_prorata hdom hne hw
    exact ⟨a, b, (by show pc + 0 = pc; omega), (fun e => by cases e), fun _ => rfl⟩

/-- **Keeper level: redeeming the last outstanding pool coins pays out the entire reserve balances**, burns the whole
supply and disables the pool (whatever the fee rate). -/
theorem keeper_last_share_gets_all {fee : Dec} {p : KPool} (hp : KInv p) (hd : p.disabled = false)
    (hdep : isDepleted p = some false) :
    execWithdraw fee p p.ps =
      some { status := .succeeded, x := p.rx, y := p.ry, burn := p.ps, rfpc := 0, disable := true } ∧
    ∀ o, execWithdraw fee p p.ps = some o →
      (applyWdr p o).rx = 0 ∧ (applyWdr p o).ry = 0 ∧ (applyWdr p o).ps = 0 ∧ (applyWdr p o).disabled = true := by
  obtain ⟨hrx, hry, _⟩ := hp
  obtain ⟨_, hr, _⟩ := isDepleted_false hdep
  have e : execWithdraw fee p p.ps =
      some { status := .succeeded, x := p.rx, y := p.ry, burn := p.ps, rfpc := 0, disable := true } := by
    unfold execWithdraw
    rw [hd, hdep, last_share_gets_all]
    have h1 : ¬ (p.rx = 0 ∧ p.ry = 0) := by omega
    have h2 : ¬ (p.rx < 0 ∨ p.ry < 0) := by omega
    have h3 : ¬ (p.rx < p.rx ∨ p.ry < p.ry) := by omega
    simp [h1, h2]
  refine ⟨e, fun o ho => ?_⟩
  rw [e] at ho
  have := Option.some.inj ho
  subst this
  simp [applyWdr]

/-- all laws of one withdraw execution in terms of the pool before and after -/
theorem keeper_withdraw_per_share {fee : Dec} {p : KPool} {pc : Int} {o : WdrOut} (hp : KInv p)
    (hpc : 0 ≤ pc) (hle : pc ≤ p.ps) (hf0 : 0 ≤ fee) (hf1 : fee ≤ Dec.one) (h : execWithdraw fee p pc = some o) :
    PerShareAfterWithdraw p.rx p.ps o.burn o.x ∧ PerShareAfterWithdraw p.ry p.ps o.burn o.y ∧
    0 ≤ o.x ∧ o.x ≤ p.rx ∧ 0 ≤ o.y ∧ o.y ≤ p.ry ∧ 0 ≤ o.burn ∧ o.burn ≤ p.ps := by
  obtain ⟨hrx, hry, hps⟩ := hp
  rcases execWithdraw_cases h with ⟨dis, e, _⟩ | ⟨hd, hdep, x, y, hw, _, hx0, hy0, _, _, e⟩
  · subst e
    refine ⟨?_, ?_, Int.le_refl 0, hrx, Int.le_refl 0, hry, Int.le_refl 0, hps⟩
    · show p.rx * (p.ps - 0) ≤ (p.rx - 0) * p.ps; simp
    · show p.ry * (p.ps - 0) ≤ (p.ry - 0) * p.ps; simp
  · subst e
    obtain ⟨hps0, _, _⟩ := isDepleted_false hdep
    have hdom : WithdrawDom p.rx p.ry p.ps pc fee := ⟨hrx, hry, by omega, hpc, hle, hf0, hf1⟩
    obtain ⟨a, b, c, d⟩ := reserves_per_share_nondecreasing_withdraw hdom hw
    exact ⟨a, b, hx0, c, hy0, d, hpc, hle⟩

/-- **No execution gets stuck on a basic pool**: with non-negative balances, a non-negative offer / a request of at
most the supply and a fee rate in [0,1], `ExecuteDepositRequest` and `ExecuteWithdrawRequest` return normally whenever
the pool object can be built (always for a basic pool; for a ranged pool unless `DeriveTranslation` panics). -/
theorem keeper_exec_total {fee : Dec} {p : KPool} {x y pc : Int} (hp : KInv p) (hx : 0 ≤ x) (hy : 0 ≤ y)
    (hpc : 0 ≤ pc) (hle : pc ≤ p.ps) (hf0 : 0 ≤ fee) (hf1 : fee ≤ Dec.one) (hb : isDepleted p ≠ none) :
    (∃ o, execDeposit p x y = some o) ∧ (∃ o, execWithdraw fee p pc = some o) := by
  obtain ⟨hrx, hry, hps⟩ := hp
  constructor
  · unfold execDeposit
    split
    · exact ⟨_, rfl⟩
    · split
      · rename_i hn; exact absurd hn hb
      · exact ⟨_, rfl⟩
      · rename_i hdep
        obtain ⟨hps0, hr, _⟩ := isDepleted_false hdep
        have hdom : DepositDom p.rx p.ry p.ps x y := ⟨hrx, hry, by omega, by omega, hx, hy⟩
        obtain ⟨⟨ax, ay, m⟩, hd⟩ := deposit_total hdom
        obtain ⟨⟨a1, a2⟩, ⟨b1, b2⟩, c⟩ := deposit_takes_at_most_offered hdom hd
        rw [hd]
        simp only
        split
        · exact ⟨_, rfl⟩
        · split
          · rename_i hneg; omega
          · split
            · rename_i hgt; omega
            · exact ⟨_, rfl⟩
  · unfold execWithdraw
    split
    · exact ⟨_, rfl⟩
    · split
      · rename_i hn; exact absurd hn hb
      · exact ⟨_, rfl⟩
      · rename_i hdep
        obtain ⟨hps0, _, _⟩ := isDepleted_false hdep
        have hdom : WithdrawDom p.rx p.ry p.ps pc fee := ⟨hrx, hry, by omega, hpc, hle, hf0, hf1⟩
        obtain ⟨⟨wx, wy⟩, hw⟩ := withdraw_total (rx := p.rx) (ry := p.ry) (pc := pc) (fee := fee) hps0
        obtain ⟨_, _, c, d⟩ := reserves_per_share_nondecreasing_withdraw hdom hw
        have nn : 0 ≤ wx ∧ 0 ≤ wy := by
          by_cases hne : pc = p.ps
          · rw [hne, last_share_gets_all] at hw
            have := Option.some.inj hw
            have e1 : p.rx = wx := congrArg (·.1) this
            have e2 : p.ry = wy := congrArg (·.2) this
            omega
          · obtain ⟨⟨a, _⟩, ⟨b, _⟩⟩ := withdraw_at_most_prorata hdom hne hw
            exact ⟨a, b⟩
        rw [hw]
        simp only
        split
        · exact ⟨_, rfl⟩
        · split
          · rename_i hneg; omega
          · split
            · rename_i hgt; omega
            · exact ⟨_, rfl⟩

/-- … in particular on every BASIC pool (its `AMMPool` constructor cannot fail). -/
theorem keeper_exec_total_basic {fee : Dec} {p : KPool} {x y pc : Int} (hb : p.ranged = false) (hp : KInv p)
    (hx : 0 ≤ x) (hy : 0 ≤ y) (hpc : 0 ≤ pc) (hle : pc ≤ p.ps) (hf0 : 0 ≤ fee) (hf1 : fee ≤ Dec.one) :
    (∃ o, execDeposit p x y = some o) ∧ (∃ o, execWithdraw fee p pc = some o) := by
  obtain ⟨b, e⟩ := isDepleted_basic_some hb
  exact keeper_exec_total hp hx hy hpc hle hf0 hf1 (by rw [e]; simp)

/-! ### Any sequence of executed requests on one pool -/

/-- the side conditions of one operation on the pool as it is then: offers / donations are non-negative, the pool
coin of a withdraw request (held in escrow) is part of the supply -/
def opOk (p : KPool) : Op → Prop
  | .dep x y => 0 ≤ x ∧ 0 ≤ y
  | .wdr pc => 0 ≤ pc ∧ pc ≤ p.ps
  | .donate dx dy => 0 ≤ dx ∧ 0 ≤ dy

instance (p : KPool) (o : Op) : Decidable (opOk p o) := by
  cases o <;> unfold opOk <;> infer_instance

def opsOk (fee : Dec) (p : KPool) : List Op → Prop
  | [] => True
  | o :: os => opOk p o ∧ opsOk fee (stepOrStay fee p o) os

/-- one step: balances and supply stay non-negative, a zero supply stays zero, and reserves per share do not
decrease (a deposit may cost the factor `1 - 10^-17`). -/
theorem keeper_step {fee : Dec} {p : KPool} {op : Op} (hp : KInv p) (hf0 : 0 ≤ fee) (hf1 : fee ≤ Dec.one)
    (hok : opOk p op) :
    KInv (stepOrStay fee p op) ∧ (p.ps = 0 → (stepOrStay fee p op).ps = 0) ∧
    PerShareGe (depOps [op]) p (stepOrStay fee p op) := by
  obtain ⟨hrx, hry, hps⟩ := hp
  cases op with
  | dep x y =>
    obtain ⟨hx, hy⟩ := hok
    cases hd : execDeposit p x y with
    | none =>
      have e : stepOrStay fee p (.dep x y) = p := by simp [stepOrStay, stepOp, hd]
      rw [e]
      exact ⟨⟨hrx, hry, hps⟩, fun h => h, perShareGe_refl _ ⟨hrx, hry, hps⟩⟩
    | some o =>
      have e : stepOrStay fee p (.dep x y) = applyDep p o := by simp [stepOrStay, stepOp, hd]
      rw [e]
      obtain ⟨⟨_, _, ⟨a0, _⟩, ⟨b0, _⟩, m0⟩, fc, _, _, s1, s2⟩ := keeper_deposit_laws ⟨hrx, hry, hps⟩ hx hy hd
      refine ⟨⟨by show 0 ≤ p.rx + o.ax; omega, by show 0 ≤ p.ry + o.ay; omega, by show 0 ≤ p.ps + o.mint; omega⟩, ?_, ?_⟩
      · intro hz
        show p.ps + o.mint = 0
        rcases execDeposit_cases hd with ⟨dis, e, _⟩ | ⟨_, hdep, _⟩
        · subst e; simp [depFail, hz]
        · exact absurd hz (isDepleted_false hdep).1
      · show PerShareGe 1 p (applyDep p o)
        unfold PerShareGe
        simp only [pow_one]
        exact ⟨s1, s2⟩
  | wdr pc =>
    obtain ⟨hpc, hle⟩ := hok
    cases hd : execWithdraw fee p pc with
    | none =>
      have e : stepOrStay fee p (.wdr pc) = p := by simp [stepOrStay, stepOp, hd]
      rw [e]
      exact ⟨⟨hrx, hry, hps⟩, fun h => h, perShareGe_refl _ ⟨hrx, hry, hps⟩⟩
    | some o =>
      have e : stepOrStay fee p (.wdr pc) = applyWdr p o := by simp [stepOrStay, stepOp, hd]
      rw [e]
      obtain ⟨s1, s2, x0, x1, y0, y1, b0, b1⟩ := keeper_withdraw_per_share ⟨hrx, hry, hps⟩ hpc hle hf0 hf1 hd
      refine ⟨⟨by show 0 ≤ p.rx - o.x; omega, by show 0 ≤ p.ry - o.y; omega, by show 0 ≤ p.ps - o.burn; omega⟩, ?_, ?_⟩
      · intro hz; show p.ps - o.burn = 0; omega
      · show PerShareGe 0 p (applyWdr p o)
        unfold PerShareGe
        simp only [pow_zero, Int.one_mul]
        exact ⟨s1, s2⟩
  | donate dx dy =>
    obtain ⟨hx, hy⟩ := hok
    have e : stepOrStay fee p (.donate dx dy) = { p with rx := p.rx + dx, ry := p.ry + dy } := by
      simp [stepOrStay, stepOp]
    rw [e]
    refine ⟨⟨by show 0 ≤ p.rx + dx; omega, by show 0 ≤ p.ry + dy; omega, hps⟩, fun h => h, ?_⟩
    show PerShareGe 0 p { p with rx := p.rx + dx, ry := p.ry + dy }
    unfold PerShareGe
    simp only [pow_zero, Int.one_mul]
    exact ⟨Int.mul_le_mul_of_nonneg_right (by omega) hps, Int.mul_le_mul_of_nonneg_right (by omega) hps⟩

/-- **Keeper level: reserves per outstanding share never decrease over ANY sequence of executed deposit and
withdraw requests (and donations to the reserve address)** on a pool — basic or ranged, from the batch or inside a
transaction, including failed and aborted executions: after a history with `k` deposit requests
`(1 − 10^-17)^k · r₀/ps₀ ≤ rₙ/psₙ` for both coins (cross-multiplied), balances and supply stay non-negative. -/
theorem keeper_reserves_per_share_nondecreasing {fee : Dec} (hf0 : 0 ≤ fee) (hf1 : fee ≤ Dec.one) :
    ∀ (ops : List Op) (p : KPool), KInv p → opsOk fee p ops →
      KInv (runOps fee p ops) ∧ (p.ps = 0 → (runOps fee p ops).ps = 0) ∧
      PerShareGe (depOps ops) p (runOps fee p ops) := by
  intro ops
  induction ops with
  | nil => intro p hp _; exact ⟨hp, fun h => h, perShareGe_refl _ hp⟩
  | cons op os ih =>
    intro p hp hok
    obtain ⟨h1, h2⟩ := hok
    obtain ⟨kq, zq, sq⟩ := keeper_step hp hf0 hf1 h1
    obtain ⟨kr, zr, sr⟩ := ih _ kq h2
    refine ⟨kr, fun h => zr (zq h), ?_⟩
    have e : depOps (op :: os) = depOps [op] + depOps os := by
      cases op <;> simp [depOps]
      omega
    rw [e]
    exact perShareGe_trans hp kq kr sq sr zr

/-! ### The end-block batch: each pool sees exactly its own requests, in order -/

theorem runOps_append (fee : Dec) (p : KPool) (a b : List Op) :
    runOps fee p (a ++ b) = runOps fee (runOps fee p a) b := by
  induction a generalizing p with
  | nil => rfl
  | cons o os ih => exact ih _

/-- the deposit loop, seen from pool `id`: the pool ends in the state reached by executing exactly the requests
addressed to it, in store order; requests of other pools do not touch it -/
theorem batch_deposits_project {fee : Dec} :
    ∀ (reqs : List DepReq) (pools pools' : List KPool) (outs : List DepOut) (id : Nat) (p : KPool),
      runDeposits pools reqs = some (pools', outs) → findPool pools id = some p →
      findPool pools' id =
        some (runOps fee p (((reqs.filter (fun r => r.pool = id)).map (fun r => Op.dep r.x r.y)))) := by
  intro reqs
  induction reqs with
  | nil =>
    intro pools pools' outs id p h hf
    have := Option.some.inj h
    have e : pools = pools' := congrArg (·.1) this
    subst e; simpa [runOps] using hf
  | cons r rs ih =>
    intro pools pools' outs id p h hf
    unfold runDeposits at h
    split at h
    · cases h
    · rename_i q hq
      split at h
      · cases h
      · rename_i o ho
        split at h
        · cases h
        · rename_i ps2 os hrest
          have e1 : ps2 = pools' := congrArg (·.1) (Option.some.inj h)
          subst e1
          have hqid := findPool_id hq
          by_cases hid : r.pool = id
          · have hqp : q = p := by rw [hid, hf] at hq; exact (Option.some.inj hq).symm
            subst hqp
            have hf2 : findPool (setPool pools (applyDep q o)) id = some (applyDep q o) := by
              have : (applyDep q o).id = id := by show q.id = id; omega
              rw [← this]
              exact findPool_setPool_eq (p := q) (by rw [this]; exact hf)
            have := ih _ _ _ id _ hrest hf2
            rw [this]
            simp [hid, runOps, stepOrStay, stepOp, ho]
          · have hf2 : findPool (setPool pools (applyDep q o)) id = some p := by
              rw [findPool_setPool_ne (by show id ≠ q.id; omega)]; exact hf
            have := ih _ _ _ id _ hrest hf2
            rw [this]
            simp [hid]

theorem batch_withdraws_project {fee : Dec} :
    ∀ (reqs : List WdrReq) (pools pools' : List KPool) (outs : List WdrOut) (id : Nat) (p : KPool),
      runWithdraws fee pools reqs = some (pools', outs) → findPool pools id = some p →
      findPool pools' id =
        some (runOps fee p (((reqs.filter (fun r => r.pool = id)).map (fun r => Op.wdr r.pc)))) := by
  intro reqs
  induction reqs with
  | nil =>
    intro pools pools' outs id p h hf
    have := Option.some.inj h
    have e : pools = pools' := congrArg (·.1) this
    subst e; simpa [runOps] using hf
  | cons r rs ih =>
    intro pools pools' outs id p h hf
    unfold runWithdraws at h
    split at h
    · cases h
    · rename_i q hq
      split at h
      · cases h
      · rename_i o ho
        split at h
        · cases h
        · rename_i ps2 os hrest
          have e1 : ps2 = pools' := congrArg (·.1) (Option.some.inj h)
          subst e1
          have hqid := findPool_id hq
          by_cases hid : r.pool = id
          · have hqp : q = p := by rw [hid, hf] at hq; exact (Option.some.inj hq).symm
            subst hqp
            have hf2 : findPool (setPool pools (applyWdr q o)) id = some (applyWdr q o) := by
              have : (applyWdr q o).id = id := by show q.id = id; omega
              rw [← this]
              exact findPool_setPool_eq (p := q) (by rw [this]; exact hf)
            have := ih _ _ _ id _ hrest hf2
            rw [this]
            simp [hid, runOps, stepOrStay, stepOp, ho]
          · have hf2 : findPool (setPool pools (applyWdr q o)) id = some p := by
              rw [findPool_setPool_ne (by show id ≠ q.id; omega)]; exact hf
            have := ih _ _ _ id _ hrest hf2
            rw [this]
            simp [hid]

/-- the operations pool `id` undergoes in one batch: its deposit requests, then its withdraw requests -/
def batchOps (id : Nat) (deps : List DepReq) (wdrs : List WdrReq) : List Op :=
  ((deps.filter (fun r => r.pool = id)).map (fun r => Op.dep r.x r.y)) ++
  ((wdrs.filter (fun r => r.pool = id)).map (fun r => Op.wdr r.pc))

/-- **The end-block batch, pool by pool**: after `ExecuteRequests` every pool of the app is in the state reached by
executing exactly its own pending deposit requests and then its own pending withdraw requests, in store order, each
on the balances left by the previous one — hence (by `keeper_reserves_per_share_nondecreasing`) its reserves per
share did not decrease, whatever the other pools' requests were. -/
theorem keeper_batch_reserves_per_share {fee : Dec} (hf0 : 0 ≤ fee) (hf1 : fee ≤ Dec.one)
    {pools pools' : List KPool} {deps : List DepReq} {wdrs : List WdrReq} {dos : List DepOut} {wos : List WdrOut}
    {id : Nat} {p : KPool}
    (h : execRequests fee pools deps wdrs = some (pools', dos, wos)) (hf : findPool pools id = some p)
    (hp : KInv p) (hok : opsOk fee p (batchOps id deps wdrs)) :
    ∃ q, findPool pools' id = some q ∧ q = runOps fee p (batchOps id deps wdrs) ∧ KInv q ∧
      PerShareGe (depOps (batchOps id deps wdrs)) p q := by
  unfold execRequests at h
  split at h
  · cases h
  · rename_i p1 dos' hd
    split at h
    · cases h
    · rename_i p2 wos' hw
      have e : p2 = pools' := congrArg (·.1) (Option.some.inj h)
      subst e
      have f1 := batch_deposits_project (fee := fee) deps pools p1 dos' id p hd hf
      have f2 := batch_withdraws_project (fee := fee) wdrs p1 p2 wos' id _ hw f1
      obtain ⟨k, _, s⟩ := keeper_reserves_per_share_nondecreasing hf0 hf1 (batchOps id deps wdrs) p hp hok
      refine ⟨_, f2, ?_, ?_, ?_⟩
      · unfold batchOps; rw [runOps_append]
      · unfold batchOps at k; rw [runOps_append] at k; exact k
      · unfold batchOps at s ⊢; rw [runOps_append] at s; exact s

/-! ### The in-transaction paths -/

/-- `MsgDepositAndFarm`: the message succeeds only with a SUCCEEDED execution of its own deposit request on the
pool's current balances; the pool moves by exactly that execution (so every deposit law above applies), all other
pools are untouched; otherwise nothing changes at all. -/
theorem keeper_deposit_and_farm {pools pools' : List KPool} {pool : Nat} {bx bY x y : Int} {o : DepOut}
    (h : depositAndFarm pools pool bx bY x y = some (pools', o)) :
    ∃ p, findPool pools pool = some p ∧ p.disabled = false ∧ execDeposit p x y = some o ∧ o.status = .succeeded ∧
      0 < o.mint ∧ x ≤ bx ∧ y ≤ bY ∧ pools' = setPool pools (applyDep p o) := by
  unfold depositAndFarm at h
  split at h
  · rename_i hok
    split at h
    · cases h
    · rename_i p hp
      split at h
      · cases h
      · rename_i o' ho
        split at h
        · rename_i hs
          have e := Option.some.inj h
          have e1 : setPool pools (applyDep p o') = pools' := congrArg (·.1) e
          have e2 : o' = o := congrArg (·.2) e
          subst e2
          unfold msgDepositOk at hok
          rw [hp] at hok
          simp only [Bool.and_eq_true, Bool.not_eq_true', decide_eq_true_eq] at hok
          exact ⟨p, hp, hok.1.1.1.1, ho, hs.1, hs.2, hok.1.2, hok.2, e1.symm⟩
        · cases h
  · cases h

/-- `MsgUnfarmAndWithdraw`: a message that goes through executed its own withdraw request of exactly the unfarmed
amount (`0 < pc ≤ farmed`) on the pool's current balances with the app's fee rate (so every withdraw law above
applies); a failed execution leaves pool and supply unchanged. -/
theorem keeper_unfarm_and_withdraw {fee : Dec} {pools pools' : List KPool} {pool : Nat} {farmed pc : Int} {o : WdrOut}
    (h : unfarmAndWithdraw fee pools pool farmed pc = some (pools', o)) :
    ∃ p, findPool pools pool = some p ∧ p.disabled = false ∧ 0 < pc ∧ pc ≤ farmed ∧ execWithdraw fee p pc = some o ∧
      pools' = setPool pools (applyWdr p o) := by
  unfold unfarmAndWithdraw at h
  split at h
  · cases h
  · rename_i p hp
    split at h
    · cases h
    · rename_i hg
      split at h
      · cases h
      · rename_i o' ho
        have e := Option.some.inj h
        have e1 : setPool pools (applyWdr p o') = pools' := congrArg (·.1) e
        have e2 : o' = o := congrArg (·.2) e
        subst e2
        have hd : p.disabled = false := by
          cases hpd : p.disabled with
          | false => rfl
          | true => exact absurd (Or.inr (Or.inr hpd)) hg
        exact ⟨p, hp, hd, by omega, by omega, ho, e1.symm⟩

/-! ### Non-vacuity of the keeper theorems: concrete executions inside the domains -/

/-- a basic pool with reserves (1000000, 3000000), supply 2000 -/
def exPool : KPool := { id := 1, ranged := false, minP := 0, maxP := 0, disabled := false, rx := 1000000, ry := 3000000, ps := 2000 }

example : KInv exPool ∧ execDeposit exPool 500 1600 =
    some { status := .succeeded, ax := 500, ay := 1500, mint := 1, rfx := 0, rfy := 100, disable := false } := by
  set_option exponentiation.threshold 512 in decide
example : execDeposit exPool 0 1600 = some (depFail 0 1600 false) := by
  set_option exponentiation.threshold 512 in decide
/-- fee 10 %: 300 of 2000 pool coins pay 135000 / 405000 (pro rata 150000 / 450000) -/
example : execWithdraw 100000000000000000 exPool 300 =
    some { status := .succeeded, x := 135000, y := 405000, burn := 300, rfpc := 0, disable := false } := by
  set_option exponentiation.threshold 512 in decide
example : isDepleted exPool = some false ∧ execWithdraw 100000000000000000 exPool 2000 =
    some { status := .succeeded, x := 1000000, y := 3000000, burn := 2000, rfpc := 0, disable := true } := by
  set_option exponentiation.threshold 512 in decide
/-- a history: deposit, withdraw with fee, donation, last share; its side conditions hold -/
example : opsOk 100000000000000000 exPool [.dep 500 1600, .wdr 300, .donate 7 0, .wdr 1701] ∧
    runOps 100000000000000000 exPool [.dep 500 1600, .wdr 300, .donate 7 0, .wdr 1701] =
      { exPool with rx := 0, ry := 0, ps := 0, disabled := true } := by
  set_option exponentiation.threshold 512 in
  refine ⟨⟨by decide, by decide, by decide, by decide, trivial⟩, by decide⟩
/-- a batch over two pools: pool 2's request does not touch pool 1 -/
example : (execRequests 100000000000000000 [exPool, { exPool with id := 2 }]
      [⟨1, 1, 0, 500, 1600⟩, ⟨2, 1, 1, 1000, 3000⟩] [⟨1, 1, 0, 300⟩]).map (fun r => r.1.map (fun p => (p.id, p.rx, p.ry, p.ps)))
    = some [(1, 865501, 2596501, 1701), (2, 1001000, 3003000, 2002)] := by
  set_option exponentiation.threshold 512 in decide
/-- in-transaction paths -/
example : (depositAndFarm [exPool] 1 1000 2000 500 1600).map (fun r => r.2.mint) = some 1 := by
  set_option exponentiation.threshold 512 in decide
example : depositAndFarm [exPool] 1 1000 2000 0 1600 = none := by
  set_option exponentiation.threshold 512 in decide
example : (unfarmAndWithdraw 100000000000000000 [exPool] 1 400 300).map (fun r => (r.2.x, r.2.y)) = some (135000, 405000) := by
  set_option exponentiation.threshold 512 in decide
/-- a ranged pool at the lower edge of its range (only base coin): a deposit takes only the base coin -/
def exRanged : KPool :=
  { id := 3, ranged := true, minP := 1000000000000000000, maxP := 4000000000000000000, disabled := false,
    rx := 0, ry := 1000000, ps := 1000 }
example : execDeposit exRanged 777 5000 =
    some { status := .succeeded, ax := 0, ay := 5000, mint := 5, rfx := 777, rfy := 0, disable := false } := by
  set_option exponentiation.threshold 512 in decide

end Keeper

/-! ## Ranged pools -/

/-- An accepted `CreateRangedPool` had an admissible price triple (what "admissible" means in the property),
and the pool remembers exactly that range. -/
theorem create_ok_implies_admissible {x y : Int} {minP maxP initP : Dec} {p : RPool}
    (h : createRangedPool x y minP maxP initP = .ok (some p)) :
    (0 < x ∨ 0 < y) ∧ minPoolPrice ≤ minP ∧ minP < maxP ∧ maxP ≤ maxPoolPrice ∧ minP ≤ initP ∧ initP ≤ maxP ∧
    minGapRatio ≤ Dec.quo (Dec.sub maxP minP) minP ∧ p.minP = minP ∧ p.maxP = maxP := by
  obtain ⟨a, v, m1, m2⟩ := createRangedPool_ok h
  obtain ⟨_, b1, b2, b3, b4, b5, b6⟩ := validate_ok_true v
  exact ⟨a, b1, b3, b2, b4, b5, b6, m1, m2⟩

/-- **The price-range clause is FALSE of the code** — everyday prices, an on-tick admissible triple
(min 3.2, max 3.2032, initial 3.2), a y-only deposit of 65 721 122: the created pool's price is
3.199999999999999999 < 3.2 = minPrice. -/
theorem ranged_price_in_range_counterexample :
    createdReserves 0 65721122 3200000000000000000 3203200000000000000 3200000000000000000 = some (0, 65721122) ∧
    createdPrice 0 65721122 3200000000000000000 3203200000000000000 3200000000000000000 = some 3199999999999999999 ∧
    ¬ PriceInRange 3200000000000000000 3203200000000000000 3199999999999999999 := by
  set_option exponentiation.threshold 512 in decide

/-- … and above the maximum: min 0.000089, max 8.9, initial 8.9, x-only pool: price 8.900000000000000001. -/
theorem ranged_price_above_max_counterexample :
    createdReserves 25435609390 11 89000000000000 8900000000000000000 8900000000000000000 = some (25435609390, 0) ∧
    createdPrice 25435609390 11 89000000000000 8900000000000000000 8900000000000000000 = some 8900000000000000001 ∧
    ¬ PriceInRange 89000000000000 8900000000000000000 8900000000000000001 := by
  set_option exponentiation.threshold 512 in decide

/-- … and not only by one ulp: at prices near the upper module bound (min 4.603·10^19, max 10^20, initial
4.7485·10^19, all on ticks; offer 6.6·10^19 / 8.9·10^31) the pool is created with reserves (6.6·10^19, 28) and its
price is 6.83·10^18 — 85 % below minPrice (`1/sqrt(P)` has only 8 significant digits there). -/
theorem ranged_price_far_below_min_counterexample :
    createdReserves 66000000000000000000 89000000000000000000000000000000
        46030000000000000000000000000000000000 100000000000000000000000000000000000000
        47485000000000000000000000000000000000 = some (66000000000000000000, 28) ∧
    createdPrice 66000000000000000000 89000000000000000000000000000000
        46030000000000000000000000000000000000 100000000000000000000000000000000000000
        47485000000000000000000000000000000000 = some 6829975878090043315189425532011435350 ∧
    (6829975878090043315189425532011435350 : Int) * 100 < 15 * 46030000000000000000000000000000000000 := by
  set_option exponentiation.threshold 512 in decide

/-- **What does hold (partial).** For every ranged pool record built by `NewRangedPool` (any reserves, any
range) whose translation is non-negative with `transY > 0`, the price lies between the prices of the two
single-asset end points of the pool's OWN translated curve:
`transX/(ry+transY) ≤ price ≤ (rx+transX)/transY` (in `Dec` arithmetic, with `Quo`'s rounding).
MISSING for the full clause: `transX/(ry_max+transY) = minPrice` and `(rx_max+transX)/transY = maxPrice`; these
hold only approximately (`approxSqrt`, `Quo`, `Mul` roundings), see the counterexamples above. -/
theorem ranged_price_between_curve_endpoints_partial {rx ry ps : Int} {minP maxP : Dec} {p : RPool} {v : Dec}
    (hp : newRangedPool rx ry ps minP maxP = .ok p) (hrx : 0 ≤ rx) (hry : 0 ≤ ry)
    (htx : 0 ≤ p.transX) (hty : 0 < p.transY) (hv : rangedPrice p = .ok v) :
    Dec.quo p.transX p.yComp ≤ v ∧ v ≤ Dec.quo p.xComp p.transY := by
  obtain ⟨_, _, _, _, ex, ey⟩ := newRangedPool_ok hp
  have hP := P_pos
  have hx : p.transX ≤ p.xComp := by
    rw [ex]; show p.transX ≤ rx * Dec.P + p.transX
    exact Int.le_add_of_nonneg_left (Int.mul_nonneg hrx (Int.le_of_lt hP))
  have hy : p.transY ≤ p.yComp := by
    rw [ey]; show p.transY ≤ ry * Dec.P + p.transY
    exact Int.le_add_of_nonneg_left (Int.mul_nonneg hry (Int.le_of_lt hP))
  have hv' : v = Dec.quo p.xComp p.yComp := by
    unfold rangedPrice at hv
    split at hv
    · exact absurd hv (by simp)
    · exact (quo_ok hv).2
  rw [hv']
  exact ⟨quo_mono_num htx hx (Int.lt_of_lt_of_le hty hy), quo_anti_den (Int.le_trans htx hx) hty hy⟩

/-- non-vacuity of the partial theorem: a real two-sided pool (reserves 10^12 / 10^12, range [1, 4]) -/
example : (match newRangedPool 1000000000000 1000000000000 1000000000000 1000000000000000000 4000000000000000000 with
    | .ok p => decide (0 ≤ p.transX ∧ 0 < p.transY) && (match rangedPrice p with | .ok v => decide (PriceInRange p.minP p.maxP v) | _ => false)
    | _ => false) = true := by
  set_option exponentiation.threshold 512 in decide

/-! ### Ranged pools under swaps: `SetBalances(rx, ry, derive)`

Within one batch `PoolBuyOrders` / `PoolSellOrders` walk a clone of the pool through the ticks with
`SetBalances(rx, ry, derive = false)`: the translation `(transX, transY)` is KEPT, only the reserves move.  With
`derive = true` (the first catch-up order of a batch; and, through `NewRangedPool`, every construction of the pool
object from the bank balances — i.e. every later block) the translation is recomputed from the new reserves. -/

theorem setBalances_fixed_ok {p q : RPool} {rx ry : Int} (h : setBalances p rx ry false = .ok q) :
    q.rx = rx ∧ q.ry = ry ∧ q.ps = p.ps ∧ q.minP = p.minP ∧ q.maxP = p.maxP ∧ q.transX = p.transX ∧ q.transY = p.transY ∧
    q.xComp = Dec.add (toDec rx) p.transX ∧ q.yComp = Dec.add (toDec ry) p.transY := by
  unfold setBalances at h
  simp only [Bool.false_eq_true, if_false] at h
  obtain ⟨⟨tx, ty⟩, h0, h⟩ := bind_ok h
  have e0 := pure_ok h0
  have e1 : p.transX = tx := congrArg (·.1) e0
  have e2 : p.transY = ty := congrArg (·.2) e0
  subst e1 e2
  obtain ⟨xc, hx, h⟩ := bind_ok h
  obtain ⟨yc, hy, h⟩ := bind_ok h
  have e := pure_ok h
  rw [← e]
  exact ⟨rfl, rfl, rfl, rfl, rfl, rfl, rfl, chk_ok hx, chk_ok hy⟩

/-- **With the translation kept, a ranged pool's price stays between the prices of the two ends of its own curve
for EVERY reserve pair in the box the swaps can reach**: if the reserves stay within `0 ≤ rx ≤ X`, `0 ≤ ry ≤ Y`
(`X`, `Y` the reserves of the all-quote / all-base end), then
`transX/(Y + transY) ≤ price(rx, ry) ≤ (X + transX)/transY` (in `Dec` arithmetic, `Quo`'s roundings included).
The two bounds are constants of the pool as long as `derive = false`. -/
theorem ranged_price_within_endpoints_fixed_translation {p q : RPool} {rx ry X Y : Int} {v : Dec}
    (htx : 0 ≤ p.transX) (hty : 0 < p.transY) (hrx : 0 ≤ rx) (hX : rx ≤ X) (hry : 0 ≤ ry) (hY : ry ≤ Y)
    (hs : setBalances p rx ry false = .ok q) (hv : rangedPrice q = .ok v) :
    Dec.quo p.transX (Dec.add (toDec Y) p.transY) ≤ v ∧ v ≤ Dec.quo (Dec.add (toDec X) p.transX) p.transY := by
  obtain ⟨_, _, _, _, _, _, _, ex, ey⟩ := setBalances_fixed_ok hs
  have hP := P_pos
  have hv' : v = Dec.quo q.xComp q.yComp := by
    unfold rangedPrice at hv
    split at hv
    · exact absurd hv (by simp)
    · exact (quo_ok hv).2
  rw [hv', ex, ey]
  exact quo_box htx hty (Int.mul_nonneg hrx (Int.le_of_lt hP)) (Int.mul_le_mul_of_nonneg_right hX (Int.le_of_lt hP))
    (Int.mul_nonneg hry (Int.le_of_lt hP)) (Int.mul_le_mul_of_nonneg_right hY (Int.le_of_lt hP))

/-- with the translation kept the price moves WITH the swap: when the pool buys base coin (quote reserve down, base
reserve up) its price does not rise, when it sells it does not fall -/
theorem ranged_price_monotone_fixed_translation {p q q' : RPool} {rx ry rx' ry' : Int} {v v' : Dec}
    (htx : 0 ≤ p.transX) (hty : 0 < p.transY) (hrx' : 0 ≤ rx') (hle : rx' ≤ rx) (hry : 0 ≤ ry) (hge : ry ≤ ry')
    (hs : setBalances p rx ry false = .ok q) (hv : rangedPrice q = .ok v)
    (hs' : setBalances p rx' ry' false = .ok q') (hv' : rangedPrice q' = .ok v') : v' ≤ v := by
  obtain ⟨_, _, _, _, _, _, _, ex, ey⟩ := setBalances_fixed_ok hs
  obtain ⟨_, _, _, _, _, _, _, ex', ey'⟩ := setBalances_fixed_ok hs'
  have hP := P_pos
  have pv : ∀ {r : RPool} {w : Dec}, rangedPrice r = .ok w → w = Dec.quo r.xComp r.yComp := by
    intro r w h
    unfold rangedPrice at h
    split at h
    · exact absurd h (by simp)
    · exact (quo_ok h).2
  rw [pv hv, pv hv', ex, ey, ex', ey']
  exact quo_shift_mono htx hty (Int.mul_nonneg hrx' (Int.le_of_lt hP)) (Int.mul_le_mul_of_nonneg_right hle (Int.le_of_lt hP))
    (Int.mul_nonneg hry (Int.le_of_lt hP)) (Int.mul_le_mul_of_nonneg_right hge (Int.le_of_lt hP))

/-- **Re-derivation forgets the pool's history**: `SetBalances(rx, ry, derive = true)` yields exactly the pool
`NewRangedPool(rx, ry, ps, minPrice, maxPrice)` builds from the reserves alone — whatever translation the pool had. So
the price the chain sees in the next block is a function of `(rx, ry, minPrice, maxPrice)` only, and the price-range
clause for chain states is the clause for `newRangedPool` on the reachable reserves (where D15's witnesses live). -/
theorem rederive_is_fresh_pool (p : RPool) (rx ry : Int) :
    setBalances p rx ry true = newRangedPool rx ry p.ps p.minP p.maxP := by
  unfold setBalances newRangedPool
  simp only [if_true]

/-- **Exactly when re-derivation moves the curve (the D15 mechanism)**: at the same reserves, `derive = true` gives
the same pool as `derive = false` — same translation, hence the same two end points — if and only if the kept
translation is a FIXED POINT of `DeriveTranslation` at those reserves.  (`rederive_moves_endpoint_counterexample`: it
is not, even for reserves on the pool's own curve.) -/
theorem rederive_same_iff_translation_fixpoint {p q q' : RPool} {rx ry : Int}
    (hf : setBalances p rx ry false = .ok q) (hd : setBalances p rx ry true = .ok q') :
    q' = q ↔ deriveTranslation rx ry p.minP p.maxP = .ok (p.transX, p.transY) := by
  obtain ⟨f1, f2, f3, f4, f5, f6, f7, f8, f9⟩ := setBalances_fixed_ok hf
  unfold setBalances at hd
  simp only [if_true] at hd
  obtain ⟨⟨tx, ty⟩, h0, h⟩ := bind_ok hd
  obtain ⟨xc, hx, h⟩ := bind_ok h
  obtain ⟨yc, hy, h⟩ := bind_ok h
  have e := pure_ok h
  constructor
  · intro heq
    have t1 : q'.transX = tx := by rw [← e]
    have t2 : q'.transY = ty := by rw [← e]
    rw [h0]
    rw [heq, f6] at t1
    rw [heq, f7] at t2
    rw [t1, t2]
  · intro hfix
    rw [hfix] at h0
    have e0 := Except.ok.inj h0
    have e1 : p.transX = tx := congrArg (·.1) e0
    have e2 : p.transY = ty := congrArg (·.2) e0
    subst e1 e2
    have hxc := chk_ok hx
    have hyc := chk_ok hy
    rw [← e]
    cases q
    simp only [RPool.mk.injEq] at *
    simp_all

/-- price of a pool record, `none` when a step fails -/
def priceOf (q : M RPool) : Option Dec :=
  match q with
  | .ok r => (match rangedPrice r with | .ok v => some v | .error _ => none)
  | .error _ => none

/-- **Re-derivation moves an end point (D15 mechanism, concrete).**  Range [3.2, 3.2032]; the pool built from reserves
(1 000 000, 300 000) has price 3.2016….  Walk it along its OWN curve to the all-base end (0, 612 420) with the
translation kept: price 3.200000000914… — inside the range.  Re-derive the translation at the very same reserves (what
the next block does): price 3.199999999999999999 — below `minPrice`. -/
theorem rederive_moves_endpoint_counterexample :
    ∃ p0, newRangedPool 1000000 300000 1 3200000000000000000 3203200000000000000 = .ok p0 ∧
      priceOf (setBalances p0 0 612420 false) = some 3200000000914497119 ∧
      PriceInRange 3200000000000000000 3203200000000000000 3200000000914497119 ∧
      priceOf (setBalances p0 0 612420 true) = some 3199999999999999999 ∧
      ¬ PriceInRange 3200000000000000000 3203200000000000000 3199999999999999999 := by
  set_option exponentiation.threshold 512 in
  refine ⟨_, rfl, ?_, ?_, ?_, ?_⟩ <;> decide

/-- non-vacuity of `ranged_price_monotone_fixed_translation`: the pool bought base coin (quote 1 000 000 → 500 000, base
300 000 → 456 000), its price fell from 3.201631… to 3.200816… -/
example : (match newRangedPool 1000000 300000 1 3200000000000000000 3203200000000000000 with
    | .ok p => decide (priceOf (setBalances p 1000000 300000 false) = some 3201631849758840253) &&
        decide (priceOf (setBalances p 500000 456000 false) = some 3200816369783903229)
    | _ => false) = true := by
  set_option exponentiation.threshold 512 in decide

/-- non-vacuity: the fixed-translation theorems apply to that pool (translation positive), and the bounds of
`ranged_price_within_endpoints_fixed_translation` for the box [0, 1960724] × [0, 612420] are its two end-point prices -/
example : (match newRangedPool 1000000 300000 1 3200000000000000000 3203200000000000000 with
    | .ok p => decide (0 ≤ p.transX ∧ 0 < p.transY) &&
        (priceOf (setBalances p 500000 456000 false)).isSome &&
        decide (Dec.quo p.transX (Dec.add (toDec 612420) p.transY) = 3200000000914497119) &&
        decide (Dec.quo (Dec.add (toDec 1960724) p.transX) p.transY = 3203199999388915652)
    | _ => false) = true := by
  set_option exponentiation.threshold 512 in decide

end Comdex.C06
