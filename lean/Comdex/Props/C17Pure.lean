import Comdex.Gen.Pure
import Comdex.Lemmas.PureTwa
/-!
# C17 — the window mean of the model IS the arithmetic of the current Go source

`Gen.Pure.calculateTwa` is regenerated on every run by `extract/pure` from `x/market/keeper/oracle.go: CalculateTwa`
(a 128-bit accumulation of the first `twaBatch` samples with `bits.Add64`, the mean with `bits.Div64`; the
struct parameter `twa` is flattened to the two fields the function uses; the event emission at the end is declared
effect-only and replaced by a comment, see notes/PURE.md).  `Twa.calcTwa` is the hand-written model of the C17 theorems.

Go function → theorem
* `CalculateTwa` → `pure_calculateTwa_eq_model`: for every window of `uint64` samples and every batch size below 2^63
  (the loop bound is `int(twaBatch)`) the translation returns the model's mean `⌊Σ/N⌋` — the 128-bit accumulator never
  loses a carry and `Div64`'s precondition `hi < N` always holds — and it panics exactly where the model does
  (`N = 0`: divide error; fewer than `N` samples: index out of range).

Trusted: the translator's reading of Go and `Base/GoSem.lean`; kernel-checked: the equality with the model.
-/
namespace Comdex.C17
open Comdex Comdex.GoSem Comdex.PureTwa

local notation "W" => (18446744073709551616 : Nat)

theorem pure_calculateTwa_eq_model (old : Nat) (vs : List Nat) (N : Nat)
    (hN : N < 9223372036854775808) (hv : ∀ v ∈ vs, v < W) :
    Gen.Pure.calculateTwa old vs N = twaOutcome (Twa.calcTwa vs N) := by
  unfold Gen.Pure.calculateTwa Twa.calcTwa
  simp only []
  change (forIn (rangeI64 0 (u64ToI64 N)) (0, 0, 0) (twaBody vs) >>= _) = _
  have hr : rangeI64 0 (u64ToI64 N) = (List.range' 0 N).map (fun (k : Nat) => (k : Int)) := by
    unfold rangeI64 u64ToI64
    rw [wrapI64_of_fits (by omega) (by omega), Int.sub_zero, Int.toNat_natCast, List.range_eq_range']
    apply List.map_congr_left
    intro k _
    exact Int.zero_add _
  rw [hr]
  obtain ⟨hS, hF⟩ := twaLoop vs hv N 0 0 0 0 (by decide) (by omega)
  by_cases h0 : N = 0
  · subst h0
    simp only [if_true]
    rfl
  · by_cases hlen : vs.length < N
    · rw [hF (by omega) (by omega)]
      simp only [h0, hlen, if_false, if_true]
      rfl
    · obtain ⟨c', hc'⟩ := hS (by omega)
      rw [hc']
      simp only [h0, hlen, if_false, ok_bind, Nat.zero_mul, Nat.zero_add, List.drop_zero]
      have hsum := sum_le_of_lt_W (vs.take N) (fun v hm => hv v (List.mem_of_mem_take hm))
      rw [List.length_take, Nat.min_eq_left (by omega)] at hsum
      generalize (vs.take N).sum = S at *
      have hhi : ¬ N ≤ S / W := by omega
      unfold bitsDiv64
      have e : S / W * two64 + S % W = S := by
        show S / W * W + S % W = S
        omega
      simp only [h0, hhi, if_false, e, ok_bind]
      split <;> rfl

/-! non-vacuity: a window whose sum needs 65 bits, a short window, batch size 0 -/
example : Gen.Pure.calculateTwa 0 [18446744073709551615, 18446744073709551615, 3] 3 = .ok 12297829382473034411 := by rfl
example : Twa.calcTwa [18446744073709551615, 18446744073709551615, 3] 3 = .ok 12297829382473034411 := by rfl
example : Gen.Pure.calculateTwa 7 [1, 2] 3 = .error .panic := by rfl
example : Gen.Pure.calculateTwa 7 [1, 2] 0 = .error .panic := by rfl

end Comdex.C17
