import Comdex.Model.Guards
import Comdex.Props.C12
/-! # C14 — emergency controls fail closed: breaker and shutdown stop position changes

Clause → theorem

| property clause | theorem |
|---|---|
| breaker on ∧ breaker guard on the way ⇒ error ∧ state unchanged | `breaker_blocks` |
| ESM executed ∧ ESM guard on the way ⇒ error ∧ state unchanged | `esm_blocks` |
| needed price missing/inactive ∧ price lookup on the way ⇒ error ∧ state unchanged | `inactive_price_fails_closed` |
| collateral withdrawal after ESM only until the cool-off ends | `withdraw_only_until_cooloff` (both directions) |
| every handler the text names (open / enlarge / draw of vault, locker, lend, borrow; vault repay/close/withdraw) has the breaker guard on every route, before its first write | `breaker_list_guarded` (+ `breaker_rejected_on_every_route`) |
| every debt-minting handler has the ESM guard on every route, before its first write | `esm_list_guarded` (+ `esm_rejected_on_every_route`) |
| vault withdraw has the cool-off guard before its first write | `cooloff_list_guarded` |
| no price-lookup error is swallowed into a success or overwritten before it is tested; which handlers look prices up | `no_price_error_swallowed`, `price_errors_never_overwritten`, `price_errors_ignored_pinned`, `price_calls_checked_pinned`, `price_guard_pinned`, `price_dominates_pinned` |
| a TWA record read directly is activity-tested on the same variable | `twa_reads_test_own_activity`, `twa_reads_found_checked`, `twa_reads_pinned` |
| sweeps / auction starters skip controlled apps | `sweeps_skip_controlled`, `sweeps_pinned` |
| what the code guards beyond the text | `breaker_guarded_pinned`, `esm_guarded_pinned` |
| the liquidated vault is tied to the app whose breaker / ESM status was checked (gen-1 sweep, MsgLiquidateVault) | `liquidation_vault_tied_to_checked_app`, `app_ties_pinned` |
| SCOPE: every message of ANY module that can write a vault / locker / lend / borrow record (regenerated inventory) is breaker-guarded on every route or reviewed; the text's operations are among the writers; non-message writers pinned | `position_writers_breaker_guarded`, `breaker_unguarded_writers_tight`, `breaker_list_writes_positions`, `nonmsg_position_writers_pinned` |

The expected lists are written out here from the property text (`breakerRefused`, `esmRefused`, `coolOffRefused`) and proved
equal to the `Spec.*` lists the driver's monitors use. -/
namespace Comdex.C14
open Comdex.Guards Comdex.Gen.Guards
set_option maxRecDepth 1000000

/-! ## generic theorems -/

theorem breaker_blocks {σ : Type} (steps : List (Step σ)) (e : Env) (s : σ)
    (hg : stdGuard .breakerEnabled ∈ steps) (hon : e.breakerOn = true) : deliver steps e s = (s, false) :=
  C12.rejecting_guard_blocks steps e _ hg (C12.stdGuard_rejects _ e (by simp [GClass.fails, hon])) s

theorem esm_blocks {σ : Type} (steps : List (Step σ)) (e : Env) (s : σ)
    (hg : stdGuard .esmExecuted ∈ steps) (hon : e.esmExecuted = true) : deliver steps e s = (s, false) :=
  C12.rejecting_guard_blocks steps e _ hg (C12.stdGuard_rejects _ e (by simp [GClass.fails, hon])) s

/-- a price lookup whose error is returned is on the way and the price is missing / inactive ⇒ the operation fails and
changes nothing — even when state writes precede the lookup (message cache) -/
theorem inactive_price_fails_closed {σ : Type} (steps : List (Step σ)) (e : Env) (s : σ)
    (hg : stdGuard .priceLookup ∈ steps) (hoff : e.priceActive = false) : deliver steps e s = (s, false) :=
  C12.rejecting_guard_blocks steps e _ hg (C12.stdGuard_rejects _ e (by simp [GClass.fails, hoff])) s

/-- model of `GetLatestPrice` / `CalcAssetPrice` (x/market/keeper/oracle.go:149-170): a value only when the record exists and
is active, otherwise the error -/
def priceLookup (found active : Bool) (twa : Nat) : Except Unit Nat := if found && active then .ok twa else .error ()

theorem priceLookup_inactive_errors (found : Bool) (twa : Nat) : priceLookup found false twa = .error () := by
  simp [priceLookup]

theorem priceLookup_missing_errors (active : Bool) (twa : Nat) : priceLookup false active twa = .error () := by
  simp [priceLookup]

/-- after ESM: a handler with the cool-off guard is refused once the cool-off period has passed … -/
theorem withdraw_refused_after_cooloff {σ : Type} (steps : List (Step σ)) (e : Env) (s : σ)
    (hg : stdGuard .coolOff ∈ steps) (hesm : e.esmExecuted = true) (hpast : e.coolOffPassed = true) :
    deliver steps e s = (s, false) :=
  C12.rejecting_guard_blocks steps e _ hg (C12.stdGuard_rejects _ e (by simp [GClass.fails, hesm, hpast])) s

/-- … and is possible until then: with the guards of vault.MsgWithdraw (breaker, cool-off, owner) an owner's withdrawal after
ESM and before the end of the cool-off period runs its body; after the end it is refused. -/
theorem withdraw_only_until_cooloff {σ : Type} (body : σ → σ) (s : σ) (e : Env)
    (hown : e.signerIsOwner = true) (hbrk : e.breakerOn = false) (hesm : e.esmExecuted = true) :
    deliver (simple [.breakerEnabled, .coolOff, .ownerEq] body) e s =
      (if e.coolOffPassed then (s, false) else (body s, true)) := by
  simp only [deliver, applyIfNoError, C12.run_simple]
  cases hp : e.coolOffPassed <;> simp [List.find?, GClass.fails, hown, hbrk, hesm, hp]

example : deliver (simple [.breakerEnabled, .coolOff, .ownerEq] (fun (n : Nat) => n - 1))
    { esmExecuted := true, coolOffPassed := false } 5 = (4, true) := rfl
example : deliver (simple [.breakerEnabled, .coolOff, .ownerEq] (fun (n : Nat) => n - 1))
    { esmExecuted := true, coolOffPassed := true } 5 = (5, false) := rfl
example : deliver (simple [.esmExecuted, .breakerEnabled] (fun (n : Nat) => n + 1)) { breakerOn := true } 5 = (5, false) := rfl

/-! ## expected lists, written out from the property text -/

/-- "no message can open, enlarge or draw from a vault, locker or lending/borrowing position of that app, vault
repay/close/withdraw are refused" — open: create vault / stable-mint vault / locker / lend / borrow (both forms); enlarge:
deposit into vault / stable-mint vault / locker / lend / borrow collateral; draw: vault draw (also deposit-and-draw),
borrow draw; vault repay, close, withdraw (both vault kinds). -/
def breakerRefused : List String := [
  "vault.MsgCreate", "vault.MsgDeposit", "vault.MsgWithdraw", "vault.MsgDraw", "vault.MsgRepay", "vault.MsgClose",
  "vault.MsgDepositAndDraw", "vault.MsgCreateStableMint", "vault.MsgDepositStableMint", "vault.MsgWithdrawStableMint",
  "locker.MsgCreateLocker", "locker.MsgDepositAsset",
  "lend.Lend", "lend.Deposit", "lend.Borrow", "lend.DepositBorrow", "lend.Draw", "lend.BorrowAlternate"]

/-- "after emergency shutdown has been executed for an app no message can mint new debt for it" — the handlers that call
`MintCoins` of the debt asset -/
def esmRefused : List String := [
  "vault.MsgCreate", "vault.MsgDraw", "vault.MsgDepositAndDraw", "vault.MsgCreateStableMint", "vault.MsgDepositStableMint"]

/-- "collateral withdrawal is possible only until the cool-off period ends" -/
def coolOffRefused : List String := ["vault.MsgWithdraw"]

/-- "whenever the oracle price needed by an operation is missing or inactive …": the operations that value an amount in
dollars while ESM has not been executed (collateral ratio of vault create / withdraw / draw, supply cap of lend / deposit, LTV of
borrow / draw) -/
def priceNeeded : List String := [
  "vault.MsgCreate", "vault.MsgWithdraw", "vault.MsgDraw", "vault.MsgDepositAndDraw",
  "lend.Lend", "lend.Deposit", "lend.Borrow", "lend.Draw", "lend.BorrowAlternate"]

theorem spec_lists : Spec.breakerRefused = breakerRefused ∧ Spec.esmRefused = esmRefused ∧ Spec.coolOffRefused = coolOffRefused ∧
    Spec.priceNeeded = priceNeeded :=
  ⟨rfl, rfl, rfl, rfl⟩

/-! ## table obligations over the whole regenerated table -/

/-- every handler of the expected list exists in the table and has the breaker guard on EVERY route to a successful return,
with no state write before it -/
theorem breaker_list_guarded : ∀ q ∈ breakerRefused, ∃ h ∈ handlers, qname h = q ∧ guarded 3 true h = true := by decide +kernel

theorem esm_list_guarded : ∀ q ∈ esmRefused, ∃ h ∈ handlers, qname h = q ∧ guarded 2 true h = true := by decide +kernel

theorem cooloff_list_guarded : ∀ q ∈ coolOffRefused, ∃ h ∈ handlers, qname h = q ∧ guarded 4 true h = true := by decide +kernel

/-- what the code guards with the breaker (superset of the expected list: also lend withdraw / close / repay, liquidation) -/
theorem breaker_guarded_pinned :
    (handlers.filter (guarded 3 true)).map qname =
      ["vault.MsgCreate", "vault.MsgDeposit", "vault.MsgWithdraw", "vault.MsgDraw", "vault.MsgRepay", "vault.MsgClose",
       "vault.MsgDepositAndDraw", "vault.MsgCreateStableMint", "vault.MsgDepositStableMint", "vault.MsgWithdrawStableMint",
       "locker.MsgCreateLocker", "locker.MsgDepositAsset", "lend.Lend", "lend.Withdraw", "lend.Deposit", "lend.CloseLend",
       "lend.Borrow", "lend.Repay", "lend.DepositBorrow", "lend.Draw", "lend.CloseBorrow", "lend.BorrowAlternate",
       "lend.RepayWithdraw", "liquidation.MsgLiquidateVault",
       "rewards.ExternalRewardsLockers", "rewards.ExternalRewardsVault", "rewards.ExternalRewardsLend",
       "rewards.ExternalRewardsStableMint"] := by decide +kernel

theorem esm_guarded_pinned :
    (handlers.filter (guarded 2 true)).map qname =
      ["vault.MsgCreate", "vault.MsgDeposit", "vault.MsgDraw", "vault.MsgRepay", "vault.MsgClose", "vault.MsgDepositAndDraw",
       "vault.MsgCreateStableMint", "vault.MsgDepositStableMint", "vault.MsgWithdrawStableMint", "locker.MsgCreateLocker",
       "locker.MsgDepositAsset", "esm.ExecuteESM", "liquidation.MsgLiquidateVault",
       "rewards.ExternalRewardsLockers", "rewards.ExternalRewardsVault", "rewards.ExternalRewardsLend",
       "rewards.ExternalRewardsStableMint"] := by decide +kernel

theorem cooloff_guarded_pinned : (handlers.filter (guarded 4 false)).map qname = ["vault.MsgWithdraw"] := by decide +kernel

/-- vault.MsgWithdraw tests `BlockTime().After(EndTime) && status` (refused AFTER the cool-off), breaker first -/
theorem spot_vault_withdraw :
    ((find? "vault.MsgWithdraw").map fun h =>
      (h.items.filter fun it => it.kind == 0 && it.cls != 0 && it.cls < 7 && !it.cond && it.path == []).map fun it => (it.cls, it.wb, it.detail)) =
    some [(3, false, "breakerEnabled: killSwitchParams.BreakerEnable"),
          (4, false, "coolOff: after: ctx.BlockTime().After(esmStatus.EndTime) && status"),
          (1, false, "ownerEq: userVault.Owner != msg.From")] := by decide +kernel

/-- Reviewed exception (gen-1 x/auction message server, added to the table with the consistency work): settling a lend Dutch
bid calls `UnLiquidateLockedBorrows`, which logs and drops the error of `UpdateLockedBorrows` (liquidate_borrow.go:474,532,589);
that callee reaches `CalcAssetPrice` only at call sites that discard the error themselves (`price_errors_ignored_pinned`), so
no price error is lost here that was not already ignored. -/
def priceSwallowReviewed : List String := ["auction.MsgPlaceDutchLendBid"]

/-- price lookups: never swallowed into a success (an `if err != nil` branch returning ok, or — `swallow` items of class
priceLookup are also emitted for this — an error variable overwritten before it was tested) … -/
theorem no_price_error_swallowed :
    ∀ h ∈ handlers, swallowsPrice h = false ∨ qname h ∈ priceSwallowReviewed := by decide +kernel

theorem price_swallow_reviewed_tight :
    (handlers.filter swallowsPrice).map qname = priceSwallowReviewed := by decide +kernel

/-- … also not by OVERWRITING: at no call site of `CalcAssetPrice` / `GetLatestPrice` in keeper code is the returned error
assigned again before it was tested (`a, err := price(x); b, err := price(y); if err != nil` loses the first error and
lets `x` be valued at zero). Every call site is either `checked` or explicitly `ignored` (`_`). -/
theorem price_errors_never_overwritten :
    ∀ c ∈ priceCalls, c.status = "checked" ∨ c.status = "ignored" := by decide +kernel

/-- the call sites that discard the error on purpose (`value, _ := …`), reviewed: none of them is on the way of a user
message of the vault / locker / lend handlers — `CreteNewBorrow` (lend: re-creating a borrow after an auction),
`UpdateLockedBorrows` (liquidation bookkeeping after the position is locked), liquidity reward / fee weighting (a zero weight
for an un-priced pool), vault query handlers. -/
theorem price_errors_ignored_pinned :
    (priceCalls.filter fun c => c.status == "ignored").map (fun c => (c.file, c.fn)) =
      [("x/lend/keeper/keeper.go", "CreteNewBorrow"), ("x/lend/keeper/keeper.go", "CreteNewBorrow"),
       ("x/lend/keeper/keeper.go", "CreteNewBorrow"),
       ("x/liquidation/keeper/liquidate_borrow.go", "UpdateLockedBorrows"),
       ("x/liquidation/keeper/liquidate_borrow.go", "UpdateLockedBorrows"),
       ("x/liquidation/keeper/liquidate_borrow.go", "UpdateLockedBorrows"),
       ("x/liquidity/keeper/pool.go", "TransferFundsForSwapFeeDistribution"),
       ("x/liquidity/keeper/pool.go", "TransferFundsForSwapFeeDistribution"),
       ("x/liquidity/keeper/rewards.go", "GetAggregatedChildPoolContributions"),
       ("x/liquidity/keeper/rewards.go", "GetFarmingRewardsData"),
       ("x/vault/keeper/query_server.go", "QueryTVLByApp"), ("x/vault/keeper/query_server.go", "QueryUserMyPositionByApp"),
       ("x/vault/keeper/query_server.go", "QueryUserMyPositionByApp")] := by decide +kernel

/-- the checked call sites, by function (the valuation functions every price-dependent handler goes through) -/
theorem price_calls_checked_pinned :
    (priceCalls.filter fun c => c.status == "checked").map (fun c => (c.fn, c.asset)) =
      [("LendDutchActivator", "assetIn.Id"), ("LendDutchActivator", "assetOut.Id"), ("CheckSupplyCap", "assetID"),
       ("BorrowAsset", "pair.AssetOut"), ("BorrowAsset", "lendPos.AssetID"), ("BorrowAsset", "firstTransitAssetID"),
       ("BorrowAsset", "secondTransitAssetID"), ("DepositBorrowAsset", "pair.AssetIn"),
       ("DepositBorrowAsset", "firstTransitAssetID"), ("DepositBorrowAsset", "secondTransitAssetID"),
       ("CalculateCollateralizationRatio", "assetIn.Id"), ("CalculateCollateralizationRatio", "assetOut.Id"),
       ("LiquidateVaults", "assetIn.Id"), ("MsgLiquidateVault", "assetIn.Id"),
       ("CalculateCollateralizationRatio", "assetInData.Id"), ("CalculateCollateralizationRatio", "assetOutData.Id")] := by
  decide +kernel

/-- Direct reads of a TWA record (`x, found := ….GetTwa(ctx, id)`, outside the market module): the activity test that follows
is on the SAME variable that was just read. `if !found || !twaOther.IsPriceActive` after reading `twaThis` (status `other`) lets an
operation run on an inactive feed; it is excluded for every read site. The two reads that are not activity-tested at all are
listed and reviewed:
* `x/liquidity/keeper/rewards.go CalcAssetPrice` — the liquidity module's own valuation helper accepts any record with
  `Twa > 0`; it is only used to weight rewards / fees (its callers discard the error, see `price_errors_ignored_pinned`).
* `x/auctionsV2/keeper/bid.go PlaceDutchAuctionBid` — the bid reads the debt asset's TWA with `debtToken, _ :=` and no test
  (notes/C14.md, observation). -/
def twaUntestedReviewed : List (String × String) := [
  ("x/auctionsV2/keeper/bid.go", "PlaceDutchAuctionBid"), ("x/liquidity/keeper/rewards.go", "CalcAssetPrice")]

theorem twa_reads_test_own_activity :
    ∀ r ∈ twaReads, r.status = "own" ∨ (r.status = "untested" ∧ (r.file, r.fn) ∈ twaUntestedReviewed) := by decide +kernel

theorem twa_reads_found_checked :
    ∀ r ∈ twaReads, r.status = "own" → r.foundChecked = true := by decide +kernel

theorem twa_reads_pinned :
    twaReads.length = 20 ∧ (twaReads.filter fun r => r.status == "own").length = 18 ∧
    (twaReads.filter fun r => r.status == "other").length = 0 ∧
    (twaReads.filter fun r => r.status == "own").map (fun r => (r.fn, r.var, r.asset)) =
      [("StartDutchAuction", "twaData", "assetOutID"), ("StartDutchAuction", "twaData", "assetInID"),
       ("RestartDutchAuctions", "twaData", "dutchAuction.AssetInId"), ("RestartDutchAuctions", "twaData", "dutchAuction.AssetOutId"),
       ("StartLendDutchAuction", "twaInData", "assetInID"), ("StartLendDutchAuction", "twaData", "assetOutID"),
       ("RestartDutchLendAuctions", "twaData", "dutchAuction.AssetInId"),
       ("RestartDutchLendAuctions", "twaData", "dutchAuction.AssetOutId"),
       ("DutchAuctionActivator", "twaDataCollateral", "liquidationData.CollateralAssetId"),
       ("DutchAuctionActivator", "twaDataDebt", "liquidationData.DebtAssetId"),
       ("RestartDutchAuction", "twaDataCollateral", "dutchAuction.CollateralAssetId"),
       ("RestartDutchAuction", "twaDataDebt", "dutchAuction.DebtAssetId"),
       ("UpdateDutchAuction", "twaDataCollateral", "dutchAuction.CollateralAssetId"),
       ("UpdateDutchAuction", "twaDataDebt", "dutchAuction.DebtAssetId"),
       ("SnapshotOfPrices", "price", "a.Id"), ("OraclePrice", "price", "asset.Id"), ("OraclePrice", "price", "asset.Id"),
       ("OraclePriceForRewards", "price", "asset.Id")] := by decide +kernel

/-- every operation of the expected list contains a price lookup whose error is returned (conditional in the vault module:
after ESM the snapshot price is used instead) -/
theorem price_needed_have_lookup : ∀ q ∈ priceNeeded, ∃ h ∈ handlers, qname h = q ∧ hasPriceGuard h = true := by decide +kernel

/-- … the handlers that contain a returned-error price lookup … -/
theorem price_guard_pinned :
    (handlers.filter hasPriceGuard).map qname =
      ["vault.MsgCreate", "vault.MsgWithdraw", "vault.MsgDraw", "vault.MsgDepositAndDraw", "lend.Lend", "lend.Deposit",
       "lend.Borrow", "lend.DepositBorrow", "lend.Draw", "lend.BorrowAlternate", "liquidation.MsgLiquidateVault",
       "liquidation.MsgLiquidateBorrow", "liquidationsV2.MsgLiquidateInternalKeeper"] := by decide +kernel

/-- … and those where an unconditional price lookup dominates every exit (for the others the lookup is conditional: the vault
module reads the ESM price snapshot instead of the oracle after shutdown; lend inter-pool borrows price the transit assets) -/
theorem price_dominates_pinned :
    (handlers.filter (guarded 5 false)).map qname =
      ["lend.Lend", "lend.Deposit", "lend.Borrow", "lend.BorrowAlternate", "liquidation.MsgLiquidateVault"] := by decide +kernel

/-- every liquidation sweep and surplus/debt auction starter tests the breaker flag in the skipping direction before any write -/
theorem sweeps_skip_controlled : ∀ s ∈ sweeps, skipsControlled s = true := by decide +kernel

theorem sweeps_pinned :
    sweeps.map (fun s => (s.module, s.fn, s.action, s.conn, s.breaker, s.esm)) =
      [("liquidation", "LiquidateVaults", "skip", "or", "pos", "pos"),
       ("liquidation", "LiquidateBorrows", "skip", "atom", "pos", "none"),
       ("liquidationsV2", "LiquidateIndividualVault", "skip", "or", "pos", "pos"),
       ("liquidationsV2", "LiquidateIndividualBorrow", "skip", "atom", "pos", "none"),
       ("liquidationsV2", "LiquidateForSurplusAndDebt", "start", "and", "neg", "none"),
       ("auction", "SurplusActivator", "start", "and", "neg", "neg"),
       ("auction", "DebtActivator", "start", "and", "neg", "neg"),
       ("rewards", "DistributeExtRewardLocker", "skip", "atom", "pos", "none"),
       ("rewards", "DistributeExtRewardVault", "skip", "atom", "pos", "none"),
       ("rewards", "DistributeExtRewardLend", "skip", "atom", "pos", "none")] := by decide +kernel

/-! ## composition with the execution model -/

theorem guarded_route {c : Nat} {clean : Bool} {h : Handler} (hg : guarded c clean h = true) :
    ∀ p ∈ exits h.items, hasGuard c clean (routeOf p.1 p.2) = true := by
  simp only [guarded, Bool.and_eq_true, List.all_eq_true] at hg
  exact hg.2

/-- for every handler of the expected breaker list, every successful exit, every interpretation of the writes and other checks
on the route to it, every scenario with the breaker on and every state: rejected, state unchanged -/
theorem breaker_rejected_on_every_route {σ : Type} :
    ∀ q ∈ breakerRefused, ∃ h ∈ handlers, qname h = q ∧ ∀ p ∈ exits h.items,
      ∀ (sem : Sem σ) (e : Env) (s : σ), e.breakerOn = true → deliver (stepsOf sem (routeOf p.1 p.2)) e s = (s, false) := by
  intro q hq
  obtain ⟨h, hh, hn, hg⟩ := breaker_list_guarded q hq
  refine ⟨h, hh, hn, ?_⟩
  intro p hp sem e s hon
  exact C12.route_rejects sem _ 3 true e s (guarded_route hg p hp) (by decide) (by simp [GClass.ofCode, GClass.fails, hon])

theorem esm_rejected_on_every_route {σ : Type} :
    ∀ q ∈ esmRefused, ∃ h ∈ handlers, qname h = q ∧ ∀ p ∈ exits h.items,
      ∀ (sem : Sem σ) (e : Env) (s : σ), e.esmExecuted = true → deliver (stepsOf sem (routeOf p.1 p.2)) e s = (s, false) := by
  intro q hq
  obtain ⟨h, hh, hn, hg⟩ := esm_list_guarded q hq
  refine ⟨h, hh, hn, ?_⟩
  intro p hp sem e s hon
  exact C12.route_rejects sem _ 2 true e s (guarded_route hg p hp) (by decide) (by simp [GClass.ofCode, GClass.fails, hon])

theorem cooloff_rejected_on_every_route {σ : Type} :
    ∀ q ∈ coolOffRefused, ∃ h ∈ handlers, qname h = q ∧ ∀ p ∈ exits h.items,
      ∀ (sem : Sem σ) (e : Env) (s : σ), e.esmExecuted = true → e.coolOffPassed = true →
        deliver (stepsOf sem (routeOf p.1 p.2)) e s = (s, false) := by
  intro q hq
  obtain ⟨h, hh, hn, hg⟩ := cooloff_list_guarded q hq
  refine ⟨h, hh, hn, ?_⟩
  intro p hp sem e s hon hpast
  exact C12.route_rejects sem _ 4 true e s (guarded_route hg p hp) (by decide)
    (by simp [GClass.ofCode, GClass.fails, hon, hpast])

/-- every exit of a handler of `price_dominates_pinned` is rejected when its price is inactive -/
theorem price_rejected_on_every_route {σ : Type} :
    ∀ h ∈ handlers, guarded 5 false h = true → ∀ p ∈ exits h.items,
      ∀ (sem : Sem σ) (e : Env) (s : σ), e.priceActive = false → deliver (stepsOf sem (routeOf p.1 p.2)) e s = (s, false) := by
  intro h _ hg p hp sem e s hoff
  exact C12.route_rejects sem _ 5 false e s (guarded_route hg p hp) (by decide) (by simp [GClass.ofCode, GClass.fails, hoff])

/-! ## scope: every entry point that can write a position record (from the regenerated inventory `entryPoints`) -/

/-- Message entry points that reach a setter / deleter of a vault, stable-mint vault, locker, lend or borrow record and are NOT
breaker-guarded on every route — reviewed:
* `auction.MsgPlaceDutchLendBid`, `auctionsV2.MsgPlaceMarketBid` — bids on a running auction of an ALREADY liquidated position; the
  position record is written to settle the auction / return the remainder (starting auctions is what the sweeps' breaker test stops).
* `lend.CalculateInterestAndRewards`, `vault.MsgVaultInterestCalc`, `locker.MsgLockerRewardCalc` — accrual only (nothing is opened,
  enlarged or drawn).
* `lend.FundReserveAccounts` — the signer funds the reserve; its tail `RemoveFaultyAuctions` (keeper.go:1619) un-locks borrows that
  are stuck in faulty gen-1 lend auctions.
* `liquidation.MsgLiquidateBorrow`, `liquidationsV2.MsgLiquidateInternalKeeper` — the breaker test sits inside the per-position
  function (`sweeps` table: `LiquidateIndividualVault/Borrow`, action skip) and is exercised by the harness (`breaker_closed` is
  not demanded of them by the text; `sweep_skips` is).
* `locker.MsgWithdrawAsset`, `locker.MsgCloseLocker` — the reading of "draw from" (notes/C14.md): not guarded, recorded. -/
def breakerUnguardedWriters : List String := [
  "auction.MsgPlaceDutchLendBid", "auctionsV2.MsgPlaceMarketBid", "lend.CalculateInterestAndRewards", "lend.FundReserveAccounts",
  "liquidation.MsgLiquidateBorrow", "liquidationsV2.MsgLiquidateInternalKeeper", "locker.MsgWithdrawAsset", "locker.MsgCloseLocker",
  "locker.MsgLockerRewardCalc", "vault.MsgVaultInterestCalc"]

/-- **every message of ANY module that can write a position record has the breaker guard on every route to success before its
first write, or is on the reviewed list** — a new handler (or an existing one that starts writing positions) fails here -/
theorem position_writers_breaker_guarded :
    ∀ e ∈ entryPoints, e.kind = "msg" → e.posWrites = true →
      (∃ h ∈ handlers, qname h = epName e ∧ guarded 3 true h = true) ∨ epName e ∈ breakerUnguardedWriters := by decide +kernel

theorem breaker_unguarded_writers_tight :
    ((entryPoints.filter fun e => e.kind == "msg" && e.posWrites &&
        !(handlers.any fun h => qname h == epName e && guarded 3 true h)).map epName) = breakerUnguardedWriters := by decide +kernel

/-- the expected breaker list is inside the set of position writers (the text's operations do write positions) -/
theorem breaker_list_writes_positions :
    ∀ q ∈ breakerRefused, ∃ e ∈ entryPoints, e.kind = "msg" ∧ epName e = q ∧ e.posWrites = true := by decide +kernel

/-- position writers that are not messages: the two contract-only re-parametrisations (they accrue every vault / locker of the
pair before changing its rates) and the block hooks; of the hooks only auctionsV2, esm and liquidationsV2 are wired
(`C12.unwired_entry_points_pinned`), their control tests are the `sweeps` table, `Props/C14Snapshot` and the begin-block units -/
theorem nonmsg_position_writers_pinned :
    ((entryPoints.filter fun e => e.kind != "msg" && e.posWrites).map fun e => (e.kind, epName e, e.registered)) =
      [("wasm", "wasm.MsgUpdatePairsVault", true), ("wasm", "wasm.MsgUpdateCollectorLookupTable", true),
       ("blocker", "auction.BeginBlocker", false), ("blocker", "auctionsV2.BeginBlocker", true), ("blocker", "esm.BeginBlocker", true),
       ("blocker", "liquidation.BeginBlocker", false), ("blocker", "liquidationsV2.BeginBlocker", true)] := by decide +kernel

example : (entryPoints.filter fun e => e.kind == "msg" && e.posWrites).length = 34 := by decide +kernel

/-! ## the liquidated position is tied to the app whose controls were checked (seed s115) -/

/-- In the gen-1 sweep `LiquidateVaults` and in `MsgLiquidateVault` the breaker / ESM status is read for ONE app id expression
(`appIds[i]` resp. `appID`); the vault that is then liquidated is tied to exactly that expression by a failing comparison
`vault.AppId != <that expression>`. Comparing the vault's app with anything else (its extended pair's app, …) lets a controlled
app's vault be liquidated during another app's iteration or by a message that names another app. -/
theorem liquidation_vault_tied_to_checked_app : ∀ t ∈ appTies, t.found = true ∧ t.tied = true := by decide +kernel

theorem app_ties_pinned :
    appTies.map (fun t => (t.module, t.fn, t.checked, t.lhs, t.rhs)) =
      [("liquidation", "LiquidateVaults", "appIds[i]", "vault.AppId", "appIds[i]"),
       ("liquidation", "MsgLiquidateVault", "appID", "vault.AppId", "appID")] := by decide +kernel

end Comdex.C14
