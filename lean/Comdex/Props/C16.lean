import Comdex.Lemmas.MapLoops
import Comdex.Gen.Determinism
/-!
# C16 — State transitions are deterministic: same blocks, same state

A Lean function is deterministic by construction; what a proof CAN establish about the Go code is that none of the
language-level sources of nondeterminism the property names can influence consensus state:

Property clause → theorem
* "regardless of … map iteration order": every `range` over a map-typed expression in consensus code computes a
  result that does not depend on the iteration order
    - `app/app.go` `App.ModuleAccountAddrs`                       → `C16.site_ModuleAccountAddrs_perm_invariant`
                                                                     (+ `…_accounts_perm_invariant`)
    - `x/liquidity/amm/match.go` `DistributeOrderAmountToOrders`  → `C16.site_DistributeOrderAmountToOrders_perm_invariant`
    - `x/liquidity/amm/orderbook.go` `OrderBook.String`           → `C16.site_OrderBookString_perm_invariant`
    - `x/liquidity/keeper/pool.go` `TransferFundsForSwapFeeDistribution` → `C16.site_TransferFundsForSwapFeeDistribution_perm_invariant`
                                                                     (+ `C16.swapFeeTotal_closed_form`: panics iff the TOTAL overflows)
  and these are ALL the sites: `C16.table_mapRangeSites_proven`, `C16.table_mapRangeSites_size`,
  `C16.table_mapRangeSites_text`, `C16.table_provenSites_live` over the regenerated table `Gen.Determinism.mapRangeSites`
  (keys are (file, function, body shape): an edited loop body gets a new shape and has no theorem);
  no map is handed to code outside the scanned packages from keeper code: `C16.table_mapArgsExternal`.
  Why the shape matters: `C16.appendInOrder_order_dependent`, `C16.firstMatch_order_dependent` (the two loop shapes
  a careless edit introduces ARE order dependent on every map with two entries).
* "regardless of … goroutine scheduling": `C16.table_goStatements`, `C16.table_selectStmts`, `C16.table_chanOps`
* "regardless of … wall-clock time": `C16.table_wallClockUses` (⊆ reviewed test-fixture allow-list),
  `C16.table_taintedCallers` (nothing else reaches those functions)
* "regardless of process": `C16.table_randUses`, `C16.table_envUses`, `C16.table_unsafeUses`,
  `C16.no_mutable_package_state` + `C16.table_mutablePackageState_size` (no memo / counter / cache in a package-level
  variable: nothing survives an application instance except the stores)
* the extractor saw the tree: `C16.table_scan_coverage`, `C16.table_spot_entries`

Partial: the Go scheduler and runtime, the SDK / CometBFT / IAVL / wasm code and float arithmetic are outside the
model; `sdkmath.Int` accumulators are unbounded in the `DistributeOrderAmountToOrders` model. The replay comparison
(harness `TestC16`, monitor `replay_equal`) is a test.
-/
namespace Comdex.C16
open Comdex.MapLoops
open Comdex.Gen

/-! ## Per-site theorems -/

/-- `App.ModuleAccountAddrs`: whatever order the runtime enumerates `ModuleAccountsPermissions()` in, the slice
after `sort.Strings` is the same — for EVERY sort function meeting the contract `IsSort` (result is a rearrangement
and in order). Hypothesis checked in the code: the comparison is on the whole element (`sort.Strings`: byte-wise
`<` on the strings themselves), which is antisymmetric, so no two distinct elements compare equal. -/
theorem site_ModuleAccountAddrs_perm_invariant (sort : List String → List String)
    (hs : IsSort (fun a b : String => a ≤ b) sort) (l l' : List (String × List String)) (h : l.Perm l') :
    ModuleAccountAddrs.observable sort (runLoop ModuleAccountAddrs.body [] l)
      = ModuleAccountAddrs.observable sort (runLoop ModuleAccountAddrs.body [] l') := by
  have e : ∀ l : List (String × List String), runLoop ModuleAccountAddrs.body [] l = l.map Prod.fst := fun l =>
    (foldl_append_map (fun e : String × List String => e.1) l []).trans (List.nil_append _)
  simp only [ModuleAccountAddrs.observable, e]
  exact sort_eq_of_perm (fun a b => String.le_antisymm) hs (h.map _)

/-- … and hence the returned `accounts` map (as a finite function), for every address derivation `addr` -/
theorem site_ModuleAccountAddrs_accounts_perm_invariant (sort : List String → List String)
    (hs : IsSort (fun a b : String => a ≤ b) sort) (addr : String → String)
    (l l' : List (String × List String)) (h : l.Perm l') :
    ModuleAccountAddrs.accounts addr (ModuleAccountAddrs.observable sort (ModuleAccountAddrs.collect l))
      = ModuleAccountAddrs.accounts addr (ModuleAccountAddrs.observable sort (ModuleAccountAddrs.collect l')) := by
  have := site_ModuleAccountAddrs_perm_invariant sort hs l l' h
  simp only [ModuleAccountAddrs.collect]
  rw [this]

/-- non-vacuity: the theorem applied to two real iteration orders, with the executable sort -/
example : ModuleAccountAddrs.observable ModuleAccountAddrs.goSortStrings
      (ModuleAccountAddrs.collect [("mint", ["minter"]), ("bonded", []), ("gov", ["burner"])])
    = ModuleAccountAddrs.observable ModuleAccountAddrs.goSortStrings
      (ModuleAccountAddrs.collect [("bonded", []), ("mint", ["minter"]), ("gov", ["burner"])]) :=
  site_ModuleAccountAddrs_perm_invariant _ isSort_goSortStrings _ _ (List.Perm.swap _ _ _)
example : ModuleAccountAddrs.collect [("mint", ["minter"]), ("bonded", [])]
    ≠ ModuleAccountAddrs.collect [("bonded", []), ("mint", ["minter"])] := by decide +kernel
/-- the contract is satisfiable (non-vacuity of `hs`) -/
example : IsSort (fun a b : String => a ≤ b) ModuleAccountAddrs.goSortStrings := isSort_goSortStrings

/-- `OrderBook.String`: the prices handed to the renderer after `sort.Slice(prices, GT)` do not depend on the
iteration order of `priceSet`. The comparison is on the whole element (a `LegacyDec` value), antisymmetric. -/
theorem site_OrderBookString_perm_invariant (sort : List Int → List Int)
    (hs : IsSort OrderBookString.le sort) (l l' : List (String × Int)) (h : l.Perm l') :
    OrderBookString.observable sort (runLoop OrderBookString.body [] l)
      = OrderBookString.observable sort (runLoop OrderBookString.body [] l') := by
  have e : ∀ l : List (String × Int), runLoop OrderBookString.body [] l = l.map Prod.snd := fun l =>
    (foldl_append_map (fun e : String × Int => e.2) l []).trans (List.nil_append _)
  simp only [OrderBookString.observable, e]
  exact sort_eq_of_perm (fun a b hab hba => by simp only [OrderBookString.le] at hab hba; omega) hs (h.map _)

example : OrderBookString.observable OrderBookString.goSortDesc
      (OrderBookString.collect [("1.0", 1000), ("1.2", 1200), ("0.9", 900)])
    = OrderBookString.observable OrderBookString.goSortDesc
      (OrderBookString.collect [("1.2", 1200), ("1.0", 1000), ("0.9", 900)]) :=
  site_OrderBookString_perm_invariant _ isSort_goSortDesc _ _ (List.Perm.swap _ _ _)
example : OrderBookString.collect [("1.0", 1000), ("1.2", 1200)] ≠ OrderBookString.collect [("1.2", 1200), ("1.0", 1000)] := by
  decide
example : IsSort OrderBookString.le OrderBookString.goSortDesc := isSort_goSortDesc

set_option exponentiation.threshold 400

/-- closed form behind the next theorem: the checked `LegacyDec` sum over positive values panics iff the total
needs more than 315 bits, and otherwise IS the total -/
theorem swapFeeTotal_closed_form (l : List (Nat × Int)) (hp : SwapFeeTotal.AllPositive l) :
    SwapFeeTotal.total l = if Dec.fits (sumSnd l) = true then some (sumSnd l) else none := by
  have := foldl_body_closed l (fun e he => Int.le_of_lt (hp e he)) 0 (Int.le_refl 0) (by decide)
  simpa [SwapFeeTotal.total, runLoop, Dec.zero] using this

/-- `TransferFundsForSwapFeeDistribution`: `totalLiquidity` (the panic outcome included) does not depend on the
iteration order of `poolLiquidityMap`. Hypothesis checked in the code: only positive values are stored
(pool.go: `if !totalValue.IsPositive() { return … }` before `poolLiquidityMap[pool.Id] = totalValue`). -/
theorem site_TransferFundsForSwapFeeDistribution_perm_invariant (l l' : List (Nat × Int))
    (hp : SwapFeeTotal.AllPositive l) (h : l.Perm l') :
    SwapFeeTotal.observable (runLoop SwapFeeTotal.body (some Dec.zero) l)
      = SwapFeeTotal.observable (runLoop SwapFeeTotal.body (some Dec.zero) l') := by
  have hp' : SwapFeeTotal.AllPositive l' := fun e he => hp e (h.mem_iff.mpr he)
  have e1 := swapFeeTotal_closed_form l hp
  have e2 := swapFeeTotal_closed_form l' hp'
  simp only [SwapFeeTotal.total] at e1 e2
  simp only [SwapFeeTotal.observable, e1, e2, sumSnd_perm h]

example : SwapFeeTotal.total [(1, 40), (2, 40), (3, 20)] = some 100 := by decide +kernel
example : SwapFeeTotal.AllPositive [(1, 40), (2, 40), (3, 20)] := by simp [SwapFeeTotal.AllPositive]
/-- the panic branch is reachable in the model (two values of 314 bits each) -/
example : SwapFeeTotal.total [(1, 2 ^ 314), (2, 2 ^ 314)] = none := by decide +kernel

/-- `DistributeOrderAmountToOrders` (final loop): the mutated order objects and the returned `quoteCoinDiff` — or the
panic — do not depend on the iteration order of `matchedAmtByOrder`. Hypothesis = a fact about Go maps: keys (order
object identities) are pairwise distinct; `FillOrder` touches only the order that is the key. -/
theorem site_DistributeOrderAmountToOrders_perm_invariant {κ : Type} [DecidableEq κ] (price : Dec)
    (orders : κ → FillOrders.Order) (l l' : List (κ × Int)) (hd : DistinctKeys l) (h : l.Perm l') :
    FillOrders.observable (runLoop (FillOrders.body price) (some { orders := orders, quoteCoinDiff := 0 }) l)
      = FillOrders.observable (runLoop (FillOrders.body price) (some { orders := orders, quoteCoinDiff := 0 }) l') := by
  congr 1
  apply runLoop_perm_of_comm _ h
  intro x hx y hy z
  by_cases hxy : x = y
  · subst hxy; rfl
  · apply body_comm
    intro hk
    apply hxy
    exact eq_of_mem_of_distinctKeys hd hx hy hk

/-- non-vacuity: two sell orders and a buy order filled in two different orders give the same books -/
example :
    let os : Nat → FillOrders.Order := fun k =>
      if k = 0 then { isBuy := false, offerCoinAmt := 500, openAmt := 500, paid := 0, received := 0 }
      else if k = 1 then { isBuy := false, offerCoinAmt := 700, openAmt := 700, paid := 0, received := 0 }
      else { isBuy := true, offerCoinAmt := 3000, openAmt := 900, paid := 0, received := 0 }
    let p : Dec := 2 * Dec.P
    ((FillOrders.run p os [(0, 100), (1, 300), (2, 50)]).map fun s => (s.orders 0, s.orders 1, s.orders 2, s.quoteCoinDiff))
      = ((FillOrders.run p os [(2, 50), (1, 300), (0, 100)]).map fun s => (s.orders 0, s.orders 1, s.orders 2, s.quoteCoinDiff))
    ∧ (FillOrders.run p os [(0, 100), (1, 300), (2, 50)]).map (·.quoteCoinDiff) = some (-700) := by decide +kernel
/-- the panic branch is reachable: filling more than the open amount -/
example : (FillOrders.run (κ := Nat) (2 * Dec.P)
    (fun _ => { isBuy := false, offerCoinAmt := 5, openAmt := 5, paid := 0, received := 0 }) [(0, 6)]).isNone = true := by
  decide

/-! ## Why the body shape is part of a site's key: the shapes an edit typically introduces are order dependent -/

/-- "collect the keys into a slice and use it unsorted": two iteration orders of any map with two entries give
different slices (hence different sequences of state writes / transfers) -/
theorem appendInOrder_order_dependent {κ ν : Type} (k1 k2 : κ) (v1 v2 : ν) (hne : k1 ≠ k2) :
    [(k1, v1), (k2, v2)].Perm [(k2, v2), (k1, v1)] ∧
    runLoop appendInOrder [] [(k1, v1), (k2, v2)] ≠ runLoop appendInOrder [] [(k2, v2), (k1, v1)] := by
  refine ⟨List.Perm.swap _ _ _, ?_⟩
  simp [runLoop, appendInOrder, hne]

/-- "return the first entry that satisfies p": order dependent as soon as two entries satisfy it -/
theorem firstMatch_order_dependent {κ ν : Type} (p : ν → Bool) (k1 k2 : κ) (v1 v2 : ν) (hne : k1 ≠ k2)
    (h1 : p v1 = true) (h2 : p v2 = true) :
    runLoop (firstMatch p) none [(k1, v1), (k2, v2)] ≠ runLoop (firstMatch p) none [(k2, v2), (k1, v1)] := by
  simp [runLoop, firstMatch, h1, h2, hne]

/-! ## Table obligations over the regenerated facts (`extract/determinism` → `Gen/Determinism.lean`) -/

/-- the sites that have a theorem above: (file, enclosing function, normalized body shape) — no line numbers -/
def provenSites : List (String × String × String) := [
  ("app/app.go", "App.ModuleAccountAddrs", "append:sorted(sort.Strings)"),
  ("x/liquidity/amm/match.go", "DistributeOrderAmountToOrders", "accum+call:method"),
  ("x/liquidity/amm/orderbook.go", "OrderBook.String", "append:sorted(sort.Slice@stringRepresentation)"),
  ("x/liquidity/keeper/pool.go", "Keeper.TransferFundsForSwapFeeDistribution", "accum+call:method")]

/-- every map range in consensus code is one of the proven sites, with the body shape that was proved -/
theorem table_mapRangeSites_proven : ∀ s ∈ Determinism.mapRangeSites, s.key ∈ provenSites := by decide +kernel

/-- one range per proven site (a second map range added to a proven function shows up here) -/
theorem table_mapRangeSites_size : Determinism.mapRangeSites.length = 4 := by decide +kernel

/-- the loops are textually the ones that were modelled (comments / layout / line numbers do not matter; any edit of
a loop statement does, and must be re-modelled) -/
def modelledLoops : List (String × String) := [
  ("App.ModuleAccountAddrs", "for name := range a.ModuleAccountsPermissions() { names = append(names, name) }"),
  ("DistributeOrderAmountToOrders",
    "for order, matchedAmt := range matchedAmtByOrder { quoteCoinDiff = quoteCoinDiff.Add(FillOrder(order, matchedAmt, price)) }"),
  ("OrderBook.String", "for _, price := range priceSet { prices = append(prices, price) }"),
  ("Keeper.TransferFundsForSwapFeeDistribution",
    "for _, pLiquidity := range poolLiquidityMap { totalLiquidity = totalLiquidity.Add(pLiquidity) }")]

theorem table_mapRangeSites_text : Determinism.mapRangeSites.map (·.text) = modelledLoops := by decide +kernel

/-- every theorem still speaks about a loop that exists -/
theorem table_provenSites_live : ∀ k ∈ provenSites, k ∈ Determinism.mapRangeSites.map (·.key) := by decide +kernel

/-- no goroutine is started in consensus code -/
theorem table_goStatements : Determinism.goStatements = [] := by decide +kernel
theorem table_selectStmts : Determinism.selectStmts = [] := by decide +kernel
theorem table_chanOps : Determinism.chanOps = [] := by decide +kernel

/-- Reviewed wall-clock uses, none on a consensus path:
* `app/test_helpers.go` `SetupWithGenesisValSet` (×2) — test fixture: genesis time / first header of a throw-away chain
  (NB: this is why the C16 harness builds its own genesis instead of calling `app.Setup`);
* `app/test_suite.go` `KeeperTestHelper.Setup` — keeper test suite fixture;
* `types/utils.go` `GenAndDeliverTx` — seeds the memo generator of a *simulation* transaction.
Block time in keepers and in `telemetry.ModuleMeasureSince` is `ctx.BlockTime()` (header time). -/
def allowedWallClock : List (String × String × String) := [
  ("app/test_helpers.go", "SetupWithGenesisValSet", "time.Now"),
  ("app/test_suite.go", "KeeperTestHelper.Setup", "time.Now"),
  ("types/utils.go", "GenAndDeliverTx", "time.Now")]

theorem table_wallClockUses : ∀ u ∈ Determinism.wallClockUses, u.key ∈ allowedWallClock := by decide +kernel

/-- Reviewed uses of `math/rand`: all take the generator from the caller (simulation / tests), none has a caller
in the scanned code other than each other (`table_taintedCallers`). -/
def allowedRand : List (String × String) := [
  ("types/utils.go", "RandomInt"), ("types/utils.go", "RandomDec"), ("types/utils.go", "GenAndDeliverTx"),
  ("types/utils.go", "ShuffleSimAccounts"),
  ("x/liquidity/amm/tick.go", "TickPrecision.RandomTick"), ("x/liquidity/amm/tick.go", "RandomTick")]

theorem table_randUses : ∀ u ∈ Determinism.randUses, (u.file, u.fn) ∈ allowedRand := by decide +kernel

/-- no keeper, handler, ABCI hook or wasm binding file uses randomness -/
theorem table_randUses_not_in_keepers :
    ∀ u ∈ Determinism.randUses, u.file = "types/utils.go" ∨ u.file = "x/liquidity/amm/tick.go" := by decide +kernel

/-- the only scanned functions that (transitively) reach a wall-clock or rand user are test fixtures and
simulation helpers -/
def allowedTainted : List (String × String) := [
  ("app/test_helpers.go", "Setup"), ("app/test_suite.go", "KeeperTestHelper.SetupTestForInitGenesis"),
  ("types/utils.go", "GenAndDeliverTxWithFees")]

theorem table_taintedCallers : ∀ u ∈ Determinism.taintedCallers, (u.file, u.fn) ∈ allowedTainted := by decide +kernel

theorem table_envUses : Determinism.envUses = [] := by decide +kernel
theorem table_unsafeUses : Determinism.unsafeUses = [] := by decide +kernel

/-- Maps handed to code outside the scanned packages: only application wiring in `app/` (SDK constructors and
`module.Manager` functions, which order by `OrderInitGenesis`/sorted keys; `encoding/json` and `fmt` print maps with
sorted keys) — never from `x/…` or `types/…`. -/
def allowedMapCallees : List String := [
  "encoding/json.MarshalIndent", "fmt.Sprintf",
  "github.com/cosmos/cosmos-sdk/baseapp.MountKVStores", "github.com/cosmos/cosmos-sdk/baseapp.MountMemoryStores",
  "github.com/cosmos/cosmos-sdk/baseapp.MountTransientStores",
  "github.com/cosmos/cosmos-sdk/runtime/services.NewAutoCLIQueryService",
  "github.com/cosmos/cosmos-sdk/types/module.InitGenesis", "github.com/cosmos/cosmos-sdk/types/module.RunMigrations",
  "github.com/cosmos/cosmos-sdk/x/auth/keeper.NewAccountKeeper", "github.com/cosmos/cosmos-sdk/x/upgrade/keeper.NewKeeper",
  "github.com/cosmos/cosmos-sdk/x/upgrade/keeper.SetModuleVersionMap"]

theorem table_mapArgsExternal :
    ∀ u ∈ Determinism.mapArgsExternalSummary, u.1 = "app" ∧ u.2 ∈ allowedMapCallees := by decide +kernel

/-- Package-level variables written from non-init code. Reviewed allow-list — one kind of entry only:
`msgservice.RegisterMsgServiceDesc(registry, &_Msg_serviceDesc)` in each module's `RegisterInterfaces`: the address of
the protobuf-generated gRPC service descriptor is handed to the SDK at application wiring; the SDK reads it (method
names → request types) and never writes it; not reachable from a message handler or a begin/end blocker. -/
def allowedPackageStateWrites : List (String × String × String) := [
  ("x/asset/types/codec.go", "RegisterInterfaces", "x/asset/types._Msg_serviceDesc:addr"),
  ("x/auction/types/codec.go", "RegisterInterfaces", "x/auction/types._Msg_serviceDesc:addr"),
  ("x/auctionsV2/types/codec.go", "RegisterInterfaces", "x/auctionsV2/types._Msg_serviceDesc:addr"),
  ("x/collector/types/codec.go", "RegisterInterfaces", "x/collector/types._Msg_serviceDesc:addr"),
  ("x/esm/types/codec.go", "RegisterInterfaces", "x/esm/types._Msg_serviceDesc:addr"),
  ("x/lend/types/codec.go", "RegisterInterfaces", "x/lend/types._Msg_serviceDesc:addr"),
  ("x/liquidation/types/codec.go", "RegisterInterfaces", "x/liquidation/types._Msg_serviceDesc:addr"),
  ("x/liquidationsV2/types/codec.go", "RegisterInterfaces", "x/liquidationsV2/types._Msg_serviceDesc:addr"),
  ("x/liquidity/types/codec.go", "RegisterInterfaces", "x/liquidity/types._Msg_serviceDesc:addr"),
  ("x/locker/types/codec.go", "RegisterInterfaces", "x/locker/types._Msg_serviceDesc:addr"),
  ("x/rewards/types/codec.go", "RegisterInterfaces", "x/rewards/types._Msg_serviceDesc:addr"),
  ("x/tokenmint/types/codec.go", "RegisterInterfaces", "x/tokenmint/types._Msg_serviceDesc:addr"),
  ("x/vault/types/codec.go", "RegisterInterfaces", "x/vault/types._Msg_serviceDesc:addr")]

/-- "regardless of process / fresh in-process instances": no state outside the stores. The table of writes to
package-level variables (assignment, op=, increment, decrement, field / element write, delete, address-of, pointer-receiver method of a
comdex or sync type) from non-init functions of consensus packages, minus the reviewed allow-list, is empty. Such a
variable (a memo, a counter, a cache) outlives an application instance and makes a replay depend on what the process
computed before. -/
theorem no_mutable_package_state :
    Determinism.mutablePackageState.filter (fun u => !(allowedPackageStateWrites.contains u.key)) = [] := by
  decide +kernel

/-- pinned: 13 writes (one per module's `RegisterInterfaces`), out of 787 package-level variables seen -/
theorem table_mutablePackageState_size :
    Determinism.mutablePackageState.length = 13 ∧ Determinism.packageVars ≥ 700 := by decide +kernel

/-- the extractor really walked the tree (an extractor that silently returns nothing fails here) -/
theorem table_scan_coverage :
    Determinism.scannedPackages ≥ 80 ∧ Determinism.scannedFiles ≥ 400 ∧ Determinism.scannedFuncs ≥ 3000 := by decide +kernel

theorem table_spot_entries :
    ("x/liquidity/amm/match.go", "DistributeOrderAmountToOrders", "accum+call:method") ∈ Determinism.mapRangeSites.map (·.key)
    ∧ ("app/test_helpers.go", "SetupWithGenesisValSet", "time.Now") ∈ Determinism.wallClockUses.map (·.key)
    ∧ ("x/liquidity/amm/tick.go", "RandomTick", "math/rand.Intn") ∈ Determinism.randUses.map (·.key)
    ∧ ("types/utils.go", "GenAndDeliverTxWithFees", "GenAndDeliverTx") ∈ Determinism.taintedCallers.map (·.key)
    ∧ Determinism.mapArgsExternal.length ≥ 30
    ∧ ("app", "github.com/cosmos/cosmos-sdk/baseapp.MountKVStores") ∈ Determinism.mapArgsExternalSummary := by decide +kernel

end Comdex.C16
