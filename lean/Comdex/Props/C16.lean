import Comdex.Lemmas.MapLoops
import Comdex.Gen.Determinism
/-!
# C16 — State transitions are deterministic: same blocks, same state

A Lean function is deterministic by construction; what a proof CAN establish about the Go code is that none of the
language-level sources of nondeterminism the property names can influence consensus state:

Property clause → theorem
* "regardless of … map iteration order": every `range` over a map-typed expression in consensus code computes a
  result that does not depend on the iteration order
    - `app/app.go` `App.ModuleAccountAddrs`                       → `C16.site_ModuleAccountAddrs_perm_invariant`
                                                                     (+ `…_accounts_perm_invariant`)
    - `x/liquidity/amm/match.go` `DistributeOrderAmountToOrders`  → `C16.site_DistributeOrderAmountToOrders_perm_invariant`
    - `x/liquidity/amm/orderbook.go` `OrderBook.String`           → `C16.site_OrderBookString_perm_invariant`
    - `x/liquidity/keeper/pool.go` `TransferFundsForSwapFeeDistribution` → `C16.site_TransferFundsForSwapFeeDistribution_perm_invariant`
                                                                     (+ `C16.swapFeeTotal_closed_form`: panics iff the TOTAL overflows)
  and these are ALL the sites: `C16.table_mapRangeSites_proven`, `C16.table_mapRangeSites_size`,
  `C16.table_mapRangeSites_text`, `C16.table_provenSites_live` over the regenerated table `Gen.Determinism.mapRangeSites`
  (keys are (file, function, body shape): an edited loop body gets a new shape and has no theorem);
  no map is handed to code outside the scanned packages from keeper code: `C16.table_mapArgsExternal`.
  Why the shape matters: `C16.appendInOrder_order_dependent`, `C16.firstMatch_order_dependent` (the two loop shapes
  a careless edit introduces ARE order dependent on every map with two entries).
  A SORT whose comparison has ties re-introduces the order of its input: every sort call in consensus code
  (`Gen.Determinism.sortSites`) has a deterministic input order or a total comparison
    - `C16.table_sortSites_reviewed`, `C16.table_sortSites_safe`, `C16.table_sortSites_text`
    - `x/liquidity/amm/util.go` `SortOrders` (`sort.SliceStable` by `HasPriority`) → `C16.site_SortOrders_perm_invariant`
      (`HasPriority` is a strict total order on distinct (kind, id): `SortOrders.hasPriority_total`), contract inhabited:
      `C16.isSort_goSortStable`; without the tie-break it IS order dependent: `C16.sortOrders_amountOnly_order_dependent`
  no `reflect` map iteration, no `sync.Map`: `C16.table_reflectUses`, `C16.table_syncUses`
* "regardless of … goroutine scheduling": `C16.table_goStatements`, `C16.table_selectStmts`, `C16.table_chanOps`,
  `C16.table_syncUses`
* "regardless of … wall-clock time": `C16.table_wallClockUses` (⊆ reviewed test-fixture allow-list; vocabulary: time.Now,
  Since, Until, After, AfterFunc, Tick, Sleep, NewTimer, NewTicker), `C16.table_zoneUses` (the machine's time zone),
  `C16.table_taintedCallers` (nothing else reaches those functions)
* "regardless of process": `C16.table_randUses`, `C16.table_envUses` (os.… / runtime.… ⊆ one reviewed `init`),
  `C16.table_unsafeUses`, `C16.no_mutable_package_state` + `C16.table_mutablePackageState_size` (no memo / counter / cache
  in a package-level variable: nothing survives an application instance except the stores); floating point (formatting /
  parsing / math) only at reviewed, pinned places: `C16.table_floatUses`, `C16.table_floatUses_size`
* "byte-identical … transaction results": tested, not proved — harness monitor `results_equal` (tx code, data, gas, events
  with attribute order, across 5-6 replicas), next to `replay_equal` (state, balances, app hash)
* the extractor saw the tree: `C16.table_scan_coverage`, `C16.table_spot_entries`, `C16.table_spot_entries_vocabulary`

Partial: the Go scheduler and runtime, the SDK / CometBFT / IAVL / wasm code and float arithmetic are outside the
model; `sdkmath.Int` accumulators are unbounded in the `DistributeOrderAmountToOrders` model. The replay comparison
(harness `TestC16`, monitors `replay_equal`, `results_equal`, `site_stable`) is a test; Go's sort algorithms are trusted to be
deterministic functions of their input.
-/
namespace Comdex.C16
open Comdex.MapLoops
open Comdex.Gen

/-! ## Per-site theorems -/

/-- `App.ModuleAccountAddrs`: whatever order the runtime enumerates `ModuleAccountsPermissions()` in, the slice
after `sort.Strings` is the same — for EVERY sort function meeting the contract `IsSort` (result is a rearrangement
and in order). Hypothesis checked in the code: the comparison is on the whole element (`sort.Strings`: byte-wise
`<` on the strings themselves), which is antisymmetric, so no two distinct elements compare equal. -/
theorem site_ModuleAccountAddrs_perm_invariant (sort : List String → List String)
    (hs : IsSort (fun a b : String => a ≤ b) sort) (l l' : List (String × List String)) (h : l.Perm l') :
    ModuleAccountAddrs.observable sort (runLoop ModuleAccountAddrs.body [] l)
      = ModuleAccountAddrs.observable sort (runLoop ModuleAccountAddrs.body [] l') := by
  have e : ∀ l : List (String × List String), runLoop ModuleAccountAddrs.body [] l = l.map Prod.fst := fun l =>
    (foldl_append_map (fun e : String × List String => e.1) l []).trans (List.nil_append _)
  simp only [ModuleAccountAddrs.observable, e]
  exact sort_eq_of_perm (fun a b => String.le_antisymm) hs (h.map _)

/-- … and hence the returned `accounts` map (as a finite function), for every address derivation `addr` -/
theorem site_ModuleAccountAddrs_accounts_perm_invariant (sort : List String → List String)
    (hs : IsSort (fun a b : String => a ≤ b) sort) (addr : String → String)
    (l l' : List (String × List String)) (h : l.Perm l') :
    ModuleAccountAddrs.accounts addr (ModuleAccountAddrs.observable sort (ModuleAccountAddrs.collect l))
      = ModuleAccountAddrs.accounts addr (ModuleAccountAddrs.observable sort (ModuleAccountAddrs.collect l')) := by
  have := site_ModuleAccountAddrs_perm_invariant sort hs l l' h
  simp only [ModuleAccountAddrs.collect]
  rw [this]

/-- non-vacuity: the theorem applied to two real iteration orders, with the executable sort -/
example : ModuleAccountAddrs.observable ModuleAccountAddrs.goSortStrings
      (ModuleAccountAddrs.collect [("mint", ["minter"]), ("bonded", []), ("gov", ["burner"])])
    = ModuleAccountAddrs.observable ModuleAccountAddrs.goSortStrings
      (ModuleAccountAddrs.collect [("bonded", []), ("mint", ["minter"]), ("gov", ["burner"])]) :=
  site_ModuleAccountAddrs_perm_invariant _ isSort_goSortStrings _ _ (List.Perm.swap _ _ _)
example : ModuleAccountAddrs.collect [("mint", ["minter"]), ("bonded", [])]
    ≠ ModuleAccountAddrs.collect [("bonded", []), ("mint", ["minter"])] := by decide +kernel
/-- the contract is satisfiable (non-vacuity of `hs`) -/
example : IsSort (fun a b : String => a ≤ b) ModuleAccountAddrs.goSortStrings := isSort_goSortStrings

/-- `OrderBook.String`: the prices handed to the renderer after `sort.Slice(prices, GT)` do not depend on the
iteration order of `priceSet`. The comparison is on the whole element (a `LegacyDec` value), antisymmetric. -/
theorem site_OrderBookString_perm_invariant (sort : List Int → List Int)
    (hs : IsSort OrderBookString.le sort) (l l' : List (String × Int)) (h : l.Perm l') :
    OrderBookString.observable sort (runLoop OrderBookString.body [] l)
      = OrderBookString.observable sort (runLoop OrderBookString.body [] l') := by
  have e : ∀ l : List (String × Int), runLoop OrderBookString.body [] l = l.map Prod.snd := fun l =>
    (foldl_append_map (fun e : String × Int => e.2) l []).trans (List.nil_append _)
  simp only [OrderBookString.observable, e]
  exact sort_eq_of_perm (fun a b hab hba => by simp only [OrderBookString.le] at hab hba; omega) hs (h.map _)

example : OrderBookString.observable OrderBookString.goSortDesc
      (OrderBookString.collect [("1.0", 1000), ("1.2", 1200), ("0.9", 900)])
    = OrderBookString.observable OrderBookString.goSortDesc
      (OrderBookString.collect [("1.2", 1200), ("1.0", 1000), ("0.9", 900)]) :=
  site_OrderBookString_perm_invariant _ isSort_goSortDesc _ _ (List.Perm.swap _ _ _)
example : OrderBookString.collect [("1.0", 1000), ("1.2", 1200)] ≠ OrderBookString.collect [("1.2", 1200), ("1.0", 1000)] := by
  decide
example : IsSort OrderBookString.le OrderBookString.goSortDesc := isSort_goSortDesc

set_option exponentiation.threshold 400

/-- closed form behind the next theorem: the checked `LegacyDec` sum over positive values panics iff the total
needs more than 315 bits, and otherwise IS the total -/
theorem swapFeeTotal_closed_form (l : List (Nat × Int)) (hp : SwapFeeTotal.AllPositive l) :
    SwapFeeTotal.total l = if Dec.fits (sumSnd l) = true then some (sumSnd l) else none := by
  have := foldl_body_closed l (fun e he => Int.le_of_lt (hp e he)) 0 (Int.le_refl 0) (by decide)
  simpa [SwapFeeTotal.total, runLoop, Dec.zero] using this

/-- `TransferFundsForSwapFeeDistribution`: `totalLiquidity` (the panic outcome included) does not depend on the
iteration order of `poolLiquidityMap`. Hypothesis checked in the code: only positive values are stored
(pool.go: `if !totalValue.IsPositive() { return … }` before `poolLiquidityMap[pool.Id] = totalValue`). -/
theorem site_TransferFundsForSwapFeeDistribution_perm_invariant (l l' : List (Nat × Int))
    (hp : SwapFeeTotal.AllPositive l) (h : l.Perm l') :
    SwapFeeTotal.observable (runLoop SwapFeeTotal.body (some Dec.zero) l)
      = SwapFeeTotal.observable (runLoop SwapFeeTotal.body (some Dec.zero) l') := by
  have hp' : SwapFeeTotal.AllPositive l' := fun e he => hp e (h.mem_iff.mpr he)
  have e1 := swapFeeTotal_closed_form l hp
  have e2 := swapFeeTotal_closed_form l' hp'
  simp only [SwapFeeTotal.total] at e1 e2
  simp only [SwapFeeTotal.observable, e1, e2, sumSnd_perm h]

example : SwapFeeTotal.total [(1, 40), (2, 40), (3, 20)] = some 100 := by decide +kernel
example : SwapFeeTotal.AllPositive [(1, 40), (2, 40), (3, 20)] := by simp [SwapFeeTotal.AllPositive]
/-- the panic branch is reachable in the model (two values of 314 bits each) -/
example : SwapFeeTotal.total [(1, 2 ^ 314), (2, 2 ^ 314)] = none := by decide +kernel

/-- `DistributeOrderAmountToOrders` (final loop): the mutated order objects and the returned `quoteCoinDiff` — or the
panic — do not depend on the iteration order of `matchedAmtByOrder`. Hypothesis = a fact about Go maps: keys (order
object identities) are pairwise distinct; `FillOrder` touches only the order that is the key. -/
theorem site_DistributeOrderAmountToOrders_perm_invariant {κ : Type} [DecidableEq κ] (price : Dec)
    (orders : κ → FillOrders.Order) (l l' : List (κ × Int)) (hd : DistinctKeys l) (h : l.Perm l') :
    FillOrders.observable (runLoop (FillOrders.body price) (some { orders := orders, quoteCoinDiff := 0 }) l)
      = FillOrders.observable (runLoop (FillOrders.body price) (some { orders := orders, quoteCoinDiff := 0 }) l') := by
  congr 1
  apply runLoop_perm_of_comm _ h
  intro x hx y hy z
  by_cases hxy : x = y
  · subst hxy; rfl
  · apply body_comm
    intro hk
    apply hxy
    exact eq_of_mem_of_distinctKeys hd hx hy hk

/-- non-vacuity: two sell orders and a buy order filled in two different orders give the same books -/
example :
    let os : Nat → FillOrders.Order := fun k =>
      if k = 0 then { isBuy := false, offerCoinAmt := 500, openAmt := 500, paid := 0, received := 0 }
      else if k = 1 then { isBuy := false, offerCoinAmt := 700, openAmt := 700, paid := 0, received := 0 }
      else { isBuy := true, offerCoinAmt := 3000, openAmt := 900, paid := 0, received := 0 }
    let p : Dec := 2 * Dec.P
    ((FillOrders.run p os [(0, 100), (1, 300), (2, 50)]).map fun s => (s.orders 0, s.orders 1, s.orders 2, s.quoteCoinDiff))
      = ((FillOrders.run p os [(2, 50), (1, 300), (0, 100)]).map fun s => (s.orders 0, s.orders 1, s.orders 2, s.quoteCoinDiff))
    ∧ (FillOrders.run p os [(0, 100), (1, 300), (2, 50)]).map (·.quoteCoinDiff) = some (-700) := by decide +kernel
/-- the panic branch is reachable: filling more than the open amount -/
example : (FillOrders.run (κ := Nat) (2 * Dec.P)
    (fun _ => { isBuy := false, offerCoinAmt := 5, openAmt := 5, paid := 0, received := 0 }) [(0, 6)]).isNone = true := by
  decide

/-! ## Why the body shape is part of a site's key: the shapes an edit typically introduces are order dependent -/

/-- "collect the keys into a slice and use it unsorted": two iteration orders of any map with two entries give
different slices (hence different sequences of state writes / transfers) -/
theorem appendInOrder_order_dependent {κ ν : Type} (k1 k2 : κ) (v1 v2 : ν) (hne : k1 ≠ k2) :
    [(k1, v1), (k2, v2)].Perm [(k2, v2), (k1, v1)] ∧
    runLoop appendInOrder [] [(k1, v1), (k2, v2)] ≠ runLoop appendInOrder [] [(k2, v2), (k1, v1)] := by
  refine ⟨List.Perm.swap _ _ _, ?_⟩
  simp [runLoop, appendInOrder, hne]

/-- "return the first entry that satisfies p": order dependent as soon as two entries satisfy it -/
theorem firstMatch_order_dependent {κ ν : Type} (p : ν → Bool) (k1 k2 : κ) (v1 v2 : ν) (hne : k1 ≠ k2)
    (h1 : p v1 = true) (h2 : p v2 = true) :
    runLoop (firstMatch p) none [(k1, v1), (k2, v2)] ≠ runLoop (firstMatch p) none [(k2, v2), (k1, v1)] := by
  simp [runLoop, firstMatch, h1, h2, hne]

/-! ## Sort sites: a comparison with ties on an order that came out of a map is nondeterministic -/

/-- `SortOrders` (`sort.SliceStable(orders, HasPriority)`, x/liquidity/amm/util.go:100): for EVERY sort that meets the
contract (output is a rearrangement; no element is preceded by one it has strict priority over — true of stable and
unstable sorts alike), on orders with pairwise distinct (kind, id) the output does not depend on the input order.
`HasPriority` is a strict TOTAL order there (`hasPriority_total`), so the remainder units handed out by
`DistributeOrderAmountToOrders` go to the same orders whatever order the batch was collected in. -/
theorem site_SortOrders_perm_invariant (sort : List SortOrders.Key → List SortOrders.Key)
    (hs : IsSort SortOrders.notAfter sort) (l l' : List SortOrders.Key)
    (hd : (l.map SortOrders.ident).Nodup) (h : l.Perm l') : sort l = sort l' := by
  have p1 := hs.perm l
  have p2 := hs.perm l'
  refine List.Perm.eq_of_pairwise (le := SortOrders.notAfter) ?_ (hs.sorted l) (hs.sorted l') ((p1.trans h).trans p2.symm)
  intro a b ha hb hab hba
  have ha' : a ∈ l := p1.mem_iff.mp ha
  have hb' : b ∈ l := h.mem_iff.mpr (p2.mem_iff.mp hb)
  by_cases hi : SortOrders.ident a = SortOrders.ident b
  · exact eq_of_mem_of_nodup_map SortOrders.ident hd ha' hb' hi
  · rcases SortOrders.hasPriority_total a b hi with h1 | h1
    · simp [SortOrders.notAfter, h1] at hba
    · simp [SortOrders.notAfter, h1] at hab

/-- the contract is met by the executable stable sort (non-vacuity of `hs`) -/
theorem isSort_goSortStable : IsSort SortOrders.notAfter SortOrders.goSortStable where
  perm l := List.mergeSort_perm l _
  sorted l := by
    have h := List.pairwise_mergeSort (le := fun a b : SortOrders.Key => !SortOrders.hasPriority b a)
      (fun a b c hab hbc => by
        simp only [Bool.not_eq_true'] at *
        exact SortOrders.notAfter_trans a b c hab hbc)
      (fun a b => by
        simp only [Bool.or_eq_true, Bool.not_eq_true']
        cases hba : SortOrders.hasPriority b a
        · exact Or.inl rfl
        · exact Or.inr (SortOrders.hasPriority_asymm b a hba)) l
    exact h.imp (fun hab => by simpa [SortOrders.notAfter] using hab)

/-- non-vacuity: three user orders and a pool order with tied amounts, collected in two different orders -/
example : SortOrders.goSortStable [⟨500, false, 12⟩, ⟨500, true, 2⟩, ⟨700, false, 13⟩, ⟨500, false, 11⟩]
    = SortOrders.goSortStable [⟨500, true, 2⟩, ⟨500, false, 11⟩, ⟨500, false, 12⟩, ⟨700, false, 13⟩] :=
  site_SortOrders_perm_invariant _ isSort_goSortStable _ _ (by decide) (by decide)
/-- the tie-break is used: equal amounts, user before pool, ascending ids -/
example : SortOrders.hasPriority ⟨500, false, 11⟩ ⟨500, false, 12⟩ = true ∧ SortOrders.hasPriority ⟨500, false, 12⟩ ⟨500, true, 2⟩ = true
    ∧ SortOrders.hasPriority ⟨500, true, 2⟩ ⟨500, true, 3⟩ = true ∧ SortOrders.hasPriority ⟨700, true, 9⟩ ⟨500, false, 1⟩ = true := by decide

/-- … and WITHOUT the tie-break (amount only — `BaseOrder.HasPriority`, what dropping the `switch` leaves) the sort is
order dependent on every pair of distinct orders with equal amounts: a stable sort returns each input unchanged -/
theorem sortOrders_amountOnly_order_dependent (a b : SortOrders.Key) (hne : a ≠ b) (heq : a.amount = b.amount) :
    [a, b].Perm [b, a] ∧ SortOrders.goSortStableAmountOnly [a, b] ≠ SortOrders.goSortStableAmountOnly [b, a] := by
  refine ⟨List.Perm.swap _ _ _, ?_⟩
  have e1 : SortOrders.goSortStableAmountOnly [a, b] = [a, b] := by
    simp [SortOrders.goSortStableAmountOnly, List.mergeSort, List.MergeSort.Internal.splitInTwo,
      SortOrders.hasPriorityAmountOnly, heq]
  have e2 : SortOrders.goSortStableAmountOnly [b, a] = [b, a] := by
    simp [SortOrders.goSortStableAmountOnly, List.mergeSort, List.MergeSort.Internal.splitInTwo,
      SortOrders.hasPriorityAmountOnly, heq]
  rw [e1, e2]
  intro h
  exact hne (List.cons.inj h).1

example : SortOrders.goSortStableAmountOnly [⟨500, false, 11⟩, ⟨500, false, 12⟩]
    ≠ SortOrders.goSortStableAmountOnly [⟨500, false, 12⟩, ⟨500, false, 11⟩] :=
  (sortOrders_amountOnly_order_dependent ⟨500, false, 11⟩ ⟨500, false, 12⟩ (by decide) rfl).2

/-! ## Table obligations over the regenerated facts (`extract/determinism` → `Gen/Determinism.lean`) -/

/-- the sites that have a theorem above: (file, enclosing function, normalized body shape) — no line numbers -/
def provenSites : List (String × String × String) := [
  ("app/app.go", "App.ModuleAccountAddrs", "append:sorted(sort.Strings)"),
  ("x/liquidity/amm/match.go", "DistributeOrderAmountToOrders", "accum+call:method"),
  ("x/liquidity/amm/orderbook.go", "OrderBook.String", "append:sorted(sort.Slice@stringRepresentation)"),
  ("x/liquidity/keeper/pool.go", "Keeper.TransferFundsForSwapFeeDistribution", "accum+call:method")]

/-- every map range in consensus code is one of the proven sites, with the body shape that was proved -/
theorem table_mapRangeSites_proven : ∀ s ∈ Determinism.mapRangeSites, s.key ∈ provenSites := by decide +kernel

/-- one range per proven site (a second map range added to a proven function shows up here) -/
theorem table_mapRangeSites_size : Determinism.mapRangeSites.length = 4 := by decide +kernel

/-- the loops are textually the ones that were modelled (comments / layout / line numbers do not matter; any edit of
a loop statement does, and must be re-modelled) -/
def modelledLoops : List (String × String) := [
  ("App.ModuleAccountAddrs", "for name := range a.ModuleAccountsPermissions() { names = append(names, name) }"),
  ("DistributeOrderAmountToOrders",
    "for order, matchedAmt := range matchedAmtByOrder { quoteCoinDiff = quoteCoinDiff.Add(FillOrder(order, matchedAmt, price)) }"),
  ("OrderBook.String", "for _, price := range priceSet { prices = append(prices, price) }"),
  ("Keeper.TransferFundsForSwapFeeDistribution",
    "for _, pLiquidity := range poolLiquidityMap { totalLiquidity = totalLiquidity.Add(pLiquidity) }")]

theorem table_mapRangeSites_text : Determinism.mapRangeSites.map (·.text) = modelledLoops := by decide +kernel

/-- every theorem still speaks about a loop that exists -/
theorem table_provenSites_live : ∀ k ∈ provenSites, k ∈ Determinism.mapRangeSites.map (·.key) := by decide +kernel

/-- no goroutine is started in consensus code -/
theorem table_goStatements : Determinism.goStatements = [] := by decide +kernel
theorem table_selectStmts : Determinism.selectStmts = [] := by decide +kernel
theorem table_chanOps : Determinism.chanOps = [] := by decide +kernel

/-- Reviewed wall-clock uses, none on a consensus path:
* `app/test_helpers.go` `SetupWithGenesisValSet` (×2) — test fixture: genesis time / first header of a throw-away chain
  (NB: this is why the C16 harness builds its own genesis instead of calling `app.Setup`);
* `app/test_suite.go` `KeeperTestHelper.Setup` — keeper test suite fixture;
* `types/utils.go` `GenAndDeliverTx` — seeds the memo generator of a *simulation* transaction.
Block time in keepers and in `telemetry.ModuleMeasureSince` is `ctx.BlockTime()` (header time). -/
def allowedWallClock : List (String × String × String) := [
  ("app/test_helpers.go", "SetupWithGenesisValSet", "time.Now"),
  ("app/test_suite.go", "KeeperTestHelper.Setup", "time.Now"),
  ("types/utils.go", "GenAndDeliverTx", "time.Now")]

theorem table_wallClockUses : ∀ u ∈ Determinism.wallClockUses, u.key ∈ allowedWallClock := by decide +kernel

/-- Reviewed uses of `math/rand`: all take the generator from the caller (simulation / tests), none has a caller
in the scanned code other than each other (`table_taintedCallers`). -/
def allowedRand : List (String × String) := [
  ("types/utils.go", "RandomInt"), ("types/utils.go", "RandomDec"), ("types/utils.go", "GenAndDeliverTx"),
  ("types/utils.go", "ShuffleSimAccounts"),
  ("x/liquidity/amm/tick.go", "TickPrecision.RandomTick"), ("x/liquidity/amm/tick.go", "RandomTick")]

theorem table_randUses : ∀ u ∈ Determinism.randUses, (u.file, u.fn) ∈ allowedRand := by decide +kernel

/-- no keeper, handler, ABCI hook or wasm binding file uses randomness -/
theorem table_randUses_not_in_keepers :
    ∀ u ∈ Determinism.randUses, u.file = "types/utils.go" ∨ u.file = "x/liquidity/amm/tick.go" := by decide +kernel

/-- the only scanned functions that (transitively) reach a user of the wall clock, of rand, of the environment (os.…)
or of the machine's time zone are test fixtures and simulation helpers -/
def allowedTainted : List (String × String) := [
  ("app/test_helpers.go", "Setup"), ("app/test_suite.go", "KeeperTestHelper.SetupTestForInitGenesis"),
  ("app/test_suite.go", "KeeperTestHelper.BeginNewBlock"),
  ("types/utils.go", "GenAndDeliverTxWithFees")]

theorem table_taintedCallers : ∀ u ∈ Determinism.taintedCallers, (u.file, u.fn) ∈ allowedTainted := by decide +kernel

/-- Environment of the process / machine (os.Getenv … os.UserHomeDir, os.ReadFile …, runtime.NumCPU / GOMAXPROCS / GOOS …):
one reviewed use — `app/app.go` `init`: `os.UserHomeDir()` for `DefaultNodeHome` (where the node keeps its data
directory; not read by any keeper, handler or ABCI hook — an `init` function cannot be called, and no scanned function
reaches an environment user: `table_taintedCallers`). -/
def allowedEnv : List (String × String × String) := [("app/app.go", "init", "os.UserHomeDir")]

theorem table_envUses : ∀ u ∈ Determinism.envUses, u.key ∈ allowedEnv := by decide +kernel
theorem table_unsafeUses : Determinism.unsafeUses = [] := by decide +kernel

/-- The machine's time zone (time.Local, time.LoadLocation, time.Unix / UnixMilli / UnixMicro — whose result is in the
LOCAL zone —, Time.Local / Zone / Location): two test fixtures only (`time.Unix(0, 0)` as the unbonding time of a
fixture validator). Header time (`ctx.BlockTime()`) is UTC. -/
def allowedZone : List (String × String × String) := [
  ("app/test_helpers.go", "genesisStateWithValSet", "time.Unix"),
  ("app/test_suite.go", "KeeperTestHelper.SetupValidator", "time.Unix")]

theorem table_zoneUses : ∀ u ∈ Determinism.zoneUses, u.key ∈ allowedZone := by decide +kernel

/-- `reflect`: the only user is `Keeper.UpdateGenericParams` (x/liquidity/keeper/params.go: sets ONE struct field by name,
inside a loop over the `keys` SLICE of the governance message); in particular no `MapRange` / `MapKeys` / `MapIter`
(random order) anywhere. -/
def allowedReflect : List String := ["reflect.ValueOf", "reflect.Value.Elem", "reflect.Value.FieldByName", "reflect.Value.Set"]

theorem table_reflectUses :
    ∀ u ∈ Determinism.reflectUses, u.file = "x/liquidity/keeper/params.go" ∧ u.fn = "Keeper.UpdateGenericParams" ∧ u.what ∈ allowedReflect := by
  decide +kernel

/-- no `sync.Map` (unordered `Range`), no mutex / wait group / atomic: there is no concurrency to protect -/
theorem table_syncUses : Determinism.syncUses = [] := by decide +kernel

/-- Floating point in consensus code — reviewed, pinned (a new use has no entry):
* `x/liquidity/amm/tick.go` `TickToIndex` / `TickFromIndex`: `int(math.Pow10(prec))`, `prec` = tick precision (4): exact;
* `x/liquidity/keeper/rewards.go` `GetFarmingRewardsData` (:267, :290): `int64(math.Floor(dec.MustFloat64()))` — IEEE
  conversion + floor, no arithmetic in float: bit-identical on every platform Go supports;
* `x/rewards/keeper/iter.go` `CalculationOfRewards` (:195-201): `math.Pow` on float64, one multiplication, one
  subtraction, `strconv.FormatFloat(…, 'f', 18, 64)` parsed back into a `Dec`. `math.Pow` is pure Go (no assembly, no
  libm) and `FormatFloat` is exact shortest-decimal: identical across processes and across amd64 machines (replayed);
  across ARCHITECTURES the compiler may fuse `x*y+z` inside `math.Pow` (arm64, ppc64, s390x FMA) — a documented residual
  risk outside this property's list of causes (process, scheduling, map order, wall clock);
* `x/rewards/types/params.go`: the constant `float64(1)`. -/
def allowedFloat : List (String × String × String) := [
  ("x/liquidity/amm/tick.go", "TickToIndex", "math.Pow10"),
  ("x/liquidity/amm/tick.go", "TickFromIndex", "math.Pow10"),
  ("x/liquidity/keeper/rewards.go", "Keeper.GetFarmingRewardsData", "math.Floor"),
  ("x/liquidity/keeper/rewards.go", "Keeper.GetFarmingRewardsData", "method:cosmossdk.io/math.LegacyDec.MustFloat64"),
  ("x/rewards/keeper/iter.go", "Keeper.CalculationOfRewards", "math.Pow"),
  ("x/rewards/keeper/iter.go", "Keeper.CalculationOfRewards", "method:cosmossdk.io/math.LegacyDec.MustFloat64"),
  ("x/rewards/keeper/iter.go", "Keeper.CalculationOfRewards", "strconv.FormatFloat"),
  ("x/rewards/types/params.go", "<init>", "conv:float64")]

theorem table_floatUses : ∀ u ∈ Determinism.floatUses, u.key ∈ allowedFloat := by decide +kernel
theorem table_floatUses_size : Determinism.floatUses.length = 12 := by decide +kernel

/-! ### Sort sites -/

/-- every sort call in consensus code, with the origin of its input order as computed by the extractor -/
def reviewedSortSites : List (String × String × String × String) := [
  ("app/app.go", "App.ModuleAccountAddrs", "sort.Strings", "maprange"),
  ("x/liquidity/amm/orderbook.go", "OrderBook.stringRepresentation", "sort.Slice", "param<-maprange(OrderBook.String)"),
  ("x/liquidity/amm/util.go", "SortOrders", "sort.SliceStable", "param"),
  ("x/liquidity/types/orderbook.go", "MakeOrderBookPairResponse", "sort.Slice", "param")]

theorem table_sortSites_reviewed : Determinism.sortSites.map (·.key) = reviewedSortSites := by decide +kernel

/-- comparisons that are TOTAL on the elements (whole-element comparison, antisymmetric): proved order independent
above (`site_ModuleAccountAddrs_perm_invariant`, `site_OrderBookString_perm_invariant`) -/
def totalComparisons : List (String × String) := [
  ("App.ModuleAccountAddrs", "<whole element>"),
  ("OrderBook.stringRepresentation", "{ return prices[i].GT(prices[j]) }")]

/-- for each sort site: the input order is deterministic (it does not come out of a map: a parameter no scanned caller
fills from a map range, or a local slice not appended to in a map range — and by `table_mapRangeSites_proven` no map
range leaks its order into any slice, Go's pdqsort / insertion sort being deterministic algorithms), OR the
comparison is total on the elements. -/
theorem table_sortSites_safe :
    ∀ s ∈ Determinism.sortSites, s.origin = "param" ∨ s.origin = "local" ∨ (s.fn, s.less) ∈ totalComparisons := by
  decide +kernel

/-- the comparisons are textually the ones that were reviewed / modelled (`SortOrders.hasPriority` = the three
`HasPriority` methods; an edit — e.g. dropping the `OrderID` / `PoolID` tie-break — changes the text) -/
def modelledComparisons : List (String × String × String) := [
  ("App.ModuleAccountAddrs", "<whole element>", ""),
  ("OrderBook.stringRepresentation", "{ return prices[i].GT(prices[j]) }", ""),
  ("SortOrders", "{ return orders[i].HasPriority(orders[j]) }",
    "BaseOrder.HasPriority{ return order.Amount.GT(other.GetAmount()) } | PoolOrder.HasPriority{ if !order.Amount.Equal(other.GetAmount()) { return order.BaseOrder.HasPriority(other) } switch other := other.(type) { case *UserOrder: return false case *PoolOrder: return order.PoolID < other.PoolID default: panic(fmt.Errorf(\"invalid order type: %T\", other)) } } | UserOrder.HasPriority{ if !order.Amount.Equal(other.GetAmount()) { return order.BaseOrder.HasPriority(other) } switch other := other.(type) { case *UserOrder: return order.OrderID < other.OrderID case *PoolOrder: return true default: panic(fmt.Errorf(\"invalid order type: %T\", other)) } }"),
  ("MakeOrderBookPairResponse", "{ return configs[i].PriceUnitPower < configs[j].PriceUnitPower }", "")]

theorem table_sortSites_text :
    Determinism.sortSites.map (fun s => (s.fn, s.less, s.callees)) = modelledComparisons := by decide +kernel

/-- Maps handed to code outside the scanned packages: only application wiring in `app/` (SDK constructors and
`module.Manager` functions, which order by `OrderInitGenesis`/sorted keys; `encoding/json` and `fmt` print maps with
sorted keys) — never from `x/…` or `types/…`. -/
def allowedMapCallees : List String := [
  "encoding/json.MarshalIndent", "fmt.Sprintf",
  "github.com/cosmos/cosmos-sdk/baseapp.MountKVStores", "github.com/cosmos/cosmos-sdk/baseapp.MountMemoryStores",
  "github.com/cosmos/cosmos-sdk/baseapp.MountTransientStores",
  "github.com/cosmos/cosmos-sdk/runtime/services.NewAutoCLIQueryService",
  "github.com/cosmos/cosmos-sdk/types/module.InitGenesis", "github.com/cosmos/cosmos-sdk/types/module.RunMigrations",
  "github.com/cosmos/cosmos-sdk/x/auth/keeper.NewAccountKeeper", "github.com/cosmos/cosmos-sdk/x/upgrade/keeper.NewKeeper",
  "github.com/cosmos/cosmos-sdk/x/upgrade/keeper.SetModuleVersionMap"]

theorem table_mapArgsExternal :
    ∀ u ∈ Determinism.mapArgsExternalSummary, u.1 = "app" ∧ u.2 ∈ allowedMapCallees := by decide +kernel

/-- Package-level variables written from non-init code. Reviewed allow-list — one kind of entry only:
`msgservice.RegisterMsgServiceDesc(registry, &_Msg_serviceDesc)` in each module's `RegisterInterfaces`: the address of
the protobuf-generated gRPC service descriptor is handed to the SDK at application wiring; the SDK reads it (method
names → request types) and never writes it; not reachable from a message handler or a begin/end blocker. -/
def allowedPackageStateWrites : List (String × String × String) := [
  ("x/asset/types/codec.go", "RegisterInterfaces", "x/asset/types._Msg_serviceDesc:addr"),
  ("x/auction/types/codec.go", "RegisterInterfaces", "x/auction/types._Msg_serviceDesc:addr"),
  ("x/auctionsV2/types/codec.go", "RegisterInterfaces", "x/auctionsV2/types._Msg_serviceDesc:addr"),
  ("x/collector/types/codec.go", "RegisterInterfaces", "x/collector/types._Msg_serviceDesc:addr"),
  ("x/esm/types/codec.go", "RegisterInterfaces", "x/esm/types._Msg_serviceDesc:addr"),
  ("x/lend/types/codec.go", "RegisterInterfaces", "x/lend/types._Msg_serviceDesc:addr"),
  ("x/liquidation/types/codec.go", "RegisterInterfaces", "x/liquidation/types._Msg_serviceDesc:addr"),
  ("x/liquidationsV2/types/codec.go", "RegisterInterfaces", "x/liquidationsV2/types._Msg_serviceDesc:addr"),
  ("x/liquidity/types/codec.go", "RegisterInterfaces", "x/liquidity/types._Msg_serviceDesc:addr"),
  ("x/locker/types/codec.go", "RegisterInterfaces", "x/locker/types._Msg_serviceDesc:addr"),
  ("x/rewards/types/codec.go", "RegisterInterfaces", "x/rewards/types._Msg_serviceDesc:addr"),
  ("x/tokenmint/types/codec.go", "RegisterInterfaces", "x/tokenmint/types._Msg_serviceDesc:addr"),
  ("x/vault/types/codec.go", "RegisterInterfaces", "x/vault/types._Msg_serviceDesc:addr")]

/-- "regardless of process / fresh in-process instances": no state outside the stores. The table of writes to
package-level variables (assignment, op=, increment, decrement, field / element write, delete, address-of, pointer-receiver method of a
comdex or sync type) from non-init functions of consensus packages, minus the reviewed allow-list, is empty. Such a
variable (a memo, a counter, a cache) outlives an application instance and makes a replay depend on what the process
computed before. -/
theorem no_mutable_package_state :
    Determinism.mutablePackageState.filter (fun u => !(allowedPackageStateWrites.contains u.key)) = [] := by
  decide +kernel

/-- pinned: 13 writes (one per module's `RegisterInterfaces`), out of 787 package-level variables seen -/
theorem table_mutablePackageState_size :
    Determinism.mutablePackageState.length = 13 ∧ Determinism.packageVars ≥ 700 := by decide +kernel

/-- the extractor really walked the tree (an extractor that silently returns nothing fails here) -/
theorem table_scan_coverage :
    Determinism.scannedPackages ≥ 80 ∧ Determinism.scannedFiles ≥ 400 ∧ Determinism.scannedFuncs ≥ 3000 := by decide +kernel

theorem table_spot_entries :
    ("x/liquidity/amm/match.go", "DistributeOrderAmountToOrders", "accum+call:method") ∈ Determinism.mapRangeSites.map (·.key)
    ∧ ("app/test_helpers.go", "SetupWithGenesisValSet", "time.Now") ∈ Determinism.wallClockUses.map (·.key)
    ∧ ("x/liquidity/amm/tick.go", "RandomTick", "math/rand.Intn") ∈ Determinism.randUses.map (·.key)
    ∧ ("types/utils.go", "GenAndDeliverTxWithFees", "GenAndDeliverTx") ∈ Determinism.taintedCallers.map (·.key)
    ∧ Determinism.mapArgsExternal.length ≥ 30
    ∧ ("app", "github.com/cosmos/cosmos-sdk/baseapp.MountKVStores") ∈ Determinism.mapArgsExternalSummary := by decide +kernel

/-- … and the tables of the extended vocabulary are populated (float, reflect, environment, time zone, sort sites) -/
theorem table_spot_entries_vocabulary :
    ("x/rewards/keeper/iter.go", "Keeper.CalculationOfRewards", "strconv.FormatFloat") ∈ Determinism.floatUses.map (·.key)
    ∧ ("x/liquidity/keeper/params.go", "Keeper.UpdateGenericParams", "reflect.Value.FieldByName") ∈ Determinism.reflectUses.map (·.key)
    ∧ ("app/app.go", "init", "os.UserHomeDir") ∈ Determinism.envUses.map (·.key)
    ∧ ("app/test_suite.go", "KeeperTestHelper.SetupValidator", "time.Unix") ∈ Determinism.zoneUses.map (·.key)
    ∧ ("x/liquidity/amm/util.go", "SortOrders", "sort.SliceStable", "param") ∈ Determinism.sortSites.map (·.key) := by
  decide +kernel

end Comdex.C16
