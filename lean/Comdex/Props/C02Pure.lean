import Comdex.Gen.Pure
import Comdex.Lemmas.GoSem
import Comdex.Model.Vault
/-!
# C02 — the cross-decimal conversion of the stable-mint path IS the arithmetic of the current Go source

`Gen.Pure.vaultAmountOfOtherToken` is regenerated on every run by `extract/pure` from
`x/vault/keeper/vault.go: GetAmountOfOtherToken`.  The function is "read two asset records, then arithmetic": the two
`k.asset.GetAsset(ctx, id)` reads are declared state reads in the translator's spec — their results (`asset.Decimals`,
`found`) become PARAMETERS of the Lean function (notes/PURE.md "keeper reads become parameters"); `error` results are
`Bool` ("is not nil").  `Vault.otherToken` is the hand-written model (both rates = 1, the stable-mint call) used by the
C02 delivery theorems (`mint_delivers_stable`, `otherToken_nonneg`).

Go function → theorem
* `GetAmountOfOtherToken` → `pure_vaultAmountOfOtherToken_eq_model`: with both assets found and both rates 1, whenever the
  translated function returns it returns no error, the model's token amount and the model's intermediate `t1dAmount`; it
  panics with a division by zero only if `asset1.Decimals = 0` (the model has no such guard: `Dec.quo` by 0 is total in
  Lean; asset decimals are validated positive); 315/256-bit overflow panics of the code have no counterpart in the model.
* `pure_vaultAmountOfOtherToken_not_found`: a missing asset record returns the error and zeros.

Trusted: the translator's reading of Go (incl. the `reads` declaration) and `Base/GoSem.lean`; kernel-checked: the relation.
-/
set_option exponentiation.threshold 512
namespace Comdex.C02
open Comdex Comdex.GoSem

theorem pure_vaultAmountOfOtherToken_eq_model (amt dec1 dec2 : Int) :
    match Gen.Pure.vaultAmountOfOtherToken Dec.one amt Dec.one dec1 true dec2 true with
    | .ok (t1d, tok, err) => err = false ∧ tok = Vault.otherToken amt dec1 dec2 ∧
        t1d = Dec.quo (Dec.mul (Dec.ofInt amt) Dec.one) (Dec.ofInt dec1)
    | .error .panic => dec1 = 0
    | .error .overflow => True := by
  unfold Gen.Pure.vaultAmountOfOtherToken
  simp only [not_true_eq_false, if_false]
  have hone : Dec.one ≠ 0 := by decide
  have hz : intToDec dec1 = 0 ↔ dec1 = 0 := by
    show dec1 * 1000000000000000000 = 0 ↔ dec1 = 0
    omega
  rcases chkDec_cases (Dec.mul (intToDec amt) Dec.one) with h1 | h1 <;> simp only [decMul, h1, ok_bind, error_bind]
  rcases decQuo_cases (Dec.mul (intToDec amt) Dec.one) (intToDec dec1) with ⟨h2z, h2⟩ | ⟨_, h2 | h2⟩ <;>
    simp only [h2, ok_bind, error_bind]
  · exact hz.mp h2z
  rcases decQuo_cases (Dec.quo (Dec.mul (intToDec amt) Dec.one) (intToDec dec1)) Dec.one with ⟨h3z, _⟩ | ⟨_, h3 | h3⟩ <;>
    (try simp only [h3, ok_bind, error_bind])
  · exact absurd h3z hone
  rcases chkDec_cases (Dec.mul (Dec.quo (Dec.quo (Dec.mul (intToDec amt) Dec.one) (intToDec dec1)) Dec.one) (intToDec dec2))
    with h4 | h4 <;> simp only [h4, ok_bind, error_bind]
  rcases chkInt_cases (Dec.truncateInt (Dec.mul (Dec.quo (Dec.quo (Dec.mul (intToDec amt) Dec.one) (intToDec dec1)) Dec.one) (intToDec dec2)))
    with h5 | h5 <;> simp only [decTruncateInt, h5, ok_bind, error_bind]
  exact ⟨rfl, rfl, rfl⟩

theorem pure_vaultAmountOfOtherToken_not_found (rate1 rate2 : Dec) (amt dec1 dec2 : Int) (f2 : Bool) :
    Gen.Pure.vaultAmountOfOtherToken rate1 amt rate2 dec1 false dec2 f2 = .ok (0, 0, true) ∧
    Gen.Pure.vaultAmountOfOtherToken rate1 amt rate2 dec1 true dec2 false = .ok (0, 0, true) := by
  constructor <;> rfl

/-! non-vacuity: 5 units of a 6-decimal asset are 5·10^12 units of an 18-decimal asset; the translation really returns -/
example : Gen.Pure.vaultAmountOfOtherToken Dec.one 5000000 Dec.one 1000000 true 1000000000000000000 true
    = .ok (5000000000000000000, 5000000000000000000, false) := by rfl
example : Vault.otherToken 5000000 1000000 1000000000000000000 = 5000000000000000000 := by rfl
example : Gen.Pure.vaultAmountOfOtherToken Dec.one 5 Dec.one 0 true 1 true = .error .panic := by rfl

end Comdex.C02
