import Comdex.Model.Effects
import Comdex.Gen.Effects_auctionsV2
import Comdex.Gen.Effects_auction
/-!
# C10 — the EFFECT SKELETON of the Dutch auction bid / close paths, pinned

GOLDEN SKELETON (the weaker tie).  The regenerated table (extract/effects, from the Go source on every run) lists for each
entry point the ordered bank calls; the models of C10 (`Model/DutchV2.lean`, `DutchV1.lean`) keep their bank calls inside
the step functions, not as data, and are being extended by another work package — so the regenerated skeleton is compared,
item by item, with the reviewed literals `exp_…` in this file: bank op, ABSTRACT party and denomination texts (argument lists
of calls nested deeper than one level elided, `…`), "only if its own amount is positive", the signature of the path
conditions (polarity + 32-bit hash of the whole normalised condition text, legend below), loop / cache-closure flags.  Amount
expressions are not compared (the C10 correspondence runs do that).  A transfer that moved under another guard, lost or gained
a guard, changed party or denomination, disappeared or appeared makes `c10_pins` fail on the next run, whatever states the
generated population reaches.

Entry points: x/auctionsV2 `PlaceDutchAuctionBid` (bid, settlement and close path of second-generation Dutch auctions, incl. the
lend branch and the keeper incentive), x/auction `PlaceDutchAuctionBid` and `CloseDutchAuction` (first generation).  The
first-generation LEND auctions (`PlaceLendDutchAuctionBid`, `CloseDutchLendAuction`) are extracted too
(`Gen/Effects_auction_lend.lean`, 480 items: they inline most of x/lend and x/liquidation) but NOT pinned here.

| clause | theorem |
|---|---|
| bank skeleton of every entry point = reviewed literal | `c10_pins` |
| number of bank calls per entry point, no bank op the projection does not know, no opaque call | `c10_table` |

## legend of the condition hashes (hash, kind, normalised text; long texts head…hash…tail)

| h | kind | text |
|---|---|---|
| 2699452619 | if | `ite(bid.Amount.GTE(auctionData.DebtToken.Amount), true, false) || !vault.GetAmountOfOtherToken(a…a0e660cb…ionPrice)#2).LTE(auctionData.CollateralToken.Amount)` |
| 1522965022 | if | `!vault.GetAmountOfOtherToken(auctionData.DebtAssetId, ite(liquidationsV2.GetLockedVault(auctionD…5ac69a1e…ionPrice)#2).LTE(auctionData.CollateralToken.Amount)` |
| 35060665 | if | `liquidationsV2.GetAppReserveFunds(auctionData.AppId, auctionData.DebtAssetId).TokenQuantity.Amou…0216fbb9…(auctionData.DebtAssetId).Twa))))#2)).Amount).GTE(0)` |
| 773236523 | pos | `auctionData.DebtToken.Sub(coin(auctionData.DebtToken.Denom, vault.GetAmountOfOtherToken(auctionD…2e16a72b…wa(auctionData.DebtAssetId).Twa))))#2)).Amount.GT(0)` |
| 3747897214 | if | `!isAutoBid` |
| 257021723 | if | `ite(!vault.GetAmountOfOtherToken(auctionData.DebtAssetId, ite(liquidationsV2.GetLockedVault(auct…0f51d71b…DebtAssetId).Twa))))#2, auctionData.DebtToken.Amoun…` |
| 1994310793 | if | `ite(!vault.GetAmountOfOtherToken(auctionData.DebtAssetId, ite(liquidationsV2.GetLockedVault(auct…76dec489…AssetId, auctionData.CollateralTokenAuctionPrice)#2…` |
| 2283529546 | if | `liquidationsV2.GetLockedVault(auctionData.AppId, auctionData.LockedVaultId).InitiatorType == "vault"` |
| 1406206363 | pos | `liquidationsV2.GetLockedVault(auctionData.AppId, auctionData.LockedVaultId).TargetDebt.Sub(coin(…53d1019b…nData.LockedVaultId).FeeToBeCollected)).Amount.GT(0)` |
| 1902970396 | if | `auctionData.CollateralToken.Amount.Sub(ite(!vault.GetAmountOfOtherToken(auctionData.DebtAssetId,…716d061c…ata.BonusAmount, auctionData.CollateralAssetId, auc…` |
| 4031669671 | if | `liquidationsV2.GetLockedVault(auctionData.AppId, auctionData.LockedVaultId).InitiatorType == "external"` |
| 3327513262 | pos | `(liquidationsV2.GetLiquidationWhiteListing(auctionData.AppId).KeeeperIncentive.Mul(sdk.NewDecFro…c655d2ae…ckedVaultId).FeeToBeCollected))).TruncateInt().GT(0)` |
| 3823014216 | if | `liquidationsV2.GetLockedVault(auctionData.AppId, auctionData.LockedVaultId).IsInternalKeeper` |
| 3901108360 | pos | `ite(liquidationsV2.GetLockedVault(auctionData.AppId, auctionData.LockedVaultId).IsInternalKeeper…e8863088…nData.LockedVaultId).FeeToBeCollected)).Amount.GT(0)` |
| 812416793 | if | `liquidationsV2.GetLockedVault(auctionData.AppId, auctionData.LockedVaultId).InitiatorType == "lend"` |
| 1303515621 | if | `true` |
| 2418059476 | pos | `ite(!lend.GetBorrowInterestTracker(liquidationsV2.GetLockedVault(auctionData.AppId, auctionData.…9020a8d4…nalVaultId)).ReservePoolInterest.TruncateInt().GT(0)` |
| 459660253 | pos | `(lend.GetBorrow(liquidationsV2.GetLockedVault(auctionData.AppId, auctionData.LockedVaultId).Orig…1b65dbdd…lVaultId)).ReservePoolInterest)).TruncateInt().GT(0)` |
| 2906957075 | pos | `lend.GetBorrow(liquidationsV2.GetLockedVault(auctionData.AppId, auctionData.LockedVaultId).OriginalVaultId).BridgedAssetAmount.Amount.GT(0)` |
| 3076460308 | pos | `auctionData.DebtToken.Amount.GT(0)` |
| 2357432509 | pos | `vault.GetAmountOfOtherToken(auctionData.DebtAssetId, ite(liquidationsV2.GetLockedVault(auctionDa…8c8390bd…d, auctionData.CollateralTokenAuctionPrice)#2).GT(0)` |
| 1985206634 | pos | `ite(vault.GetAmountOfOtherToken(auction.GetDutchAuction(appID, auctionMappingID, auctionID).Asse…7653d96a…pingID, auctionID).InflowTokenCurrentPrice)#2).GT(0)` |
| 991589844 | pos | `ite(vault.GetAmountOfOtherToken(auction.GetDutchAuction(appID, auctionMappingID, auctionID).Asse…3b1a75d4…onID).OutflowTokenCurrentPrice)#2, bid.Amount).GT(0)` |
| 3282727320 | if | `auction.GetDutchAuction(appID, auctionMappingID, auctionID).InflowTokenCurrentAmount.Add(coin(au…c3aa7198…uctionMappingID, auctionID).InflowTokenTargetAmount)` |
| 1338912237 | pos | `auction.GetDutchAuction(appID, auctionMappingID, auctionID).OutflowTokenCurrentAmount.Sub(coin(a…4fce2ded…flowTokenCurrentPrice)#2, bid.Amount))).Amount.GT(0)` |
| 3230750406 | if | `liquidation.GetLockedVault(auction.GetDutchAuction(appID, auctionMappingID, auctionID).AppId, au…c09156c6…MappingID, auctionID).LockedVaultId).AmountOut.GT(0)` |
| 883620043 | if | `auction.GetDutchAuction(appID, auctionMappingID, auctionID).InflowTokenTargetAmount.Amount.Sub(l…34aaf8cb…appingID, auctionID).LockedVaultId).AmountOut).GT(0)` |
| 1936985961 | if | `auction.GetDutchAuction(appID, auctionMappingID, auctionID).OutflowTokenCurrentAmount.Sub(coin(a…73740f69…uctionID).InflowTokenTargetAmount.Denom, ite(vault.…` |
| 3190515568 | if | `liquidation.GetLockedVault(dutchAuction.AppId, dutchAuction.LockedVaultId).AmountOut.GT(0)` |
| 3237281969 | if | `dutchAuction.InflowTokenTargetAmount.Amount.Sub(liquidation.GetLockedVault(dutchAuction.AppId, dutchAuction.LockedVaultId).AmountOut).GT(0)` |
-/
namespace Comdex.C10
open Comdex.Effects Comdex.Gen.Effects

/-! ## the reviewed literals -/

def exp_auctionsV2_PlaceDutchAuctionBid : List APin := [
  ⟨"SendCoinsFromModuleToModule", "\"liquidationsV2\"", "\"auctionsV2\"", "auctionData.DebtToken.Sub(coin(…)).Denom", true, [(true, 2699452619), (true, 1522965022), (true, 35060665), (true, 773236523)], false, false⟩,
  ⟨"SendCoinsFromAccountToModule", "addr(bidder)", "\"auctionsV2\"", "auctionData.DebtToken.Denom", false, [(true, 2699452619), (true, 3747897214), (true, 257021723)], false, false⟩,
  ⟨"SendCoinsFromModuleToAccount", "\"auctionsV2\"", "addr(bidder)", "auctionData.CollateralToken.Denom", false, [(true, 2699452619), (true, 1994310793)], false, false⟩,
  ⟨"BurnCoins", "\"auctionsV2\"", "", "liquidationsV2.GetLockedVault(auctionData.AppId, auctionData.LockedVaultId).TargetDebt.Sub(coin(…)).Denom", true, [(true, 2699452619), (true, 2283529546), (true, 1406206363)], false, false⟩,
  ⟨"SendCoinsFromModuleToAccount", "\"auctionsV2\"", "addr(liquidationsV2.GetLockedVault(…).Owner)", "auctionData.CollateralToken.Denom", false, [(true, 2699452619), (true, 1902970396)], false, false⟩,
  ⟨"SendCoinsFromModuleToAccount", "\"auctionsV2\"", "addr(liquidationsV2.GetLockedVault(…).InternalKeeperAddress)", "auctionData.DebtToken.Denom", true, [(true, 2699452619), (true, 4031669671), (true, 3327513262)], false, false⟩,
  ⟨"SendCoinsFromModuleToAccount", "\"auctionsV2\"", "addr(liquidationsV2.GetLockedVault(…).ExternalKeeperAddress)", "liquidationsV2.GetLockedVault(auctionData.AppId, auctionData.LockedVaultId).TargetDebt.Sub(coin(…)).Denom", false, [(true, 2699452619), (true, 4031669671)], false, false⟩,
  ⟨"SendCoinsFromModuleToAccount", "\"auctionsV2\"", "addr(liquidationsV2.GetLockedVault(…).InternalKeeperAddress)", "auctionData.DebtToken.Denom", true, [(true, 2699452619), (false, 4031669671), (true, 2283529546), (true, 3823014216), (true, 3327513262)], false, false⟩,
  ⟨"SendCoinsFromModuleToModule", "\"auctionsV2\"", "\"collectorV1\"", "ite(liquidationsV2.GetLockedVault(…).IsInternalKeeper, ite(…), coin(…)).Denom", true, [(true, 2699452619), (false, 4031669671), (true, 2283529546), (true, 3901108360)], false, false⟩,
  ⟨"SendCoinsFromModuleToModule", "\"auctionsV2\"", "lend.GetPool(lend.GetLendPair(…).AssetOutPoolID).ModuleName", "liquidationsV2.GetLockedVault(auctionData.AppId, auctionData.LockedVaultId).TargetDebt.Denom", false, [(true, 2699452619), (false, 4031669671), (false, 2283529546), (true, 812416793)], false, false⟩,
  ⟨"SendCoinsFromModuleToModule", "lend.GetPool(lend.GetLendPair(…).AssetOutPoolID).ModuleName", "\"lendV2\"", "lend.GetBorrow(liquidationsV2.GetLockedVault(…).OriginalVaultId).AmountOut.Denom", false, [(true, 2699452619), (false, 4031669671), (false, 2283529546), (true, 812416793), (true, 1303515621)], false, false⟩,
  ⟨"SendCoinsFromModuleToModule", "\"lendV2\"", "lend.GetPool(lend.GetLendPair(…).AssetOutPoolID).ModuleName", "lend.GetBorrow(liquidationsV2.GetLockedVault(…).OriginalVaultId).AmountOut.Denom", false, [(true, 2699452619), (false, 4031669671), (false, 2283529546), (true, 812416793), (false, 1303515621)], false, false⟩,
  ⟨"SendCoinsFromModuleToModule", "lend.GetPool(lend.GetLendPair(…).AssetOutPoolID).ModuleName", "\"lendV2\"", "auctionData.DebtToken.Denom", true, [(true, 2699452619), (false, 4031669671), (false, 2283529546), (true, 812416793), (true, 2418059476), (true, 1303515621)], false, false⟩,
  ⟨"SendCoinsFromModuleToModule", "\"lendV2\"", "lend.GetPool(lend.GetLendPair(…).AssetOutPoolID).ModuleName", "auctionData.DebtToken.Denom", true, [(true, 2699452619), (false, 4031669671), (false, 2283529546), (true, 812416793), (true, 2418059476), (false, 1303515621)], false, false⟩,
  ⟨"MintCoins", "", "lend.GetPool(lend.GetLendPair(…).AssetOutPoolID).ModuleName", "asset.GetAsset(lend.GetAssetRatesParams(…).CAssetID).Denom", true, [(true, 2699452619), (false, 4031669671), (false, 2283529546), (true, 812416793), (true, 459660253)], false, false⟩,
  ⟨"SendCoinsFromModuleToModule", "lend.GetPool(lend.GetLendPair(…).AssetOutPoolID).ModuleName", "lend.GetPool(lend.GetLend(…).PoolID).ModuleName", "lend.GetBorrow(liquidationsV2.GetLockedVault(…).OriginalVaultId).BridgedAssetAmount.Denom", true, [(true, 2699452619), (false, 4031669671), (false, 2283529546), (true, 812416793), (true, 2906957075)], false, false⟩,
  ⟨"SendCoinsFromAccountToModule", "addr(bidder)", "\"auctionsV2\"", "auctionData.DebtToken.Denom", true, [(false, 2699452619), (true, 3747897214), (true, 3076460308)], false, false⟩,
  ⟨"SendCoinsFromModuleToAccount", "\"auctionsV2\"", "addr(bidder)", "auctionData.CollateralToken.Denom", true, [(false, 2699452619), (true, 2357432509)], false, false⟩]

def exp_auction_PlaceDutchAuctionBid : List APin := [
  ⟨"SendCoinsFromAccountToModule", "bidder", "\"auctionV1\"", "auction.GetDutchAuction(appID, auctionMappingID, auctionID).InflowTokenTargetAmount.Denom", true, [(true, 1985206634)], false, false⟩,
  ⟨"SendCoinsFromModuleToAccount", "\"auctionV1\"", "bidder", "auction.GetDutchAuction(appID, auctionMappingID, auctionID).OutflowTokenInitAmount.Denom", true, [(true, 991589844)], false, false⟩,
  ⟨"SendCoinsFromModuleToAccount", "\"auctionV1\"", "addr(liquidation.GetLockedVault(…).Owner)", "auction.GetDutchAuction(appID, auctionMappingID, auctionID).OutflowTokenCurrentAmount.Sub(coin(…)).Denom", true, [(true, 3282727320), (true, 1338912237)], false, false⟩,
  ⟨"BurnCoins", "\"auctionV1\"", "", "auction.GetDutchAuction(appID, auctionMappingID, auctionID).InflowTokenCurrentAmount.Add(coin(…)).Denom", false, [(true, 3282727320), (true, 3230750406)], false, false⟩,
  ⟨"SendCoinsFromModuleToModule", "\"auctionV1\"", "\"collectorV1\"", "auction.GetDutchAuction(appID, auctionMappingID, auctionID).InflowTokenCurrentAmount.Add(coin(…)).Denom", false, [(true, 3282727320), (true, 883620043)], false, false⟩,
  ⟨"SendCoinsFromModuleToModule", "\"collectorV1\"", "\"auctionV1\"", "asset.GetAsset(auction.GetDutchAuction(…).AssetInId).Denom", false, [(false, 3282727320), (true, 1936985961)], false, false⟩,
  ⟨"BurnCoins", "\"auctionV1\"", "", "auction.GetDutchAuction(appID, auctionMappingID, auctionID).InflowTokenCurrentAmount.Add(coin(…)).Denom", false, [(false, 3282727320), (true, 1936985961), (true, 3230750406)], false, false⟩,
  ⟨"SendCoinsFromModuleToModule", "\"auctionV1\"", "\"collectorV1\"", "auction.GetDutchAuction(appID, auctionMappingID, auctionID).InflowTokenCurrentAmount.Add(coin(…)).Denom", false, [(false, 3282727320), (true, 1936985961), (true, 883620043)], false, false⟩]

def exp_auction_CloseDutchAuction : List APin := [
  ⟨"BurnCoins", "\"auctionV1\"", "", "dutchAuction.InflowTokenCurrentAmount.Denom", false, [(true, 3190515568)], false, false⟩,
  ⟨"SendCoinsFromModuleToModule", "\"auctionV1\"", "\"collectorV1\"", "dutchAuction.InflowTokenCurrentAmount.Denom", false, [(true, 3237281969)], false, false⟩]

def pinPairs : List (String × List APin × List APin) := [
  ("auctionsV2_PlaceDutchAuctionBid", apins h_auctionsV2_PlaceDutchAuctionBid, exp_auctionsV2_PlaceDutchAuctionBid),
  ("auction_PlaceDutchAuctionBid", apins h_auction_PlaceDutchAuctionBid, exp_auction_PlaceDutchAuctionBid),
  ("auction_CloseDutchAuction", apins h_auction_CloseDutchAuction, exp_auction_CloseDutchAuction)]

/-- **Golden skeleton**: the entry points whose regenerated bank skeleton differs from the reviewed literal — none
(one kernel evaluation of the regenerated table) -/
theorem c10_pins : (pinPairs.filter fun p => p.2.1 != p.2.2).map (·.1) = [] := by
  decide +kernel

def pinned : List Handler := [h_auctionsV2_PlaceDutchAuctionBid, h_auction_PlaceDutchAuctionBid, h_auction_CloseDutchAuction]

theorem c10_table :
    pinned.map (fun h => (h.module ++ "_" ++ h.name, (bankItems h).length)) = [("auctionsV2_PlaceDutchAuctionBid", 18), ("auction_PlaceDutchAuctionBid", 8), ("auction_CloseDutchAuction", 2)] ∧
    (∀ h ∈ pinned, unknownBankOps h = [] ∧ opaqueCalls h = []) := by
  decide +kernel

/-! ## non-vacuity -/

example : pinPairs.length = 3 ∧ (pinPairs.map (·.2.2.length)).sum = 28 := by decide

end Comdex.C10
