import Comdex.Model.Locker
import Comdex.Model.Effects
import Comdex.Gen.Effects_locker
import Comdex.Gen.Effects_collector
import Comdex.Gen.Effects_rewards
import Comdex.Gen.Effects_vault
/-!
# C13 — the EFFECT SKELETON of the locker messages and of the fee inflows is the model's

`Gen/Effects_locker.lean`, `Effects_collector.lean`, `Effects_rewards.lean`, `Effects_vault.lean` are regenerated from the Go
source on every run (extract/effects).  `Model/Locker.lean` has its bank calls INSIDE `step` (not as data), so the tie has two
halves, both for ALL inputs:

1. **named op lists** (`createOps`, `depositOps`, `withdrawOps`, `closeOps`, `rewardCalcOps`; `feeVaultOps`, `feeCloseOps`)
   are proved to be what the model's own `step` does to the bank (`create_bank`, `deposit_bank`, `withdraw_bank`, `close_bank`,
   `rewardCalc_bank`) resp. to the whole state (`feeVault_runs`, `feeClose_runs`) — a SEMANTIC anchor (the model file is not
   edited; `step` is not *defined* through the lists);
2. the skeleton of these lists (kind, parties, denomination, "only if positive") is proved EQUAL to the regenerated skeleton
   of the Go handler, on the path selected by the truth values of the handler's branch conditions (`locker_effects`,
   `vault_fee_inflows`).

The remaining entry points of the collector / rewards books are PINNED against a reviewed literal (weaker tie, "golden
skeleton": `collector_pins`), because the model folds them into larger steps.

## reviewed role table (x/locker)

| text | role |
|---|---|
| `"lockerV1"` | `Acct.locker` |
| `"collectorV1"` | `Acct.collector` |
| `addr(msg.Depositor)` | the signer `Acct.user u` |
| `asset.GetAsset(msg.AssetId).Denom`, `asset.GetAsset(locker.GetLocker(msg.LockerId).AssetDepositId).Denom` (MsgLockerRewardCalc) | the locker's asset |

## reviewed condition table (x/locker; `lockerVal e1 e2 g`)

| Go condition (in `CalculateLockerRewards`, inlined) | meaning | model |
|---|---|---|
| early `return nil` on `!rewards.GetReward(…)#2` (e1) | asset not whitelisted for rewards | `Rw.none` |
| early `return nil` on `….LockerSavingRate.IsZero()` (e2) | saving rate zero | `Rw.none` |
| `….RewardsAccumulated….GTE(sdk.OneDec())` (g) | at least one whole coin accrued | `Rw.pay ρ` iff ¬e1 ∧ ¬e2 ∧ g |
| `msg.Amount.GT(0)` | true (ValidateBasic rejected `≤ 0`; the model has an unconditional `send`) | — |

The texts of e1 / e2 / g contain the whole accrual expression (printed head…hash…tail); they are recognised by their
beginning and end (`isE1`, `isE2`, `isG`), so a change of the accrual arithmetic (C18's subject) does not touch this tie.

## clause → theorem

| clause | theorem |
|---|---|
| what `step` does to the bank in the five locker messages = running the named op list | `create_bank`, `deposit_bank`, `withdraw_bank`, `close_bank`, `rewardCalc_bank` (with `reward_bank`) |
| regenerated bank skeleton of the five messages = skeleton of the op lists, all 8 truth assignments of (e1, e2, g) | `locker_go_all`, `locker_effects` |
| `Op.feeVault` / `Op.feeClose` = running `feeVaultOps` / `feeCloseOps` | `feeVault_runs`, `feeClose_runs` |
| the transfers INTO the collector and the `UpdateCollector` calls of the vault handlers, with their guards, are those lists (seed s71: closing fee moved under the interest guard) | `vault_fee_inflows` |
| golden skeletons of `GetAmountFromCollector`, `WasmMsgGetSurplusFund`, `LockerIterateRewards`, `CalculateLockerRewards` | `collector_pins` |
| every bank call classified, no opaque call, table shape | `locker_table` |
-/
namespace Comdex.C13
open Comdex Comdex.Locker Comdex.Effects Comdex.Gen.Effects

/-! ## the locker messages: bank calls as data -/

inductive LOp where
  | send (src dst : Acct) (d : Nat) (x : Int)
  | sendPos (src dst : Acct) (d : Nat) (x : Int)   -- `if x.GT(0) { send }`
  deriving Repr

def LOp.run (b : Bank) : LOp → Option Bank
  | .send a c d x => b.send a c d x
  | .sendPos a c d x => if x > 0 then b.send a c d x else some b

def runOps (b : Bank) : List LOp → Option Bank
  | [] => some b
  | op :: ops => match op.run b with
    | none => none
    | some b1 => runOps b1 ops

theorem runOps_append (b : Bank) (l1 l2 : List LOp) :
    runOps b (l1 ++ l2) = (runOps b l1).bind fun b1 => runOps b1 l2 := by
  induction l1 generalizing b with
  | nil => simp [runOps]
  | cons op rest ih =>
    simp only [List.cons_append, runOps]
    cases op.run b with
    | none => simp
    | some b1 => simpa using ih b1

/-- the pay branch of `CalculateLockerRewards` (rewards.go:596-601) -/
def rewardOps (asset : Nat) : Rw → List LOp
  | .pay ρ => [.sendPos .collector .locker asset ρ]
  | _ => []

def createOps (u asset : Nat) (amt : Int) : List LOp := [.send (.user u) .locker asset amt]
def depositOps (u asset : Nat) (amt : Int) (rw : Rw) : List LOp := rewardOps asset rw ++ [.send (.user u) .locker asset amt]
def withdrawOps (u asset : Nat) (amt : Int) (rw : Rw) : List LOp := rewardOps asset rw ++ [.send .locker (.user u) asset amt]
/-- `net` = the locker's balance after the reward was credited -/
def closeOps (u asset : Nat) (net : Int) (rw : Rw) : List LOp := rewardOps asset rw ++ [.sendPos .locker (.user u) asset net]
def rewardCalcOps (asset : Nat) (rw : Rw) : List LOp := rewardOps asset rw

theorem decNetFee_bank {s s' : State} {k : Nat × Nat} {x : Int} (h : decNetFee s k x = some s') : s'.bank = s.bank := by
  unfold decNetFee at h
  split at h
  · cases h
  · split at h
    · cases h
    · cases h; rfl

theorem updAmount_bank (s : State) (k : Nat × Nat) (d : Int) : (updAmount s k d).bank = s.bank := by
  unfold updAmount; split <;> rfl

/-- what `reward` does to the bank -/
theorem reward_bank {s s1 : State} {id app asset : Nat} {rw : Rw} (h : reward s id app asset rw = some s1) :
    runOps s.bank (rewardOps asset rw) = some s1.bank := by
  cases rw with
  | none => simp [reward] at h; subst h; simp [rewardOps, runOps]
  | fail => simp [reward] at h
  | pay ρ =>
    simp only [reward, payReward] at h
    split at h
    · next lk l _ _ =>
      split at h
      · cases h
      · next s2 hd =>
        have hb := decNetFee_bank hd
        by_cases hρ : ρ > 0
        · simp only [hρ, if_true] at h
          split at h
          · cases h
          · next b hs =>
            cases h
            simp [rewardOps, runOps, LOp.run, hρ, ← hb, hs]
        · simp only [hρ, if_false] at h
          cases h
          simp [rewardOps, runOps, LOp.run, hρ, hb]
    · cases h

theorem create_bank {s s' : State} {u app asset : Nat} {amt : Int} (h : step s (.create u app asset amt) = some s') :
    runOps s.bank (createOps u asset amt) = some s'.bank := by
  simp only [step] at h
  repeat (split at h; · cases h)
  rename_i b hs
  cases h
  simp [createOps, runOps, LOp.run, hs]

theorem deposit_bank {s s' : State} {u app asset id : Nat} {amt : Int} {rw : Rw}
    (h : step s (.deposit u app asset id amt rw) = some s') :
    runOps s.bank (depositOps u asset amt rw) = some s'.bank := by
  simp only [step] at h
  repeat (split at h; · cases h)
  rename_i _ s1 hr _ _ _ _ b hs
  cases h
  rw [depositOps, runOps_append, reward_bank hr]
  simp [runOps, LOp.run, hs, updAmount_bank]

theorem withdraw_bank {s s' : State} {u app asset id : Nat} {amt : Int} {rw : Rw}
    (h : step s (.withdraw u app asset id amt rw) = some s') :
    runOps s.bank (withdrawOps u asset amt rw) = some s'.bank := by
  simp only [step] at h
  repeat (split at h; · cases h)
  rename_i _ s1 hr _ _ _ _ b hs
  cases h
  rw [withdrawOps, runOps_append, reward_bank hr]
  simp [runOps, LOp.run, hs, updAmount_bank]

theorem close_bank {s s' : State} {u app asset id : Nat} {rw : Rw}
    (h : step s (.close u app asset id rw) = some s') :
    ∃ net, runOps s.bank (closeOps u asset net rw) = some s'.bank := by
  simp only [step] at h
  split at h; · cases h
  split at h; · cases h
  split at h; · cases h
  rename_i _ s1 hr
  split at h; · cases h
  rename_i _ l1 _
  refine ⟨l1.net, ?_⟩
  rw [closeOps, runOps_append, reward_bank hr]
  by_cases hn : l1.net > 0
  · simp only [hn, if_true] at h
    split at h; · cases h
    rename_i _ b hs
    have : s'.bank = b := by
      cases h
      split <;> simp [updAmount_bank]
    simp [runOps, LOp.run, hn, hs, this]
  · simp only [hn, if_false] at h
    have : s'.bank = s1.bank := by
      cases h
      split <;> simp [updAmount_bank]
    simp [runOps, LOp.run, hn, this]

theorem rewardCalc_bank {s s' : State} {app id : Nat} {rw : Rw} (h : step s (.rewardCalc app id rw) = some s') :
    ∃ asset, runOps s.bank (rewardCalcOps asset rw) = some s'.bank := by
  simp only [step] at h
  split at h; · cases h
  split at h; · cases h
  split at h; · cases h
  rename_i _ l _
  split at h; · cases h
  exact ⟨l.asset, reward_bank h⟩

/-! ## roles and skeletons -/

inductive LRole where
  | signer | locker | collector
  deriving DecidableEq, Repr

inductive LDen where
  | asset
  deriving DecidableEq, Repr

abbrev LSkel := Skel LRole LDen

def tAsset : String := "asset.GetAsset(msg.AssetId).Denom"
def tLockerAsset : String := "asset.GetAsset(locker.GetLocker(msg.LockerId).AssetDepositId).Denom"

/-- the reviewed role table of x/locker -/
def lockerRoles : Roles LRole LDen where
  acct := fun t =>
    if t == "\"lockerV1\"" then some .locker
    else if t == "\"collectorV1\"" then some .collector
    else if t == "addr(msg.Depositor)" then some .signer
    else none
  denom := fun t => if t == tAsset || t == tLockerAsset then some .asset else none

def isE1 (t : String) : Bool := t.startsWith "!rewards.GetReward(" && t.endsWith ")#2"
def isE2 (t : String) : Bool := t.startsWith "collector.GetCollectorLookupTable(" && t.endsWith ").LockerSavingRate.IsZero()"
def isG (t : String) : Bool := t.startsWith "rewards.GetLockerRewardTracker(" && t.endsWith ".GTE(sdk.OneDec())"

/-- the reviewed condition table of the locker messages -/
def lockerVal (e1 e2 g : Bool) : Val := fun t =>
  if t == "msg.Amount.GT(0)" then some true
  else if isE1 t then some e1
  else if isE2 t then some e2
  else if isG t then some g
  else none

/-- the reward is paid iff neither early exit is taken and a whole coin has accrued -/
def rwOf (e1 e2 g : Bool) (ρ : Int) : Rw := if !e1 && !e2 && g then .pay ρ else .none

def roleOf (u : Nat) : Acct → Option LRole
  | .user n => if n = u then some .signer else none
  | .locker => some .locker
  | .collector => some .collector
  | _ => none

def opSkel (u asset : Nat) : LOp → Option LSkel
  | .send a b d _ => match roleOf u a, roleOf u b with
    | some x, some y => if d = asset then some ⟨.send, some x, some y, .asset, false⟩ else none
    | _, _ => none
  | .sendPos a b d _ => match roleOf u a, roleOf u b with
    | some x, some y => if d = asset then some ⟨.send, some x, some y, .asset, true⟩ else none
    | _, _ => none

def modelSkel (u asset : Nat) : List LOp → Option (List LSkel)
  | [] => some []
  | op :: rest => match opSkel u asset op, modelSkel u asset rest with
    | some a, some l => some (a :: l)
    | _, _ => none

def skReward (pay : Bool) : List LSkel := if pay then [⟨.send, some .collector, some .locker, .asset, true⟩] else []
def paid (e1 e2 g : Bool) : Bool := !e1 && !e2 && g

theorem reward_skel (u asset : Nat) (e1 e2 g : Bool) (ρ : Int) (rest : List LOp) (l : List LSkel)
    (h : modelSkel u asset rest = some l) :
    modelSkel u asset (rewardOps asset (rwOf e1 e2 g ρ) ++ rest) = some (skReward (paid e1 e2 g) ++ l) := by
  cases e1 <;> cases e2 <;> cases g <;> simp [rwOf, rewardOps, modelSkel, opSkel, roleOf, skReward, paid, h]

/-- what the regenerated table says about the five messages, for one truth assignment -/
def goLocker (e1 e2 g : Bool) : Prop :=
  goSkel lockerRoles (lockerVal e1 e2 g) h_locker_MsgCreateLocker
    = some [⟨.send, some .signer, some .locker, .asset, false⟩] ∧
  goSkel lockerRoles (lockerVal e1 e2 g) h_locker_MsgDepositAsset
    = some (skReward (paid e1 e2 g) ++ [⟨.send, some .signer, some .locker, .asset, false⟩]) ∧
  goSkel lockerRoles (lockerVal e1 e2 g) h_locker_MsgWithdrawAsset
    = some (skReward (paid e1 e2 g) ++ [⟨.send, some .locker, some .signer, .asset, false⟩]) ∧
  goSkel lockerRoles (lockerVal e1 e2 g) h_locker_MsgCloseLocker
    = some (skReward (paid e1 e2 g) ++ [⟨.send, some .locker, some .signer, .asset, true⟩]) ∧
  goSkel lockerRoles (lockerVal e1 e2 g) h_locker_MsgLockerRewardCalc = some (skReward (paid e1 e2 g))

instance (e1 e2 g : Bool) : Decidable (goLocker e1 e2 g) := by unfold goLocker; exact inferInstance

/-- ONE kernel evaluation of the regenerated locker table: all 8 truth assignments of (e1, e2, g) -/
theorem locker_go_all :
    goLocker true true true ∧ goLocker true true false ∧ goLocker true false true ∧ goLocker true false false ∧
    goLocker false true true ∧ goLocker false true false ∧ goLocker false false true ∧ goLocker false false false := by
  decide +kernel

theorem locker_go (e1 e2 g : Bool) : goLocker e1 e2 g := by
  have h := locker_go_all
  cases e1 <;> cases e2 <;> cases g
  · exact h.2.2.2.2.2.2.2
  · exact h.2.2.2.2.2.2.1
  · exact h.2.2.2.2.2.1
  · exact h.2.2.2.2.1
  · exact h.2.2.2.1
  · exact h.2.2.1
  · exact h.2.1
  · exact h.1

/-- the regenerated bank skeleton of the five locker messages = the skeleton of the model's op lists, for every signer, asset,
amounts, reward and every truth assignment of the three reward conditions -/
theorem locker_effects (u asset : Nat) (amt net ρ : Int) (e1 e2 g : Bool) :
    goSkel lockerRoles (lockerVal e1 e2 g) h_locker_MsgCreateLocker = modelSkel u asset (createOps u asset amt) ∧
    goSkel lockerRoles (lockerVal e1 e2 g) h_locker_MsgDepositAsset
      = modelSkel u asset (depositOps u asset amt (rwOf e1 e2 g ρ)) ∧
    goSkel lockerRoles (lockerVal e1 e2 g) h_locker_MsgWithdrawAsset
      = modelSkel u asset (withdrawOps u asset amt (rwOf e1 e2 g ρ)) ∧
    goSkel lockerRoles (lockerVal e1 e2 g) h_locker_MsgCloseLocker
      = modelSkel u asset (closeOps u asset net (rwOf e1 e2 g ρ)) ∧
    goSkel lockerRoles (lockerVal e1 e2 g) h_locker_MsgLockerRewardCalc
      = modelSkel u asset (rewardCalcOps asset (rwOf e1 e2 g ρ)) := by
  obtain ⟨h1, h2, h3, h4, h5⟩ := locker_go e1 e2 g
  refine ⟨?_, ?_, ?_, ?_, ?_⟩
  · rw [h1]; simp [createOps, modelSkel, opSkel, roleOf]
  · rw [h2, depositOps, reward_skel u asset e1 e2 g ρ _ [⟨.send, some .signer, some .locker, .asset, false⟩]
      (by simp [modelSkel, opSkel, roleOf])]
  · rw [h3, withdrawOps, reward_skel u asset e1 e2 g ρ _ [⟨.send, some .locker, some .signer, .asset, false⟩]
      (by simp [modelSkel, opSkel, roleOf])]
  · rw [h4, closeOps, reward_skel u asset e1 e2 g ρ _ [⟨.send, some .locker, some .signer, .asset, true⟩]
      (by simp [modelSkel, opSkel, roleOf])]
  · rw [h5]
    have := reward_skel u asset e1 e2 g ρ [] [] (by simp [modelSkel])
    simpa [rewardCalcOps] using this.symm

/-! ## fee inflows from the vault handlers (`Op.feeVault`, `Op.feeClose`) -/

inductive COp where
  | update (k : Nat × Nat) (total : Int)            -- `UpdateCollector`, unconditional
  | creditPos (d : Nat) (x : Int)                   -- `if x.GT(0) { SendCoinsFromModuleToModule(vault → collector) }`
  | creditUpdatePos (k : Nat × Nat) (d : Nat) (x : Int)   -- `if x.GT(0) { send; UpdateCollector }` (one guard for both)
  deriving Repr

def COp.run (s : State) : COp → Option State
  | .update k t => updateCollector s k t
  | .creditPos d x => if x > 0 then creditCollector s d x else some s
  | .creditUpdatePos k d x => if x > 0 then (creditCollector s d x).bind fun s1 => updateCollector s1 k x else some s

def runC (s : State) : List COp → Option State
  | [] => some s
  | op :: ops => (op.run s).bind fun s1 => runC s1 ops

/-- opening / draw-down fee, stability interest at repay (vault msg_server.go:131-141, 683-695, 723-732) -/
def feeVaultOps (app asset : Nat) (x : Int) : List COp := [.creditUpdatePos (app, asset) asset x]
/-- vault close (msg_server.go:845-858): the record first, then interest and closing fee EACH under its own guard -/
def feeCloseOps (app asset : Nat) (interest closing : Int) : List COp :=
  [.update (app, asset) (interest + closing), .creditPos asset interest, .creditPos asset closing]

theorem feeVault_runs (s : State) (app asset : Nat) (x : Int) :
    step s (.feeVault app asset x) = runC s (feeVaultOps app asset x) := by
  by_cases h : x > 0
  · simp only [step, feeVaultOps, runC, COp.run, h, if_true]
    cases creditCollector s asset x <;> simp
  · simp [step, feeVaultOps, runC, COp.run, h]

theorem feeClose_runs (s : State) (app asset : Nat) (interest closing : Int) :
    step s (.feeClose app asset interest closing) = runC s (feeCloseOps app asset interest closing) := by
  simp only [step, feeCloseOps, runC, COp.run]
  cases updateCollector s (app, asset) (interest + closing) with
  | none => simp
  | some s1 =>
    simp only [Option.bind_some]
    by_cases hi : interest > 0
    · simp only [hi, if_true]
      cases creditCollector s1 asset interest with
      | none => simp
      | some s2 => by_cases hc : closing > 0 <;> simp [hc]
    · by_cases hc : closing > 0 <;> simp [hi, hc]

/-- how the vault handlers feed the collector, as the tie sees it -/
inductive CSkel where
  | update                       -- `UpdateCollector` under no guard of its own
  | credit (pos : Bool)          -- transfer vault → collector (`pos`: under the positivity test of its own amount)
  | updateWithPrev               -- `UpdateCollector` under exactly the guards of the transfer before it
  deriving DecidableEq, Repr

def cskelOf : COp → List CSkel
  | .update _ _ => [.update]
  | .creditPos _ _ => [.credit true]
  | .creditUpdatePos _ _ _ => [.credit true, .updateWithPrev]

def sameGuards (a b : Item) : Bool :=
  a.conds.map (fun c => (c.pol, c.text)) == b.conds.map (fun c => (c.pol, c.text))

/-- the collector-bound part of a vault handler on the path selected by `val`: transfers whose destination is the collector
account and `UpdateCollector` calls, in source order.  `none` = a condition is not in the table (an `UpdateCollector` must sit
either under exactly the guards of the transfer before it, or under conditions the table knows). -/
def inflowItems (val : Val) (prev : Option Item) : List Item → Option (List CSkel)
  | [] => some []
  | it :: rest =>
    let isCredit := it.kind == "bank" && it.dst == "\"collectorV1\""
    let isUpd := it.kind == "write" && it.op == "collector.UpdateCollector"
    if isCredit then
      match onPath val it with
      | none => none
      | some false => inflowItems val prev rest
      | some true =>
        if it.src == "\"vaultV1\"" then (inflowItems val (some it) rest).map (CSkel.credit (isPos val it) :: ·) else none
    else if isUpd then
      match prev with
      | some p =>
        -- the transfer before it is on the path; under exactly its guards the record call is too
        if sameGuards p it then (inflowItems val none rest).map (CSkel.updateWithPrev :: ·)
        else match onPath val it with
          | some true => (inflowItems val none rest).map (CSkel.update :: ·)
          | some false => inflowItems val prev rest
          | none => none
      | none =>
        match onPath val it with
        | some true => (inflowItems val none rest).map (CSkel.update :: ·)
        | some false => inflowItems val none rest
        | none => none
    else inflowItems val prev rest

def inflow (val : Val) (h : Handler) : Option (List CSkel) := inflowItems val none h.items

def cCreate : String := "asset.GetPairsVault(msg.ExtendedPairVaultId).DrawDownFee.IsZero() && msg.AmountOut.GT(0)"
def cDraw : String := "asset.GetPairsVault(msg.ExtendedPairVaultId).DrawDownFee.IsZero() && msg.Amount.GT(0)"
def cRepay : String := "msg.Amount.LTE(vault.GetVault(msg.UserVaultId).InterestAccumulated)"

def skFeeVault : List CSkel := (feeVaultOps 0 0 0).flatMap cskelOf
def skFeeClose : List CSkel := (feeCloseOps 0 0 0 0).flatMap cskelOf

/-- **The fee inflows of the vault handlers are `feeVaultOps` / `feeCloseOps`.**  With a zero draw-down fee nothing reaches
the collector at create / draw; otherwise exactly one guarded (transfer + record) pair; at repay one such pair in either
branch; at close the record unconditionally, then interest and closing fee each under ITS OWN positivity guard. -/
theorem vault_fee_inflows :
    inflow (valOf [(cCreate, true)]) h_vault_MsgCreate = some [] ∧
    inflow (valOf [(cCreate, false)]) h_vault_MsgCreate = some skFeeVault ∧
    inflow (valOf [(cDraw, true)]) h_vault_MsgDraw = some [] ∧
    inflow (valOf [(cDraw, false)]) h_vault_MsgDraw = some skFeeVault ∧
    inflow (valOf [(cRepay, true)]) h_vault_MsgRepay = some skFeeVault ∧
    inflow (valOf [(cRepay, false)]) h_vault_MsgRepay = some skFeeVault ∧
    inflow (valOf []) h_vault_MsgClose = some skFeeClose ∧
    inflow (valOf []) h_vault_MsgDeposit = some [] ∧ inflow (valOf []) h_vault_MsgWithdraw = some [] := by
  decide +kernel

/-! ## golden skeletons (weaker tie) -/

def tRw (x : String) : Bool := x.startsWith "rewards.GetLockerRewardTracker("

/-- bank calls of the remaining entry points of the collector / rewards books: op, parties, denomination text, positivity
class, signature of the path conditions (polarity, hash of the whole condition text), loop and cache flags -/
theorem collector_pins :
    pins h_collector_GetAmountFromCollector
      = [⟨"SendCoinsFromModuleToModule", "\"collectorV1\"", "\"auctionV1\"", "asset.GetAsset(assetID).Denom", false, [], false, false⟩] ∧
    pins h_collector_WasmMsgGetSurplusFund
      = [⟨"SendCoinsFromModuleToAccount", "\"collectorV1\"", "addr", "amount.Denom", false, [], false, false⟩] ∧
    pins h_collector_LockerIterateRewards
      = [⟨"SendCoinsFromModuleToModule", "\"collectorV1\"", "\"lockerV1\"", "asset.GetAsset(assetID).Denom", true,
          [(true, 3212819272), (true, 2528488180), (false, 3898808028), (false, 2351626753), (true, 2997954978),
           (false, 2904832541), (true, 1333273752)], true, false⟩] ∧
    pins h_rewards_CalculateLockerRewards
      = [⟨"SendCoinsFromModuleToModule", "\"collectorV1\"", "\"lockerV1\"", "asset.GetAsset(assetID).Denom", true,
          [(false, 3725782858), (false, 42584694), (true, 535384918), (true, 1024859244)], false, false⟩] ∧
    pins h_collector_DecreaseNetFeeCollectedData = [] ∧ pins h_collector_UpdateCollector = [] ∧
    pins h_collector_SetNetFeeCollectedData = [] ∧ pins h_rewards_CalculateVaultInterest = [] ∧
    -- in `LockerIterateRewards` the transfer comes AFTER the net-fee record was decreased and is skipped (`continue`) when that fails
    ((bankItems h_collector_LockerIterateRewards).map fun it => (it.conds.filter (·.kind == "continue")).length) = [1] := by
  decide +kernel

theorem locker_table :
    handlers_locker.map (fun h => (h.name, (bankItems h).length)) =
      [("MsgCreateLocker", 1), ("MsgDepositAsset", 2), ("MsgWithdrawAsset", 2), ("MsgCloseLocker", 2), ("MsgLockerRewardCalc", 1)] ∧
    (∀ h ∈ handlers_locker, allBankClassified lockerRoles h = true ∧ unknownBankOps h = [] ∧ opaqueCalls h = []) ∧
    (∀ h ∈ handlers_collector ++ handlers_rewards, unknownBankOps h = [] ∧ opaqueCalls h = []) ∧
    handlers_collector.length = 6 ∧ handlers_rewards.length = 2 ∧
    (∀ h ∈ handlers_locker, ownWritesAfterBank h = true) := by
  decide +kernel

/-! ## non-vacuity -/

example : modelSkel 7 3 (depositOps 7 3 100 (.pay 5)) =
    some [⟨.send, some .collector, some .locker, .asset, true⟩, ⟨.send, some .signer, some .locker, .asset, false⟩] := by
  decide +kernel
example : modelSkel 7 3 (depositOps 7 3 100 .none) ≠ modelSkel 7 3 (depositOps 7 3 100 (.pay 5)) := by decide +kernel
example : rwOf false false true 5 = .pay 5 ∧ rwOf true false true 5 = .none := by decide
example : skFeeClose = [.update, .credit true, .credit true] ∧ skFeeVault = [.credit true, .updateWithPrev] := by decide
/-- the model's close with interest 7 and closing fee 3 does run its list -/
example : step { assets := [2], fees := [((1, 2), 0)] } (.feeClose 1 2 7 3) =
    runC { assets := [2], fees := [((1, 2), 0)] } (feeCloseOps 1 2 7 3) := feeClose_runs _ 1 2 7 3
example : (step { assets := [2], fees := [((1, 2), 0)] } (.feeClose 1 2 7 3)).isSome = true := by decide +kernel

end Comdex.C13
