import Comdex.Props.C17
import Comdex.Lemmas.Feed
/-!
# C17, the feed around the window: x/market/abci.go and x/bandoracle/abci.go

The theorems of `Props/C17.lean` are about ONE asset's window under an arbitrary sample sequence. Here: how the chain
produces those sample sequences — every 20th block, from the band oracle's last result, one rate per oracle-priced
asset **by rank in asset-id order** — and what it does when the feed is not validated.

* the market begin-blocker never panics and keeps every window well-formed, for any result list (shorter or longer
  than the asset list), any asset list, any block height                                  → `market_begin_total`
* with a validated feed in a sampling block every oracle-priced asset receives exactly one `UpdatePriceList` with the
  rate at its rank; every other window is untouched (per-asset independence)             → `validated_feed_assigns_by_rank`,
                                                                                            `fedWith_eq_rank`
* a pending discard clears every window before the samples are applied                    → `discard_clears_every_window_first`
* outside sampling blocks nothing changes                                                 → `no_sampling_block_changes_nothing`
* with an unvalidated feed every listed asset's price is switched off, hence refused to consumers
                                                                                          → `unvalidated_feed_refuses_every_valuation`
* the band side: a feed is validated iff a NEW request id was acknowledged since the last check; a discard is ordered
  only when the feed comes back after an outage of at least the accepted height gap      → `band_validation_iff_new_request`,
                                                                                            `band_discard_only_after_long_outage`,
                                                                                            `band_discard_when_long_outage`, `band_short_outage_forgotten`
-/
namespace Comdex.C17
open Comdex Comdex.Twa Comdex.Feed

theorem clearAll_wf (N : Nat) (bk : Books) (h : BooksWf N bk) : BooksWf N (clearAll bk) := by
  intro x hx
  simp only [clearAll, List.mem_map] at hx
  obtain ⟨y, hy, rfl⟩ := hx
  obtain ⟨_, _, _, _, _, hnz⟩ := h y hy
  refine ⟨by simp, ?_, ?_, by simp, by simp, hnz⟩
  · intro _; simp
  · intro h; simp at h; omega

theorem afterDiscard_wf (N : Nat) (b : Band) (bk : Books) (h : BooksWf N bk) : BooksWf N (afterDiscard b bk).2 := by
  unfold afterDiscard; split
  · exact clearAll_wf N bk h
  · exact h

theorem switchOff_wf (N : Nat) (assets : List (Nat × Bool)) (bk : Books) (hwf : BooksWf N bk) : BooksWf N (switchOff assets bk) := by
  intro x hx
  simp only [switchOff, List.mem_map] at hx
  obtain ⟨y, hy, rfl⟩ := hx
  split
  · obtain ⟨h1, h2, h3, _, _, hnz⟩ := hwf y hy
    exact ⟨h1, fun h => ⟨(h2 h).1, rfl⟩, h3, by simp, by simp, hnz⟩
  · exact hwf y hy

/-- **No panic, for any feed**: the market begin-blocker runs to completion and keeps every window well-formed —
for every result list (missing, empty, shorter or longer than the list of oracle-priced assets), every asset list with
distinct ids, every positive height, every band state. -/
theorem market_begin_total (b : Band) (N : Nat) (hN : N ≥ 1) (acc height : Int) (hh : height > 0)
    (assets : List (Nat × Bool)) (hnd : (assets.map (·.1)).Nodup) (bk : Books) (hwf : BooksWf N bk) :
    ∃ b' bk', marketBegin b N acc height assets bk = .ok (b', bk') ∧ BooksWf N bk' := by
  unfold marketBegin
  by_cases hv : b.validation = true
  · simp only [hv, if_true]
    by_cases hs : sampling b height = true
    · simp only [hs, if_true]
      have hwf1 := afterDiscard_wf N b bk hwf
      cases hr : b.result b.lastId with
      | none => exact ⟨_, _, rfl, hwf1⟩
      | some rates =>
        cases rates with
        | nil => exact ⟨_, _, rfl, hwf1⟩
        | cons r0 rs =>
          obtain ⟨bk', h1, h2, _⟩ := feedLoop_spec N hN acc height hh (r0 :: rs) assets hnd 0 _ hwf1
          exact ⟨(afterDiscard b bk).1, bk', by simp [h1, Except.map], h2⟩
    · have hs' : sampling b height = false := by simpa using hs
      simp only [hs', Bool.false_eq_true, if_false]; exact ⟨b, bk, rfl, hwf⟩
  · have hv' : b.validation = false := by simpa using hv
    simp only [hv', Bool.false_eq_true, if_false]
    exact ⟨b, _, rfl, switchOff_wf N assets bk hwf⟩

/-- **One sample per oracle-priced asset, by rank; everything else untouched.** Validated feed, sampling block, no
pending discard, a non-empty result for the last acknowledged request. -/
theorem validated_feed_assigns_by_rank (b : Band) (N : Nat) (hN : N ≥ 1) (acc height : Int) (hh : height > 0)
    (assets : List (Nat × Bool)) (hnd : (assets.map (·.1)).Nodup) (bk : Books) (hwf : BooksWf N bk)
    (hv : b.validation = true) (hs : sampling b height = true) (hd : b.discardBool = false)
    (r0 : Nat) (rs : List Nat) (hr : b.result b.lastId = some (r0 :: rs)) :
    ∃ bk', marketBegin b N acc height assets bk = .ok (b, bk') ∧ BooksWf N bk' ∧
      ∀ id, match fedWith assets (r0 :: rs) 0 id with
            | some rate => update (bk.get id) rate N height acc = .ok (bk'.get id)
            | none => bk'.get id = bk.get id := by
  obtain ⟨bk', h1, h2, h3⟩ := feedLoop_spec N hN acc height hh (r0 :: rs) assets hnd 0 bk hwf
  refine ⟨bk', ?_, h2, h3⟩
  simp [marketBegin, afterDiscard, hv, hs, hd, hr, h1, Except.map]

/-- a pending discard (ordered by the band side after a long outage) clears EVERY window, is consumed, and the samples of
this block are then applied to the cleared windows -/
theorem discard_clears_every_window_first (b : Band) (N : Nat) (hN : N ≥ 1) (acc height : Int) (hh : height > 0)
    (assets : List (Nat × Bool)) (hnd : (assets.map (·.1)).Nodup) (bk : Books) (hwf : BooksWf N bk)
    (hv : b.validation = true) (hs : sampling b height = true) (hd : b.discardBool = true)
    (r0 : Nat) (rs : List Nat) (hr : b.result b.lastId = some (r0 :: rs)) :
    ∃ bk', marketBegin b N acc height assets bk = .ok ({ b with discardBool := false }, bk') ∧ BooksWf N bk' ∧
      ∀ id, match fedWith assets (r0 :: rs) 0 id with
            | some rate => update ((clearAll bk).get id) rate N height acc = .ok (bk'.get id)
            | none => bk'.get id = (clearAll bk).get id := by
  obtain ⟨bk', h1, h2, h3⟩ := feedLoop_spec N hN acc height hh (r0 :: rs) assets hnd 0 _ (clearAll_wf N bk hwf)
  refine ⟨bk', ?_, h2, h3⟩
  simp [marketBegin, afterDiscard, hv, hs, hd, hr, h1, Except.map]

theorem no_sampling_block_changes_nothing (b : Band) (N : Nat) (acc height : Int) (assets : List (Nat × Bool)) (bk : Books)
    (hv : b.validation = true) (hs : sampling b height = false) :
    marketBegin b N acc height assets bk = .ok (b, bk) := by
  simp [marketBegin, hv, hs]

/-- the rate an oracle-priced asset receives is the one at its RANK among the oracle-priced assets before it in asset-id
order; an asset that is not oracle-priced, or not listed, receives none -/
theorem fedWith_eq_rank (assets : List (Nat × Bool)) (rates : List Nat) (id : Nat) (hnd : (assets.map (·.1)).Nodup) :
    ∀ rank, fedWith assets rates rank id =
      if (id, true) ∈ assets then rates[rank + rankOf assets id]? else none := by
  induction assets with
  | nil => intro rank; simp [fedWith]
  | cons a t ih =>
    obtain ⟨aid, req⟩ := a
    simp only [List.map_cons, List.nodup_cons] at hnd
    intro rank
    by_cases e : aid = id
    · subst e
      have hnot : ∀ q, (aid, q) ∉ t := fun q hm => hnd.1 (List.mem_map.mpr ⟨(aid, q), hm, rfl⟩)
      cases req with
      | true => simp [fedWith, rankOf]
      | false => simp [fedWith, hnot true]
    · have e' : ¬ id = aid := fun h => e h.symm
      have hmem : ((id, true) ∈ (aid, req) :: t) ↔ (id, true) ∈ t := by
        simp [e']
      simp only [fedWith, e, if_false]
      rw [ih hnd.2]
      have hr : rankOf ((aid, req) :: t) id = (if req then 1 else 0) + rankOf t id := by
        simp only [rankOf, List.takeWhile_cons, ne_eq, e, not_false_eq_true, decide_true, if_true, List.filter_cons]
        cases req <;> simp <;> omega
      by_cases hm : (id, true) ∈ t
      · simp only [hmem.mpr hm, hm, if_true, hr]
        cases req <;> simp <;> congr 1 <;> omega
      · simp [hm, hmem]

/-- **Unvalidated feed ⇒ every listed asset is refused to consumers** (`CalcAssetPrice` returns an error): nothing is
valued at a stale price while the oracle is not answering. -/
theorem unvalidated_feed_refuses_every_valuation (b : Band) (N : Nat) (acc height : Int) (assets : List (Nat × Bool))
    (bk : Books) (hv : b.validation = false) :
    marketBegin b N acc height assets bk = .ok (b, switchOff assets bk) ∧
      ∀ id, (∃ q, (id, q) ∈ assets) → valuation ((switchOff assets bk).get id) = none := by
  refine ⟨by simp only [marketBegin, hv, Bool.false_eq_true, if_false], ?_⟩
  intro id ⟨q, hq⟩
  have hany : assets.any (fun a => decide (a.1 = id)) = true := List.any_eq_true.mpr ⟨(id, q), hq, by simp⟩
  unfold Books.get switchOff
  induction bk with
  | nil => simp [valuation]
  | cons x t ih =>
    by_cases e : x.1 = id
    · simp only [List.map_cons, e, hany, if_true, List.find?_cons, decide_true, Option.map_some, valuation]
      simp
    · have hfst : (if assets.any (fun a => decide (a.1 = x.1)) = true then (x.1, { x.2 with active := false }) else x).1 = x.1 := by
        split <;> rfl
      simp only [List.map_cons, List.find?_cons, hfst, e, decide_false]
      exact ih

/-! ### the band side -/

/-- in a sampling block after the first one the feed counts as validated iff a NEW request id was acknowledged since the
previous check, and the id is remembered for the next check -/
theorem band_validation_iff_new_request (b : Band) (height acc : Int) (hs : sampling b height = true) (hc : b.checkFlag = true) :
    (bandBegin b height acc).validation = decide (b.lastId ≠ b.tempId) ∧ (bandBegin b height acc).tempId = b.lastId := by
  unfold bandBegin
  simp only [hs, hc, Bool.not_true, Bool.false_eq_true, if_false]
  trivial

/-- a discard of every window is ordered only when the feed comes back (`lastId ≠ tempId`) after an outage that began at
least `acc` blocks earlier; an outage's start is recorded at the first failed check -/
theorem band_discard_only_after_long_outage (b : Band) (height acc : Int) (hd : b.discardBool = false)
    (h : (bandBegin b height acc).discardBool = true) :
    sampling b height = true ∧ b.checkFlag = true ∧ b.lastId ≠ b.tempId ∧ b.discardHeight > 0 ∧
      height - b.discardHeight ≥ acc := by
  unfold bandBegin at h
  by_cases hs : sampling b height = true
  · by_cases hc : b.checkFlag = true
    · simp only [hs, hc, Bool.not_true, Bool.false_eq_true, if_false] at h
      by_cases hne : b.lastId ≠ b.tempId
      · by_cases hp : b.discardHeight > 0
        · by_cases h3 : height - b.discardHeight < acc
          · have : ¬ b.discardHeight < 0 := by omega
            simp [hne, hp, h3, hd, this] at h
          · exact ⟨hs, hc, hne, hp, by omega⟩
        · by_cases hn : b.discardHeight < 0 <;> simp [hne, hp, hd, hn] at h
      · have he : b.lastId = b.tempId := by simpa using hne
        by_cases hn : b.discardHeight < 0 <;> simp [he, hd, hn] at h
    · have hc' : b.checkFlag = false := by simpa using hc
      simp [hs, hc', hd] at h
  · have hs' : sampling b height = false := by simpa using hs
    simp [hs', hd] at h

/-- … and it IS ordered then: when a new request is acknowledged at least `acc` blocks after the outage began, every
window will be cleared at the next sampling (fresh data "as configured") -/
theorem band_discard_when_long_outage (b : Band) (height acc : Int) (hs : sampling b height = true) (hc : b.checkFlag = true)
    (hne : b.lastId ≠ b.tempId) (hp : b.discardHeight > 0) (hg : height - b.discardHeight ≥ acc) :
    (bandBegin b height acc).discardBool = true ∧ (bandBegin b height acc).discardHeight = -1 := by
  unfold bandBegin
  have h1 : ¬ b.discardHeight < 0 := by omega
  have h3 : ¬ height - b.discardHeight < acc := by omega
  simp [hs, hc, hne, hp, h1, h3]

/-- a short outage (the feed is back within the accepted gap) is forgotten without clearing anything -/
theorem band_short_outage_forgotten (b : Band) (height acc : Int) (hs : sampling b height = true) (hc : b.checkFlag = true)
    (hne : b.lastId ≠ b.tempId) (hp : b.discardHeight > 0) (hg : height - b.discardHeight < acc) :
    (bandBegin b height acc).discardBool = b.discardBool ∧ (bandBegin b height acc).discardHeight = -1 := by
  unfold bandBegin
  have h1 : ¬ b.discardHeight < 0 := by omega
  simp [hs, hc, hne, hp, h1, hg]

/-! ### Non-vacuity -/
def demoAssets : List (Nat × Bool) := [(1, true), (2, false), (3, true), (4, true)]
def demoBand : Band := { lastBlock := 10, checkFlag := true, tempId := 6, lastId := 7, results := [(7, [500, 0])], discardHeight := -1, validation := true }
example : sampling demoBand 40 = true ∧ fedWith demoAssets [500, 0] 0 3 = some 0 ∧ fedWith demoAssets [500, 0] 0 4 = none ∧
    fedWith demoAssets [500, 0] 0 2 = none ∧ rankOf demoAssets 3 = 1 := by decide
-- two samples of 500 activate asset 1 (N = 2); asset 3 got a zero sample, asset 4's rate is missing from the result
example : (marketBegin demoBand 2 60 40 demoAssets [] >>= fun r => marketBegin r.1 2 60 60 demoAssets r.2).map
    (fun r => (r.2.get 1).map (fun x => (x.active, x.twa))) = .ok (some (true, 500)) := by rfl
example : (bandBegin { demoBand with tempId := 7 } 40 60).validation = false ∧
    (bandBegin { demoBand with tempId := 7 } 40 60).discardHeight = 40 := by decide
example : (bandBegin { demoBand with discardHeight := 40 } 120 60).discardBool = true := by decide

end Comdex.C17
